(* Lemmas about Model/Regroup.v (property C17). *)
From LedgerV Require Import Base.Prelude Base.Round Model.Amount Proofs.AmountProofs Gen.ByPayeeLabel Model.Regroup.
From Coq Require Import Permutation Sorting.Sorted Morphisms Setoid.
Local Open Scope Z_scope.

(* ====================================================================================== *)
(* 1. std::stable_sort by specification                                                   *)
(* ====================================================================================== *)

Section StableSort.
  Context {A : Type}.
  Variable lt : A -> A -> bool.

  (* x and y are equivalent: neither is less than the other *)
  Definition equiv (x y : A) : bool := negb (lt x y) && negb (lt y x).

  (* the postcondition of std::stable_sort(first, last, comp): the result is a permutation
     of the input, no element is less than an earlier one, and elements that are equivalent
     keep the order they had in the input *)
  Definition is_stable_sort (l l' : list A) : Prop :=
    Permutation l l' /\
    StronglySorted (fun a b => lt b a = false) l' /\
    forall x, In x l -> filter (equiv x) l' = filter (equiv x) l.

  (* strict weak order on the elements satisfying D *)
  Record swo_on (D : A -> Prop) : Prop := {
    swo_irrefl : forall x, D x -> lt x x = false;
    swo_trans  : forall x y z, D x -> D y -> D z -> lt x y = true -> lt y z = true -> lt x z = true;
    swo_equiv  : forall x y z, D x -> D y -> D z ->
                 equiv x y = true -> equiv y z = true -> equiv x z = true
  }.

  Lemma equiv_true x y : equiv x y = true <-> lt x y = false /\ lt y x = false.
  Proof.
    unfold equiv. rewrite andb_true_iff, !negb_true_iff. tauto.
  Qed.

  Lemma equiv_sym x y : equiv x y = equiv y x.
  Proof. unfold equiv. apply andb_comm. Qed.

  (* -------- uniqueness: needs only irreflexivity on the elements -------- *)
  Lemma sorted_perm_stable_unique (D : A -> Prop) :
    (forall x, D x -> lt x x = false) ->
    forall l1 l2,
      Forall D l1 ->
      StronglySorted (fun a b => lt b a = false) l1 ->
      StronglySorted (fun a b => lt b a = false) l2 ->
      Permutation l1 l2 ->
      (forall x, In x l1 -> filter (equiv x) l1 = filter (equiv x) l2) ->
      l1 = l2.
  Proof.
    intros Hirr l1. induction l1 as [|a t1 IH]; intros l2 HD S1 S2 HP HF.
    - apply Permutation_nil in HP. now subst.
    - destruct l2 as [|b t2].
      + apply Permutation_sym, Permutation_nil in HP. discriminate.
      + inversion HD as [|? ? Da Dt]; subst.
        inversion S1 as [|? ? S1t M1]; subst.
        inversion S2 as [|? ? S2t M2]; subst.
        assert (Db : D b).
        { assert (In b (a :: t1)) by (eapply Permutation_in; [apply Permutation_sym; exact HP | now left]).
          rewrite Forall_forall in HD. now apply HD. }
        assert (Hba : lt b a = false).
        { assert (Hin : In b (a :: t1))
            by (eapply Permutation_in; [apply Permutation_sym; exact HP | now left]).
          destruct Hin as [->|Hin]; [now apply Hirr|].
          rewrite Forall_forall in M1. now apply M1. }
        assert (Hab : lt a b = false).
        { assert (Hin : In a (b :: t2)) by (eapply Permutation_in; [exact HP | now left]).
          destruct Hin as [<-|Hin]; [now apply Hirr|].
          rewrite Forall_forall in M2. now apply M2. }
        assert (Eab : equiv a b = true) by (apply equiv_true; split; assumption).
        assert (Eaa : equiv a a = true) by (apply equiv_true; split; now apply Hirr).
        pose proof (HF a (or_introl eq_refl)) as Ha. cbn [filter] in Ha. rewrite Eaa, Eab in Ha.
        injection Ha as Hhd _. subst b.
        f_equal. apply IH; try assumption.
        * eapply Permutation_cons_inv; exact HP.
        * intros x Hin. pose proof (HF x (or_intror Hin)) as Hx. cbn [filter] in Hx.
          destruct (equiv x a); [now injection Hx | exact Hx].
  Qed.

  Theorem stable_sort_unique_on (D : A -> Prop) :
    swo_on D -> forall l l1 l2, Forall D l ->
    is_stable_sort l l1 -> is_stable_sort l l2 -> l1 = l2.
  Proof.
    intros W l l1 l2 HD (P1 & S1 & F1) (P2 & S2 & F2).
    apply (sorted_perm_stable_unique D (swo_irrefl D W)); try assumption.
    - rewrite Forall_forall in *. intros x Hx. apply HD.
      eapply Permutation_in; [apply Permutation_sym; exact P1 | exact Hx].
    - eapply Permutation_trans; [apply Permutation_sym; exact P1 | exact P2].
    - intros x Hx. assert (In x l) by (eapply Permutation_in; [apply Permutation_sym; exact P1 | exact Hx]).
      now rewrite F1, F2.
  Qed.

  (* -------- the insertion sort of the model meets the specification -------- *)
  Lemma insert_perm x s : Permutation (x :: s) (insert lt x s).
  Proof.
    induction s as [|y t IH]; cbn [insert]; [apply Permutation_refl|].
    destruct (lt y x); [|apply Permutation_refl].
    eapply Permutation_trans; [apply perm_swap|]. now apply perm_skip.
  Qed.

  Lemma isort_perm l : Permutation l (isort lt l).
  Proof.
    induction l as [|x l IH]; cbn [isort]; [constructor|].
    eapply Permutation_trans; [apply perm_skip; exact IH | apply insert_perm].
  Qed.

  Lemma swo_asym D : swo_on D -> forall x y, D x -> D y -> lt x y = true -> lt y x = false.
  Proof.
    intros W x y Dx Dy H. destruct (lt y x) eqn:E; [|reflexivity].
    pose proof (swo_trans D W x y x Dx Dy Dx H E) as T.
    rewrite (swo_irrefl D W x Dx) in T. discriminate.
  Qed.

  (* "not greater" is transitive (negative transitivity of a strict weak order) *)
  Lemma swo_le_trans D : swo_on D -> forall a b c, D a -> D b -> D c ->
    lt b a = false -> lt c b = false -> lt c a = false.
  Proof.
    intros W a b c Da Db Dc Hba Hcb.
    destruct (lt c a) eqn:Hca; [exfalso|reflexivity].
    destruct (lt b c) eqn:Hbc.
    { rewrite (swo_trans D W b c a Db Dc Da Hbc Hca) in Hba. discriminate. }
    destruct (lt a b) eqn:Hab.
    { rewrite (swo_trans D W c a b Dc Da Db Hca Hab) in Hcb. discriminate. }
    assert (E1 : equiv a b = true) by (apply equiv_true; split; assumption).
    assert (E2 : equiv b c = true) by (apply equiv_true; split; assumption).
    pose proof (swo_equiv D W a b c Da Db Dc E1 E2) as E3.
    apply equiv_true in E3. destruct E3 as [_ E3]. congruence.
  Qed.

  Lemma insert_in x s y : In y (insert lt x s) -> y = x \/ In y s.
  Proof.
    intros H. apply (Permutation_in _ (Permutation_sym (insert_perm x s))) in H.
    destruct H; auto.
  Qed.

  Lemma insert_sorted D : swo_on D -> forall x s, D x -> Forall D s ->
    StronglySorted (fun a b => lt b a = false) s ->
    StronglySorted (fun a b => lt b a = false) (insert lt x s).
  Proof.
    intros W x s Dx. induction s as [|y t IH]; intros Ds Ss; cbn [insert].
    - constructor; constructor.
    - inversion Ds as [|? ? Dy Dt]; subst. inversion Ss as [|? ? St My]; subst.
      destruct (lt y x) eqn:Hyx.
      + constructor; [now apply IH|].
        rewrite Forall_forall in *. intros z Hz. apply insert_in in Hz. destruct Hz as [->|Hz].
        * eapply swo_asym; eauto.
        * now apply My.
      + constructor; [exact Ss|]. constructor; [exact Hyx|].
        rewrite Forall_forall in *. intros z Hz.
        apply (swo_le_trans D W x y z Dx Dy (Dt z Hz) Hyx (My z Hz)).
  Qed.

  Lemma isort_sorted D : swo_on D -> forall l, Forall D l ->
    StronglySorted (fun a b => lt b a = false) (isort lt l).
  Proof.
    intros W l. induction l as [|x l IH]; intros Dl; cbn [isort]; [constructor|].
    inversion Dl as [|? ? Dx Dl']; subst.
    apply (insert_sorted D W); [assumption| |now apply IH].
    rewrite Forall_forall in *. intros y Hy. apply Dl'.
    eapply Permutation_in; [apply Permutation_sym, isort_perm | exact Hy].
  Qed.

  Lemma insert_filter D : swo_on D -> forall z x s, D z -> D x -> Forall D s ->
    filter (equiv z) (insert lt x s) = filter (equiv z) (x :: s).
  Proof.
    intros W z x s Dz Dx. induction s as [|y t IH]; intros Ds; cbn [insert]; [reflexivity|].
    inversion Ds as [|? ? Dy Dt]; subst.
    destruct (lt y x) eqn:Hyx; [|reflexivity].
    cbn [filter]. rewrite (IH Dt). cbn [filter].
    destruct (equiv z y) eqn:Ezy, (equiv z x) eqn:Ezx; try reflexivity.
    exfalso. rewrite equiv_sym in Ezy.
    pose proof (swo_equiv D W y z x Dy Dz Dx Ezy Ezx) as E.
    apply equiv_true in E. destruct E as [E _]. congruence.
  Qed.

  Lemma isort_filter D : swo_on D -> forall z l, D z -> Forall D l ->
    filter (equiv z) (isort lt l) = filter (equiv z) l.
  Proof.
    intros W z l Dz. induction l as [|x l IH]; intros Dl; cbn [isort]; [reflexivity|].
    inversion Dl as [|? ? Dx Dl']; subst.
    rewrite (insert_filter D W); try assumption.
    - cbn [filter]. now rewrite IH.
    - rewrite Forall_forall in *. intros y Hy. apply Dl'.
      eapply Permutation_in; [apply Permutation_sym, isort_perm | exact Hy].
  Qed.

  Theorem isort_is_stable_sort_on (D : A -> Prop) :
    swo_on D -> forall l, Forall D l -> is_stable_sort l (isort lt l).
  Proof.
    intros W l Dl. split; [apply isort_perm|]. split; [now apply (isort_sorted D)|].
    intros x Hx. apply (isort_filter D W); [|assumption].
    rewrite Forall_forall in Dl. now apply Dl.
  Qed.
End StableSort.

(* ====================================================================================== *)
(* 2. sort_value_is_less_than is a strict weak order                                      *)
(* ====================================================================================== *)

Definition is_Lt (c : comparison) : bool := match c with Lt => true | _ => false end.

Section GoodCmp.
  Context {A : Type}.

  (* a three-way comparison that behaves like one of a total preorder on D *)
  Record good_cmp (D : A -> Prop) (cmp : A -> A -> comparison) : Prop := {
    gc_refl  : forall x, D x -> cmp x x = Eq;
    gc_sym   : forall x y, D x -> D y -> cmp y x = CompOpp (cmp x y);
    gc_trans : forall x y z, D x -> D y -> D z -> cmp x y = Lt -> cmp y z = Lt -> cmp x z = Lt;
    gc_eq    : forall x y z, D x -> D y -> D z -> cmp x y = Eq -> cmp x z = cmp y z
  }.

  Definition lexc (c1 c2 : A -> A -> comparison) (x y : A) : comparison :=
    match c1 x y with Eq => c2 x y | o => o end.
  Definition oppc (inv : bool) (c : A -> A -> comparison) (x y : A) : comparison :=
    if inv then CompOpp (c x y) else c x y.

  Lemma good_weaken (D D' : A -> Prop) cmp :
    (forall x, D' x -> D x) -> good_cmp D cmp -> good_cmp D' cmp.
  Proof.
    intros H G. constructor; intros.
    - apply (gc_refl D cmp G); auto.
    - apply (gc_sym D cmp G); auto.
    - apply (gc_trans D cmp G x y z); auto.
    - apply (gc_eq D cmp G x y z); auto.
  Qed.

  Lemma good_ext (D : A -> Prop) c c' :
    (forall x y, D x -> D y -> c' x y = c x y) -> good_cmp D c -> good_cmp D c'.
  Proof.
    intros H G. constructor.
    - intros x Dx. rewrite H by auto. apply (gc_refl D c G); auto.
    - intros x y Dx Dy. rewrite !H by auto. apply (gc_sym D c G); auto.
    - intros x y z Dx Dy Dz H1 H2. rewrite H in H1 by auto. rewrite H in H2 by auto.
      rewrite H by auto. apply (gc_trans D c G x y z); auto.
    - intros x y z Dx Dy Dz H1. rewrite H in H1 by auto. rewrite !H by auto.
      apply (gc_eq D c G x y z); auto.
  Qed.

  Lemma good_const D : good_cmp D (fun _ _ : A => Eq).
  Proof. constructor; intros; try reflexivity; discriminate. Qed.

  Lemma gc_gt_lt D cmp : good_cmp D cmp -> forall x y, D x -> D y -> cmp x y = Gt -> cmp y x = Lt.
  Proof. intros G x y Dx Dy H. rewrite (gc_sym D cmp G x y Dx Dy), H. reflexivity. Qed.

  Lemma gc_lt_gt D cmp : good_cmp D cmp -> forall x y, D x -> D y -> cmp x y = Lt -> cmp y x = Gt.
  Proof. intros G x y Dx Dy H. rewrite (gc_sym D cmp G x y Dx Dy), H. reflexivity. Qed.

  Lemma gc_eq_sym D cmp : good_cmp D cmp -> forall x y, D x -> D y -> cmp x y = Eq -> cmp y x = Eq.
  Proof. intros G x y Dx Dy H. rewrite (gc_sym D cmp G x y Dx Dy), H. reflexivity. Qed.

  (* x < y, y ~ z  ->  x < z *)
  Lemma gc_lt_eq D cmp : good_cmp D cmp -> forall x y z, D x -> D y -> D z ->
    cmp x y = Lt -> cmp y z = Eq -> cmp x z = Lt.
  Proof.
    intros G x y z Dx Dy Dz H1 H2.
    pose proof (gc_eq_sym D cmp G y z Dy Dz H2) as H3.
    pose proof (gc_eq D cmp G z y x Dz Dy Dx H3) as H4.
    rewrite (gc_lt_gt D cmp G x y Dx Dy H1) in H4.
    now apply (gc_gt_lt D cmp G z x Dz Dx).
  Qed.

  Lemma good_opp D cmp inv : good_cmp D cmp -> good_cmp D (oppc inv cmp).
  Proof.
    intros G. destruct inv; [|exact G]. unfold oppc. constructor.
    - intros x Dx. now rewrite (gc_refl D cmp G).
    - intros x y Dx Dy. rewrite (gc_sym D cmp G x y) by auto. reflexivity.
    - intros x y z Dx Dy Dz H1 H2.
      destruct (cmp x y) eqn:E1; cbn in H1; try discriminate.
      destruct (cmp y z) eqn:E2; cbn in H2; try discriminate.
      pose proof (gc_gt_lt D cmp G x y Dx Dy E1) as L1.
      pose proof (gc_gt_lt D cmp G y z Dy Dz E2) as L2.
      pose proof (gc_trans D cmp G z y x Dz Dy Dx L2 L1) as T.
      now rewrite (gc_lt_gt D cmp G z x Dz Dx T).
    - intros x y z Dx Dy Dz H1.
      destruct (cmp x y) eqn:E1; cbn in H1; try discriminate.
      now rewrite (gc_eq D cmp G x y z Dx Dy Dz E1).
  Qed.

  Lemma good_lex D c1 c2 : good_cmp D c1 -> good_cmp D c2 -> good_cmp D (lexc c1 c2).
  Proof.
    intros G1 G2. unfold lexc. constructor.
    - intros x Dx. rewrite (gc_refl D c1 G1) by auto. now apply (gc_refl D c2 G2).
    - intros x y Dx Dy. rewrite (gc_sym D c1 G1 x y) by auto. destruct (c1 x y); cbn; try reflexivity.
      now apply (gc_sym D c2 G2).
    - intros x y z Dx Dy Dz H1 H2.
      destruct (c1 x y) eqn:E1; try discriminate; destruct (c1 y z) eqn:E2; try discriminate.
      + rewrite (gc_eq D c1 G1 x y z Dx Dy Dz E1), E2. now apply (gc_trans D c2 G2 x y z).
      + now rewrite (gc_eq D c1 G1 x y z Dx Dy Dz E1), E2.
      + now rewrite (gc_lt_eq D c1 G1 x y z Dx Dy Dz E1 E2).
      + now rewrite (gc_trans D c1 G1 x y z Dx Dy Dz E1 E2).
    - intros x y z Dx Dy Dz H1.
      destruct (c1 x y) eqn:E1; try discriminate.
      rewrite (gc_eq D c1 G1 x y z Dx Dy Dz E1). destruct (c1 y z); try reflexivity.
      now apply (gc_eq D c2 G2 x y z).
  Qed.

  Lemma good_swo D cmp (lt : A -> A -> bool) :
    good_cmp D cmp -> (forall a b, D a -> D b -> lt a b = is_Lt (cmp a b)) -> swo_on lt D.
  Proof.
    intros G H.
    assert (EQ : forall x y, D x -> D y -> (equiv lt x y = true <-> cmp x y = Eq)).
    { intros x y Dx Dy. rewrite equiv_true, !H by auto.
      rewrite (gc_sym D cmp G x y Dx Dy). destruct (cmp x y); cbn; intuition congruence. }
    constructor.
    - intros x Dx. rewrite H by auto. now rewrite (gc_refl D cmp G).
    - intros x y z Dx Dy Dz. rewrite !H by auto.
      destruct (cmp x y) eqn:E1; try discriminate. destruct (cmp y z) eqn:E2; try discriminate.
      intros _ _. now rewrite (gc_trans D cmp G x y z Dx Dy Dz E1 E2).
    - intros x y z Dx Dy Dz. rewrite !EQ by auto. intros E1 E2.
      now rewrite (gc_eq D cmp G x y z Dx Dy Dz E1).
  Qed.
End GoodCmp.

Lemma good_pullback {A B} (f : A -> B) (D : B -> Prop) cmp :
  good_cmp D cmp -> good_cmp (fun a => D (f a)) (fun a b => cmp (f a) (f b)).
Proof.
  intros G. constructor; intros.
  - now apply (gc_refl D cmp G).
  - now apply (gc_sym D cmp G).
  - now apply (gc_trans D cmp G (f x) (f y) (f z)).
  - now apply (gc_eq D cmp G (f x) (f y) (f z)).
Qed.

(* ---- the base comparisons ---- *)
Lemma good_Zcompare : good_cmp (fun _ : Z => True) Z.compare.
Proof.
  constructor; intros.
  - apply Z.compare_refl.
  - apply Z.compare_antisym.
  - rewrite Z.compare_lt_iff in *. lia.
  - apply Z.compare_eq in H2. now subst.
Qed.

Lemma str_compare_refl a : str_compare a a = Eq.
Proof. induction a as [|x a IH]; cbn [str_compare]; [reflexivity|]. now rewrite Z.compare_refl. Qed.

Lemma str_compare_antisym a : forall b, str_compare b a = CompOpp (str_compare a b).
Proof.
  induction a as [|x a IH]; intros [|y b]; cbn [str_compare]; try reflexivity.
  rewrite (Z.compare_antisym x y). destruct (x ?= y); cbn; try reflexivity. apply IH.
Qed.

Lemma str_compare_eq a : forall b, str_compare a b = Eq -> a = b.
Proof.
  induction a as [|x a IH]; intros [|y b]; cbn [str_compare]; try discriminate; try reflexivity.
  destruct (x ?= y) eqn:E; try discriminate. intros H. apply Z.compare_eq in E. subst.
  f_equal. now apply IH.
Qed.

Lemma str_compare_trans a : forall b c,
  str_compare a b = Lt -> str_compare b c = Lt -> str_compare a c = Lt.
Proof.
  induction a as [|x a IH]; intros [|y b] [|z c]; cbn [str_compare]; try discriminate; try reflexivity.
  destruct (x ?= y) eqn:E1; try discriminate; destruct (y ?= z) eqn:E2; try discriminate; intros H1 H2.
  - apply Z.compare_eq in E1, E2. subst. rewrite Z.compare_refl. eapply IH; eauto.
  - apply Z.compare_eq in E1. subst. now rewrite E2.
  - apply Z.compare_eq in E2. subst. now rewrite E1.
  - rewrite Z.compare_lt_iff in E1, E2. assert (x < z) by lia.
    rewrite <- Z.compare_lt_iff in H. now rewrite H.
Qed.

Lemma good_str_compare : good_cmp (fun _ : str => True) str_compare.
Proof.
  constructor; intros.
  - apply str_compare_refl.
  - apply str_compare_antisym.
  - eapply str_compare_trans; eauto.
  - apply str_compare_eq in H2. now subst.
Qed.

Lemma good_Qcompare : good_cmp (fun _ : Q => True) Qcompare.
Proof.
  constructor; intros.
  - apply Qeq_alt. reflexivity.
  - symmetry. apply Qcompare_antisym.
  - rewrite <- Qlt_alt in *. eapply Qlt_trans; eauto.
  - apply Qeq_alt in H2. now rewrite H2.
Qed.

(* ---- sort values of one kind ---- *)
Definition is_kdate (k : kval) : Prop := exists d, k = KDate d.
Definition is_kstr (k : kval) : Prop := exists s, k = KStr s.
Definition kamt_in (d : adom) (k : kval) : Prop :=
  exists c q, k = KAmt c q /\
    match d with
    | DAll => c <> None
    | DOne c0 => c = None \/ c = Some c0
    end.

Definition kdate_of (k : kval) : Z := match k with KDate d => d | _ => 0 end.
Definition kstr_of (k : kval) : str := match k with KStr s => s | _ => [] end.
Definition kq_of (k : kval) : Q := match k with KAmt _ q => q | _ => 0%Q end.
Definition ksym_of (k : kval) : str := match k with KAmt c _ => sym_of c | _ => [] end.

Lemma good_kdate : good_cmp is_kdate k_cmp.
Proof.
  apply (good_ext _ (fun a b => Z.compare (kdate_of a) (kdate_of b))).
  - intros x y [d ->] [e ->]. reflexivity.
  - apply (good_weaken (fun a => True)); [trivial|]. apply (good_pullback kdate_of _ _ good_Zcompare).
Qed.

Lemma good_kstr : good_cmp is_kstr k_cmp.
Proof.
  apply (good_ext _ (fun a b => str_compare (kstr_of a) (kstr_of b))).
  - intros x y [d ->] [e ->]. reflexivity.
  - apply (good_weaken (fun a => True)); [trivial|]. apply (good_pullback kstr_of _ _ good_str_compare).
Qed.

Lemma str_eqb_false_compare a b : str_eqb a b = false -> str_compare a b <> Eq.
Proof.
  intros H E. apply str_compare_eq in E. subst. rewrite str_eqb_refl in H. discriminate.
Qed.

Lemma good_kamt d : good_cmp (kamt_in d) k_cmp.
Proof.
  destruct d as [|c0].
  - (* every amount has a commodity: by symbol, then by quantity *)
    apply (good_ext _ (lexc (fun a b => str_compare (ksym_of a) (ksym_of b))
                            (fun a b => Qcompare (kq_of a) (kq_of b)))).
    + intros x y (c & q & -> & Hc) (c' & q' & -> & Hc').
      destruct c as [s|]; [|congruence]. destruct c' as [s'|]; [|congruence].
      unfold lexc. cbn. destruct (str_eqb s s') eqn:E.
      * apply str_eqb_spec in E. subst. now rewrite str_compare_refl.
      * apply str_eqb_false_compare in E. cbn [orb]. destruct (str_compare s s'); congruence.
    + apply good_lex; (apply (good_weaken (fun a => True)); [trivial|]).
      * apply (good_pullback ksym_of _ _ good_str_compare).
      * apply (good_pullback kq_of _ _ good_Qcompare).
  - (* one commodity and numbers without commodity: by quantity *)
    apply (good_ext _ (fun a b => Qcompare (kq_of a) (kq_of b))).
    + intros x y (c & q & -> & Hc) (c' & q' & -> & Hc'). cbn.
      destruct Hc as [->| ->], Hc' as [->| ->]; cbn; try reflexivity.
      now rewrite str_eqb_refl.
    + apply (good_weaken (fun a => True)); [trivial|]. apply (good_pullback kq_of _ _ good_Qcompare).
Qed.

(* ---- the sort values of a posting under one key, then under a key list ---- *)
Definition key_dom (d : adom) (k : skey) (p : post) : Prop := amt_in_dom d (key_val k p) = true.

Lemma comm_eqb_Some_eq c c0 : comm_eqb c (Some c0) = true -> c = Some c0.
Proof. intros H. now apply comm_eqb_eq in H. Qed.

Lemma good_key d k :
  good_cmp (key_dom d k) (fun a b => k_cmp (key_val k a) (key_val k b)).
Proof.
  destruct k.
  - apply (good_weaken (fun p => is_kdate (key_val SDate p))).
    + intros p _. eexists. reflexivity.
    + apply (good_pullback (key_val SDate) _ _ good_kdate).
  - apply (good_weaken (fun p => is_kstr (key_val SPayee p))).
    + unfold key_dom. intros p. cbn. destruct (ppayee p); cbn; try discriminate. intros _. eexists. reflexivity.
    + apply (good_pullback (key_val SPayee) _ _ good_kstr).
  - apply (good_weaken (fun p => is_kstr (key_val SAccount p))).
    + intros p _. eexists. reflexivity.
    + apply (good_pullback (key_val SAccount) _ _ good_kstr).
  - apply (good_weaken (fun p => kamt_in d (key_val SAmount p))).
    + unfold key_dom. intros p. unfold key_val.
      assert (K : forall c q, amt_in_dom d (KAmt c q) = true -> kamt_in d (KAmt c q)).
      { intros c q H. exists c, q. split; [reflexivity|]. destruct d as [|c0]; cbn in H.
        * destruct c; [discriminate|]. discriminate.
        * apply orb_true_iff in H. destruct H as [H|H].
          -- destruct c; [discriminate|]. now left.
          -- right. now apply comm_eqb_Some_eq. }
      destruct (simplify (pamt p)); cbn [amt_in_dom]; try discriminate; apply K.
    + apply (good_pullback (key_val SAmount) _ _ (good_kamt d)).
Qed.

Fixpoint post_cmp (ks : list (bool * skey)) (a b : post) : comparison :=
  match ks with
  | [] => Eq
  | (inv, k) :: ks' =>
      lexc (oppc inv (fun a b => k_cmp (key_val k a) (key_val k b))) (post_cmp ks') a b
  end.

Definition sort_dom (ks : list (bool * skey)) (d : adom) (p : post) : Prop :=
  post_in_dom ks d p = true.

Lemma sort_dom_cons inv k ks d p :
  sort_dom ((inv, k) :: ks) d p <-> key_dom d k p /\ sort_dom ks d p.
Proof. unfold sort_dom, post_in_dom, key_dom. cbn [forallb snd]. apply andb_true_iff. Qed.

Lemma good_post_cmp ks d : good_cmp (sort_dom ks d) (post_cmp ks).
Proof.
  induction ks as [|[inv k] ks IH].
  - apply good_const.
  - cbn [post_cmp]. apply good_lex.
    + apply (good_weaken (key_dom d k)); [intros p H; now apply sort_dom_cons in H|].
      apply good_opp, good_key.
    + apply (good_weaken (sort_dom ks d)); [intros p H; now apply sort_dom_cons in H|]. exact IH.
Qed.

Lemma amt_in_dom_not_bal d k : amt_in_dom d k = true -> is_kbal k = false.
Proof. destruct k; cbn; congruence. Qed.

Lemma post_lt_cmp ks d a b :
  sort_dom ks d a -> sort_dom ks d b -> post_lt ks a b = is_Lt (post_cmp ks a b).
Proof.
  induction ks as [|[inv k] ks IH]; intros Da Db; [reflexivity|].
  apply sort_dom_cons in Da, Db. destruct Da as [Ka Da], Db as [Kb Db].
  cbn [post_lt post_cmp]. unfold lexc, oppc.
  rewrite (amt_in_dom_not_bal d _ Ka), (amt_in_dom_not_bal d _ Kb). cbn [orb].
  unfold k_lt.
  rewrite (gc_sym _ _ (good_key d k) a b Ka Kb).
  destruct (k_cmp (key_val k a) (key_val k b)); cbn [CompOpp]; destruct inv; cbn; try reflexivity;
    now apply IH.
Qed.

Theorem post_lt_swo ks d : swo_on (post_lt ks) (sort_dom ks d).
Proof.
  apply (good_swo _ (post_cmp ks)); [apply good_post_cmp|]. intros. now apply (post_lt_cmp ks d).
Qed.

Lemma sort_determined_dom ks l :
  sort_determined ks l = true -> exists d, Forall (sort_dom ks d) l.
Proof.
  unfold sort_determined. intros H. apply orb_true_iff in H. destruct H as [H|H].
  - exists DAll. apply Forall_forall. rewrite forallb_forall in H. exact H.
  - destruct (first_comm l) as [c|].
    + exists (DOne c). apply Forall_forall. rewrite forallb_forall in H. exact H.
    + exists (DOne []). apply Forall_forall. rewrite forallb_forall in H. exact H.
Qed.

(* --sort: the model's output is the unique result std::stable_sort may return *)
Theorem sort_posts_spec ks l l' :
  sort_posts ks l = Ok l' -> sort_determined ks l = true ->
  is_stable_sort (post_lt ks) l l' /\
  forall l'', is_stable_sort (post_lt ks) l l'' -> l'' = l'.
Proof.
  unfold sort_posts. destruct (forallb (keys_ok ks) l); [|discriminate].
  intros H Hd. injection H as <-. destruct (sort_determined_dom ks l Hd) as [d Dl].
  pose proof (isort_is_stable_sort_on (post_lt ks) _ (post_lt_swo ks d) l Dl) as S.
  split; [exact S|]. intros l'' S'.
  apply (stable_sort_unique_on (post_lt ks) _ (post_lt_swo ks d) l l'' _ Dl S' S).
Qed.

Theorem sort_posts_perm ks l l' :
  sort_posts ks l = Ok l' -> Permutation l l' /\ Permutation (map pamt l) (map pamt l').
Proof.
  unfold sort_posts. destruct (forallb (keys_ok ks) l); [|discriminate].
  intros H. injection H as <-. split; [apply isort_perm|]. apply Permutation_map, isort_perm.
Qed.

(* ====================================================================================== *)
(* 3. truncate_xacts keeps the first / last N transactions of the stream                  *)
(* ====================================================================================== *)

Section TruncSpec.
  Context {A : Type}.
  Variable xact : A -> Z.

  (* the transactions of a stream: maximal blocks of consecutive items of one transaction *)
  Fixpoint xruns (l : list A) : list (list A) :=
    match l with
    | [] => []
    | p :: l' =>
        match l' with
        | [] => [[p]]
        | q :: _ =>
            if xact p =? xact q
            then match xruns l' with
                 | r :: rs => (p :: r) :: rs
                 | [] => [[p]]
                 end
            else [p] :: xruns l'
        end
    end.

  Lemma xruns_cons2 p q l :
    xruns (p :: q :: l) =
    if xact p =? xact q
    then match xruns (q :: l) with r :: rs => (p :: r) :: rs | [] => [[p]] end
    else [p] :: xruns (q :: l).
  Proof. reflexivity. Qed.

  Lemma xruns_nonnil p l : xruns (p :: l) <> [].
  Proof.
    destruct l as [|q l]; [discriminate|]. rewrite xruns_cons2.
    destruct (xact p =? xact q); [|discriminate].
    destruct (xruns (q :: l)); discriminate.
  Qed.

  Lemma xruns_concat l : concat (xruns l) = l.
  Proof.
    induction l as [|p l IH]; [reflexivity|].
    destruct l as [|q l]; [reflexivity|]. rewrite xruns_cons2.
    destruct (xact p =? xact q).
    - destruct (xruns (q :: l)) as [|r rs] eqn:E; [now apply xruns_nonnil in E|].
      cbn [concat app] in *. now rewrite IH.
    - cbn [concat app]. now rewrite IH.
  Qed.

  (* run k of `rs` gets index k0 + k *)
  Fixpoint tag (k : Z) (rs : list (list A)) : list (A * Z) :=
    match rs with
    | [] => []
    | r :: rs' => map (fun p => (p, k)) r ++ tag (k + 1) rs'
    end.

  (* the runs whose index satisfies f *)
  Fixpoint select (f : Z -> bool) (k : Z) (rs : list (list A)) : list A :=
    match rs with
    | [] => []
    | r :: rs' => (if f k then r else []) ++ select f (k + 1) rs'
    end.

  Lemma select_tag f k rs :
    map fst (filter (fun pj => f (snd pj)) (tag k rs)) = select f k rs.
  Proof.
    revert k. induction rs as [|r rs IH]; intros k; [reflexivity|].
    cbn [tag select]. rewrite filter_app, map_app, IH. f_equal.
    induction r as [|p r IHr]; cbn [map filter snd]; [now destruct (f k)|].
    destruct (f k) eqn:E; cbn [map fst]; [now rewrite IHr|exact IHr].
  Qed.

  Lemma select_ext f g k rs :
    (forall i, k <= i -> f i = g i) -> select f k rs = select g k rs.
  Proof.
    revert k. induction rs as [|r rs IH]; intros k H; [reflexivity|].
    cbn [select]. rewrite (H k) by lia. f_equal. apply IH. intros i Hi. apply H. lia.
  Qed.

  Lemma select_all f k rs : (forall i, k <= i -> f i = true) -> select f k rs = concat rs.
  Proof.
    revert k. induction rs as [|r rs IH]; intros k H; [reflexivity|].
    cbn [select concat]. rewrite (H k) by lia. f_equal. apply IH. intros i Hi. apply H. lia.
  Qed.

  Lemma select_none f k rs : (forall i, k <= i -> f i = false) -> select f k rs = [].
  Proof.
    revert k. induction rs as [|r rs IH]; intros k H; [reflexivity|].
    cbn [select]. rewrite (H k) by lia. cbn [app]. apply IH. intros i Hi. apply H. lia.
  Qed.

  Lemma select_firstn n k rs :
    select (fun i => i <? n) k rs = concat (firstn (Z.to_nat (n - k)) rs).
  Proof.
    revert k. induction rs as [|r rs IH]; intros k; [now rewrite firstn_nil|].
    cbn [select]. destruct (k <? n) eqn:E.
    - apply Z.ltb_lt in E. replace (Z.to_nat (n - k)) with (S (Z.to_nat (n - (k + 1)))) by lia.
      cbn [firstn concat]. now rewrite IH.
    - apply Z.ltb_ge in E. replace (Z.to_nat (n - k)) with 0%nat by lia.
      cbn [firstn concat app]. apply select_none. intros i Hi. apply Z.ltb_ge. lia.
  Qed.

  Lemma select_skipn n k rs :
    select (fun i => n <=? i) k rs = concat (skipn (Z.to_nat (n - k)) rs).
  Proof.
    revert k. induction rs as [|r rs IH]; intros k; [now rewrite skipn_nil|].
    cbn [select]. destruct (n <=? k) eqn:E.
    - apply Z.leb_le in E. replace (Z.to_nat (n - k)) with 0%nat by lia.
      cbn [skipn concat]. f_equal. apply select_all. intros i Hi. apply Z.leb_le. lia.
    - apply Z.leb_gt in E. replace (Z.to_nat (n - k)) with (S (Z.to_nat (n - (k + 1)))) by lia.
      cbn [skipn app]. apply IH.
  Qed.

  (* the transaction index truncate_xacts::flush assigns to each stored item *)
  Fixpoint labels (x : Z) (i : Z) (l : list A) : list Z :=
    match l with
    | [] => []
    | p :: l' => let i' := if xact p =? x then i else i + 1 in i' :: labels (xact p) i' l'
    end.

  Lemma labels_cons x i p l :
    labels x i (p :: l) =
    (if xact p =? x then i else i + 1) :: labels (xact p) (if xact p =? x then i else i + 1) l.
  Proof. reflexivity. Qed.

  Lemma labels_tag x i p l :
    combine (p :: l) (labels x i (p :: l)) = tag (if xact p =? x then i else i + 1) (xruns (p :: l)).
  Proof.
    revert x i p. induction l as [|q l IH]; intros x i p.
    - cbn. reflexivity.
    - rewrite labels_cons. set (i' := if xact p =? x then i else i + 1).
      change (combine (p :: q :: l) (i' :: labels (xact p) i' (q :: l)))
        with ((p, i') :: combine (q :: l) (labels (xact p) i' (q :: l))).
      rewrite IH. rewrite xruns_cons2. rewrite (Z.eqb_sym (xact q) (xact p)).
      destruct (xact p =? xact q).
      + destruct (xruns (q :: l)) as [|r rs] eqn:E; [now apply xruns_nonnil in E|].
        reflexivity.
      + reflexivity.
  Qed.

  Lemma count_changes_cons x p l :
    count_changes xact x (p :: l) = (if xact p =? x then 0 else 1) + count_changes xact (xact p) l.
  Proof. reflexivity. Qed.

  Lemma count_changes_runs x p l :
    count_changes xact x (p :: l) + (if xact p =? x then 1 else 0) = Z.of_nat (length (xruns (p :: l))).
  Proof.
    revert x p. induction l as [|q l IH]; intros x p.
    - cbn. destruct (xact p =? x); reflexivity.
    - rewrite count_changes_cons. pose proof (IH (xact p) q) as H. rewrite xruns_cons2.
      rewrite (Z.eqb_sym (xact q) (xact p)) in H.
      destruct (xact p =? xact q).
      + destruct (xruns (q :: l)) as [|r rs] eqn:E; [now apply xruns_nonnil in E|].
        cbn [length] in *. destruct (xact p =? x); lia.
      + cbn [length]. destruct (xact p =? x); lia.
  Qed.

  Variables head tail : Z.

  Lemma trunc_emit_labels L x i ps :
    trunc_emit xact head tail L x i ps =
    map fst (filter (fun pj => trunc_print head tail L (snd pj)) (combine ps (labels x i ps))).
  Proof.
    revert x i. induction ps as [|p ps IH]; intros x i; [reflexivity|].
    cbn [trunc_emit labels combine filter snd].
    destruct (trunc_print head tail L (if xact p =? x then i else i + 1)); cbn [map fst]; now rewrite IH.
  Qed.

  (* flush(): the runs whose index passes the head/tail test *)
  Lemma trunc_flush_select l :
    trunc_flush xact head tail l =
    select (trunc_print head tail (Z.of_nat (length (xruns l)))) 0 (xruns l).
  Proof.
    destruct l as [|p l]; [reflexivity|].
    unfold trunc_flush. rewrite trunc_emit_labels, labels_tag, Z.eqb_refl.
    pose proof (count_changes_runs (xact p) p l) as H. rewrite Z.eqb_refl in H. rewrite H.
    apply select_tag.
  Qed.

  (* the shortcut of operator() (stop storing once head_count transactions were seen, when
     only --head is given) does not change what flush() prints *)
  Definition hot : bool := (tail =? 0) && (0 <? head).

  Lemma trunc_store_cold last seen l : hot = false -> trunc_store xact head tail last seen l = l.
  Proof.
    unfold hot. intros H. revert last seen. induction l as [|p l IH]; intros last seen; [reflexivity|].
    cbn [trunc_store]. rewrite H. cbn [andb]. now rewrite IH.
  Qed.

  Lemma hot_print L i : hot = true -> trunc_print head tail L i = (i <? head).
  Proof.
    unfold hot, trunc_print. intros H. apply andb_true_iff in H. destruct H as [Ht Hh].
    rewrite Ht, Hh. apply Z.ltb_lt in Hh. replace (head =? 0) with false by (symmetry; apply Z.eqb_neq; lia).
    now rewrite orb_false_r.
  Qed.

  Lemma trunc_emit_past L x i ps : hot = true -> head <= i -> trunc_emit xact head tail L x i ps = [].
  Proof.
    intros H. revert x i. induction ps as [|p ps IH]; intros x i Hi; [reflexivity|].
    cbn [trunc_emit]. rewrite (hot_print _ _ H).
    replace ((if xact p =? x then i else i + 1) <? head) with false
      by (symmetry; apply Z.ltb_ge; destruct (xact p =? x); lia).
    apply IH. destruct (xact p =? x); lia.
  Qed.

  Lemma trunc_store_hot x i p ps : hot = true ->
    trunc_store xact head tail (Some x) i (p :: ps) =
    let i' := if xact p =? x then i else i + 1 in
    if head <=? i' then [] else p :: trunc_store xact head tail (Some (xact p)) i' ps.
  Proof.
    unfold hot. intros H. apply andb_true_iff in H. destruct H as [Ht Hh].
    cbn [trunc_store]. now rewrite Ht, Hh.
  Qed.

  Lemma trunc_emit_cons L x i p ps :
    trunc_emit xact head tail L x i (p :: ps) =
    let i' := if xact p =? x then i else i + 1 in
    if trunc_print head tail L i' then p :: trunc_emit xact head tail L (xact p) i' ps
    else trunc_emit xact head tail L (xact p) i' ps.
  Proof. reflexivity. Qed.

  Lemma trunc_emit_store L L' x i ps : hot = true ->
    trunc_emit xact head tail L' x i (trunc_store xact head tail (Some x) i ps) =
    trunc_emit xact head tail L x i ps.
  Proof.
    intros H. revert x i. induction ps as [|p ps IH]; intros x i; [reflexivity|].
    rewrite (trunc_store_hot _ _ _ _ H), trunc_emit_cons. cbv zeta.
    set (i' := if xact p =? x then i else i + 1).
    rewrite (hot_print L i' H).
    destruct (head <=? i') eqn:E.
    - apply Z.leb_le in E. replace (i' <? head) with false by (symmetry; apply Z.ltb_ge; lia).
      cbn [trunc_emit]. symmetry. now apply trunc_emit_past.
    - apply Z.leb_gt in E. replace (i' <? head) with true by (symmetry; apply Z.ltb_lt; lia).
      rewrite trunc_emit_cons. cbv zeta. fold i'. rewrite (hot_print L' i' H).
      replace (i' <? head) with true by (symmetry; apply Z.ltb_lt; lia).
      f_equal. apply IH.
  Qed.

  Lemma truncate_flush l : truncate xact head tail l = trunc_flush xact head tail l.
  Proof.
    unfold truncate. destruct hot eqn:H; [|now rewrite trunc_store_cold].
    destruct l as [|p l]; [reflexivity|].
    cbn [trunc_store]. pose proof H as H'. unfold hot in H'. apply andb_true_iff in H'.
    destruct H' as [Ht Hh]. rewrite Ht, Hh. cbn [andb].
    apply Z.ltb_lt in Hh. replace (head <=? 0) with false by (symmetry; apply Z.leb_gt; lia).
    unfold trunc_flush. cbn [trunc_emit]. rewrite Z.eqb_refl, !(hot_print _ _ H).
    replace (0 <? head) with true by (symmetry; apply Z.ltb_lt; lia).
    f_equal. now apply trunc_emit_store.
  Qed.

  (* every integer head/tail count: the kept transactions are those whose index i satisfies
     the test of flush() *)
  Theorem truncate_select l :
    truncate xact head tail l =
    select (trunc_print head tail (Z.of_nat (length (xruns l)))) 0 (xruns l).
  Proof. rewrite truncate_flush. apply trunc_flush_select. Qed.
End TruncSpec.

(* --head n alone: the first n transactions; nothing for n = 0; everything beyond the count *)
Theorem head_spec {A} (xact : A -> Z) n l : 0 <= n ->
  truncate xact n 0 l = concat (firstn (Z.to_nat n) (xruns xact l)).
Proof.
  intros Hn. rewrite truncate_select.
  rewrite (select_ext _ (fun i => i <? n) 0).
  - rewrite select_firstn. now rewrite Z.sub_0_r.
  - intros i Hi. unfold trunc_print. cbn [Z.eqb orb]. rewrite orb_false_r.
    destruct (n =? 0) eqn:E.
    + apply Z.eqb_eq in E. subst. symmetry. apply Z.ltb_ge. lia.
    + apply Z.eqb_neq in E. replace (0 <? n) with true by (symmetry; apply Z.ltb_lt; lia). reflexivity.
Qed.

(* --tail n alone: the last n transactions *)
Theorem tail_spec {A} (xact : A -> Z) n l : 0 <= n ->
  truncate xact 0 n l =
  concat (skipn (length (xruns xact l) - Z.to_nat n) (xruns xact l)).
Proof.
  intros Hn. rewrite truncate_select. set (L := Z.of_nat (length (xruns xact l))).
  destruct (n =? 0) eqn:E.
  - apply Z.eqb_eq in E. subst n. rewrite select_none.
    + change (Z.to_nat 0) with 0%nat. rewrite Nat.sub_0_r, skipn_all. reflexivity.
    + intros i _. reflexivity.
  - apply Z.eqb_neq in E. rewrite (select_ext _ (fun i => L - n <=? i) 0).
    + rewrite select_skipn. f_equal. f_equal. lia.
    + intros i Hi. unfold trunc_print. cbn [Z.eqb orb].
      replace (n =? 0) with false by (symmetry; apply Z.eqb_neq; lia).
      replace (0 <? n) with true by (symmetry; apply Z.ltb_lt; lia).
      destruct (L - i <=? n) eqn:F; symmetry.
      * apply Z.leb_le in F. apply Z.leb_le. lia.
      * apply Z.leb_gt in F. apply Z.leb_gt. lia.
Qed.

(* both: transaction i of L is kept iff i < head or i >= L - tail *)
Theorem head_tail_both_spec {A} (xact : A -> Z) h t l : 0 < h -> 0 < t ->
  truncate xact h t l =
  select (fun i => (i <? h) || (Z.of_nat (length (xruns xact l)) - t <=? i)) 0 (xruns xact l).
Proof.
  intros Hh Ht. rewrite truncate_select. apply select_ext. intros i Hi. unfold trunc_print.
  replace (h =? 0) with false by (symmetry; apply Z.eqb_neq; lia).
  replace (t =? 0) with false by (symmetry; apply Z.eqb_neq; lia).
  replace (0 <? h) with true by (symmetry; apply Z.ltb_lt; lia).
  replace (0 <? t) with true by (symmetry; apply Z.ltb_lt; lia).
  f_equal. set (L := Z.of_nat (length (xruns xact l))).
  destruct (L - i <=? t) eqn:F; symmetry.
  - apply Z.leb_le in F. apply Z.leb_le. lia.
  - apply Z.leb_gt in F. apply Z.leb_gt. lia.
Qed.

(* negative counts, as coded: --head -n drops the first n, --tail -n drops the last n *)
Theorem head_negative_spec {A} (xact : A -> Z) n l : 0 < n ->
  truncate xact (- n) 0 l = concat (skipn (Z.to_nat n) (xruns xact l)).
Proof.
  intros Hn. rewrite truncate_select. rewrite (select_ext _ (fun i => n <=? i) 0).
  - rewrite select_skipn. now rewrite Z.sub_0_r.
  - intros i Hi. unfold trunc_print. cbn [Z.eqb orb]. rewrite orb_false_r.
    replace (- n =? 0) with false by (symmetry; apply Z.eqb_neq; lia).
    replace (0 <? - n) with false by (symmetry; apply Z.ltb_ge; lia).
    now rewrite Z.opp_involutive.
Qed.

Theorem tail_negative_spec {A} (xact : A -> Z) n l : 0 < n ->
  truncate xact 0 (- n) l =
  concat (firstn (length (xruns xact l) - Z.to_nat n) (xruns xact l)).
Proof.
  intros Hn. rewrite truncate_select. set (L := Z.of_nat (length (xruns xact l))).
  rewrite (select_ext _ (fun i => i <? L - n) 0).
  - rewrite select_firstn. f_equal. f_equal. lia.
  - intros i Hi. unfold trunc_print. cbn [Z.eqb orb].
    replace (- n =? 0) with false by (symmetry; apply Z.eqb_neq; lia).
    replace (0 <? - n) with false by (symmetry; apply Z.ltb_ge; lia).
    rewrite Z.opp_involutive.
    destruct (n <? L - i) eqn:F; symmetry.
    + apply Z.ltb_lt in F. apply Z.ltb_lt. lia.
    + apply Z.ltb_ge in F. apply Z.ltb_ge. lia.
Qed.

Corollary head_zero {A} (xact : A -> Z) l : truncate xact 0 0 l = [].
Proof. rewrite head_spec by lia. reflexivity. Qed.

Corollary head_beyond {A} (xact : A -> Z) n l :
  Z.of_nat (length (xruns xact l)) <= n -> truncate xact n 0 l = l.
Proof.
  intros H. rewrite head_spec by lia. rewrite firstn_all2 by lia. apply xruns_concat.
Qed.

Corollary tail_beyond {A} (xact : A -> Z) n l :
  Z.of_nat (length (xruns xact l)) <= n -> truncate xact 0 n l = l.
Proof.
  intros H. rewrite tail_spec by lia.
  replace (length (xruns xact l) - Z.to_nat n)%nat with 0%nat by lia. apply xruns_concat.
Qed.

(* ====================================================================================== *)
(* 4. regrouping handlers: every group is the exact per-commodity sum of its members      *)
(* ====================================================================================== *)
From Coq Require Import Lqa.

(* the exact quantity of commodity c in the amounts of a list of postings *)
Fixpoint sum_den (l : list post) (c : option comm) : Q :=
  match l with
  | [] => 0
  | p :: l' => den (pamt p) c + sum_den l' c
  end.

Lemma sum_den_app l1 l2 c : (sum_den (l1 ++ l2) c == sum_den l1 c + sum_den l2 c)%Q.
Proof. induction l1 as [|p l1 IH]; cbn [sum_den app]; [lra|]. rewrite IH. lra. Qed.

Lemma sum_den_perm l1 l2 c : Permutation l1 l2 -> (sum_den l1 c == sum_den l2 c)%Q.
Proof.
  induction 1; cbn [sum_den]; try lra.
Qed.

(* ---- subtotal_posts ---- *)
Definition acct_is (k : str) (p : post) : bool := str_eqb (pacct p) k.

(* what the map holds under key k / in all entries *)
Fixpoint vm_at (k : str) (m : values_map) (c : option comm) : Q :=
  match m with
  | [] => 0
  | e :: m' => (if str_eqb (fst e) k then den (fst (snd e)) c else 0) + vm_at k m' c
  end.

Fixpoint vm_total (m : values_map) (c : option comm) : Q :=
  match m with
  | [] => 0
  | e :: m' => den (fst (snd e)) c + vm_total m' c
  end.

Definition str_lt (a b : str) : Prop := str_compare a b = Lt.

Lemma str_compare_eq_eqb a b : str_compare a b = Eq -> str_eqb a b = true.
Proof. intros H. apply str_compare_eq in H. subst. apply str_eqb_refl. Qed.

Lemma str_compare_ne_eqb a b : str_compare a b <> Eq -> str_eqb a b = false.
Proof.
  intros H. destruct (str_eqb a b) eqn:E; [|reflexivity].
  apply str_eqb_spec in E. subst. now rewrite str_compare_refl in H.
Qed.

Lemma str_eqb_sym a b : str_eqb a b = str_eqb b a.
Proof.
  destruct (str_eqb a b) eqn:E.
  - apply str_eqb_spec in E. subst. now rewrite str_eqb_refl.
  - destruct (str_eqb b a) eqn:F; [|reflexivity]. apply str_eqb_spec in F. subst.
    now rewrite str_eqb_refl in E.
Qed.

Lemma sub_insert_at k v virt m m' k0 c :
  sub_insert k v virt m = Ok m' ->
  (vm_at k0 m' c == vm_at k0 m c + (if str_eqb k k0 then den v c else 0))%Q.
Proof.
  revert m'. induction m as [|[k' [v' virt']] m IH]; intros m' H; cbn [sub_insert] in H.
  - injection H as <-. cbn [vm_at fst snd]. lra.
  - destruct (str_compare k k') eqn:E.
    + destruct (v_add false v' v) as [s|] eqn:A; cbn [bind] in H; [|discriminate].
      injection H as <-. cbn [vm_at fst snd].
      pose proof (v_add_exact _ _ _ _ c A) as D.
      apply str_compare_eq in E. subst k'.
      destruct (str_eqb k k0); lra.
    + injection H as <-. cbn [vm_at fst snd]. destruct (str_eqb k k0), (str_eqb k' k0); lra.
    + destruct (sub_insert k v virt m) as [r|] eqn:R; cbn [bind] in H; [|discriminate].
      injection H as <-. cbn [vm_at fst snd]. rewrite (IH r eq_refl). lra.
Qed.

Lemma sub_insert_total k v virt m m' c :
  sub_insert k v virt m = Ok m' -> (vm_total m' c == vm_total m c + den v c)%Q.
Proof.
  revert m'. induction m as [|[k' [v' virt']] m IH]; intros m' H; cbn [sub_insert] in H.
  - injection H as <-. cbn [vm_total fst snd]. lra.
  - destruct (str_compare k k') eqn:E.
    + destruct (v_add false v' v) as [s|] eqn:A; cbn [bind] in H; [|discriminate].
      injection H as <-. cbn [vm_total fst snd].
      pose proof (v_add_exact _ _ _ _ c A) as D. lra.
    + injection H as <-. cbn [vm_total fst snd]. lra.
    + destruct (sub_insert k v virt m) as [r|] eqn:R; cbn [bind] in H; [|discriminate].
      injection H as <-. cbn [vm_total fst snd]. rewrite (IH r eq_refl). lra.
Qed.

Lemma sub_insert_keys k v virt m m' :
  sub_insert k v virt m = Ok m' ->
  (forall k0, In k0 (map fst m') <-> k0 = k \/ In k0 (map fst m)) /\
  (StronglySorted str_lt (map fst m) -> StronglySorted str_lt (map fst m')).
Proof.
  revert m'. induction m as [|[k' [v' virt']] m IH]; intros m' H; cbn [sub_insert] in H.
  - injection H as <-. cbn. split; [intros; intuition congruence|]. intros _. constructor; constructor.
  - destruct (str_compare k k') eqn:E.
    + destruct (v_add false v' v) as [s|] eqn:A; cbn [bind] in H; [|discriminate].
      injection H as <-. apply str_compare_eq in E. subst k'. cbn [map fst]. split.
      * intros k0. cbn [In]. intuition.
      * trivial.
    + injection H as <-. cbn [map fst]. split.
      * intros k0. cbn [In]. intuition.
      * intros S. constructor; [exact S|]. inversion S as [|? ? S' M]; subst.
        constructor; [exact E|]. rewrite Forall_forall in *. intros z Hz.
        eapply str_compare_trans; [exact E | now apply M].
    + destruct (sub_insert k v virt m) as [r|] eqn:R; cbn [bind] in H; [|discriminate].
      injection H as <-. destruct (IH r eq_refl) as [IK IS]. cbn [map fst]. split.
      * intros k0. cbn [In]. rewrite IK. intuition.
      * intros S. inversion S as [|? ? S' M]; subst. constructor; [now apply IS|].
        rewrite Forall_forall in *. intros z Hz. apply IK in Hz. destruct Hz as [->|Hz].
        -- unfold str_lt. rewrite str_compare_antisym, E. reflexivity.
        -- now apply M.
Qed.

Lemma post_amount_ok p a : post_amount p = Ok a -> a = pamt p.
Proof. unfold post_amount. destruct (pamt p); try discriminate; now intros [= <-]. Qed.

Lemma sub_feed_spec l : forall m m',
  sub_feed m l = Ok m' ->
  (forall k c, (vm_at k m' c == vm_at k m c + sum_den (filter (acct_is k) l) c)%Q) /\
  (forall c, (vm_total m' c == vm_total m c + sum_den l c)%Q) /\
  (forall k, In k (map fst m') <-> In k (map fst m) \/ exists p, In p l /\ pacct p = k) /\
  (StronglySorted str_lt (map fst m) -> StronglySorted str_lt (map fst m')).
Proof.
  induction l as [|p l IH]; intros m m' H; cbn [sub_feed] in H.
  - injection H as <-. cbn [filter sum_den]. repeat split; intros; try lra; try tauto.
    + destruct H as [H|(p & [] & _)]. exact H.
  - destruct (post_amount p) as [a|] eqn:PA; cbn [bind] in H; [|discriminate].
    apply post_amount_ok in PA. subst a.
    destruct (sub_insert (pacct p) (pamt p) (pvirt p) m) as [m1|] eqn:I; cbn [bind] in H; [|discriminate].
    destruct (IH m1 m' H) as (A1 & A2 & A3 & A4).
    destruct (sub_insert_keys _ _ _ _ _ I) as [K1 K2].
    repeat split.
    + intros k c. rewrite A1, (sub_insert_at _ _ _ _ _ k c I). cbn [filter]. unfold acct_is at 2.
      destruct (str_eqb (pacct p) k); cbn [sum_den]; lra.
    + intros c. rewrite A2, (sub_insert_total _ _ _ _ _ c I). cbn [sum_den]. lra.
    + rewrite A3, K1. intros [[->|H1]|(q & Hq & E)].
      * right. exists p. split; [now left|reflexivity].
      * now left.
      * right. exists q. split; [now right|exact E].
    + rewrite A3, K1. intros [H1|(q & [->|Hq] & E)].
      * left. now right.
      * left. now left.
      * right. exists q. split; assumption.
    + intros S. apply A4, K2, S.
Qed.

Lemma vm_at_absent k (m : values_map) c : ~ In k (map fst m) -> (vm_at k m c == 0)%Q.
Proof.
  induction m as [|e m IH]; intros H; cbn [vm_at]; [lra|].
  cbn [map In] in H. destruct (str_eqb (fst e) k) eqn:E.
  - apply str_eqb_spec in E. tauto.
  - rewrite IH by tauto. lra.
Qed.

Lemma str_lt_irrefl a : ~ str_lt a a.
Proof. unfold str_lt. now rewrite str_compare_refl. Qed.

Lemma sorted_not_in k (ks : list str) :
  Forall (str_lt k) ks -> ~ In k ks.
Proof.
  intros F H. rewrite Forall_forall in F. apply (str_lt_irrefl k). now apply F.
Qed.

Lemma sorted_nodup (ks : list str) : StronglySorted str_lt ks -> NoDup ks.
Proof.
  induction 1 as [|k ks S IH M]; constructor; [|exact IH]. now apply sorted_not_in.
Qed.

Lemma vm_at_entry (m : values_map) : StronglySorted str_lt (map fst m) ->
  forall e c, In e m -> (vm_at (fst e) m c == den (fst (snd e)) c)%Q.
Proof.
  induction m as [|e0 m IH]; intros S e c H; [destruct H|].
  cbn [map] in S. inversion S as [|? ? S' M]; subst. cbn [vm_at]. destruct H as [->|H].
  - rewrite str_eqb_refl. rewrite (vm_at_absent _ _ _ (sorted_not_in _ _ M)). lra.
  - assert (str_eqb (fst e0) (fst e) = false) as ->.
    { apply str_compare_ne_eqb. rewrite Forall_forall in M.
      assert (str_lt (fst e0) (fst e)) as L by (apply M; now apply in_map).
      unfold str_lt in L. congruence. }
    rewrite (IH S' e c H). lra.
Qed.

Lemma vm_total_report py xid comps m c :
  (sum_den (sub_report py xid comps m) c == vm_total m c)%Q.
Proof.
  unfold sub_report. induction m as [|e m IH]; cbn [map sum_den vm_total pamt]; [lra|].
  rewrite IH. lra.
Qed.

(* subtotal_posts on the component posts `comps`: one row per account, in account order;
   each row is the exact sum of the postings to that account; the total is preserved *)
Theorem subtotal_group_sums py xid comps rows :
  subtotal_group py xid comps = Ok rows ->
  StronglySorted str_lt (map pacct rows) /\
  (forall a, In a (map pacct rows) <-> exists p, In p comps /\ pacct p = a) /\
  (forall r c, In r rows -> (den (pamt r) c == sum_den (filter (acct_is (pacct r)) comps) c)%Q) /\
  (forall c, (sum_den rows c == sum_den comps c)%Q).
Proof.
  unfold subtotal_group. destruct comps as [|p0 comps0] eqn:EC.
  - intros [= <-]. cbn. repeat split; try constructor; intros; try lra; try tauto.
    + destruct H as (p & [] & _).
  - rewrite <- EC. clear EC p0 comps0.
    destruct (sub_feed [] comps) as [m|] eqn:F; cbn [bind]; [|discriminate].
    intros [= <-]. destruct (sub_feed_spec comps [] m F) as (A1 & A2 & A3 & A4).
    assert (S : StronglySorted str_lt (map fst m)) by (apply A4; constructor).
    assert (MP : map pacct (sub_report (py comps) xid comps m) = map fst m).
    { unfold sub_report. rewrite map_map. reflexivity. }
    repeat split.
    + now rewrite MP.
    + rewrite MP, A3. cbn [map In]. tauto.
    + rewrite MP, A3. cbn [map In]. tauto.
    + intros r c Hr. unfold sub_report in Hr. apply in_map_iff in Hr. destruct Hr as (e & <- & He).
      cbn [pamt pacct]. rewrite <- (vm_at_entry m S e c He), A1. cbn [vm_at]. lra.
    + intros c. rewrite vm_total_report, A2. cbn [vm_total]. lra.
Qed.

(* ---- by_payee_posts and day_of_week_posts: subtotals over a partition into buckets ---- *)
Fixpoint buckets_total {K} (m : list (K * list post)) (c : option comm) : Q :=
  match m with
  | [] => 0
  | e :: m' => sum_den (snd e) c + buckets_total m' c
  end.

Lemma buckets_total_concat {K} (m : list (K * list post)) c :
  (buckets_total m c == sum_den (concat (map snd m)) c)%Q.
Proof.
  induction m as [|e m IH]; cbn [buckets_total map concat sum_den]; [lra|].
  rewrite sum_den_app, IH. lra.
Qed.

(* the rows are, bucket after bucket, the rows subtotal_posts reports for the bucket *)
Lemma report_buckets_rows {K} (py : K -> list post -> payee) : forall m b rows,
  report_buckets py b m = Ok rows ->
  exists rr, rows = concat rr /\
    Forall2 (fun e o => exists b', subtotal_group (py (fst e)) (xid_subtotal b') (snd e) = Ok o) m rr.
Proof.
  induction m as [|[k ps] m IH]; intros b rows H; cbn [report_buckets] in H.
  - injection H as <-. exists []. split; [reflexivity|constructor].
  - destruct (subtotal_group (py k) (xid_subtotal b) ps) as [r|] eqn:R; cbn [bind] in H; [|discriminate].
    destruct (report_buckets py (b + 1) m) as [rs|] eqn:RS; cbn [bind] in H; [|discriminate].
    injection H as <-. destruct (IH _ _ RS) as (rr & -> & F).
    exists (r :: rr). split; [reflexivity|]. constructor; [|exact F]. exists b. exact R.
Qed.

Lemma report_buckets_total {K} (py : K -> list post -> payee) m b rows c :
  report_buckets py b m = Ok rows -> (sum_den rows c == buckets_total m c)%Q.
Proof.
  intros H. destruct (report_buckets_rows py m b rows H) as (rr & -> & F).
  clear H. induction F as [|e o m rr (b' & R) F IH]; cbn [concat buckets_total sum_den]; [lra|].
  rewrite sum_den_app, IH.
  destruct (subtotal_group_sums _ _ _ _ R) as (_ & _ & _ & T). rewrite T. lra.
Qed.

Definition payee_is (k : str) (p : post) : Prop := ppayee p = PName k.

Definition buckets_ok (m : list (str * list post)) : Prop :=
  Forall (fun e => Forall (payee_is (fst e)) (snd e)) m.

Lemma bucket_insert_perm k p m :
  Permutation (concat (map snd (bucket_insert k p m))) (p :: concat (map snd m)).
Proof.
  induction m as [|[k' ps] m IH]; cbn [bucket_insert]; [cbn; reflexivity|].
  destruct (str_compare k k'); cbn [map snd concat].
  - rewrite <- app_assoc. apply Permutation_sym. cbn [app]. apply Permutation_cons_app. reflexivity.
  - cbn [app]. reflexivity.
  - eapply Permutation_trans; [apply Permutation_app_head; exact IH|].
    apply Permutation_sym, Permutation_middle.
Qed.

Lemma bucket_insert_keys k p m k0 :
  In k0 (map fst (bucket_insert k p m)) <-> k0 = k \/ In k0 (map fst m).
Proof.
  induction m as [|[k' ps] m IH]; cbn [bucket_insert]; [cbn; intuition congruence|].
  destruct (str_compare k k') eqn:E; cbn [map fst In].
  - apply str_compare_eq in E. subst k'. intuition.
  - intuition.
  - rewrite IH. intuition.
Qed.

Lemma bucket_insert_sorted k p m :
  StronglySorted str_lt (map fst m) -> StronglySorted str_lt (map fst (bucket_insert k p m)).
Proof.
  induction m as [|[k' ps] m IH]; cbn [bucket_insert]; intros S.
  - cbn. constructor; constructor.
  - cbn [map fst] in S. inversion S as [|? ? S' M]; subst.
    destruct (str_compare k k') eqn:E; cbn [map fst].
    + exact S.
    + constructor; [exact S|]. constructor; [exact E|]. rewrite Forall_forall in *. intros z Hz.
      eapply str_compare_trans; [exact E | now apply M].
    + constructor; [now apply IH|]. rewrite Forall_forall in *. intros z Hz.
      apply bucket_insert_keys in Hz. destruct Hz as [->|Hz].
      * unfold str_lt. rewrite str_compare_antisym, E. reflexivity.
      * now apply M.
Qed.

Lemma bucket_insert_ok k p m : payee_is k p -> buckets_ok m -> buckets_ok (bucket_insert k p m).
Proof.
  unfold buckets_ok. intros Hp. induction m as [|[k' ps] m IH]; cbn [bucket_insert]; intros F.
  - constructor; [|constructor]. cbn. constructor; [exact Hp|constructor].
  - inversion F as [|? ? F1 F2]; subst. destruct (str_compare k k') eqn:E.
    + apply str_compare_eq in E. subst k'. constructor; [|exact F2].
      cbn [fst snd] in *. apply Forall_app. split; [exact F1|]. constructor; [exact Hp|constructor].
    + constructor; [|exact F]. cbn. constructor; [exact Hp|constructor].
    + constructor; [exact F1|]. now apply IH.
Qed.

Lemma payee_buckets_spec l : forall m m',
  payee_buckets m l = Ok m' ->
  Permutation (concat (map snd m')) (concat (map snd m) ++ l) /\
  (StronglySorted str_lt (map fst m) -> StronglySorted str_lt (map fst m')) /\
  (buckets_ok m -> buckets_ok m').
Proof.
  induction l as [|p l IH]; intros m m' H; cbn [payee_buckets] in H.
  - injection H as <-. rewrite app_nil_r. split; [reflexivity|]. split; auto.
  - destruct (payee_text p) as [k|] eqn:PT; cbn [bind] in H; [|discriminate].
    assert (Hp : payee_is k p).
    { unfold payee_text in PT. unfold payee_is. destruct (ppayee p); try discriminate. now injection PT as ->. }
    destruct (IH _ _ H) as (A1 & A2 & A3). split; [|split].
    + eapply Permutation_trans; [exact A1|].
      eapply Permutation_trans; [apply Permutation_app_tail; apply bucket_insert_perm|].
      cbn [app]. apply Permutation_middle.
    + intros S. apply A2, bucket_insert_sorted, S.
    + intros F. apply A3, bucket_insert_ok; assumption.
Qed.

(* --by-payee: the postings are partitioned by payee (distinct payees in order; every
   bucket holds postings of its payee only; together they are the input); each bucket is
   reported as by subtotal_posts; the grand total is preserved *)
Theorem by_payee_mode_sums mode l rows :
  by_payee_mode mode l = Ok rows ->
  exists m rr,
    Permutation (concat (map snd m)) l /\
    StronglySorted str_lt (map fst m) /\
    buckets_ok m /\
    rows = concat rr /\
    Forall2 (fun e o => exists b, subtotal_group (payee_label mode (fst e)) (xid_subtotal b) (snd e) = Ok o) m rr /\
    forall c, (sum_den rows c == sum_den l c)%Q.
Proof.
  unfold by_payee_mode. intros H0.
  assert (H : (do m <- payee_buckets [] l; report_buckets (payee_label mode) 0 m) = Ok rows)
    by (destruct mode; [exact H0|exact H0|discriminate]).
  clear H0. destruct (payee_buckets [] l) as [m|] eqn:B; cbn [bind] in H; [|discriminate].
  destruct (payee_buckets_spec l [] m B) as (P & S & F).
  destruct (report_buckets_rows (payee_label mode) m 0 rows H) as (rr & E & F2).
  exists m, rr. split; [exact P|]. split; [apply S; constructor|]. split; [apply F; constructor|].
  split; [exact E|]. split; [exact F2|].
  intros c. rewrite (report_buckets_total (payee_label mode) m 0 rows c H), buckets_total_concat.
  now apply sum_den_perm.
Qed.

Theorem by_payee_sums l rows :
  by_payee l = Ok rows ->
  exists m rr,
    Permutation (concat (map snd m)) l /\
    StronglySorted str_lt (map fst m) /\
    buckets_ok m /\
    rows = concat rr /\
    Forall2 (fun e o => exists b, subtotal_group (payee_label src_by_payee_label (fst e)) (xid_subtotal b) (snd e) = Ok o) m rr /\
    forall c, (sum_den rows c == sum_den l c)%Q.
Proof. apply by_payee_mode_sums. Qed.

Lemma day_of_week_range d : 0 <= day_of_week d < 7.
Proof. unfold day_of_week. apply Z.mod_pos_bound. lia. Qed.

Definition week : list Z := [0; 1; 2; 3; 4; 5; 6].

Lemma dow_split l c :
  (sum_den l c == buckets_total (map (fun i => (i, dow_bucket i l)) week) c)%Q.
Proof.
  unfold week. cbn [map buckets_total snd]. unfold dow_bucket.
  induction l as [|p l IH]; cbn [filter sum_den]; [lra|].
  pose proof (day_of_week_range (pdate p)) as R.
  assert (day_of_week (pdate p) = 0 \/ day_of_week (pdate p) = 1 \/ day_of_week (pdate p) = 2 \/
          day_of_week (pdate p) = 3 \/ day_of_week (pdate p) = 4 \/ day_of_week (pdate p) = 5 \/
          day_of_week (pdate p) = 6) as D by lia.
  destruct D as [D|[D|[D|[D|[D|[D|D]]]]]]; rewrite D; cbn [Z.eqb Pos.eqb sum_den]; lra.
Qed.

(* --dow: bucket i holds exactly the postings dated on weekday i, in order; each non-empty
   bucket is reported as by subtotal_posts; the grand total is preserved *)
Theorem dow_sums l rows :
  day_of_week_posts l = Ok rows ->
  exists rr,
    rows = concat rr /\
    Forall2 (fun e o => exists b, subtotal_group (fun _ => PDow (fst e)) (xid_subtotal b) (snd e) = Ok o)
            (map (fun i => (i, filter (fun p => day_of_week (pdate p) =? i) l)) week) rr /\
    (forall p, In p l -> exists i, In i week /\ day_of_week (pdate p) = i) /\
    forall c, (sum_den rows c == sum_den l c)%Q.
Proof.
  unfold day_of_week_posts. intros H.
  destruct (report_buckets_rows (fun k _ => PDow k) _ 0 rows H) as (rr & E & F2).
  exists rr. repeat split; try assumption.
  - intros p _. exists (day_of_week (pdate p)). split; [|reflexivity].
    pose proof (day_of_week_range (pdate p)). unfold week. cbn [In]. lia.
  - intros c. rewrite (report_buckets_total (fun k _ => PDow k) _ 0 rows c H). symmetry. apply dow_split.
Qed.

(* --subtotal *)
Theorem subtotal_sums l rows :
  subtotal l = Ok rows ->
  StronglySorted str_lt (map pacct rows) /\
  (forall a, In a (map pacct rows) <-> exists p, In p l /\ pacct p = a) /\
  (forall r c, In r rows -> (den (pamt r) c == sum_den (filter (acct_is (pacct r)) l) c)%Q) /\
  (forall c, (sum_den rows c == sum_den l c)%Q).
Proof. apply subtotal_group_sums. Qed.

(* ---- collapse_posts ---- *)
Fixpoint tm_at (k : str) (m : list (str * value)) (c : option comm) : Q :=
  match m with
  | [] => 0
  | e :: m' => (if str_eqb (fst e) k then den (snd e) c else 0) + tm_at k m' c
  end.

Fixpoint tm_total (m : list (str * value)) (c : option comm) : Q :=
  match m with
  | [] => 0
  | e :: m' => den (snd e) c + tm_total m' c
  end.

Lemma totals_add_spec k v m : forall m',
  totals_add k v m = Ok m' ->
  (forall k0 c, (tm_at k0 m' c == tm_at k0 m c + (if str_eqb k k0 then den v c else 0))%Q) /\
  (forall c, (tm_total m' c == tm_total m c + den v c)%Q) /\
  (forall k0, In k0 (map fst m') <-> k0 = k \/ In k0 (map fst m)) /\
  (StronglySorted str_lt (map fst m) -> StronglySorted str_lt (map fst m')).
Proof.
  induction m as [|[k' v'] m IH]; intros m' H; cbn [totals_add] in H.
  - injection H as <-. cbn [tm_at tm_total map fst snd In]. split; [|split; [|split]].
    + intros. lra.
    + intros. lra.
    + intros. intuition congruence.
    + intros _. constructor; constructor.
  - destruct (str_compare k k') eqn:E.
    + destruct (v_add false v' v) as [s|] eqn:A; cbn [bind] in H; [|discriminate].
      injection H as <-. apply str_compare_eq in E. subst k'.
      cbn [tm_at tm_total map fst snd In]. split; [|split; [|split]].
      * intros k0 c. pose proof (v_add_exact _ _ _ _ c A). destruct (str_eqb k k0); lra.
      * intros c. pose proof (v_add_exact _ _ _ _ c A). lra.
      * intros. intuition congruence.
      * trivial.
    + injection H as <-. cbn [tm_at tm_total map fst snd In]. split; [|split; [|split]].
      * intros k0 c. destruct (str_eqb k k0), (str_eqb k' k0); lra.
      * intros. lra.
      * intros. intuition congruence.
      * intros S. constructor; [exact S|]. inversion S as [|? ? S' M]; subst.
        constructor; [exact E|]. rewrite Forall_forall in *. intros z Hz.
        eapply str_compare_trans; [exact E | now apply M].
    + destruct (totals_add k v m) as [r|] eqn:R; cbn [bind] in H; [|discriminate].
      injection H as <-. destruct (IH r eq_refl) as (I1 & I2 & I3 & I4).
      cbn [tm_at tm_total map fst snd In]. split; [|split; [|split]].
      * intros. rewrite I1. lra.
      * intros. rewrite I2. lra.
      * intros. rewrite I3. intuition congruence.
      * intros S. inversion S as [|? ? S' M]; subst. constructor; [now apply I4|].
        rewrite Forall_forall in *. intros z Hz. apply I3 in Hz. destruct Hz as [->|Hz].
        -- unfold str_lt. rewrite str_compare_antisym, E. reflexivity.
        -- now apply M.
Qed.

Definition key_is (depth : Z) (k : str) (p : post) : bool := str_eqb (totals_key depth p) k.

Lemma totals_feed_spec depth l : forall m m',
  totals_feed depth m l = Ok m' ->
  (forall k c, (tm_at k m' c == tm_at k m c + sum_den (filter (key_is depth k) l) c)%Q) /\
  (forall c, (tm_total m' c == tm_total m c + sum_den l c)%Q) /\
  (forall k, In k (map fst m') <-> In k (map fst m) \/ exists p, In p l /\ totals_key depth p = k) /\
  (StronglySorted str_lt (map fst m) -> StronglySorted str_lt (map fst m')).
Proof.
  induction l as [|p l IH]; intros m m' H; cbn [totals_feed] in H.
  - injection H as <-. cbn [filter sum_den]. repeat split; intros; try lra; try tauto.
    destruct H as [H|(p & [] & _)]. exact H.
  - destruct (totals_add (totals_key depth p) (pamt p) m) as [m1|] eqn:I; cbn [bind] in H; [|discriminate].
    destruct (IH m1 m' H) as (A1 & A2 & A3 & A4).
    destruct (totals_add_spec _ _ _ _ I) as (B1 & B2 & B3 & B4). repeat split.
    + intros k c. rewrite A1, B1. cbn [filter]. unfold key_is at 2.
      destruct (str_eqb (totals_key depth p) k); cbn [sum_den]; lra.
    + intros c. rewrite A2, B2. cbn [sum_den]. lra.
    + rewrite A3, B3. intros [[->|H1]|(q & Hq & E)].
      * right. exists p. split; [now left|reflexivity].
      * now left.
      * right. exists q. split; [now right|exact E].
    + rewrite A3, B3. intros [H1|(q & [->|Hq] & E)].
      * left. now right.
      * left. now left.
      * right. exists q. split; assumption.
    + intros N. apply A4, B4, N.
Qed.

Lemma tm_at_absent k (m : list (str * value)) c : ~ In k (map fst m) -> (tm_at k m c == 0)%Q.
Proof.
  induction m as [|e m IH]; intros H; cbn [tm_at]; [lra|].
  cbn [map In] in H. destruct (str_eqb (fst e) k) eqn:E.
  - apply str_eqb_spec in E. tauto.
  - rewrite IH by tauto. lra.
Qed.

Lemma tm_at_entry (m : list (str * value)) : NoDup (map fst m) ->
  forall e c, In e m -> (tm_at (fst e) m c == den (snd e) c)%Q.
Proof.
  induction m as [|e0 m IH]; intros N e c H; [destruct H|].
  cbn [map] in N. inversion N as [|? ? N1 N2]; subst. cbn [tm_at]. destruct H as [->|H].
  - rewrite str_eqb_refl. rewrite (tm_at_absent _ _ _ N1). lra.
  - assert (str_eqb (fst e0) (fst e) = false) as ->.
    { destruct (str_eqb (fst e0) (fst e)) eqn:E; [|reflexivity]. apply str_eqb_spec in E.
      exfalso. apply N1. rewrite E. now apply in_map. }
    rewrite (IH N2 e c H). lra.
Qed.

(* the rows collapse_posts makes for the component posts of one transaction: the posting
   itself (--collapse, a single posting), or one row per key (<Total>, or the account cut
   at the depth), each the exact sum of the postings with that key; total preserved *)
Definition generated_rows (depth g : Z) (comps : list post) (m : list (str * value)) : list post :=
  map (fun e => mkPost (xid_collapse g) (range_start comps) (range_finish comps)
                       (last_payee comps) (last_payee comps) (fst e) false 0 (snd e)) m.

Lemma collapse_group_cases depth g comps rows :
  collapse_group depth g comps = Ok rows ->
  (depth = 0 /\ (exists p, comps = [p]) /\ rows = comps) \/
  exists m, totals_feed depth [] comps = Ok m /\ rows = generated_rows depth g comps m.
Proof.
  unfold collapse_group, generated_rows. destruct comps as [|p [|q comps]].
  - cbn [totals_feed bind]. intros [= <-]. right. exists []. split; reflexivity.
  - destruct (depth =? 0) eqn:E.
    + intros [= <-]. left. apply Z.eqb_eq in E. split; [exact E|]. split; [now exists p|reflexivity].
    + destruct (totals_feed depth [] [p]) as [m|]; cbn [bind]; [|discriminate].
      intros [= <-]. right. exists m. split; reflexivity.
  - destruct (totals_feed depth [] (p :: q :: comps)) as [m|]; cbn [bind]; [|discriminate].
    intros [= <-]. right. exists m. split; reflexivity.
Qed.

Theorem collapse_group_sums depth g comps rows :
  collapse_group depth g comps = Ok rows ->
  (forall c, (sum_den rows c == sum_den comps c)%Q) /\
  (rows = comps \/
   (NoDup (map pacct rows) /\
    (forall a, In a (map pacct rows) <-> exists p, In p comps /\ totals_key depth p = a) /\
    forall r c, In r rows ->
      (den (pamt r) c == sum_den (filter (key_is depth (pacct r)) comps) c)%Q)).
Proof.
  intros H. destruct (collapse_group_cases _ _ _ _ H) as [(_ & _ & ->)|(m & F & ->)].
  - split; [intros; lra|now left].
  - destruct (totals_feed_spec depth comps [] m F) as (A1 & A2 & A3 & A4).
    assert (N : NoDup (map fst m)) by (apply sorted_nodup, A4; constructor).
    assert (MP : map pacct (generated_rows depth g comps m) = map fst m).
    { unfold generated_rows. rewrite map_map. reflexivity. }
    split.
    + intros c. rewrite <- (Qplus_0_l (sum_den comps c)). change 0%Q with (tm_total [] c).
      rewrite <- A2. unfold generated_rows. clear. induction m as [|e m IH]; cbn [map sum_den tm_total pamt]; [lra|].
      rewrite IH. lra.
    + right. rewrite MP. split; [exact N|]. split.
      * intros a. rewrite A3. cbn [map In]. tauto.
      * intros r c Hr. unfold generated_rows in Hr. apply in_map_iff in Hr. destruct Hr as (e & <- & He).
        cbn [pamt pacct]. rewrite <- (tm_at_entry m N e c He), A1. cbn [tm_at]. lra.
Qed.

Lemma runs_from_concat l : forall cur x, concat (runs_from cur x l) = cur ++ l.
Proof.
  induction l as [|p l IH]; intros cur x; cbn [runs_from].
  - cbn. now rewrite app_nil_r.
  - destruct (pxact p =? x).
    + rewrite IH, <- app_assoc. reflexivity.
    + cbn [concat]. rewrite IH. reflexivity.
Qed.

Lemma runs_concat l : concat (runs l) = l.
Proof. destruct l as [|p l]; [reflexivity|]. unfold runs. now rewrite runs_from_concat. Qed.

Lemma collapse_runs_rows depth : forall rs g rows,
  collapse_runs depth g rs = Ok rows ->
  exists rr, rows = concat rr /\
    Forall2 (fun r o => exists g', collapse_group depth g' r = Ok o) rs rr.
Proof.
  induction rs as [|r rs IH]; intros g rows H; cbn [collapse_runs] in H.
  - injection H as <-. exists []. split; [reflexivity|constructor].
  - destruct (collapse_group depth g r) as [o|] eqn:R; cbn [bind] in H; [|discriminate].
    destruct (collapse_runs depth (g + 1) rs) as [os|] eqn:RS; cbn [bind] in H; [|discriminate].
    injection H as <-. destruct (IH _ _ RS) as (rr & -> & F).
    exists (o :: rr). split; [reflexivity|]. constructor; [|exact F]. exists g. exact R.
Qed.

(* --collapse / --depth: the stream is cut into its transactions, each is replaced by the
   rows of collapse_group_sums; the grand total is preserved *)
Theorem collapse_sums depth l rows :
  collapse depth l = Ok rows ->
  concat (runs l) = l /\
  (exists rr, rows = concat rr /\
     Forall2 (fun r o => exists g, collapse_group depth g r = Ok o) (runs l) rr) /\
  forall c, (sum_den rows c == sum_den l c)%Q.
Proof.
  unfold collapse. intros H. split; [apply runs_concat|].
  destruct (collapse_runs_rows depth _ _ _ H) as (rr & E & F). split; [now exists rr|].
  intros c. subst rows. clear H.
  transitivity (sum_den (concat (runs l)) c); [|now rewrite runs_concat].
  induction F as [|r o rs rr (g & R) F IH]; cbn [concat sum_den]; [lra|].
  rewrite !sum_den_app, IH. destruct (collapse_group_sums _ _ _ _ R) as [T _]. rewrite T. lra.
Qed.

(* the transactions collapse_posts sees are the ones truncate_xacts counts *)
Lemma xruns_const x cur : cur <> [] -> Forall (fun p => pxact p = x) cur -> xruns pxact cur = [cur].
Proof.
  induction cur as [|p cur IH]; intros N F; [congruence|].
  inversion F as [|? ? Hp F']; subst. destruct cur as [|q cur]; [reflexivity|].
  rewrite xruns_cons2. inversion F' as [|? ? Hq _]; subst. rewrite Hq, Z.eqb_refl.
  rewrite IH; [reflexivity|discriminate|exact F'].
Qed.

Lemma xruns_break x cur p l : cur <> [] -> Forall (fun q => pxact q = x) cur -> pxact p <> x ->
  xruns pxact (cur ++ p :: l) = cur :: xruns pxact (p :: l).
Proof.
  induction cur as [|q cur IH]; intros N F Hp; [congruence|].
  inversion F as [|? ? Hq F']; subst. destruct cur as [|q' cur].
  - cbn [app]. rewrite xruns_cons2. replace (pxact q =? pxact p) with false; [reflexivity|].
    symmetry. apply Z.eqb_neq. congruence.
  - change ((q :: q' :: cur) ++ p :: l) with (q :: q' :: (cur ++ p :: l)).
    rewrite xruns_cons2. inversion F' as [|? ? Hq' _]; subst. rewrite Hq', Z.eqb_refl.
    change (q' :: cur ++ p :: l) with ((q' :: cur) ++ p :: l).
    rewrite IH; [reflexivity|discriminate|exact F'|exact Hp].
Qed.

Lemma runs_from_xruns l : forall cur x, cur <> [] -> Forall (fun p => pxact p = x) cur ->
  runs_from cur x l = xruns pxact (cur ++ l).
Proof.
  induction l as [|p l IH]; intros cur x N F; cbn [runs_from].
  - rewrite app_nil_r. symmetry. now apply (xruns_const x).
  - destruct (pxact p =? x) eqn:E.
    + apply Z.eqb_eq in E. rewrite IH.
      * now rewrite <- app_assoc.
      * destruct cur; discriminate.
      * apply Forall_app. split; [exact F|]. constructor; [exact E|constructor].
    + apply Z.eqb_neq in E. rewrite (xruns_break x) by assumption. f_equal.
      rewrite (IH [p] (pxact p)); [reflexivity|discriminate|].
      constructor; [reflexivity|constructor].
Qed.

Theorem runs_are_xruns l : runs l = xruns pxact l.
Proof.
  destruct l as [|p l]; [reflexivity|]. unfold runs.
  rewrite (runs_from_xruns l [p] (pxact p)); [reflexivity|discriminate|].
  constructor; [reflexivity|constructor].
Qed.

(* ====================================================================================== *)
(* 5. calc_posts and the whole chain                                                      *)
(* ====================================================================================== *)

Lemma last_cons_default {A} (q : list A) : forall t d, last (t :: q) d = last q t.
Proof.
  induction q as [|x q IH]; intros t d; [reflexivity|].
  change (last (t :: x :: q) d) with (last (x :: q) d). now rewrite (IH x d), (IH x t).
Qed.

(* every row keeps its posting; its running total is the total before plus the exact sum
   of the rows so far *)
Lemma calc_spec l : forall tot rows,
  calc tot l = Ok rows ->
  map fst rows = l /\
  forall k c, (k <= length l)%nat ->
    (den (last (map snd (firstn k rows)) tot) c == den tot c + sum_den (firstn k l) c)%Q.
Proof.
  induction l as [|p l IH]; intros tot rows H; cbn [calc] in H.
  - injection H as <-. split; [reflexivity|]. intros k c Hk. cbn in Hk.
    replace k with 0%nat by lia. cbn. lra.
  - destruct (v_add false tot (pamt p)) as [t|] eqn:A; cbn [bind] in H; [|discriminate].
    destruct (calc t l) as [r|] eqn:C; cbn [bind] in H; [|discriminate].
    injection H as <-. destruct (IH t r C) as [M T]. split; [cbn [map fst]; now rewrite M|].
    intros k c Hk. destruct k as [|k]; [cbn; lra|].
    cbn [firstn map snd sum_den]. cbn [length] in Hk.
    pose proof (T k c ltac:(lia)) as Tk. pose proof (v_add_exact _ _ _ _ c A) as D.
    assert (last (t :: map snd (firstn k r)) tot = last (map snd (firstn k r)) t) as ->.
    { apply last_cons_default. }
    rewrite Tk, D. lra.
Qed.

(* the grand total shown in the last row is the exact sum of all rows *)
Corollary calc_grand_total l rows c :
  calc VVoid l = Ok rows ->
  (den (last (map snd rows) VVoid) c == sum_den l c)%Q.
Proof.
  intros H. destruct (calc_spec l VVoid rows H) as [M T].
  pose proof (T (length l) c (le_n _)) as E. rewrite firstn_all in E.
  assert (length rows = length l) as L by (rewrite <- M; now rewrite map_length).
  rewrite <- L, firstn_all in E. rewrite E. cbn [den]. lra.
Qed.

(* --sort alone (no regrouping): the register holds the same postings, in the unique stable
   order, and the grand total is the one of the unsorted register *)
Theorem sort_report_spec f ks l rows :
  report (mkOpts f GNone None (Some ks) None None) l = Ok rows ->
  let inp := filter (keep_post f) l in
  Permutation inp (map fst rows) /\
  (sort_determined ks inp = true ->
     is_stable_sort (post_lt ks) inp (map fst rows) /\
     forall l'', is_stable_sort (post_lt ks) inp l'' -> l'' = map fst rows) /\
  forall c, (den (last (map snd rows) VVoid) c == sum_den inp c)%Q.
Proof.
  unfold report, before_sort. cbn [o_group o_filt o_collapse o_sort o_head o_tail stage_group stage_collapse
                                    stage_sort stage_truncate bind].
  destruct (sort_posts ks (filter (keep_post f) l)) as [s|] eqn:S; cbn [bind]; [|discriminate].
  destruct (calc VVoid s) as [r|] eqn:C; cbn [bind]; [|discriminate].
  intros [= <-]. cbn zeta. destruct (calc_spec s VVoid r C) as [M _]. rewrite M.
  destruct (sort_posts_perm _ _ _ S) as [P _]. split; [exact P|]. split.
  - intros D. exact (sort_posts_spec _ _ _ S D).
  - intros c. rewrite (calc_grand_total s r c C). symmetry. now apply sum_den_perm.
Qed.

(* --head / --tail on any report: rows and running totals of the kept transactions are the
   ones of the report without the option *)
Theorem window_report_spec f g cl s h t l rows :
  report (mkOpts f g cl s h t) l = Ok rows ->
  exists full, report (mkOpts f g cl s None None) l = Ok full /\
    rows = match h, t with
           | None, None => full
           | _, _ => select (trunc_print (zopt h) (zopt t)
                               (Z.of_nat (length (xruns (fun r => pxact (fst r)) full))))
                            0 (xruns (fun r => pxact (fst r)) full)
           end.
Proof.
  unfold report, before_sort. cbn [o_head o_tail o_sort o_group o_filt o_collapse].
  destruct (stage_group g (filter (keep_post f) l)) as [c0|]; cbn [bind]; [|discriminate].
  destruct (stage_collapse cl c0) as [c|]; cbn [bind]; [|discriminate].
  destruct (stage_sort s c) as [x|]; cbn [bind]; [|discriminate].
  destruct (calc VVoid x) as [r|]; cbn [bind]; [|discriminate].
  intros [= <-]. exists r. split; [reflexivity|]. unfold stage_truncate.
  destruct h, t; try reflexivity; apply truncate_select.
Qed.

(* --depth N (N <> 0): every transaction is replaced by one row per account cut at depth N *)
Theorem depth_group_sums depth g comps rows :
  depth <> 0 -> collapse_group depth g comps = Ok rows ->
  NoDup (map pacct rows) /\
  (forall a, In a (map pacct rows) <-> exists p, In p comps /\ take_segs (Z.to_nat depth) (pacct p) = a) /\
  (forall r c, In r rows ->
     (den (pamt r) c ==
      sum_den (filter (fun p => str_eqb (take_segs (Z.to_nat depth) (pacct p)) (pacct r)) comps) c)%Q) /\
  forall c, (sum_den rows c == sum_den comps c)%Q.
Proof.
  intros Hd H. destruct (collapse_group_sums _ _ _ _ H) as [T G].
  assert (K : forall p, totals_key depth p = take_segs (Z.to_nat depth) (pacct p)).
  { intros p. unfold totals_key. apply Z.eqb_neq in Hd. now rewrite Hd. }
  destruct (collapse_group_cases _ _ _ _ H) as [(E & _)|(m & F & ->)]; [contradiction|].
  destruct G as [G|(N & I & S)].
  - (* rows = comps can still happen; the statement below holds for the generated rows *)
    destruct (totals_feed_spec depth comps [] m F) as (A1 & A2 & A3 & A4).
    assert (ND : NoDup (map fst m)) by (apply sorted_nodup, A4; constructor).
    assert (MP : map pacct (generated_rows depth g comps m) = map fst m)
      by (unfold generated_rows; rewrite map_map; reflexivity).
    rewrite MP. split; [exact ND|]. split; [|split; [|exact T]].
    + intros a. rewrite A3. cbn [map In]. split.
      * intros [[]|(p & Hp & E)]. exists p. now rewrite <- K.
      * intros (p & Hp & E). right. exists p. now rewrite K.
    + intros r c Hr. unfold generated_rows in Hr. apply in_map_iff in Hr. destruct Hr as (e & <- & He).
      cbn [pamt pacct]. rewrite <- (tm_at_entry m ND e c He), A1. cbn [tm_at].
      assert (filter (key_is depth (fst e)) comps =
              filter (fun p => str_eqb (take_segs (Z.to_nat depth) (pacct p)) (fst e)) comps) as ->.
      { apply filter_ext. intros p. unfold key_is. now rewrite K. }
      lra.
  - split; [exact N|]. split; [|split; [|exact T]].
    + intros a. rewrite I. split; intros (p & Hp & E); exists p; [now rewrite <- K|now rewrite K].
    + intros r c Hr. rewrite (S r c Hr).
      assert (filter (key_is depth (pacct r)) comps =
              filter (fun p => str_eqb (take_segs (Z.to_nat depth) (pacct p)) (pacct r)) comps) as ->.
      { apply filter_ext. intros p. unfold key_is. now rewrite K. }
      lra.
Qed.

(* ====================================================================================== *)
(* 6. --by-payee partitions the postings by post_t::payee() (ppayee) and account          *)
(* ====================================================================================== *)

Definition payee_isb (k : str) (p : post) : bool :=
  match ppayee p with PName s => str_eqb s k | _ => false end.

Lemma payee_isb_is k p : payee_is k p -> payee_isb k p = true.
Proof. unfold payee_is, payee_isb. intros ->. apply str_eqb_refl. Qed.

Lemma payee_isb_other k k' p : payee_is k' p -> k' <> k -> payee_isb k p = false.
Proof.
  unfold payee_is, payee_isb. intros -> N. destruct (str_eqb k' k) eqn:E; [|reflexivity].
  apply str_eqb_spec in E. contradiction.
Qed.

Lemma filter_payee_all k ps : Forall (payee_is k) ps -> filter (payee_isb k) ps = ps.
Proof.
  induction 1 as [|p ps H F IH]; [reflexivity|]. cbn [filter]. now rewrite (payee_isb_is _ _ H), IH.
Qed.

Lemma filter_payee_none k k' ps : Forall (payee_is k') ps -> k' <> k -> filter (payee_isb k) ps = [].
Proof.
  intros F N. induction F as [|p ps H F IH]; [reflexivity|]. cbn [filter].
  now rewrite (payee_isb_other _ _ _ H N), IH.
Qed.

Lemma str_lt_neq a b : str_lt a b -> a <> b.
Proof. intros L ->. exact (str_lt_irrefl _ L). Qed.

(* the bucket of payee k holds, in order, exactly the postings of the buckets with payee k *)
Lemma bucket_is_filter (m : list (str * list post)) :
  buckets_ok m -> StronglySorted str_lt (map fst m) ->
  forall k ps, In (k, ps) m -> filter (payee_isb k) (concat (map snd m)) = ps.
Proof.
  unfold buckets_ok. induction m as [|[k0 ps0] m IH]; intros OK S k ps H; [destruct H|].
  inversion OK as [|? ? O1 O2]; subst. cbn [map fst] in S. inversion S as [|? ? S' M]; subst.
  cbn [map snd concat fst] in *. rewrite filter_app. destruct H as [H|H].
  - injection H as -> ->. rewrite (filter_payee_all _ _ O1).
    assert (filter (payee_isb k) (concat (map snd m)) = []) as ->; [|apply app_nil_r].
    clear IH S' S OK O1. induction m as [|[k1 ps1] m IHm]; [reflexivity|].
    inversion O2 as [|? ? A1 A2]; subst. cbn [map fst] in M. inversion M as [|? ? L1 L2]; subst.
    cbn [map snd concat fst] in *. rewrite filter_app, (IHm A2 L2), app_nil_r.
    apply (filter_payee_none k k1); [exact A1|]. intros E. subst. exact (str_lt_irrefl _ L1).
  - rewrite (filter_payee_none k k0 ps0 O1).
    + cbn [app]. now apply IH.
    + rewrite Forall_forall in M. apply str_lt_neq. apply M.
      change k with (fst (k, ps)). now apply in_map.
Qed.

Lemma filter_perm {A} (f : A -> bool) l l' : Permutation l l' -> Permutation (filter f l) (filter f l').
Proof.
  induction 1 as [|x l l' P IH|x y l|l l' l'' P1 IH1 P2 IH2]; cbn [filter].
  - constructor.
  - destruct (f x); [now constructor|exact IH].
  - destruct (f x), (f y); try reflexivity. apply perm_swap.
  - eapply Permutation_trans; eauto.
Qed.

Lemma filter_filter {A} (f g : A -> bool) l :
  filter f (filter g l) = filter (fun x => g x && f x) l.
Proof.
  induction l as [|x l IH]; [reflexivity|]. cbn [filter].
  destruct (g x); cbn [andb filter]; [destruct (f x); now rewrite IH | exact IH].
Qed.

Lemma Forall2_in_r {A B} (R : A -> B -> Prop) l l' :
  Forall2 R l l' -> forall y, In y l' -> exists x, In x l /\ R x y.
Proof.
  induction 1 as [|a b l l' H F IH]; intros y Hy; [destruct Hy|].
  destruct Hy as [<-|Hy]; [exists a; split; [now left|exact H]|].
  destruct (IH y Hy) as (x & Hx & Rx). exists x. split; [now right|exact Rx].
Qed.

Lemma Forall2_in_l {A B} (R : A -> B -> Prop) l l' :
  Forall2 R l l' -> forall x, In x l -> exists y, In y l' /\ R x y.
Proof.
  induction 1 as [|a b l l' H F IH]; intros x Hx; [destruct Hx|].
  destruct Hx as [<-|Hx]; [exists b; split; [now left|exact H]|].
  destruct (IH x Hx) as (y & Hy & Ry). exists y. split; [now right|exact Ry].
Qed.

Lemma subtotal_group_payee py xid comps rows :
  subtotal_group py xid comps = Ok rows -> forall r, In r rows -> ppayee r = py comps.
Proof.
  unfold subtotal_group. destruct comps as [|p0 c0] eqn:E; [intros [= <-] r []|]. rewrite <- E.
  destruct (sub_feed [] comps) as [m|]; cbn [bind]; [|discriminate].
  intros [= <-] r Hr. unfold sub_report in Hr. apply in_map_iff in Hr. destruct Hr as (e & <- & _).
  reflexivity.
Qed.

(* every row of --by-payee carries a payee name k and an account a and is the exact
   per-commodity sum of the input postings whose post_t::payee() is k and whose account is
   a; and every input posting belongs to the row of its payee and account *)
(* the payee name a row's label stands for *)
Definition payee_name (p : payee) : option str :=
  match p with PName s => Some s | PFmt s _ => Some s | _ => None end.

Lemma payee_label_name mode k comps : payee_name (payee_label mode k comps) = Some k.
Proof.
  unfold payee_label. destruct mode; try reflexivity.
  destruct (has_percent k || (127 <=? Z.of_nat (length k))); reflexivity.
Qed.

Lemma payee_label_literal k comps : payee_label LabelLiteral k comps = PName k.
Proof. reflexivity. Qed.

Theorem by_payee_mode_partition mode l rows :
  by_payee_mode mode l = Ok rows ->
  (forall r, In r rows -> exists k, payee_name (ppayee r) = Some k /\
     (mode = LabelLiteral -> ppayee r = PName k) /\
     forall c, (den (pamt r) c ==
                sum_den (filter (fun p => payee_isb k p && acct_is (pacct r) p) l) c)%Q) /\
  (forall p, In p l -> exists k r, ppayee p = PName k /\ In r rows /\
     payee_name (ppayee r) = Some k /\ pacct r = pacct p).
Proof.
  intros H. destruct (by_payee_mode_sums mode l rows H) as (m & rr & P & S & OK & -> & F2 & _). split.
  - intros r Hr. apply in_concat in Hr. destruct Hr as (o & Ho & Hr).
    destruct (Forall2_in_r _ _ _ F2 o Ho) as ([k ps] & Hm & (b & G)). cbn [fst snd] in G.
    exists k. pose proof (subtotal_group_payee _ _ _ _ G r Hr) as Py.
    split; [rewrite Py; apply payee_label_name|]. split; [intros ->; exact Py|]. intros c.
    destruct (RegroupProofs.subtotal_group_sums _ _ _ _ G) as (_ & _ & V & _). rewrite (V r c Hr).
    apply sum_den_perm. rewrite <- filter_filter.
    apply filter_perm. rewrite <- (bucket_is_filter m OK S k ps Hm). now apply filter_perm.
  - intros p Hp. apply (Permutation_in _ (Permutation_sym P)) in Hp.
    apply in_concat in Hp. destruct Hp as (ps & Hps & Hp). apply in_map_iff in Hps.
    destruct Hps as ([k ps'] & E & Hm). cbn [snd] in E. subst ps'.
    destruct (Forall2_in_l _ _ _ F2 (k, ps) Hm) as (o & Ho & (b & G)). cbn [fst snd] in G.
    assert (Hk : payee_is k p).
    { unfold buckets_ok in OK. rewrite Forall_forall in OK. pose proof (OK _ Hm) as O. cbn [fst snd] in O.
      rewrite Forall_forall in O. now apply O. }
    destruct (RegroupProofs.subtotal_group_sums _ _ _ _ G) as (_ & I & _ & _).
    assert (In (pacct p) (map pacct o)) as Ha by (apply I; exists p; split; [exact Hp|reflexivity]).
    apply in_map_iff in Ha. destruct Ha as (r & Ea & Hr).
    exists k, r. split; [exact Hk|]. split; [apply in_concat; exists o; split; assumption|].
    split; [rewrite (subtotal_group_payee _ _ _ _ G r Hr); apply payee_label_name|exact Ea].
Qed.

(* ... and no two rows share payee and account: exactly one group per posting *)
Lemma nodup_app {A} (a b : list A) :
  NoDup a -> NoDup b -> (forall x, In x a -> ~ In x b) -> NoDup (a ++ b).
Proof.
  induction a as [|x a IH]; intros Na Nb D; [exact Nb|].
  inversion Na as [|? ? N1 N2]; subst. cbn [app]. constructor.
  - rewrite in_app_iff. intros [H|H]; [contradiction|]. exact (D x (or_introl eq_refl) H).
  - apply IH; [exact N2|exact Nb|]. intros y Hy. apply D. now right.
Qed.

Definition row_key (r : post) : payee * str := (ppayee r, pacct r).

Lemma by_payee_rows_nodup mode : forall (m : list (str * list post)) rr,
  Forall2 (fun e o => exists b, subtotal_group (payee_label mode (fst e)) (xid_subtotal b) (snd e) = Ok o) m rr ->
  StronglySorted str_lt (map fst m) ->
  NoDup (map row_key (concat rr)) /\
  forall r, In r (concat rr) -> exists k, In k (map fst m) /\ payee_name (ppayee r) = Some k.
Proof.
  induction 1 as [|[k ps] o m rr (b & G) F IH]; intros S.
  - split; [constructor|intros r []].
  - cbn [map fst] in S. inversion S as [|? ? S' M]; subst. destruct (IH S') as [N I].
    cbn [fst snd] in G. cbn [concat]. rewrite map_app.
    assert (P : forall r, In r o -> payee_name (ppayee r) = Some k).
    { intros r Hr. rewrite (subtotal_group_payee _ _ _ _ G r Hr). apply payee_label_name. }
    split.
    + apply nodup_app; [|exact N|].
      * destruct (RegroupProofs.subtotal_group_sums _ _ _ _ G) as (SS & _).
        apply sorted_nodup in SS. clear -SS.
        induction o as [|r o IHo]; [constructor|]. cbn [map] in *.
        inversion SS as [|? ? N1 N2]; subst. constructor.
        -- intros H. apply in_map_iff in H. destruct H as (r' & E & Hr'). apply N1.
           unfold row_key in E. injection E as _ E. rewrite <- E. now apply in_map.
        -- now apply IHo.
      * intros x Hx Hx'. apply in_map_iff in Hx. destruct Hx as (r & <- & Hr).
        apply in_map_iff in Hx'. destruct Hx' as (r' & E & Hr').
        destruct (I r' Hr') as (k' & Hk' & Pk').
        pose proof (P r Hr) as Pk.
        unfold row_key in E. injection E as E _. rewrite E in Pk'. rewrite Pk in Pk'. injection Pk' as ->.
        rewrite Forall_forall in M. exact (str_lt_irrefl _ (M _ Hk')).
    + intros r Hr. apply in_app_iff in Hr. destruct Hr as [Hr|Hr].
      * exists k. split; [now left|exact (P r Hr)].
      * destruct (I r Hr) as (k' & Hk' & Pk'). exists k'. split; [now right|exact Pk'].
Qed.

Theorem by_payee_mode_one_row_per_group mode l rows :
  by_payee_mode mode l = Ok rows -> NoDup (map row_key rows).
Proof.
  intros H. destruct (by_payee_mode_sums mode l rows H) as (m & rr & _ & S & _ & -> & F2 & _).
  exact (proj1 (by_payee_rows_nodup mode m rr F2 S)).
Qed.

(* sort after a regrouping: whatever rows reach sort_posts, it returns a permutation of them *)
Theorem sort_after_regroup_perm o l rows :
  report o l = Ok rows -> o_head o = None -> o_tail o = None ->
  exists c, before_sort o l = Ok c /\
    Permutation c (map fst rows) /\
    forall cm, (den (last (map snd rows) VVoid) cm == sum_den c cm)%Q.
Proof.
  unfold report. intros H Hh Ht. destruct (before_sort o l) as [c|]; cbn [bind] in H; [|discriminate].
  exists c. split; [reflexivity|].
  destruct (stage_sort (o_sort o) c) as [s|] eqn:S; cbn [bind] in H; [|discriminate].
  destruct (calc VVoid s) as [r|] eqn:C; cbn [bind] in H; [|discriminate].
  injection H as <-. rewrite Hh, Ht. cbn [stage_truncate].
  destruct (calc_spec s VVoid r C) as [M _]. rewrite M.
  assert (P : Permutation c s).
  { unfold stage_sort in S. destruct (o_sort o) as [ks|]; [|injection S as <-; reflexivity].
    exact (proj1 (sort_posts_perm _ _ _ S)). }
  split; [exact P|]. intros cm. rewrite (calc_grand_total s r cm C). symmetry. now apply sum_den_perm.
Qed.

(* ---- subtotal_posts fed by another subtotalling handler (resubtotal): subtotal_posts once more ---- *)
Theorem resubtotal_sums l rows :
  resubtotal l = Ok rows ->
  StronglySorted str_lt (map pacct rows) /\
  (forall a, In a (map pacct rows) <-> exists p, In p l /\ pacct p = a) /\
  (forall r c, In r rows -> (den (pamt r) c == sum_den (filter (acct_is (pacct r)) l) c)%Q) /\
  (forall c, (sum_den rows c == sum_den l c)%Q).
Proof. apply subtotal_group_sums. Qed.

(* --by-payee --subtotal, --dow --subtotal: the grand total is the plain register's *)
Theorem by_payee_subtotal_total l rows c :
  stage_group GByPayeeSub l = Ok rows -> (sum_den rows c == sum_den l c)%Q.
Proof.
  cbn [stage_group]. destruct (by_payee l) as [r|] eqn:B; cbn [bind]; [|discriminate]. intros H.
  destruct (resubtotal_sums r rows H) as (_ & _ & _ & T). rewrite T.
  destruct (by_payee_mode_sums _ l r B) as (m & rr & _ & _ & _ & _ & _ & S). apply S.
Qed.

Theorem dow_subtotal_total l rows c :
  stage_group GDowSub l = Ok rows -> (sum_den rows c == sum_den l c)%Q.
Proof.
  cbn [stage_group]. destruct (day_of_week_posts l) as [r|] eqn:B; cbn [bind]; [|discriminate]. intros H.
  destruct (resubtotal_sums r rows H) as (_ & _ & _ & T). rewrite T.
  destruct (dow_sums l r B) as (rr & _ & _ & _ & S). apply S.
Qed.
