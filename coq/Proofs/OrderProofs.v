(* Independence from the iteration order of address-keyed containers (C19): every observer of a
   balance gives the same answer for any permutation of its representation. *)
From LedgerV Require Import Base.Prelude Base.Round Model.Amount Model.Xact Model.Journal
  Proofs.AmountProofs Proofs.XactProofs Proofs.JournalProofs.
From LedgerV Require Export Proofs.SortedProofs.
From Coq Require Import Qabs Permutation Lqa Setoid Sorting.Sorted.
Local Open Scope Q_scope.
Local Opaque Qred.

(* the order used by sorted_amounts and `sorted_amounts_order_free`: Proofs/SortedProofs.v *)

(* hence the postings generated for an elided amount do not depend on it either *)
Theorem fill_order_free ps i b b' :
  distinct_keys b -> Permutation b b' -> (2 <= length b)%nat ->
  (do amts <- fill_amounts (VBal b); Ok (fill_null ps i amts)) =
  (do amts <- fill_amounts (VBal b'); Ok (fill_null ps i amts)).
Proof.
  intros Hn Hp Hlen.
  assert (Hlen' : length b' = length b) by (symmetry; apply Permutation_length; exact Hp).
  destruct b as [|x [|y b]]; cbn [length] in Hlen; try lia.
  destruct b' as [|x' [|y' b']]; cbn [length] in Hlen'; try lia.
  cbn [fill_amounts bind]. rewrite (sorted_amounts_order_free _ _ Hn Hp). reflexivity.
Qed.

(* bden, is_zero, is_realzero of a balance are permutation invariant *)
Lemma bden_perm b b' c : Permutation b b' -> bden b c == bden b' c.
Proof.
  induction 1 as [| x l l' _ IH | x y l | l l' l'' _ IH1 _ IH2]; cbn [bden].
  - reflexivity.
  - rewrite IH. reflexivity.
  - ring.
  - rewrite IH1. exact IH2.
Qed.

Lemma forallb_perm {A} (f : A -> bool) l l' : Permutation l l' -> forallb f l = forallb f l'.
Proof.
  induction 1 as [| x l l' _ IH | x y l | l l' l'' _ IH1 _ IH2]; cbn [forallb].
  - reflexivity.
  - rewrite IH. reflexivity.
  - destruct (f x), (f y); reflexivity.
  - rewrite IH1. exact IH2.
Qed.

Theorem bal_is_zero_order_free cp b b' : Permutation b b' -> bal_is_zero cp b = bal_is_zero cp b'.
Proof. apply forallb_perm. Qed.

Theorem bal_is_realzero_order_free b b' : Permutation b b' -> bal_is_realzero b = bal_is_realzero b'.
Proof. apply forallb_perm. Qed.

(* adding / subtracting an amount: the result holds the same quantities whatever the order *)
Theorem bal_add_amt_order_free ord ord' b b' a r r' c :
  Permutation b b' -> bal_add_amt ord b a = Ok r -> bal_add_amt ord' b' a = Ok r' -> bden r c == bden r' c.
Proof.
  intros Hp H H'. rewrite (bal_add_amt_exact _ _ _ _ c H), (bal_add_amt_exact _ _ _ _ c H'), (bden_perm b b' c Hp).
  reflexivity.
Qed.

Theorem bal_sub_amt_order_free ord ord' b b' a r r' c :
  Permutation b b' -> bal_sub_amt ord b a = Ok r -> bal_sub_amt ord' b' a = Ok r' -> bden r c == bden r' c.
Proof.
  intros Hp H H'. rewrite (bal_sub_amt_exact _ _ _ _ c H), (bal_sub_amt_exact _ _ _ _ c H'), (bden_perm b b' c Hp).
  reflexivity.
Qed.

(* the balance finalize accumulates: same quantities under either insertion order *)
Theorem scan_posts_order_free c ps bal bal' nul nul' :
  scan_posts false ps 0 VVoid None = Ok (bal, nul) -> scan_posts true ps 0 VVoid None = Ok (bal', nul') ->
  den bal c == den bal' c.
Proof.
  intros H H'. rewrite (scan_posts_exact _ c _ _ _ _ _ _ H), (scan_posts_exact _ c _ _ _ _ _ _ H'). reflexivity.
Qed.
