(* Lemmas about the time-clock model (Model/Timelog.v). *)
From LedgerV Require Import Base.Prelude Model.Timelog Gen.ClockAccount.
From Coq Require Import Permutation.
Local Open Scope Z_scope.

Ltac zdiv := unfold next_midnight, day_of, day_secs in *; Z.div_mod_to_equations; lia.

(* ------------------------------------------------------------------ calendar arithmetic *)
Lemma day_of_next_midnight t : day_of (next_midnight t) = day_of t + 1.
Proof. unfold next_midnight, day_of. apply Z.div_mul. unfold day_secs. lia. Qed.

Lemma next_midnight_gt t : t < next_midnight t.
Proof. zdiv. Qed.

Lemma next_midnight_le t : next_midnight t <= t + day_secs.
Proof. zdiv. Qed.

Lemma next_midnight_mod t : next_midnight t mod day_secs = 0.
Proof. unfold next_midnight. apply Z.mod_mul. unfold day_secs. lia. Qed.

Lemma day_of_mono a b : a <= b -> day_of a <= day_of b.
Proof. intros. zdiv. Qed.

Lemma with_t_id e : with_t e (tx_t e) = e.
Proof. destruct e; reflexivity. Qed.

Lemma with_t_t e t : tx_t (with_t e t) = t.
Proof. reflexivity. Qed.

Lemma with_t_with_t e t u : with_t (with_t e t) u = with_t e u.
Proof. reflexivity. Qed.

(* ------------------------------------------------------------------ the day-break loop *)
(* the pieces of [lo, t_out): what the loop produces when it is entered at `lo` *)
Inductive pieces (b o : tx) : Z -> list post -> Prop :=
| P_none lo : tx_t o <= lo -> pieces b o lo []
| P_last lo : lo < tx_t o -> tx_t o <= next_midnight lo ->
    pieces b o lo [create_xact (with_t b lo) o]
| P_more lo r : next_midnight lo < tx_t o -> r <> [] ->
    pieces b o (next_midnight lo) r ->
    pieces b o lo (create_xact (with_t b lo) (with_t o (next_midnight lo)) :: r).

Lemma split_loop_pieces fuel : forall b o ps,
  split_loop fuel b o = Some ps -> pieces b o (tx_t b) ps.
Proof.
  induction fuel as [|f IH]; intros b o ps H; cbn [split_loop] in H; [discriminate|].
  destruct (tx_t b <? tx_t o) eqn:Hlt.
  - apply Z.ltb_lt in Hlt.
    destruct (tx_t o <=? next_midnight (tx_t b)) eqn:Hle.
    + apply Z.leb_le in Hle. injection H as <-.
      replace (create_xact b o) with (create_xact (with_t b (tx_t b)) o) by (rewrite with_t_id; reflexivity).
      apply P_last; assumption.
    + apply Z.leb_gt in Hle.
      destruct (split_loop f (with_t b (next_midnight (tx_t b))) o) as [r|] eqn:Hr; [|discriminate].
      injection H as <-.
      pose proof (IH _ _ _ Hr) as Hp. rewrite with_t_t in Hp.
      replace (create_xact b (with_t o (next_midnight (tx_t b))))
        with (create_xact (with_t b (tx_t b)) (with_t o (next_midnight (tx_t b)))) by (rewrite with_t_id; reflexivity).
      apply P_more; [assumption| |].
      * inversion Hp; subst; try discriminate. lia.
      * clear - Hp. remember (next_midnight (tx_t b)) as m. clear Heqm.
        induction Hp.
        -- apply P_none; assumption.
        -- rewrite with_t_with_t. apply P_last; assumption.
        -- rewrite with_t_with_t. apply P_more; assumption.
  - apply Z.ltb_ge in Hlt. injection H as <-. apply P_none. assumption.
Qed.

Lemma split_loop_fuel fuel : forall b o,
  (0 < fuel)%nat ->
  (tx_t b < tx_t o -> day_of (tx_t o - 1) - day_of (tx_t b) + 1 <= Z.of_nat fuel) ->
  exists ps, split_loop fuel b o = Some ps.
Proof.
  induction fuel as [|f IH]; intros b o Hpos Hm; [lia|].
  cbn [split_loop].
  destruct (tx_t b <? tx_t o) eqn:Hlt; [|eexists; reflexivity].
  apply Z.ltb_lt in Hlt. specialize (Hm Hlt).
  destruct (tx_t o <=? next_midnight (tx_t b)) eqn:Hle; [eexists; reflexivity|].
  apply Z.leb_gt in Hle.
  assert (Hd : day_of (next_midnight (tx_t b)) <= day_of (tx_t o - 1)) by (apply day_of_mono; lia).
  rewrite day_of_next_midnight in Hd.
  destruct (IH (with_t b (next_midnight (tx_t b))) o) as [r Hr].
  - lia.
  - rewrite with_t_t, day_of_next_midnight. lia.
  - rewrite Hr. eexists; reflexivity.
Qed.

Lemma day_pieces_total b o : exists ps, day_pieces b o = Some ps.
Proof.
  unfold day_pieces. apply split_loop_fuel.
  - unfold split_fuel. lia.
  - intros Hlt. unfold split_fuel. rewrite Nat2Z.inj_add, Z2Nat.id by zdiv. zdiv.
Qed.

(* ---- what the pieces look like ---- *)
Fixpoint sum_secs (ps : list post) : Z :=
  match ps with [] => 0 | p :: r => p_secs p + sum_secs r end.

(* a piece of the session b..o: a non-empty interval inside one calendar day *)
Definition piece_ok (b o : tx) (p : post) : Prop :=
  p_acct p = tx_acct b /\ p_payee p = tx_desc b /\ p_code p = tx_desc o /\ p_cleared p = tx_done o /\
  p_secs p = p_out p - p_in p /\ p_in p < p_out p /\
  p_day p = day_of (p_in p) /\ day_of (p_out p - 1) = p_day p /\
  tx_t b <= p_in p /\ p_out p <= tx_t o.

(* consecutive pieces meet at a midnight and are dated on consecutive days; the first starts at
   lo, the last ends at hi *)
Fixpoint contiguous (lo : Z) (ps : list post) (hi : Z) : Prop :=
  match ps with
  | [] => False
  | p :: r =>
      p_in p = lo /\
      match r with
      | [] => p_out p = hi
      | q :: _ => p_out p mod day_secs = 0 /\ p_day q = p_day p + 1 /\ contiguous (p_out p) r hi
      end
  end.

Lemma pieces_empty b o lo ps : pieces b o lo ps -> tx_t o <= lo -> ps = [].
Proof.
  intros H Hle. inversion H; subst; try reflexivity; try lia.
  pose proof (next_midnight_gt lo). lia.
Qed.

Lemma pieces_nonempty b o lo ps : pieces b o lo ps -> lo < tx_t o -> ps <> [].
Proof. intros H Hlt. inversion H; subst; try discriminate. lia. Qed.

Lemma pieces_facts b o lo ps :
  pieces b o lo ps -> tx_t b <= lo -> lo < tx_t o ->
  contiguous lo ps (tx_t o) /\ Forall (piece_ok b o) ps /\
  sum_secs ps = tx_t o - lo /\
  Z.of_nat (length ps) = day_of (tx_t o - 1) - day_of lo + 1.
Proof.
  induction 1 as [lo Hle | lo Hlt Hle | lo r Hlt Hne Hp IH]; intros Hb Hlo.
  - lia.
  - cbn [contiguous sum_secs length create_xact p_in p_out p_secs with_t tx_t]. split; [|split; [|split]].
    + split; reflexivity.
    + constructor; [|constructor]. unfold piece_ok. cbn. repeat split; try lia; try reflexivity. zdiv.
    + lia.
    + zdiv.
  - pose proof (next_midnight_gt lo) as Hgt.
    destruct IH as (Hc & Hf & Hs & Hn); [lia | lia |].
    split; [|split; [|split]].
    + cbn [contiguous]. destruct r as [|q r']; [congruence|].
      cbn [create_xact p_in p_out p_day with_t tx_t]. split; [reflexivity|]. split; [|split].
      * apply next_midnight_mod.
      * pose proof Hc as Hc'. cbn [contiguous] in Hc'. destruct Hc' as [Hq _].
        inversion Hf as [|? ? Hq1 _]; subst. destruct Hq1 as (_&_&_&_&_&_&Hd&_).
        rewrite Hd, Hq. apply day_of_next_midnight.
      * exact Hc.
    + constructor; [|exact Hf]. unfold piece_ok. cbn. repeat split; try lia; try reflexivity. zdiv.
    + cbn [sum_secs create_xact p_secs with_t tx_t]. lia.
    + cbn [length]. rewrite Nat2Z.inj_succ, Hn, day_of_next_midnight. lia.
Qed.

(* ---- closed form: one piece per calendar day from the check-in day to the day of the last
   second, each the intersection of the session with that day ---- *)
Fixpoint zrange (d : Z) (n : nat) : list Z :=
  match n with O => [] | S k => d :: zrange (d + 1) k end.

Definition day_count (lo hi : Z) : nat := Z.to_nat (day_of (hi - 1) - day_of lo + 1).

Definition raw_piece (b o : tx) (d : Z) : post :=
  create_xact (with_t b (Z.max (tx_t b) (d * day_secs))) (with_t o (Z.min (tx_t o) ((d + 1) * day_secs))).

Lemma pieces_closed_form b o lo ps :
  pieces b o lo ps -> tx_t b <= lo -> lo < tx_t o -> (lo = tx_t b \/ lo mod day_secs = 0) ->
  ps = map (raw_piece b o) (zrange (day_of lo) (day_count lo (tx_t o))).
Proof.
  induction 1 as [lo Hle | lo Hlt Hle | lo r Hlt Hne Hp IH]; intros Hb Hlo Hal.
  - lia.
  - assert (Hc : day_count lo (tx_t o) = 1%nat).
    { unfold day_count. replace (day_of (tx_t o - 1) - day_of lo + 1) with 1 by zdiv. reflexivity. }
    rewrite Hc. cbn [zrange map]. unfold raw_piece.
    replace (create_xact (with_t b lo) o) with (create_xact (with_t b lo) (with_t o (tx_t o)))
      by (rewrite with_t_id; reflexivity).
    f_equal. f_equal; f_equal.
    + destruct Hal as [->|Hm]; zdiv.
    + zdiv.
  - pose proof (next_midnight_gt lo) as Hgt.
    assert (Hd : day_of lo + 1 <= day_of (tx_t o - 1)).
    { rewrite <- day_of_next_midnight. apply day_of_mono. lia. }
    assert (Hc : day_count lo (tx_t o) = S (day_count (next_midnight lo) (tx_t o))).
    { unfold day_count. rewrite day_of_next_midnight.
      rewrite <- Z2Nat.inj_succ by lia. f_equal. lia. }
    rewrite Hc. cbn [zrange map]. f_equal.
    + unfold raw_piece. f_equal; f_equal.
      * destruct Hal as [->|Hm]; zdiv.
      * zdiv.
    + rewrite <- day_of_next_midnight. apply IH; [lia | lia |].
      right. apply next_midnight_mod.
Qed.

(* ------------------------------------------------------------------ accounts *)
Lemma acct_eqb_spec a b : acct_eqb a b = true <-> a = b.
Proof.
  unfold acct_eqb, opt_eqb. destruct a as [x|], b as [y|]; split; intros H;
    try discriminate; try reflexivity.
  - apply str_eqb_spec in H. congruence.
  - injection H as ->. apply str_eqb_refl.
Qed.

Lemma acct_eqb_refl a : acct_eqb a a = true.
Proof. apply acct_eqb_spec. reflexivity. Qed.

Lemma acct_eqb_false a b : acct_eqb a b = false <-> a <> b.
Proof.
  split; intros H.
  - intros ->. rewrite acct_eqb_refl in H. discriminate.
  - destruct (acct_eqb a b) eqn:E; [|reflexivity]. apply acct_eqb_spec in E. contradiction.
Qed.

Lemma is_open_spec a open : is_open a open = true <-> exists e, In e open /\ tx_acct e = a.
Proof.
  unfold is_open. rewrite existsb_exists. split; intros (e & Hin & H); exists e; split; auto.
  - apply acct_eqb_spec in H. congruence.
  - apply acct_eqb_spec. congruence.
Qed.

Lemma take_first_some a open e rest :
  take_first a open = Some (e, rest) ->
  exists l1 l2, open = l1 ++ e :: l2 /\ rest = l1 ++ l2 /\ tx_acct e = a /\
                (forall x, In x l1 -> tx_acct x <> a).
Proof.
  revert e rest. induction open as [|x r IH]; intros e rest H; cbn [take_first] in H; [discriminate|].
  destruct (acct_eqb a (tx_acct x)) eqn:E.
  - injection H as <- <-. exists [], r. split; [reflexivity|]. split; [reflexivity|]. split.
    + apply acct_eqb_spec in E. congruence.
    + intros ? [].
  - destruct (take_first a r) as [[y r']|] eqn:T; [|discriminate].
    injection H as <- <-. destruct (IH _ _ eq_refl) as (l1 & l2 & -> & -> & Ha & Hn).
    exists (x :: l1), l2. split; [reflexivity|]. split; [reflexivity|]. split; [assumption|].
    intros z [<-|Hz]; [|auto]. apply acct_eqb_false in E. congruence.
Qed.

Lemma take_first_none a open :
  take_first a open = None -> forall x, In x open -> tx_acct x <> a.
Proof.
  induction open as [|x r IH]; intros H z Hz; [destruct Hz|].
  cbn [take_first] in H. destruct (acct_eqb a (tx_acct x)) eqn:E; [discriminate|].
  destruct (take_first a r) as [[y r']|] eqn:T; [discriminate|].
  destruct Hz as [<-|Hz]; [|auto]. apply acct_eqb_false in E. congruence.
Qed.

(* ------------------------------------------------------------------ one session *)
Definition session_payee (e o : tx) : str := if is_empty (tx_desc e) then tx_desc o else tx_desc e.
Definition session_code (e o : tx) : str := if is_empty (tx_desc e) then [] else tx_desc o.

(* the posting of the part [lo, hi) of the session e..o *)
Definition session_post (e o : tx) (lo hi : Z) : post :=
  mkPost (day_of lo) (tx_acct e) (hi - lo) (session_payee e o) (session_code e o) (tx_done o) lo hi.

Definition session_piece (e o : tx) (d : Z) : post :=
  session_post e o (Z.max (tx_t e) (d * day_secs)) (Z.min (tx_t o) ((d + 1) * day_secs)).

(* what a session must post, from the statement: its length in seconds on the check-in day; under
   --day-break one posting for every calendar day it touches *)
Definition session_posts (day_break : bool) (e o : tx) : list post :=
  if day_break then
    if tx_t e <? tx_t o
    then map (session_piece e o) (zrange (day_of (tx_t e)) (day_count (tx_t e) (tx_t o)))
    else []
  else [session_post e o (tx_t e) (tx_t o)].

Lemma is_empty_spec s : is_empty s = true <-> s = [].
Proof. destruct s; split; intros; try discriminate; reflexivity. Qed.

Lemma finish_spec db e o :
  finish db e o = if tx_t o <? tx_t e then Failed TNegative else Posted (session_posts db e o).
Proof.
  unfold finish. destruct (tx_t o <? tx_t e) eqn:Hneg; [reflexivity|]. apply Z.ltb_ge in Hneg.
  set (move := negb (is_empty (tx_desc o)) && is_empty (tx_desc e)).
  set (e' := if move then with_desc e (tx_desc o) else e).
  set (o' := if move then with_desc o [] else o).
  assert (Hpost : forall lo hi, create_xact (with_t e' lo) (with_t o' hi) = session_post e o lo hi).
  { intros lo hi. unfold session_post, session_payee, session_code, create_xact, e', o', move.
    destruct (is_empty (tx_desc o)) eqn:Eo, (is_empty (tx_desc e)) eqn:Ee; cbn; try reflexivity.
    apply is_empty_spec in Eo. apply is_empty_spec in Ee. rewrite Eo, Ee. reflexivity. }
  assert (Hte : tx_t e' = tx_t e) by (unfold e'; destruct move; reflexivity).
  assert (Hto : tx_t o' = tx_t o) by (unfold o'; destruct move; reflexivity).
  unfold session_posts. destruct db.
  - destruct (day_pieces_total e' o') as [ps Hps]. rewrite Hps. f_equal.
    apply split_loop_pieces in Hps. rewrite Hte in Hps.
    destruct (tx_t e <? tx_t o) eqn:Hlt.
    + apply Z.ltb_lt in Hlt.
      rewrite (pieces_closed_form _ _ _ _ Hps) by (rewrite ?Hte, ?Hto; auto; lia).
      rewrite Hto. apply map_ext. intros d. unfold raw_piece, session_piece.
      rewrite Hte, Hto. apply Hpost.
    + apply Z.ltb_ge in Hlt. eapply pieces_empty; [exact Hps|]. rewrite Hto. lia.
  - f_equal. f_equal. rewrite <- (with_t_id e'), <- (with_t_id o'), Hte, Hto. apply Hpost.
Qed.

Definition session_piece_ok (e o : tx) (p : post) : Prop :=
  p_acct p = tx_acct e /\ p_payee p = session_payee e o /\ p_code p = session_code e o /\
  p_cleared p = tx_done o /\
  p_secs p = p_out p - p_in p /\ p_in p < p_out p /\
  p_day p = day_of (p_in p) /\ day_of (p_out p - 1) = p_day p /\
  tx_t e <= p_in p /\ p_out p <= tx_t o.

Lemma session_posts_facts e o :
  tx_t e < tx_t o ->
  contiguous (tx_t e) (session_posts true e o) (tx_t o) /\
  Forall (session_piece_ok e o) (session_posts true e o) /\
  sum_secs (session_posts true e o) = tx_t o - tx_t e /\
  Z.of_nat (length (session_posts true e o)) = day_of (tx_t o - 1) - day_of (tx_t e) + 1.
Proof.
  intros Hlt.
  pose proof (finish_spec true e o) as F.
  assert (Hn : (tx_t o <? tx_t e) = false) by (apply Z.ltb_ge; lia).
  rewrite Hn in F. unfold finish in F. rewrite Hn in F.
  set (move := negb (is_empty (tx_desc o)) && is_empty (tx_desc e)) in F.
  set (e' := if move then with_desc e (tx_desc o) else e) in F.
  set (o' := if move then with_desc o [] else o) in F.
  assert (Hte : tx_t e' = tx_t e) by (unfold e'; destruct move; reflexivity).
  assert (Hto : tx_t o' = tx_t o) by (unfold o'; destruct move; reflexivity).
  assert (Hae : tx_acct e' = tx_acct e) by (unfold e'; destruct move; reflexivity).
  assert (Hdo : tx_done o' = tx_done o) by (unfold o'; destruct move; reflexivity).
  assert (Hpe : tx_desc e' = session_payee e o /\ tx_desc o' = session_code e o).
  { unfold e', o', move, session_payee, session_code.
    destruct (is_empty (tx_desc o)) eqn:Eo, (is_empty (tx_desc e)) eqn:Ee; cbn; auto.
    apply is_empty_spec in Eo. apply is_empty_spec in Ee. rewrite Eo, Ee. auto. }
  destruct Hpe as [Hpe Hpo].
  destruct (day_pieces_total e' o') as [ps Hps]. rewrite Hps in F. injection F as F.
  symmetry in F. change (session_posts true e o = ps) in F. rewrite F.
  apply split_loop_pieces in Hps.
  destruct (pieces_facts _ _ _ _ Hps) as (Hc & Hf & Hs & Hl); [lia | lia |].
  rewrite Hte, Hto in *. split; [exact Hc|]. split; [|split; assumption].
  eapply Forall_impl; [|exact Hf]. intros p Hp. unfold piece_ok in Hp. unfold session_piece_ok.
  rewrite Hte, Hto, Hae, Hdo, Hpe, Hpo in Hp. exact Hp.
Qed.

Lemma session_posts_empty e o : tx_t o <= tx_t e -> session_posts true e o = [].
Proof.
  intros H. unfold session_posts. destruct (tx_t e <? tx_t o) eqn:E; [|reflexivity].
  apply Z.ltb_lt in E. lia.
Qed.

(* a check-out no later than the midnight that follows the check-in: a single piece *)
Lemma session_posts_one_day e o :
  tx_t e < tx_t o -> tx_t o <= next_midnight (tx_t e) ->
  session_posts true e o = session_posts false e o.
Proof.
  intros Hlt Hle. unfold session_posts. apply Z.ltb_lt in Hlt. rewrite Hlt. apply Z.ltb_lt in Hlt.
  assert (Hc : day_count (tx_t e) (tx_t o) = 1%nat).
  { unfold day_count. replace (day_of (tx_t o - 1) - day_of (tx_t e) + 1) with 1 by zdiv. reflexivity. }
  rewrite Hc. cbn [zrange map]. unfold session_piece. f_equal. f_equal; zdiv.
Qed.

Lemma total_for_app a p q : total_for a (p ++ q) = total_for a p + total_for a q.
Proof. induction p as [|x p IH]; cbn [app total_for]; [reflexivity|]. rewrite IH. lia. Qed.

Lemma total_for_all a ps : Forall (fun p => p_acct p = a) ps -> total_for a ps = sum_secs ps.
Proof.
  induction 1 as [|p r Hp _ IH]; cbn [total_for sum_secs]; [reflexivity|].
  rewrite Hp, acct_eqb_refl, IH. reflexivity.
Qed.

Lemma total_for_none a ps : Forall (fun p => p_acct p <> a) ps -> total_for a ps = 0.
Proof.
  induction 1 as [|p r Hp _ IH]; cbn [total_for]; [reflexivity|].
  replace (acct_eqb a (p_acct p)) with false; [lia|].
  symmetry. apply acct_eqb_false. congruence.
Qed.

(* the time a session gives to an account does not depend on --day-break *)
Lemma session_total db e o a :
  tx_t e <= tx_t o ->
  total_for a (session_posts db e o) = if acct_eqb a (tx_acct e) then tx_t o - tx_t e else 0.
Proof.
  intros Hle. destruct db.
  - destruct (Z_lt_le_dec (tx_t e) (tx_t o)) as [Hlt|Hge].
    + destruct (session_posts_facts e o Hlt) as (_ & Hf & Hs & _).
      destruct (acct_eqb a (tx_acct e)) eqn:E.
      * apply acct_eqb_spec in E. rewrite <- Hs. apply total_for_all.
        eapply Forall_impl; [|exact Hf]. intros p Hp. destruct Hp as (Hp & _). congruence.
      * apply acct_eqb_false in E. apply total_for_none.
        eapply Forall_impl; [|exact Hf]. intros p Hp. destruct Hp as (Hp & _). congruence.
    + rewrite session_posts_empty by lia. cbn. destruct (acct_eqb a (tx_acct e)); lia.
  - cbn. destruct (acct_eqb a (tx_acct e)); lia.
Qed.

(* ------------------------------------------------------------------ one check-out *)
Lemma select_inl open o e rest :
  select open o = inl (e, rest) ->
  exists l1 l2, open = l1 ++ e :: l2 /\ rest = l1 ++ l2 /\
    (open = [e] \/ (tx_acct e = tx_acct o /\ forall x, In x l1 -> tx_acct x <> tx_acct o)).
Proof.
  unfold select. destruct open as [|x [|y r]]; intros H; [discriminate| |].
  - injection H as <- <-. exists [], []. auto.
  - destruct (tx_acct o) as [n|] eqn:Ea; [|discriminate].
    destruct (take_first (Some n) (x :: y :: r)) as [[e' rest']|] eqn:T; [|discriminate].
    injection H as <- <-. apply take_first_some in T.
    destruct T as (l1 & l2 & H1 & H2 & H3 & H4). exists l1, l2. auto.
Qed.

Lemma select_inr open o x :
  select open o = inr x ->
  (open = [] /\ x = TNoCheckin) \/
  ((2 <= length open)%nat /\ tx_acct o = None /\ x = TNeedAccount) \/
  ((2 <= length open)%nat /\ tx_acct o <> None /\ x = TNoMatch /\
   forall e, In e open -> tx_acct e <> tx_acct o).
Proof.
  unfold select. destruct open as [|a [|b r]]; intros H; [|discriminate|].
  - injection H as <-. auto.
  - right. destruct (tx_acct o) as [n|] eqn:Ea.
    + destruct (take_first (Some n) (a :: b :: r)) as [[e' rest']|] eqn:T; [discriminate|].
      injection H as <-. right. cbn [length]. repeat split; try lia; try discriminate.
      apply take_first_none. exact T.
    + injection H as <-. left. cbn [length]. repeat split; lia.
Qed.

(* every check-out the model accepts posts exactly the session it closes *)
Lemma clock_out_posted db open o open' ps :
  clock_out db open o = (open', Posted ps) ->
  exists e l1 l2, open = l1 ++ e :: l2 /\ open' = l1 ++ l2 /\
    (open = [e] \/ (tx_acct e = tx_acct o /\ forall x, In x l1 -> tx_acct x <> tx_acct o)) /\
    tx_t e <= tx_t o /\ ps = session_posts db e o.
Proof.
  unfold clock_out, clock_out_from. destruct open as [|a r] eqn:Eo; [discriminate|]. rewrite <- Eo.
  destruct (select open o) as [[e rest]|x] eqn:S; [|discriminate].
  rewrite finish_spec. destruct (tx_t o <? tx_t e) eqn:Hn; [discriminate|]. apply Z.ltb_ge in Hn.
  intros H. injection H as <- <-. apply select_inl in S.
  destruct S as (l1 & l2 & H1 & H2 & H3). exists e, l1, l2. auto.
Qed.

Lemma clock_out_failed db open o open' x :
  clock_out db open o = (open', Failed x) ->
  (open' = open /\
   ((open = [] /\ x = TNoCheckin) \/
    ((2 <= length open)%nat /\ tx_acct o = None /\ x = TNeedAccount) \/
    ((2 <= length open)%nat /\ tx_acct o <> None /\ x = TNoMatch /\
      forall e, In e open -> tx_acct e <> tx_acct o))) \/
  (x = TNegative /\ exists e l1 l2, open = l1 ++ e :: l2 /\ open' = l1 ++ l2 /\
     (open = [e] \/ (tx_acct e = tx_acct o /\ forall y, In y l1 -> tx_acct y <> tx_acct o)) /\
     tx_t o < tx_t e).
Proof.
  unfold clock_out, clock_out_from. destruct open as [|a r] eqn:Eo.
  - intros H. injection H as <- <-. left. auto.
  - rewrite <- Eo. destruct (select open o) as [[e rest]|y] eqn:S.
    + rewrite finish_spec. destruct (tx_t o <? tx_t e) eqn:Hn; [|discriminate]. apply Z.ltb_lt in Hn.
      intros H. injection H as <- <-. right. split; [reflexivity|]. apply select_inl in S.
      destruct S as (l1 & l2 & H1 & H2 & H3). exists e, l1, l2. auto.
    + intros H. injection H as <- <-. left. split; [reflexivity|]. apply select_inr. exact S.
Qed.

Lemma clock_in_spec open e :
  clock_in open e = if is_open (tx_acct e) open then (open, Failed TDouble) else (open ++ [e], Posted []).
Proof. reflexivity. Qed.

(* --day-break changes neither what stays open nor which lines fail nor any account's time *)
Lemma step_day_break open ev :
  fst (step true open ev) = fst (step false open ev) /\
  match snd (step true open ev), snd (step false open ev) with
  | Posted p, Posted q => forall a, total_for a p = total_for a q
  | Failed x, Failed y => x = y
  | _, _ => False
  end.
Proof.
  destruct ev as [e|o]; cbn [step].
  - unfold clock_in. destruct (is_open (tx_acct e) open); cbn; auto.
  - unfold clock_out, clock_out_from. destruct open as [|a r] eqn:Eo; [cbn; auto|]. rewrite <- Eo.
    destruct (select open o) as [[e rest]|y]; [|cbn; auto].
    rewrite !finish_spec. destruct (tx_t o <? tx_t e) eqn:Hn; cbn [fst snd]; [auto|].
    apply Z.ltb_ge in Hn. split; [reflexivity|]. intros a0. rewrite !session_total by assumption. reflexivity.
Qed.

Lemma run_cons db open ev r :
  run db open (ev :: r) =
  (fst (run db (fst (step db open ev)) r), snd (step db open ev) :: snd (run db (fst (step db open ev)) r)).
Proof.
  cbn [run]. destruct (step db open ev) as [o1 oc]. cbn [fst snd].
  destruct (run db o1 r) as [o2 ocs]. reflexivity.
Qed.

Lemma run_day_break evs : forall open n,
  fst (run true open evs) = fst (run false open evs) /\
  failures n (snd (run true open evs)) = failures n (snd (run false open evs)) /\
  forall a, total_for a (posted (snd (run true open evs))) = total_for a (posted (snd (run false open evs))).
Proof.
  induction evs as [|ev r IH]; intros open n; [cbn; auto|].
  rewrite !run_cons. cbn [fst snd].
  destruct (step_day_break open ev) as [Ho Hs]. rewrite Ho.
  destruct (IH (fst (step false open ev)) (n + 1)) as (I1 & I2 & I3).
  split; [exact I1|].
  destruct (snd (step true open ev)) as [p|x], (snd (step false open ev)) as [q|y]; try contradiction.
  - cbn [failures posted]. split; [exact I2|]. intros a. rewrite !total_for_app, Hs, I3. reflexivity.
  - subst y. cbn [failures posted]. split; [rewrite I2; reflexivity | exact I3].
Qed.

(* ------------------------------------------------------------------ the specification *)
(* The reading of the property text: what is open is a partial map from accounts to check-ins;
   a check-in to an open account, a check-out for an account that is not open and a check-out
   earlier than its check-in are errors; everything else posts the session. *)
Definition lookup (a : acct) (open : list tx) : option tx :=
  find (fun e => acct_eqb a (tx_acct e)) open.
Definition drop (a : acct) (open : list tx) : list tx :=
  filter (fun e => negb (acct_eqb a (tx_acct e))) open.

Inductive verdict : Type :=
| Accept (ps : list post)
| Reject (c : err).

Definition spec_step (day_break : bool) (open : list tx) (ev : event) : list tx * verdict :=
  match ev with
  | CheckIn e =>
      match lookup (tx_acct e) open with
      | Some _ => (open, Reject ETimelogDouble)
      | None => (open ++ [e], Accept [])
      end
  | CheckOut o =>
      match lookup (tx_acct o) open with
      | None => (open, Reject ETimelogNoIn)
      | Some e =>
          (drop (tx_acct o) open,
           if tx_t o <? tx_t e then Reject ETimelogNegative else Accept (session_posts day_break e o))
      end
  end.

Fixpoint spec_run (day_break : bool) (open : list tx) (evs : list event) : list tx * list verdict :=
  match evs with
  | [] => (open, [])
  | ev :: r =>
      let '(open1, v) := spec_step day_break open ev in
      let '(open2, vs) := spec_run day_break open1 r in
      (open2, v :: vs)
  end.

Definition verdict_of (oc : outcome) : verdict :=
  match oc with Posted ps => Accept ps | Failed e => Reject (tl_class e) end.

(* no account is open twice *)
Definition distinct (open : list tx) : Prop := NoDup (map tx_acct open).

(* the line names an account (a check-out line that ends after the timestamp passes NULL:
   textual.cc clock_out_directive; its failures are listed by clock_out_failed) *)
Definition named (ev : event) : Prop :=
  match ev with CheckOut o => tx_acct o <> None | CheckIn _ => True end.

(* F12 form: exactly one session is open and the check-out names another account *)
Definition names_other (open : list tx) (ev : event) : Prop :=
  match ev, open with
  | CheckOut o, [e] => tx_acct o <> tx_acct e
  | _, _ => False
  end.

Lemma lookup_is_open a open : is_open a open = match lookup a open with Some _ => true | None => false end.
Proof.
  unfold is_open, lookup. induction open as [|x r IH]; cbn [existsb find]; [reflexivity|].
  destruct (acct_eqb a (tx_acct x)); cbn; auto.
Qed.

Lemma drop_id a open : (forall x, In x open -> tx_acct x <> a) -> drop a open = open.
Proof.
  induction open as [|x r IH]; intros H; cbn [drop filter]; [reflexivity|].
  replace (acct_eqb a (tx_acct x)) with false.
  - cbn. f_equal. apply IH. intros y Hy. apply H. right. exact Hy.
  - symmetry. apply acct_eqb_false. intros ->. apply (H x); [left|]; reflexivity.
Qed.

Lemma take_first_lookup a open :
  distinct open ->
  match take_first a open with
  | Some (e, rest) => lookup a open = Some e /\ drop a open = rest
  | None => lookup a open = None
  end.
Proof.
  unfold distinct. induction open as [|x r IH]; intros Hd; cbn [take_first]; [reflexivity|].
  cbn [map] in Hd. inversion Hd as [|? ? Hnin Hd']; subst.
  unfold lookup, drop. cbn [find filter].
  destruct (acct_eqb a (tx_acct x)) eqn:E.
  - split; [reflexivity|]. cbn [negb]. apply drop_id. intros y Hy Ha.
    apply acct_eqb_spec in E. apply Hnin. rewrite <- E, <- Ha. apply in_map. exact Hy.
  - specialize (IH Hd'). destruct (take_first a r) as [[e rest]|].
    + destruct IH as [I1 I2]. split; [exact I1|]. cbn [negb]. f_equal. exact I2.
    + exact IH.
Qed.

Lemma step_refines_spec db open ev :
  distinct open -> named ev -> ~ names_other open ev ->
  spec_step db open ev = (fst (step db open ev), verdict_of (snd (step db open ev))).
Proof.
  intros Hd Hn Hf. destruct ev as [e|o]; cbn [step spec_step].
  - unfold clock_in. rewrite lookup_is_open. destruct (lookup (tx_acct e) open); reflexivity.
  - unfold clock_out, clock_out_from, select.
    destruct open as [|x [|y r]].
    + reflexivity.
    + cbn [names_other] in Hf.
      assert (Ha : tx_acct o = tx_acct x).
      { destruct (acct_eqb (tx_acct o) (tx_acct x)) eqn:E; [apply acct_eqb_spec; exact E|].
        apply acct_eqb_false in E. contradiction. }
      unfold lookup, drop. cbn [find filter]. rewrite Ha, acct_eqb_refl. cbn [negb fst snd].
      rewrite finish_spec. destruct (tx_t o <? tx_t x); reflexivity.
    + cbn [named] in Hn. destruct (tx_acct o) as [n|] eqn:Ea; [|contradiction].
      pose proof (take_first_lookup (Some n) (x :: y :: r) Hd) as T.
      destruct (take_first (Some n) (x :: y :: r)) as [[e rest]|].
      * destruct T as [T1 T2]. rewrite T1, T2. cbn [fst snd]. rewrite finish_spec.
        destruct (tx_t o <? tx_t e); reflexivity.
      * rewrite T. reflexivity.
Qed.

(* the model never opens an account twice *)
Lemma NoDup_snoc {A} (l : list A) (a : A) : NoDup l -> ~ In a l -> NoDup (l ++ [a]).
Proof.
  induction 1 as [|x l Hx Hl IH]; intros Ha; cbn [app].
  - constructor; [intros []|constructor].
  - constructor.
    + rewrite in_app_iff. intros [H|[H|[]]]; [contradiction|]. apply Ha. left. symmetry. exact H.
    + apply IH. intros H. apply Ha. right. exact H.
Qed.

Lemma step_distinct db open ev : distinct open -> distinct (fst (step db open ev)).
Proof.
  unfold distinct. intros Hd. destruct ev as [e|o]; cbn [step].
  - unfold clock_in. destruct (is_open (tx_acct e) open) eqn:E; cbn [fst]; [exact Hd|].
    rewrite map_app. cbn [map]. apply NoDup_snoc; [exact Hd|].
    intros Hin. apply in_map_iff in Hin. destruct Hin as (x & Hx & Hin).
    assert (is_open (tx_acct e) open = true) by (apply is_open_spec; exists x; auto).
    congruence.
  - destruct (snd (step db open (CheckOut o))) as [ps|x] eqn:S.
    + cbn [step] in S. destruct (clock_out db open o) as [open' oc] eqn:C. cbn [snd fst] in *. subst oc.
      apply clock_out_posted in C. destruct C as (e & l1 & l2 & -> & -> & _).
      rewrite map_app in *. cbn [map] in Hd. apply NoDup_remove_1 in Hd. exact Hd.
    + cbn [step] in S. destruct (clock_out db open o) as [open' oc] eqn:C. cbn [snd fst] in *. subst oc.
      apply clock_out_failed in C. destruct C as [[-> _]|(_ & e & l1 & l2 & -> & -> & _)]; [exact Hd|].
      rewrite map_app in *. cbn [map] in Hd. apply NoDup_remove_1 in Hd. exact Hd.
Qed.

(* ------------------------------------------------------------------ whole event sequences *)
(* every check-out names an account, and never the F12 form, along the model's own run *)
Fixpoint clean_run (db : bool) (open : list tx) (evs : list event) : Prop :=
  match evs with
  | [] => True
  | ev :: r => named ev /\ ~ names_other open ev /\ clean_run db (fst (step db open ev)) r
  end.

Lemma spec_run_cons db open ev r :
  spec_run db open (ev :: r) =
  (fst (spec_run db (fst (spec_step db open ev)) r),
   snd (spec_step db open ev) :: snd (spec_run db (fst (spec_step db open ev)) r)).
Proof.
  cbn [spec_run]. destruct (spec_step db open ev) as [o1 v]. cbn [fst snd].
  destruct (spec_run db o1 r) as [o2 vs]. reflexivity.
Qed.

Lemma run_refines_spec db evs : forall open,
  distinct open -> clean_run db open evs ->
  spec_run db open evs = (fst (run db open evs), map verdict_of (snd (run db open evs))).
Proof.
  induction evs as [|ev r IH]; intros open Hd Hc; [reflexivity|].
  destruct Hc as (Hn & Hf & Hc).
  rewrite spec_run_cons, run_cons, (step_refines_spec db open ev Hd Hn Hf). cbn [fst snd map].
  rewrite (IH _ (step_distinct db open ev Hd) Hc). reflexivity.
Qed.

Lemma run_distinct db evs : forall open, distinct open -> distinct (fst (run db open evs)).
Proof.
  induction evs as [|ev r IH]; intros open Hd; [exact Hd|].
  rewrite run_cons. cbn [fst]. apply IH. apply step_distinct. exact Hd.
Qed.

(* which lines fail, said directly: exactly the three cases of the statement *)
Lemma step_fails_iff db open ev c :
  distinct open -> named ev -> ~ names_other open ev ->
  ((exists x, snd (step db open ev) = Failed x /\ tl_class x = c) <->
   match ev with
   | CheckIn e => c = ETimelogDouble /\ exists e0, lookup (tx_acct e) open = Some e0
   | CheckOut o =>
       (c = ETimelogNoIn /\ lookup (tx_acct o) open = None) \/
       (c = ETimelogNegative /\ exists e, lookup (tx_acct o) open = Some e /\ tx_t o < tx_t e)
   end).
Proof.
  intros Hd Hn Hf. pose proof (step_refines_spec db open ev Hd Hn Hf) as R.
  assert (V : snd (spec_step db open ev) = verdict_of (snd (step db open ev))) by (rewrite R; reflexivity).
  clear R. destruct ev as [e|o]; cbn [spec_step] in V.
  - destruct (lookup (tx_acct e) open) as [e0|]; cbn [snd] in V.
    + split.
      * intros (x & Hx & Hcx). rewrite Hx in V. cbn in V. injection V as V. split; [congruence|eauto].
      * intros (-> & _). destruct (snd (step db open (CheckIn e))) as [ps|x]; cbn in V; [discriminate|].
        injection V as V. eauto.
    + split.
      * intros (x & Hx & _). rewrite Hx in V. discriminate.
      * intros (_ & e0 & He0). discriminate.
  - destruct (lookup (tx_acct o) open) as [e|]; cbn [snd] in V.
    + destruct (tx_t o <? tx_t e) eqn:Hlt.
      * apply Z.ltb_lt in Hlt. split.
        -- intros (x & Hx & Hcx). rewrite Hx in V. cbn in V. injection V as V. right. split; [congruence|eauto].
        -- intros [(_ & Hnone)|(-> & _)]; [discriminate|].
           destruct (snd (step db open (CheckOut o))) as [ps|x]; cbn in V; [discriminate|].
           injection V as V. eauto.
      * apply Z.ltb_ge in Hlt. split.
        -- intros (x & Hx & _). rewrite Hx in V. discriminate.
        -- intros [(_ & Hnone)|(_ & e1 & He1 & Hl)]; [discriminate|]. injection He1 as <-. lia.
    + split.
      * intros (x & Hx & Hcx). rewrite Hx in V. cbn in V. injection V as V. left. split; [congruence|reflexivity].
      * intros [(-> & _)|(_ & e1 & He1 & _)]; [|discriminate].
        destruct (snd (step db open (CheckOut o))) as [ps|x]; cbn in V; [discriminate|].
        injection V as V. eauto.
Qed.

(* F12: with exactly one session open any check-out closes it, whatever account it names *)
Lemma single_open_any_checkout db e o :
  clock_out db [e] o =
  ([], if tx_t o <? tx_t e then Failed TNegative else Posted (session_posts db e o)).
Proof. unfold clock_out, clock_out_from, select. rewrite finish_spec. reflexivity. Qed.

(* ---- every posting of a run is a session between a check-in and a check-out of the input ---- *)
Lemma step_open_from db open ev x :
  In x (fst (step db open ev)) -> In x open \/ ev = CheckIn x.
Proof.
  destruct ev as [e|o]; cbn [step].
  - unfold clock_in. destruct (is_open (tx_acct e) open); cbn [fst]; [auto|].
    rewrite in_app_iff. intros [H|[<-|[]]]; auto.
  - destruct (clock_out db open o) as [open' oc] eqn:C. cbn [fst]. destruct oc as [ps|y].
    + apply clock_out_posted in C. destruct C as (e & l1 & l2 & -> & -> & _).
      rewrite !in_app_iff. intros [H|H]; left; [left|right; right]; exact H.
    + apply clock_out_failed in C. destruct C as [[-> _]|(_ & e & l1 & l2 & -> & -> & _)]; [auto|].
      rewrite !in_app_iff. intros [H|H]; left; [left|right; right]; exact H.
Qed.

Definition is_session (db : bool) (open : list tx) (evs : list event) (ps : list post) : Prop :=
  exists e o, (In e open \/ In (CheckIn e) evs) /\ In (CheckOut o) evs /\
              tx_t e <= tx_t o /\ ps = session_posts db e o.

Lemma run_sessions db evs : forall open,
  Forall (fun oc => match oc with Posted [] => True | Posted ps => is_session db open evs ps | Failed _ => True end)
         (snd (run db open evs)).
Proof.
  induction evs as [|ev r IH]; intros open; [constructor|].
  rewrite run_cons. cbn [snd]. constructor.
  - destruct ev as [e|o]; cbn [step].
    + unfold clock_in. destruct (is_open (tx_acct e) open); cbn [snd]; exact I.
    + destruct (clock_out db open o) as [open' oc] eqn:C. cbn [snd]. destruct oc as [[|p ps]|y]; try exact I.
      apply clock_out_posted in C. destruct C as (e & l1 & l2 & -> & _ & _ & Hle & Hps).
      exists e, o. split; [left; apply in_elt|]. split; [left; reflexivity|]. auto.
  - eapply Forall_impl; [|apply IH]. intros oc. destruct oc as [[|p ps]|y]; auto.
    intros (e & o & He & Ho & Hle & Hps). exists e, o. split; [|split; [right; exact Ho|auto]].
    destruct He as [He|He]; [|right; right; exact He].
    apply step_open_from in He. destruct He as [He| ->]; [left; exact He|right; left; reflexivity].
Qed.

(* ------------------------------------------------------------------ end of file *)
Definition close_out (now : Z) (e : tx) : tx := mkTx now false (tx_acct e) [].

Lemma close_loop_spec db now : forall open,
  distinct open -> Forall (fun e => tx_acct e <> None) open ->
  close_loop db now (map tx_acct open) open =
  if existsb (fun e => now <? tx_t e) open then inr TNegative
  else inl (concat (map (fun e => session_posts db e (close_out now e)) open)).
Proof.
  induction open as [|e r IH]; intros Hd Hn; [reflexivity|].
  cbn [map close_loop existsb concat].
  inversion Hn as [|? ? Hne Hn']; subst.
  unfold distinct in Hd. cbn [map] in Hd. inversion Hd as [|? ? Hnin Hd']; subst.
  assert (S : select (e :: r) (mkTx now false (tx_acct e) []) = inl (e, r)).
  { unfold select. destruct r as [|y r']; [reflexivity|]. cbn [tx_acct].
    destruct (tx_acct e) as [n|] eqn:Ea; [|congruence].
    cbn [take_first]. rewrite Ea, acct_eqb_refl. reflexivity. }
  unfold clock_out_from. rewrite S, finish_spec. cbn [tx_t].
  destruct (now <? tx_t e) eqn:Hlt; cbn [orb]; [reflexivity|].
  rewrite (IH Hd' Hn'). destruct (existsb (fun e0 => now <? tx_t e0) r); reflexivity.
Qed.

Lemma run_named db evs : forall open,
  Forall (fun e => tx_acct e <> None) open ->
  Forall (fun ev => match ev with CheckIn e => tx_acct e <> None | CheckOut _ => True end) evs ->
  Forall (fun e => tx_acct e <> None) (fst (run db open evs)).
Proof.
  induction evs as [|ev r IH]; intros open Ho He; [exact Ho|].
  rewrite run_cons. cbn [fst]. inversion He as [|? ? Hev He']; subst. apply IH; [|exact He'].
  apply Forall_forall. intros x Hx. apply step_open_from in Hx. destruct Hx as [Hx| ->].
  - rewrite Forall_forall in Ho. apply Ho. exact Hx.
  - exact Hev.
Qed.

(* ------------------------------------------------------------------ the whole file *)
Definition same_time (r1 r2 : list post + tlerr) : Prop :=
  match r1, r2 with
  | inl p, inl q => forall a, total_for a p = total_for a q
  | inr x, inr y => x = y
  | _, _ => False
  end.

Lemma clock_out_from_day_break open o :
  fst (clock_out_from true open o) = fst (clock_out_from false open o) /\
  match snd (clock_out_from true open o), snd (clock_out_from false open o) with
  | Posted p, Posted q => forall a, total_for a p = total_for a q
  | Failed x, Failed y => x = y
  | _, _ => False
  end.
Proof.
  unfold clock_out_from. destruct (select open o) as [[e rest]|y]; [|cbn; auto].
  rewrite !finish_spec. destruct (tx_t o <? tx_t e) eqn:Hn; cbn [fst snd]; [auto|].
  apply Z.ltb_ge in Hn. split; [reflexivity|]. intros a0. rewrite !session_total by assumption. reflexivity.
Qed.

Lemma close_loop_day_break now accts : forall open,
  same_time (close_loop true now accts open) (close_loop false now accts open).
Proof.
  induction accts as [|a r IH]; intros open; cbn [close_loop]; [cbn; reflexivity|].
  destruct (clock_out_from_day_break open (mkTx now false a [])) as [Ho Hs].
  destruct (clock_out_from true open (mkTx now false a [])) as [o1 oc1].
  destruct (clock_out_from false open (mkTx now false a [])) as [o2 oc2].
  cbn [fst snd] in *. subst o2.
  destruct oc1 as [p|x], oc2 as [q|y]; try contradiction; [|cbn; exact Hs].
  specialize (IH o1). unfold same_time in *.
  destruct (close_loop true now r o1) as [p'|x'], (close_loop false now r o1) as [q'|y']; try contradiction.
  - intros a0. rewrite !total_for_app, Hs, IH. reflexivity.
  - exact IH.
Qed.

(* an account's reported time, the failing lines and their classes are the same with and
   without --day-break *)
Lemma journal_day_break now evs :
  match journal true now evs, journal false now evs with
  | Report p, Report q => forall a, total_for a p = total_for a q
  | Errors l c, Errors l' c' => l = l' /\ c = c'
  | _, _ => False
  end.
Proof.
  unfold journal.
  destruct (run_day_break evs [] 0) as (H1 & H2 & H3).
  destruct (run true [] evs) as [o1 ocs1]. destruct (run false [] evs) as [o2 ocs2].
  cbn [fst snd] in *. subst o2. rewrite H2.
  pose proof (close_loop_day_break now (map tx_acct o1) o1) as C. unfold close.
  unfold same_time in C.
  destruct (close_loop true now (map tx_acct o1) o1) as [p|x],
           (close_loop false now (map tx_acct o1) o1) as [q|y]; try contradiction.
  - destruct (failures 0 ocs2); [|auto]. intros a. rewrite !total_for_app, H3, C. reflexivity.
  - subst y. auto.
Qed.

Definition named_in (ev : event) : Prop :=
  match ev with CheckIn e => tx_acct e <> None | CheckOut _ => True end.

(* the report of a file in which every check-in names an account: the sessions closed by the
   lines, then the sessions still open, ended at --now, in check-in order *)
Lemma journal_spec db now evs :
  Forall named_in evs ->
  let open := fst (run db [] evs) in
  let ocs := snd (run db [] evs) in
  journal db now evs =
  if existsb (fun e => now <? tx_t e) open then Errors (failures 0 ocs) (Some TNegative)
  else match failures 0 ocs with
       | [] => Report (posted ocs ++ concat (map (fun e => session_posts db e (close_out now e)) open))
       | l => Errors l None
       end.
Proof.
  intros Hn open ocs. unfold journal, close.
  assert (Hd : distinct open) by (apply run_distinct; constructor).
  assert (Ho : Forall (fun e => tx_acct e <> None) open) by (apply run_named; [constructor|exact Hn]).
  subst open ocs. destruct (run db [] evs) as [open ocs]. cbn [fst snd] in *.
  rewrite (close_loop_spec db now open Hd Ho).
  destruct (existsb (fun e => now <? tx_t e) open); [reflexivity|].
  destruct (failures 0 ocs); reflexivity.
Qed.

(* ------------------------------------------------------------------ statements as exported *)
Lemma session_seconds_lemma open o open' ps :
  clock_out false open o = (open', Posted ps) ->
  exists e l1 l2 p,
    open = l1 ++ e :: l2 /\ open' = l1 ++ l2 /\
    (open = [e] \/ (tx_acct e = tx_acct o /\ forall x, In x l1 -> tx_acct x <> tx_acct o)) /\
    ps = [p] /\
    p_secs p = tx_t o - tx_t e /\ 0 <= p_secs p /\
    p_day p = day_of (tx_t e) /\ p_acct p = tx_acct e /\
    p_in p = tx_t e /\ p_out p = tx_t o /\ p_cleared p = tx_done o.
Proof.
  intros H. apply clock_out_posted in H. destruct H as (e & l1 & l2 & H1 & H2 & H3 & H4 & H5).
  exists e, l1, l2, (session_post e o (tx_t e) (tx_t o)). cbn. repeat split; auto; lia.
Qed.

Lemma day_break_pieces_lemma open o open' ps :
  clock_out true open o = (open', Posted ps) ->
  exists e l1 l2,
    open = l1 ++ e :: l2 /\ open' = l1 ++ l2 /\
    (open = [e] \/ (tx_acct e = tx_acct o /\ forall x, In x l1 -> tx_acct x <> tx_acct o)) /\
    tx_t e <= tx_t o /\
    (tx_t e = tx_t o -> ps = []) /\
    (tx_t e < tx_t o ->
       contiguous (tx_t e) ps (tx_t o) /\ Forall (session_piece_ok e o) ps /\
       sum_secs ps = tx_t o - tx_t e /\
       Z.of_nat (length ps) = day_of (tx_t o - 1) - day_of (tx_t e) + 1 /\
       ps = map (session_piece e o) (zrange (day_of (tx_t e)) (day_count (tx_t e) (tx_t o)))).
Proof.
  intros H. apply clock_out_posted in H. destruct H as (e & l1 & l2 & H1 & H2 & H3 & H4 & ->).
  exists e, l1, l2. repeat split; auto.
  - intros E. apply session_posts_empty. lia.
  - apply session_posts_facts; assumption.
  - apply session_posts_facts; assumption.
  - apply session_posts_facts; assumption.
  - apply session_posts_facts; assumption.
  - unfold session_posts. apply Z.ltb_lt in H. rewrite H. reflexivity.
Qed.

Lemma midnight_checkout_lemma e o :
  tx_t e < tx_t o -> tx_t o <= next_midnight (tx_t e) ->
  session_posts true e o = [session_post e o (tx_t e) (tx_t o)].
Proof. intros H1 H2. rewrite session_posts_one_day by assumption. reflexivity. Qed.

(* ------------------------------------------------------------------ the glue: one resolution rule *)
(* The model compares the account of a check-out with the accounts of the open check-ins; that is the
   comparison of what the two lines NAME only if clock_in_directive and clock_out_directive resolve
   the written text with the same expression.  Gen/ClockAccount.v is regenerated from
   src/textual.cc on every run; anything but top_account() at both sites fails here. *)
Lemma clock_lines_resolve_alike_lemma :
  src_clock_in_root = RootTopAccount /\ src_clock_out_root = RootTopAccount.
Proof. split; reflexivity. Qed.

(* ------------------------------------------------------------------ the postings an account holds *)
From LedgerV Require Import Gen.TimelogPosts.

(* the two source shapes were recognised: create_timelog_xact puts the posting on its account's list
   at most once itself, xact_base_t::finalize exactly once (anything else is 99: fails here) *)
Lemma account_adds_recognised_lemma :
  (src_timelog_account_adds = 0 \/ src_timelog_account_adds = 1) /\ src_finalize_account_adds = 1.
Proof. split; [first [left; reflexivity | right; reflexivity] | reflexivity]. Qed.

Lemma posts_for_nonneg a ps : 0 <= posts_for a ps.
Proof. induction ps as [|p r IH]; cbn [posts_for]; [lia|]. destruct (acct_eqb a (p_acct p)); lia. Qed.

Lemma held_posts_rows a ps : held_posts a ps = held_of_rows (posts_for a ps).
Proof. reflexivity. Qed.

(* an account holds as many postings as it was given exactly when the source adds each once *)
Lemma held_posts_once_iff a ps :
  0 < posts_for a ps -> (held_posts a ps = posts_for a ps <-> account_adds = 1).
Proof.
  intros Hpos. unfold held_posts. split; intros H; [nia | rewrite H; lia].
Qed.

(* decided for the source as it is now: either every account holds exactly the postings it was given,
   or a one-session file shows an account that holds another number.  The proof follows whichever the
   regenerated table says. *)
Definition one_session_file : list event :=
  [CheckIn (mkTx 0 false (Some [65]) []); CheckOut (mkTx 3600 false (Some [65]) [])].

Lemma held_posts_decided_lemma :
  if account_adds =? 1
  then forall a ps, held_posts a ps = posts_for a ps
  else exists ps, journal false 86400 one_session_file = Report ps /\
                  posts_for (Some [65]) ps = 1 /\ held_posts (Some [65]) ps <> 1.
Proof.
  destruct (account_adds =? 1) eqn:E.
  - apply Z.eqb_eq in E. intros a ps. unfold held_posts. rewrite E. lia.
  - apply Z.eqb_neq in E. eexists. split; [vm_compute; reflexivity|]. split; [vm_compute; reflexivity|].
    unfold held_posts. intros H. apply E.
    replace (posts_for _ _) with 1 in H by (vm_compute; reflexivity).
    lia.
Qed.

(* ------------------------------------------------------------------ reported time: unreduce *)
From LedgerV Require Import Gen.UnreduceWalk.
Local Open Scope Q_scope.

Definition prod_factors (l : list (str * Q)) : Q := fold_right (fun x a => snd x * a) 1 l.

Lemma last_cons {A} (t : list A) : forall (a d : A), last (a :: t) d = last t a.
Proof.
  induction t as [|b t IH]; intros a d; [reflexivity|].
  change (last (a :: b :: t) d) with (last (b :: t) d). rewrite (IH b d), (IH b a). reflexivity.
Qed.

Lemma unreduce_walk_keeps_one chain : forall lab q,
  at_least_one q = true -> at_least_one (snd (unreduce_walk chain lab q)) = true.
Proof.
  induction chain as [|[l f] r IH]; intros lab q H; cbn [unreduce_walk]; [exact H|].
  destruct (at_least_one (Qred (q / f))) eqn:E; [apply IH; exact E | exact H].
Qed.

(* either no step is taken or the quantity shown is at least 1 in absolute value *)
Lemma unreduce_walk_moved chain lab q :
  unreduce_walk chain lab q = (lab, q) \/ at_least_one (snd (unreduce_walk chain lab q)) = true.
Proof.
  destruct chain as [|[l f] r]; cbn [unreduce_walk]; [left; reflexivity|].
  destruct (at_least_one (Qred (q / f))) eqn:E; [right; apply unreduce_walk_keeps_one; exact E | left; reflexivity].
Qed.

(* the walk stops after k units; the quantity shown, times the factors walked, is the quantity in
   the amount's own unit - exactly; one more step would have brought it below 1 *)
Lemma unreduce_walk_exact chain : forall lab q,
  Forall (fun x => ~ snd x == 0) chain ->
  exists k, (k <= length chain)%nat /\
    snd (unreduce_walk chain lab q) * prod_factors (firstn k chain) == q /\
    fst (unreduce_walk chain lab q) = last (map fst (firstn k chain)) lab /\
    (forall x, nth_error chain k = Some x ->
       at_least_one (Qred (snd (unreduce_walk chain lab q) / snd x)) = false).
Proof.
  induction chain as [|[l f] r IH]; intros lab q Hnz.
  - exists 0%nat. cbn. repeat split; try lia; try ring.
    intros x Hx. discriminate.
  - inversion Hnz as [|? ? Hf Hr]; subst. cbn [snd] in Hf. cbn [unreduce_walk].
    destruct (at_least_one (Qred (q / f))) eqn:E.
    + destruct (IH l (Qred (q / f)) Hr) as (k & Hk & Hq & Hl & Hstop).
      exists (S k). cbn [length firstn map prod_factors fold_right snd fst]. repeat split.
      * lia.
      * fold (prod_factors (firstn k r)).
        assert (Hq' : snd (unreduce_walk r l (Qred (q / f))) * prod_factors (firstn k r) == q / f)
          by (rewrite Hq; apply Qred_correct).
        setoid_replace (snd (unreduce_walk r l (Qred (q / f))) * (f * prod_factors (firstn k r)))
          with ((snd (unreduce_walk r l (Qred (q / f))) * prod_factors (firstn k r)) * f) by ring.
        rewrite Hq'. field. exact Hf.
      * rewrite last_cons. exact Hl.
      * intros x Hx. cbn [nth_error] in Hx. apply Hstop. exact Hx.
    + exists 0%nat. cbn [firstn map prod_factors fold_right last fst snd length]. repeat split.
      * lia.
      * ring.
      * intros x Hx. cbn [nth_error] in Hx. injection Hx as <-. cbn [snd]. exact E.
Qed.

Lemma unreduce_divides_by_next_factor_lemma : src_unreduce_divisor = DivCursorLarger.
Proof. reflexivity. Qed.
