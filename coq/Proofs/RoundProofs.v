(* Proofs about Base/Round.v: the printed number is within half a unit in the last place. *)
From LedgerV Require Import Base.Prelude Base.Round Gen.AmountConsts.
From Coq Require Import Psatz.
Local Open Scope Z_scope.

(* the constants the model uses are the ones in the source today *)
Lemma extend_by_digits_is_source : extend_by_digits = src_extend_by_digits.
Proof. reflexivity. Qed.
Lemma mpfr_bits_per_digit_is_source : 64 = src_mpfr_bits_per_digit.
Proof. reflexivity. Qed.

Lemma rhe_nd_err n d : 0 < d -> 2 * Z.abs (rhe_nd n d * d - n) <= d.
Proof.
  intros Hd. unfold rhe_nd.
  pose proof (Z.div_mod n d ltac:(lia)) as Hdm.
  pose proof (Z.mod_pos_bound n d Hd) as Hr.
  set (q := n / d) in *. set (r := n mod d) in *.
  destruct (Z.compare_spec (2 * r) d) as [He|Hl|Hg].
  - destruct (Z.odd q); nia.
  - nia.
  - nia.
Qed.

(* round-half-even really is half-even at ties, and is the floor or the floor + 1 *)
Lemma rhe_nd_tie_even n d : 0 < d -> 2 * (n mod d) = d -> Z.even (rhe_nd n d) = true.
Proof.
  intros Hd Ht. unfold rhe_nd. rewrite Ht, Z.compare_refl.
  destruct (Z.odd (n / d)) eqn:Ho.
  - rewrite Z.even_add, <- Z.negb_odd, Ho. reflexivity.
  - rewrite <- Z.negb_odd, Ho. reflexivity.
Qed.

Lemma rhe_nd_exact n d k : 0 < d -> n = k * d -> rhe_nd n d = k.
Proof.
  intros Hd ->. unfold rhe_nd. rewrite Z.div_mul, Z.mod_mul by lia.
  cbn. destruct d; cbn; lia.
Qed.

(* double rounding through a precise enough intermediate A/B of the exact N/D *)
Lemma transfer_Z k A B N D :
  0 < B -> 0 < D ->
  2 * Z.abs (k * B - A) <= B -> 2 * Z.abs (A * D - N * B) < B ->
  2 * Z.abs (k * D - N) <= D.
Proof. intros HB HD H1 H2. nia. Qed.

Lemma bits_pos n : 0 < bits n.
Proof.
  unfold bits. destruct (n =? 0); [lia|]. pose proof (Z.log2_nonneg (Z.abs n)). lia.
Qed.

Lemma bits_spec n : n <> 0 -> 2 ^ (bits n - 1) <= Z.abs n < 2 ^ bits n.
Proof.
  intros Hn. unfold bits. destruct (Z.eqb_spec n 0); [contradiction|].
  replace (Z.log2 (Z.abs n) + 1 - 1) with (Z.log2 (Z.abs n)) by lia.
  replace (Z.log2 (Z.abs n) + 1) with (Z.succ (Z.log2 (Z.abs n))) by lia.
  apply Z.log2_spec. lia.
Qed.

(* the binary rounding step: |m / 2^s - n/d| <= 2^-(s+1), and s is large *)
Lemma rn_bits_pos_spec n d P m s :
  0 < n -> 0 < d -> rn_bits_pos n d P = (m, s) ->
  P - (bits n - bits d) - 1 <= s /\
  (0 <= s -> 2 * Z.abs (m * d - n * 2 ^ s) <= d).
Proof.
  intros Hn Hd. unfold rn_bits_pos.
  set (s0 := P - (bits n - bits d)).
  set (ge := if 0 <=? s0 then _ else _).
  intros H. injection H as Hm Hs. split.
  - destruct ge; lia.
  - intros Hs0. rewrite <- Hm. destruct (Z.leb_spec 0 (if ge then s0 - 1 else s0)) as [Hle|Hlt].
    + rewrite Hs. rewrite Hs in Hle. apply rhe_nd_err. exact Hd.
    + rewrite Hs in Hlt. lia.
Qed.

Lemma pow2_pos k : 0 < 2 ^ k \/ k < 0.
Proof. destruct (Z.ltb_spec k 0); [right; lia | left; apply Z.pow_pos_nonneg; lia]. Qed.

(* main theorem, positive quantities *)
Lemma print_half_ulp_pos n d p :
  0 < n -> 0 < d -> 0 <= p -> 10 ^ p <= 2 ^ (bits d + 767) ->
  2 * Z.abs (print_scaled n d p * d - n * 10 ^ p) <= d.
Proof.
  intros Hn Hd Hp Hsmall. unfold print_scaled, rn_bits.
  destruct (Z.eqb_spec n 0); [lia|]. destruct (Z.ltb_spec 0 n); [|lia].
  destruct (rn_bits_pos n d (mpfr_prec n d)) as [m s] eqn:E.
  destruct (rn_bits_pos_spec _ _ _ _ _ Hn Hd E) as [Hs Hm].
  assert (Hbn := bits_pos n). assert (Hbd := bits_pos d).
  assert (Hs' : 2 * bits d + 767 <= s).
  { unfold mpfr_prec, extend_by_digits in Hs. lia. }
  assert (Hs0 : 0 <= s) by lia.
  destruct (Z.leb_spec 0 s); [|lia].
  specialize (Hm Hs0).
  assert (H2s : 0 < 2 ^ s) by (apply Z.pow_pos_nonneg; lia).
  assert (H10 : 0 < 10 ^ p) by (apply Z.pow_pos_nonneg; lia).
  (* d < 2^(bits d), so 10^p * d < 2^s *)
  assert (Hdlt : d < 2 ^ bits d) by (pose proof (bits_spec d ltac:(lia)); lia).
  assert (Hbig : 10 ^ p * d < 2 ^ s).
  { assert (2 ^ (bits d + 767) * 2 ^ bits d <= 2 ^ s).
    { rewrite <- Z.pow_add_r by lia. apply Z.pow_le_mono_r; lia. }
    assert (0 < 2 ^ bits d) by (apply Z.pow_pos_nonneg; lia).
    nia. }
  apply (transfer_Z _ (m * 10 ^ p) (2 ^ s) (n * 10 ^ p) d H2s Hd).
  - apply rhe_nd_err. exact H2s.
  - replace (m * 10 ^ p * d - n * 10 ^ p * 2 ^ s) with (10 ^ p * (m * d - n * 2 ^ s)) by ring.
    rewrite Z.abs_mul, (Z.abs_eq (10 ^ p)) by lia. nia.
Qed.

Lemma rhe_nd_opp_abs n d : 0 < d -> Z.abs (rhe_nd (- n) d * d - (- n)) = Z.abs (rhe_nd (-n) d * d + n).
Proof. intros; f_equal; ring. Qed.

Lemma bits_opp n : bits (- n) = bits n.
Proof.
  unfold bits. rewrite Z.abs_opp. destruct (Z.eqb_spec n 0), (Z.eqb_spec (-n) 0); try lia.
Qed.

(* negative quantities: the model rounds the magnitude and negates the mantissa; the final
   decimal rounding is applied to the negated value *)
Lemma print_half_ulp_neg n d p :
  n < 0 -> 0 < d -> 0 <= p -> 10 ^ p <= 2 ^ (bits d + 767) ->
  2 * Z.abs (print_scaled n d p * d - n * 10 ^ p) <= d.
Proof.
  intros Hn Hd Hp Hsmall. unfold print_scaled, rn_bits.
  destruct (Z.eqb_spec n 0); [lia|]. destruct (Z.ltb_spec 0 n); [lia|].
  destruct (rn_bits_pos (- n) d (mpfr_prec n d)) as [m s] eqn:E.
  assert (Hn' : 0 < - n) by lia.
  destruct (rn_bits_pos_spec _ _ _ _ _ Hn' Hd E) as [Hs Hm].
  assert (Hbn := bits_pos n). assert (Hbd := bits_pos d).
  assert (Hs' : 2 * bits d + 767 <= s).
  { unfold mpfr_prec, extend_by_digits in Hs. rewrite bits_opp in Hs. lia. }
  assert (Hs0 : 0 <= s) by lia.
  destruct (Z.leb_spec 0 s); [|lia].
  specialize (Hm Hs0).
  assert (H2s : 0 < 2 ^ s) by (apply Z.pow_pos_nonneg; lia).
  assert (H10 : 0 < 10 ^ p) by (apply Z.pow_pos_nonneg; lia).
  assert (Hdlt : d < 2 ^ bits d) by (pose proof (bits_spec d ltac:(lia)); lia).
  assert (Hbig : 10 ^ p * d < 2 ^ s).
  { assert (2 ^ (bits d + 767) * 2 ^ bits d <= 2 ^ s).
    { rewrite <- Z.pow_add_r by lia. apply Z.pow_le_mono_r; lia. }
    assert (0 < 2 ^ bits d) by (apply Z.pow_pos_nonneg; lia).
    nia. }
  apply (transfer_Z _ (- m * 10 ^ p) (2 ^ s) (n * 10 ^ p) d H2s Hd).
  - apply rhe_nd_err. exact H2s.
  - replace (- m * 10 ^ p * d - n * 10 ^ p * 2 ^ s) with (- (10 ^ p * (m * d - - n * 2 ^ s))) by ring.
    rewrite Z.abs_opp, Z.abs_mul, (Z.abs_eq (10 ^ p)) by lia. nia.
Qed.

Lemma print_scaled_zero d p : print_scaled 0 d p = 0.
Proof. unfold print_scaled, rn_bits. cbn. unfold rhe_nd. cbn. reflexivity. Qed.

Theorem print_half_ulp n d p :
  0 < d -> 0 <= p -> 10 ^ p <= 2 ^ (bits d + 767) ->
  2 * Z.abs (print_scaled n d p * d - n * 10 ^ p) <= d.
Proof.
  intros Hd Hp Hs. destruct (Z.lt_trichotomy n 0) as [H|[H|H]].
  - apply print_half_ulp_neg; assumption.
  - subst. rewrite print_scaled_zero. cbn. lia.
  - apply print_half_ulp_pos; assumption.
Qed.

(* every display precision up to 230 satisfies the size hypothesis, whatever the denominator *)
Lemma pow10_230_small : 10 ^ 230 <= 2 ^ 768.
Proof. vm_compute. discriminate. Qed.

Corollary print_half_ulp_230 n d p :
  0 < d -> 0 <= p <= 230 ->
  2 * Z.abs (print_scaled n d p * d - n * 10 ^ p) <= d.
Proof.
  intros Hd Hp. apply print_half_ulp; [assumption | lia |].
  assert (10 ^ p <= 10 ^ 230) by (apply Z.pow_le_mono_r; lia).
  assert (2 ^ 768 <= 2 ^ (bits d + 767)) by (apply Z.pow_le_mono_r; pose proof (bits_pos d); lia).
  pose proof pow10_230_small. lia.
Qed.

(* never a truncation: strictly above a half unit the magnitude is rounded away from zero *)
Corollary print_not_truncation n d p :
  0 < d -> 0 <= p <= 230 -> 0 <= n ->
  2 * ((n * 10 ^ p) mod d) > d -> print_scaled n d p = (n * 10 ^ p) / d + 1.
Proof.
  intros Hd Hp Hn Hr. pose proof (print_half_ulp_230 n d p Hd Hp) as H.
  pose proof (Z.div_mod (n * 10 ^ p) d ltac:(lia)) as Hdm.
  pose proof (Z.mod_pos_bound (n * 10 ^ p) d Hd) as Hb.
  set (X := n * 10 ^ p) in *. set (q := X / d) in *. set (r := X mod d) in *.
  nia.
Qed.

(* in_place_roundto: exact round-half-even on the rational itself *)
Theorem roundto_half_even n d places :
  0 < d -> 2 * Z.abs (roundto_scaled n d places * d - n * 10 ^ places) <= d.
Proof. intros Hd. unfold roundto_scaled. apply rhe_nd_err. exact Hd. Qed.
