(* Proofs about Model/PeriodCalendar.v (property C13): the day-number / (y, m, d) conversions are
   mutually inverse, months are contiguous, month arithmetic is strictly increasing. *)
From LedgerV Require Import Base.Prelude Model.PeriodCalendar.
Local Open Scope Z_scope.

Ltac zdm := Z.div_mod_to_equations; lia.

Lemma dfc_closed y m d :
  days_from_civil y m d =
  let y' := if m <=? 2 then y - 1 else y in
  365 * y' + y' / 4 - y' / 100 + y' / 400 + doy_of m d - 719468.
Proof.
  unfold days_from_civil, doe_of. cbv zeta.
  set (y' := if m <=? 2 then y - 1 else y). clearbody y'. zdm.
Qed.

Lemma dfc_day y m d : days_from_civil y m d = days_from_civil y m 1 + (d - 1).
Proof. rewrite !dfc_closed. cbv zeta. unfold doy_of. lia. Qed.

Lemma is_leap_spec y :
  is_leap y = true <-> (y mod 4 = 0 /\ (y mod 100 <> 0 \/ y mod 400 = 0)).
Proof.
  unfold is_leap.
  destruct (Z.eqb_spec (y mod 4) 0), (Z.eqb_spec (y mod 100) 0), (Z.eqb_spec (y mod 400) 0);
    cbn; intuition (try discriminate; try lia).
Qed.

Lemma leap_step y :
  (y / 4 - (y - 1) / 4) - (y / 100 - (y - 1) / 100) + (y / 400 - (y - 1) / 400)
  = if is_leap y then 1 else 0.
Proof.
  unfold is_leap.
  destruct (Z.eqb_spec (y mod 4) 0), (Z.eqb_spec (y mod 100) 0), (Z.eqb_spec (y mod 400) 0);
    cbn [andb orb negb]; zdm.
Qed.

Lemma month_length_bounds k : 28 <= month_length k <= 31.
Proof.
  unfold month_length, days_in_month.
  destruct (_ =? 2); [destruct (is_leap _); lia|].
  destruct (_ || _); lia.
Qed.

Lemma days_in_month_bounds y m : 28 <= days_in_month y m <= 31.
Proof.
  unfold days_in_month.
  destruct (_ =? 2); [destruct (is_leap _); lia|].
  destruct (_ || _); lia.
Qed.

Ltac dbool := repeat match goal with
  | |- context [?a <=? ?b] => destruct (Z.leb_spec a b)
  | |- context [?a <? ?b] => destruct (Z.ltb_spec a b)
  | |- context [?a =? ?b] => destruct (Z.eqb_spec a b)
  end.

(* evaluate the comparisons between closed numerals *)
Ltac cbool := repeat match goal with
  | |- context [?a <=? ?b] => let v := eval vm_compute in (a <=? b) in change (a <=? b) with v
  | |- context [?a <? ?b] => let v := eval vm_compute in (a <? b) in change (a <? b) with v
  | |- context [?a =? ?b] => let v := eval vm_compute in (a =? b) in change (a =? b) with v
  end.

(* the first of a month follows the last day of the month before *)
Lemma dfc_next_month y m :
  1 <= m <= 11 -> days_from_civil y (m + 1) 1 = days_from_civil y m 1 + days_in_month y m.
Proof.
  intros Hm. rewrite !dfc_closed. cbv zeta. unfold doy_of, days_in_month.
  pose proof (leap_step y) as Hl.
  assert (Hc : m = 1 \/ m = 2 \/ m = 3 \/ m = 4 \/ m = 5 \/ m = 6 \/ m = 7 \/ m = 8 \/ m = 9 \/
               m = 10 \/ m = 11) by lia.
  destruct Hc as [E|[E|[E|[E|[E|[E|[E|[E|[E|[E|E]]]]]]]]]]; subst m;
    cbool; cbv iota; cbn [orb]; cbv iota; try destruct (is_leap y); zdm.
Qed.

Lemma dfc_next_year y :
  days_from_civil (y + 1) 1 1 = days_from_civil y 12 1 + days_in_month y 12.
Proof.
  rewrite !dfc_closed. cbv zeta. unfold doy_of, days_in_month.
  cbool; cbv iota; cbn [orb]; cbv iota; zdm.
Qed.

Lemma month_start_succ k : month_start (k + 1) = month_start k + month_length k.
Proof.
  unfold month_start, month_length.
  pose proof (Z.div_mod k 12 ltac:(lia)) as Hk.
  pose proof (Z.mod_pos_bound k 12 ltac:(lia)) as Hr.
  set (y := k / 12) in *. set (r := k mod 12) in *. clearbody y r.
  destruct (Z.eq_dec r 11) as [E|E].
  - assert ((k + 1) / 12 = y + 1) as -> by (symmetry; apply (Z.div_unique (k + 1) 12 (y + 1) 0); lia).
    assert ((k + 1) mod 12 = 0) as -> by (symmetry; apply (Z.mod_unique (k + 1) 12 (y + 1) 0); lia).
    subst r. apply dfc_next_year.
  - assert ((k + 1) / 12 = y) as -> by (symmetry; apply (Z.div_unique (k + 1) 12 y (r + 1)); lia).
    assert ((k + 1) mod 12 = r + 1) as -> by (symmetry; apply (Z.mod_unique (k + 1) 12 y (r + 1)); lia).
    apply dfc_next_month. lia.
Qed.

Lemma month_start_add k n : 0 <= n -> month_start k + 28 * n <= month_start (k + n).
Proof.
  intros Hn. pattern n. apply natlike_ind; [| |exact Hn].
  - replace (k + 0) with k by lia. lia.
  - intros x Hx IH. replace (k + Z.succ x) with ((k + x) + 1) by lia.
    rewrite month_start_succ. pose proof (month_length_bounds (k + x)). lia.
Qed.

Lemma month_start_mono k1 k2 : k1 < k2 -> month_start k1 < month_start k2.
Proof.
  intros H. pose proof (month_start_add k1 (k2 - k1) ltac:(lia)) as Ha.
  replace (k1 + (k2 - k1)) with k2 in Ha by lia. lia.
Qed.

Lemma month_start_mono_le k1 k2 : k1 <= k2 -> month_start k1 <= month_start k2.
Proof.
  intros H. destruct (Z.eq_dec k1 k2) as [->|]; [lia|].
  pose proof (month_start_mono k1 k2 ltac:(lia)). lia.
Qed.

Definition valid_ymd (y m d : Z) : Prop := 1 <= m <= 12 /\ 1 <= d <= days_in_month y m.

Lemma month_index_div y m : 1 <= m <= 12 -> month_index y m / 12 = y /\ month_index y m mod 12 + 1 = m.
Proof.
  intros Hm. unfold month_index. split.
  - symmetry. apply (Z.div_unique _ 12 y (m - 1)); lia.
  - assert ((12 * y + (m - 1)) mod 12 = m - 1); [|lia].
    symmetry. apply (Z.mod_unique _ 12 y (m - 1)); lia.
Qed.

Lemma dfc_month_start y m d :
  1 <= m <= 12 -> days_from_civil y m d = month_start (month_index y m) + (d - 1).
Proof.
  intros Hm. unfold month_start. destruct (month_index_div y m Hm) as [-> ->]. apply dfc_day.
Qed.

Lemma month_length_index y m : 1 <= m <= 12 -> month_length (month_index y m) = days_in_month y m.
Proof. intros Hm. unfold month_length. destruct (month_index_div y m Hm) as [-> ->]. reflexivity. Qed.

(* days_from_civil is strictly increasing in (year, month) on valid dates *)
Lemma dfc_lex_lt y1 m1 d1 y2 m2 d2 :
  valid_ymd y1 m1 d1 -> valid_ymd y2 m2 d2 ->
  month_index y1 m1 < month_index y2 m2 ->
  days_from_civil y1 m1 d1 < days_from_civil y2 m2 d2.
Proof.
  intros [Hm1 Hd1] [Hm2 Hd2] Hlt.
  rewrite (dfc_month_start y1 m1 d1 Hm1), (dfc_month_start y2 m2 d2 Hm2).
  pose proof (month_start_succ (month_index y1 m1)) as Hs.
  rewrite (month_length_index y1 m1 Hm1) in Hs.
  pose proof (month_start_mono_le (month_index y1 m1 + 1) (month_index y2 m2) ltac:(lia)).
  lia.
Qed.

Lemma dfc_inj y1 m1 d1 y2 m2 d2 :
  valid_ymd y1 m1 d1 -> valid_ymd y2 m2 d2 ->
  days_from_civil y1 m1 d1 = days_from_civil y2 m2 d2 -> y1 = y2 /\ m1 = m2 /\ d1 = d2.
Proof.
  intros V1 V2 He.
  destruct (Z.lt_trichotomy (month_index y1 m1) (month_index y2 m2)) as [Hlt|[Heq|Hgt]].
  - pose proof (dfc_lex_lt _ _ _ _ _ _ V1 V2 Hlt). lia.
  - destruct V1 as [Hm1 Hd1], V2 as [Hm2 Hd2].
    assert (y1 = y2 /\ m1 = m2) as [-> ->] by (unfold month_index in Heq; lia).
    rewrite (dfc_day y2 m2 d1), (dfc_day y2 m2 d2) in He. repeat split; lia.
  - pose proof (dfc_lex_lt _ _ _ _ _ _ V2 V1 Hgt). lia.
Qed.

(* ---- civil_from_days inverts days_from_civil: one 400-year era swept by computation ---- *)

Definition doe_ok (doe : Z) : bool :=
  let '(yoe, m, d) := civil_doe doe in
  (0 <=? yoe) && (yoe <? 400) && (1 <=? m) && (m <=? 12) && (1 <=? d) &&
  (d <=? days_in_month (yoe + (if m <=? 2 then 1 else 0)) m) && (doe_of yoe m d =? doe).

Fixpoint sweep (n : nat) (z : Z) (f : Z -> bool) {struct n} : bool :=
  match n with O => true | S k => f z && sweep k (z + 1) f end.

Lemma sweep_spec n : forall z f, sweep n z f = true -> forall x, z <= x < z + Z.of_nat n -> f x = true.
Proof.
  induction n as [|n IH]; intros z f H x Hx.
  - cbn in Hx. lia.
  - cbn [sweep] in H. apply andb_true_iff in H as [H1 H2].
    destruct (Z.eq_dec x z) as [->|Hne]; [exact H1|].
    apply (IH (z + 1) f H2). lia.
Qed.

(* the month and day from the day of a March-based year: 366 cases, computed *)
Definition month_day (doy : Z) : Z * Z :=
  let mp := (5 * doy + 2) / 153 in
  (if mp <? 10 then mp + 3 else mp - 9, doy - (153 * mp + 2) / 5 + 1).

Definition doy_ok (doy : Z) : bool :=
  let '(m, d) := month_day doy in
  (1 <=? m) && (m <=? 12) && (1 <=? d) && (doy_of m d =? doy) &&
  (d <=? (if m =? 2 then (if doy =? 365 then 29 else 28)
          else if (m =? 4) || (m =? 6) || (m =? 9) || (m =? 11) then 30 else 31)).

Lemma doy_sweep : sweep 366 0 doy_ok = true.
Proof. vm_compute. reflexivity. Qed.

Lemma doy_ok_all doy : 0 <= doy <= 365 -> doy_ok doy = true.
Proof. intros H. apply (sweep_spec _ _ _ doy_sweep). cbn. lia. Qed.

(* the year of the era and the day of the year: algebra *)
Lemma year_of_era doe :
  0 <= doe < 146097 ->
  let c := Z.min (doe / 36524) 3 in
  let docent := doe - c * 36524 in
  let q := docent / 1461 in
  let doq := docent - q * 1461 in
  let yq := Z.min (doq / 365) 3 in
  let doy := doq - yq * 365 in
  let yoe := 100 * c + 4 * q + yq in
  0 <= yoe < 400 /\ 0 <= doy <= 365 /\ doe = yoe * 365 + yoe / 4 - yoe / 100 + doy /\
  (doy = 365 -> is_leap (yoe + 1) = true).
Proof.
  intros H. cbv zeta.
  set (c := Z.min (doe / 36524) 3).
  assert (Hc : 0 <= c <= 3 /\ c * 36524 <= doe /\ (c < 3 -> doe < (c + 1) * 36524)) by (subst c; zdm).
  set (docent := doe - c * 36524).
  assert (Hdc : 0 <= docent /\ (c < 3 -> docent < 36524) /\ docent <= 36524) by (subst docent; lia).
  set (q := docent / 1461).
  assert (Hq : 0 <= q <= 24 /\ q * 1461 <= docent < (q + 1) * 1461) by (subst q; zdm).
  set (doq := docent - q * 1461).
  assert (Hdq : 0 <= doq < 1461 /\ (q = 24 -> c < 3 -> doq < 1460)) by (subst doq; lia).
  set (yq := Z.min (doq / 365) 3).
  assert (Hy : 0 <= yq <= 3 /\ yq * 365 <= doq /\ (yq < 3 -> doq < (yq + 1) * 365)) by (subst yq; zdm).
  set (doy := doq - yq * 365).
  set (yoe := 100 * c + 4 * q + yq).
  assert (H4 : yoe / 4 = 25 * c + q) by (subst yoe; zdm).
  assert (H100 : yoe / 100 = c) by (subst yoe; zdm).
  split; [subst yoe; lia|]. split; [subst doy; lia|]. split; [rewrite H4, H100; subst yoe doy doq docent; lia|].
  intros Hd. assert (yq = 3 /\ doq = 1460) as [Hy3 Hd3] by (subst doy; lia).
  apply is_leap_spec. subst yoe. rewrite Hy3.
  assert (Hq24 : q = 24 -> c = 3) by lia.
  split; [zdm|].
  destruct (Z.eq_dec q 24) as [E|E].
  - right. rewrite E, (Hq24 E). reflexivity.
  - left. zdm.
Qed.

Lemma doe_ok_all doe : 0 <= doe < 146097 -> doe_ok doe = true.
Proof.
  intros H. pose proof (year_of_era doe H) as Y. cbv zeta in Y.
  unfold doe_ok, civil_doe. cbv zeta.
  set (yoe := 100 * Z.min (doe / 36524) 3 + 4 * ((doe - Z.min (doe / 36524) 3 * 36524) / 1461) +
              Z.min ((doe - Z.min (doe / 36524) 3 * 36524 - (doe - Z.min (doe / 36524) 3 * 36524) / 1461 * 1461) / 365) 3) in *.
  set (doy := doe - Z.min (doe / 36524) 3 * 36524 - (doe - Z.min (doe / 36524) 3 * 36524) / 1461 * 1461 -
              Z.min ((doe - Z.min (doe / 36524) 3 * 36524 - (doe - Z.min (doe / 36524) 3 * 36524) / 1461 * 1461) / 365) 3 * 365) in *.
  destruct Y as (Hy & Hd & He & Hl).
  pose proof (doy_ok_all doy Hd) as Hok. unfold doy_ok, month_day in Hok.
  set (m := if (5 * doy + 2) / 153 <? 10 then (5 * doy + 2) / 153 + 3 else (5 * doy + 2) / 153 - 9) in *.
  set (d := doy - (153 * ((5 * doy + 2) / 153) + 2) / 5 + 1) in *.
  repeat (apply andb_true_iff in Hok as [Hok ?]).
  repeat match goal with H : (_ <=? _) = true |- _ => apply Z.leb_le in H
                    | H : (_ =? _) = true |- _ => apply Z.eqb_eq in H end.
  assert (Hdim : d <= days_in_month (yoe + (if m <=? 2 then 1 else 0)) m).
  { unfold days_in_month. destruct (Z.eqb_spec m 2) as [E|E]; [|assumption].
    rewrite E. cbn [Z.leb Z.compare Pos.compare Pos.compare_cont].
    destruct (Z.eqb_spec doy 365) as [E2|E2]; [rewrite (Hl E2); assumption|].
    destruct (is_leap (yoe + 1)); lia. }
  repeat (apply andb_true_iff; split); try (apply Z.leb_le; lia); try (apply Z.ltb_lt; lia).
  apply Z.eqb_eq. unfold doe_of. lia.
Qed.

Lemma is_leap_era y e : is_leap (y + e * 400) = is_leap y.
Proof.
  unfold is_leap.
  assert ((y + e * 400) mod 4 = y mod 4) as -> by zdm.
  assert ((y + e * 400) mod 100 = y mod 100) as -> by zdm.
  assert ((y + e * 400) mod 400 = y mod 400) as -> by zdm.
  reflexivity.
Qed.

Lemma days_in_month_era y e m : days_in_month (y + e * 400) m = days_in_month y m.
Proof. unfold days_in_month. rewrite is_leap_era. reflexivity. Qed.

Lemma civil_roundtrip z :
  let '(y, m, d) := civil_from_days z in
  valid_ymd y m d /\ days_from_civil y m d = z.
Proof.
  unfold civil_from_days.
  set (z' := z + 719468).
  pose proof (Z.div_mod z' 146097 ltac:(lia)) as Hdm.
  pose proof (Z.mod_pos_bound z' 146097 ltac:(lia)) as Hr.
  set (era := z' / 146097) in *.
  assert (Hdoe : z' - era * 146097 = z' mod 146097) by lia.
  rewrite Hdoe. set (doe := z' mod 146097) in *.
  pose proof (doe_ok_all doe Hr) as Hok. unfold doe_ok in Hok.
  destruct (civil_doe doe) as [[yoe m] d].
  repeat (apply andb_true_iff in Hok as [Hok ?]).
  repeat match goal with H : (_ <=? _) = true |- _ => apply Z.leb_le in H
                    | H : (_ <? _) = true |- _ => apply Z.ltb_lt in H
                    | H : (_ =? _) = true |- _ => apply Z.eqb_eq in H end.
  split.
  - split; [lia|]. split; [lia|].
    destruct (Z.leb_spec m 2).
    + replace (yoe + era * 400 + 1) with ((yoe + 1) + era * 400) by lia.
      rewrite days_in_month_era. assumption.
    + rewrite days_in_month_era. replace (yoe + 0) with yoe in * by lia. assumption.
  - unfold days_from_civil.
    assert (Hy : (if m <=? 2 then (if m <=? 2 then yoe + era * 400 + 1 else yoe + era * 400) - 1
                  else (if m <=? 2 then yoe + era * 400 + 1 else yoe + era * 400)) = yoe + era * 400).
    { destruct (m <=? 2); lia. }
    rewrite Hy.
    assert (Hq : (yoe + era * 400) / 400 = era).
    { symmetry. apply (Z.div_unique _ 400 era yoe); lia. }
    rewrite Hq. replace (yoe + era * 400 - era * 400) with yoe by lia.
    subst z'. lia.
Qed.

Lemma cfd_valid z y m d : civil_from_days z = (y, m, d) -> valid_ymd y m d /\ days_from_civil y m d = z.
Proof. intros H. pose proof (civil_roundtrip z) as R. rewrite H in R. exact R. Qed.

Lemma cfd_dfc y m d : valid_ymd y m d -> civil_from_days (days_from_civil y m d) = (y, m, d).
Proof.
  intros V. destruct (civil_from_days (days_from_civil y m d)) as [[y2 m2] d2] eqn:E.
  apply cfd_valid in E as [V2 E2].
  destruct (dfc_inj _ _ _ _ _ _ V2 V E2) as (-> & -> & ->). reflexivity.
Qed.

(* ---- month arithmetic --------------------------------------------------------------------- *)

Lemma add_months_increasing z n : 1 <= n -> z < add_months z n.
Proof.
  intros Hn. unfold add_months.
  destruct (civil_from_days z) as [[y m] d] eqn:E.
  apply cfd_valid in E as [[Hm Hd] Hz].
  set (k := month_index y m + n).
  pose proof (Z.mod_pos_bound k 12 ltac:(lia)) as Hr.
  pose proof (days_in_month_bounds (k / 12) (k mod 12 + 1)) as Hb.
  set (d2 := if d =? days_in_month y m then days_in_month (k / 12) (k mod 12 + 1)
             else if days_in_month (k / 12) (k mod 12 + 1) <? d then days_in_month (k / 12) (k mod 12 + 1) else d).
  assert (Hd2 : 1 <= d2 <= days_in_month (k / 12) (k mod 12 + 1)).
  { subst d2. destruct (Z.eqb_spec d (days_in_month y m)); [lia|].
    destruct (Z.ltb_spec (days_in_month (k / 12) (k mod 12 + 1)) d); lia. }
  rewrite <- Hz at 1. apply dfc_lex_lt.
  - split; assumption.
  - split; [lia|exact Hd2].
  - assert (month_index (k / 12) (k mod 12 + 1) = k); [|lia].
    unfold month_index. pose proof (Z.div_mod k 12 ltac:(lia)). lia.
Qed.

Lemma cfd_month_start k : civil_from_days (month_start k) = (k / 12, k mod 12 + 1, 1).
Proof.
  unfold month_start. apply cfd_dfc.
  pose proof (Z.mod_pos_bound k 12 ltac:(lia)).
  pose proof (days_in_month_bounds (k / 12) (k mod 12 + 1)).
  split; lia.
Qed.

Lemma month_index_of_div k : month_index (k / 12) (k mod 12 + 1) = k.
Proof. unfold month_index. pose proof (Z.div_mod k 12 ltac:(lia)). lia. Qed.

(* adding months to the first of a month gives the first of the target month *)
Lemma add_months_month_start k n : add_months (month_start k) n = month_start (k + n).
Proof.
  unfold add_months. rewrite cfd_month_start, month_index_of_div.
  pose proof (days_in_month_bounds (k / 12) (k mod 12 + 1)).
  pose proof (days_in_month_bounds ((k + n) / 12) ((k + n) mod 12 + 1)).
  destruct (Z.eqb_spec 1 (days_in_month (k / 12) (k mod 12 + 1))); [lia|].
  destruct (Z.ltb_spec (days_in_month ((k + n) / 12) ((k + n) mod 12 + 1)) 1); [lia|].
  reflexivity.
Qed.

(* ---- find_nearest ---------------------------------------------------------------------------- *)

Lemma month_floor_spec z :
  exists k, month_floor z = month_start k /\ month_start k <= z < month_start (k + 1).
Proof.
  unfold month_floor. destruct (civil_from_days z) as [[y m] d] eqn:E.
  apply cfd_valid in E as [[Hm Hd] Hz].
  exists (month_index y m).
  rewrite (dfc_month_start y m 1 Hm).
  rewrite (dfc_month_start y m d Hm) in Hz.
  rewrite month_start_succ, (month_length_index y m Hm). lia.
Qed.

Lemma quarter_floor_spec z :
  exists k, quarter_floor z = month_start k /\ k mod 3 = 0 /\ month_start k <= z < month_start (k + 3).
Proof.
  unfold quarter_floor. destruct (civil_from_days z) as [[y m] d] eqn:E.
  apply cfd_valid in E as [[Hm Hd] Hz].
  set (qm := (m - 1) / 3 * 3 + 1).
  assert (Hqm : 1 <= qm <= 12 /\ qm <= m < qm + 3 /\ (qm - 1) mod 3 = 0) by (subst qm; zdm).
  exists (month_index y qm).
  rewrite (dfc_month_start y qm 1) by lia.
  rewrite (dfc_month_start y m d Hm) in Hz.
  split; [lia|]. split; [unfold month_index; zdm|].
  pose proof (month_start_mono_le (month_index y qm) (month_index y m) ltac:(unfold month_index; lia)).
  pose proof (month_start_mono_le (month_index y m + 1) (month_index y qm + 3) ltac:(unfold month_index; lia)).
  pose proof (month_start_succ (month_index y m)) as Hs.
  rewrite (month_length_index y m Hm) in Hs. lia.
Qed.

Lemma year_floor_spec z :
  exists k, year_floor z = month_start k /\ k mod 12 = 0 /\ month_start k <= z < month_start (k + 12).
Proof.
  unfold year_floor. destruct (civil_from_days z) as [[y m] d] eqn:E.
  apply cfd_valid in E as [[Hm Hd] Hz].
  exists (month_index y 1).
  rewrite (dfc_month_start y 1 1) by lia.
  rewrite (dfc_month_start y m d Hm) in Hz.
  split; [lia|]. split; [unfold month_index; zdm|].
  pose proof (month_start_mono_le (month_index y 1) (month_index y m) ltac:(unfold month_index; lia)).
  pose proof (month_start_mono_le (month_index y m + 1) (month_index y 1 + 12) ltac:(unfold month_index; lia)).
  pose proof (month_start_succ (month_index y m)) as Hs.
  rewrite (month_length_index y m Hm) in Hs. lia.
Qed.

Lemma week_floor_spec sow z :
  0 <= sow < 7 -> weekday (week_floor sow z) = sow /\ week_floor sow z <= z < week_floor sow z + 7.
Proof. intros H. unfold week_floor, weekday. zdm. Qed.

Lemma weekday_add7 z n : weekday (z + 7 * n) = weekday z.
Proof. unfold weekday. zdm. Qed.

