(* Lemmas about Model/Dates.v. *)
From LedgerV Require Import Base.Prelude Base.Calendar Gen.DateFormats Model.Dates Proofs.CalendarProofs.
Local Open Scope Z_scope.

(* ------------------------------------------------------------------ the reader list *)
Definition R_md := mk_reader [37; 109; 47; 37; 100].
Definition R_ymd := mk_reader [37; 89; 47; 37; 109; 47; 37; 100].
Definition R_ym := mk_reader [37; 89; 47; 37; 109].
Definition R_y2md := mk_reader [37; 121; 47; 37; 109; 47; 37; 100].
Definition R_dash := mk_reader [37; 89; 45; 37; 109; 45; 37; 100].

(* fails to compile when times_initialize's list changes: every theorem about the default
   readers is then re-examined *)
Lemma default_readers_eq : default_readers = [R_md; R_ymd; R_ym; R_y2md; R_dash].
Proof. reflexivity. Qed.

Lemma source_switches :
  src_convert_separators_default = true /\ src_input_format_pushes_front = true /\
  src_input_format_disables_conversion = true /\ src_sep_from = (45, 46) /\ src_sep_to = 47 /\
  src_max_date_len = 127 /\ src_written_date_format = [37; 89; 47; 37; 109; 47; 37; 100] /\
  src_format_cache_exact_match = true /\
  src_year_directive_unconditional = true /\ src_year_directive_month = 12 /\ src_year_directive_day = 31 /\
  src_file_end_unwinds_own_stack = true /\
  src_tm_year_base = 1900 /\ src_tm_mday_preset = 1 /\ src_compare_skip_byte = 48.
Proof. repeat split. Qed.

Definition I_md := [IDir 109; ILit 47; IDir 100].
Definition I_ymd := [IDir 89; ILit 47; IDir 109; ILit 47; IDir 100].
Definition I_ym := [IDir 89; ILit 47; IDir 109].
Definition I_y2md := [IDir 121; ILit 47; IDir 109; ILit 47; IDir 100].
Definition I_dash := [IDir 89; ILit 45; IDir 109; ILit 45; IDir 100].

Lemma items_eq : r_items R_md = I_md /\ r_items R_ymd = I_ymd /\ r_items R_ym = I_ym /\
  r_items R_y2md = I_y2md /\ r_items R_dash = I_dash.
Proof. repeat split. Qed.

Lemma has_year_eq : has_year (r_raw R_md) = false /\ has_year (r_raw R_ymd) = true /\
  has_year (r_raw R_ym) = true /\ has_year (r_raw R_y2md) = true /\ has_year (r_raw R_dash) = true.
Proof. repeat split. Qed.

(* ------------------------------------------------------------------ digits *)
Lemma digit_range v : 48 <= digit v <= 57.
Proof. unfold digit. pose proof (Z.mod_pos_bound v 10 ltac:(lia)). lia. Qed.

Lemma is_digit_digit v : is_digit (digit v) = true.
Proof. unfold is_digit. pose proof (digit_range v). apply andb_true_iff. rewrite !Z.leb_le. lia. Qed.

Lemma is_digit_iff c : is_digit c = true <-> 48 <= c <= 57.
Proof. unfold is_digit. rewrite andb_true_iff, !Z.leb_le. tauto. Qed.

Lemma is_space_iff c : is_space c = true <-> c = 32 \/ 9 <= c <= 13.
Proof. unfold is_space. rewrite orb_true_iff, andb_true_iff, Z.eqb_eq, !Z.leb_le. tauto. Qed.

Lemma digit_not_space c : is_digit c = true -> is_space c = false.
Proof.
  intros H. apply is_digit_iff in H. destruct (is_space c) eqn:E; [|reflexivity].
  apply is_space_iff in E. lia.
Qed.

Lemma space_not_digit c : is_space c = true -> is_digit c = false.
Proof.
  intros H. destruct (is_digit c) eqn:E; [|reflexivity].
  apply digit_not_space in E. congruence.
Qed.

(* the spelled form of a month or day: two digits, or one digit when the leading zero is dropped *)
Definition field (z : bool) (v : Z) : str := if z || (10 <=? v) then digits2 v else [48 + v].

Definition spell_ymd (y m d : Z) (zm zd : bool) (s1 s2 : Z) : str :=
  digits4 y ++ [s1] ++ field zm m ++ [s2] ++ field zd d.

Definition is_sep (c : Z) : Prop := c = 47 \/ c = 45 \/ c = 46.

(* ------------------------------------------------------------------ get_number on formatted fields *)
Lemma skip_ws_nonspace c s : is_space c = false -> skip_ws (c :: s) = c :: s.
Proof. intros H. cbn. rewrite H. reflexivity. Qed.

Definition stops (r : str) : Prop := match r with [] => True | c :: _ => is_digit c = false end.

Lemma gn_loop_stops n to val r : stops r -> gn_loop n to val r = (val, r).
Proof.
  destruct n; [reflexivity|]. destruct r as [|c r]; [reflexivity|]. cbn. intros ->.
  rewrite andb_false_r. reflexivity.
Qed.

Lemma get_number_digits2 from to v r :
  0 <= v <= 99 -> from <= v <= to ->
  get_number from to 2 (digits2 v ++ r) = Some (v, r).
Proof.
  intros Hv Hr. unfold get_number, digits2. cbn [app].
  rewrite skip_ws_nonspace by (apply digit_not_space, is_digit_digit).
  rewrite is_digit_digit. cbn [Nat.pred gn_loop].
  assert (E1 : digit (v / 10) - 48 = v / 10).
  { unfold digit. rewrite Z.mod_small by (Z.div_mod_to_equations; lia). ring. }
  rewrite E1, is_digit_digit.
  assert (E2 : (v / 10 * 10 <=? to) = true) by (apply Z.leb_le; Z.div_mod_to_equations; lia).
  rewrite E2. cbn [andb].
  assert (E3 : v / 10 * 10 + (digit v - 48) = v) by (unfold digit; Z.div_mod_to_equations; lia).
  rewrite E3.
  assert (E4 : (from <=? v) && (v <=? to) = true) by (apply andb_true_iff; rewrite !Z.leb_le; lia).
  rewrite E4. reflexivity.
Qed.

Lemma get_number_one_digit from to v r :
  1 <= v <= 9 -> from <= v <= to -> stops r ->
  get_number from to 2 ((48 + v) :: r) = Some (v, r).
Proof.
  intros Hv Hr Hs. unfold get_number.
  assert (D : is_digit (48 + v) = true) by (apply is_digit_iff; lia).
  rewrite skip_ws_nonspace by (apply digit_not_space, D). rewrite D.
  cbn [Nat.pred]. rewrite gn_loop_stops by exact Hs.
  replace (48 + v - 48) with v by ring.
  assert (E4 : (from <=? v) && (v <=? to) = true) by (apply andb_true_iff; rewrite !Z.leb_le; lia).
  rewrite E4. reflexivity.
Qed.

Lemma get_number_field from to z v r :
  1 <= v <= 99 -> from <= v <= to -> stops r ->
  get_number from to 2 (field z v ++ r) = Some (v, r).
Proof.
  intros Hv Hr Hs. unfold field. destruct (z || (10 <=? v)) eqn:E.
  - apply get_number_digits2; lia.
  - apply orb_false_iff in E as [_ E]. apply Z.leb_gt in E. cbn [app].
    apply get_number_one_digit; [lia | lia | exact Hs].
Qed.

Lemma get_number_digits4 v r :
  0 <= v <= 9999 -> get_number 0 9999 4 (digits4 v ++ r) = Some (v, r).
Proof.
  intros Hv. unfold get_number, digits4. cbn [app].
  rewrite skip_ws_nonspace by (apply digit_not_space, is_digit_digit).
  rewrite is_digit_digit. cbn [Nat.pred gn_loop].
  assert (E1 : digit (v / 1000) - 48 = v / 1000).
  { unfold digit. rewrite Z.mod_small by (Z.div_mod_to_equations; lia). ring. }
  rewrite E1, !is_digit_digit.
  assert (A1 : (v / 1000 * 10 <=? 9999) = true) by (apply Z.leb_le; Z.div_mod_to_equations; lia).
  rewrite A1. cbn [andb].
  assert (E2 : v / 1000 * 10 + (digit (v / 100) - 48) = v / 100) by (unfold digit; Z.div_mod_to_equations; lia).
  rewrite E2.
  assert (A2 : (v / 100 * 10 <=? 9999) = true) by (apply Z.leb_le; Z.div_mod_to_equations; lia).
  rewrite A2. cbn [andb].
  assert (E3 : v / 100 * 10 + (digit (v / 10) - 48) = v / 10) by (unfold digit; Z.div_mod_to_equations; lia).
  rewrite E3.
  assert (A3 : (v / 10 * 10 <=? 9999) = true) by (apply Z.leb_le; Z.div_mod_to_equations; lia).
  rewrite A3. cbn [andb].
  assert (E4 : v / 10 * 10 + (digit v - 48) = v) by (unfold digit; Z.div_mod_to_equations; lia).
  rewrite E4.
  assert (A4 : (0 <=? v) && (v <=? 9999) = true) by (apply andb_true_iff; rewrite !Z.leb_le; lia).
  rewrite A4. reflexivity.
Qed.

(* the month reader refuses the four digits of a year of boost's range: `%m/%d` does not
   capture YYYY/MM/DD *)
Lemma month_reader_refuses_year y r t :
  1400 <= y <= 9999 -> strptime I_md (digits4 y ++ r) t = PFail.
Proof.
  intros Hy. unfold I_md, digits4. cbn [app strptime Z.eqb Pos.eqb].
  unfold get_number.
  rewrite skip_ws_nonspace by (apply digit_not_space, is_digit_digit).
  rewrite is_digit_digit. cbn [Nat.pred gn_loop].
  assert (E1 : digit (y / 1000) - 48 = y / 1000).
  { unfold digit. rewrite Z.mod_small by (Z.div_mod_to_equations; lia). ring. }
  rewrite E1, is_digit_digit, andb_true_r.
  destruct (Z.leb_spec (y / 1000 * 10) 12) as [L|L].
  - (* 1xxx: the second digit is at least 4, the value exceeds 12 *)
    assert (E2 : y / 1000 * 10 + (digit (y / 100) - 48) = y / 100) by (unfold digit; Z.div_mod_to_equations; lia).
    rewrite E2.
    assert (F : (1 <=? y / 100) && (y / 100 <=? 12) = false).
    { apply andb_false_iff. right. apply Z.leb_gt. Z.div_mod_to_equations. lia. }
    rewrite F. reflexivity.
  - assert (F : (1 <=? y / 1000) && (y / 1000 <=? 12) = true).
    { apply andb_true_iff. rewrite !Z.leb_le. Z.div_mod_to_equations. lia. }
    rewrite F. unfold match_char.
    assert (N : (digit (y / 100) =? 47) = false) by (apply Z.eqb_neq; pose proof (digit_range (y / 100)); lia).
    rewrite N. reflexivity.
Qed.

(* ------------------------------------------------------------------ cmp_skip0 *)
Lemma cmp_same_prefix a p q : cmp_skip0 (a ++ p) (a ++ q) = cmp_skip0 p q.
Proof.
  induction a as [|c a IH]; [reflexivity|]. cbn [app cmp_skip0]; unfold src_compare_skip_byte.
  rewrite Z.eqb_refl. cbn [negb andb]. exact IH.
Qed.

Lemma cmp_refl p : cmp_skip0 p p = true.
Proof. rewrite <- (app_nil_r p). rewrite cmp_same_prefix. reflexivity. Qed.

Lemma cmp_nil_l q : cmp_skip0 [] q = true -> q = [].
Proof. destruct q; [reflexivity | discriminate]. Qed.

Lemma cmp_field z v p q :
  1 <= v <= 99 -> cmp_skip0 (digits2 v ++ p) (field z v ++ q) = cmp_skip0 p q.
Proof.
  intros Hv. unfold field. destruct (z || (10 <=? v)) eqn:E; [apply cmp_same_prefix|].
  apply orb_false_iff in E as [_ E]. apply Z.leb_gt in E.
  unfold digits2. cbn [app cmp_skip0]; unfold src_compare_skip_byte.
  assert (D0 : digit (v / 10) = 48) by (unfold digit; Z.div_mod_to_equations; lia).
  assert (D1 : digit v = 48 + v) by (unfold digit; Z.div_mod_to_equations; lia).
  rewrite D0, D1.
  assert (N : (48 =? 48 + v) = false) by (apply Z.eqb_neq; lia).
  rewrite N. cbn [negb andb Z.eqb Pos.eqb]. rewrite Z.eqb_refl. reflexivity.
Qed.

(* ------------------------------------------------------------------ separators *)
Lemma norm_sep_digit c : is_digit c = true -> norm_sep c = c.
Proof.
  intros H. apply is_digit_iff in H. unfold norm_sep. cbn [src_sep_from src_sep_to fst snd].
  destruct (Z.eqb_spec c 45); [lia|]. destruct (Z.eqb_spec c 46); [lia|]. reflexivity.
Qed.

Lemma norm_sep_sep c : is_sep c -> norm_sep c = 47.
Proof. intros [ -> | [ -> | -> ] ]; reflexivity. Qed.

Lemma map_norm_digits l : Forall (fun c => is_digit c = true) l -> map norm_sep l = l.
Proof.
  induction 1 as [|c l H _ IH]; [reflexivity|]. cbn. rewrite IH, norm_sep_digit by exact H. reflexivity.
Qed.

Lemma digits4_digits v : Forall (fun c => is_digit c = true) (digits4 v).
Proof. unfold digits4. repeat constructor; apply is_digit_digit. Qed.

Lemma digits2_digits v : Forall (fun c => is_digit c = true) (digits2 v).
Proof. unfold digits2. repeat constructor; apply is_digit_digit. Qed.

Lemma field_digits z v : 1 <= v <= 99 -> Forall (fun c => is_digit c = true) (field z v).
Proof.
  intros Hv. unfold field. destruct (z || (10 <=? v)) eqn:E; [apply digits2_digits|].
  apply orb_false_iff in E as [_ E]. apply Z.leb_gt in E.
  repeat constructor. apply is_digit_iff. lia.
Qed.

Lemma norm_spell y m d zm zd s1 s2 :
  1 <= m <= 99 -> 1 <= d <= 99 -> is_sep s1 -> is_sep s2 ->
  map norm_sep (spell_ymd y m d zm zd s1 s2) = spell_ymd y m d zm zd 47 47.
Proof.
  intros Hm Hd H1 H2. unfold spell_ymd. rewrite !map_app. cbn [map].
  rewrite (map_norm_digits _ (digits4_digits y)), (map_norm_digits _ (field_digits zm m Hm)),
    (map_norm_digits _ (field_digits zd d Hd)), (norm_sep_sep _ H1), (norm_sep_sep _ H2). reflexivity.
Qed.

Lemma field_length z v : (length (field z v) <= 2)%nat.
Proof. unfold field. destruct (z || (10 <=? v)); cbn; lia. Qed.

Lemma spell_length y m d zm zd s1 s2 : (length (spell_ymd y m d zm zd s1 s2) <= 10)%nat.
Proof.
  unfold spell_ymd. rewrite !app_length. cbn [length digits4].
  pose proof (field_length zm m). pose proof (field_length zd d). lia.
Qed.

(* ------------------------------------------------------------------ the date constructor *)
Lemma mk_date_ok y m d :
  valid_ymd y m d -> 1400 <= y <= 9999 -> mk_date y m d = DOk (boost_day_number y m d).
Proof.
  intros [Vm Vd] Hy. unfold mk_date, boost_min_year, boost_max_year.
  pose proof (days_in_month_range y m).
  destruct (Z.ltb_spec y 1400); [lia|]. destruct (Z.ltb_spec 9999 y); [lia|].
  destruct (Z.ltb_spec m 1); [lia|]. destruct (Z.ltb_spec 12 m); [lia|].
  destruct (Z.ltb_spec d 1); [lia|]. destruct (Z.ltb_spec 31 d); [lia|].
  destruct (Z.ltb_spec (days_in_month y m) d); [lia|]. reflexivity.
Qed.

Lemma mk_date_inv y m d dn :
  mk_date y m d = DOk dn -> valid_ymd y m d /\ 1400 <= y <= 9999 /\ dn = boost_day_number y m d.
Proof.
  unfold mk_date, boost_min_year, boost_max_year, valid_ymd.
  destruct (Z.ltb_spec y 1400); [discriminate|]. destruct (Z.ltb_spec 9999 y); [discriminate|].
  destruct (Z.ltb_spec m 1); [discriminate|]. destruct (Z.ltb_spec 12 m); [discriminate|].
  destruct (Z.ltb_spec d 1); [discriminate|]. destruct (Z.ltb_spec 31 d); [discriminate|].
  destruct (Z.ltb_spec (days_in_month y m) d); [discriminate|]. cbn.
  intros E. injection E as <-. repeat split; lia.
Qed.

(* an impossible day is refused by the constructor, whatever was read *)
Lemma mk_date_rejects y m d : ~ valid_ymd y m d -> exists e, mk_date y m d = DErr e.
Proof.
  intros N. destruct (mk_date y m d) eqn:E; [|eexists; reflexivity].
  apply mk_date_inv in E. tauto.
Qed.

(* ------------------------------------------------------------------ formatting *)
Lemma format_ymd_items y m d :
  strftime I_ymd y m d = Some (digits4 y ++ [47] ++ digits2 m ++ [47] ++ digits2 d).
Proof. reflexivity. Qed.

Lemma format_dn_ymd y m d :
  valid_ymd y m d ->
  format_dn I_ymd (boost_day_number y m d) = Some (spell_ymd y m d true true 47 47).
Proof.
  intros V. unfold format_dn. rewrite boost_roundtrip by exact V. rewrite format_ymd_items.
  reflexivity.
Qed.

Lemma format_written_spec y m d :
  valid_ymd y m d -> format_written (boost_day_number y m d) = Some (spell_ymd y m d true true 47 47).
Proof. intros V. unfold format_written, format_date. apply format_dn_ymd. exact V. Qed.

(* ------------------------------------------------------------------ A: every accepted spelling of a valid
   date is read as exactly that day *)
Lemma strptime_ymd_spell y m d zm zd t :
  0 <= y <= 9999 -> 1 <= m <= 12 -> 1 <= d <= 31 ->
  strptime I_ymd (spell_ymd y m d zm zd 47 47) t = POk (mkTm (y - 1900) (m - 1) d) [].
Proof.
  intros Hy Hm Hd. unfold I_ymd, spell_ymd. cbn [strptime Z.eqb Pos.eqb is_space orb andb Z.leb Z.compare Pos.compare Pos.compare_cont].
  rewrite get_number_digits4 by lia. cbn [app match_char Z.eqb Pos.eqb].
  rewrite get_number_field by (try lia; cbn; reflexivity). cbn [app match_char Z.eqb Pos.eqb tm_year tm_mon tm_mday].
  rewrite <- (app_nil_r (field zd d)).
  rewrite get_number_field by (try lia; cbn; exact I). cbn [tm_year tm_mon tm_mday].
  reflexivity.
Qed.

Lemma routine_ymd_spell cur y m d zm zd s1 s2 :
  valid_ymd y m d -> 1400 <= y <= 9999 -> is_sep s1 -> is_sep s2 ->
  parse_routine true cur R_ymd (spell_ymd y m d zm zd s1 s2) = RDate (boost_day_number y m d).
Proof.
  intros V Hy H1 H2. pose proof (days_in_month_range y m) as Hr. destruct V as [Vm Vd].
  unfold parse_routine, src_tm_year_base, src_tm_mday_preset.
  assert (L : (src_max_date_len <? Z.of_nat (length (spell_ymd y m d zm zd s1 s2))) = false).
  { apply Z.ltb_ge. pose proof (spell_length y m d zm zd s1 s2). unfold src_max_date_len. lia. }
  rewrite L. rewrite norm_spell by (assumption || lia).
  replace (r_items R_ymd) with I_ymd by reflexivity.
  rewrite strptime_ymd_spell by lia. cbn [tm_year tm_mon tm_mday].
  replace (y - 1900 + 1900) with y by ring. replace (m - 1 + 1) with m by ring.
  rewrite mk_date_ok by (try split; lia). rewrite format_dn_ymd by (split; lia).
  unfold spell_ymd. rewrite cmp_same_prefix, (cmp_same_prefix [47]).
  change (field true m) with (digits2 m). change (field true d) with (digits2 d).
  rewrite cmp_field by lia. rewrite (cmp_same_prefix [47]).
  rewrite <- (app_nil_r (digits2 d)), <- (app_nil_r (field zd d)). rewrite cmp_field by lia.
  cbn [cmp_skip0 negb]. reflexivity.
Qed.

Lemma routine_md_refuses cur y m d zm zd s1 s2 :
  1400 <= y <= 9999 -> 1 <= m <= 12 -> 1 <= d <= 31 -> is_sep s1 -> is_sep s2 ->
  parse_routine true cur R_md (spell_ymd y m d zm zd s1 s2) = RNone.
Proof.
  intros Hy Hm Hd H1 H2. unfold parse_routine, src_tm_year_base, src_tm_mday_preset.
  assert (L : (src_max_date_len <? Z.of_nat (length (spell_ymd y m d zm zd s1 s2))) = false).
  { apply Z.ltb_ge. pose proof (spell_length y m d zm zd s1 s2). unfold src_max_date_len. lia. }
  rewrite L. rewrite norm_spell by (assumption || lia).
  replace (r_items R_md) with I_md by reflexivity.
  unfold spell_ymd. rewrite month_reader_refuses_year by lia. reflexivity.
Qed.

Lemma parse_spelled cur y m d zm zd s1 s2 :
  valid_ymd y m d -> 1400 <= y <= 9999 -> is_sep s1 -> is_sep s2 ->
  parse_date [] cur (spell_ymd y m d zm zd s1 s2) = DOk (boost_day_number y m d).
Proof.
  intros V Hy H1 H2. pose proof (days_in_month_range y m) as Hr.
  unfold parse_date, readers_for, conv_for. cbn [src_input_format_pushes_front rev map app src_convert_separators_default].
  rewrite default_readers_eq. cbn [parse_mask].
  rewrite routine_md_refuses by (destruct V; assumption || lia).
  rewrite routine_ymd_spell by assumption. reflexivity.
Qed.

(* ------------------------------------------------------------------ what get_number consumes *)
Definition dec (ds : str) (acc : Z) : Z := fold_left (fun a c => a * 10 + (c - 48)) ds acc.

Definition all_digits (ds : str) : Prop := Forall (fun c => is_digit c = true) ds.
Definition all_space (ws : str) : Prop := Forall (fun c => is_space c = true) ws.

(* a numeral: one to w decimal digits whose value is v *)
Definition numeral (ds : str) (v : Z) (w : nat) : Prop :=
  ds <> [] /\ all_digits ds /\ (length ds <= w)%nat /\ dec ds 0 = v.

Lemma skip_ws_spec s : exists ws, s = ws ++ skip_ws s /\ all_space ws.
Proof.
  induction s as [|c s IH]; [exists []; split; [reflexivity | constructor]|].
  cbn [skip_ws]. destruct (is_space c) eqn:E.
  - destruct IH as [ws [E1 E2]]. exists (c :: ws). split; [cbn; congruence | constructor; assumption].
  - exists []. split; [reflexivity | constructor].
Qed.

Lemma gn_loop_spec n to val s v r :
  gn_loop n to val s = (v, r) ->
  exists ds, s = ds ++ r /\ all_digits ds /\ (length ds <= n)%nat /\ v = dec ds val.
Proof.
  revert val s. induction n as [|n IH]; intros val s H.
  - cbn in H. injection H as <- <-. exists []. repeat split; [constructor | cbn; lia].
  - cbn [gn_loop] in H. destruct s as [|c s].
    + injection H as <- <-. exists []. repeat split; [constructor | cbn; lia].
    + destruct ((val * 10 <=? to) && is_digit c) eqn:E.
      * apply andb_true_iff in E as [_ D]. apply IH in H as [ds [E1 [E2 [E3 E4]]]].
        exists (c :: ds). repeat split; [cbn; congruence | constructor; assumption | cbn; lia | exact E4].
      * injection H as <- <-. exists []. repeat split; [constructor | cbn; lia].
Qed.

Lemma get_number_spec from to k s v r :
  get_number from to (S k) s = Some (v, r) ->
  exists ws ds, s = ws ++ ds ++ r /\ all_space ws /\ numeral ds v (S k) /\ from <= v <= to.
Proof.
  unfold get_number. destruct (skip_ws_spec s) as [ws [E1 E2]].
  destruct (skip_ws s) as [|c s'] eqn:S; [discriminate|].
  destruct (is_digit c) eqn:D; [|discriminate]. cbn [Nat.pred].
  destruct (gn_loop k to (c - 48) s') as [v' r'] eqn:G.
  destruct ((from <=? v') && (v' <=? to)) eqn:B; [|discriminate].
  intros H. injection H as <- <-. apply andb_true_iff in B as [B1 B2]. apply Z.leb_le in B1, B2.
  apply gn_loop_spec in G as [ds [G1 [G2 [G3 G4]]]].
  exists ws, (c :: ds). repeat split.
  - rewrite E1, G1. reflexivity.
  - exact E2.
  - discriminate.
  - constructor; assumption.
  - cbn. lia.
  - cbn. symmetry. exact G4.
  - exact B1.
  - exact B2.
Qed.

Lemma numeral2_field ds v : numeral ds v 2 -> 1 <= v -> exists z, ds = field z v.
Proof.
  intros [N0 [N1 [N2 N3]]] Hv. destruct ds as [|c1 [|c2 [|c3 ds]]]; [congruence| | |cbn in N2; lia].
  - inversion N1 as [|? ? D1 _]. apply is_digit_iff in D1. cbn in N3.
    exists false. unfold field. cbn [orb]. destruct (Z.leb_spec 10 v); [lia|]. f_equal. lia.
  - inversion N1 as [|? ? D1 N1']. inversion N1' as [|? ? D2 _]. apply is_digit_iff in D1, D2. cbn in N3.
    exists true. unfold field, digits2, digit. cbn [orb]. f_equal; [|f_equal]; Z.div_mod_to_equations; lia.
Qed.

Lemma numeral4_digits4 ds v : numeral ds v 4 -> 1000 <= v -> ds = digits4 v.
Proof.
  intros [N0 [N1 [N2 N3]]] Hv.
  destruct ds as [|c1 [|c2 [|c3 [|c4 [|c5 ds]]]]]; [congruence| | | | |cbn in N2; lia];
    unfold all_digits in N1;
    repeat match goal with H : Forall _ (_ :: _) |- _ =>
      let D := fresh "D" in let F := fresh "F" in apply Forall_cons_iff in H as [D F] end;
    repeat match goal with H : is_digit _ = true |- _ => apply is_digit_iff in H end;
    cbn in N3; try lia.
  unfold digits4, digit. f_equal; [|f_equal; [|f_equal; [|f_equal]]]; Z.div_mod_to_equations; lia.
Qed.

Lemma cmp_head_mismatch c d p q : c <> d -> c <> 48 -> cmp_skip0 (c :: p) (d :: q) = false.
Proof.
  intros H1 H2. cbn [cmp_skip0]; unfold src_compare_skip_byte. apply Z.eqb_neq in H1, H2. rewrite H1, H2. reflexivity.
Qed.

Lemma cmp_space_digits2 v w p q : is_space w = true -> cmp_skip0 (digits2 v ++ p) (w :: q) = false.
Proof.
  intros W. unfold digits2. cbn [app cmp_skip0]; unfold src_compare_skip_byte.
  assert (N1 : digit (v / 10) <> w).
  { intros <-. rewrite (digit_not_space _ (is_digit_digit _)) in W. discriminate. }
  assert (N2 : digit v <> w).
  { intros <-. rewrite (digit_not_space _ (is_digit_digit _)) in W. discriminate. }
  apply Z.eqb_neq in N1, N2. rewrite N1, N2. cbn [negb andb]. destruct (digit (v / 10) =? 48); reflexivity.
Qed.

Lemma cmp_ws_numeral2 v ws ds p q :
  1 <= v <= 99 -> all_space ws -> numeral ds v 2 ->
  cmp_skip0 (digits2 v ++ p) (ws ++ ds ++ q) = true ->
  ws = [] /\ (exists z, ds = field z v) /\ cmp_skip0 p q = true.
Proof.
  intros Hv W N C. destruct ws as [|w ws].
  - destruct (numeral2_field ds v N ltac:(lia)) as [z ->]. cbn [app] in C.
    rewrite cmp_field in C by exact Hv. split; [reflexivity|]. split; [exists z; reflexivity | exact C].
  - inversion W as [|? ? W1 _]. cbn [app] in C. rewrite cmp_space_digits2 in C by exact W1. discriminate.
Qed.

Lemma cmp_ws_numeral4 v ws ds p q :
  1000 <= v <= 9999 -> all_space ws -> numeral ds v 4 ->
  cmp_skip0 (digits4 v ++ p) (ws ++ ds ++ q) = true ->
  ws = [] /\ ds = digits4 v /\ cmp_skip0 p q = true.
Proof.
  intros Hv W N C. destruct ws as [|w ws].
  - rewrite (numeral4_digits4 ds v N ltac:(lia)) in C |- *. cbn [app] in C.
    rewrite cmp_same_prefix in C. repeat split. exact C.
  - inversion W as [|? ? W1 _]. unfold digits4 in C. cbn [app] in C.
    rewrite cmp_head_mismatch in C; [discriminate | |].
    + intros E. rewrite <- E in W1. rewrite (digit_not_space _ (is_digit_digit _)) in W1. discriminate.
    + unfold digit. Z.div_mod_to_equations. lia.
Qed.

(* ------------------------------------------------------------------ inversion of the three live readers *)
Lemma match_char_inv c s s' : match_char c s = Some s' -> s = c :: s'.
Proof.
  destruct s as [|x s]; [discriminate|]. cbn. destruct (Z.eqb_spec x c); [|discriminate].
  intros H. injection H as <-. congruence.
Qed.

Lemma strptime_ymd_inv buf t0 t rest :
  strptime I_ymd buf t0 = POk t rest ->
  exists vy r2 vm r4 vd,
    get_number 0 9999 4 buf = Some (vy, 47 :: r2) /\ get_number 1 12 2 r2 = Some (vm, 47 :: r4) /\
    get_number 1 31 2 r4 = Some (vd, rest) /\ t = mkTm (vy - 1900) (vm - 1) vd.
Proof.
  unfold I_ymd. cbn [strptime Z.eqb Pos.eqb is_space orb andb Z.leb Z.compare Pos.compare Pos.compare_cont].
  destruct (get_number 0 9999 4 buf) as [[vy r1]|] eqn:G1; [|discriminate].
  destruct (match_char 47 r1) as [r2|] eqn:M1; [|discriminate]. apply match_char_inv in M1. subst r1.
  destruct (get_number 1 12 2 r2) as [[vm r3]|] eqn:G2; [|discriminate].
  destruct (match_char 47 r3) as [r4|] eqn:M2; [|discriminate]. apply match_char_inv in M2. subst r3.
  destruct (get_number 1 31 2 r4) as [[vd r5]|] eqn:G3; [|discriminate].
  cbn [tm_year tm_mon tm_mday]. intros H. injection H as <- <-.
  exists vy, r2, vm, r4, vd. repeat split; assumption.
Qed.

Lemma strptime_md_inv buf t0 t rest :
  strptime I_md buf t0 = POk t rest ->
  exists vm r2 vd,
    get_number 1 12 2 buf = Some (vm, 47 :: r2) /\ get_number 1 31 2 r2 = Some (vd, rest) /\
    t = mkTm (tm_year t0) (vm - 1) vd.
Proof.
  unfold I_md. cbn [strptime Z.eqb Pos.eqb is_space orb andb Z.leb Z.compare Pos.compare Pos.compare_cont].
  destruct (get_number 1 12 2 buf) as [[vm r1]|] eqn:G1; [|discriminate].
  destruct (match_char 47 r1) as [r2|] eqn:M1; [|discriminate]. apply match_char_inv in M1. subst r1.
  destruct (get_number 1 31 2 r2) as [[vd r3]|] eqn:G2; [|discriminate].
  cbn [tm_year tm_mon tm_mday]. intros H. injection H as <- <-.
  exists vm, r2, vd. repeat split; assumption.
Qed.

Lemma strptime_ym_inv buf t0 t rest :
  strptime I_ym buf t0 = POk t rest ->
  exists vy r2 vm,
    get_number 0 9999 4 buf = Some (vy, 47 :: r2) /\ get_number 1 12 2 r2 = Some (vm, rest) /\
    t = mkTm (vy - 1900) (vm - 1) (tm_mday t0).
Proof.
  unfold I_ym. cbn [strptime Z.eqb Pos.eqb is_space orb andb Z.leb Z.compare Pos.compare Pos.compare_cont].
  destruct (get_number 0 9999 4 buf) as [[vy r1]|] eqn:G1; [|discriminate].
  destruct (match_char 47 r1) as [r2|] eqn:M1; [|discriminate]. apply match_char_inv in M1. subst r1.
  destruct (get_number 1 12 2 r2) as [[vm r3]|] eqn:G2; [|discriminate].
  cbn [tm_year tm_mon tm_mday]. intros H. injection H as <- <-.
  exists vy, r2, vm. repeat split; assumption.
Qed.

(* what a successful routine call went through *)
Lemma routine_inv conv cur r s dn :
  parse_routine conv cur r s = RDate dn ->
  exists t rest dn0 w,
    let buf := if conv then map norm_sep s else s in
    strptime (r_items r) buf (mkTm (fst (fst cur) - 1900) 0 1) = POk t rest /\
    mk_date (tm_year t + 1900) (tm_mon t + 1) (tm_mday t) = DOk dn0 /\
    format_dn (r_items r) dn0 = Some w /\ cmp_skip0 w buf = true /\
    (if has_year (r_raw r) then dn = dn0 else infer_year cur dn0 = DOk dn).
Proof.
  unfold parse_routine, src_tm_year_base, src_tm_mday_preset. destruct (src_max_date_len <? Z.of_nat (length s)); [discriminate|].
  destruct (strptime _ _ _) as [| |t rest] eqn:S; try discriminate.
  destruct (mk_date _ _ _) as [dn0|e] eqn:M; [|discriminate].
  destruct (format_dn _ dn0) as [w|] eqn:F; [|discriminate].
  destruct (cmp_skip0 w _) eqn:C; [|discriminate]. cbn [negb].
  intros H. exists t, rest, dn0, w. cbn zeta. repeat split; try assumption.
  destruct (has_year (r_raw r)).
  - injection H as <-. reflexivity.
  - destruct (infer_year cur dn0); [injection H as <-; reflexivity | discriminate].
Qed.

Lemma routine_ymd_sound cur s dn :
  parse_routine true cur R_ymd s = RDate dn ->
  exists y m d zm zd, valid_ymd y m d /\ 1400 <= y <= 9999 /\ dn = boost_day_number y m d /\
    map norm_sep s = spell_ymd y m d zm zd 47 47.
Proof.
  intros H. apply routine_inv in H as [t [rest [dn0 [w [S [M [F [C Y]]]]]]]]. cbn zeta in *.
  replace (r_items R_ymd) with I_ymd in * by reflexivity.
  replace (has_year (r_raw R_ymd)) with true in Y by reflexivity. subst dn0.
  apply strptime_ymd_inv in S as [vy [r2 [vm [r4 [vd [G1 [G2 [G3 ->]]]]]]]].
  cbn [tm_year tm_mon tm_mday] in M.
  replace (vy - 1900 + 1900) with vy in M by ring. replace (vm - 1 + 1) with vm in M by ring.
  apply mk_date_inv in M as [V [Hy ->]].
  rewrite format_dn_ymd in F by exact V. injection F as <-.
  apply get_number_spec in G1 as [ws1 [Y1 [E1 [W1 [N1 B1]]]]].
  apply get_number_spec in G2 as [ws2 [Y2 [E2 [W2 [N2 B2]]]]].
  apply get_number_spec in G3 as [ws3 [Y3 [E3 [W3 [N3 B3]]]]].
  pose proof (days_in_month_range vy vm) as Hr. destruct V as [Vm Vd].
  rewrite E1 in C |- *. unfold spell_ymd in C.
  apply cmp_ws_numeral4 in C as [-> [-> C]]; [| lia | exact W1 | exact N1].
  change (47 :: r2) with ([47] ++ r2) in C. rewrite cmp_same_prefix in C.
  rewrite E2 in C |- *. change (field true vm) with (digits2 vm) in C.
  apply cmp_ws_numeral2 in C as [-> [[zm ->] C]]; [| lia | exact W2 | exact N2].
  change (47 :: r4) with ([47] ++ r4) in C. rewrite cmp_same_prefix in C.
  rewrite E3 in C |- *. change (field true vd) with (digits2 vd) in C.
  rewrite <- (app_nil_r (digits2 vd)) in C.
  apply cmp_ws_numeral2 in C as [-> [[zd ->] C]]; [| lia | exact W3 | exact N3].
  apply cmp_nil_l in C. subst rest.
  exists vy, vm, vd, zm, zd. repeat split; try lia.
  unfold spell_ymd. cbn [app]. rewrite app_nil_r. reflexivity.
Qed.

Definition spell_ym (y m : Z) (zm : bool) : str := digits4 y ++ [47] ++ field zm m.
Definition spell_md (m d : Z) (zm zd : bool) : str := field zm m ++ [47] ++ field zd d.

Lemma format_dn_ym y m :
  valid_ymd y m 1 -> format_dn I_ym (boost_day_number y m 1) = Some (spell_ym y m true).
Proof. intros V. unfold format_dn. rewrite boost_roundtrip by exact V. reflexivity. Qed.

Lemma format_dn_md y m d :
  valid_ymd y m d -> format_dn I_md (boost_day_number y m d) = Some (spell_md m d true true).
Proof. intros V. unfold format_dn. rewrite boost_roundtrip by exact V. reflexivity. Qed.

Lemma routine_ym_sound cur s dn :
  parse_routine true cur R_ym s = RDate dn ->
  exists y m zm, valid_ymd y m 1 /\ 1400 <= y <= 9999 /\ dn = boost_day_number y m 1 /\
    map norm_sep s = spell_ym y m zm.
Proof.
  intros H. apply routine_inv in H as [t [rest [dn0 [w [S [M [F [C Y]]]]]]]]. cbn zeta in *.
  replace (r_items R_ym) with I_ym in * by reflexivity.
  replace (has_year (r_raw R_ym)) with true in Y by reflexivity. subst dn0.
  apply strptime_ym_inv in S as [vy [r2 [vm [G1 [G2 ->]]]]].
  cbn [tm_year tm_mon tm_mday] in M.
  replace (vy - 1900 + 1900) with vy in M by ring. replace (vm - 1 + 1) with vm in M by ring.
  apply mk_date_inv in M as [V [Hy ->]].
  rewrite format_dn_ym in F by exact V. injection F as <-.
  apply get_number_spec in G1 as [ws1 [Y1 [E1 [W1 [N1 B1]]]]].
  apply get_number_spec in G2 as [ws2 [Y2 [E2 [W2 [N2 B2]]]]].
  rewrite E1 in C |- *. unfold spell_ym in C.
  apply cmp_ws_numeral4 in C as [-> [-> C]]; [| lia | exact W1 | exact N1].
  change (47 :: r2) with ([47] ++ r2) in C. rewrite cmp_same_prefix in C.
  rewrite E2 in C |- *. change (field true vm) with (digits2 vm) in C.
  rewrite <- (app_nil_r (digits2 vm)) in C.
  apply cmp_ws_numeral2 in C as [-> [[zm ->] C]]; [| lia | exact W2 | exact N2].
  apply cmp_nil_l in C. subst rest.
  exists vy, vm, zm. repeat split; try lia; try apply V.
  unfold spell_ym. cbn [app]. rewrite app_nil_r. reflexivity.
Qed.

Lemma routine_md_sound cur s dn :
  parse_routine true cur R_md s = RDate dn ->
  exists m d zm zd, valid_ymd (fst (fst cur)) m d /\ 1400 <= fst (fst cur) <= 9999 /\
    infer_year cur (boost_day_number (fst (fst cur)) m d) = DOk dn /\
    map norm_sep s = spell_md m d zm zd.
Proof.
  intros H. apply routine_inv in H as [t [rest [dn0 [w [S [M [F [C Y]]]]]]]]. cbn zeta in *.
  replace (r_items R_md) with I_md in * by reflexivity.
  replace (has_year (r_raw R_md)) with false in Y by reflexivity.
  apply strptime_md_inv in S as [vm [r2 [vd [G1 [G2 ->]]]]].
  cbn [tm_year tm_mon tm_mday] in M. set (cy := fst (fst cur)) in *.
  replace (cy - 1900 + 1900) with cy in M by ring. replace (vm - 1 + 1) with vm in M by ring.
  apply mk_date_inv in M as [V [Hy ->]].
  rewrite format_dn_md in F by exact V. injection F as <-.
  apply get_number_spec in G1 as [ws1 [Y1 [E1 [W1 [N1 B1]]]]].
  apply get_number_spec in G2 as [ws2 [Y2 [E2 [W2 [N2 B2]]]]].
  rewrite E1 in C |- *. unfold spell_md in C. change (field true vm) with (digits2 vm) in C.
  apply cmp_ws_numeral2 in C as [-> [[zm ->] C]]; [| lia | exact W1 | exact N1].
  change (47 :: r2) with ([47] ++ r2) in C. rewrite cmp_same_prefix in C.
  rewrite E2 in C |- *. change (field true vd) with (digits2 vd) in C.
  rewrite <- (app_nil_r (digits2 vd)) in C.
  apply cmp_ws_numeral2 in C as [-> [[zd ->] C]]; [| lia | exact W2 | exact N2].
  apply cmp_nil_l in C. subst rest.
  exists vm, vd, zm, zd. repeat split; try lia; try apply V; try exact Y.
  unfold spell_md. cbn [app]. rewrite app_nil_r. reflexivity.
Qed.

(* ------------------------------------------------------------------ the two readers that can never answer *)
Lemma strptime_fail_indep f : forall s t t', strptime f s t = PFail -> strptime f s t' = PFail.
Proof.
  induction f as [|i f IH]; intros s t t' H; [discriminate|].
  destruct i as [c|c|]; cbn [strptime] in *.
  - destruct (is_space c); [eapply IH; exact H|].
    destruct (match_char c s); [eapply IH; exact H | reflexivity].
  - destruct (c =? 89).
    { destruct (get_number 0 9999 4 s) as [[v r]|]; [eapply IH; exact H | reflexivity]. }
    destruct (c =? 109).
    { destruct (get_number 1 12 2 s) as [[v r]|]; [eapply IH; exact H | reflexivity]. }
    destruct ((c =? 100) || (c =? 101)).
    { destruct (get_number 1 31 2 s) as [[v r]|]; [eapply IH; exact H | reflexivity]. }
    destruct (c =? 121).
    { destruct (get_number 0 99 2 s) as [[v r]|]; [eapply IH; exact H | reflexivity]. }
    destruct (c =? 37).
    { destruct (match_char 37 s); [eapply IH; exact H | reflexivity]. }
    destruct ((c =? 98) || (c =? 66) || (c =? 104)).
    { destruct (match_names month_names 0 s) as [[v r]|]; [eapply IH; exact H | reflexivity]. }
    destruct ((c =? 97) || (c =? 65)).
    { destruct (match_names wday_names 0 s) as [[v r]|]; [eapply IH; exact H | reflexivity]. }
    discriminate.
  - discriminate.
Qed.

Lemma gn_2_to_4 s v r : get_number 0 99 2 s = Some (v, 47 :: r) -> get_number 0 9999 4 s = Some (v, 47 :: r).
Proof.
  unfold get_number. destruct (skip_ws s) as [|c s']; [discriminate|].
  destruct (is_digit c) eqn:D; [|discriminate]. apply is_digit_iff in D. cbn [Nat.pred gn_loop].
  destruct s' as [|x s''].
  - destruct ((0 <=? c - 48) && (c - 48 <=? 99)); discriminate.
  - assert (A : ((c - 48) * 10 <=? 99) = true) by (apply Z.leb_le; lia).
    assert (B : ((c - 48) * 10 <=? 9999) = true) by (apply Z.leb_le; lia).
    rewrite A, B. cbn [andb]. destruct (is_digit x) eqn:Dx.
    + apply is_digit_iff in Dx.
      destruct ((0 <=? (c - 48) * 10 + (x - 48)) && ((c - 48) * 10 + (x - 48) <=? 99)) eqn:R; [|discriminate].
      intros H. injection H as <- ->. cbn [is_digit Z.leb Z.compare Pos.compare Pos.compare_cont andb].
      rewrite andb_false_r.
      assert (R' : (0 <=? (c - 48) * 10 + (x - 48)) && ((c - 48) * 10 + (x - 48) <=? 9999) = true)
        by (apply andb_true_iff; rewrite !Z.leb_le; lia).
      rewrite R'. reflexivity.
    + destruct ((0 <=? c - 48) && (c - 48 <=? 99)) eqn:R; [|discriminate].
      intros H. injection H as <- Ex Es. subst x s''.
      assert (R' : (0 <=? c - 48) && (c - 48 <=? 9999) = true) by (apply andb_true_iff; rewrite !Z.leb_le; lia).
      rewrite R'. reflexivity.
Qed.

(* %y/%m/%d is shadowed by %Y/%m/%d: whenever the former's strptime succeeds so does the latter's *)
Lemma y2_reader_dead tl buf t :
  strptime (IDir 89 :: ILit 47 :: tl) buf t = PFail -> strptime (IDir 121 :: ILit 47 :: tl) buf t = PFail.
Proof.
  cbn [strptime Z.eqb Pos.eqb is_space orb andb Z.leb Z.compare Pos.compare Pos.compare_cont].
  intros H. destruct (get_number 0 99 2 buf) as [[v r]|] eqn:G; [|reflexivity].
  destruct (match_char 47 r) as [r'|] eqn:M; [|reflexivity].
  apply match_char_inv in M. subst r. rewrite (gn_2_to_4 _ _ _ G) in H.
  cbn [match_char Z.eqb Pos.eqb] in H. eapply strptime_fail_indep. exact H.
Qed.

Lemma routine_none_inv conv cur r s :
  parse_routine conv cur r s = RNone ->
  (src_max_date_len <? Z.of_nat (length s)) = false /\
  strptime (r_items r) (if conv then map norm_sep s else s) (mkTm (fst (fst cur) - 1900) 0 1) = PFail.
Proof.
  unfold parse_routine, src_tm_year_base, src_tm_mday_preset. destruct (src_max_date_len <? Z.of_nat (length s)); [discriminate|].
  destruct (strptime _ _ _) as [| |t rest] eqn:S; try discriminate; [tauto|].
  destruct (mk_date _ _ _); [|discriminate]. destruct (format_dn _ _); [|discriminate].
  destruct (cmp_skip0 _ _); cbn [negb]; [|discriminate].
  destruct (has_year _); [discriminate|]. destruct (infer_year _ _); discriminate.
Qed.

Lemma routine_none_of_fail (conv : bool) (cur : ymd) r (s : str) :
  (src_max_date_len <? Z.of_nat (length s)) = false ->
  strptime (r_items r) (if conv then map norm_sep s else s) (mkTm (fst (fst cur) - 1900) 0 1) = PFail ->
  parse_routine conv cur r s = RNone.
Proof.
  intros L S. unfold parse_routine, src_tm_year_base, src_tm_mday_preset. rewrite L. cbv beta iota zeta.
  match goal with |- match ?X with _ => _ end = _ => replace X with PFail by (symmetry; exact S) end.
  reflexivity.
Qed.

Lemma norm_sep_not_dash c : norm_sep c <> 45.
Proof.
  unfold norm_sep, src_sep_from, src_sep_to. cbn [fst snd].
  destruct (Z.eqb_spec c 45); [cbn; lia|]. destruct (Z.eqb_spec c 46); cbn; lia.
Qed.

Lemma dash_reader_dead buf t : ~ In 45 buf -> strptime I_dash buf t = PFail.
Proof.
  intros N. unfold I_dash. cbn [strptime Z.eqb Pos.eqb is_space orb andb Z.leb Z.compare Pos.compare Pos.compare_cont].
  destruct (get_number 0 9999 4 buf) as [[v r]|] eqn:G; [|reflexivity].
  apply get_number_spec in G as [ws [ds [E _]]].
  destruct r as [|x r]; [reflexivity|]. cbn [match_char]. destruct (Z.eqb_spec x 45) as [->|]; [|reflexivity].
  exfalso. apply N. rewrite E. apply in_or_app. right. apply in_or_app. right. left. reflexivity.
Qed.

(* ------------------------------------------------------------------ C: what is accepted spells a valid date *)
Lemma parse_sound cur s dn :
  parse_date [] cur s = DOk dn ->
  (exists y m d zm zd, valid_ymd y m d /\ 1400 <= y <= 9999 /\ dn = boost_day_number y m d /\
     map norm_sep s = spell_ymd y m d zm zd 47 47) \/
  (exists y m zm, valid_ymd y m 1 /\ 1400 <= y <= 9999 /\ dn = boost_day_number y m 1 /\
     map norm_sep s = spell_ym y m zm) \/
  (exists m d zm zd, valid_ymd (fst (fst cur)) m d /\ 1400 <= fst (fst cur) <= 9999 /\
     infer_year cur (boost_day_number (fst (fst cur)) m d) = DOk dn /\
     map norm_sep s = spell_md m d zm zd).
Proof.
  unfold parse_date, readers_for, conv_for, src_input_format_pushes_front, src_convert_separators_default.
  cbn [rev map app].
  rewrite default_readers_eq. cbn [parse_mask].
  destruct (parse_routine true cur R_md s) as [|dn1|e1] eqn:A1; cbv beta iota; [| |discriminate].
  2:{ intros H. injection H as <-. right. right. apply routine_md_sound. exact A1. }
  destruct (parse_routine true cur R_ymd s) as [|dn2|e2] eqn:A2; cbv beta iota; [| |discriminate].
  2:{ intros H. injection H as <-. left. apply routine_ymd_sound with (cur := cur). exact A2. }
  destruct (parse_routine true cur R_ym s) as [|dn3|e3] eqn:A3; cbv beta iota; [| |discriminate].
  2:{ intros H. injection H as <-. right. left. apply routine_ym_sound with (cur := cur). exact A3. }
  apply routine_none_inv in A2 as [L S2].
  rewrite (routine_none_of_fail true cur R_y2md s L).
  2:{ replace (r_items R_y2md) with I_y2md by reflexivity. apply y2_reader_dead. exact S2. }
  rewrite (routine_none_of_fail true cur R_dash s L).
  2:{ replace (r_items R_dash) with I_dash by reflexivity. apply dash_reader_dead.
      intros I. apply in_map_iff in I as [x [E _]]. exact (norm_sep_not_dash x E). }
  discriminate.
Qed.

(* accepted => the result is a real calendar day of boost's range *)
Lemma parse_accepts_only_dates cur s dn :
  parse_date [] cur s = DOk dn ->
  exists y m d, boost_from_day_number dn = (y, m, d) /\ valid_ymd y m d /\ 1400 <= y <= 9999 /\
                dn = boost_day_number y m d.
Proof.
  intros H. apply parse_sound in H as [[y [m [d [zm [zd [V [Hy [-> _]]]]]]]] | [[y [m [zm [V [Hy [-> _]]]]]] | [m [d [zm [zd [V [Hy [I _]]]]]]]]].
  - exists y, m, d. rewrite boost_roundtrip by exact V. tauto.
  - exists y, m, 1. rewrite boost_roundtrip by exact V. tauto.
  - unfold infer_year in I. destruct cur as [[cy cm] cd]. cbn [fst] in *.
    rewrite boost_roundtrip in I by exact V. rewrite mk_date_ok in I by assumption.
    destruct (cm <? m).
    + unfold minus_one_year in I. rewrite boost_roundtrip in I by exact V.
      apply mk_date_inv in I as [V2 [Hy2 ->]]. exists (cy - 1), m, d. rewrite boost_roundtrip by exact V2. tauto.
    + injection I as <-. exists cy, m, d. rewrite boost_roundtrip by exact V. tauto.
Qed.

(* ------------------------------------------------------------------ impossible days and trailing characters *)
Lemma strptime_ymd_spell_rest y m d zm zd t r :
  0 <= y <= 9999 -> 1 <= m <= 12 -> 1 <= d <= 31 -> (zd = true \/ 10 <= d \/ stops r) ->
  strptime I_ymd (spell_ymd y m d zm zd 47 47 ++ r) t = POk (mkTm (y - 1900) (m - 1) d) r.
Proof.
  intros Hy Hm Hd Hs. unfold I_ymd, spell_ymd. rewrite <- !app_assoc.
  cbn [strptime Z.eqb Pos.eqb is_space orb andb Z.leb Z.compare Pos.compare Pos.compare_cont].
  rewrite get_number_digits4 by lia. cbn [app match_char Z.eqb Pos.eqb].
  rewrite get_number_field by (try lia; cbn; reflexivity). cbn [app match_char Z.eqb Pos.eqb tm_year tm_mon tm_mday].
  assert (G : get_number 1 31 2 (field zd d ++ r) = Some (d, r)).
  { unfold field. destruct (zd || (10 <=? d)) eqn:E.
    - apply get_number_digits2; lia.
    - apply orb_false_iff in E as [E1 E2]. apply Z.leb_gt in E2. subst zd.
      destruct Hs as [?|[?|Hs]]; [discriminate | lia |]. cbn [app]. apply get_number_one_digit; [lia | lia | exact Hs]. }
  rewrite G. reflexivity.
Qed.

Lemma impossible_day_rejected cur y m d zm zd s1 s2 :
  1400 <= y <= 9999 -> 1 <= m <= 12 -> days_in_month y m < d <= 31 -> is_sep s1 -> is_sep s2 ->
  parse_date [] cur (spell_ymd y m d zm zd s1 s2) = DErr DBadDay.
Proof.
  intros Hy Hm Hd H1 H2. pose proof (days_in_month_range y m) as Hr.
  unfold parse_date, readers_for, conv_for, src_input_format_pushes_front, src_convert_separators_default.
  cbn [rev map app].
  rewrite default_readers_eq. cbn [parse_mask].
  rewrite routine_md_refuses by (assumption || lia).
  unfold parse_routine, src_tm_year_base, src_tm_mday_preset.
  assert (L : (src_max_date_len <? Z.of_nat (length (spell_ymd y m d zm zd s1 s2))) = false).
  { apply Z.ltb_ge. pose proof (spell_length y m d zm zd s1 s2). unfold src_max_date_len. lia. }
  rewrite L. rewrite norm_spell by (assumption || lia).
  replace (r_items R_ymd) with I_ymd by reflexivity.
  rewrite strptime_ymd_spell by lia. cbn [tm_year tm_mon tm_mday].
  replace (y - 1900 + 1900) with y by ring. replace (m - 1 + 1) with m by ring.
  unfold mk_date, boost_min_year, boost_max_year.
  destruct (Z.ltb_spec y 1400); [lia|]. destruct (Z.ltb_spec 9999 y); [lia|].
  destruct (Z.ltb_spec m 1); [lia|]. destruct (Z.ltb_spec 12 m); [lia|].
  destruct (Z.ltb_spec d 1); [lia|]. destruct (Z.ltb_spec 31 d); [lia|].
  destruct (Z.ltb_spec (days_in_month y m) d); [|lia]. reflexivity.
Qed.

Lemma map_norm_app a b : map norm_sep (a ++ b) = map norm_sep a ++ map norm_sep b.
Proof. apply map_app. Qed.

Lemma trailing_rejected cur y m d zm zd s1 s2 x r :
  valid_ymd y m d -> 1400 <= y <= 9999 -> is_sep s1 -> is_sep s2 ->
  (zd = true \/ 10 <= d \/ is_digit x = false) ->
  parse_date [] cur (spell_ymd y m d zm zd s1 s2 ++ x :: r) = DErr DInvalid.
Proof.
  intros V Hy H1 H2 Hx. pose proof (days_in_month_range y m) as Hr. destruct V as [Vm Vd].
  unfold parse_date, readers_for, conv_for, src_input_format_pushes_front, src_convert_separators_default.
  cbn [rev map app].
  rewrite default_readers_eq. cbn [parse_mask].
  set (s := spell_ymd y m d zm zd s1 s2 ++ x :: r).
  destruct (src_max_date_len <? Z.of_nat (length s)) eqn:L.
  { unfold parse_routine at 1; unfold src_tm_year_base, src_tm_mday_preset. rewrite L. reflexivity. }
  assert (N : map norm_sep s = spell_ymd y m d zm zd 47 47 ++ norm_sep x :: map norm_sep r).
  { unfold s. rewrite map_norm_app, norm_spell by (assumption || lia). reflexivity. }
  assert (A1 : parse_routine true cur R_md s = RNone).
  { apply routine_none_of_fail; [exact L|]. rewrite N. replace (r_items R_md) with I_md by reflexivity.
    unfold spell_ymd. rewrite <- app_assoc. apply month_reader_refuses_year. lia. }
  rewrite A1. unfold parse_routine, src_tm_year_base, src_tm_mday_preset. rewrite L, N.
  replace (r_items R_ymd) with I_ymd by reflexivity.
  rewrite strptime_ymd_spell_rest; try lia.
  2:{ destruct Hx as [?|[?|Hx]]; [tauto | tauto |]. right. right. cbn.
      destruct (is_digit (norm_sep x)) eqn:Dn; [|reflexivity].
      unfold norm_sep, src_sep_from, src_sep_to in Dn. cbn [fst snd] in Dn.
      destruct ((x =? 45) || (x =? 46)); [discriminate | congruence]. }
  cbn [tm_year tm_mon tm_mday].
  replace (y - 1900 + 1900) with y by ring. replace (m - 1 + 1) with m by ring.
  rewrite mk_date_ok by (try split; lia). rewrite format_dn_ymd by (split; lia).
  assert (C : cmp_skip0 (spell_ymd y m d true true 47 47)
                (spell_ymd y m d zm zd 47 47 ++ norm_sep x :: map norm_sep r) = false).
  { rewrite <- (app_nil_r (spell_ymd y m d true true 47 47)). unfold spell_ymd. rewrite <- !app_assoc.
    rewrite cmp_same_prefix, (cmp_same_prefix [47]).
    change (field true m) with (digits2 m). change (field true d) with (digits2 d).
    rewrite cmp_field by lia. rewrite (cmp_same_prefix [47]). rewrite cmp_field by lia. reflexivity. }
  rewrite C. reflexivity.
Qed.

(* ------------------------------------------------------------------ E: the year of a year-less date *)
Lemma infer_same_year cy cm cd m d :
  valid_ymd cy m d -> 1400 <= cy <= 9999 -> m <= cm ->
  infer_year (cy, cm, cd) (boost_day_number cy m d) = DOk (boost_day_number cy m d).
Proof.
  intros V Hy Hm. unfold infer_year. rewrite boost_roundtrip by exact V.
  rewrite mk_date_ok by assumption. destruct (Z.ltb_spec cm m); [lia|]. reflexivity.
Qed.

(* the complete rule: the current year, or - when the month is after the current month - the
   same month and day of the previous year, built by the date constructor *)
Lemma infer_year_spec cy cm cd m d :
  valid_ymd cy m d -> 1400 <= cy <= 9999 ->
  infer_year (cy, cm, cd) (boost_day_number cy m d) =
  if cm <? m then mk_date (cy - 1) m d else DOk (boost_day_number cy m d).
Proof.
  intros V Hy. unfold infer_year. rewrite boost_roundtrip by exact V.
  rewrite mk_date_ok by assumption. destruct (cm <? m); [|reflexivity].
  unfold minus_one_year. rewrite boost_roundtrip by exact V. reflexivity.
Qed.

Lemma infer_prev_year cy cm cd m d :
  valid_ymd cy m d -> valid_ymd (cy - 1) m d -> 1401 <= cy <= 9999 -> cm < m ->
  infer_year (cy, cm, cd) (boost_day_number cy m d) = DOk (boost_day_number (cy - 1) m d).
Proof.
  intros V V' Hy Hm. rewrite infer_year_spec by (assumption || lia).
  destruct (Z.ltb_spec cm m); [|lia]. apply mk_date_ok; [exact V' | lia].
Qed.

(* every day but 29 February exists in the previous year as well *)
Lemma valid_prev_year y m d : valid_ymd y m d -> (m, d) <> (2, 29) -> valid_ymd (y - 1) m d.
Proof.
  intros [Vm Vd] N. split; [exact Vm|]. revert Vd N. unfold days_in_month.
  destruct (Z.eqb_spec m 2) as [->|]; [|tauto].
  destruct (is_leap y), (is_leap (y - 1)); intros Vd N; try lia;
    (destruct (Z.eq_dec d 29) as [->|]; [exfalso; apply N; reflexivity | lia]).
Qed.

(* 29 February written without a year after the current month: the current year must be a leap
   year for the first construction to succeed, so the previous year is not: an error *)
Lemma infer_prev_year_feb29 cy cm cd :
  valid_ymd cy 2 29 -> 1401 <= cy <= 9999 -> cm < 2 ->
  infer_year (cy, cm, cd) (boost_day_number cy 2 29) = DErr DBadDay.
Proof.
  intros V Hy Hm. rewrite infer_year_spec by (assumption || lia).
  destruct (Z.ltb_spec cm 2); [|lia]. destruct V as [_ Vd]. unfold days_in_month in Vd. cbn [Z.eqb Pos.eqb] in Vd.
  destruct (is_leap_cases cy) as [[L A]|[L A]]; rewrite L in Vd; [|lia].
  assert (L' : is_leap (cy - 1) = false).
  { destruct (is_leap_cases (cy - 1)) as [[L' A']|[L' A']]; [|exact L']. exfalso. Z.div_mod_to_equations. lia. }
  unfold mk_date, boost_min_year, boost_max_year, days_in_month. rewrite L'.
  destruct (Z.ltb_spec (cy - 1) 1400); [lia|]. destruct (Z.ltb_spec 9999 (cy - 1)); [lia|]. reflexivity.
Qed.

(* ------------------------------------------------------------------ D: weekday and order of read dates *)
Lemma printed_weekday y m d :
  valid_ymd y m d ->
  format_date [37; 119] (boost_day_number y m d) = Some [48 + weekday (days_from_civil y m d)].
Proof.
  intros V. unfold format_date, format_dn. rewrite boost_roundtrip by exact V.
  cbn [lex_fmt Z.eqb Pos.eqb strftime fmt_dir]. rewrite boost_day_of_week_correct by apply V.
  pose proof (weekday_range (days_from_civil y m d)).
  unfold digit. rewrite Z.mod_small by lia. reflexivity.
Qed.

Lemma date_order y1 m1 d1 y2 m2 d2 :
  valid_ymd y1 m1 d1 -> valid_ymd y2 m2 d2 ->
  (date_ltb (boost_day_number y1 m1 d1) (boost_day_number y2 m2 d2) = true <-> ymd_lt (y1, m1, d1) (y2, m2, d2)) /\
  (date_eqb (boost_day_number y1 m1 d1) (boost_day_number y2 m2 d2) = true <-> (y1, m1, d1) = (y2, m2, d2)).
Proof.
  intros V1 V2. unfold date_ltb, date_eqb. rewrite Z.ltb_lt, Z.eqb_eq. split.
  - symmetry. apply boost_order; assumption.
  - split.
    + intros E. rewrite <- (boost_roundtrip _ _ _ V1), <- (boost_roundtrip _ _ _ V2), E. reflexivity.
    + intros E. injection E as -> -> ->. reflexivity.
Qed.

(* ------------------------------------------------------------------ MM/DD read forward *)
Lemma strptime_md_spell m d zm zd t :
  1 <= m <= 12 -> 1 <= d <= 31 ->
  strptime I_md (spell_md m d zm zd) t = POk (mkTm (tm_year t) (m - 1) d) [].
Proof.
  intros Hm Hd. unfold I_md, spell_md.
  cbn [strptime Z.eqb Pos.eqb is_space orb andb Z.leb Z.compare Pos.compare Pos.compare_cont].
  rewrite get_number_field by (try lia; cbn; reflexivity). cbn [app match_char Z.eqb Pos.eqb tm_year tm_mon tm_mday].
  rewrite <- (app_nil_r (field zd d)).
  rewrite get_number_field by (try lia; cbn; exact I). reflexivity.
Qed.

Definition spell_md_sep (m d : Z) (zm zd : bool) (s1 : Z) : str := field zm m ++ [s1] ++ field zd d.

Lemma norm_spell_md m d zm zd s1 :
  1 <= m <= 99 -> 1 <= d <= 99 -> is_sep s1 -> map norm_sep (spell_md_sep m d zm zd s1) = spell_md m d zm zd.
Proof.
  intros Hm Hd H1. unfold spell_md_sep, spell_md. rewrite !map_app. cbn [map].
  rewrite (map_norm_digits _ (field_digits zm m Hm)), (map_norm_digits _ (field_digits zd d Hd)),
    (norm_sep_sep _ H1). reflexivity.
Qed.

Lemma spell_md_length m d zm zd s1 : (length (spell_md_sep m d zm zd s1) <= 5)%nat.
Proof.
  unfold spell_md_sep. rewrite !app_length. cbn [length].
  pose proof (field_length zm m). pose proof (field_length zd d). lia.
Qed.

Lemma parse_md_spelled cy cm cd m d zm zd s1 :
  valid_ymd cy m d -> 1400 <= cy <= 9999 -> m <= cm -> is_sep s1 ->
  parse_date [] (cy, cm, cd) (spell_md_sep m d zm zd s1) = DOk (boost_day_number cy m d).
Proof.
  intros V Hy Hm H1. pose proof (days_in_month_range cy m) as Hr. destruct V as [Vm Vd].
  unfold parse_date, readers_for, conv_for, src_input_format_pushes_front, src_convert_separators_default.
  cbn [rev map app]. rewrite default_readers_eq. cbn [parse_mask].
  unfold parse_routine at 1; unfold src_tm_year_base, src_tm_mday_preset.
  assert (L : (src_max_date_len <? Z.of_nat (length (spell_md_sep m d zm zd s1))) = false).
  { apply Z.ltb_ge. pose proof (spell_md_length m d zm zd s1). unfold src_max_date_len. lia. }
  rewrite L. rewrite norm_spell_md by (assumption || lia).
  replace (r_items R_md) with I_md by reflexivity.
  rewrite strptime_md_spell by lia. cbn [tm_year tm_mon tm_mday fst].
  replace (cy - 1900 + 1900) with cy by ring. replace (m - 1 + 1) with m by ring.
  rewrite mk_date_ok by (try split; lia). rewrite format_dn_md by (split; lia).
  unfold spell_md. change (field true m) with (digits2 m). change (field true d) with (digits2 d).
  rewrite cmp_field by lia. rewrite (cmp_same_prefix [47]).
  rewrite <- (app_nil_r (digits2 d)), <- (app_nil_r (field zd d)). rewrite cmp_field by lia.
  cbn [cmp_skip0 negb]. replace (has_year (r_raw R_md)) with false by reflexivity.
  rewrite infer_same_year by (try split; lia). reflexivity.
Qed.


(* MM/DD read forward, whatever the current month *)
Lemma parse_md_spelled_any cy cm cd m d zm zd s1 :
  valid_ymd cy m d -> 1400 <= cy <= 9999 -> is_sep s1 ->
  parse_date [] (cy, cm, cd) (spell_md_sep m d zm zd s1) =
  if cm <? m then mk_date (cy - 1) m d else DOk (boost_day_number cy m d).
Proof.
  intros V Hy H1. pose proof (days_in_month_range cy m) as Hr. destruct V as [Vm Vd].
  unfold parse_date, readers_for, conv_for, src_input_format_pushes_front, src_convert_separators_default.
  cbn [rev map app]. rewrite default_readers_eq. cbn [parse_mask].
  unfold parse_routine at 1; unfold src_tm_year_base, src_tm_mday_preset.
  assert (L : (src_max_date_len <? Z.of_nat (length (spell_md_sep m d zm zd s1))) = false).
  { apply Z.ltb_ge. pose proof (spell_md_length m d zm zd s1). unfold src_max_date_len. lia. }
  rewrite L. rewrite norm_spell_md by (assumption || lia).
  replace (r_items R_md) with I_md by reflexivity.
  rewrite strptime_md_spell by lia. cbn [tm_year tm_mon tm_mday fst].
  replace (cy - 1900 + 1900) with cy by ring. replace (m - 1 + 1) with m by ring.
  rewrite mk_date_ok by (try split; lia). rewrite format_dn_md by (split; lia).
  unfold spell_md. change (field true m) with (digits2 m). change (field true d) with (digits2 d).
  rewrite cmp_field by lia. rewrite (cmp_same_prefix [47]).
  rewrite <- (app_nil_r (digits2 d)), <- (app_nil_r (field zd d)). rewrite cmp_field by lia.
  cbn [cmp_skip0 negb]. replace (has_year (r_raw R_md)) with false by reflexivity.
  rewrite infer_year_spec by (try split; lia).
  destruct (cm <? m); [|reflexivity]. destruct (mk_date (cy - 1) m d); reflexivity.
Qed.

(* a year-less MM/DD that is accepted denotes exactly that month and day, in the current or the
   previous year *)
Lemma md_exact_day cy cm cd m d zm zd s1 dn :
  valid_ymd cy m d -> 1400 <= cy <= 9999 -> is_sep s1 ->
  parse_date [] (cy, cm, cd) (spell_md_sep m d zm zd s1) = DOk dn ->
  exists y, boost_from_day_number dn = (y, m, d) /\ valid_ymd y m d /\
            ((y = cy /\ m <= cm) \/ (y = cy - 1 /\ cm < m)).
Proof.
  intros V Hy H1. rewrite parse_md_spelled_any by assumption.
  destruct (Z.ltb_spec cm m) as [Lt|Ge].
  - intros H. apply mk_date_inv in H as [V' [_ ->]]. exists (cy - 1).
    rewrite boost_roundtrip by exact V'. split; [reflexivity|]. split; [exact V' | right; split; [reflexivity | exact Lt]].
  - intros H. injection H as <-. exists cy. rewrite boost_roundtrip by exact V.
    split; [reflexivity|]. split; [exact V | left; split; [reflexivity | exact Ge]].
Qed.

(* ------------------------------------------------------------------ F: a user-supplied --input-date-format over
   %Y %m %d %% and literal characters reads back what the same format prints *)
Definition in_item_ok (i : item) : Prop :=
  match i with
  | ILit c => is_space c = false
  | IDir c => c = 89 \/ c = 109 \/ c = 100 \/ c = 37
  | IBad => False
  end.

Definition is_dir (c : Z) (i : item) : bool := match i with IDir x => x =? c | _ => false end.
Definition has_dir (c : Z) (f : list item) : bool := existsb (is_dir c) f.

Definition set_fields (f : list item) (t : tm) (y m d : Z) : tm :=
  mkTm (if has_dir 89 f then y - 1900 else tm_year t)
       (if has_dir 109 f then m - 1 else tm_mon t)
       (if has_dir 100 f then d else tm_mday t).

Lemma set_fields_skip i f t y m d :
  is_dir 89 i = false -> is_dir 109 i = false -> is_dir 100 i = false ->
  set_fields (i :: f) t y m d = set_fields f t y m d.
Proof. intros A B C. unfold set_fields, has_dir. cbn [existsb]. rewrite A, B, C. reflexivity. Qed.

Lemma strptime_strftime f : forall y m d w r t,
  Forall in_item_ok f -> 0 <= y <= 9999 -> 1 <= m <= 12 -> 1 <= d <= 31 ->
  strftime f y m d = Some w -> strptime f (w ++ r) t = POk (set_fields f t y m d) r.
Proof.
  induction f as [|i f IH]; intros y m d w r t Hok Hy Hm Hd S.
  - cbn in S. injection S as <-. destruct t. reflexivity.
  - apply Forall_cons_iff in Hok as [Hi Hok]. destruct i as [c|c|]; cbn [in_item_ok] in Hi; [| |contradiction].
    + cbn [strftime] in S. destruct (strftime f y m d) as [w'|] eqn:S'; [|discriminate]. injection S as <-.
      cbn [strptime app]. rewrite Hi. cbn [match_char]. rewrite Z.eqb_refl.
      rewrite (IH y m d w' r t Hok Hy Hm Hd S'). rewrite set_fields_skip by reflexivity. reflexivity.
    + cbn [strftime] in S. destruct (fmt_dir c y m d) as [a|] eqn:A; [|discriminate].
      destruct (strftime f y m d) as [w'|] eqn:S'; [|discriminate]. injection S as <-.
      rewrite <- app_assoc.
      destruct Hi as [ -> | [ -> | [ -> | -> ] ] ]; cbn [fmt_dir Z.eqb Pos.eqb] in A; injection A as <-;
        cbn [strptime Z.eqb Pos.eqb orb].
      * rewrite get_number_digits4 by lia. rewrite (IH y m d w' r _ Hok Hy Hm Hd S').
        unfold set_fields, has_dir. cbn [existsb is_dir Z.eqb Pos.eqb orb tm_year tm_mon tm_mday].
        destruct (existsb (is_dir 89) f); reflexivity.
      * rewrite get_number_digits2 by lia. rewrite (IH y m d w' r _ Hok Hy Hm Hd S').
        unfold set_fields, has_dir. cbn [existsb is_dir Z.eqb Pos.eqb orb tm_year tm_mon tm_mday].
        destruct (existsb (is_dir 109) f); reflexivity.
      * rewrite get_number_digits2 by lia. rewrite (IH y m d w' r _ Hok Hy Hm Hd S').
        unfold set_fields, has_dir. cbn [existsb is_dir Z.eqb Pos.eqb orb tm_year tm_mon tm_mday].
        destruct (existsb (is_dir 100) f); reflexivity.
      * cbn [app match_char Z.eqb Pos.eqb].
        rewrite (IH y m d w' r t Hok Hy Hm Hd S'). rewrite set_fields_skip by reflexivity. reflexivity.
Qed.

(* has_year looks at the raw text; a %Y directive found by the lexer is such a substring *)
Lemma has_pct_cons a b c s : has_pct a b s = true -> has_pct a b (c :: s) = true.
Proof.
  destruct s as [|d s]; [discriminate|]. intros H. cbn [has_pct] in *. rewrite H. apply orb_true_r.
Qed.

Lemma lex_has_year_aux n : forall s, (length s <= n)%nat ->
  has_dir 89 (lex_fmt s) = true -> has_pct 121 89 s = true.
Proof.
  induction n as [|n IH]; intros s L H.
  - destruct s; [discriminate | cbn in L; lia].
  - destruct s as [|c s]; [discriminate|]. cbn [lex_fmt] in H.
    destruct (Z.eqb_spec c 37) as [->|N].
    + destruct s as [|d s]; [discriminate|]. unfold has_dir in H. cbn [existsb is_dir] in H.
      cbn [has_pct]. cbn [Z.eqb Pos.eqb andb].
      destruct (Z.eqb_spec d 89) as [->|N2]; [rewrite orb_true_r; reflexivity|].
      cbn [orb] in H. destruct (d =? 121); cbn [orb]; [reflexivity|].
      apply has_pct_cons. apply IH; [cbn in L; lia | exact H].
    + unfold has_dir in H. cbn [existsb is_dir orb] in H. apply has_pct_cons. apply IH; [cbn in L; lia | exact H].
Qed.

Lemma lex_has_year s : has_dir 89 (lex_fmt s) = true -> has_year s = true.
Proof.
  intros H. unfold has_year. rewrite (lex_has_year_aux (length s) s (le_n _) H). reflexivity.
Qed.

Lemma parse_custom_roundtrip raw cur y m d w :
  Forall in_item_ok (lex_fmt raw) ->
  has_dir 89 (lex_fmt raw) = true -> has_dir 109 (lex_fmt raw) = true -> has_dir 100 (lex_fmt raw) = true ->
  valid_ymd y m d -> 1400 <= y <= 9999 ->
  format_date raw (boost_day_number y m d) = Some w ->
  parse_date [raw] cur w = DOk (boost_day_number y m d).
Proof.
  intros Hok HY Hm Hd V Hy F. pose proof (days_in_month_range y m) as Hr.
  unfold parse_date, readers_for, conv_for, src_input_format_pushes_front, src_input_format_disables_conversion.
  cbn [rev map app parse_mask]. unfold parse_routine, src_tm_year_base, src_tm_mday_preset.
  unfold format_date, format_dn in F. rewrite boost_roundtrip in F by exact V.
  destruct (strftime (lex_fmt raw) y m d) as [w0|] eqn:S; [|discriminate].
  destruct (Z.ltb_spec 126 (Z.of_nat (length w0))) as [L|L]; [discriminate|]. injection F as <-.
  assert (L2 : (src_max_date_len <? Z.of_nat (length w0)) = false)
    by (apply Z.ltb_ge; unfold src_max_date_len; lia).
  rewrite L2. cbn [mk_reader r_items r_raw].
  rewrite <- (app_nil_r w0) at 1.
  destruct V as [Vm Vd].
  rewrite (strptime_strftime _ y m d w0 [] _ Hok ltac:(lia) ltac:(lia) ltac:(lia) S).
  unfold set_fields. rewrite HY, Hm, Hd. cbn [tm_year tm_mon tm_mday].
  replace (y - 1900 + 1900) with y by ring. replace (m - 1 + 1) with m by ring.
  rewrite mk_date_ok by (try split; lia).
  unfold format_dn. rewrite boost_roundtrip by (split; lia). rewrite S.
  destruct (Z.ltb_spec 126 (Z.of_nat (length w0))); [lia|].
  rewrite cmp_refl. cbn [negb]. rewrite (lex_has_year raw HY). reflexivity.
Qed.

(* ------------------------------------------------------------------ year directives *)
Lemma year_directive_cur st yr : es_cur (year_directive st yr) = (yr, 12, 31).
Proof. reflexivity. Qed.

Lemma end_apply_year_directive st yr : end_apply (year_directive st yr) = Some st.
Proof. destruct st. reflexivity. Qed.

(* under a year directive MM/DD is that day of the named year, whatever the clock showed before *)
Lemma parse_md_after_year_directive st yr m d zm zd s1 :
  valid_ymd yr m d -> 1400 <= yr <= 9999 -> is_sep s1 ->
  parse_date [] (es_cur (year_directive st yr)) (spell_md_sep m d zm zd s1) = DOk (boost_day_number yr m d).
Proof.
  intros V Hy H1. rewrite year_directive_cur. apply parse_md_spelled; try assumption. destruct V; lia.
Qed.

(* ------------------------------------------------------------------ included files *)
Definition only_queries (evs : list jevent) : Prop := Forall (fun e => e = JQuery) evs.

Lemma final_app st a b : final_state st (a ++ b) = final_state (final_state st a) b.
Proof. apply fold_left_app. Qed.

Lemma final_queries st evs : only_queries evs -> final_state st evs = st.
Proof.
  intros H. revert st. induction H as [|e evs -> _ IH]; intros st; [reflexivity|]. cbn. apply IH.
Qed.

Lemma file_end_begin st : file_end (file_begin st) = st.
Proof. destruct st. reflexivity. Qed.

(* a file without year directives leaves the clock and the includer's stack alone *)
Lemma include_plain_file st evs :
  only_queries evs -> final_state st (JFileBegin :: evs ++ [JFileEnd]) = st.
Proof.
  intros H. cbn [final_state fold_left step]. fold (final_state (file_begin st) (evs ++ [JFileEnd])).
  rewrite final_app, (final_queries _ _ H). cbn. apply file_end_begin.
Qed.

(* the oldest clock saved on the stack of the file being read (the current one if none) *)
Definition bottom (st : epoch_state) : ymd := last (es_stack st) (es_cur st).

(* what one file may contain: directives, `end apply`, transactions, and whole included files *)
Inductive file_body : list jevent -> Prop :=
| fb_nil : file_body []
| fb_year yr evs : file_body evs -> file_body (JYear yr :: evs)
| fb_end evs : file_body evs -> file_body (JEnd :: evs)
| fb_query evs : file_body evs -> file_body (JQuery :: evs)
| fb_include inc evs : file_body inc -> file_body evs -> file_body (JFileBegin :: inc ++ JFileEnd :: evs).

Lemma last_cons_ne (a : ymd) l d d' : l <> [] -> last (a :: l) d = last l d'.
Proof.
  intros N. revert a. induction l as [|b l IH]; intros a; [congruence|].
  destruct l as [|c l]; [reflexivity|]. change (last (a :: b :: c :: l) d) with (last (b :: c :: l) d).
  change (last (b :: c :: l) d') with (last (c :: l) d'). rewrite <- (IH ltac:(discriminate) b). reflexivity.
Qed.

Lemma year_directive_bottom st yr : bottom (year_directive st yr) = bottom st /\ es_outer (year_directive st yr) = es_outer st.
Proof.
  split; [|reflexivity]. unfold bottom, year_directive. cbn [es_stack es_cur].
  destruct (es_stack st) as [|a l] eqn:E; [reflexivity|].
  apply last_cons_ne. discriminate.
Qed.

Lemma end_step_bottom st : bottom (step st JEnd) = bottom st /\ es_outer (step st JEnd) = es_outer st.
Proof.
  unfold step, end_apply, bottom. destruct (es_stack st) as [|a l] eqn:E; cbn [es_stack es_cur es_outer].
  - rewrite E. split; reflexivity.
  - split; [|reflexivity]. destruct l as [|b l]; [reflexivity|]. symmetry. apply last_cons_ne. discriminate.
Qed.

(* a file body keeps the oldest saved clock and the includers' stacks, and - wrapped as an
   included file - gives back exactly the state it found *)
Lemma file_body_spec evs : file_body evs ->
  (forall st, bottom (final_state st evs) = bottom st /\ es_outer (final_state st evs) = es_outer st) /\
  (forall st, final_state st (JFileBegin :: evs ++ [JFileEnd]) = st).
Proof.
  intros B.
  assert (Wrap : forall evs, (forall st, bottom (final_state st evs) = bottom st /\ es_outer (final_state st evs) = es_outer st) ->
                 forall st, final_state st (JFileBegin :: evs ++ [JFileEnd]) = st).
  { intros e Inv st. cbn [final_state fold_left step]. fold (final_state (file_begin st) (e ++ [JFileEnd])).
    rewrite final_app. destruct (Inv (file_begin st)) as [I1 I2]. cbn [final_state fold_left step].
    unfold file_end. rewrite I2. cbn [file_begin es_outer].
    change (last (es_stack (final_state (file_begin st) e)) (es_cur (final_state (file_begin st) e)))
      with (bottom (final_state (file_begin st) e)).
    rewrite I1. destruct st. reflexivity. }
  induction B as [|yr evs B IH|evs B IH|evs B IH|inc evs Bi IHi B IH].
  - split; [intros st; split; reflexivity | apply Wrap; intros st; split; reflexivity].
  - destruct IH as [Inv _].
    assert (Inv' : forall st, bottom (final_state st (JYear yr :: evs)) = bottom st /\ es_outer (final_state st (JYear yr :: evs)) = es_outer st).
    { intros st. cbn [final_state fold_left step]. fold (final_state (year_directive st yr) evs).
      destruct (Inv (year_directive st yr)) as [A1 A2]. destruct (year_directive_bottom st yr) as [C1 C2].
      split; congruence. }
    split; [exact Inv' | apply Wrap; exact Inv'].
  - destruct IH as [Inv _].
    assert (Inv' : forall st, bottom (final_state st (JEnd :: evs)) = bottom st /\ es_outer (final_state st (JEnd :: evs)) = es_outer st).
    { intros st. change (final_state st (JEnd :: evs)) with (final_state (step st JEnd) evs).
      destruct (Inv (step st JEnd)) as [A1 A2]. destruct (end_step_bottom st) as [C1 C2]. split; congruence. }
    split; [exact Inv' | apply Wrap; exact Inv'].
  - destruct IH as [Inv _].
    assert (Inv' : forall st, bottom (final_state st (JQuery :: evs)) = bottom st /\ es_outer (final_state st (JQuery :: evs)) = es_outer st).
    { intros st. exact (Inv st). }
    split; [exact Inv' | apply Wrap; exact Inv'].
  - destruct IHi as [_ Wi]. destruct IH as [Inv _].
    assert (Inv' : forall st, bottom (final_state st (JFileBegin :: inc ++ JFileEnd :: evs)) = bottom st /\
                              es_outer (final_state st (JFileBegin :: inc ++ JFileEnd :: evs)) = es_outer st).
    { intros st. change (JFileBegin :: inc ++ JFileEnd :: evs) with ((JFileBegin :: inc ++ [JFileEnd] ++ evs)).
      rewrite app_assoc. change (JFileBegin :: (inc ++ [JFileEnd]) ++ evs) with ((JFileBegin :: inc ++ [JFileEnd]) ++ evs).
      rewrite final_app, Wi. apply Inv. }
    split; [exact Inv' | apply Wrap; exact Inv'].
Qed.

Lemma include_exact evs st : file_body evs -> final_state st (JFileBegin :: evs ++ [JFileEnd]) = st.
Proof. intros B. apply (proj2 (file_body_spec evs B)). Qed.

Lemma file_body_queries evs : only_queries evs -> file_body evs.
Proof. induction 1 as [|e evs -> _ IH]; [constructor | constructor; exact IH]. Qed.
