(* Where a posting's account name ends: every permitted way of writing the gap - a tab, two or more spaces, any
   mixture of blanks holding a tab - yields the same account and the same amount text. *)
From LedgerV Require Import Base.Prelude Model.PostLine.
Local Open Scope Z_scope.

(* an account name as written: no control white space; a space only between two non-blank bytes *)
Fixpoint name_ok (a : str) : bool :=
  match a with
  | [] => true
  | c :: t =>
      negb (Z.leb 9 c && Z.leb c 13) &&
      (if Z.eqb c SP then match t with c2 :: _ => negb (is_blank c2) | [] => false end else true) &&
      name_ok t
  end.

(* a gap between account and amount: blanks only, and a tab among them or at least two of them *)
Definition sep_ok (sep : str) : bool :=
  forallb is_blank sep && (existsb (Z.eqb TAB) sep || Nat.leb 2 (length sep)).

Lemma skip_ws_blanks b rest : forallb is_blank b = true -> skip_ws (b ++ rest) = skip_ws rest.
Proof.
  induction b as [|c b IH]; cbn [forallb app skip_ws]; intros H; [reflexivity|].
  apply andb_true_iff in H as [Hc Hb]. unfold is_ws. rewrite Hc. cbn [orb]. apply IH, Hb.
Qed.

Lemma blank_cases c : is_blank c = true -> c = SP \/ c = TAB.
Proof.
  unfold is_blank. intros H. apply orb_true_iff in H as [H|H]; apply Z.eqb_eq in H; auto.
Qed.

Lemma next_element_gap sep rest :
  sep_ok sep = true -> skip_ws rest = rest ->
  exists b, forallb is_blank b = true /\ next_element true (sep ++ rest) = Some (b, rest).
Proof.
  unfold sep_ok. intros H Hr. apply andb_true_iff in H as [Hb Hs].
  destruct sep as [|c sep]; [cbn in Hs; discriminate|].
  cbn [forallb] in Hb. apply andb_true_iff in Hb as [Hc Hb].
  destruct (blank_cases c Hc) as [-> | ->].
  - (* a space first: then another space, or a tab *)
    destruct sep as [|c2 sep]; [cbn in Hs; discriminate|].
    cbn [forallb] in Hb. apply andb_true_iff in Hb as [Hc2 Hb].
    destruct (blank_cases c2 Hc2) as [-> | ->].
    + exists []. split; [reflexivity|]. cbn [app next_element]. cbn.
      rewrite skip_ws_blanks by exact Hb. now rewrite Hr.
    + exists [SP]. split; [reflexivity|]. cbn [app next_element]. cbn.
      rewrite skip_ws_blanks by exact Hb. now rewrite Hr.
  - exists []. split; [reflexivity|]. cbn [app next_element]. cbn.
    rewrite skip_ws_blanks by exact Hb. now rewrite Hr.
Qed.

Lemma next_element_cons v c t :
  next_element v (c :: t) =
  if negb (is_blank c) then push c (next_element v t)
  else if negb v then Some ([], skip_ws t)
  else if Z.eqb c TAB then Some ([], skip_ws t)
  else match t with
       | c2 :: t2 => if Z.eqb c2 SP then Some ([], skip_ws t2) else push c (next_element v t)
       | [] => None
       end.
Proof. reflexivity. Qed.

Lemma next_element_name a s :
  name_ok a = true ->
  next_element true (a ++ s) =
  match next_element true s with Some (h, t) => Some (a ++ h, t) | None => None end.
Proof.
  induction a as [|c a IH]; intros H.
  - cbn [app]. destruct (next_element true s) as [[h t]|]; reflexivity.
  - cbn [name_ok] in H. apply andb_true_iff in H as [H Ha]. apply andb_true_iff in H as [Hctl Hsp].
    specialize (IH Ha).
    destruct (Z.eqb c SP) eqn:Ec.
    + apply Z.eqb_eq in Ec. subst c.
      destruct a as [|c2 a]; [discriminate|].
      apply negb_true_iff in Hsp.
      assert (Hc2 : Z.eqb c2 SP = false).
      { unfold is_blank in Hsp. apply orb_false_iff in Hsp. tauto. }
      change ((SP :: c2 :: a) ++ s) with (SP :: c2 :: (a ++ s)).
      rewrite (next_element_cons true SP). change (is_blank SP) with true. cbn [negb].
      change (Z.eqb SP TAB) with false. cbn iota. rewrite Hc2.
      change (c2 :: a ++ s) with ((c2 :: a) ++ s). rewrite IH.
      destruct (next_element true s) as [[h t]|]; reflexivity.
    + assert (Hb : is_blank c = false).
      { unfold is_blank. rewrite Ec. cbn [orb]. apply Z.eqb_neq. intros ->. discriminate. }
      change ((c :: a) ++ s) with (c :: (a ++ s)). rewrite next_element_cons. rewrite Hb. cbn [negb].
      rewrite IH. destruct (next_element true s) as [[h t]|]; reflexivity.
Qed.

Lemma blank_is_space c : is_blank c = true -> is_space c = true.
Proof. intros H. destruct (blank_cases c H) as [-> | ->]; reflexivity. Qed.

Lemma drop_all_space b : forallb is_space b = true -> drop_trailing_space b = [].
Proof.
  induction b as [|c b IH]; cbn [forallb drop_trailing_space]; intros H; [reflexivity|].
  apply andb_true_iff in H as [Hc Hb]. rewrite (IH Hb), Hc. reflexivity.
Qed.

Lemma drop_app_space a b : forallb is_space b = true -> drop_trailing_space (a ++ b) = drop_trailing_space a.
Proof.
  intros Hb. induction a as [|c a IH]; cbn [app drop_trailing_space].
  - apply drop_all_space, Hb.
  - rewrite IH. reflexivity.
Qed.

Lemma drop_name a : name_ok a = true -> drop_trailing_space a = a.
Proof.
  induction a as [|c a IH]; intros H; [reflexivity|].
  cbn [name_ok] in H. apply andb_true_iff in H as [H Ha]. apply andb_true_iff in H as [Hctl Hsp].
  cbn [drop_trailing_space]. rewrite (IH Ha).
  destruct a as [|c2 a]; [|reflexivity].
  assert (Hs : is_space c = false).
  { unfold is_space. destruct (Z.eqb c SP); [discriminate|]. cbn [orb]. apply negb_true_iff, Hctl. }
  rewrite Hs. reflexivity.
Qed.

Lemma forallb_blank_space b : forallb is_blank b = true -> forallb is_space b = true.
Proof.
  induction b as [|c b IH]; cbn [forallb]; intros H; [reflexivity|].
  apply andb_true_iff in H as [Hc Hb]. rewrite (blank_is_space c Hc), (IH Hb). reflexivity.
Qed.

(* the account is the written name and the amount text is what follows the gap, whatever the gap *)
Theorem split_post_line_gap a sep rest :
  name_ok a = true -> sep_ok sep = true -> skip_ws rest = rest ->
  split_post_line (a ++ sep ++ rest) = (classify_name a, Some rest).
Proof.
  intros Ha Hs Hr. unfold split_post_line.
  destruct (next_element_gap sep rest Hs Hr) as [b [Hb E]].
  rewrite (next_element_name a (sep ++ rest) Ha), E.
  rewrite (drop_app_space a b (forallb_blank_space b Hb)), (drop_name a Ha). reflexivity.
Qed.

Corollary split_post_line_gap_independent a sep1 sep2 rest :
  name_ok a = true -> sep_ok sep1 = true -> sep_ok sep2 = true -> skip_ws rest = rest ->
  split_post_line (a ++ sep1 ++ rest) = split_post_line (a ++ sep2 ++ rest).
Proof. intros. rewrite !split_post_line_gap by assumption. reflexivity. Qed.

(* a posting written with nothing after the name has no amount text, and the name is read the same *)
Lemma next_element_none a : name_ok a = true -> next_element true a = None.
Proof.
  intros Ha. rewrite <- (app_nil_r a) at 1. rewrite (next_element_name a [] Ha). reflexivity.
Qed.

Theorem split_post_line_bare a : name_ok a = true -> split_post_line a = (classify_name a, None).
Proof.
  intros Ha. unfold split_post_line. rewrite (next_element_none a Ha), (drop_name a Ha). reflexivity.
Qed.

(* the three bracketed forms and the plain one *)
Lemma last_app_single (x : str) c d : last (x ++ [c]) d = c.
Proof. apply last_last. Qed.

Lemma classify_parens inner : classify_name (40 :: inner ++ [41]) = (KVirtual, inner).
Proof.
  unfold classify_name, last_byte. change (40 :: inner ++ [41]) with ((40 :: inner) ++ [41]).
  rewrite last_app_single. cbn [app]. rewrite removelast_last. reflexivity.
Qed.

Lemma classify_brackets inner : classify_name (91 :: inner ++ [93]) = (KBalVirtual, inner).
Proof.
  unfold classify_name, last_byte. change (91 :: inner ++ [93]) with ((91 :: inner) ++ [93]).
  rewrite last_app_single. cbn [app]. rewrite removelast_last. reflexivity.
Qed.

Lemma classify_plain c a :
  c <> 91 -> c <> 40 -> c <> 60 -> classify_name (c :: a) = (KReal, c :: a).
Proof.
  intros H1 H2 H3. unfold classify_name.
  apply Z.eqb_neq in H1, H2, H3. rewrite H1, H2, H3. reflexivity.
Qed.

(* non-vacuity: "Expenses:Dining Out" <space><tab> "$5" and the same with two spaces *)
Example gap_forms_agree :
  let a := [69;120;112;58;68;32;79] in
  name_ok a = true /\ sep_ok [SP; TAB] = true /\ sep_ok [TAB] = true /\ sep_ok [SP; SP; SP] = true /\
  sep_ok [SP] = false /\
  split_post_line (a ++ [SP; TAB] ++ [36; 53]) = ((KReal, a), Some [36; 53]) /\
  split_post_line (a ++ [TAB] ++ [36; 53]) = ((KReal, a), Some [36; 53]) /\
  split_post_line (a ++ [SP] ++ [36; 53]) = ((KReal, a ++ [SP; 36; 53]), None).
Proof. vm_compute. repeat split; reflexivity. Qed.

(* what follows the gap decides whether the posting carries an amount: a note (;) or an assertion / assignment (=) does
   not, anything else does *)
Theorem amount_follows_the_gap a sep c t :
  name_ok a = true -> sep_ok sep = true -> is_ws c = false ->
  has_amount_text (snd (split_post_line (a ++ sep ++ c :: t))) = negb (Z.eqb c 59) && negb (Z.eqb c 61).
Proof.
  intros Ha Hs Hc. rewrite (split_post_line_gap a sep (c :: t) Ha Hs).
  - reflexivity.
  - cbn [skip_ws]. rewrite Hc. reflexivity.
Qed.

Corollary bare_posting_has_no_amount a : name_ok a = true -> has_amount_text (snd (split_post_line a)) = false.
Proof. intros Ha. rewrite (split_post_line_bare a Ha). reflexivity. Qed.

(* ---- the state flag before the account ---- *)
Definition is_marker (c : Z) : bool := Z.eqb c STAR || Z.eqb c BANG.
Definition state_of_marker (c : Z) : pstate := if Z.eqb c STAR then SCleared else SPending.

Lemma skip_ws_ws b rest : forallb is_ws b = true -> skip_ws (b ++ rest) = skip_ws rest.
Proof.
  induction b as [|c b IH]; intros H; [reflexivity|].
  cbn in H. apply andb_true_iff in H. destruct H as [Hc Hb]. cbn [app skip_ws]. rewrite Hc. apply IH. exact Hb.
Qed.

Lemma marker_not_ws m : is_marker m = true -> is_ws m = false.
Proof.
  unfold is_marker, STAR, BANG. intros H. apply orb_true_iff in H.
  destruct H as [H|H]; apply Z.eqb_eq in H; subst m; reflexivity.
Qed.

(* a flag, any white space after it (none included), then the posting: the flag is read and the posting is read as if
   the flag were not there *)
Theorem read_post_line_marked m ws line :
  is_marker m = true -> forallb is_ws ws = true -> skip_ws line = line ->
  read_post_line (m :: ws ++ line) = (state_of_marker m, split_post_line line).
Proof.
  intros Hm Hws Hl. unfold read_post_line, strip_state. cbn [skip_ws]. rewrite (marker_not_ws m Hm).
  unfold state_of_marker. unfold is_marker in Hm.
  destruct (Z.eqb m STAR) eqn:E1.
  - rewrite (skip_ws_ws ws line Hws), Hl. reflexivity.
  - cbn [orb] in Hm. rewrite Hm. rewrite (skip_ws_ws ws line Hws), Hl. reflexivity.
Qed.

(* no flag: the line is read as before (leading white space skipped) *)
Theorem read_post_line_unmarked ind c t :
  forallb is_ws ind = true -> is_ws c = false -> is_marker c = false ->
  read_post_line (ind ++ c :: t) = (SUncleared, split_post_line (c :: t)).
Proof.
  intros Hi Hc Hm. unfold read_post_line, strip_state. rewrite (skip_ws_ws ind (c :: t) Hi). cbn [skip_ws]. rewrite Hc.
  unfold is_marker in Hm. apply orb_false_iff in Hm. destruct Hm as [-> ->]. reflexivity.
Qed.

(* so the flag decides nothing of what the balance is made of: account, kind and amount text are those of the bare line *)
Theorem state_flag_changes_nothing_read m ws line :
  is_marker m = true -> forallb is_ws ws = true -> skip_ws line = line ->
  (forall c t, line = c :: t -> is_marker c = false) ->
  snd (read_post_line (m :: ws ++ line)) = snd (read_post_line line).
Proof.
  intros Hm Hws Hl Hn. rewrite (read_post_line_marked m ws line Hm Hws Hl). cbn [snd].
  destruct line as [|c t].
  - reflexivity.
  - assert (Hc : is_ws c = false).
    { cbn [skip_ws] in Hl. destruct (is_ws c) eqn:E; [|reflexivity]. exfalso.
      assert (Hlen : forall s, (length (skip_ws s) <= length s)%nat).
      { induction s as [|x s IH]; [cbn; lia|]. cbn [skip_ws]. destruct (is_ws x); cbn [length]; lia. }
      pose proof (Hlen t) as H1. rewrite Hl in H1. cbn [length] in H1. lia. }
    pose proof (read_post_line_unmarked [] c t eq_refl Hc (Hn c t eq_refl)) as H0. cbn [app] in H0. rewrite H0. reflexivity.
Qed.

Example ex_state_flags :
  let a := [65; 58; 66]%Z in
  read_post_line ([STAR; SP] ++ a ++ [SP; SP; 36; 53]) = (SCleared, ((KReal, a), Some [36; 53]%Z)) /\
  read_post_line ([BANG] ++ [40] ++ a ++ [41; TAB; 36; 53]) = (SPending, ((KVirtual, a), Some [36; 53]%Z)) /\
  read_post_line ([STAR; SP; BANG; SP] ++ a ++ [SP; SP; 36; 53]) = (SCleared, ((KReal, [BANG; SP] ++ a), Some [36; 53]%Z)) /\
  read_post_line (a ++ [SP; SP; 36; 53]) = (SUncleared, ((KReal, a), Some [36; 53]%Z)).
Proof. vm_compute. repeat split. Qed.
