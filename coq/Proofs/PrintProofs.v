(* Proofs about Model/Print.v.  Used by Properties_C06.v. *)
From LedgerV Require Import Base.Prelude Base.Round Model.Amount Model.AmountText Model.Xact Model.Print
  Proofs.AmountProofs Proofs.RoundProofs Proofs.XactProofs Model.Assert.
From Coq Require Import Qabs Lqa Setoid Permutation.
Local Opaque Qred.

(* ================================================================== amounts survive printing *)
Section ReadBack.
Local Open Scope Z_scope.

Lemma trim_scaled_spec f : forall N p zp N' p',
  trim_scaled f N p zp = (N', p') ->
  N = N' * 10 ^ (p - p') /\ p' <= p /\ (zp <= p -> zp <= p').
Proof.
  induction f as [|f IH]; intros N p zp N' p'; cbn [trim_scaled].
  - intros [= <- <-]. rewrite Z.sub_diag. cbn. lia.
  - destruct ((zp <? p) && (N mod 10 =? 0)) eqn:E.
    + apply andb_true_iff in E as [E1 E2]. apply Z.ltb_lt in E1. apply Z.eqb_eq in E2.
      intros H. destruct (IH _ _ _ _ _ H) as [H1 [H2 H3]].
      assert (Hn : N = 10 * (N / 10)) by (pose proof (Z.div_mod N 10 ltac:(lia)); lia).
      split; [|lia].
      replace (p - p') with (Z.succ (p - 1 - p')) by lia.
      rewrite Z.pow_succ_r by lia. rewrite Hn at 1. rewrite H1. ring.
    + intros [= <- <-]. rewrite Z.sub_diag. cbn. lia.
Qed.

(* q * 10^p is an integer *)
Definition decimal_at (q : Q) (p : Z) : Prop := exists k, Qnum q * 10 ^ p = k * Zpos (Qden q).

Lemma decimal_at_mono q p p' : 0 <= p <= p' -> decimal_at q p -> decimal_at q p'.
Proof.
  intros Hp [k Hk]. exists (k * 10 ^ (p' - p)).
  replace p' with (p + (p' - p)) at 1 by lia. rewrite Z.pow_add_r by lia.
  rewrite Z.mul_assoc, Hk. ring.
Qed.

(* what makes the text of an amount exact: the display precision covers its decimals *)
Definition printable (cp : comm -> Z) (a : amount) : Prop :=
  0 <= zeros_prec cp a <= display_precision cp a /\ display_precision cp a <= 230 /\
  decimal_at (Qred (aq a)) (display_precision cp a).

Lemma print_scaled_exact n d p k :
  0 < d -> 0 <= p <= 230 -> n * 10 ^ p = k * d -> print_scaled n d p = k.
Proof.
  intros Hd Hp Hk. pose proof (print_half_ulp_230 n d p Hd Hp) as H. rewrite Hk in H.
  replace (print_scaled n d p * d - k * d) with ((print_scaled n d p - k) * d) in H by ring.
  rewrite Z.abs_mul, (Z.abs_eq d) in H by lia. nia.
Qed.

Theorem read_back_exact cp a :
  printable cp a -> (aq (read_back cp a) == aq a)%Q /\ acomm (read_back cp a) = acomm a /\ akeep (read_back cp a) = false.
Proof.
  intros [[Hz0 Hz] [H230 [k Hk]]]. unfold read_back.
  set (q := Qred (aq a)) in *. set (dp := display_precision cp a) in *. set (zp := zeros_prec cp a) in *.
  rewrite (print_scaled_exact (Qnum q) (Zpos (Qden q)) dp k) by (try lia; exact Hk).
  destruct (trim_scaled (Z.to_nat (dp - zp)) k dp zp) as [N' p'] eqn:E.
  destruct (trim_scaled_spec _ _ _ _ _ _ E) as [H1 [H2 H3]]. specialize (H3 Hz).
  cbn [aq acomm akeep]. split; [|split; reflexivity].
  rewrite Qred_correct. rewrite <- (Qred_correct (aq a)). fold q.
  assert (Hpp : 0 < 10 ^ p') by (apply Z.pow_pos_nonneg; lia).
  assert (Hpd : 0 < 10 ^ (dp - p')) by (apply Z.pow_pos_nonneg; lia).
  unfold Qeq. cbn [Qnum Qden]. rewrite Z2Pos.id by exact Hpp.
  destruct q as [n d]. cbn [Qnum Qden] in *.
  assert (H10 : 10 ^ dp = 10 ^ p' * 10 ^ (dp - p')).
  { rewrite <- Z.pow_add_r by lia. f_equal. lia. }
  rewrite H10, H1 in Hk.
  apply (Z.mul_reg_r _ _ (10 ^ (dp - p'))); [lia|]. lia.
Qed.

(* F8: an amount that displays as zero is written as a bare 0; when it IS zero the quantity
   survives, only the commodity is lost *)
Lemma read_back_value_zero cp a :
  is_zero cp a = true -> read_back_value cp a = mkAmt 0 0 false None.
Proof. intros H. unfold read_back_value. rewrite H. reflexivity. Qed.

Lemma read_back_value_exact cp a :
  printable cp a ->
  (aq (read_back_value cp a) == aq a)%Q \/ (is_zero cp a = true /\ ~ (aq a == 0)%Q).
Proof.
  intros Hp. unfold read_back_value. destruct (is_zero cp a) eqn:Hz.
  - destruct (is_realzero a) eqn:Hr.
    + left. apply is_realzero_spec in Hr. rewrite Hr. reflexivity.
    + right. split; [reflexivity|]. intros H. apply is_realzero_spec in H. congruence.
  - left. apply (read_back_exact cp a Hp).
Qed.

(* amounts written in the journal teach the pool their decimals: they are never shown rounded *)
Lemma read_back_value_written cp a :
  printable cp a ->
  match acomm a with Some c => akeep a = true \/ aprec a <= cp c | None => True end ->
  (aq (read_back_value cp a) == aq a)%Q.
Proof.
  intros Hp Hw. destruct (read_back_value_exact cp a Hp) as [H|[Hz Hn]]; [exact H|].
  exfalso. apply Hn. apply (is_zero_exact cp a Hw Hz).
Qed.

(* printing the re-read amount again shows the same number *)
Theorem read_back_stable cp a :
  printable cp a -> printable cp (read_back cp a) ->
  (aq (read_back cp (read_back cp a)) == aq (read_back cp a))%Q.
Proof. intros _ H. apply (read_back_exact cp _ H). Qed.

End ReadBack.

(* ================================================================== costs *)
Section Costs.
Local Open Scope Q_scope.

Lemma cost_per_unit_exact cp u a : aq (cost_per_unit cp u a) == aq u * aq a.
Proof. unfold cost_per_unit. cbn [aq]. rewrite amt_mul_exact. reflexivity. Qed.

Lemma cost_per_unit_comm cp u a : acomm (cost_per_unit cp u a) = acomm u.
Proof. reflexivity. Qed.

(* `A  amt @ u`: print shows |given_cost / amt|, which is u itself, and the reader recomputes
   the same total cost from it *)
Theorem per_unit_cost_roundtrip cp u a :
  ~ aq a == 0 -> 0 <= aq u -> acomm u <> None ->
  let g := cost_per_unit cp (with_keep u) a in
  exists q, amt_div cp g a = Ok q /\
    (printable cp (amt_abs q) ->
     let u' := read_back cp (amt_abs q) in
     aq u' == aq u /\ acomm u' = acomm u /\
     aq (cost_per_unit cp (with_keep u') a) == aq g /\
     acomm (cost_per_unit cp (with_keep u') a) = acomm g).
Proof.
  intros Ha Hu Hc g. destruct (amt_div_total cp g a Ha) as [q Hq]. exists q. split; [exact Hq|].
  intros Hp u'. destruct (amt_div_exact cp g a q Hq) as [_ He].
  assert (Hg : aq g == aq u * aq a) by (unfold g; rewrite cost_per_unit_exact; reflexivity).
  assert (Hqu : aq q == aq u) by (rewrite He, Hg; field; exact Ha).
  destruct (read_back_exact cp (amt_abs q) Hp) as [H1 [H2 _]].
  assert (Hu' : aq u' == aq u).
  { unfold u'. rewrite H1, amt_abs_exact, Hqu. apply Qabs_pos. exact Hu. }
  assert (Hcq : acomm q = acomm u).
  { assert (Hgc : acomm g = acomm u) by reflexivity.
    unfold amt_div in Hq. destruct (is_realzero a); [discriminate|]. injection Hq as <-.
    change (match acomm g with Some k => Some k | None => acomm a end = acomm u).
    rewrite Hgc. destruct (acomm u); [reflexivity | contradiction]. }
  assert (Hcu : acomm u' = acomm u).
  { unfold u'. rewrite H2. unfold amt_abs. destruct (Qnum (aq q) <? 0)%Z; cbn [amt_neg acomm]; exact Hcq. }
  split; [exact Hu'|]. split; [exact Hcu|]. split.
  - rewrite cost_per_unit_exact, Hg. cbn [with_keep aq]. rewrite Hu'. reflexivity.
  - change (acomm u' = acomm u). exact Hcu.
Qed.

(* `A  amt @@ t`: print shows |given_cost| = t, and the reader restores the sign from the amount *)
Theorem total_cost_roundtrip cp t a :
  0 <= aq t ->
  let g := cost_total (with_keep t) a in
  printable cp (amt_abs g) ->
  let t' := read_back cp (amt_abs g) in
  aq t' == aq t /\ acomm t' = acomm t /\
  aq (cost_total (with_keep t') a) == aq g /\ acomm (cost_total (with_keep t') a) = acomm g.
Proof.
  intros Ht g Hp t'. destruct (read_back_exact cp (amt_abs g) Hp) as [H1 [H2 _]].
  assert (Hg : Qabs (aq g) == aq t).
  { unfold g, cost_total. destruct (Qnum (aq a) <? 0)%Z.
    - rewrite amt_neg_exact. cbn [with_keep aq]. rewrite Qabs_opp. apply Qabs_pos. exact Ht.
    - cbn [with_keep aq]. apply Qabs_pos. exact Ht. }
  assert (Ht' : aq t' == aq t) by (unfold t'; rewrite H1, amt_abs_exact; exact Hg).
  assert (Hcg : acomm g = acomm t).
  { unfold g, cost_total. destruct (Qnum (aq a) <? 0)%Z; reflexivity. }
  assert (Hct : acomm t' = acomm t).
  { unfold t'. rewrite H2. unfold amt_abs. destruct (Qnum (aq g) <? 0)%Z; cbn [amt_neg acomm]; exact Hcg. }
  split; [exact Ht'|]. split; [exact Hct|]. split.
  - unfold g, cost_total. destruct (Qnum (aq a) <? 0)%Z.
    + rewrite !amt_neg_exact. cbn [with_keep aq]. rewrite Ht'. reflexivity.
    + cbn [with_keep aq]. exact Ht'.
  - rewrite Hcg. unfold cost_total. destruct (Qnum (aq a) <? 0)%Z; cbn [amt_neg with_keep acomm]; exact Hct.
Qed.

(* the quotient print computes for a per-unit cost exists whenever the amount is not exactly zero
   (print.cc tests is_realzero before dividing and writes the total cost otherwise) *)
Lemma per_unit_quotient_total cp g a : is_realzero a = false -> exists q, amt_div cp g a = Ok q.
Proof. intros H. unfold amt_div. rewrite H. eexists; reflexivity. Qed.

End Costs.

(* ================================================================== the two-posting elision *)
Section Elision.
Local Open Scope Q_scope.

Definition mkp (acct : str) (k : pkind) (amt : option amount) : post :=
  mkPost acct k amt None None false false false.

(* what the reader makes of `A  a1 / B` when both postings must balance: B receives -a1 *)
Theorem elided_second_is_negation ord cp acct1 k1 a1 acct2 k2 :
  k1 <> PVirtual -> k2 <> PVirtual ->
  finalize ord cp None [mkp acct1 k1 (Some a1); mkp acct2 k2 None]
  = Ok (Accepted [mkp acct1 k1 (Some a1);
                  mkPost acct2 k2 (Some (amt_neg (unkeep a1))) None None true false false]).
Proof. intros H1 H2. destruct k1, k2; try contradiction; reflexivity. Qed.

(* ... and when the second posting is (virtual) the text is rejected, whatever the first is:
   nothing fills a null amount that need not balance (finding F7) *)
Theorem elided_virtual_is_rejected ord cp acct1 a1 acct2 :
  finalize ord cp None [mkp acct1 PVirtual (Some a1); mkp acct2 PVirtual None] = Err ENullLeft.
Proof. reflexivity. Qed.

Lemma scan_pair ord acct1 k1 a1 acct2 k2 a2 s :
  k1 <> PVirtual -> k2 <> PVirtual -> acomm a1 = acomm a2 ->
  amt_add (unkeep a1) (unkeep a2) = Ok s ->
  scan_posts ord [mkp acct1 k1 (Some a1); mkp acct2 k2 (Some a2)] 0 VVoid None = Ok (VAmt s, None).
Proof.
  intros H1 H2 Hc Hs.
  assert (Hce : comm_eqb (acomm (unkeep a1)) (acomm (unkeep a2)) = true).
  { cbn [unkeep acomm]. rewrite Hc. apply comm_eqb_refl. }
  destruct k1, k2; try contradiction;
    cbn [scan_posts mkp must_balance p_kind negb balancing_amount p_cost p_amt add_or_set bind v_add];
    rewrite Hce, Hs; reflexivity.
Qed.

(* an accepted pair of plainly written amounts of one commodity balances exactly, so the
   amount print leaves out is the one the reader infers *)
Theorem elision_sound ord cp acct1 k1 a1 acct2 k2 a2 ps' :
  k1 <> PVirtual -> k2 <> PVirtual -> acomm a1 = acomm a2 ->
  match acomm a1 with Some c => (aprec a1 <= cp c /\ aprec a2 <= cp c)%Z | None => True end ->
  finalize ord cp None [mkp acct1 k1 (Some a1); mkp acct2 k2 (Some a2)] = Ok (Accepted ps') ->
  aq a2 == - aq a1 /\ aq (amt_neg (unkeep a1)) == aq a2.
Proof.
  intros H1 H2 Hc Hp Hf.
  assert (Hd : diff_comm (unkeep a1) (unkeep a2) = false).
  { unfold diff_comm. cbn [unkeep acomm has_comm]. rewrite Hc, comm_eqb_refl. cbn. rewrite andb_false_r. reflexivity. }
  destruct (amt_add_total _ _ Hd) as [s Hs].
  pose proof (scan_pair ord acct1 k1 a1 acct2 k2 a2 s H1 H2 Hc Hs) as Hscan.
  assert (Hw : wf_costs [mkp acct1 k1 (Some a1); mkp acct2 k2 (Some a2)]).
  { intros p [<-|[<-|[]]]; split; reflexivity || exact I. }
  rewrite (finalize_no_null ord cp _ (VAmt s) Hw) in Hf; try exact Hscan; try reflexivity; try discriminate.
  2:{ intros p [<-|[<-|[]]]; discriminate. }
  cbn [v_is_zero] in Hf. destruct (is_zero cp s) eqn:Hz; [|discriminate].
  assert (Hs0 : aq s == 0).
  { apply (is_zero_exact cp s); [|exact Hz].
    assert (Hh : has_comm (unkeep a1) = has_comm (unkeep a2)).
    { unfold has_comm. cbn [unkeep acomm]. rewrite Hc. reflexivity. }
    unfold amt_add in Hs. rewrite Hd in Hs. injection Hs as <-. cbn [acomm unkeep akeep].
    unfold addsub_prec. rewrite Hh, Bool.eqb_reflx. cbn [aprec unkeep].
    revert Hp. destruct (acomm a1) as [c|]; [|intros; exact I]. intros Hp. right.
    destruct (aprec a1 <? aprec a2)%Z; lia. }
  pose proof (amt_add_exact _ _ _ Hs) as He. cbn [unkeep aq] in He. rewrite Hs0 in He.
  assert (Hq : aq a2 == - aq a1) by lra.
  split; [exact Hq|]. rewrite amt_neg_exact. cbn [unkeep aq]. rewrite Hq. reflexivity.
Qed.

End Elision.

(* ================================================================== print, re-read, finalize *)
Section Reread.
Local Open Scope Q_scope.

(* the same posting up to the display-only precision counters *)
Definition asim (a b : amount) : Prop := aq a == aq b /\ acomm a = acomm b.
Definition osim (a b : option amount) : Prop :=
  match a, b with Some x, Some y => asim x y | None, None => True | _, _ => False end.
Definition psim (p q : post) : Prop :=
  p_acct p = p_acct q /\ p_kind p = p_kind q /\ osim (p_amt p) (p_amt q) /\ osim (p_cost p) (p_cost q).

Lemma at_comm_asim a b c : asim a b -> at_comm a c == at_comm b c.
Proof. intros [Hq Hc]. unfold at_comm. rewrite Hc. destruct (comm_eqb (acomm b) c); [exact Hq | reflexivity]. Qed.

Lemma bsum_psim c : forall ps qs, Forall2 psim ps qs -> bsum ps c == bsum qs c.
Proof.
  induction 1 as [|p q ps qs [Ha [Hk [Hamt Hcost]]] _ IH]; cbn [bsum]; [reflexivity|].
  rewrite IH. unfold must_balance. rewrite Hk. destruct (p_kind q); try reflexivity;
    unfold balancing_amount;
    destruct (p_cost p) as [x|], (p_cost q) as [y|]; cbn [osim] in Hcost; try contradiction;
    try (rewrite (at_comm_asim x y c Hcost); reflexivity);
    destruct (p_amt p) as [x|], (p_amt q) as [y|]; cbn [osim] in Hamt; try contradiction;
    try (rewrite (at_comm_asim x y c Hamt); reflexivity); reflexivity.
Qed.

Lemma wf_costs_psim : forall ps qs, Forall2 psim ps qs -> (forall p, In p ps -> p_lotprice p = None) ->
  wf_costs qs -> wf_costs ps.
Proof.
  induction 1 as [|p q ps qs [Ha [Hk [Hamt Hcost]]] _ IH]; intros Hl Hw x Hx; [destruct Hx|].
  destruct Hx as [<-|Hx].
  - split; [apply Hl; left; reflexivity|].
    destruct (Hw q (or_introl eq_refl)) as [_ Hq].
    destruct (p_amt p) as [a|], (p_amt q) as [a'|]; cbn [osim] in Hamt; try contradiction; try exact I.
    destruct (p_cost p) as [k|], (p_cost q) as [k'|]; cbn [osim] in Hcost; try contradiction; try exact I.
    destruct Hamt as [_ ->]. destruct Hcost as [_ ->]. exact Hq.
  - apply IH; [intros y Hy; apply Hl; right; exact Hy | intros y Hy; apply Hw; right; exact Hy | exact Hx].
Qed.

Lemma all_have_amounts_psim : forall ps qs, Forall2 psim ps qs -> all_have_amounts qs -> all_have_amounts ps.
Proof.
  induction 1 as [|p q ps qs [_ [_ [Hamt _]]] _ IH]; intros Hq x Hx; [destruct Hx|].
  destruct Hx as [<-|Hx].
  - pose proof (Hq q (or_introl eq_refl)) as H. destruct (p_amt p), (p_amt q); cbn [osim] in Hamt; try contradiction; congruence.
  - apply IH; [intros y Hy; apply Hq; right; exact Hy | exact Hx].
Qed.

(* ---- acceptance of an exactly balanced transaction, whatever the two-commodity shape ---- *)
Lemma infer_rate_balanced ord cp ps bal :
  sum_value_nodup bal -> (forall c, den bal c == 0) -> infer_rate ord cp ps bal None = Ok (ps, bal).
Proof.
  intros Hn Hd. unfold infer_rate. destruct bal as [| ? | ? | ? | b]; try reflexivity.
  destruct (filter (fun a => negb (is_realzero a)) b) as [|x [|y [|z b']]] eqn:Ef; try reflexivity.
  exfalso.
  assert (Hin : In x (filter (fun a => negb (is_realzero a)) b)) by (rewrite Ef; left; reflexivity).
  apply filter_In in Hin as [Hin Hnz].
  assert (Hz : is_realzero x = true).
  { apply is_realzero_spec. cbn [sum_value_nodup] in Hn.
    rewrite <- (bden_entry b x Hn Hin). apply (Hd (acomm x)). }
  rewrite Hz in Hnz. discriminate.
Qed.

Lemma count_nulls_all_amounts ps : all_have_amounts ps -> count_nulls ps = 0%nat.
Proof.
  induction ps as [|p ps IH]; intros H; cbn [count_nulls]; [reflexivity|].
  rewrite IH by (intros q Hq; apply H; right; exact Hq).
  pose proof (H p (or_introl eq_refl)) as Hp. unfold balancing_amount.
  destruct (must_balance p); [|reflexivity]. destruct (p_cost p); [reflexivity|].
  destruct (p_amt p); [reflexivity | contradiction].
Qed.

Lemma scan_posts_nul_kept ord : forall ps i bal nul bal' nul',
  count_nulls ps = 0%nat -> scan_posts ord ps i bal nul = Ok (bal', nul') -> nul' = nul.
Proof.
  induction ps as [|p ps IH]; intros i bal nul bal' nul'; cbn [scan_posts count_nulls].
  - intros _ [= _ <-]. reflexivity.
  - destruct (must_balance p); cbn [negb].
    + destruct (balancing_amount p) as [a|].
      * intros Hc. destruct (add_or_set ord bal (unkeep a)); cbn [bind]; [|discriminate]. apply IH. exact Hc.
      * intros Hc. exfalso. lia.
    + intros Hc. apply IH. exact Hc.
Qed.

Theorem exact_balance_accepted2 ord cp ps :
  wf_costs ps -> ps <> [] -> all_have_amounts ps -> (forall c, bsum ps c == 0) ->
  finalize ord cp None ps = Ok (Accepted ps).
Proof.
  intros Hw Hne Ha Hz.
  pose proof (count_nulls_all_amounts ps Ha) as Hc0.
  destruct (scan_posts_total ord ps 0 VVoid None I ltac:(cbn; lia)) as [bal [nul [Hs Hsv]]].
  pose proof (scan_posts_nul_kept ord ps 0 VVoid None bal nul Hc0 Hs) as ->.
  destruct (scan_posts_nodup ord ps 0 VVoid None bal None I I Hs) as [Hn _].
  assert (Hd : forall c, den bal c == 0).
  { intros c. rewrite (scan_posts_exact ord c _ _ _ _ _ _ Hs). cbn [den]. rewrite (Hz c). ring. }
  unfold finalize, finalize_rest. rewrite Hs. cbn [bind].
  rewrite (infer_rate_balanced ord cp ps bal Hn Hd). cbn [bind fst snd].
  rewrite (exchange_posts_id ord cp ps bal Hw). cbn [bind].
  rewrite (v_zero_den_is_zero cp bal Hsv Hn Hd). cbn [negb].
  destruct (all_amounts_flags ps Hne Ha) as [-> ->]. reflexivity.
Qed.

Lemma Qeq_sign x y : x == y -> (Qnum x <? 0)%Z = (Qnum y <? 0)%Z.
Proof.
  unfold Qeq. destruct x as [a b], y as [c d]. cbn [Qnum Qden]. intros H.
  destruct (Z.ltb_spec a 0), (Z.ltb_spec c 0); try reflexivity; exfalso; nia.
Qed.

Lemma cost_total_exact t a : aq (cost_total t a) == if (Qnum (aq a) <? 0)%Z then - aq t else aq t.
Proof. unfold cost_total. destruct (Qnum (aq a) <? 0)%Z; [rewrite amt_neg_exact|]; reflexivity. Qed.

Lemma cost_total_comm t a : acomm (cost_total t a) = acomm t.
Proof. unfold cost_total. destruct (Qnum (aq a) <? 0)%Z; reflexivity. Qed.

(* ---- a posting as parse_post leaves it, with what print needs to be exact ---- *)
Definition cost_ok (cp : comm -> Z) (a : amount) (p : post) (e : extra) : Prop :=
  (p_cost p = None /\ e_given e = None) \/
  (exists u, ~ aq a == 0 /\ 0 <= aq u /\ acomm u <> None /\ e_in_full e = false /\
             p_cost p = Some (cost_per_unit cp (with_keep u) a) /\ e_given e = p_cost p /\
             (forall q, amt_div cp (cost_per_unit cp (with_keep u) a) a = Ok q -> printable cp (amt_abs q))) \/
  (exists t, 0 <= aq t /\ e_in_full e = true /\
             p_cost p = Some (cost_total (with_keep t) a) /\ e_given e = p_cost p /\
             printable cp (amt_abs (cost_total (with_keep t) a))).

(* the amount is written (its decimals are covered by the display precision) and does not display
   as zero (finding F8 is about the other case); flags as the parser leaves them *)
Definition wf_written (cp : comm -> Z) (x : xpost) : Prop :=
  let (p, e) := x in
  p_calculated p = false /\ p_generated p = false /\ p_cost_calculated p = false /\ p_lotprice p = None /\
  exists a, p_amt p = Some a /\ printable cp a /\ is_zero cp a = false /\ cost_ok cp a p e.

(* one line: print shows the written amount and cost exactly; the reader rebuilds the posting *)
Lemma elides_other_count count index first x : count <> 2%nat -> elides count index first x = false.
Proof. intros H. unfold elides. replace (Nat.eqb count 2) with false by (symmetry; apply Nat.eqb_neq; exact H). reflexivity. Qed.

Lemma decide_post_written cp xs count index first x :
  elides count index first x = false -> wf_written cp x ->
  exists ln, decide_post cp xs count index first x = Ok (Some ln) /\
             psim (fst (reread_line cp xs ln)) (fst x) /\ p_lotprice (fst (reread_line cp xs ln)) = None.
Proof.
  intros Hc Hw. destruct x as [p e]. destruct Hw as [H1 [H2 [H3 [H4 [a [Ha [Hpa [Hnz0 Hco]]]]]]]].
  unfold decide_post. rewrite H2, H1, Ha, Hc.
  assert (Hrv : read_back_value cp a = read_back cp a) by (unfold read_back_value; rewrite Hnz0; reflexivity).
  destruct (read_back_exact cp a Hpa) as [Hrb [Hrc _]].
  destruct Hco as [[Hc1 Hg1] | [[u [Hnz [Hu [Hcu [Hfull [Hc2 [Hg2 Hpq]]]]]]] | [t [Ht [Hfull [Hc3 [Hg3 Hpt]]]]]]].
  - (* no cost *)
    rewrite Hg1. cbn [bind]. eexists. split; [reflexivity|].
    unfold reread_line, psim. cbn [fst l_cost l_amt l_acct l_kind p_acct p_kind p_amt p_cost l_lot p_lotprice].
    rewrite Ha, Hc1, H4, Hrv. repeat split; cbn [osim]; try exact I; assumption.
  - (* @ u *)
    rewrite Hg2, Hc2, H3, Hfull. cbn [orb].
    replace (is_realzero a) with false
      by (symmetry; destruct (is_realzero a) eqn:Hr; [apply is_realzero_spec in Hr; contradiction | reflexivity]).
    destruct (per_unit_cost_roundtrip cp u a Hnz Hu Hcu) as [q [Hq Hrt]]. cbv zeta in Hrt.
    rewrite Hq. cbn [bind]. destruct (Hrt (Hpq q Hq)) as [Hu1 [Hu2 _]].
    eexists. split; [reflexivity|].
    unfold reread_line, psim. cbn [fst l_cost l_amt l_acct l_kind p_acct p_kind p_amt p_cost l_lot p_lotprice].
    rewrite Ha, Hc2, H4, Hrv. repeat split; cbn [osim]; try exact I; try assumption.
    rewrite !cost_per_unit_exact. cbn [with_keep aq]. rewrite Hu1, Hrb. reflexivity.
  - (* @@ t *)
    rewrite Hg3, Hc3, H3, Hfull. cbn [orb bind].
    destruct (total_cost_roundtrip cp t a Ht Hpt) as [Ht1 [Ht2 _]].
    eexists. split; [reflexivity|].
    unfold reread_line, psim. cbn [fst l_cost l_amt l_acct l_kind p_acct p_kind p_amt p_cost l_lot p_lotprice].
    rewrite Ha, Hc3, H4, Hrv. repeat split; cbn [osim]; try exact I; try assumption.
    all: try (rewrite !cost_total_comm; cbn [with_keep acomm]; exact Ht2).
    all: rewrite !cost_total_exact; rewrite (Qeq_sign _ _ Hrb); cbn [with_keep aq];
      destruct (Qnum (aq a) <? 0)%Z; rewrite Ht1; reflexivity.
Qed.
Lemma decide_from_written cp xs count first : count <> 2%nat -> forall l index,
  Forall (wf_written cp) l ->
  exists ls, decide_from cp xs count first index l = Ok ls /\
             Forall2 psim (map fst (reread cp xs ls)) (map fst l) /\
             (forall p, In p (map fst (reread cp xs ls)) -> p_lotprice p = None).
Proof.
  intros Hc. induction l as [|x l IH]; intros index Hw.
  - exists []. cbn. split; [reflexivity|]. split; [constructor | intros p []].
  - inversion Hw as [|? ? Hx Hl]; subst.
    destruct (decide_post_written cp xs count index first x (elides_other_count _ _ _ _ Hc) Hx) as [ln [Hd [Hs Hlot]]].
    destruct (IH (S index) Hl) as [ls [Hds [Hss Hlots]]].
    exists (ln :: ls). cbn [decide_from]. rewrite Hd, Hds. cbn [bind]. split; [reflexivity|].
    cbn [reread map]. split; [constructor; assumption|].
    intros p [<-|Hp]; [exact Hlot | apply Hlots; exact Hp].
Qed.

Lemma attach_from_map s (l : list xpost) : attach_from s (map fst l) (map snd l) = l.
Proof. induction l as [|[p e] l IH]; cbn [map attach_from fst snd]; [reflexivity | rewrite IH; reflexivity]. Qed.

Lemma attach_map (l : list xpost) : attach (map fst l) (map snd l) = l.
Proof. unfold attach. apply attach_from_map. Qed.

Lemma written_all_have_amounts cp l : Forall (wf_written cp) l -> all_have_amounts (map fst l).
Proof.
  induction 1 as [|[p e] l Hx _ IH]; intros q Hq; [destruct Hq|]. destruct Hq as [<-|Hq]; [|apply IH; exact Hq].
  destruct Hx as [_ [_ [_ [_ [a [Ha _]]]]]]. cbn [fst]. rewrite Ha. discriminate.
Qed.

(* print, read the text back, finalize: an exactly balanced transaction whose amounts were all
   written (not two postings: that shape is the elision, treated above) is accepted again and has
   the same accounts, kinds, exact amounts and exact costs *)
Theorem print_reread_equiv ord cp xs (l : list xpost) :
  length l <> 2%nat -> l <> [] -> Forall (wf_written cp) l -> wf_costs (map fst l) ->
  (forall c, bsum (map fst l) c == 0) ->
  finalize ord cp None (map fst l) = Ok (Accepted (map fst l)) /\
  exists ps'', print_reread ord cp xs (attach (map fst l) (map snd l)) = Ok (Accepted ps'') /\
               Forall2 psim ps'' (map fst l).
Proof.
  intros Hlen Hne Hw Hwc Hz.
  pose proof (written_all_have_amounts cp l Hw) as Ha.
  assert (Hne' : map fst l <> []) by (destruct l; [contradiction | discriminate]).
  split; [apply exact_balance_accepted2; assumption|].
  rewrite attach_map. unfold print_reread, decide.
  destruct l as [|x l']; [contradiction|].
  destruct (decide_from_written cp xs (length (x :: l')) x Hlen (x :: l') 1%nat Hw) as [ls [Hd [Hs Hlot]]].
  rewrite Hd. cbn [bind]. exists (map fst (reread cp xs ls)). split; [|exact Hs].
  apply exact_balance_accepted2.
  - apply (wf_costs_psim _ _ Hs Hlot Hwc).
  - intros E. rewrite E in Hs. inversion Hs.
  - apply (all_have_amounts_psim _ _ Hs Ha).
  - intros c. rewrite (bsum_psim c _ _ Hs). apply Hz.
Qed.

(* ---- states.  parse_post leaves a posting UNCLEARED only under an uncleared transaction (a
   posting without its own mark inherits the transaction's state); under that invariant the mark
   print writes brings the state back *)
Lemma mark_roundtrip xs e :
  (e_state e = SUncleared -> xs = SUncleared) -> read_state xs (mark_of xs e) = e_state e.
Proof.
  unfold mark_of, read_state. destruct xs, (e_state e); cbn [pstate_eqb]; intros H; try reflexivity;
    specialize (H eq_refl); discriminate.
Qed.

End Reread.

(* ================================================================== print never fails; two postings *)
Section Pair.
Local Open Scope Q_scope.

Lemma decide_post_total cp xs count index first x : exists o, decide_post cp xs count index first x = Ok o.
Proof.
  destruct x as [p e]. unfold decide_post. destruct (p_generated p); [eexists; reflexivity|].
  destruct (p_calculated p); [eexists; reflexivity|]. destruct (p_amt p) as [a|]; [|eexists; reflexivity].
  destruct (e_given e) as [g|]; cbn [bind orb]; [|eexists; reflexivity].
  destruct (p_cost_calculated p); cbn [bind]; [eexists; reflexivity|].
  destruct (e_in_full e); cbn [bind]; [eexists; reflexivity|].
  destruct (is_realzero a) eqn:Hz; cbn [bind]; [eexists; reflexivity|].
  destruct (per_unit_quotient_total cp g a Hz) as [q ->]. cbn [bind]. eexists; reflexivity.
Qed.

Lemma decide_from_total cp xs count first : forall l index, exists ls, decide_from cp xs count first index l = Ok ls.
Proof.
  induction l as [|x l IH]; intros index; cbn [decide_from]; [eexists; reflexivity|].
  destruct (decide_post_total cp xs count index first x) as [o ->]. destruct (IH (S index)) as [r ->].
  cbn [bind]. eexists; reflexivity.
Qed.

(* print produces its lines for every transaction: no amount, cost or flag combination makes it fail *)
Theorem decide_total cp xs l : exists ls, decide cp xs l = Ok ls.
Proof. unfold decide. destruct l as [|x l]; [eexists; reflexivity|]. apply decide_from_total. Qed.

Lemma reread_accepts ord cp rs ps0 :
  Forall2 psim rs ps0 -> (forall p, In p rs -> p_lotprice p = None) -> wf_costs ps0 -> ps0 <> [] ->
  all_have_amounts ps0 -> (forall c, bsum ps0 c == 0) -> finalize ord cp None rs = Ok (Accepted rs).
Proof.
  intros Hs Hlot Hwc Hne Ha Hz. apply exact_balance_accepted2.
  - apply (wf_costs_psim _ _ Hs Hlot Hwc).
  - intros E. rewrite E in Hs. inversion Hs. subst. contradiction.
  - apply (all_have_amounts_psim _ _ Hs Ha).
  - intros c. rewrite (bsum_psim c _ _ Hs). apply Hz.
Qed.

(* print leaves an amount out only when both postings must balance (print.cc:231-232) *)
Lemma elides_must_balance count index first x :
  elides count index first x = true ->
  count = 2%nat /\ index = 2%nat /\ must_balance (fst x) = true /\ must_balance (fst first) = true /\
  simple_amount x = true /\ simple_amount first = true /\ amt_comm (fst first) = amt_comm (fst x).
Proof.
  unfold elides. intros E.
  apply andb_true_iff in E as [E H7]. apply andb_true_iff in E as [E H6]. apply andb_true_iff in E as [E H5].
  apply andb_true_iff in E as [E H4]. apply andb_true_iff in E as [E H3]. apply andb_true_iff in E as [H1 H2].
  apply Nat.eqb_eq in H1, H2. apply comm_eqb_eq in H7. repeat split; assumption.
Qed.

Lemma must_balance_kind p : must_balance p = true -> p_kind p <> PVirtual.
Proof. unfold must_balance. destruct (p_kind p); [discriminate | discriminate | discriminate]. Qed.

(* a simple amount on a posting as the parser leaves it: no cost at all, no assignment *)
Lemma simple_written cp p e :
  wf_written cp (p, e) -> simple_amount (p, e) = true -> p_cost p = None /\ e_given e = None /\ e_assigned e = None.
Proof.
  intros [H1 [H2 [H3 [H4 [a [Ha [_ [_ Hco]]]]]]]] Hs. unfold simple_amount in Hs. rewrite H1, Ha, H3 in Hs. cbn [negb andb] in Hs.
  destruct (e_assigned e); [discriminate|]. destruct (p_cost p) as [k|] eqn:Hk; [discriminate|].
  split; [reflexivity|]. split; [|reflexivity].
  destruct Hco as [[_ Hg] | [[u [_ [_ [_ [_ [Hc _]]]]]] | [t [_ [_ [Hc _]]]]]]; [exact Hg | congruence | congruence].
Qed.

(* two postings, all amounts written, exactly balanced: whether or not print leaves the second
   amount out, the printed text is accepted and gives the same postings.  The printer itself checks
   that both postings must balance before eliding (print.cc:231-232), so nothing is assumed about
   their kinds *)
Theorem print_reread_pair ord cp xs x1 x2 :
  wf_written cp x1 -> wf_written cp x2 -> wf_costs [fst x1; fst x2] ->
  (forall c, bsum [fst x1; fst x2] c == 0) ->
  exists ps'', print_reread ord cp xs [x1; x2] = Ok (Accepted ps'') /\ Forall2 psim ps'' [fst x1; fst x2].
Proof.
  intros Hw1 Hw2 Hwc Hz. unfold print_reread, decide. cbn [length decide_from].
  assert (He1 : elides 2 1 x1 x1 = false) by reflexivity.
  destruct (elides 2 2 x1 x2) eqn:E.
  - (* the second amount is left out *)
    destruct x1 as [p1 e1], x2 as [p2 e2]. unfold elides in E. cbn [Nat.eqb andb fst] in E.
    apply andb_true_iff in E as [E Hcm]. apply andb_true_iff in E as [E Hs1]. apply andb_true_iff in E as [E Hs2].
    apply andb_true_iff in E as [Hm2 Hm1].
    destruct (simple_written cp p1 e1 Hw1 Hs1) as [Hc1 [Hg1 Hasg1]].
    destruct (simple_written cp p2 e2 Hw2 Hs2) as [Hc2 [Hg2 Hasg2]].
    pose proof Hw1 as [F1 [F2 [F3 [F4 [a1 [Ha1 [Hp1 [Hnz1 _]]]]]]]].
    pose proof Hw2 as [G1 [G2 [G3 [G4 [a2 [Ha2 [Hp2 [Hnz2 _]]]]]]]].
    assert (E2 : elides 2 2 (p1, e1) (p2, e2) = true).
    { unfold elides. cbn [Nat.eqb andb fst]. rewrite Hm2, Hm1, Hs2, Hs1, Hcm. reflexivity. }
    unfold decide_post. rewrite F2, F1, Ha1, He1, Hg1, Hasg1, F4. rewrite G2, G1, Ha2, E2, Hg2, Hasg2. cbn [bind].
    unfold reread, reread_line. cbn [map fst l_cost l_amt l_acct l_kind l_lot].
    assert (Hrv : read_back_value cp a1 = read_back cp a1) by (unfold read_back_value; rewrite Hnz1; reflexivity).
    destruct (read_back_exact cp a1 Hp1) as [Hrb [Hrc _]].
    change (mkPost (p_acct p1) (p_kind p1) (Some (read_back_value cp a1)) None None false false false)
      with (mkp (p_acct p1) (p_kind p1) (Some (read_back_value cp a1))).
    change (mkPost (p_acct p2) (p_kind p2) None None None false false false) with (mkp (p_acct p2) (p_kind p2) None).
    rewrite (elided_second_is_negation ord cp _ _ _ _ _ (must_balance_kind p1 Hm1) (must_balance_kind p2 Hm2)).
    eexists. split; [reflexivity|].
    (* exact balance: a2 == - a1 in their common commodity *)
    assert (Hcomm : acomm a1 = acomm a2).
    { unfold amt_comm in Hcm. rewrite Ha1, Ha2 in Hcm. apply comm_eqb_eq in Hcm. exact Hcm. }
    assert (Hsum : aq a1 + aq a2 == 0).
    { specialize (Hz (acomm a1)). cbn [bsum fst] in Hz. rewrite Hm1, Hm2 in Hz. unfold balancing_amount in Hz.
      rewrite Hc1, Hc2, Ha1, Ha2 in Hz. unfold at_comm in Hz. rewrite <- Hcomm, comm_eqb_refl in Hz. lra. }
    constructor; [|constructor; [|constructor]]; unfold psim; cbn [p_acct p_kind p_amt p_cost mkp fst].
    + rewrite Ha1, Hc1, Hrv. repeat split; cbn [osim]; try exact I; assumption.
    + rewrite Ha2, Hc2, Hrv. repeat split; cbn [osim]; try exact I.
      * rewrite amt_neg_exact. cbn [unkeep aq]. rewrite Hrb. lra.
      * cbn [amt_neg unkeep acomm]. rewrite Hrc. exact Hcomm.
  - (* both amounts are printed *)
    destruct (decide_post_written cp xs 2 1 x1 x1 He1 Hw1) as [ln1 [Hd1 [Hs1 Hl1]]].
    destruct (decide_post_written cp xs 2 2 x1 x2 E Hw2) as [ln2 [Hd2 [Hs2 Hl2]]].
    rewrite Hd1, Hd2. cbn [bind reread map].
    assert (Hs : Forall2 psim [fst (reread_line cp xs ln1); fst (reread_line cp xs ln2)] [fst x1; fst x2])
      by (constructor; [exact Hs1 | constructor; [exact Hs2 | constructor]]).
    eexists. split; [|exact Hs].
    apply (reread_accepts ord cp _ [fst x1; fst x2] Hs).
    + intros p [<-|[<-|[]]]; assumption.
    + exact Hwc.
    + discriminate.
    + apply (written_all_have_amounts cp [x1; x2]). constructor; [exact Hw1 | constructor; [exact Hw2 | constructor]].
    + exact Hz.
Qed.

(* all lengths together *)
Theorem print_reread_equiv_all ord cp xs (l : list xpost) :
  l <> [] -> Forall (wf_written cp) l -> wf_costs (map fst l) -> (forall c, bsum (map fst l) c == 0) ->
  finalize ord cp None (map fst l) = Ok (Accepted (map fst l)) /\
  exists ps'', print_reread ord cp xs (attach (map fst l) (map snd l)) = Ok (Accepted ps'') /\
               Forall2 psim ps'' (map fst l).
Proof.
  intros Hne Hw Hwc Hz. destruct (Nat.eq_dec (length l) 2) as [H2|H2].
  - split.
    + apply exact_balance_accepted2; try assumption; [destruct l; [contradiction | discriminate] | apply (written_all_have_amounts cp l Hw)].
    + rewrite attach_map. destruct l as [|x1 [|x2 [|x3 l]]]; try discriminate.
      inversion Hw as [|? ? Hw1 Hw']; subst. inversion Hw' as [|? ? Hw2 _]; subst.
      apply (print_reread_pair ord cp xs x1 x2 Hw1 Hw2 Hwc Hz).
  - apply print_reread_equiv; assumption.
Qed.

End Pair.

(* ================================================================== equity *)
Section Equity.
Local Open Scope Q_scope.

Definition asum (amts : list amount) (c : option comm) : Q :=
  fold_right (fun a acc => at_comm a c + acc) 0 amts.
Definition psum (ps : list post) (c : option comm) : Q :=
  fold_right (fun p acc => match p_amt p with Some a => at_comm a c | None => 0 end + acc) 0 ps.

(* amounts as they are written or inferred from written ones: not keep_precision, and no more
   decimals than the commodity displays *)
Definition fine (cp : comm -> Z) (a : amount) : Prop :=
  akeep a = false /\ match acomm a with Some c => (aprec a <= cp c)%Z | None => True end.
Definition fine_value (cp : comm -> Z) (v : value) : Prop :=
  match v with VAmt a => fine cp a | VBal b => forall x, In x b -> fine cp x | _ => True end.

Lemma fine_is_zero cp a : fine cp a -> is_zero cp a = is_realzero a.
Proof.
  intros [Hk Hp]. unfold is_zero. destruct (acomm a) as [c|]; [|reflexivity].
  rewrite Hk. cbn [orb]. replace (aprec a <=? cp c)%Z with true by (symmetry; apply Z.leb_le; exact Hp). reflexivity.
Qed.

Lemma fine_add cp x a s : comm_eqb (acomm x) (acomm a) = true -> fine cp x -> fine cp a -> amt_add x a = Ok s -> fine cp s.
Proof.
  intros Hc [Hkx Hpx] [Hka Hpa]. unfold amt_add. destruct (diff_comm x a); [discriminate|]. intros [= <-].
  apply comm_eqb_eq in Hc. split; [exact Hkx|]. cbn [acomm aprec].
  unfold addsub_prec, has_comm. rewrite <- Hc, Bool.eqb_reflx. rewrite <- Hc in Hpa.
  destruct (acomm x); [|exact I]. destruct (aprec x <? aprec a)%Z; assumption.
Qed.

Lemma in_bal_replace k y b x : In x (bal_replace k y b) -> x = y \/ In x b.
Proof.
  induction b as [|z b IH]; cbn [bal_replace]; [intros []|].
  destruct (comm_eqb (acomm z) k); cbn [In]; intros [H|H]; auto. destruct (IH H); auto.
Qed.

Lemma fine_bal_add_amt cp ord b a b' :
  (forall x, In x b -> fine cp x) -> fine cp a -> bal_add_amt ord b a = Ok b' -> forall x, In x b' -> fine cp x.
Proof.
  intros Hb Ha. unfold bal_add_amt. destruct (is_realzero a); [intros [= <-]; exact Hb|].
  destruct (bal_find (acomm a) b) as [y|] eqn:Hf.
  - destruct (amt_add y a) as [s|] eqn:Hs; cbn [bind]; [|discriminate]. intros [= <-] x Hx.
    destruct (in_bal_replace _ _ _ _ Hx) as [->|Hi]; [|apply Hb; exact Hi].
    apply (fine_add cp y a s); [apply (bal_find_some _ _ _ Hf) | apply Hb, (bal_find_some_in _ _ _ Hf) | exact Ha | exact Hs].
  - intros [= <-] x Hx. unfold bal_insert in Hx. destruct ord.
    + destruct Hx as [<-|Hx]; [exact Ha | apply Hb; exact Hx].
    + apply in_app_or in Hx. destruct Hx as [Hx|[<-|[]]]; [apply Hb; exact Hx | exact Ha].
Qed.

Lemma fine_bal_of_amt cp a : fine cp a -> forall x, In x (bal_of_amt a) -> fine cp x.
Proof. intros Ha x. unfold bal_of_amt. destruct (is_realzero a); [intros [] | intros [<-|[]]; exact Ha]. Qed.

Lemma fine_add_or_set cp ord v a v' :
  is_sum_value v -> fine_value cp v -> fine cp a -> add_or_set ord v a = Ok v' -> fine_value cp v'.
Proof.
  destruct v as [| ? | ? | x | b]; cbn [is_sum_value]; try contradiction; intros _ Hv Ha; unfold add_or_set.
  - intros [= <-]. exact Ha.
  - cbn [v_add]. destruct (comm_eqb (acomm x) (acomm a)) eqn:Hc.
    + destruct (amt_add x a) as [s|] eqn:Hs; cbn [bind]; [|discriminate]. intros [= <-].
      apply (fine_add cp x a s Hc Hv Ha Hs).
    + destruct (bal_add_amt ord (bal_of_amt x) a) as [b'|] eqn:E; cbn [bind]; [|discriminate]. intros [= <-].
      exact (fine_bal_add_amt cp ord _ a b' (fine_bal_of_amt cp x Hv) Ha E).
  - cbn [v_add]. destruct (bal_add_amt ord b a) as [b'|] eqn:E; cbn [bind]; [|discriminate]. intros [= <-].
    exact (fine_bal_add_amt cp ord b a b' Hv Ha E).
Qed.

Lemma sum_value_spec cp ord c : forall amts v v',
  is_sum_value v -> sum_value_nodup v -> fine_value cp v -> (forall a, In a amts -> fine cp a) ->
  sum_value ord v amts = Ok v' ->
  den v' c == den v c + asum amts c /\ is_sum_value v' /\ sum_value_nodup v' /\ fine_value cp v'.
Proof.
  induction amts as [|a amts IH]; intros v v' Hs Hn Hf Ha; cbn [sum_value asum fold_right].
  - intros [= <-]. repeat split; try assumption. ring.
  - destruct (add_or_set_ok ord v a Hs) as [v1 [E [Hs1 _]]]. rewrite E. cbn [bind]. intros H.
    assert (Hfa : fine cp a) by (apply Ha; left; reflexivity).
    destruct (IH v1 v' Hs1 (add_or_set_nodup _ _ _ _ Hn Hs E) (fine_add_or_set cp ord v a v1 Hs Hf Hfa E)
                 (fun x Hx => Ha x (or_intror Hx)) H) as [Hd R].
    split; [|exact R]. rewrite Hd, (add_or_set_exact _ _ _ _ c E). unfold asum. ring.
Qed.

Lemma in_insert_sorted a l x : In x (insert_sorted a l) -> x = a \/ In x l.
Proof.
  induction l as [|y l IH]; cbn [insert_sorted]; [intros [<-|[]]; auto|].
  destruct (comm_le a y); cbn [In]; intros [H|H]; auto. destruct (IH H); auto.
Qed.

Lemma in_sorted_amounts b x : In x (sorted_amounts b) -> In x b.
Proof.
  induction b as [|y b IH]; cbn [sorted_amounts fold_right]; [intros []|]. fold (sorted_amounts b).
  intros H. destruct (in_insert_sorted _ _ _ H) as [->|Hi]; [left; reflexivity | right; apply IH; exact Hi].
Qed.

Lemma asum_insert_sorted c a l : asum (insert_sorted a l) c == at_comm a c + asum l c.
Proof.
  induction l as [|x l IH]; cbn [insert_sorted asum fold_right]; [reflexivity|].
  destruct (comm_le a x); cbn [asum fold_right]; [reflexivity|]. unfold asum in IH. rewrite IH. ring.
Qed.

Lemma asum_sorted c b : asum (sorted_amounts b) c == bden b c.
Proof.
  induction b as [|x b IH]; cbn [sorted_amounts fold_right bden]; [reflexivity|]. fold (sorted_amounts b).
  rewrite asum_insert_sorted, IH. unfold at_comm. ring.
Qed.

Lemma asum_filter_nonzero cp c l : (forall x, In x l -> fine cp x) ->
  asum (filter (fun a => negb (is_zero cp a)) l) c == asum l c.
Proof.
  induction l as [|x l IH]; intros Hf; cbn [filter asum fold_right]; [reflexivity|].
  assert (IH' := IH (fun y Hy => Hf y (or_intror Hy))). unfold asum in IH'.
  destruct (is_zero cp x) eqn:Hz; cbn [negb asum fold_right].
  - rewrite IH'. rewrite (fine_is_zero cp x (Hf x (or_introl eq_refl))) in Hz. apply is_realzero_spec in Hz.
    unfold at_comm. destruct (comm_eqb (acomm x) c); [rewrite Hz|]; ring.
  - rewrite IH'. reflexivity.
Qed.

Lemma psum_map acct kind amts c :
  psum (map (fun a => mkPost acct kind (Some a) None None false false false) amts) c == asum amts c.
Proof. induction amts as [|a l IH]; cbn [map psum asum fold_right p_amt]; [reflexivity|]. unfold psum, asum in IH. rewrite IH. reflexivity. Qed.

(* the opening-balances postings of an account carry, per commodity, exactly the sum of the
   amounts reported for it *)
Theorem equity_reproduces_balances ord cp acct kind amts ps c :
  (forall a, In a amts -> fine cp a) ->
  equity_account ord cp acct kind amts = Ok ps ->
  psum ps c == asum amts c.
Proof.
  intros Hf. unfold equity_account. destruct (sum_value ord VVoid amts) as [v|] eqn:Hs; cbn [bind]; [|discriminate].
  intros [= <-]. rewrite psum_map.
  destruct (sum_value_spec cp ord c amts VVoid v I I I Hf Hs) as [Hd [Hsv [Hn Hfv]]].
  cbn [den] in Hd. rewrite Qplus_0_l in Hd. rewrite <- Hd. clear Hd Hs.
  unfold equity_amounts. destruct (v_is_zero cp v) eqn:Hz.
  - cbn [asum fold_right]. symmetry.
    destruct v as [| ? | ? | a | b]; cbn [is_sum_value] in Hsv; try contradiction; cbn [den v_is_zero fine_value] in *.
    + reflexivity.
    + rewrite (fine_is_zero cp a Hfv) in Hz. apply is_realzero_spec in Hz.
      unfold at_comm. destruct (comm_eqb (acomm a) c); [exact Hz | reflexivity].
    + apply bal_is_realzero_bden. unfold bal_is_realzero, bal_is_zero in *. apply forallb_forall. intros x Hx.
      rewrite forallb_forall in Hz. rewrite <- (fine_is_zero cp x (Hfv x Hx)). apply Hz. exact Hx.
  - destruct v as [| ? | ? | a | b]; cbn [is_sum_value] in Hsv; try contradiction; cbn [den fine_value] in *.
    + discriminate.
    + cbn [asum fold_right]. ring.
    + rewrite asum_filter_nonzero by (intros x Hx; apply Hfv, in_sorted_amounts; exact Hx).
      apply asum_sorted.
Qed.

(* ... and the text print writes for them is exact under the same hypothesis *)
Lemma fine_printable_exact cp a :
  fine cp a -> printable cp a -> aq (read_back_value cp a) == aq a.
Proof.
  intros [_ Hp] Hpr. apply read_back_value_written; [exact Hpr|].
  destruct (acomm a); [right; exact Hp | exact I].
Qed.

End Equity.

(* ================================================================== printing twice *)
Section Idempotent.
Local Open Scope Z_scope.

(* a posting amount (commodity, not keep_precision) re-read from print's text prints as the same text *)
Lemma read_back_nokeep cp a c :
  acomm a = Some c -> akeep a = false ->
  read_back cp a =
  mkAmt (Qred (Qmake (print_scaled (Qnum (Qred (aq a))) (Zpos (Qden (Qred (aq a)))) (cp c)) (Z.to_pos (10 ^ cp c))))
        (cp c) false (Some c).
Proof.
  intros Hc Hk. unfold read_back, display_precision, zeros_prec. rewrite Hc, Hk, Z.sub_diag. reflexivity.
Qed.

Theorem read_back_idem cp a c :
  acomm a = Some c -> akeep a = false -> 0 <= cp c <= 230 ->
  read_back cp (read_back cp a) = read_back cp a.
Proof.
  intros Hc Hk Hcp. rewrite (read_back_nokeep cp a c Hc Hk).
  set (N := print_scaled (Qnum (Qred (aq a))) (Zpos (Qden (Qred (aq a)))) (cp c)).
  match goal with |- read_back cp ?r = _ =>
    rewrite (read_back_nokeep cp r c (eq_refl : acomm r = Some c) (eq_refl : akeep r = false)) end. cbn [aq].
  set (q' := Qred (Qred (N # Z.to_pos (10 ^ cp c)))).
  assert (H10 : 0 < 10 ^ cp c) by (apply Z.pow_pos_nonneg; lia).
  assert (Hq : (q' == N # Z.to_pos (10 ^ cp c))%Q) by (unfold q'; rewrite !Qred_correct; reflexivity).
  unfold Qeq in Hq. cbn [Qnum Qden] in Hq. rewrite Z2Pos.id in Hq by exact H10.
  rewrite (print_scaled_exact (Qnum q') (Zpos (Qden q')) (cp c) N); [reflexivity | lia | exact Hcp | exact Hq].
Qed.

(* a plainly written posting: commodity amount, no cost, no assignment, not shown as 0 *)
Definition wf_plain (cp : comm -> Z) (x : xpost) : Prop :=
  let (p, e) := x in
  p_calculated p = false /\ p_generated p = false /\ p_cost p = None /\ e_given e = None /\ e_assigned e = None /\
  exists a c, p_amt p = Some a /\ acomm a = Some c /\ akeep a = false /\ 0 <= cp c <= 230 /\
              is_zero cp a = false /\ is_zero cp (read_back cp a) = false.

Lemma mark_idem xs e v1 v2 v3 v4 :
  mark_of xs (mkExtra (read_state xs (mark_of xs e)) v1 v2 v3 v4) = mark_of xs e.
Proof. unfold mark_of, read_state. cbn [e_state]. destruct xs, (e_state e); reflexivity. Qed.

Lemma decide_post_idem cp xs count index f f' x :
  count <> 2%nat -> wf_plain cp x ->
  exists ln, decide_post cp xs count index f x = Ok (Some ln) /\
             decide_post cp xs count index f' (reread_line cp xs ln) = Ok (Some ln).
Proof.
  intros Hc Hw. destruct x as [p e].
  destruct Hw as [H1 [H2 [H3 [H4 [H5 [a [c [Ha [Hac [Hk [Hcp [Hz Hz']]]]]]]]]]]].
  unfold decide_post at 1. rewrite H2, H1, Ha, (elides_other_count _ _ _ _ Hc), H4, H5. cbn [bind].
  eexists. split; [reflexivity|].
  unfold reread_line. cbn [l_cost l_amt l_acct l_kind l_lot l_mark l_assigned].
  unfold decide_post. cbn [p_generated p_calculated p_amt p_acct p_kind p_lotprice e_given e_assigned].
  rewrite (elides_other_count _ _ _ _ Hc). cbn [bind]. rewrite mark_idem.
  unfold read_back_value. rewrite Hz, Hz'. rewrite (read_back_idem cp a c Hac Hk Hcp). reflexivity.
Qed.

Lemma decide_from_idem cp xs count f f' : count <> 2%nat -> forall l index,
  Forall (wf_plain cp) l ->
  exists ls, decide_from cp xs count f index l = Ok ls /\
             decide_from cp xs count f' index (reread cp xs ls) = Ok ls.
Proof.
  intros Hc. induction l as [|x l IH]; intros index Hw.
  - exists []. split; reflexivity.
  - inversion Hw as [|? ? Hx Hl]; subst.
    destruct (decide_post_idem cp xs count index f f' x Hc Hx) as [ln [Hd Hd']].
    destruct (IH (S index) Hl) as [ls [Hds Hds']].
    exists (ln :: ls). cbn [decide_from reread map]. rewrite Hd, Hds. cbn [bind]. split; [reflexivity|].
    fold (reread cp xs ls). rewrite Hd', Hds'. reflexivity.
Qed.

Lemma decide_from_length cp xs count f : forall l index ls,
  Forall (wf_plain cp) l -> decide_from cp xs count f index l = Ok ls -> length ls = length l.
Proof.
  induction l as [|x l IH]; intros index ls Hw; cbn [decide_from]; [intros [= <-]; reflexivity|].
  inversion Hw as [|? ? Hx Hl]; subst.
  destruct (decide_post cp xs count index f x) as [o|] eqn:E; cbn [bind]; [|discriminate].
  destruct (decide_from cp xs count f (S index) l) as [r|] eqn:E2; cbn [bind]; [|discriminate].
  assert (Ho : exists ln, o = Some ln).
  { destruct x as [p e]. destruct Hx as [H1 [H2 [_ [_ [_ [a [c [Ha _]]]]]]]].
    unfold decide_post in E. rewrite H2, H1, Ha in E.
    destruct (match e_given e with Some _ => _ | None => _ end); cbn [bind] in E; [|discriminate].
    injection E as <-. eexists; reflexivity. }
  destruct Ho as [ln ->]. intros [= <-]. cbn [length]. rewrite (IH _ _ Hl E2). reflexivity.
Qed.

(* printing the re-read text makes the same decisions, line by line (layout is a function of
   the lines, so the text is the same) *)
Theorem print_idempotent cp xs (l : list xpost) :
  length l <> 2%nat -> Forall (wf_plain cp) l ->
  exists ls, decide cp xs l = Ok ls /\ decide cp xs (reread cp xs ls) = Ok ls.
Proof.
  intros Hlen Hw. unfold decide at 1. destruct l as [|x l']; [exists []; split; reflexivity|].
  destruct (decide_from_idem cp xs (length (x :: l')) x x Hlen (x :: l') 1%nat Hw) as [ls [Hd _]].
  exists ls. split; [exact Hd|].
  pose proof (decide_from_length cp xs _ x (x :: l') 1%nat ls Hw Hd) as Hl.
  unfold decide. destruct (reread cp xs ls) as [|y r] eqn:Er.
  - destruct ls; [reflexivity | discriminate].
  - assert (Hlen2 : length (y :: r) = length (x :: l')).
    { rewrite <- Er. unfold reread. rewrite map_length. exact Hl. }
    rewrite Hlen2.
    destruct (decide_from_idem cp xs (length (x :: l')) x y Hlen (x :: l') 1%nat Hw) as [ls2 [Hd2 Hd2']].
    rewrite Hd in Hd2. injection Hd2 as <-. rewrite Er in Hd2'. exact Hd2'.
Qed.

End Idempotent.

(* ================================================================== the account / amount separator *)
Section Layout.
Local Open Scope Z_scope.

Lemma fold_max_ge_init l : forall a, a <= fold_left Z.max l a.
Proof. induction l as [|x l IH]; intros a; cbn [fold_left]; [lia|]. specialize (IH (Z.max a x)). lia. Qed.

Lemma fold_max_ge_in l : forall a x, In x l -> x <= fold_left Z.max l a.
Proof.
  induction l as [|y l IH]; intros a x; cbn [fold_left In]; [intros []|].
  intros [->|H]; [pose proof (fold_max_ge_init l (Z.max a x)); lia | apply IH; exact H].
Qed.

Lemma account_width_covers names n : In n names -> n <= account_width names.
Proof. apply fold_max_ge_in. Qed.

Lemma account_width_min names : 36 <= account_width names.
Proof. apply fold_max_ge_init. Qed.

(* the journal reader ends an account name at two blanks (or a tab): print always leaves at least
   two blanks in front of an amount, whatever the lengths of the account names and of the amount *)
Theorem separator_at_least_two names n amt_len :
  In n names -> 0 < amt_len -> 2 <= sep_blanks (account_width names) n amt_len.
Proof.
  intros Hn Ha. pose proof (account_width_covers names n Hn) as Hw. unfold sep_blanks.
  replace (amt_len =? 0) with false by (symmetry; apply Z.eqb_neq; lia).
  destruct (Z.ltb_spec (account_width names - n + Z.max 0 (12 - amt_len)) 2); lia.
Qed.

(* and exactly the padding up to the two columns when there is room *)
Theorem separator_is_column_padding names n amt_len :
  In n names -> 0 < amt_len -> 2 <= account_width names - n + Z.max 0 (12 - amt_len) ->
  sep_blanks (account_width names) n amt_len = account_width names - n + Z.max 0 (12 - amt_len).
Proof.
  intros Hn Ha H. unfold sep_blanks. replace (amt_len =? 0) with false by (symmetry; apply Z.eqb_neq; lia).
  destruct (Z.ltb_spec (account_width names - n + Z.max 0 (12 - amt_len)) 2); lia.
Qed.

End Layout.

(* ================================================================== the cost print shows is the WRITTEN cost *)
Section WrittenCost.
Local Open Scope Q_scope.

(* finalize may rewrite a posting's cost (p_cost: the lot's basis after the gain/loss adjustment of
   exchange_posts, xact.cc:301-327); print reads given_cost (e_given), never p_cost.  The statement does not
   mention p_cost p at all: it holds whatever finalize left there *)
Theorem printed_cost_is_written_cost cp xs count index first p e a g :
  p_generated p = false -> p_calculated p = false -> p_cost_calculated p = false ->
  p_amt p = Some a -> e_given e = Some g ->
  exists ln, decide_post cp xs count index first (p, e) = Ok (Some ln) /\
    (if e_in_full e || is_realzero a
     then l_cost ln = Some (CTotal, e_cost_virtual e, read_back cp (amt_abs g))
     else exists q, amt_div cp g a = Ok q /\
                    l_cost ln = Some (CPerUnit, e_cost_virtual e, read_back cp (amt_abs q))).
Proof.
  intros Hg Hc Hcc Ha He. unfold decide_post. rewrite Hg, Hc, Ha, He, Hcc. cbn [orb].
  destruct (e_in_full e); cbn [orb bind].
  - eexists. split; reflexivity.
  - destruct (is_realzero a) eqn:Hz; cbn [bind].
    + eexists. split; reflexivity.
    + destruct (per_unit_quotient_total cp g a Hz) as [q Hq]. rewrite Hq. cbn [bind].
      eexists. split; [reflexivity|]. exists q. split; reflexivity.
Qed.

Definition set_cost (p : post) (c : option amount) : post :=
  mkPost (p_acct p) (p_kind p) (p_amt p) c (p_lotprice p) (p_calculated p) (p_generated p) (p_cost_calculated p).

Corollary printed_cost_ignores_adjusted_cost cp xs count index first first' p e a g c' :
  p_generated p = false -> p_calculated p = false -> p_cost_calculated p = false ->
  p_amt p = Some a -> e_given e = Some g ->
  exists ln ln', decide_post cp xs count index first (p, e) = Ok (Some ln) /\
                 decide_post cp xs count index first' (set_cost p c', e) = Ok (Some ln') /\
                 l_cost ln = l_cost ln'.
Proof.
  intros Hg Hc Hcc Ha He.
  destruct (printed_cost_is_written_cost cp xs count index first p e a g Hg Hc Hcc Ha He) as [ln [H1 H2]].
  destruct (printed_cost_is_written_cost cp xs count index first' (set_cost p c') e a g Hg Hc Hcc Ha He) as [ln' [H1' H2']].
  exists ln, ln'. split; [exact H1|]. split; [exact H1'|].
  destruct (e_in_full e || is_realzero a); [congruence|].
  destruct H2 as [q [Hq ->]]. destruct H2' as [q' [Hq' ->]]. congruence.
Qed.

(* and the number after `@@` is the written total exactly, whenever its decimals are covered *)
Corollary printed_total_cost_quantity cp xs count index first p e a g :
  p_generated p = false -> p_calculated p = false -> p_cost_calculated p = false ->
  p_amt p = Some a -> e_given e = Some g -> e_in_full e = true -> printable cp (amt_abs g) ->
  exists ln t, decide_post cp xs count index first (p, e) = Ok (Some ln) /\
               l_cost ln = Some (CTotal, e_cost_virtual e, t) /\ aq t == Qabs (aq g) /\ acomm t = acomm g.
Proof.
  intros Hg Hc Hcc Ha He Hf Hp.
  destruct (printed_cost_is_written_cost cp xs count index first p e a g Hg Hc Hcc Ha He) as [ln [H1 H2]].
  rewrite Hf in H2. cbn [orb] in H2. exists ln, (read_back cp (amt_abs g)). split; [exact H1|]. split; [exact H2|].
  destruct (read_back_exact cp (amt_abs g) Hp) as [Hq [Hcm _]]. split.
  - rewrite Hq. apply amt_abs_exact.
  - rewrite Hcm. unfold amt_abs. destruct (Qnum (aq g) <? 0)%Z; reflexivity.
Qed.

End WrittenCost.

(* ================================================================== a single posting under a bucket *)
Section Bucket.
Local Open Scope Q_scope.

(* finalize under `bucket B` / `A B` / `account B` + `default`: a lone posting that must balance gets a
   second posting on B with the negated amount *)
Lemma bucket_finalize ord cp b acct k a :
  k <> PVirtual ->
  finalize ord cp (Some b) [mkp acct k (Some a)]
  = Ok (Accepted [mkp acct k (Some a); mkPost b PReal (Some (amt_neg (unkeep a))) None None true false false]).
Proof. intros Hk. destruct k; try contradiction; reflexivity. Qed.

(* print such a transaction and read the text back (the printed text carries no bucket directive:
   the inferred posting is written as a bare account line): the same two postings - accounts, kinds,
   exact amounts - and BOTH carry the state of the written posting, in the original and in the
   re-read journal.  The hypothesis on the state is parse_post's invariant (see posting_state_roundtrip) *)
Theorem bucket_single_posting_roundtrip ord cp xs b acct k a e :
  k <> PVirtual -> printable cp a -> is_zero cp a = false ->
  e_given e = None -> e_assigned e = None -> (e_state e = SUncleared -> xs = SUncleared) ->
  let ps' := [mkp acct k (Some a); mkPost b PReal (Some (amt_neg (unkeep a))) None None true false false] in
  finalize ord cp (Some b) [mkp acct k (Some a)] = Ok (Accepted ps') /\
  map (fun x => e_state (snd x)) (attach ps' [e]) = [e_state e; e_state e] /\
  exists ls, decide cp xs (attach ps' [e]) = Ok ls /\
    map (fun x => e_state (snd x)) (reread cp xs ls) = [e_state e; e_state e] /\
    exists ps'', finalize ord cp None (map fst (reread cp xs ls)) = Ok (Accepted ps'') /\ Forall2 psim ps'' ps'.
Proof.
  intros Hk Hp Hnz Hg Hasg Hinv ps'. split; [apply bucket_finalize; exact Hk|]. split; [reflexivity|].
  unfold ps', attach. cbn [attach_from]. unfold decide. cbn [length decide_from].
  assert (He1 : forall x, elides 2 1 x x = false) by reflexivity.
  unfold decide_post. cbn [mkp p_generated p_calculated p_amt p_acct p_kind p_lotprice p_cost_calculated].
  rewrite (He1 (mkp acct k (Some a), e)). unfold mkp in *. rewrite Hg, Hasg. cbn [bind no_extra].
  eexists. split; [reflexivity|].
  assert (Hrv : read_back_value cp a = read_back cp a) by (unfold read_back_value; rewrite Hnz; reflexivity).
  destruct (read_back_exact cp a Hp) as [Hrb [Hrc _]].
  unfold reread, reread_line. cbn [map fst snd l_cost l_amt l_acct l_kind l_lot l_mark l_assigned e_state].
  split.
  - rewrite (mark_roundtrip xs e Hinv).
    assert (H2 : read_state xs (mark_of xs (no_extra (e_state e))) = e_state e)
      by (apply (mark_roundtrip xs (no_extra (e_state e))); exact Hinv).
    rewrite H2. reflexivity.
  - change (mkPost acct k (Some (read_back_value cp a)) None None false false false)
      with (mkp acct k (Some (read_back_value cp a))).
    change (mkPost b PReal None None None false false false) with (mkp b PReal None).
    rewrite (elided_second_is_negation ord cp acct k (read_back_value cp a) b PReal Hk ltac:(discriminate)).
    eexists. split; [reflexivity|].
    constructor; [|constructor; [|constructor]]; unfold psim, mkp; cbn [p_acct p_kind p_amt p_cost];
      rewrite Hrv; repeat split; cbn [osim]; try exact I; try assumption;
      try (rewrite !amt_neg_exact; cbn [unkeep aq]; rewrite Hrb; reflexivity);
      try (cbn [amt_neg unkeep acomm]; exact Hrc).
Qed.

End Bucket.

(* ================================================================== a printed balance assignment *)
(* `Acct  = A` is printed as `Acct  x' = A` with the computed amount x at display precision.  When the
   account's running total carries digits below the display precision (an elided leg of a fractional
   per-unit cost), x' differs from x by a residue and the re-read assertion is off by that residue: it is
   decided by the display-zero test at the commodity's precision (textual.cc:1781, `! diff.is_zero()`) *)
Section PrintedAssignment.
Local Open Scope Z_scope.

Lemma print_scaled_small n d p : 0 < d -> 0 <= p <= 230 -> 2 * Z.abs n * 10 ^ p < d -> print_scaled n d p = 0.
Proof.
  intros Hd Hp Hs. pose proof (print_half_ulp_230 n d p Hd Hp) as H.
  assert (H10 : 0 < 10 ^ p) by (apply Z.pow_pos_nonneg; lia).
  destruct (Z.eq_dec (print_scaled n d p) 0) as [E|E]; [exact E|exfalso].
  set (N := print_scaled n d p) in *.
  assert (Hn : d <= Z.abs (N * d)) by (rewrite Z.abs_mul, (Z.abs_eq d) by lia; nia).
  assert (Ht : Z.abs (N * d) <= Z.abs (N * d - n * 10 ^ p) + Z.abs (n * 10 ^ p)) by lia.
  rewrite (Z.abs_mul n), (Z.abs_eq (10 ^ p)) in Ht by lia. lia.
Qed.

(* an amount that carries more decimals than its commodity displays and is smaller than half a display unit
   displays as zero *)
Lemma small_is_zero cp a k :
  acomm a = Some k -> akeep a = false -> cp k < aprec a -> 0 <= cp k <= 230 ->
  (2 * Qabs (aq a) * inject_Z (10 ^ cp k) < 1)%Q -> is_zero cp a = true.
Proof.
  intros Hc Hk Hp Hcp Hs. unfold is_zero. rewrite Hc, Hk. cbn [orb].
  replace (aprec a <=? cp k) with false by (symmetry; apply Z.leb_gt; exact Hp).
  destruct (is_realzero a); [reflexivity|].
  assert (H10 : 0 < 10 ^ cp k) by (apply Z.pow_pos_nonneg; lia).
  destruct (aq a) as [n d]. cbn [Qnum Qden].
  assert (Hz : 2 * Z.abs n * 10 ^ cp k < Z.pos d).
  { unfold Qlt in Hs. cbn [Qnum Qden Qmult Qabs inject_Z] in Hs. rewrite ?Pos2Z.inj_mul in Hs.
    set (P := 10 ^ cp k) in *. nia. }
  replace (Z.pos d <? n) with false by (symmetry; apply Z.ltb_ge; nia).
  rewrite (print_scaled_small n (Z.pos d) (cp k)); [reflexivity | lia | exact Hcp | exact Hz].
Qed.

Definition with_amt (p : post) (a : option amount) : post :=
  mkPost (p_acct p) (p_kind p) a (p_cost p) (p_lotprice p) (p_calculated p) (p_generated p) (p_cost_calculated p).

Lemma with_amt_acct p a : p_acct (with_amt p a) = p_acct p. Proof. reflexivity. Qed.
Lemma with_amt_virtual p a : is_virtual (with_amt p a) = is_virtual p. Proof. reflexivity. Qed.
Lemma with_amt_amt p a : p_amt (with_amt p a) = a. Proof. reflexivity. Qed.

Theorem printed_assignment_rereads_accepted ord cp hist p amt t k :
  p_amt p = None ->
  acct_total ord hist (p_acct p) (negb (is_virtual p)) VVoid = Ok (VAmt t) ->
  acomm amt = Some k -> acomm t = Some k -> base_sym k = k -> akeep amt = false ->
  is_realzero amt = false -> is_realzero t = false ->
  cp k < aprec t -> 0 <= cp k <= 230 ->
  let x := mkAmt (Qred (aq amt - aq t)) (addsub_prec amt t) false (Some k) in
  is_zero cp x = false ->
  (* what ledger computes for the assignment *)
  resolve_assigned ord cp false hist [] (mkW p (Some amt)) = Ok (with_amt p (Some x)) /\
  (* what it makes of the printed form `x' = amt`, x' within half a display unit of x *)
  forall x', acomm x' = Some k ->
    (2 * Qabs (aq x - aq x') * inject_Z (10 ^ cp k) < 1)%Q ->
    resolve_assigned ord cp false hist [] (mkW (with_amt p (Some x')) (Some amt)) = Ok (with_amt p (Some x')).
Proof.
  intros Hnone Ht Hk Hkt Hbase Hkeep Hza Hzt Hprec Hcp x Hzx.
  assert (Hcm : comm_eqb (acomm amt) (acomm t) = true) by (rewrite Hk, Hkt; apply comm_eqb_refl).
  assert (Hsub : amt_sub amt t = Ok x).
  { unfold amt_sub, diff_comm. rewrite Hcm. cbn [negb]. rewrite andb_false_r. unfold x. rewrite Hkeep, Hk. reflexivity. }
  assert (Hrx : is_realzero x = false).
  { destruct (is_realzero x) eqn:E; [|reflexivity]. rewrite (is_realzero_is_zero cp x E) in Hzx. discriminate. }
  assert (Hd1 : bal_sub_amt ord (bal_of_amt amt) t = Ok [x]).
  { unfold bal_of_amt. rewrite Hza. unfold bal_sub_amt. rewrite Hzt. cbn [bal_find]. rewrite Hcm, Hsub. cbn [bind].
    rewrite Hrx. cbn [bal_replace]. rewrite Hcm. reflexivity. }
  assert (Hrestrict : restrict [x] amt = [x]).
  { unfold restrict. rewrite Hk. cbn [bal_find acomm x]. rewrite comm_eqb_refl. reflexivity. }
  split.
  - unfold resolve_assigned. cbn [w_assigned w_post]. rewrite Ht. cbn [bind]. rewrite Hd1. cbn [bind sub_earlier].
    rewrite Hrestrict, Hnone. cbn [bal_is_zero forallb]. rewrite Hzx. reflexivity.
  - intros x' Hkx Hsmall.
    unfold resolve_assigned. cbn [w_assigned w_post]. rewrite !with_amt_acct, !with_amt_virtual, with_amt_amt.
    rewrite Ht. cbn [bind]. rewrite Hd1. cbn [bind sub_earlier]. rewrite Hrestrict.
    assert (Hsx : strip x' = mkAmt (aq x') (aprec x') (akeep x') (Some k)).
    { unfold strip. rewrite Hkx, Hbase. reflexivity. }
    assert (Hown : negb (has_comm amt) || comm_eqb (acomm (strip x')) (acomm amt) = true).
    { rewrite Hsx, Hk. cbn [acomm]. rewrite comm_eqb_refl. apply orb_true_r. }
    rewrite Hown.
    assert (Hpx : cp k < aprec x).
    { unfold x. cbn [aprec]. unfold addsub_prec, has_comm. rewrite Hk, Hkt. cbn. destruct (aprec amt <? aprec t) eqn:E; [exact Hprec|].
      apply Z.ltb_ge in E. lia. }
    unfold bal_sub_amt. destruct (is_realzero (strip x')) eqn:Hzx'.
    + (* the printed amount is zero: then x itself is below half a unit and would have displayed as zero *)
      exfalso. apply is_realzero_spec in Hzx'. rewrite Hsx in Hzx'. cbn [aq] in Hzx'.
      assert (Hs : (2 * Qabs (aq x) * inject_Z (10 ^ cp k) < 1)%Q).
      { assert (E : (aq x - aq x' == aq x)%Q) by (rewrite Hzx'; ring). rewrite E in Hsmall. exact Hsmall. }
      rewrite (small_is_zero cp x k eq_refl eq_refl Hpx Hcp Hs) in Hzx. discriminate.
    + rewrite Hsx. cbn [bal_find acomm x]. rewrite comm_eqb_refl.
      set (sx := mkAmt (aq x') (aprec x') (akeep x') (Some k)).
      assert (Hs2 : exists s2, amt_sub x sx = Ok s2 /\ acomm s2 = Some k /\ akeep s2 = false /\ cp k < aprec s2 /\
                               (aq s2 == aq x - aq x')%Q).
      { unfold amt_sub, diff_comm. cbn [has_comm acomm x sx]. rewrite comm_eqb_refl. cbn [negb andb].
        eexists. split; [reflexivity|]. cbn [acomm akeep aprec aq x sx]. repeat split.
        - unfold addsub_prec. cbn [has_comm acomm aprec]. cbn. fold x.
          destruct (addsub_prec amt t <? aprec x') eqn:E; [apply Z.ltb_lt in E; unfold x in Hpx; cbn [aprec] in Hpx; lia|].
          unfold x in Hpx. cbn [aprec] in Hpx. exact Hpx.
        - rewrite Qred_correct. reflexivity. }
      destruct Hs2 as [s2 [Hs2 [Hc2 [Hk2 [Hp2 Hq2]]]]]. rewrite Hs2. cbn [bind].
      destruct (is_realzero s2); cbn [bal_erase bal_replace acomm x]; rewrite comm_eqb_refl; cbn [bal_is_zero forallb negb andb bind];
        [reflexivity|].
      assert (Hs : (2 * Qabs (aq s2) * inject_Z (10 ^ cp k) < 1)%Q) by (rewrite Hq2; exact Hsmall).
      rewrite (small_is_zero cp s2 k Hc2 Hk2 Hp2 Hcp Hs). reflexivity.
Qed.

End PrintedAssignment.

(* without assigned amounts the learning view is the transaction itself: Xact.run_journal *)
Lemma run_journal_l_plain ord bucket : forall xs pl,
  run_journal_l ord bucket pl (map (fun x => (x, x)) xs) = run_journal ord bucket pl xs.
Proof. induction xs as [|x xs IH]; intros pl; cbn [map run_journal_l run_journal]; [reflexivity | rewrite IH; reflexivity]. Qed.

(* ================================================================== a cost is never written without its amount *)
Section CostNeedsAmount.

(* post_has_simple_amount's last test (print.cc:66-69): a posting with a cost the user wrote is not simple.
   given_cost is set together with cost (textual.cc:1630) and cost is never cleared, hence the hypothesis *)
Lemma simple_amount_no_written_cost p e :
  simple_amount (p, e) = true -> p_cost_calculated p = false -> p_cost p = None.
Proof.
  unfold simple_amount. intros H Hcc. rewrite Hcc in H. destruct (p_cost p); [|reflexivity].
  cbn [negb] in H. rewrite !andb_false_r in H. discriminate.
Qed.

Theorem cost_shown_only_with_amount cp xs count index first p e ln :
  (e_given e <> None -> p_cost p <> None) ->
  decide_post cp xs count index first (p, e) = Ok (Some ln) ->
  l_cost ln <> None -> l_amt ln <> None.
Proof.
  intros Hinv. unfold decide_post. destruct (p_generated p); [discriminate|].
  destruct (p_calculated p) eqn:Hc; [intros [= <-]; cbn; congruence|].
  destruct (p_amt p) as [a|]; [|intros [= <-]; cbn; congruence].
  destruct (elides count index first (p, e)) eqn:E.
  - (* the amount is left out: then the posting is simple, so no cost is written *)
    destruct (elides_must_balance _ _ _ _ E) as [_ [_ [_ [_ [Hs _]]]]].
    destruct (e_given e) as [g|] eqn:Hg; cbn [orb bind].
    + destruct (p_cost_calculated p) eqn:Hcc; cbn [bind].
      * intros [= <-]. cbn. congruence.
      * exfalso. apply Hinv; [discriminate|]. apply (simple_amount_no_written_cost p e Hs Hcc).
    + intros [= <-]. cbn. congruence.
  - (* the amount is printed *)
    destruct (match e_given e with Some _ => _ | None => _ end) as [c|]; cbn [bind]; [|discriminate].
    intros [= <-]. cbn. discriminate.
Qed.

End CostNeedsAmount.
