(* Proofs about Model/Print.v.  Used by Properties_C06.v. *)
From LedgerV Require Import Base.Prelude Base.Round Model.Amount Model.AmountText Model.Xact Model.Print
  Proofs.AmountProofs Proofs.RoundProofs Proofs.XactProofs.
