(* Proofs about Model/AutoXact.v (automated transactions).  Used by Properties_C16.v. *)
From LedgerV Require Import Base.Prelude Base.Round Gen.AutoXactRoot Gen.PostPred Model.Amount Model.Xact Model.AutoXact
  Proofs.AmountProofs Proofs.RoundProofs Proofs.XactProofs.
From Coq Require Import Qabs Lqa Setoid.
Local Open Scope Q_scope.
Local Opaque Qred.

(* ------------------------------------------------------------ the quick matcher and its memo *)

(* the next two lemmas hold whatever cases the source has: pp_ok is not looked into *)
Local Opaque pp_ok.

(* post_pred, when it does not throw, returns what the full predicate returns (whatever the source's
   set of cases is: a case that is not there only makes the quick matcher decline) *)
Lemma quick_eval_sound payee p : forall e b, quick_eval p e = Some b -> pred_eval payee p e = Ok b.
Proof.
  induction e as [s | s | a | a | q IH | q IHq r IHr | q IHq r IHr | c | q IHq r IHr | c IHc q IHq r IHr];
    intros b; cbn [quick_eval pred_eval]; try match goal with |- None = Some _ -> _ => discriminate end.
  - destruct (pp_ok PpMatchAccount); [|discriminate]. intros [= <-]. reflexivity.
  - destruct (pp_ok PpNot); [|discriminate].
    destruct (quick_eval p q) as [bq|]; [|discriminate]. intros [= <-].
    rewrite (IH bq eq_refl). reflexivity.
  - destruct (pp_ok PpAnd); [|discriminate].
    destruct (quick_eval p q) as [[|]|]; try discriminate.
    + intros H. rewrite (IHq true eq_refl). cbn [bind]. apply IHr. exact H.
    + intros [= <-]. rewrite (IHq false eq_refl). reflexivity.
  - destruct (pp_ok PpOr); [|discriminate].
    destruct (quick_eval p q) as [[|]|]; try discriminate.
    + intros [= <-]. rewrite (IHq true eq_refl). reflexivity.
    + intros H. rewrite (IHq false eq_refl). cbn [bind]. apply IHr. exact H.
  - destruct (pp_ok PpValue); [|discriminate]. intros [= <-]. reflexivity.
  - destruct (pp_ok PpEq); [|discriminate].
    destruct (quick_eval p q) as [bq|]; [|discriminate].
    destruct (quick_eval p r) as [br|]; [|discriminate]. intros [= <-].
    rewrite (IHq bq eq_refl), (IHr br eq_refl). reflexivity.
  - destruct (pp_ok PpQuery); [|discriminate].
    destruct (quick_eval p c) as [[|]|]; try discriminate.
    + intros H. rewrite (IHc true eq_refl). cbn [bind]. apply IHq. exact H.
    + intros H. rewrite (IHc false eq_refl). cbn [bind]. apply IHr. exact H.
Qed.

(* and it looks at nothing but the account name: memoising by name is transparent *)
Lemma quick_eval_acct_only p p' : p_acct p = p_acct p' -> forall e, quick_eval p e = quick_eval p' e.
Proof.
  intros Ha. induction e as [s | s | a | a | q IH | q IHq r IHr | q IHq r IHr | c | q IHq r IHr | c IHc q IHq r IHr];
    cbn [quick_eval]; try match goal with |- None = None => reflexivity end.
  - rewrite Ha. reflexivity.
  - rewrite IH. reflexivity.
  - rewrite IHq, IHr. reflexivity.
  - rewrite IHq, IHr. reflexivity.
  - reflexivity.
  - rewrite IHq, IHr. reflexivity.
  - rewrite IHc, IHq, IHr. reflexivity.
Qed.

Local Transparent pp_ok.

(* the source has the seven cases in the transcribed form (Gen/PostPred.v, regenerated on every run) *)
Lemma post_pred_cases_transcribed :
  (forall o, src_post_pred o = PpAsTranscribed) /\ src_post_pred_no_other_case = true /\ src_post_pred_frame = true.
Proof. split; [intros []; reflexivity | split; reflexivity]. Qed.

Lemma pp_ok_all : forall o, pp_ok o = true.
Proof. intros []; reflexivity. Qed.

(* on a predicate built from account matches and constants by ! & | == ?: the quick matcher always
   answers - REQUIRES every one of the seven cases to be in the source *)
Lemma quick_eval_total_on_acct_only p : forall e, acct_only e = true -> exists b, quick_eval p e = Some b.
Proof.
  induction e as [s | s | a | a | q IH | q IHq r IHr | q IHq r IHr | c | q IHq r IHr | c IHc q IHq r IHr];
    cbn [acct_only quick_eval]; intros H; try discriminate; rewrite ?pp_ok_all.
  - eexists; reflexivity.
  - destruct (IH H) as [b ->]. eexists; reflexivity.
  - apply andb_prop in H as [H1 H2]. destruct (IHq H1) as [[|] ->]; [apply IHr; exact H2 | eexists; reflexivity].
  - apply andb_prop in H as [H1 H2]. destruct (IHq H1) as [[|] ->]; [eexists; reflexivity | apply IHr; exact H2].
  - eexists; reflexivity.
  - apply andb_prop in H as [H1 H2]. destruct (IHq H1) as [bq ->]. destruct (IHr H2) as [br ->]. eexists; reflexivity.
  - apply andb_prop in H as [H12 H3]. apply andb_prop in H12 as [H1 H2].
    destruct (IHc H1) as [[|] ->]; [apply IHq; exact H2 | apply IHr; exact H3].
Qed.

(* ... and its answer is the value of the full predicate, for every payee and every amount *)
Lemma acct_only_full_value payee p e :
  acct_only e = true -> exists b, quick_eval p e = Some b /\ pred_eval payee p e = Ok b.
Proof.
  intros H. destruct (quick_eval_total_on_acct_only p e H) as [b Hb].
  exists b. split; [exact Hb | apply quick_eval_sound; exact Hb].
Qed.

(* a payee match or an amount comparison at the top makes the quick matcher decline *)
Lemma quick_eval_declines_atoms p e :
  match e with PPayee _ | PAmtLt _ | PAmtGt _ => quick_eval p e = None | _ => True end.
Proof. destruct e; exact I || reflexivity. Qed.

(* the new operators of the full predicate *)
Lemma pred_eval_const payee p b : pred_eval payee p (PConst b) = Ok b.
Proof. reflexivity. Qed.

Lemma pred_eval_eq payee p q r a b :
  pred_eval payee p q = Ok a -> pred_eval payee p r = Ok b ->
  pred_eval payee p (PEq q r) = Ok (Bool.eqb a b).
Proof. intros Hq Hr. cbn [pred_eval]. rewrite Hq, Hr. reflexivity. Qed.

Lemma pred_eval_eq_error_left payee p q r e :
  pred_eval payee p q = Err e -> pred_eval payee p (PEq q r) = Err e.
Proof. intros Hq. cbn [pred_eval]. rewrite Hq. reflexivity. Qed.

Lemma pred_eval_query payee p c q r b :
  pred_eval payee p c = Ok b ->
  pred_eval payee p (PQuery c q r) = pred_eval payee p (if b then q else r).
Proof. intros Hc. cbn [pred_eval]. rewrite Hc. cbn [bind]. destruct b; reflexivity. Qed.

(* == on predicates is "not exclusive or"; c ? q : r is (c & q) | (!c & r) *)
Lemma pred_eval_eq_as_connectives payee p q r a b :
  pred_eval payee p q = Ok a -> pred_eval payee p r = Ok b ->
  pred_eval payee p (PEq q r) = pred_eval payee p (POr (PAnd q r) (PAnd (PNot q) (PNot r))).
Proof.
  intros Hq Hr. cbn [pred_eval]. rewrite Hq, Hr. cbn [bind]. destruct a, b; cbn [bind negb]; rewrite ?Hr; reflexivity.
Qed.

(* every memo entry is the value of the full predicate on every posting to that account *)
Definition memo_ok (r : rule) (rs : rstate) : Prop :=
  forall a b, memo_find a (rs_memo rs) = Some b ->
  forall payee p, p_acct p = a -> pred_eval payee p (r_pred r) = Ok b.

Lemma memo_ok_init r : memo_ok r rs_init.
Proof. intros a b H. discriminate. Qed.

Lemma match_post_sound r rs payee p :
  memo_ok r rs ->
  fst (match_post r rs payee p) = pred_eval payee p (r_pred r) /\ memo_ok r (snd (match_post r rs payee p)).
Proof.
  intros Hm. unfold match_post. destruct (rs_quick rs); [|split; [reflexivity | exact Hm]].
  destruct (memo_find (p_acct p) (rs_memo rs)) as [b|] eqn:Hf.
  - cbn [fst snd]. split; [|exact Hm]. symmetry. apply (Hm _ _ Hf). reflexivity.
  - destruct (quick_eval p (r_pred r)) as [b|] eqn:Hq; cbn [fst snd].
    + split; [symmetry; apply quick_eval_sound; exact Hq|].
      intros a b' Hf' payee' p' Ha. cbn [rs_memo memo_find] in Hf'.
      destruct (str_eqb (p_acct p) a) eqn:He.
      * injection Hf' as <-. apply str_eqb_spec in He. apply quick_eval_sound.
        rewrite <- Hq. apply quick_eval_acct_only. congruence.
      * apply (Hm _ _ Hf' payee' p' Ha).
    + split; [reflexivity|]. exact Hm.
Qed.

(* ------------------------------------------------------------ the stateless extension *)

Fixpoint gen_pure (cp : comm -> Z) (r : rule) (payee : str) (xstate : pstate) (init : list xpost)
  : res (list xpost) :=
  match init with
  | [] => Ok []
  | ip :: rest =>
      if rule_made (x_post ip) then gen_pure cp r payee xstate rest
      else
        do b <- pred_eval payee (x_post ip) (r_pred r);
        if b then
          do new <- inst_lines cp xstate (x_post ip) (r_lines r);
          do n2 <- gen_pure cp r payee xstate rest;
          Ok (new ++ n2)
        else gen_pure cp r payee xstate rest
  end.

Definition finish (ord : bool) (cp : comm -> Z) (ps new : list xpost) : res (list xpost) :=
  if existsb x_must_balance new
  then do _ <- verify ord cp (map x_post (ps ++ new)); Ok (ps ++ new)
  else Ok (ps ++ new).

Definition extend_pure (ord : bool) (cp : comm -> Z) (r : rule) (payee : str) (xstate : pstate)
           (ps : list xpost) : res (list xpost) :=
  do new <- gen_pure cp r payee xstate ps; finish ord cp ps new.

Fixpoint extend_all_pure (ord : bool) (cp : comm -> Z) (rules : list rule) (payee : str) (xstate : pstate)
         (ps : list xpost) : res (list xpost) :=
  match rules with
  | [] => Ok ps
  | r :: rest => do ps' <- extend_pure ord cp r payee xstate ps; extend_all_pure ord cp rest payee xstate ps'
  end.

Lemma extend_loop_pure cp r payee st : forall init rs,
  memo_ok r rs ->
  fst (extend_loop cp r payee st init rs) = gen_pure cp r payee st init /\
  memo_ok r (snd (extend_loop cp r payee st init rs)).
Proof.
  induction init as [|ip rest IH]; intros rs Hm; cbn [extend_loop gen_pure].
  - split; [reflexivity | exact Hm].
  - destruct (rule_made (x_post ip)); [apply IH; exact Hm|].
    destruct (match_post_sound r rs payee (x_post ip) Hm) as [Hv Hm1].
    destruct (match_post r rs payee (x_post ip)) as [mb rs1]. cbn [fst snd] in Hv, Hm1.
    rewrite <- Hv. destruct mb as [[|]|e]; cbn [bind].
    + destruct (inst_lines cp st (x_post ip) (r_lines r)) as [new|e]; cbn [bind fst snd].
      * destruct (IH rs1 Hm1) as [H1 H2].
        destruct (extend_loop cp r payee st rest rs1) as [r2 rs2]. cbn [fst snd] in *.
        rewrite <- H1. split; [reflexivity | exact H2].
      * split; [reflexivity | exact Hm1].
    + apply IH. exact Hm1.
    + cbn [fst snd]. split; [reflexivity | exact Hm1].
Qed.

Lemma extend_eq_pure ord cp r rs payee st ps :
  memo_ok r rs ->
  fst (extend ord cp r rs payee st ps) = extend_pure ord cp r payee st ps /\
  memo_ok r (snd (extend ord cp r rs payee st ps)).
Proof.
  intros Hm. unfold extend, extend_pure, finish.
  destruct (extend_loop_pure cp r payee st ps rs Hm) as [H1 H2].
  destruct (extend_loop cp r payee st ps rs) as [rn rs']. cbn [fst snd] in *.
  rewrite <- H1. split; [reflexivity | exact H2].
Qed.

Definition rules_ok (rules : list (rule * rstate)) : Prop :=
  Forall (fun rr => memo_ok (fst rr) (snd rr)) rules.

Lemma extend_all_eq_pure ord cp payee st : forall rules ps,
  rules_ok rules ->
  fst (extend_all ord cp rules payee st ps) = extend_all_pure ord cp (map fst rules) payee st ps /\
  rules_ok (snd (extend_all ord cp rules payee st ps)) /\
  map fst (snd (extend_all ord cp rules payee st ps)) = map fst rules.
Proof.
  induction rules as [|[r rs] rest IH]; intros ps Hok; cbn [extend_all extend_all_pure map fst].
  - split; [reflexivity|]. split; [constructor | reflexivity].
  - inversion Hok as [|x l Hr Hrest]; subst. cbn [fst snd] in Hr.
    destruct (extend_eq_pure ord cp r rs payee st ps Hr) as [H1 H2].
    destruct (extend ord cp r rs payee st ps) as [out rs']. cbn [fst snd] in *.
    rewrite <- H1. destruct out as [ps'|e]; cbn [bind].
    + destruct (IH ps' Hrest) as [I1 [I2 I3]].
      destruct (extend_all ord cp rest payee st ps') as [out2 rest']. cbn [fst snd] in *.
      split; [exact I1|]. split; [constructor; [exact H2 | exact I2] | cbn [map fst]; rewrite I3; reflexivity].
    + cbn [fst snd map]. split; [reflexivity|]. split; [constructor; [exact H2 | exact Hrest] | reflexivity].
Qed.

(* the journal loop without rule state *)
Fixpoint process_pure (ord : bool) (pl : pool) (al : aliases) (rules : list rule) (ds : list directive)
  : list (res xoutcome) :=
  match ds with
  | [] => []
  | DRule r :: ds' => process_pure ord (learn_rule pl r) al (rules ++ [r]) ds'
  | DAlias n t :: ds' => process_pure ord pl (alias_seen n t al) rules ds'
  | DTxn t :: ds' =>
      let pl' := learn_posts pl (t_posts t) in
      let cp := cp_of pl' in
      match finalize ord cp None (t_posts t) with
      | Ok (Accepted ps) =>
          (do xs <- extend_all_pure ord cp (map (realias_rule al) rules) (t_payee t) (t_state t)
                                    (lift (t_state t) (map (annotate_cost cp) ps));
           Ok (XAccepted xs)) :: process_pure ord pl' al rules ds'
      | Ok Ignored => Ok XIgnored :: process_pure ord pl' al rules ds'
      | Err e => Err e :: process_pure ord pl' al rules ds'
      end
  end.

Lemma rules_ok_app rules r : rules_ok rules -> rules_ok (rules ++ [(r, rs_init)]).
Proof.
  intros H. apply Forall_app. split; [exact H|]. constructor; [apply memo_ok_init | constructor].
Qed.

(* the memo speaks about the predicate only; re-aliasing the lines' accounts keeps it valid *)
Lemma memo_ok_same_pred r r' rs : r_pred r = r_pred r' -> memo_ok r rs -> memo_ok r' rs.
Proof. intros Hp H a b Hf payee p0 Ha. rewrite <- Hp. apply (H a b Hf payee p0 Ha). Qed.

Lemma rules_ok_realias al rules :
  rules_ok rules -> rules_ok (map (fun rr => (realias_rule al (fst rr), snd rr)) rules).
Proof.
  intros H. induction H as [|[r rs] l Hr _ IH]; cbn [map]; constructor; [|exact IH].
  cbn [fst snd] in *. apply (memo_ok_same_pred r); [reflexivity | exact Hr].
Qed.

Lemma restate_ok al : forall (rules rules' : list (rule * rstate)),
  map fst rules' = map (realias_rule al) (map fst rules) -> rules_ok rules' ->
  rules_ok (combine (map fst rules) (map snd rules')) /\
  map fst (combine (map fst rules) (map snd rules')) = map fst rules.
Proof.
  induction rules as [|[r rs] rules IH]; intros [|[r' rs'] rules'] Hm Hok; cbn [map combine fst snd] in *;
    try discriminate.
  - split; [constructor | reflexivity].
  - injection Hm as Hr Hm. inversion Hok as [|x l H1 H2]; subst. cbn [fst snd] in H1.
    destruct (IH rules' Hm H2) as [I1 I2]. split.
    + constructor; [|exact I1]. cbn [fst snd]. apply (memo_ok_same_pred (realias_rule al r)); [reflexivity | exact H1].
    + rewrite I2. reflexivity.
Qed.

(* the memo and the quick matcher never change a result *)
Theorem process_eq_pure ord : forall ds pl al rules,
  rules_ok rules -> process ord pl al rules ds = process_pure ord pl al (map fst rules) ds.
Proof.
  induction ds as [|d ds IH]; intros pl al rules Hok; cbn [process process_pure]; [reflexivity|].
  destruct d as [r|t|n t].
  - rewrite (IH _ _ _ (rules_ok_app rules r Hok)). rewrite map_app. reflexivity.
  - cbv zeta. destruct (finalize ord (cp_of (learn_posts pl (t_posts t))) None (t_posts t)) as [[ps|]|e].
    + pose proof (rules_ok_realias al rules Hok) as Hok'.
      destruct (extend_all_eq_pure ord (cp_of (learn_posts pl (t_posts t))) (t_payee t) (t_state t)
                  (map (fun rr => (realias_rule al (fst rr), snd rr)) rules)
                  (lift (t_state t) (map (annotate_cost (cp_of (learn_posts pl (t_posts t)))) ps)) Hok')
        as [H1 [H2 H3]].
      destruct (extend_all ord (cp_of (learn_posts pl (t_posts t)))
                  (map (fun rr => (realias_rule al (fst rr), snd rr)) rules) (t_payee t) (t_state t)
                  (lift (t_state t) (map (annotate_cost (cp_of (learn_posts pl (t_posts t)))) ps)))
        as [out rules']. cbn [fst snd] in *.
      rewrite map_map in H1, H3. cbn [fst] in H1, H3.
      assert (Hm : map fst rules' = map (realias_rule al) (map fst rules)) by (rewrite H3, map_map; reflexivity).
      destruct (restate_ok al rules rules' Hm H2) as [R1 R2].
      rewrite H1, (IH _ _ _ R1), R2, map_map. reflexivity.
    + rewrite (IH _ _ _ Hok). reflexivity.
    + rewrite (IH _ _ _ Hok). reflexivity.
  - apply IH. exact Hok.
Qed.

(* ------------------------------------------------------------ what an extension consists of *)

Definition matchesb (r : rule) (payee : str) (x : xpost) : bool :=
  match pred_eval payee (x_post x) (r_pred r) with Ok true => true | _ => false end.

Definition not_generated (x : xpost) : bool := negb (rule_made (x_post x)).

(* the postings a rule fires on: the non-generated ones that match, in posting order *)
Definition candidates (r : rule) (payee : str) (ps : list xpost) : list xpost :=
  filter (matchesb r payee) (filter not_generated ps).

(* the posting a rule line makes for a matched posting (total form of `instantiate`) *)
Definition inst_amt (cp : comm -> Z) (ip : post) (l : rule_line) : amount :=
  match rl_amt l with
  | Some ra => match acomm ra with
               | None => match p_amt ip with Some ia => amt_mul cp ia ra | None => ra end
               | Some _ => ra
               end
  | None => amt_of_Z 0
  end.

Definition inst_post (cp : comm -> Z) (xstate : pstate) (ip : post) (l : rule_line) : xpost :=
  mkX (mkPost (rl_acct l) (rl_kind l) (Some (inst_amt cp ip l)) None None false true false)
      (match xstate with SCleared => SCleared | _ => rl_state l end).

Lemma instantiate_ok cp st ip l x : instantiate cp st ip l = Ok x -> x = inst_post cp st ip l.
Proof.
  unfold instantiate, inst_post, inst_amt. destruct (rl_amt l) as [ra|]; [|discriminate].
  destruct (acomm ra).
  - cbn [bind]. intros [= <-]. reflexivity.
  - destruct (p_amt ip); cbn [bind]; [|discriminate]. intros [= <-]. reflexivity.
Qed.

Lemma map_res_total {A B} (f : A -> res B) (g : A -> B) :
  (forall a b, f a = Ok b -> b = g a) -> forall l ys, map_res f l = Ok ys -> ys = map g l.
Proof.
  intros H. induction l as [|a l IH]; intros ys; cbn [map_res map].
  - intros [= <-]. reflexivity.
  - destruct (f a) as [b|] eqn:E; cbn [bind]; [|discriminate].
    destruct (map_res f l) as [bs|]; cbn [bind]; [|discriminate].
    intros [= <-]. rewrite (H _ _ E), (IH bs eq_refl). reflexivity.
Qed.

Lemma inst_lines_ok cp st ip ls new :
  inst_lines cp st ip ls = Ok new -> new = map (inst_post cp st ip) ls.
Proof. apply map_res_total. intros a b. apply instantiate_ok. Qed.

Definition contribution (cp : comm -> Z) (st : pstate) (r : rule) (payee : str) (ps : list xpost) : list xpost :=
  flat_map (fun x => map (inst_post cp st (x_post x)) (r_lines r)) (candidates r payee ps).

Lemma gen_pure_spec cp r payee st : forall init new,
  gen_pure cp r payee st init = Ok new -> new = contribution cp st r payee init.
Proof.
  unfold contribution, candidates.
  induction init as [|ip rest IH]; intros new; cbn [gen_pure filter flat_map].
  - intros [= <-]. reflexivity.
  - unfold not_generated at 1. destruct (rule_made (x_post ip)); cbn [negb]; [apply IH|].
    cbn [filter]. unfold matchesb at 1.
    destruct (pred_eval payee (x_post ip) (r_pred r)) as [[|]|e]; cbn [bind]; [| apply IH | discriminate].
    destruct (inst_lines cp st (x_post ip) (r_lines r)) as [n1|] eqn:E1; cbn [bind]; [|discriminate].
    destruct (gen_pure cp r payee st rest) as [n2|]; cbn [bind]; [|discriminate].
    intros [= <-]. cbn [flat_map]. rewrite (inst_lines_ok _ _ _ _ _ E1), (IH n2 eq_refl). reflexivity.
Qed.

Lemma finish_postings ord cp ps new ps' : finish ord cp ps new = Ok ps' -> ps' = ps ++ new.
Proof.
  unfold finish. destruct (existsb x_must_balance new).
  - destruct (verify ord cp (map x_post (ps ++ new))); cbn [bind]; [|discriminate]. intros [= <-]. reflexivity.
  - intros [= <-]. reflexivity.
Qed.

(* extend_spec: the input, untouched, followed by one posting per rule line for every
   non-generated matching posting *)
Theorem extend_pure_spec ord cp r payee st ps ps' :
  extend_pure ord cp r payee st ps = Ok ps' -> ps' = ps ++ contribution cp st r payee ps.
Proof.
  unfold extend_pure. destruct (gen_pure cp r payee st ps) as [new|] eqn:E; cbn [bind]; [|discriminate].
  intros H. rewrite (finish_postings _ _ _ _ _ H), (gen_pure_spec _ _ _ _ _ _ E). reflexivity.
Qed.

Theorem extend_spec ord cp r rs payee st ps ps' :
  memo_ok r rs -> fst (extend ord cp r rs payee st ps) = Ok ps' ->
  ps' = ps ++ flat_map (fun x => map (inst_post cp st (x_post x)) (r_lines r))
                       (filter (matchesb r payee) (filter not_generated ps)).
Proof.
  intros Hm H. rewrite (proj1 (extend_eq_pure ord cp r rs payee st ps Hm)) in H.
  apply (extend_pure_spec _ _ _ _ _ _ _ H).
Qed.

(* ------------------------------------------------------------ generated postings never match *)

Lemma inst_post_generated cp st ip l : rule_made (x_post (inst_post cp st ip l)) = true.
Proof. reflexivity. Qed.

Lemma contribution_generated cp st r payee ps x :
  In x (contribution cp st r payee ps) -> rule_made (x_post x) = true.
Proof.
  unfold contribution. intros H. apply in_flat_map in H as [y [_ Hy]].
  apply in_map_iff in Hy as [l [<- _]]. reflexivity.
Qed.

Lemma filter_app_none {A} (f : A -> bool) l new :
  (forall x, In x new -> f x = false) -> filter f (l ++ new) = filter f l.
Proof.
  intros H. rewrite filter_app. replace (filter f new) with (@nil A); [apply app_nil_r|].
  symmetry. induction new as [|x new IH]; [reflexivity|]. cbn [filter].
  rewrite (H x (or_introl eq_refl)). apply IH. intros y Hy. apply H. right. exact Hy.
Qed.

Lemma candidates_app_generated r payee ps new :
  (forall x, In x new -> rule_made (x_post x) = true) ->
  candidates r payee (ps ++ new) = candidates r payee ps.
Proof.
  intros H. unfold candidates. rewrite (filter_app_none not_generated ps new); [reflexivity|].
  intros x Hx. unfold not_generated. rewrite (H x Hx). reflexivity.
Qed.

Lemma contribution_app_generated cp st r payee ps new :
  (forall x, In x new -> rule_made (x_post x) = true) ->
  contribution cp st r payee (ps ++ new) = contribution cp st r payee ps.
Proof. intros H. unfold contribution. rewrite (candidates_app_generated _ _ _ _ H). reflexivity. Qed.

(* no_rematch: for any number and order of rules, the result is the input followed by every
   rule's contribution computed on the INPUT transaction: what one rule generates is never seen
   by another rule (or by itself) *)
Theorem extend_all_pure_spec ord cp payee st : forall rules ps ps',
  extend_all_pure ord cp rules payee st ps = Ok ps' ->
  ps' = ps ++ flat_map (fun r => contribution cp st r payee ps) rules.
Proof.
  intros rules ps.
  assert (G : forall rules extra ps',
             (forall x, In x extra -> rule_made (x_post x) = true) ->
             extend_all_pure ord cp rules payee st (ps ++ extra) = Ok ps' ->
             ps' = (ps ++ extra) ++ flat_map (fun r => contribution cp st r payee ps) rules).
  { induction rules0 as [|r rest IH]; intros extra ps' Hg; cbn [extend_all_pure flat_map].
    - intros [= <-]. rewrite app_nil_r. reflexivity.
    - destruct (extend_pure ord cp r payee st (ps ++ extra)) as [p1|] eqn:E; cbn [bind]; [|discriminate].
      intros H. pose proof (extend_pure_spec _ _ _ _ _ _ _ E) as Hp1.
      rewrite (contribution_app_generated _ _ _ _ _ _ Hg) in Hp1.
      rewrite Hp1, <- app_assoc in H.
      apply IH in H.
      + rewrite H. rewrite <- !app_assoc. reflexivity.
      + intros x Hx. apply in_app_or in Hx as [Hx|Hx]; [apply Hg; exact Hx|].
        apply (contribution_generated _ _ _ _ _ _ Hx). }
  intros ps' H. specialize (G rules [] ps'). rewrite !app_nil_r in G. apply G; [intros x []| exact H].
Qed.

Theorem extend_all_spec ord cp rules payee st ps ps' :
  rules_ok rules -> fst (extend_all ord cp rules payee st ps) = Ok ps' ->
  ps' = ps ++ flat_map (fun r => contribution cp st r payee ps) (map fst rules).
Proof.
  intros Hok H. rewrite (proj1 (extend_all_eq_pure ord cp payee st rules ps Hok)) in H.
  apply (extend_all_pure_spec _ _ _ _ _ _ _ H).
Qed.

(* a rule without a matching non-generated posting leaves the transaction alone *)
Theorem no_match_untouched ord cp r payee st ps :
  (forall x, In x ps -> rule_made (x_post x) = false -> pred_eval payee (x_post x) (r_pred r) = Ok false) ->
  extend_pure ord cp r payee st ps = Ok ps.
Proof.
  intros H. unfold extend_pure.
  assert (G : gen_pure cp r payee st ps = Ok []).
  { induction ps as [|ip rest IH]; cbn [gen_pure]; [reflexivity|].
    destruct (rule_made (x_post ip)) eqn:Hg.
    - apply IH. intros x Hx. apply H. right. exact Hx.
    - rewrite (H ip (or_introl eq_refl) Hg). cbn [bind]. apply IH. intros x Hx. apply H. right. exact Hx. }
  rewrite G. cbn [bind]. unfold finish. cbn [existsb]. rewrite app_nil_r. reflexivity.
Qed.

(* ------------------------------------------------------------ only later transactions *)

Definition rules_in (ds : list directive) : list rule :=
  flat_map (fun d => match d with DRule r => [r] | _ => [] end) ds.

Definition pool_after (pl : pool) (ds : list directive) : pool :=
  fold_left (fun acc d => match d with
                          | DRule r => learn_rule acc r
                          | DTxn t => learn_posts acc (t_posts t)
                          | DAlias _ _ => acc
                          end) ds pl.

Definition aliases_after (al : aliases) (ds : list directive) : aliases :=
  fold_left (fun acc d => match d with DAlias n t => alias_seen n t acc | _ => acc end) ds al.

(* the results for ds1 do not depend on what follows; what follows sees exactly the rules
   before it, in file order *)
Theorem process_pure_app ord : forall ds1 pl al rules ds2,
  process_pure ord pl al rules (ds1 ++ ds2) =
  process_pure ord pl al rules ds1 ++
  process_pure ord (pool_after pl ds1) (aliases_after al ds1) (rules ++ rules_in ds1) ds2.
Proof.
  induction ds1 as [|d ds1 IH]; intros pl al rules ds2;
    cbn [app process_pure pool_after aliases_after rules_in flat_map fold_left].
  - rewrite app_nil_r. reflexivity.
  - destruct d as [r|t|n t].
    + rewrite IH. cbn [app]. rewrite <- app_assoc. reflexivity.
    + cbv zeta. cbn [app].
      destruct (finalize ord (cp_of (learn_posts pl (t_posts t))) None (t_posts t)) as [[ps|]|e];
        rewrite IH; reflexivity.
    + rewrite IH. reflexivity.
Qed.

Theorem only_later ord pl al rules ds1 r ds2 :
  firstn (length (process_pure ord pl al rules ds1)) (process_pure ord pl al rules (ds1 ++ DRule r :: ds2)) =
  process_pure ord pl al rules ds1.
Proof.
  rewrite process_pure_app. rewrite firstn_app, Nat.sub_diag, firstn_all. cbn [firstn]. apply app_nil_r.
Qed.

Theorem only_later_stateful ord pl al ds1 r ds2 :
  firstn (length (process ord pl al [] ds1)) (process ord pl al [] (ds1 ++ DRule r :: ds2)) = process ord pl al [] ds1.
Proof.
  rewrite !(process_eq_pure ord _ pl al [] (Forall_nil _)). apply only_later.
Qed.

(* ------------------------------------------------------------ amounts of the new postings *)

Theorem multiplier_exact cp st ip l x ra ia :
  instantiate cp st ip l = Ok x -> rl_amt l = Some ra -> acomm ra = None -> p_amt ip = Some ia ->
  exists a, p_amt (x_post x) = Some a /\ aq a == aq ia * aq ra /\ acomm a = acomm ia /\ akeep a = akeep ia /\
            p_acct (x_post x) = rl_acct l /\ p_kind (x_post x) = rl_kind l /\
            rule_made (x_post x) = true /\ p_cost (x_post x) = None.
Proof.
  unfold instantiate. intros H Hra Hc Hia. rewrite Hra, Hc, Hia in H. cbn [bind] in H. injection H as <-.
  unfold rule_made. cbn [x_post p_amt p_acct p_kind p_generated p_calculated p_cost negb andb]. eexists. split; [reflexivity|].
  split; [apply amt_mul_exact|]. unfold amt_mul. cbn [acomm akeep].
  split; [|repeat split]. destruct (acomm ia); [reflexivity | exact Hc].
Qed.

Theorem fixed_as_written cp st ip l x ra c :
  instantiate cp st ip l = Ok x -> rl_amt l = Some ra -> acomm ra = Some c ->
  p_amt (x_post x) = Some ra /\ p_acct (x_post x) = rl_acct l /\ p_kind (x_post x) = rl_kind l /\
  rule_made (x_post x) = true.
Proof.
  unfold instantiate. intros H Hra Hc. rewrite Hra, Hc in H. cbn [bind] in H. injection H as <-.
  repeat split.
Qed.

Theorem generated_state cp st ip l x :
  instantiate cp st ip l = Ok x ->
  x_state x = match st with SCleared => SCleared | _ => rl_state l end.
Proof. intros H. rewrite (instantiate_ok _ _ _ _ _ H). reflexivity. Qed.

Theorem no_amount_line_rejected cp st ip l : rl_amt l = None -> instantiate cp st ip l = Err EBadAmount.
Proof. intros H. unfold instantiate. rewrite H. reflexivity. Qed.

(* ------------------------------------------------------------ verify *)

Lemma verify_cases ord cp ps :
  (count_nulls ps <= 1)%nat -> existsb same_comm_cost ps = false ->
  exists bal nul, scan_posts ord ps 0 VVoid None = Ok (bal, nul) /\
    verify ord cp ps = if v_is_zero cp bal then Ok tt else Err EUnbalanced.
Proof.
  intros Hn Hc. destruct (scan_posts_total ord ps 0%nat VVoid None I Hn) as [bal [nul [Hs _]]].
  exists bal, nul. split; [exact Hs|]. unfold verify. rewrite Hs. cbn [bind fst]. rewrite Hc.
  destruct (v_is_zero cp bal); reflexivity.
Qed.

Theorem verify_rejects_whole_unit ord cp ps c :
  (forall k, 0 <= cp k <= 230)%Z -> (count_nulls ps <= 1)%nat -> existsb same_comm_cost ps = false ->
  1 <= Qabs (bsum ps c) -> verify ord cp ps = Err EUnbalanced.
Proof.
  intros Hcp Hn Hc Hbig. destruct (verify_cases ord cp ps Hn Hc) as [bal [nul [Hs ->]]].
  destruct (v_is_zero cp bal) eqn:Hz; [|reflexivity]. exfalso.
  destruct (scan_posts_nodup ord ps 0%nat VVoid None bal nul I I Hs) as [Hnd Hsv].
  pose proof (v_is_zero_lt_unit cp bal c Hcp Hsv Hnd Hz) as Hlt.
  assert (He : den bal c == bsum ps c).
  { rewrite (scan_posts_exact ord c _ _ _ _ _ _ Hs). cbn [den]. ring. }
  rewrite He in Hlt. apply (Qlt_not_le _ _ Hlt). exact Hbig.
Qed.

Theorem verify_accepts_exact ord cp ps :
  (count_nulls ps <= 1)%nat -> existsb same_comm_cost ps = false ->
  (forall c, bsum ps c == 0) -> verify ord cp ps = Ok tt.
Proof.
  intros Hn Hc Hz. destruct (verify_cases ord cp ps Hn Hc) as [bal [nul [Hs ->]]].
  destruct (scan_posts_nodup ord ps 0%nat VVoid None bal nul I I Hs) as [Hnd Hsv].
  rewrite (v_zero_den_is_zero cp bal Hsv Hnd); [reflexivity|].
  intros c. rewrite (scan_posts_exact ord c _ _ _ _ _ _ Hs). cbn [den]. rewrite (Hz c). ring.
Qed.

Theorem verify_ok_below_unit ord cp ps c :
  (forall k, 0 <= cp k <= 230)%Z -> verify ord cp ps = Ok tt -> Qabs (bsum ps c) < 1.
Proof.
  intros Hcp. unfold verify. destruct (scan_posts ord ps 0 VVoid None) as [[bal nul]|] eqn:Hs; cbn [bind fst]; [|discriminate].
  destruct (existsb same_comm_cost ps); [discriminate|].
  destruct (v_is_zero cp bal) eqn:Hz; cbn [negb]; [|discriminate]. intros _.
  destruct (scan_posts_nodup ord ps 0%nat VVoid None bal nul I I Hs) as [Hnd Hsv].
  pose proof (v_is_zero_lt_unit cp bal c Hcp Hsv Hnd Hz) as Hlt.
  assert (He : den bal c == bsum ps c).
  { rewrite (scan_posts_exact ord c _ _ _ _ _ _ Hs). cbn [den]. ring. }
  rewrite <- He. exact Hlt.
Qed.

(* an extension with a new must-balance posting that is off by a whole unit is an error *)
Theorem extended_unbalanced_rejected ord cp r payee st ps c :
  let ps' := ps ++ contribution cp st r payee ps in
  (forall k, 0 <= cp k <= 230)%Z ->
  (exists new, gen_pure cp r payee st ps = Ok new) ->
  existsb x_must_balance (contribution cp st r payee ps) = true ->
  (count_nulls (map x_post ps') <= 1)%nat -> existsb same_comm_cost (map x_post ps') = false ->
  1 <= Qabs (bsum (map x_post ps') c) ->
  extend_pure ord cp r payee st ps = Err EUnbalanced.
Proof.
  intros ps' Hcp [new Hg] Hmb Hn Hc Hbig. unfold extend_pure. rewrite Hg. cbn [bind].
  pose proof (gen_pure_spec _ _ _ _ _ _ Hg) as ->. unfold finish. rewrite Hmb.
  fold ps'. rewrite (verify_rejects_whole_unit ord cp _ c Hcp Hn Hc Hbig). reflexivity.
Qed.

(* an accepted extension with a new must-balance posting displays as balanced: below one unit
   in every commodity *)
Theorem extended_accepted_balances ord cp r payee st ps ps' c :
  (forall k, 0 <= cp k <= 230)%Z ->
  extend_pure ord cp r payee st ps = Ok ps' ->
  existsb x_must_balance (contribution cp st r payee ps) = true ->
  Qabs (bsum (map x_post ps') c) < 1.
Proof.
  intros Hcp H Hmb. pose proof (extend_pure_spec _ _ _ _ _ _ _ H) as Hp. unfold extend_pure in H.
  destruct (gen_pure cp r payee st ps) as [new|] eqn:Hg; cbn [bind] in H; [|discriminate].
  pose proof (gen_pure_spec _ _ _ _ _ _ Hg) as ->. unfold finish in H. rewrite Hmb in H.
  destruct (verify ord cp (map x_post (ps ++ contribution cp st r payee ps))) as [[]|] eqn:Hv; cbn [bind] in H; [|discriminate].
  rewrite Hp. apply (verify_ok_below_unit ord cp _ c Hcp Hv).
Qed.

(* an exactly balanced extension is accepted *)
Theorem extended_balanced_accepted ord cp r payee st ps :
  let ps' := ps ++ contribution cp st r payee ps in
  (exists new, gen_pure cp r payee st ps = Ok new) ->
  (count_nulls (map x_post ps') <= 1)%nat -> existsb same_comm_cost (map x_post ps') = false ->
  (forall c, bsum (map x_post ps') c == 0) ->
  extend_pure ord cp r payee st ps = Ok ps'.
Proof.
  intros ps' [new Hg] Hn Hc Hz. unfold extend_pure. rewrite Hg. cbn [bind].
  pose proof (gen_pure_spec _ _ _ _ _ _ Hg) as ->. unfold finish. fold ps'.
  rewrite (verify_accepts_exact ord cp _ Hn Hc Hz). cbn [bind]. destruct (existsb x_must_balance _); reflexivity.
Qed.

(* postings in (parentheses) never trigger the balance check *)
Theorem virtual_only_not_verified ord cp r payee st ps new :
  gen_pure cp r payee st ps = Ok new -> existsb x_must_balance new = false ->
  extend_pure ord cp r payee st ps = Ok (ps ++ new).
Proof. intros Hg Hv. unfold extend_pure, finish. rewrite Hg. cbn [bind]. rewrite Hv. reflexivity. Qed.

(* ------------------------------------------------------------ the whole journal *)

Definition txn_result (ord : bool) (pl : pool) (al : aliases) (rules : list rule) (t : txn) : res xoutcome :=
  let pl' := learn_posts pl (t_posts t) in
  let cp := cp_of pl' in
  match finalize ord cp None (t_posts t) with
  | Ok (Accepted ps) =>
      do xs <- extend_all_pure ord cp (map (realias_rule al) rules) (t_payee t) (t_state t)
                               (lift (t_state t) (map (annotate_cost cp) ps));
      Ok (XAccepted xs)
  | Ok Ignored => Ok XIgnored
  | Err e => Err e
  end.

(* the result of a transaction depends on the directives before it only, and the rules applied
   to it are exactly the rules written before it, in file order (their lines' accounts run
   through the aliases in force at the transaction) *)
Theorem txn_sees_rules_before ord pl al rules ds1 t ds2 :
  nth_error (process_pure ord pl al rules (ds1 ++ DTxn t :: ds2)) (length (process_pure ord pl al rules ds1)) =
  Some (txn_result ord (pool_after pl ds1) (aliases_after al ds1) (rules ++ rules_in ds1) t).
Proof.
  rewrite process_pure_app. rewrite nth_error_app2, Nat.sub_diag by apply Nat.le_refl.
  cbn [process_pure]. unfold txn_result. cbv zeta.
  destruct (finalize ord (cp_of (learn_posts (pool_after pl ds1) (t_posts t))) None (t_posts t)) as [[ps|]|e];
    reflexivity.
Qed.

Lemma flat_map_map {A B C} (f : B -> list C) (g : A -> B) l : flat_map f (map g l) = flat_map (fun x => f (g x)) l.
Proof. induction l as [|x l IH]; cbn [map flat_map]; [reflexivity|]. rewrite IH. reflexivity. Qed.

(* C16 for a whole journal: an accepted transaction consists of its finalized postings,
   untouched, followed, for every rule written before it (file order) and every non-generated
   finalized posting matching that rule (posting order), by one posting per rule line *)
Theorem journal_extension_spec ord pl al ds1 t ds2 xs :
  let cp := cp_of (learn_posts (pool_after pl ds1) (t_posts t)) in
  let al' := aliases_after al ds1 in
  nth_error (process ord pl al [] (ds1 ++ DTxn t :: ds2)) (length (process ord pl al [] ds1)) = Some (Ok (XAccepted xs)) ->
  exists ps, finalize ord cp None (t_posts t) = Ok (Accepted ps) /\
    let base := lift (t_state t) (map (annotate_cost cp) ps) in
    xs = base ++ flat_map (fun r => contribution cp (t_state t) (realias_rule al' r) (t_payee t) base) (rules_in ds1).
Proof.
  intros cp al'. rewrite !(process_eq_pure ord _ pl al [] (Forall_nil _)). cbn [map].
  rewrite txn_sees_rules_before. unfold txn_result. cbv zeta. fold cp. fold al'. cbn [app].
  destruct (finalize ord cp None (t_posts t)) as [[ps|]|e]; try discriminate.
  destruct (extend_all_pure ord cp (map (realias_rule al') (rules_in ds1)) (t_payee t) (t_state t)
                            (lift (t_state t) (map (annotate_cost cp) ps)))
    as [ys|] eqn:E; cbn [bind]; [|discriminate].
  intros [= <-]. exists ps. split; [reflexivity|]. cbv zeta.
  rewrite (extend_all_pure_spec _ _ _ _ _ _ _ E), flat_map_map. reflexivity.
Qed.

(* a transaction with no rule before it is exactly its finalized self *)
Corollary no_rule_before_untouched ord pl al ds1 t ds2 xs :
  let cp := cp_of (learn_posts (pool_after pl ds1) (t_posts t)) in
  rules_in ds1 = [] ->
  nth_error (process ord pl al [] (ds1 ++ DTxn t :: ds2)) (length (process ord pl al [] ds1)) = Some (Ok (XAccepted xs)) ->
  exists ps, finalize ord cp None (t_posts t) = Ok (Accepted ps) /\ xs = lift (t_state t) (map (annotate_cost cp) ps).
Proof.
  intros cp Hr H. destruct (journal_extension_spec ord pl al ds1 t ds2 xs H) as [ps [Hf Hx]].
  exists ps. split; [exact Hf|]. cbv zeta in Hx. rewrite Hr in Hx. cbn [flat_map] in Hx.
  rewrite app_nil_r in Hx. exact Hx.
Qed.

(* ------------------------------------------------------------ the matcher is substring search *)

Lemma prefix_ci_spec pat : forall s,
  prefix_ci pat s = true <-> exists mid post, s = mid ++ post /\ map lower mid = map lower pat.
Proof.
  induction pat as [|x pat IH]; intros s; cbn [prefix_ci].
  - split; [intros _; exists [], s; split; reflexivity | reflexivity].
  - destruct s as [|y s].
    + split; [discriminate|]. intros [mid [post [H1 H2]]]. destruct mid; [discriminate H2 | discriminate H1].
    + rewrite andb_true_iff, Z.eqb_eq, IH. split.
      * intros [Hx [mid [post [-> Hm]]]]. exists (y :: mid), post. split; [reflexivity|].
        cbn [map]. rewrite Hm, Hx. reflexivity.
      * intros [mid [post [H1 H2]]]. destruct mid as [|m mid]; [discriminate H2|].
        cbn [map app] in *. injection H1 as -> ->. injection H2 as Hx Hm.
        split; [symmetry; exact Hx|]. exists mid, post. split; [reflexivity | exact Hm].
Qed.

Theorem substr_ci_spec pat : forall s,
  substr_ci pat s = true <->
  exists pre mid post, s = pre ++ mid ++ post /\ map lower mid = map lower pat.
Proof.
  induction s as [|y s IH]; cbn [substr_ci]; rewrite orb_true_iff, prefix_ci_spec.
  - split.
    + intros [[mid [post [H1 H2]]]|H]; [|discriminate]. exists [], mid, post. split; [exact H1 | exact H2].
    + intros [pre [mid [post [H1 H2]]]]. left. destruct pre; [|discriminate H1]. exists mid, post. split; assumption.
  - rewrite IH. split.
    + intros [[mid [post [H1 H2]]]|[pre [mid [post [H1 H2]]]]].
      * exists [], mid, post. split; assumption.
      * exists (y :: pre), mid, post. split; [rewrite H1; reflexivity | exact H2].
    + intros [pre [mid [post [H1 H2]]]]. destruct pre as [|z pre].
      * left. exists mid, post. split; assumption.
      * right. cbn [app] in H1. injection H1 as _ H1. exists pre, mid, post. split; assumption.
Qed.

(* the connectives are the boolean ones wherever both sides are defined *)
Theorem pred_connectives payee p q r bq br :
  pred_eval payee p q = Ok bq -> pred_eval payee p r = Ok br ->
  pred_eval payee p (PNot q) = Ok (negb bq) /\
  pred_eval payee p (PAnd q r) = Ok (bq && br) /\
  pred_eval payee p (POr q r) = Ok (bq || br).
Proof.
  intros Hq Hr. cbn [pred_eval]. rewrite Hq, Hr. cbn [bind]. destruct bq; repeat split; reflexivity.
Qed.

(* ------------------------------------------------------------ every posting of the user is matched *)

(* nothing finalize returns looks rule-made: the postings it creates for the further
   commodities of an elided amount are flagged calculated as well as generated *)
Definition user_made (p : post) : Prop := rule_made p = false.

Lemma user_made_written p : p_generated p = false -> user_made p.
Proof. intros H. unfold user_made, rule_made. rewrite H. reflexivity. Qed.

Lemma apply_rate_user ord cp rate c : forall ps bal ps' bal',
  Forall user_made ps -> apply_rate ord cp rate c ps bal = Ok (ps', bal') -> Forall user_made ps'.
Proof.
  induction ps as [|p ps IH]; intros bal ps' bal' Hu; cbn [apply_rate].
  - intros [= <- <-]. constructor.
  - inversion Hu as [|q l Hp Hps]; subst.
    assert (K : forall b r, apply_rate ord cp rate c ps b = Ok r -> Forall user_made (fst r)).
    { intros b [x y] E. apply (IH _ _ _ Hps E). }
    destruct (p_amt p) as [amt|].
    + destruct (must_balance p && comm_eqb (acomm amt) c).
      * destruct (v_sub ord bal (VAmt amt)) as [b1|]; cbn [bind]; [|discriminate].
        destruct (v_add ord b1 (VAmt (amt_mul cp rate amt))) as [b2|]; cbn [bind]; [|discriminate].
        destruct (apply_rate ord cp rate c ps b2) as [r|] eqn:E; cbn [bind]; [|discriminate].
        intros [= <- <-]. constructor; [exact Hp | apply (K _ _ E)].
      * destruct (apply_rate ord cp rate c ps bal) as [r|] eqn:E; cbn [bind]; [|discriminate].
        intros [= <- <-]. constructor; [exact Hp | apply (K _ _ E)].
    + destruct (apply_rate ord cp rate c ps bal) as [r|] eqn:E; cbn [bind]; [|discriminate].
      intros [= <- <-]. constructor; [exact Hp | apply (K _ _ E)].
Qed.

Lemma infer_rate_user ord cp ps bal nul ps' bal' :
  Forall user_made ps -> infer_rate ord cp ps bal nul = Ok (ps', bal') -> Forall user_made ps'.
Proof.
  intros Hu. unfold infer_rate.
  assert (Id : Ok (ps, bal) = Ok (ps', bal') -> Forall user_made ps') by (intros [= <- <-]; exact Hu).
  destruct nul; [exact Id|]. destruct bal as [| | | |b]; try exact Id.
  destruct (filter (fun a => negb (is_realzero a)) b) as [|x0 [|y0 [|z b']]]; try exact Id.
  destruct (find_top _ ps None) as [[tp|] [|]]; try exact Id.
  destruct (negb (is_zero cp x0) && negb (is_zero cp y0)); [|exact Id].
  destruct (comm_eqb (acomm x0) match p_amt tp with Some a => acomm a | None => None end).
  - destruct (amt_div cp y0 x0) as [q|]; cbn [bind]; [|discriminate]. apply apply_rate_user. exact Hu.
  - destruct (amt_div cp x0 y0) as [q|]; cbn [bind]; [|discriminate]. apply apply_rate_user. exact Hu.
Qed.

Lemma exchange_posts_user ord cp : forall ps bal ps' bal',
  Forall user_made ps -> exchange_posts ord cp ps bal = Ok (ps', bal') -> Forall user_made ps'.
Proof.
  induction ps as [|p ps IH]; intros bal ps' bal' Hu; cbn [exchange_posts].
  - intros [= <- <-]. constructor.
  - inversion Hu as [|q l Hp Hps]; subst.
    assert (K : forall b r, exchange_posts ord cp ps b = Ok r -> Forall user_made (fst r)).
    { intros b [x y] E. apply (IH _ _ _ Hps E). }
    assert (Same : forall b, (do r <- exchange_posts ord cp ps b; Ok (p :: fst r, snd r)) = Ok (ps', bal') ->
                             Forall user_made ps').
    { intros b. destruct (exchange_posts ord cp ps b) as [r|] eqn:E; cbn [bind]; [|discriminate].
      intros [= <- <-]. constructor; [exact Hp | apply (K _ _ E)]. }
    destruct (p_amt p) as [amt|]; [|apply Same]. destruct (p_cost p) as [cost|]; [|apply Same].
    destruct (comm_eqb (acomm amt) (acomm cost)); [discriminate|].
    destruct (p_lotprice p) as [lp|]; [|apply Same].
    cbv zeta. destruct (comm_eqb _ (acomm cost)); [|apply Same].
    destruct (amt_sub _ cost) as [gl|]; cbn [bind]; [|discriminate].
    destruct (is_zero cp gl); [apply Same|].
    destruct (if must_balance p then add_or_set ord bal (unkeep gl) else Ok bal) as [b1|]; cbn [bind]; [|discriminate].
    destruct (amt_add cost (unkeep gl)) as [c1|]; cbn [bind]; [|discriminate].
    destruct (exchange_posts ord cp ps b1) as [r|] eqn:E; cbn [bind]; [|discriminate].
    intros [= <- <-]. constructor; [exact Hp | apply (K _ _ E)].
Qed.

Lemma set_null_user : forall ps i a, Forall user_made ps -> Forall user_made (set_null ps i a).
Proof.
  induction ps as [|p ps IH]; intros i a Hu; cbn [set_null]; [constructor|].
  inversion Hu as [|q l Hp Hps]; subst. destruct i.
  - constructor; [|exact Hps]. unfold user_made, rule_made. cbn. apply andb_false_r.
  - constructor; [exact Hp | apply IH; exact Hps].
Qed.

Lemma fill_null_user ps i amts : Forall user_made ps -> Forall user_made (fill_null ps i amts).
Proof.
  intros Hu. unfold fill_null. destruct amts as [|a rest]; [exact Hu|].
  apply Forall_app. split; [apply set_null_user; exact Hu|].
  apply Forall_forall. intros x Hx. apply in_map_iff in Hx as [y [<- _]]. reflexivity.
Qed.

Lemma finalize_rest_user ord cp ps bal nul out :
  Forall user_made ps -> finalize_rest ord cp ps bal nul = Ok (Accepted out) -> Forall user_made out.
Proof.
  intros Hu. unfold finalize_rest.
  destruct (infer_rate ord cp ps bal nul) as [[p1 b1]|] eqn:E1; cbn [bind fst snd]; [|discriminate].
  pose proof (infer_rate_user _ _ _ _ _ _ _ Hu E1) as H1.
  destruct (exchange_posts ord cp p1 b1) as [[p2 b2]|] eqn:E2; cbn [bind]; [|discriminate].
  pose proof (exchange_posts_user _ _ _ _ _ _ H1 E2) as H2.
  assert (H3 : forall r, (match nul with
                          | Some i => do amts <- fill_amounts b2; Ok (fill_null p2 i amts, VVoid)
                          | None => Ok (p2, b2)
                          end) = Ok r -> Forall user_made (fst r)).
  { intros r. destruct nul as [i|].
    - destruct (fill_amounts b2) as [amts|]; cbn [bind]; [|discriminate]. intros [= <-]. apply fill_null_user. exact H2.
    - intros [= <-]. exact H2. }
  destruct (match nul with Some i => _ | None => _ end) as [[p4 b4]|]; cbn [bind]; [|discriminate].
  specialize (H3 _ eq_refl). cbn [fst] in H3.
  destruct (negb (v_is_zero cp b4)); [discriminate|].
  destruct (forallb _ p4); [discriminate|]. destruct (existsb _ p4); [discriminate|].
  intros [= <-]. exact H3.
Qed.

Theorem finalize_user_made ord cp bucket ps out :
  (forall p, In p ps -> p_generated p = false) ->
  finalize ord cp bucket ps = Ok (Accepted out) -> Forall user_made out.
Proof.
  intros Hw. assert (Hu : Forall user_made ps).
  { apply Forall_forall. intros p Hp. apply user_made_written, Hw, Hp. }
  unfold finalize. destruct (scan_posts ord ps 0 VVoid None) as [[bal0 nul0]|]; cbn [bind]; [|discriminate].
  assert (Hb : forall b, Forall user_made (ps ++ [mkPost b PReal None None None false false false])).
  { intros b. apply Forall_app. split; [exact Hu|]. constructor; [reflexivity | constructor]. }
  destruct bucket as [b|]; [|apply finalize_rest_user; exact Hu].
  destruct ps as [|p0 [|p1 ps]]; try (apply finalize_rest_user; exact Hu).
  destruct bal0; apply finalize_rest_user; try exact Hu; apply Hb.
Qed.

Lemma filter_all_true {A} (f : A -> bool) l : (forall x, In x l -> f x = true) -> filter f l = l.
Proof.
  induction l as [|x l IH]; intros H; cbn [filter]; [reflexivity|].
  rewrite (H x (or_introl eq_refl)), IH; [reflexivity|]. intros y Hy. apply H. right. exact Hy.
Qed.

Lemma annotate_cost_flags cp p : rule_made (annotate_cost cp p) = rule_made p.
Proof.
  unfold annotate_cost. destruct (p_amt p) as [a|]; [|reflexivity]. destruct (p_cost p); [|reflexivity].
  destruct (is_annotated a || negb (has_comm a)); reflexivity.
Qed.

(* the full statement of C16 for a journal: EVERY posting of the finalized transaction that
   matches a rule written before it - written or made by finalize from an elided amount -
   receives one posting per rule line.  (Before /repo e69e5ce the postings finalize makes for the
   2nd and later commodities of an elided amount were skipped: `= /C/ (B) 1` before
   `F $10.00 / F 5.00 EUR / C` gave (B) $-10.00 only.) *)
Theorem journal_extension_every_posting ord pl al ds1 t ds2 xs :
  let cp := cp_of (learn_posts (pool_after pl ds1) (t_posts t)) in
  let al' := aliases_after al ds1 in
  (forall p, In p (t_posts t) -> p_generated p = false) ->
  nth_error (process ord pl al [] (ds1 ++ DTxn t :: ds2)) (length (process ord pl al [] ds1)) = Some (Ok (XAccepted xs)) ->
  exists ps, finalize ord cp None (t_posts t) = Ok (Accepted ps) /\
    let base := lift (t_state t) (map (annotate_cost cp) ps) in
    xs = base ++ flat_map (fun r => flat_map (fun x => map (inst_post cp (t_state t) (x_post x))
                                                            (map (realias_line al') (r_lines r)))
                                             (filter (matchesb r (t_payee t)) base)) (rules_in ds1).
Proof.
  intros cp al' Hw H. destruct (journal_extension_spec ord pl al ds1 t ds2 xs H) as [ps [Hf Hx]].
  exists ps. split; [exact Hf|]. cbv zeta in *. rewrite Hx. f_equal.
  pose proof (finalize_user_made _ _ _ _ _ Hw Hf) as Hu. rewrite Forall_forall in Hu.
  apply flat_map_ext. intros r. unfold contribution, candidates.
  rewrite (filter_all_true not_generated); [reflexivity|].
  intros x Hx'. unfold lift in Hx'. apply in_map_iff in Hx' as [p [<- Hp]].
  apply in_map_iff in Hp as [q [<- Hq]]. unfold not_generated. cbn [x_post].
  rewrite annotate_cost_flags, (Hu q Hq). reflexivity.
Qed.

(* ------------------------------------------------------------ the account of a generated posting *)

Lemma alias_find_nil n : alias_find n [] = None.
Proof. reflexivity. Qed.

(* when neither the full name nor its first component is an alias the account is the rule line's *)
Theorem realias_no_hit al full :
  alias_find full al = None ->
  (forall first rest, split_colon full = Some (first, rest) -> alias_find first al = None) ->
  realias al full = full.
Proof.
  intros H1 H2. unfold realias. rewrite H1. destruct (split_colon full) as [[first rest]|]; [|reflexivity].
  rewrite (H2 first rest eq_refl). reflexivity.
Qed.

Lemma realias_nil full : realias [] full = full.
Proof. apply realias_no_hit; intros; reflexivity. Qed.

Lemma realias_rule_nil r : realias_rule [] r = r.
Proof.
  destruct r as [p ls]. unfold realias_rule. cbn [r_pred r_lines]. f_equal.
  induction ls as [|[a k m st] ls IH]; cbn [map]; [reflexivity|].
  unfold realias_line at 1. cbn [rl_acct rl_kind rl_amt rl_state]. rewrite realias_nil, IH. reflexivity.
Qed.

(* every generated posting sits in the account its rule line names, run once more through the
   aliases in force at the transaction *)
Theorem generated_account cp st r payee ps al x :
  In x (contribution cp st (realias_rule al r) payee ps) ->
  exists l, In l (r_lines r) /\ p_acct (x_post x) = realias al (rl_acct l) /\ p_kind (x_post x) = rl_kind l.
Proof.
  unfold contribution. intros H. apply in_flat_map in H as [y [_ Hy]].
  apply in_map_iff in Hy as [l' [<- Hl']]. cbn [r_lines realias_rule] in Hl'.
  apply in_map_iff in Hl' as [l [<- Hl]]. exists l. split; [exact Hl|]. split; reflexivity.
Qed.

(* ------------------------------------------------------------ the re-check after the extension *)

(* the balance is re-checked exactly when SOME generated posting must balance, wherever it
   stands among the generated postings (not: when the last one must) *)
Theorem needs_verify_iff cp st r payee ps :
  existsb x_must_balance (contribution cp st r payee ps) = true <->
  (candidates r payee ps <> [] /\ exists l, In l (r_lines r) /\ rl_kind l <> PVirtual).
Proof.
  unfold contribution. rewrite existsb_exists. split.
  - intros [x [Hx Hm]]. apply in_flat_map in Hx as [y [Hy Hx]]. apply in_map_iff in Hx as [l [<- Hl]].
    split; [intros E; rewrite E in Hy; exact Hy|]. exists l. split; [exact Hl|].
    unfold x_must_balance, must_balance in Hm. cbn [x_post inst_post p_kind] in Hm.
    intros E. rewrite E in Hm. discriminate.
  - intros [Hne [l [Hl Hk]]]. destruct (candidates r payee ps) as [|y ys]; [contradiction|].
    exists (inst_post cp st (x_post y) l). split.
    + apply in_flat_map. exists y. split; [left; reflexivity | apply in_map; exact Hl].
    + unfold x_must_balance, must_balance. cbn [x_post inst_post p_kind]. destruct (rl_kind l); congruence.
Qed.

(* an accepted extension containing a new must-balance posting: the balance of ALL postings that
   must balance (original and generated), which is their exact per-commodity sum, displays as
   zero *)
Theorem extended_accepted_displays_zero ord cp r payee st ps ps' :
  extend_pure ord cp r payee st ps = Ok ps' ->
  existsb x_must_balance (contribution cp st r payee ps) = true ->
  exists bal nul, scan_posts ord (map x_post ps') 0 VVoid None = Ok (bal, nul) /\
                  v_is_zero cp bal = true /\ forall c, den bal c == bsum (map x_post ps') c.
Proof.
  intros H Hmb. pose proof (extend_pure_spec _ _ _ _ _ _ _ H) as Hp. unfold extend_pure in H.
  destruct (gen_pure cp r payee st ps) as [new|] eqn:Hg; cbn [bind] in H; [|discriminate].
  pose proof (gen_pure_spec _ _ _ _ _ _ Hg) as ->. unfold finish in H. rewrite Hmb in H.
  destruct (verify ord cp (map x_post (ps ++ contribution cp st r payee ps))) as [[]|] eqn:Hv; cbn [bind] in H; [|discriminate].
  rewrite Hp. unfold verify in Hv.
  destruct (scan_posts ord (map x_post (ps ++ contribution cp st r payee ps)) 0 VVoid None) as [[bal nul]|] eqn:Hs;
    cbn [bind fst] in Hv; [|discriminate].
  destruct (existsb same_comm_cost _); [discriminate|].
  destruct (v_is_zero cp bal) eqn:Hz; cbn [negb] in Hv; [|discriminate].
  exists bal, nul. split; [reflexivity|]. split; [exact Hz|].
  intros c. rewrite (scan_posts_exact ord c _ _ _ _ _ _ Hs). cbn [den]. ring.
Qed.

(* ---- the order of the rule's lines *)
From Coq Require Import Permutation.

Lemma flat_map_perm_pointwise {A B} (f g : A -> list B) l :
  (forall x, Permutation (f x) (g x)) -> Permutation (flat_map f l) (flat_map g l).
Proof.
  intros H. induction l as [|x l IH]; cbn [flat_map]; [constructor|]. apply Permutation_app; [apply H | exact IH].
Qed.

Lemma existsb_perm {A} (f : A -> bool) l l' : Permutation l l' -> existsb f l = existsb f l'.
Proof.
  induction 1 as [| x l l' _ IH | x y l | l l' l'' _ IH1 _ IH2]; cbn [existsb].
  - reflexivity.
  - rewrite IH. reflexivity.
  - destruct (f x), (f y); reflexivity.
  - rewrite IH1. exact IH2.
Qed.

Lemma bsum_permutation ps qs c : Permutation ps qs -> bsum ps c == bsum qs c.
Proof.
  induction 1 as [| x l l' _ IH | x y l | l l' l'' _ IH1 _ IH2]; cbn [bsum].
  - reflexivity.
  - rewrite IH. reflexivity.
  - ring.
  - rewrite IH1. exact IH2.
Qed.

Lemma count_nulls_perm ps qs : Permutation ps qs -> count_nulls ps = count_nulls qs.
Proof.
  induction 1 as [| x l l' _ IH | x y l | l l' l'' _ IH1 _ IH2]; cbn [count_nulls].
  - reflexivity.
  - rewrite IH. reflexivity.
  - lia.
  - rewrite IH1. exact IH2.
Qed.

Definition same_but_line_order (r r' : rule) : Prop :=
  r_pred r = r_pred r' /\ Permutation (r_lines r) (r_lines r').

Lemma contribution_line_perm cp st r r' payee ps :
  same_but_line_order r r' ->
  Permutation (contribution cp st r payee ps) (contribution cp st r' payee ps).
Proof.
  intros [Hp Hl]. unfold contribution.
  assert (Hc : candidates r payee ps = candidates r' payee ps).
  { unfold candidates. f_equal. unfold matchesb. rewrite Hp. reflexivity. }
  rewrite Hc. apply flat_map_perm_pointwise. intros x. apply Permutation_map. exact Hl.
Qed.

Lemma extended_posts_line_perm cp st r r' payee ps :
  same_but_line_order r r' ->
  Permutation (map x_post (ps ++ contribution cp st r payee ps)) (map x_post (ps ++ contribution cp st r' payee ps)).
Proof.
  intros H. apply Permutation_map, Permutation_app_head, contribution_line_perm, H.
Qed.

(* whether the re-check runs does not depend on the order of the lines, and neither does the
   exact per-commodity sum it tests *)
Theorem line_order_verify_free cp st r r' payee ps :
  same_but_line_order r r' ->
  existsb x_must_balance (contribution cp st r payee ps) = existsb x_must_balance (contribution cp st r' payee ps) /\
  forall c, bsum (map x_post (ps ++ contribution cp st r payee ps)) c ==
            bsum (map x_post (ps ++ contribution cp st r' payee ps)) c.
Proof.
  intros H. split.
  - apply existsb_perm, contribution_line_perm, H.
  - intros c. apply bsum_permutation, extended_posts_line_perm, H.
Qed.

(* acceptance does not depend on the order of the rule's lines: a rule whose must-balance lines
   leave a whole unit over is rejected in every order of its lines, in particular when a
   (virtual) line comes last; one that balances exactly is accepted in every order *)
Theorem line_order_unbalanced_rejected ord cp r r' payee st ps c :
  let ext := map x_post (ps ++ contribution cp st r payee ps) in
  same_but_line_order r r' ->
  (forall k, 0 <= cp k <= 230)%Z ->
  (exists new, gen_pure cp r payee st ps = Ok new) -> (exists new, gen_pure cp r' payee st ps = Ok new) ->
  existsb x_must_balance (contribution cp st r payee ps) = true ->
  (count_nulls ext <= 1)%nat -> existsb same_comm_cost ext = false ->
  1 <= Qabs (bsum ext c) ->
  extend_pure ord cp r payee st ps = Err EUnbalanced /\ extend_pure ord cp r' payee st ps = Err EUnbalanced.
Proof.
  intros ext Hs Hcp Hg Hg' Hmb Hn Hc Hbig.
  destruct (line_order_verify_free cp st r r' payee ps Hs) as [He Hb].
  pose proof (extended_posts_line_perm cp st r r' payee ps Hs) as Hperm.
  split.
  - apply (extended_unbalanced_rejected ord cp r payee st ps c Hcp Hg Hmb Hn Hc Hbig).
  - apply (extended_unbalanced_rejected ord cp r' payee st ps c Hcp Hg').
    + rewrite <- He. exact Hmb.
    + rewrite <- (count_nulls_perm _ _ Hperm). exact Hn.
    + rewrite <- (existsb_perm same_comm_cost _ _ Hperm). exact Hc.
    + rewrite <- (Hb c). exact Hbig.
Qed.

Theorem line_order_balanced_accepted ord cp r r' payee st ps :
  let ext := map x_post (ps ++ contribution cp st r payee ps) in
  same_but_line_order r r' ->
  (exists new, gen_pure cp r payee st ps = Ok new) -> (exists new, gen_pure cp r' payee st ps = Ok new) ->
  (count_nulls ext <= 1)%nat -> existsb same_comm_cost ext = false ->
  (forall c, bsum ext c == 0) ->
  extend_pure ord cp r payee st ps = Ok (ps ++ contribution cp st r payee ps) /\
  extend_pure ord cp r' payee st ps = Ok (ps ++ contribution cp st r' payee ps).
Proof.
  intros ext Hs Hg Hg' Hn Hc Hz.
  destruct (line_order_verify_free cp st r r' payee ps Hs) as [He Hb].
  pose proof (extended_posts_line_perm cp st r r' payee ps Hs) as Hperm.
  split.
  - apply (extended_balanced_accepted ord cp r payee st ps Hg Hn Hc Hz).
  - apply (extended_balanced_accepted ord cp r' payee st ps Hg').
    + rewrite <- (count_nulls_perm _ _ Hperm). exact Hn.
    + rewrite <- (existsb_perm same_comm_cost _ _ Hperm). exact Hc.
    + intros c. rewrite <- (Hb c). apply Hz.
Qed.

(* ------------------------------------------------------------ with and without the second alias round *)

(* the repaired code (alias expansion switched off around the second registration): no alias
   directive reaches the rule lines' accounts *)
Lemma alias_seen_never n t al : src_extend_realias = ReAliasNever -> alias_seen n t al = al.
Proof. intros Hm. unfold alias_seen. rewrite Hm. reflexivity. Qed.

Lemma aliases_after_never : src_extend_realias = ReAliasNever -> forall ds al, aliases_after al ds = al.
Proof.
  intros Hm. unfold aliases_after. induction ds as [|d ds IH]; intros al; cbn [fold_left]; [reflexivity|].
  destruct d as [r|t|n t]; [apply IH | apply IH | rewrite (alias_seen_never n t al Hm); apply IH].
Qed.

(* then every generated posting has exactly its rule line's account and kind *)
Definition line_account_stmt : Prop :=
  forall ord pl ds1 t ds2 xs,
  let cp := cp_of (learn_posts (pool_after pl ds1) (t_posts t)) in
  (forall p, In p (t_posts t) -> p_generated p = false) ->
  nth_error (process ord pl [] [] (ds1 ++ DTxn t :: ds2)) (length (process ord pl [] [] ds1)) = Some (Ok (XAccepted xs)) ->
  exists ps, finalize ord cp None (t_posts t) = Ok (Accepted ps) /\
    let base := lift (t_state t) (map (annotate_cost cp) ps) in
    xs = base ++ flat_map (fun r => contribution cp (t_state t) r (t_payee t) base) (rules_in ds1) /\
    forall x, In x xs -> rule_made (x_post x) = true ->
      exists r l, In r (rules_in ds1) /\ In l (r_lines r) /\
                  p_acct (x_post x) = rl_acct l /\ p_kind (x_post x) = rl_kind l.

Theorem journal_extension_line_accounts : src_extend_realias = ReAliasNever -> line_account_stmt.
Proof.
  intros Hm ord pl ds1 t ds2 xs cp Hw H. destruct (journal_extension_spec ord pl [] ds1 t ds2 xs H) as [ps [Hf Hx]].
  exists ps. split; [exact Hf|]. cbv zeta in *. rewrite (aliases_after_never Hm) in Hx.
  assert (He : forall r, realias_rule [] r = r) by apply realias_rule_nil.
  assert (Hx' : xs = lift (t_state t) (map (annotate_cost cp) ps) ++
                     flat_map (fun r => contribution cp (t_state t) r (t_payee t) (lift (t_state t) (map (annotate_cost cp) ps))) (rules_in ds1)).
  { rewrite Hx. f_equal. apply flat_map_ext. intros r. rewrite He. reflexivity. }
  split; [exact Hx'|]. intros x Hin Hrm. rewrite Hx' in Hin. apply in_app_or in Hin as [Hin|Hin].
  - exfalso. unfold lift in Hin. apply in_map_iff in Hin as [p [<- Hp]]. apply in_map_iff in Hp as [q [<- Hq]].
    cbn [x_post] in Hrm. rewrite annotate_cost_flags in Hrm.
    pose proof (finalize_user_made _ _ _ _ _ Hw Hf) as Hu. rewrite Forall_forall in Hu.
    rewrite (Hu q Hq) in Hrm. discriminate.
  - apply in_flat_map in Hin as [r [Hr Hc]]. unfold contribution in Hc.
    apply in_flat_map in Hc as [y [_ Hy]]. apply in_map_iff in Hy as [l [<- Hl]].
    exists r, l. repeat split; assumption.
Qed.

(* with the second alias round active (finding F120) the statement fails: `alias T=L:T`,
   `alias L=D:L`, rule line `(L:T:F) 1` - the account the written `T:F` has at the rule's place -
   posts to D:L:T:F *)
Definition realias_witness_stmt : Prop :=
  exists ds r t xs x,
    ds = [DAlias [84%Z] [76; 58; 84]%Z; DAlias [76%Z] [68; 58; 76]%Z; DRule r; DTxn t] /\
    process false [] [] [] ds = [Ok (XAccepted xs)] /\
    In x xs /\ rule_made (x_post x) = true /\
    ~ In (p_acct (x_post x)) (map rl_acct (r_lines r)).

Theorem realias_witness : src_extend_realias = ReAliasAlways -> realias_witness_stmt.
Proof.
  intros Hm.
  first [ exfalso; unfold src_extend_realias in Hm; discriminate Hm | idtac ].
  all: pose (r := mkRule (PAcct [70%Z]) [mkLine [76; 58; 84; 58; 70]%Z PVirtual (Some (mkAmt 1 0%Z false None)) SUncleared]).
  all: pose (t := mkTxn [120; 49]%Z SUncleared
                   [mkPost [70%Z] PReal (Some (mkAmt 10 2%Z false (Some [36%Z]))) None None false false false;
                    mkPost [67%Z] PReal (Some (mkAmt (-10) 2%Z false (Some [36%Z]))) None None false false false]).
  all: eexists; exists r, t; eexists.
  all: exists (mkX (mkPost [68; 58; 76; 58; 84; 58; 70]%Z PVirtual (Some (mkAmt 10 2%Z false (Some [36%Z]))) None None false true false) SUncleared).
  all: split; [reflexivity|]; split; [vm_compute; reflexivity|]; split; [vm_compute; tauto|].
  all: split; [reflexivity|]; vm_compute; intros [H|[]]; discriminate H.
Qed.

(* what holds of the code as it is now (the mode is read from the source on every run) *)
Definition account_stmt_in_force : Prop :=
  match src_extend_realias with
  | ReAliasNever => line_account_stmt
  | ReAliasAlways => realias_witness_stmt
  | ReAliasUnrecognised => False
  end.

Theorem account_in_force : account_stmt_in_force.
Proof.
  unfold account_stmt_in_force. cbv delta [src_extend_realias]. cbv iota.
  first [ exact (journal_extension_line_accounts eq_refl) | exact (realias_witness eq_refl) ].
Qed.

(* ------------------------------------------------------------ constant, == and ?: predicates in a rule *)

(* `= expr true` fires on every posting of the user's; `= expr false` on none *)
Lemma candidates_const r payee b ps :
  r_pred r = PConst b -> candidates r payee ps = if b then filter not_generated ps else [].
Proof.
  intros Hp. unfold candidates. generalize (filter not_generated ps) as l.
  induction l as [|x l IH]; [destruct b; reflexivity|].
  cbn [filter]. unfold matchesb at 1. rewrite Hp. cbn [pred_eval].
  destruct b; rewrite IH; reflexivity.
Qed.

(* the postings a rule with `c ? q : r` fires on are those of q where c holds and those of r elsewhere,
   whenever c is decided without error *)
Lemma matchesb_query r payee x c q s b :
  r_pred r = PQuery c q s -> pred_eval payee (x_post x) c = Ok b ->
  matchesb r payee x = matchesb (mkRule (if b then q else s) (r_lines r)) payee x.
Proof.
  intros Hp Hc. unfold matchesb. rewrite Hp. cbn [r_pred].
  rewrite (pred_eval_query _ _ _ _ _ _ Hc). reflexivity.
Qed.

Lemma matchesb_eq r payee x q s a b :
  r_pred r = PEq q s -> pred_eval payee (x_post x) q = Ok a -> pred_eval payee (x_post x) s = Ok b ->
  matchesb r payee x = Bool.eqb a b.
Proof.
  intros Hp Hq Hs. unfold matchesb. rewrite Hp. rewrite (pred_eval_eq _ _ _ _ _ _ Hq Hs).
  destruct (Bool.eqb a b); reflexivity.
Qed.

(* a rule whose predicate looks at the account only fires on a posting or not by its account name alone:
   two postings to the same account are both matched or both passed over, whatever payee and amounts *)
Lemma acct_only_same_account r payee payee' x y :
  acct_only (r_pred r) = true -> p_acct (x_post x) = p_acct (x_post y) ->
  matchesb r payee x = matchesb r payee' y.
Proof.
  intros Ha He. unfold matchesb.
  destruct (acct_only_full_value payee (x_post x) _ Ha) as [b [Hq ->]].
  destruct (acct_only_full_value payee' (x_post y) _ Ha) as [b' [Hq' ->]].
  rewrite (quick_eval_acct_only _ _ He) in Hq. rewrite Hq in Hq'. injection Hq' as <-. reflexivity.
Qed.
