(* "(virtual) postings need not balance", end to end: for a transaction in which every posting has an amount and the
   postings that do not have to balance carry no cost, finalize reaches the same decision - accepted, or the same error -
   with and without those postings. *)
From LedgerV Require Import Base.Prelude Base.Round Model.Amount Model.Xact.
From LedgerV Require Import Proofs.GainLossProofs.
Local Open Scope Z_scope.

Definition mb_only (ps : list post) : list post := filter must_balance ps.

(* what finalize decided, forgetting the postings themselves *)
Inductive decision := DAccepted | DIgnored | DError (e : err).
Definition decision_of (r : res outcome) : decision :=
  match r with Ok (Accepted _) => DAccepted | Ok Ignored => DIgnored | Err e => DError e end.

Definition map_posts (r : res (list post * value)) : res (list post * value) :=
  match r with Ok (l, b) => Ok (mb_only l, b) | Err e => Err e end.

Definition plain_virtuals (ps : list post) : Prop :=
  forall p, In p ps -> must_balance p = false -> p_cost p = None.

Lemma plain_virtuals_tl p ps : plain_virtuals (p :: ps) -> plain_virtuals ps.
Proof. intros H q Hq. apply H. right. exact Hq. Qed.

(* ---- the loop that picks the posting orienting an implied rate ---- *)
Lemma find_top_skips keep : forall ps top, plain_virtuals ps ->
  find_top keep (mb_only ps) top = find_top keep ps top.
Proof.
  induction ps as [|p ps IH]; intros top Hv; cbn [mb_only filter find_top]; [reflexivity|].
  pose proof (plain_virtuals_tl _ _ Hv) as Hv'.
  destruct (must_balance p) eqn:Hmb.
  - cbn [find_top]. rewrite Hmb.
    destruct (p_cost p) as [c|]; [destruct (p_cost_calculated p)|]; try reflexivity; apply (IH _ Hv').
  - rewrite (Hv p (or_introl eq_refl) Hmb). cbn [andb].
    replace (match p_amt p with Some _ => top | None => top end) with top by (destruct (p_amt p); reflexivity).
    apply (IH _ Hv').
Qed.

(* ---- applying the rate ---- *)
Lemma apply_rate_skips ord cp rate c : forall ps bal,
  apply_rate ord cp rate c (mb_only ps) bal = map_posts (apply_rate ord cp rate c ps bal).
Proof.
  induction ps as [|p ps IH]; intros bal; cbn [mb_only filter apply_rate map_posts]; [reflexivity|].
  destruct (must_balance p) eqn:Hmb.
  - cbn [apply_rate]. rewrite Hmb. fold (mb_only ps).
    destruct (p_amt p) as [amt|].
    + cbn [andb]. destruct (comm_eqb (acomm amt) c).
      * destruct (v_sub ord bal (VAmt amt)) as [b1|e]; cbn [bind]; [|reflexivity].
        destruct (v_add ord b1 (VAmt (amt_mul cp rate amt))) as [b2|e]; cbn [bind]; [|reflexivity].
        rewrite IH. destruct (apply_rate ord cp rate c ps b2) as [[l b]|e]; cbn [map_posts bind fst snd mb_only filter]; [|reflexivity].
        cbn [must_balance p_kind] in *. unfold must_balance in *. cbn [p_kind]. rewrite Hmb. reflexivity.
      * rewrite IH. destruct (apply_rate ord cp rate c ps bal) as [[l b]|e]; cbn [map_posts bind fst snd mb_only filter]; [|reflexivity].
        rewrite Hmb. reflexivity.
    + rewrite IH. destruct (apply_rate ord cp rate c ps bal) as [[l b]|e]; cbn [map_posts bind fst snd mb_only filter]; [|reflexivity].
      rewrite Hmb. reflexivity.
  - fold (mb_only ps). cbn [andb].
    assert (E : match p_amt p with
                | Some amt => do r <- apply_rate ord cp rate c ps bal; Ok (p :: fst r, snd r)
                | None => do r <- apply_rate ord cp rate c ps bal; Ok (p :: fst r, snd r)
                end = do r <- apply_rate ord cp rate c ps bal; Ok (p :: fst r, snd r)) by (destruct (p_amt p); reflexivity).
    rewrite E, IH. destruct (apply_rate ord cp rate c ps bal) as [[l b]|e]; cbn [map_posts bind fst snd mb_only filter]; [|reflexivity].
    rewrite Hmb. reflexivity.
Qed.

Lemma infer_rate_skips ord cp ps bal : plain_virtuals ps ->
  infer_rate ord cp (mb_only ps) bal None = map_posts (infer_rate ord cp ps bal None).
Proof.
  intros Hv. unfold infer_rate.
  destruct bal as [| ? | ? | ? | b]; try reflexivity.
  destruct (filter (fun a => negb (is_realzero a)) b) as [|x0 [|y0 [|z b']]]; try reflexivity.
  rewrite (find_top_skips _ ps None Hv).
  destruct (find_top _ ps None) as [[tp|] [|]]; try reflexivity.
  destruct (negb (is_zero cp x0) && negb (is_zero cp y0)); [|reflexivity].
  destruct (comm_eqb (acomm x0) match p_amt tp with Some a => acomm a | None => None end).
  - destruct (amt_div cp y0 x0) as [q|e]; cbn [bind]; [apply apply_rate_skips | reflexivity].
  - destruct (amt_div cp x0 y0) as [q|e]; cbn [bind]; [apply apply_rate_skips | reflexivity].
Qed.

(* plain_virtuals survives the rate pass: only costs of balancing postings are set *)
Lemma apply_rate_plain ord cp rate c : forall ps bal l b,
  plain_virtuals ps -> apply_rate ord cp rate c ps bal = Ok (l, b) -> plain_virtuals l.
Proof.
  induction ps as [|p ps IH]; intros bal l b Hv; cbn [apply_rate].
  - intros [= <- <-]. intros q [].
  - pose proof (plain_virtuals_tl _ _ Hv) as Hv'.
    assert (Same : forall bal0, (do r <- apply_rate ord cp rate c ps bal0; Ok (p :: fst r, snd r)) = Ok (l, b) -> plain_virtuals l).
    { intros bal0. destruct (apply_rate ord cp rate c ps bal0) as [[l' b']|e] eqn:E; cbn [bind fst snd]; [|discriminate].
      intros [= <- <-]. intros q [<-|Hq]; [apply Hv; left; reflexivity | exact (IH _ _ _ Hv' E q Hq)]. }
    destruct (p_amt p) as [amt|]; [|apply Same].
    destruct (must_balance p && comm_eqb (acomm amt) c) eqn:Hc; [|apply Same].
    destruct (v_sub ord bal (VAmt amt)) as [b1|e]; cbn [bind]; [|discriminate].
    destruct (v_add ord b1 (VAmt (amt_mul cp rate amt))) as [b2|e]; cbn [bind]; [|discriminate].
    destruct (apply_rate ord cp rate c ps b2) as [[l' b']|e] eqn:E; cbn [bind fst snd]; [|discriminate].
    intros [= <- <-]. intros q [<-|Hq].
    + apply andb_true_iff in Hc as [Hm _]. unfold must_balance in *. cbn [p_kind]. intros Hq. congruence.
    + exact (IH _ _ _ Hv' E q Hq).
Qed.

Lemma infer_rate_plain ord cp ps bal l b :
  plain_virtuals ps -> infer_rate ord cp ps bal None = Ok (l, b) -> plain_virtuals l.
Proof.
  intros Hv. unfold infer_rate.
  assert (Id : Ok (ps, bal) = Ok (l, b) -> plain_virtuals l) by (intros [= <- <-]; exact Hv).
  destruct bal as [| ? | ? | ? | bb]; try exact Id.
  destruct (filter (fun a => negb (is_realzero a)) bb) as [|x0 [|y0 [|z b']]]; try exact Id.
  destruct (find_top _ ps None) as [[tp|] [|]]; try exact Id.
  destruct (negb (is_zero cp x0) && negb (is_zero cp y0)); [|exact Id].
  destruct (comm_eqb (acomm x0) match p_amt tp with Some a => acomm a | None => None end).
  - destruct (amt_div cp y0 x0) as [q|e]; cbn [bind]; [apply apply_rate_plain; exact Hv | discriminate].
  - destruct (amt_div cp x0 y0) as [q|e]; cbn [bind]; [apply apply_rate_plain; exact Hv | discriminate].
Qed.

(* ---- the gain/loss pass, errors included ---- *)
Lemma exchange_posts_skips_full ord cp : forall ps bal, plain_virtuals ps ->
  exchange_posts ord cp (mb_only ps) bal = map_posts (exchange_posts ord cp ps bal).
Proof.
  induction ps as [|p ps IH]; intros bal Hv; cbn [mb_only filter exchange_posts map_posts]; [reflexivity|].
  pose proof (plain_virtuals_tl _ _ Hv) as Hv'. fold (mb_only ps).
  assert (Same : forall b0, (do r <- exchange_posts ord cp (mb_only ps) b0; Ok (p :: fst r, snd r)) =
                            (if must_balance p then map_posts (do r <- exchange_posts ord cp ps b0; Ok (p :: fst r, snd r))
                             else Err EOther) \/ must_balance p = false).
  { intros b0. destruct (must_balance p) eqn:Hmb; [left|right; reflexivity].
    rewrite (IH b0 Hv'). destruct (exchange_posts ord cp ps b0) as [[l b]|e]; cbn [map_posts bind fst snd mb_only filter]; [|reflexivity].
    rewrite Hmb. reflexivity. }
  destruct (must_balance p) eqn:Hmb.
  - cbn [exchange_posts].
    assert (S1 : forall b0, (do r <- exchange_posts ord cp (mb_only ps) b0; Ok (p :: fst r, snd r)) =
                            map_posts (do r <- exchange_posts ord cp ps b0; Ok (p :: fst r, snd r))).
    { intros b0. destruct (Same b0) as [H|H]; [exact H | discriminate]. }
    destruct (p_amt p) as [amt|]; [destruct (p_cost p) as [cost|]|]; try apply S1.
    destruct (comm_eqb (acomm amt) (acomm cost)); [reflexivity|].
    destruct (p_lotprice p) as [lp|]; [|apply S1].
    set (basis := mkAmt _ _ true _).
    destruct (comm_eqb (acomm basis) (acomm cost)); [|apply S1].
    destruct (amt_sub basis cost) as [gl|e]; cbn [bind]; [|reflexivity].
    destruct (is_zero cp gl); [apply S1|].
    rewrite Hmb.
    destruct (add_or_set ord bal (unkeep gl)) as [b1|e]; cbn [bind]; [|reflexivity].
    destruct (amt_add cost (unkeep gl)) as [c1|e]; cbn [bind]; [|reflexivity].
    rewrite (IH b1 Hv'). destruct (exchange_posts ord cp ps b1) as [[l b]|e]; cbn [map_posts bind fst snd mb_only filter]; [|reflexivity].
    unfold must_balance in *. cbn [p_kind]. rewrite Hmb. reflexivity.
  - rewrite (Hv p (or_introl eq_refl) Hmb).
    assert (E : match p_amt p with
                | Some _ => do r <- exchange_posts ord cp ps bal; Ok (p :: fst r, snd r)
                | None => do r <- exchange_posts ord cp ps bal; Ok (p :: fst r, snd r)
                end = do r <- exchange_posts ord cp ps bal; Ok (p :: fst r, snd r)) by (destruct (p_amt p); reflexivity).
    rewrite E, (IH bal Hv'). destruct (exchange_posts ord cp ps bal) as [[l b]|e]; cbn [map_posts bind fst snd mb_only filter]; [|reflexivity].
    rewrite Hmb. reflexivity.
Qed.

(* ---- amounts are never removed by the two passes ---- *)
Definition all_amounts (ps : list post) : Prop := forall p, In p ps -> p_amt p <> None.

Lemma apply_rate_amounts ord cp rate c : forall ps bal l b,
  all_amounts ps -> apply_rate ord cp rate c ps bal = Ok (l, b) -> all_amounts l.
Proof.
  induction ps as [|p ps IH]; intros bal l b Ha; cbn [apply_rate].
  - intros [= <- <-]. intros q [].
  - assert (Ha' : all_amounts ps) by (intros q Hq; apply Ha; right; exact Hq).
    assert (Same : forall bal0, (do r <- apply_rate ord cp rate c ps bal0; Ok (p :: fst r, snd r)) = Ok (l, b) -> all_amounts l).
    { intros bal0. destruct (apply_rate ord cp rate c ps bal0) as [[l' b']|e] eqn:E; cbn [bind fst snd]; [|discriminate].
      intros [= <- <-]. intros q [<-|Hq]; [apply Ha; left; reflexivity | exact (IH _ _ _ Ha' E q Hq)]. }
    destruct (p_amt p) as [amt|] eqn:Hp; [|apply Same].
    destruct (must_balance p && comm_eqb (acomm amt) c); [|apply Same].
    destruct (v_sub ord bal (VAmt amt)) as [b1|e]; cbn [bind]; [|discriminate].
    destruct (v_add ord b1 (VAmt (amt_mul cp rate amt))) as [b2|e]; cbn [bind]; [|discriminate].
    destruct (apply_rate ord cp rate c ps b2) as [[l' b']|e] eqn:E; cbn [bind fst snd]; [|discriminate].
    intros [= <- <-]. intros q [<-|Hq]; [cbn [p_amt]; try rewrite Hp; discriminate | exact (IH _ _ _ Ha' E q Hq)].
Qed.

Lemma infer_rate_amounts ord cp ps bal l b :
  all_amounts ps -> infer_rate ord cp ps bal None = Ok (l, b) -> all_amounts l.
Proof.
  intros Ha. unfold infer_rate.
  assert (Id : Ok (ps, bal) = Ok (l, b) -> all_amounts l) by (intros [= <- <-]; exact Ha).
  destruct bal as [| ? | ? | ? | bb]; try exact Id.
  destruct (filter (fun a => negb (is_realzero a)) bb) as [|x0 [|y0 [|z b']]]; try exact Id.
  destruct (find_top _ ps None) as [[tp|] [|]]; try exact Id.
  destruct (negb (is_zero cp x0) && negb (is_zero cp y0)); [|exact Id].
  destruct (comm_eqb (acomm x0) match p_amt tp with Some a => acomm a | None => None end).
  - destruct (amt_div cp y0 x0) as [q|e]; cbn [bind]; [apply apply_rate_amounts; exact Ha | discriminate].
  - destruct (amt_div cp x0 y0) as [q|e]; cbn [bind]; [apply apply_rate_amounts; exact Ha | discriminate].
Qed.

Lemma exchange_posts_amounts ord cp : forall ps bal l b,
  all_amounts ps -> exchange_posts ord cp ps bal = Ok (l, b) -> all_amounts l.
Proof.
  induction ps as [|p ps IH]; intros bal l b Ha; cbn [exchange_posts].
  - intros [= <- <-]. intros q [].
  - assert (Ha' : all_amounts ps) by (intros q Hq; apply Ha; right; exact Hq).
    assert (Same : forall bal0, (do r <- exchange_posts ord cp ps bal0; Ok (p :: fst r, snd r)) = Ok (l, b) -> all_amounts l).
    { intros bal0. destruct (exchange_posts ord cp ps bal0) as [[l' b']|e] eqn:E; cbn [bind fst snd]; [|discriminate].
      intros [= <- <-]. intros q [<-|Hq]; [apply Ha; left; reflexivity | exact (IH _ _ _ Ha' E q Hq)]. }
    destruct (p_amt p) as [amt|] eqn:Hp; [destruct (p_cost p) as [cost|]|]; try apply Same.
    destruct (comm_eqb (acomm amt) (acomm cost)); [discriminate|].
    destruct (p_lotprice p) as [lp|]; [|apply Same].
    set (basis := mkAmt _ _ true _).
    destruct (comm_eqb (acomm basis) (acomm cost)); [|apply Same].
    destruct (amt_sub basis cost) as [gl|e]; cbn [bind]; [|discriminate].
    destruct (is_zero cp gl); [apply Same|].
    destruct (if must_balance p then add_or_set ord bal (unkeep gl) else Ok bal) as [b1|e]; cbn [bind]; [|discriminate].
    destruct (amt_add cost (unkeep gl)) as [c1|e]; cbn [bind]; [|discriminate].
    destruct (exchange_posts ord cp ps b1) as [[l' b']|e] eqn:E; cbn [bind fst snd]; [|discriminate].
    intros [= <- <-]. intros q [<-|Hq]; [cbn [p_amt]; try rewrite Hp; discriminate | exact (IH _ _ _ Ha' E q Hq)].
Qed.

Lemma all_amounts_filter ps : all_amounts ps -> all_amounts (mb_only ps).
Proof. intros H p Hp. apply filter_In in Hp as [Hp _]. exact (H p Hp). Qed.

Lemma null_flags ps : ps <> [] -> all_amounts ps ->
  forallb (fun p => match p_amt p with None => true | Some _ => false end) ps = false /\
  existsb (fun p => match p_amt p with None => true | Some _ => false end) ps = false.
Proof.
  intros Hne Ha. split.
  - destruct ps as [|p ps]; [contradiction|]. cbn. specialize (Ha p (or_introl eq_refl)).
    destruct (p_amt p); [reflexivity | contradiction].
  - clear Hne. induction ps as [|p ps IH]; [reflexivity|]. cbn.
    pose proof (Ha p (or_introl eq_refl)) as Hp. destruct (p_amt p); [|contradiction]. cbn.
    apply IH. intros q Hq. apply Ha. right. exact Hq.
Qed.

Lemma scan_all_amounts ord : forall ps i bal b n,
  all_amounts ps -> scan_posts ord ps i bal None = Ok (b, n) -> n = None.
Proof.
  induction ps as [|p ps IH]; intros i bal b n Ha; cbn [scan_posts].
  - intros [= _ <-]. reflexivity.
  - assert (Ha' : all_amounts ps) by (intros q Hq; apply Ha; right; exact Hq).
    destruct (must_balance p); cbn [negb]; [|apply (IH _ _ _ _ Ha')].
    unfold balancing_amount. pose proof (Ha p (or_introl eq_refl)) as Hp.
    destruct (p_cost p) as [c|].
    + destruct (add_or_set ord bal (unkeep c)) as [b1|e]; cbn [bind]; [apply (IH _ _ _ _ Ha') | discriminate].
    + destruct (p_amt p) as [a|]; [|contradiction].
      destruct (add_or_set ord bal (unkeep a)) as [b1|e]; cbn [bind]; [apply (IH _ _ _ _ Ha') | discriminate].
Qed.

(* ---- both passes keep the number of postings ---- *)
Lemma apply_rate_length ord cp rate c : forall ps bal l b,
  apply_rate ord cp rate c ps bal = Ok (l, b) -> length l = length ps.
Proof.
  induction ps as [|p ps IH]; intros bal l b; cbn [apply_rate].
  - intros [= <- <-]. reflexivity.
  - assert (Same : forall bal0, (do r <- apply_rate ord cp rate c ps bal0; Ok (p :: fst r, snd r)) = Ok (l, b) -> length l = S (length ps)).
    { intros bal0. destruct (apply_rate ord cp rate c ps bal0) as [[l' b']|e] eqn:E; cbn [bind fst snd]; [|discriminate].
      intros [= <- <-]. cbn [length]. f_equal. exact (IH _ _ _ E). }
    destruct (p_amt p) as [amt|]; [|apply Same].
    destruct (must_balance p && comm_eqb (acomm amt) c); [|apply Same].
    destruct (v_sub ord bal (VAmt amt)) as [b1|e]; cbn [bind]; [|discriminate].
    destruct (v_add ord b1 (VAmt (amt_mul cp rate amt))) as [b2|e]; cbn [bind]; [|discriminate].
    destruct (apply_rate ord cp rate c ps b2) as [[l' b']|e] eqn:E; cbn [bind fst snd]; [|discriminate].
    intros [= <- <-]. cbn [length]. f_equal. exact (IH _ _ _ E).
Qed.

Lemma infer_rate_length ord cp ps bal l b :
  infer_rate ord cp ps bal None = Ok (l, b) -> length l = length ps.
Proof.
  unfold infer_rate.
  assert (Id : Ok (ps, bal) = Ok (l, b) -> length l = length ps) by (intros [= <- <-]; reflexivity).
  destruct bal as [| ? | ? | ? | bb]; try exact Id.
  destruct (filter (fun a => negb (is_realzero a)) bb) as [|x0 [|y0 [|z b']]]; try exact Id.
  destruct (find_top _ ps None) as [[tp|] [|]]; try exact Id.
  destruct (negb (is_zero cp x0) && negb (is_zero cp y0)); [|exact Id].
  destruct (comm_eqb (acomm x0) match p_amt tp with Some a => acomm a | None => None end).
  - destruct (amt_div cp y0 x0) as [q|e]; cbn [bind]; [apply apply_rate_length | discriminate].
  - destruct (amt_div cp x0 y0) as [q|e]; cbn [bind]; [apply apply_rate_length | discriminate].
Qed.

Lemma exchange_posts_length ord cp : forall ps bal l b,
  exchange_posts ord cp ps bal = Ok (l, b) -> length l = length ps.
Proof.
  induction ps as [|p ps IH]; intros bal l b; cbn [exchange_posts].
  - intros [= <- <-]. reflexivity.
  - assert (Same : forall bal0, (do r <- exchange_posts ord cp ps bal0; Ok (p :: fst r, snd r)) = Ok (l, b) -> length l = S (length ps)).
    { intros bal0. destruct (exchange_posts ord cp ps bal0) as [[l' b']|e] eqn:E; cbn [bind fst snd]; [|discriminate].
      intros [= <- <-]. cbn [length]. f_equal. exact (IH _ _ _ E). }
    destruct (p_amt p) as [amt|]; [destruct (p_cost p) as [cost|]|]; try apply Same.
    destruct (comm_eqb (acomm amt) (acomm cost)); [discriminate|].
    destruct (p_lotprice p) as [lp|]; [|apply Same].
    set (basis := mkAmt _ _ true _).
    destruct (comm_eqb (acomm basis) (acomm cost)); [|apply Same].
    destruct (amt_sub basis cost) as [gl|e]; cbn [bind]; [|discriminate].
    destruct (is_zero cp gl); [apply Same|].
    destruct (if must_balance p then add_or_set ord bal (unkeep gl) else Ok bal) as [b1|e]; cbn [bind]; [|discriminate].
    destruct (amt_add cost (unkeep gl)) as [c1|e]; cbn [bind]; [|discriminate].
    destruct (exchange_posts ord cp ps b1) as [[l' b']|e] eqn:E; cbn [bind fst snd]; [|discriminate].
    intros [= <- <-]. cbn [length]. f_equal. exact (IH _ _ _ E).
Qed.

Lemma nonempty_length {A} (l : list A) : l <> [] <-> length l <> 0%nat.
Proof. destruct l; cbn; split; intros H; try congruence; try discriminate. Qed.

(* ---- the balance scan, errors included (only the position recorded for an elided amount may differ) ---- *)
Definition scan_view (r : res (value * option nat)) : res (value * bool) :=
  match r with Ok (b, n) => Ok (b, match n with Some _ => true | None => false end) | Err e => Err e end.

Lemma scan_posts_skips_full ord : forall ps i i' bal nul nul',
  same_presence nul nul' ->
  scan_view (scan_posts ord (mb_only ps) i' bal nul') = scan_view (scan_posts ord ps i bal nul).
Proof.
  induction ps as [|p ps IH]; intros i i' bal nul nul' Hs; cbn [mb_only filter scan_posts].
  - destruct nul, nul'; cbn in Hs; try contradiction; reflexivity.
  - fold (mb_only ps). destruct (must_balance p) eqn:Hmb; cbn [negb].
    + cbn [scan_posts]. rewrite Hmb. cbn [negb].
      destruct (balancing_amount p) as [a|].
      * destruct (add_or_set ord bal (unkeep a)) as [b1|e]; cbn [bind]; [apply IH; exact Hs | reflexivity].
      * destruct nul as [k|], nul' as [k'|]; cbn in Hs; try contradiction; [reflexivity|].
        apply IH. exact I.
    + apply IH. exact Hs.
Qed.

(* ---- the decision ---- *)
Theorem virtual_postings_do_not_decide ord cp ps :
  all_amounts ps -> plain_virtuals ps -> mb_only ps <> [] ->
  decision_of (finalize ord cp None (mb_only ps)) = decision_of (finalize ord cp None ps).
Proof.
  intros Ha Hv Hne. unfold finalize.
  pose proof (scan_posts_skips_full ord ps 0%nat 0%nat VVoid None None I) as Hscan.
  destruct (scan_posts ord ps 0 VVoid None) as [[bal0 n0]|e] eqn:Hs;
    destruct (scan_posts ord (mb_only ps) 0 VVoid None) as [[bal0' n0']|e'] eqn:Hs'; cbn [scan_view] in Hscan;
    try discriminate; [| injection Hscan as ->; reflexivity].
  pose proof (scan_all_amounts ord ps 0 VVoid bal0 n0 Ha Hs) as ->.
  pose proof (scan_all_amounts ord (mb_only ps) 0 VVoid bal0' n0' (all_amounts_filter ps Ha) Hs') as ->.
  injection Hscan as ->. cbn [bind].
  unfold finalize_rest.
  rewrite (infer_rate_skips ord cp ps bal0 Hv).
  destruct (infer_rate ord cp ps bal0 None) as [[ps1 b1]|e] eqn:Hi; cbn [map_posts bind fst snd]; [|reflexivity].
  pose proof (infer_rate_plain ord cp ps bal0 ps1 b1 Hv Hi) as Hv1.
  pose proof (infer_rate_amounts ord cp ps bal0 ps1 b1 Ha Hi) as Ha1.
  rewrite (exchange_posts_skips_full ord cp ps1 b1 Hv1).
  destruct (exchange_posts ord cp ps1 b1) as [[ps3 b3]|e] eqn:He; cbn [map_posts bind]; [|reflexivity].
  pose proof (exchange_posts_amounts ord cp ps1 b1 ps3 b3 Ha1 He) as Ha3.
  destruct (negb (v_is_zero cp b3)); [reflexivity|].
  assert (L1 : length (mb_only ps1) = length (mb_only ps)).
  { pose proof (infer_rate_skips ord cp ps bal0 Hv) as E. rewrite Hi in E. cbn [map_posts] in E.
    exact (infer_rate_length _ _ _ _ _ _ E). }
  assert (L3 : length (mb_only ps3) = length (mb_only ps1)).
  { pose proof (exchange_posts_skips_full ord cp ps1 b1 Hv1) as E. rewrite He in E. cbn [map_posts] in E.
    exact (exchange_posts_length _ _ _ _ _ _ E). }
  assert (N3 : mb_only ps3 <> []) by (apply nonempty_length; rewrite L3, L1; apply nonempty_length; exact Hne).
  assert (N3' : ps3 <> []) by (intros ->; apply N3; reflexivity).
  destruct (null_flags (mb_only ps3) N3 (all_amounts_filter ps3 Ha3)) as [F1 F2].
  destruct (null_flags ps3 N3' Ha3) as [G1 G2].
  rewrite F1, F2, G1, G2. reflexivity.
Qed.
