(* Proofs about Model/Layout.v: which reader state crosses a file boundary. *)
From LedgerV Require Import Base.Prelude Model.Aliases Gen.LayoutScope Model.Layout.
Local Open Scope Z_scope.

Lemma top_account_app pre s :
  top_account (pre ++ s) = top_account (pre ++ [EAcct (top_account s)]).
Proof.
  induction pre as [|e pre IH]; cbn [app top_account]; [reflexivity|].
  destruct e; [reflexivity | exact IH].
Qed.

Lemma tags_of_app a b : tags_of (a ++ b) = tags_of a ++ tags_of b.
Proof.
  induction a as [|e a IH]; cbn [app tags_of]; [reflexivity|].
  destruct e; [exact IH | cbn [app]; rewrite IH; reflexivity].
Qed.

Lemma tags_split pre s x pt :
  tags_of (pre ++ s) ++ pt = tags_of (pre ++ [EAcct x]) ++ tags_of s ++ pt.
Proof.
  rewrite !tags_of_app. cbn [tags_of]. rewrite app_nil_r, app_assoc. reflexivity.
Qed.

Lemma read_list_cons f i l stk g :
  read_list f (i :: l) stk g =
  (let r1 := f i stk g in
   let r2 := read_list f l (fst (fst r1)) (snd (fst r1)) in
   (fst (fst r2), snd (fst r2), snd r1 ++ snd r2)).
Proof.
  cbn [read_list]. destruct (f i stk g) as [[s1 g1] o1]. cbn [fst snd].
  destruct (read_list f l s1 g1) as [[s2 g2] o2]. reflexivity.
Qed.

Lemma read_list_app f a b stk g :
  read_list f (a ++ b) stk g =
  (let r1 := read_list f a stk g in
   let r2 := read_list f b (fst (fst r1)) (snd (fst r1)) in
   (fst (fst r2), snd (fst r2), snd r1 ++ snd r2)).
Proof.
  revert stk g. induction a as [|i a IH]; intros stk g.
  - cbn [app read_list fst snd]. destruct (read_list f b stk g) as [[s2 g2] o2]. reflexivity.
  - cbn [app]. rewrite !read_list_cons. cbn zeta. rewrite IH. cbn zeta. cbn [fst snd].
    rewrite app_assoc. reflexivity.
Qed.

(* ---- an include leaves the including file's stack alone; an included file cannot end the includer's apply ---- *)

Lemma include_keeps_stack pt items stk g :
  fst (fst (read_item pt (LInclude items) stk g)) = stk.
Proof. reflexivity. Qed.

Lemma end_in_fresh_file_is_an_error pt kind a g :
  read_item pt (LEnd kind) [EAcct a] g = ([EAcct a], g_err g, []).
Proof. reflexivity. Qed.

Lemma included_end_cannot_reach_the_includer pt kind stk g :
  let r := read_item pt (LInclude [LEnd kind]) stk g in
  fst (fst r) = stk /\ g_errs (snd (fst r)) = S (g_errs g) /\ snd r = [].
Proof. cbn. repeat split. Qed.

(* ---- the alias table and the default account belong to the journal ---- *)

Lemma alias_and_bucket_outlive_the_file pt k t n stk g :
  str_eqb k (include_master stk ++ t) = false ->
  let r := read_item pt (LInclude [LAlias k t; LBucket n]) stk g in
  fst (fst r) = stk /\
  g_alias (snd (fst r)) = (k, top_account stk ++ t) :: g_alias g /\
  g_bucket (snd (fst r)) = Some (top_account stk ++ n).
Proof.
  intros H. unfold include_master in H. cbn [Z.eqb src_include_master Pos.eqb] in H.
  cbn [read_item read_list top_account include_master fst snd]. unfold include_master.
  cbn [Z.eqb src_include_master Pos.eqb top_account]. rewrite H. cbn. repeat split.
Qed.

(* ---- an apply account around an include reaches into the included file; one left open inside ends with it ---- *)

Lemma resolve_name_no_alias top n : resolve_name [] top n = top ++ n.
Proof. unfold resolve_name. cbn [alias_lookup]. destruct n as [|f [|s n]]; reflexivity. Qed.

Lemma map_resolve_no_alias top names :
  map (resolve_name [] top) names = map (fun n => top ++ n) names.
Proof. apply map_ext. intros n. apply resolve_name_no_alias. Qed.

Lemma apply_account_reaches_included_file pt m p q names after bk :
  let g := mkG [] bk O in
  snd (read_items pt [LApplyAccount p; LInclude [LApplyAccount q; LXact names]; LXact after; LEnd (Some true); LXact after]
                  [EAcct m] g) =
  [mkRx (map (fun n => ((m ++ p) ++ q) ++ n) names) bk pt;
   mkRx (map (fun n => (m ++ p) ++ n) after) bk pt;
   mkRx (map (fun n => m ++ n) after) bk pt].
Proof.
  cbn. rewrite ?app_nil_r, !map_resolve_no_alias. reflexivity.
Qed.

(* ---- cutting a closed piece of a file out into an included file changes nothing ---- *)

Definition neutral (it : litem) : bool :=
  match it with LXact _ | LAlias _ _ | LBucket _ | LInclude _ => true | _ => false end.

Lemma neutral_sim pt it pre s g :
  neutral it = true ->
  let x := top_account s in
  let r1 := read_item pt it (pre ++ s) g in
  let r2 := read_item (tags_of s ++ pt) it (pre ++ [EAcct x]) g in
  fst (fst r1) = pre ++ s /\ fst (fst r2) = pre ++ [EAcct x] /\
  snd (fst r1) = snd (fst r2) /\ snd r1 = snd r2.
Proof.
  intros Hn x. subst x.
  destruct it; try discriminate Hn; cbn [read_item fst snd]; unfold include_master;
    rewrite <- ?(top_account_app pre s); rewrite <- ?(tags_split pre s (top_account s) pt).
  - repeat split.
  - destruct (str_eqb k (top_account (pre ++ s) ++ target)); cbn [fst snd]; repeat split.
  - repeat split.
  - repeat split.
Qed.

Lemma stack_long (e : lentry) pre s :
  s <> [] -> Z.of_nat (length (e :: pre ++ s)) <=? src_end_apply_keep = false.
Proof.
  intros Hs. unfold src_end_apply_keep. apply Z.leb_gt.
  destruct s as [|y s]; [congruence|]. cbn [length]. rewrite app_length. cbn [length]. lia.
Qed.

Lemma closed_sim : forall l pre s pt g,
  s <> [] -> closed_from (map kind_of pre) l = true ->
  exists g' out,
    read_items pt l (pre ++ s) g = (s, g', out) /\
    read_items (tags_of s ++ pt) l (pre ++ [EAcct (top_account s)]) g = ([EAcct (top_account s)], g', out).
Proof.
  unfold read_items.
  induction l as [|it l IH]; intros pre s pt g Hs Hc.
  - destruct pre as [|e pre]; [|discriminate Hc].
    exists g, []. split; reflexivity.
  - assert (Hneutral : neutral it = true -> closed_from (map kind_of pre) l = true ->
              exists g' out,
                read_list (read_item pt) (it :: l) (pre ++ s) g = (s, g', out) /\
                read_list (read_item (tags_of s ++ pt)) (it :: l) (pre ++ [EAcct (top_account s)]) g
                  = ([EAcct (top_account s)], g', out)).
    { intros Hn Hc'. destruct (neutral_sim pt it pre s g Hn) as (E1 & E2 & E3 & E4).
      rewrite !read_list_cons. cbn zeta. rewrite E1, E2, <- E3, <- E4.
      destruct (IH pre s pt (snd (fst (read_item pt it (pre ++ s) g))) Hs Hc') as (g' & out & R1 & R2).
      rewrite R1, R2. cbn [fst snd]. eexists; eexists; split; reflexivity. }
    destruct it as [names | n | t | kind | k target | n | items].
    + apply Hneutral; [reflexivity | exact Hc].
    + (* apply account *)
      cbn [closed_from] in Hc. rewrite !read_list_cons. cbn zeta. cbn [read_item fst snd app].
      rewrite <- (top_account_app pre s).
      destruct (IH (EAcct (top_account (pre ++ s) ++ n) :: pre) s pt g Hs Hc) as (g' & out & R1 & R2).
      cbn [app] in R1, R2. rewrite R1, R2. cbn [fst snd app]. eexists; eexists; split; reflexivity.
    + (* apply tag *)
      cbn [closed_from] in Hc. rewrite !read_list_cons. cbn zeta. cbn [read_item fst snd app].
      destruct (IH (ETag t :: pre) s pt g Hs Hc) as (g' & out & R1 & R2).
      cbn [app] in R1, R2. rewrite R1, R2. cbn [fst snd app]. eexists; eexists; split; reflexivity.
    + (* end apply *)
      cbn [closed_from] in Hc. destruct pre as [|e pre]; [discriminate Hc|].
      cbn [map] in Hc. apply andb_true_iff in Hc. destruct Hc as [Hk Hc].
      rewrite !read_list_cons. cbn zeta. cbn [read_item app].
      rewrite (stack_long e pre s Hs).
      assert (H1 : [EAcct (top_account s)] <> []) by discriminate.
      rewrite (stack_long e pre [EAcct (top_account s)] H1).
      unfold label_matches. rewrite Hk. cbn [fst snd].
      destruct (IH pre s pt g Hs Hc) as (g' & out & R1 & R2).
      rewrite R1, R2. cbn [fst snd app]. eexists; eexists; split; reflexivity.
    + apply Hneutral; [reflexivity | exact Hc].
    + apply Hneutral; [reflexivity | exact Hc].
    + apply Hneutral; [reflexivity | exact Hc].
Qed.

Lemma read_item_stack_nonempty pt it stk g :
  stk <> [] -> fst (fst (read_item pt it stk g)) <> [].
Proof.
  intros Hs. destruct it; cbn [read_item fst snd]; try exact Hs; try discriminate.
  - destruct (Z.of_nat (length stk) <=? src_end_apply_keep) eqn:E; [exact Hs|].
    destruct stk as [|e rest]; [exact Hs|].
    destruct (label_matches kind e); cbn [fst]; [|exact Hs].
    intros ->. cbn in E. discriminate E.
  - destruct (str_eqb k (top_account stk ++ target)); exact Hs.
Qed.

Lemma read_list_stack_nonempty pt l : forall stk g,
  stk <> [] -> fst (fst (read_list (read_item pt) l stk g)) <> [].
Proof.
  induction l as [|i l IH]; intros stk g Hs; [exact Hs|].
  rewrite read_list_cons. cbn zeta. cbn [fst snd].
  apply IH. apply read_item_stack_nonempty. exact Hs.
Qed.

Theorem cut_into_include pt a b c stk g :
  stk <> [] -> closed b = true ->
  read_items pt (a ++ LInclude b :: c) stk g = read_items pt (a ++ b ++ c) stk g.
Proof.
  intros Hs Hb. unfold read_items.
  rewrite !read_list_app. cbn zeta. rewrite (read_list_app _ b c). cbn zeta.
  set (ra := read_list (read_item pt) a stk g).
  assert (Hne : fst (fst ra) <> []) by (apply read_list_stack_nonempty; exact Hs).
  destruct (closed_sim b [] (fst (fst ra)) pt (snd (fst ra)) Hne Hb) as (g' & out & R1 & R2).
  unfold read_items in R1, R2. cbn [app] in R1, R2.
  rewrite read_list_cons. cbn zeta. cbn [read_item].
  unfold include_master. cbn [Z.eqb src_include_master Pos.eqb].
  rewrite R2, R1. cbn [fst snd]. reflexivity.
Qed.

(* several files on the command line = one file that includes them in that order *)
Theorem files_are_includes master : forall files g,
  read_files master files g =
  (let r := read_items [] (map LInclude files) [EAcct master] g in (snd (fst r), snd r)).
Proof.
  unfold read_items.
  induction files as [|fl files IH]; intros g; [reflexivity|].
  cbn [read_files map]. rewrite read_list_cons. cbn zeta. cbn [read_item fst snd].
  unfold include_master. cbn [Z.eqb src_include_master src_file_master Pos.eqb top_account tags_of app].
  rewrite IH. cbn zeta. unfold read_items. cbn [fst snd]. reflexivity.
Qed.

(* the witness: a piece that leaves an `apply account` open is NOT cut out without a change *)
Lemma open_piece_witness :
  let b := [LApplyAccount [1]] in let c := [LXact [[2]]] in
  closed b = false /\
  snd (read_items [] (LInclude b :: c) [EAcct []] g0) <> snd (read_items [] (b ++ c) [EAcct []] g0).
Proof. cbn. split; [reflexivity | discriminate]. Qed.

Lemma layout_examples :
  (* alias declared in an included file under `apply account 7`, used after it in the including file; the bucket too *)
  read_journal [] [[LApplyAccount [7]; LInclude [LApplyAccount [8]; LAlias [5] [6; 4]; LBucket [9]]; LEnd None;
                    LXact [[5; 3]; [2]]]] =
  (mkG [([5], [7; 8; 6; 4])] (Some [7; 8; 9]) O, [mkRx [[7; 8; 6; 4; 3]; [2]] (Some [7; 8; 9]) []]) /\
  (* the same two files named on the command line: the second is not under the first one's `apply account` *)
  snd (read_journal [] [[LApplyAccount [7]]; [LXact [[2]]]]) = [mkRx [[2]] None []] /\
  snd (read_journal [] [[LApplyAccount [7]; LInclude [LXact [[2]]]]]) = [mkRx [[7; 2]] None []] /\
  (* tags: the includer's and the file's own *)
  snd (read_journal [1] [[LApplyTag 30; LInclude [LApplyTag 31; LXact [[2]]]; LXact [[2]]]]) =
    [mkRx [[1; 2]] None [31; 30]; mkRx [[1; 2]] None [30]].
Proof. vm_compute. repeat split. Qed.
