(* Proofs about Model/Amount.v: the arithmetic is exact rational arithmetic. *)
From LedgerV Require Import Base.Prelude Base.Round Model.Amount.
From Coq Require Import Qabs Permutation Lqa Setoid.
Local Open Scope Q_scope.
Local Opaque Qred.

(* ------------------------------------------------------------------ amounts *)

Lemma amt_add_exact a b r : amt_add a b = Ok r -> aq r == aq a + aq b.
Proof.
  unfold amt_add. destruct (diff_comm a b); [discriminate|].
  intros H; injection H as <-. cbn [aq]. rewrite Qred_correct. reflexivity.
Qed.

Lemma amt_sub_exact a b r : amt_sub a b = Ok r -> aq r == aq a - aq b.
Proof.
  unfold amt_sub. destruct (diff_comm a b); [discriminate|].
  intros H; injection H as <-. cbn [aq]. rewrite Qred_correct. reflexivity.
Qed.

Lemma amt_mul_exact cp a b : aq (amt_mul cp a b) == aq a * aq b.
Proof. unfold amt_mul. cbn [aq]. apply Qred_correct. Qed.

Lemma is_realzero_spec a : is_realzero a = true <-> aq a == 0.
Proof.
  unfold is_realzero. rewrite Z.eqb_eq. destruct (aq a) as [n d]. unfold Qeq. cbn. lia.
Qed.

Lemma amt_div_exact cp a b r : amt_div cp a b = Ok r -> ~ aq b == 0 /\ aq r == aq a / aq b.
Proof.
  unfold amt_div. destruct (is_realzero b) eqn:Hz; [discriminate|].
  intros H; injection H as <-. cbn [aq]. split.
  - intros Hq. apply is_realzero_spec in Hq. congruence.
  - apply Qred_correct.
Qed.

Lemma amt_div_error cp a b e : amt_div cp a b = Err e -> aq b == 0 /\ e = EDivZero.
Proof.
  unfold amt_div. destruct (is_realzero b) eqn:Hz; [|discriminate].
  intros H; injection H as <-. split; [apply is_realzero_spec; exact Hz | reflexivity].
Qed.

Lemma amt_div_total cp a b : ~ aq b == 0 -> exists r, amt_div cp a b = Ok r.
Proof.
  intros Hb. unfold amt_div. destruct (is_realzero b) eqn:Hz.
  - apply is_realzero_spec in Hz. contradiction.
  - eexists; reflexivity.
Qed.

Lemma amt_add_error a b e : amt_add a b = Err e -> diff_comm a b = true /\ e = EDiffComm.
Proof. unfold amt_add. destruct (diff_comm a b); [intros [= <-]; auto | discriminate]. Qed.

Lemma amt_add_total a b : diff_comm a b = false -> exists r, amt_add a b = Ok r.
Proof. intros H. unfold amt_add. rewrite H. eexists; reflexivity. Qed.

Lemma amt_neg_exact a : aq (amt_neg a) == - aq a.
Proof. unfold amt_neg. cbn [aq]. apply Qred_correct. Qed.

Lemma amt_abs_exact a : aq (amt_abs a) == Qabs (aq a).
Proof.
  unfold amt_abs. destruct (Qnum (aq a) <? 0)%Z eqn:H.
  - rewrite amt_neg_exact. apply Z.ltb_lt in H.
    rewrite Qabs_neg; [reflexivity|]. destruct (aq a) as [n d]. unfold Qle. cbn in *. lia.
  - apply Z.ltb_ge in H. rewrite Qabs_pos; [reflexivity|].
    destruct (aq a) as [n d]. unfold Qle. cbn in *. lia.
Qed.

(* the precision counter and the keep flag never influence a quantity *)
Lemma prec_irrelevant_add a b a' b' r r' :
  aq a = aq a' -> aq b = aq b' ->
  amt_add a b = Ok r -> amt_add a' b' = Ok r' -> aq r = aq r'.
Proof.
  unfold amt_add. intros Ha Hb.
  destruct (diff_comm a b); [discriminate|]. destruct (diff_comm a' b'); [discriminate|].
  intros [= <-] [= <-]. cbn [aq]. rewrite Ha, Hb. reflexivity.
Qed.

Lemma prec_irrelevant_mul cp cp' a b a' b' :
  aq a = aq a' -> aq b = aq b' -> aq (amt_mul cp a b) = aq (amt_mul cp' a' b').
Proof. intros Ha Hb. unfold amt_mul. cbn [aq]. rewrite Ha, Hb. reflexivity. Qed.

Lemma prec_irrelevant_div cp cp' a b a' b' r r' :
  aq a = aq a' -> aq b = aq b' ->
  amt_div cp a b = Ok r -> amt_div cp' a' b' = Ok r' -> aq r = aq r'.
Proof.
  unfold amt_div, is_realzero. intros Ha Hb. rewrite Ha, Hb.
  destruct (Qnum (aq b') =? 0)%Z; [discriminate|].
  intros [= <-] [= <-]. cbn [aq]. reflexivity.
Qed.

Lemma amt_compare_exact a b c : amt_compare a b = Ok c -> c = Qcompare (aq a) (aq b).
Proof. unfold amt_compare. destruct (diff_comm a b); [discriminate|]. intros [= <-]. reflexivity. Qed.

Lemma amt_eqb_spec a b :
  amt_eqb a b = true <-> acomm a = acomm b /\ aq a == aq b.
Proof.
  unfold amt_eqb. rewrite andb_true_iff, Qeq_bool_iff.
  assert (Hc : comm_eqb (acomm a) (acomm b) = true <-> acomm a = acomm b).
  { unfold comm_eqb, opt_eqb. destruct (acomm a) as [x|], (acomm b) as [y|]; split;
      try discriminate; try reflexivity.
    - intros H. apply str_eqb_spec in H. congruence.
    - intros [= ->]. apply str_eqb_refl. }
  rewrite Hc. reflexivity.
Qed.

(* laws *)
Lemma add_comm_exact a b r r' : amt_add a b = Ok r -> amt_add b a = Ok r' -> aq r == aq r'.
Proof. intros H H'. apply amt_add_exact in H, H'. rewrite H, H'. ring. Qed.

Lemma add_assoc_exact a b c ab bc r r' :
  amt_add a b = Ok ab -> amt_add ab c = Ok r ->
  amt_add b c = Ok bc -> amt_add a bc = Ok r' -> aq r == aq r'.
Proof.
  intros H1 H2 H3 H4. apply amt_add_exact in H1, H2, H3, H4.
  rewrite H2, H1, H4, H3. ring.
Qed.

Lemma sub_undoes_add a b s r : amt_add a b = Ok s -> amt_sub s b = Ok r -> aq r == aq a.
Proof.
  intros H1 H2. apply amt_add_exact in H1. apply amt_sub_exact in H2. rewrite H2, H1. ring.
Qed.

Lemma div_undoes_mul cp a b r : amt_div cp (amt_mul cp a b) b = Ok r -> aq r == aq a.
Proof.
  intros H. apply amt_div_exact in H as [Hb H]. rewrite H, amt_mul_exact. field. exact Hb.
Qed.

(* ----------------------------------------------------------------- balances *)

(* the exact quantity a balance holds in commodity c: sum over the entries keyed c *)
Fixpoint bden (b : balance) (c : option comm) : Q :=
  match b with
  | [] => 0
  | x :: b' => (if comm_eqb (acomm x) c then aq x else 0) + bden b' c
  end.

Definition keys (b : balance) : list (option comm) := map acomm b.

Lemma comm_eqb_eq x y : comm_eqb x y = true <-> x = y.
Proof.
  unfold comm_eqb, opt_eqb. destruct x as [x|], y as [y|]; split; try discriminate; try reflexivity.
  - intros H. apply str_eqb_spec in H. congruence.
  - intros [= ->]. apply str_eqb_refl.
Qed.

Lemma comm_eqb_refl x : comm_eqb x x = true.
Proof. apply comm_eqb_eq. reflexivity. Qed.

Lemma comm_eqb_sym x y : comm_eqb x y = comm_eqb y x.
Proof.
  destruct (comm_eqb x y) eqn:H.
  - apply comm_eqb_eq in H. subst. symmetry. apply comm_eqb_refl.
  - destruct (comm_eqb y x) eqn:H'; [|reflexivity].
    apply comm_eqb_eq in H'. subst. rewrite comm_eqb_refl in H. discriminate.
Qed.

Lemma comm_eqb_trans_l k x c : comm_eqb x k = true -> comm_eqb x c = comm_eqb k c.
Proof. intros H. apply comm_eqb_eq in H. subst. reflexivity. Qed.

Lemma bden_app b1 b2 c : bden (b1 ++ b2) c == bden b1 c + bden b2 c.
Proof. induction b1 as [|x b1 IH]; cbn [bden app]; [ring | rewrite IH; ring]. Qed.

Lemma bden_insert ord a b c :
  bden (bal_insert ord a b) c == bden b c + (if comm_eqb (acomm a) c then aq a else 0).
Proof.
  unfold bal_insert. destruct ord.
  - cbn [bden]. ring.
  - rewrite bden_app. cbn [bden]. ring.
Qed.

Lemma bal_find_none k b c : bal_find k b = None -> comm_eqb k c = true -> bden b c == 0.
Proof.
  intros Hf Hk. apply comm_eqb_eq in Hk. subst c.
  induction b as [|x b IH]; cbn [bden bal_find] in *; [reflexivity|].
  destruct (comm_eqb (acomm x) k); [discriminate|]. rewrite IH by exact Hf. ring.
Qed.

Lemma bal_find_some k b x : bal_find k b = Some x -> comm_eqb (acomm x) k = true.
Proof.
  induction b as [|y b IH]; cbn [bal_find]; [discriminate|].
  destruct (comm_eqb (acomm y) k) eqn:E; [intros [= <-]; exact E | exact IH].
Qed.

(* replacing the first entry keyed k by y (also keyed k) changes bden at k by aq y - aq x *)
Lemma bden_replace k b x y c :
  bal_find k b = Some x -> comm_eqb (acomm y) k = true ->
  bden (bal_replace k y b) c == bden b c + (if comm_eqb k c then aq y - aq x else 0).
Proof.
  intros Hf Hy. induction b as [|z b IH]; cbn [bal_find bal_replace bden] in *; [discriminate|].
  destruct (comm_eqb (acomm z) k) eqn:Ez.
  - injection Hf as ->. cbn [bden].
    rewrite (comm_eqb_trans_l k (acomm y) c Hy), (comm_eqb_trans_l k (acomm x) c Ez).
    destruct (comm_eqb k c); ring.
  - cbn [bden]. rewrite IH by exact Hf. ring.
Qed.

Lemma bden_erase k b x c :
  bal_find k b = Some x ->
  bden (bal_erase k b) c == bden b c - (if comm_eqb k c then aq x else 0).
Proof.
  intros Hf. induction b as [|z b IH]; cbn [bal_find bal_erase bden] in *; [discriminate|].
  destruct (comm_eqb (acomm z) k) eqn:Ez.
  - injection Hf as ->. rewrite (comm_eqb_trans_l k (acomm x) c Ez).
    destruct (comm_eqb k c); ring.
  - cbn [bden]. rewrite IH by exact Hf. ring.
Qed.

Ltac dcase := repeat match goal with
  | |- context [if comm_eqb ?x ?y then _ else _] => destruct (comm_eqb x y) eqn:?
  end.

Definition at_comm (a : amount) (c : option comm) : Q :=
  if comm_eqb (acomm a) c then aq a else 0.

Lemma amt_add_comm_l x a s : amt_add x a = Ok s -> acomm s = acomm x.
Proof. unfold amt_add. destruct (diff_comm x a); [discriminate|]. intros [= <-]. reflexivity. Qed.
Lemma amt_sub_comm_l x a s : amt_sub x a = Ok s -> acomm s = acomm x.
Proof. unfold amt_sub. destruct (diff_comm x a); [discriminate|]. intros [= <-]. reflexivity. Qed.

Lemma bal_add_amt_exact ord b a b' c :
  bal_add_amt ord b a = Ok b' -> bden b' c == bden b c + at_comm a c.
Proof.
  unfold bal_add_amt, at_comm. destruct (is_realzero a) eqn:Hz.
  - intros [= <-]. apply is_realzero_spec in Hz. destruct (comm_eqb _ _); [rewrite Hz|]; ring.
  - destruct (bal_find (acomm a) b) as [x|] eqn:Hf.
    + destruct (amt_add x a) as [s|] eqn:Hs; cbn [bind]; [|discriminate].
      intros [= <-]. pose proof (bal_find_some _ _ _ Hf) as Hx.
      rewrite (bden_replace (acomm a) b x s c Hf).
      * apply amt_add_exact in Hs. dcase; rewrite ?Hs; ring.
      * rewrite (amt_add_comm_l _ _ _ Hs). exact Hx.
    + intros [= <-]. rewrite bden_insert. reflexivity.
Qed.

Lemma bal_sub_amt_exact ord b a b' c :
  bal_sub_amt ord b a = Ok b' -> bden b' c == bden b c - at_comm a c.
Proof.
  unfold bal_sub_amt, at_comm. destruct (is_realzero a) eqn:Hz.
  - intros [= <-]. apply is_realzero_spec in Hz. destruct (comm_eqb _ _); [rewrite Hz|]; ring.
  - destruct (bal_find (acomm a) b) as [x|] eqn:Hf.
    + destruct (amt_sub x a) as [s|] eqn:Hs; cbn [bind]; [|discriminate].
      pose proof (bal_find_some _ _ _ Hf) as Hx.
      pose proof (amt_sub_exact _ _ _ Hs) as Hq.
      destruct (is_realzero s) eqn:Hsz; intros [= <-].
      * apply is_realzero_spec in Hsz. rewrite (bden_erase (acomm a) b x c Hf).
        rewrite Hq in Hsz. destruct (comm_eqb (acomm a) c); [|ring].
        assert (aq x == aq a) by lra. rewrite H. ring.
      * rewrite (bden_replace (acomm a) b x s c Hf).
        -- dcase; rewrite ?Hq; ring.
        -- rewrite (amt_sub_comm_l _ _ _ Hs). exact Hx.
    + intros [= <-]. rewrite bden_insert. cbn [amt_neg acomm aq].
      dcase; rewrite ?Qred_correct; ring.
Qed.

Lemma bal_add_exact ord c0 : forall c b b',
  bal_add ord b c = Ok b' -> bden b' c0 == bden b c0 + bden c c0.
Proof.
  unfold bal_add. induction c as [|x c IH]; intros b b'; cbn [bal_fold bden].
  - intros [= <-]. ring.
  - destruct (bal_add_amt ord b x) as [b1|] eqn:H1; cbn [bind]; [|discriminate].
    intros H2. rewrite (IH _ _ H2), (bal_add_amt_exact _ _ _ _ c0 H1). unfold at_comm. ring.
Qed.

Lemma bal_sub_exact ord c0 : forall c b b',
  bal_sub ord b c = Ok b' -> bden b' c0 == bden b c0 - bden c c0.
Proof.
  unfold bal_sub. induction c as [|x c IH]; intros b b'; cbn [bal_fold bden].
  - intros [= <-]. ring.
  - destruct (bal_sub_amt ord b x) as [b1|] eqn:H1; cbn [bind]; [|discriminate].
    intros H2. rewrite (IH _ _ H2), (bal_sub_amt_exact _ _ _ _ c0 H1). unfold at_comm. ring.
Qed.

Lemma bden_of_amt a c : bden (bal_of_amt a) c == at_comm a c.
Proof.
  unfold bal_of_amt, at_comm. destruct (is_realzero a) eqn:Hz; cbn [bden].
  - apply is_realzero_spec in Hz. dcase; rewrite ?Hz; ring.
  - ring.
Qed.

(* multiplying / dividing a balance by a plain number scales every commodity *)
Lemma bden_map_mul cp b a c :
  acomm a = None ->
  bden (map (fun x => amt_mul cp x a) b) c == bden b c * aq a.
Proof.
  intros Ha. induction b as [|x b IH]; cbn [map bden]; [ring|].
  rewrite IH.
  assert (Hc : acomm (amt_mul cp x a) = acomm x).
  { unfold amt_mul. cbn [acomm]. rewrite Ha. destruct (acomm x); reflexivity. }
  rewrite Hc. dcase; rewrite ?amt_mul_exact; ring.
Qed.

(* -------------------------------------------------------------------- values *)

(* the denotation: exact rational per commodity *)
Definition den (v : value) (c : option comm) : Q :=
  match v with
  | VVoid => 0
  | VBool _ => 0
  | VInt z => if comm_eqb None c then inject_Z z else 0
  | VAmt a => at_comm a c
  | VBal b => bden b c
  end.

Lemma at_comm_of_Z z c : at_comm (amt_of_Z z) c == den (VInt z) c.
Proof. reflexivity. Qed.

Lemma bal_is_realzero_bden b c : bal_is_realzero b = true -> bden b c == 0.
Proof.
  unfold bal_is_realzero. induction b as [|x b IH]; cbn [forallb bden]; [reflexivity|].
  intros H. apply andb_true_iff in H as [H1 H2]. apply is_realzero_spec in H1.
  rewrite IH by exact H2. dcase; rewrite ?H1; ring.
Qed.

Lemma den_simplify v c : den (simplify v) c == den v c.
Proof.
  unfold simplify. destruct (v_is_realzero v) eqn:Hz.
  - destruct v as [| b | z | a | b]; cbn [v_is_realzero den] in *.
    + destruct (comm_eqb None c); reflexivity.
    + destruct (comm_eqb None c); reflexivity.
    + apply Z.eqb_eq in Hz. subst. reflexivity.
    + apply is_realzero_spec in Hz. unfold at_comm. dcase; rewrite ?Hz; reflexivity.
    + rewrite (bal_is_realzero_bden _ c Hz). destruct (comm_eqb None c); reflexivity.
  - destruct v as [| b | z | a | b]; try reflexivity.
    destruct b as [|x [|y b]]; try reflexivity.
    cbn [den bden]. unfold at_comm. ring.
Qed.

Ltac step_bind H :=
  match type of H with
  | bind ?r _ = Ok _ => let E := fresh "E" in destruct r eqn:E; cbn [bind] in H; [|discriminate]
  end.

Lemma v_add_exact ord v w r c :
  v_add ord v w = Ok r -> den r c == den v c + den w c.
Proof.
  destruct v as [| bv | x | a | b]; [cbn [v_add]; intros [= <-]; cbn [den]; ring| | | |];
    destruct w as [| bw | y | a' | b']; cbn [v_add]; try discriminate; intros H.
  - injection H as <-. cbn [den]. rewrite inject_Z_plus. destruct (comm_eqb None c); ring.
  - destruct (has_comm a') eqn:Hh; step_bind H; injection H as <-; cbn [den].
    + rewrite (bal_add_amt_exact _ _ _ _ c E), bden_of_amt. reflexivity.
    + unfold at_comm. pose proof (amt_add_comm_l _ _ _ E) as Hc. rewrite Hc.
      apply amt_add_exact in E. cbn [amt_of_Z acomm aq] in *.
      unfold has_comm in Hh. destruct (acomm a') eqn:Ha; [discriminate|].
      dcase; rewrite ?E; cbn [amt_of_Z acomm aq]; ring.
  - step_bind H; injection H as <-; cbn [den].
    rewrite (bal_add_exact _ c _ _ _ E), bden_of_amt. reflexivity.
  - destruct (has_comm a) eqn:Hh; step_bind H; injection H as <-; cbn [den].
    + rewrite (bal_add_amt_exact _ _ _ _ c E), bden_of_amt. reflexivity.
    + unfold at_comm. pose proof (amt_add_comm_l _ _ _ E) as Hc. rewrite Hc.
      apply amt_add_exact in E. cbn [amt_of_Z acomm aq] in *.
      unfold has_comm in Hh. destruct (acomm a) eqn:Ha; [discriminate|].
      dcase; rewrite ?E; cbn [amt_of_Z acomm aq]; ring.
  - destruct (comm_eqb (acomm a) (acomm a')) eqn:Hc; step_bind H; injection H as <-; cbn [den].
    + unfold at_comm. rewrite (amt_add_comm_l _ _ _ E).
      apply comm_eqb_eq in Hc. rewrite <- Hc.
      apply amt_add_exact in E. dcase; rewrite ?E; ring.
    + rewrite (bal_add_amt_exact _ _ _ _ c E), bden_of_amt. reflexivity.
  - step_bind H; injection H as <-; cbn [den].
    rewrite (bal_add_exact _ c _ _ _ E), bden_of_amt. reflexivity.
  - step_bind H; injection H as <-; cbn [den].
    rewrite (bal_add_amt_exact _ _ _ _ c E). reflexivity.
  - step_bind H; injection H as <-; cbn [den].
    rewrite (bal_add_amt_exact _ _ _ _ c E). reflexivity.
  - step_bind H; injection H as <-; cbn [den].
    rewrite (bal_add_exact _ c _ _ _ E). reflexivity.
Qed.

Lemma v_sub_exact ord v w r c :
  v_sub ord v w = Ok r -> den r c == den v c - den w c.
Proof.
  destruct v as [| bv | x | a | b];
    destruct w as [| bw | y | a' | b']; cbn [v_sub]; try discriminate; intros H.
  - injection H as <-. cbn [den]. unfold Zminus. rewrite inject_Z_plus, inject_Z_opp.
    destruct (comm_eqb None c); ring.
  - destruct (has_comm a') eqn:Hh; step_bind H; injection H as <-; rewrite ?den_simplify; cbn [den].
    + rewrite (bal_sub_amt_exact _ _ _ _ c E), bden_of_amt. reflexivity.
    + unfold at_comm. rewrite (amt_sub_comm_l _ _ _ E). apply amt_sub_exact in E. cbn [amt_of_Z acomm aq] in *. unfold has_comm in Hh. destruct (acomm a'); [discriminate|].
      dcase; rewrite ?E; cbn [amt_of_Z acomm aq]; ring.
  - step_bind H; injection H as <-. rewrite den_simplify. cbn [den].
    rewrite (bal_sub_exact _ c _ _ _ E), bden_of_amt. reflexivity.
  - destruct (has_comm a) eqn:Hh; step_bind H; injection H as <-; rewrite ?den_simplify; cbn [den].
    + rewrite (bal_sub_amt_exact _ _ _ _ c E), bden_of_amt. reflexivity.
    + unfold at_comm. rewrite (amt_sub_comm_l _ _ _ E). apply amt_sub_exact in E. cbn [amt_of_Z acomm aq] in *. unfold has_comm in Hh. destruct (acomm a); [discriminate|].
      dcase; rewrite ?E; cbn [amt_of_Z acomm aq]; ring.
  - destruct (comm_eqb (acomm a) (acomm a')) eqn:Hc; step_bind H; injection H as <-;
      rewrite ?den_simplify; cbn [den].
    + unfold at_comm. rewrite (amt_sub_comm_l _ _ _ E). apply comm_eqb_eq in Hc. rewrite <- Hc.
      apply amt_sub_exact in E. dcase; rewrite ?E; ring.
    + rewrite (bal_sub_amt_exact _ _ _ _ c E), bden_of_amt. reflexivity.
  - step_bind H; injection H as <-. rewrite den_simplify. cbn [den].
    rewrite (bal_sub_exact _ c _ _ _ E), bden_of_amt. reflexivity.
  - step_bind H; injection H as <-. rewrite den_simplify. cbn [den].
    rewrite (bal_sub_amt_exact _ _ _ _ c E). reflexivity.
  - step_bind H; injection H as <-. rewrite den_simplify. cbn [den].
    rewrite (bal_sub_amt_exact _ _ _ _ c E). reflexivity.
  - step_bind H; injection H as <-. rewrite den_simplify. cbn [den].
    rewrite (bal_sub_exact _ c _ _ _ E). reflexivity.
Qed.

(* total quantity over all commodities of an AMOUNT/INTEGER value: used for * and / *)
Definition scalar (v : value) : option Q :=
  match v with
  | VInt z => Some (inject_Z z)
  | VAmt a => Some (aq a)
  | _ => None
  end.

Lemma v_mul_scalar_exact cp v w r qv qw :
  scalar v = Some qv -> scalar w = Some qw -> v_mul cp v w = Ok r ->
  exists qr, scalar r = Some qr /\ qr == qv * qw.
Proof.
  destruct v as [| bv | x | a | b]; cbn [scalar]; try discriminate;
    destruct w as [| bw | y | a' | b']; cbn [scalar]; try discriminate;
    intros [= <-] [= <-]; cbn [v_mul]; intros [= <-]; cbn [scalar]; eexists; (split; [reflexivity|]);
    rewrite ?amt_mul_exact, ?inject_Z_mult; cbn [amt_of_Z aq]; ring.
Qed.

(* AMOUNT / AMOUNT, AMOUNT / INTEGER: exact quotient; the only error is an exactly zero divisor *)
Lemma v_div_amt_exact cp a w r qw :
  scalar w = Some qw -> v_div cp (VAmt a) w = Ok r ->
  ~ qw == 0 /\ exists qr, scalar r = Some qr /\ qr == aq a / qw.
Proof.
  destruct w as [| bw | y | a' | b']; cbn [scalar]; try discriminate; intros [= <-]; cbn [v_div];
    intros H; step_bind H; injection H as <-; apply amt_div_exact in E as [Hz E]; cbn [scalar].
  - split; [exact Hz|]. eexists; split; [reflexivity|]. exact E.
  - split; [exact Hz|]. eexists; split; [reflexivity|]. exact E.
Qed.

(* expression trees over + - and negation: the whole-tree refinement *)
Fixpoint eden (e : aexp) (c : option comm) : Q :=
  match e with
  | ELit a => at_comm a c
  | EInt z => den (VInt z) c
  | ENeg e1 => - eden e1 c
  | EBin OAdd l r => eden l c + eden r c
  | EBin OSub l r => eden l c - eden r c
  | _ => 0
  end.

Fixpoint addsub_tree (e : aexp) : bool :=
  match e with
  | ELit _ | EInt _ => true
  | ENeg e1 => addsub_tree e1
  | EBin OAdd l r => addsub_tree l && addsub_tree r
  | EBin OSub l r => addsub_tree l && addsub_tree r
  | _ => false
  end.

Lemma bden_map_neg b c : bden (map amt_neg b) c == - bden b c.
Proof.
  induction b as [|x b IH]; cbn [map bden]; [ring|].
  rewrite IH. cbn [amt_neg acomm]. dcase; rewrite ?amt_neg_exact; ring.
Qed.

Lemma v_neg_exact v r c : v_neg v = Ok r -> den r c == - den v c.
Proof.
  destruct v as [| b | z | a | b]; cbn [v_neg]; try discriminate; intros [= <-]; cbn [den].
  - ring.
  - rewrite inject_Z_opp. destruct (comm_eqb None c); ring.
  - unfold at_comm. cbn [amt_neg acomm]. dcase; rewrite ?amt_neg_exact; ring.
  - apply bden_map_neg.
Qed.

Theorem aeval_addsub_exact ord cp e v c :
  addsub_tree e = true -> aeval ord cp e = Ok v -> den v c == eden e c.
Proof.
  revert v. induction e as [a | z | e1 IH | e1 IH | o l IHl r IHr]; cbn [addsub_tree aeval eden];
    intros v Ht H; try discriminate.
  - injection H as <-. reflexivity.
  - injection H as <-. reflexivity.
  - step_bind H. rewrite (v_neg_exact _ _ c H), (IH _ Ht eq_refl). reflexivity.
  - destruct o; try discriminate; apply andb_true_iff in Ht as [Htl Htr];
      step_bind H; step_bind H.
    + rewrite (v_add_exact _ _ _ _ c H), (IHl _ Htl eq_refl), (IHr _ Htr eq_refl). reflexivity.
    + rewrite (v_sub_exact _ _ _ _ c H), (IHl _ Htl eq_refl), (IHr _ Htr eq_refl). reflexivity.
Qed.

(* hence the result does not depend on the hash-table insertion order *)
Corollary aeval_addsub_order_free cp e v v' c :
  addsub_tree e = true -> aeval false cp e = Ok v -> aeval true cp e = Ok v' -> den v c == den v' c.
Proof.
  intros Ht H H'. rewrite (aeval_addsub_exact _ _ _ _ c Ht H), (aeval_addsub_exact _ _ _ _ c Ht H').
  reflexivity.
Qed.

(* ---- multi-commodity balances times / divided by a plain number: every commodity scales ---- *)
Lemma bal_mul_scalar_exact cp b a r c :
  acomm a = None -> bal_mul cp b a = Ok r -> bden r c == bden b c * aq a.
Proof.
  intros Ha. unfold bal_mul. destruct (bal_is_realzero b) eqn:Hz.
  - intros [= <-]. rewrite (bal_is_realzero_bden b c Hz). ring.
  - destruct (is_realzero a) eqn:Hza.
    + intros [= <-]. rewrite bden_of_amt. apply is_realzero_spec in Hza. unfold at_comm.
      dcase; rewrite ?Hza; ring.
    + rewrite Ha. intros [= <-]. apply bden_map_mul. exact Ha.
Qed.

Lemma bden_map_div cp a : acomm a = None -> forall b r c,
  map_res (fun x => amt_div cp x a) b = Ok r -> bden r c == bden b c / aq a.
Proof.
  intros Ha. induction b as [|x b IH]; intros r c; cbn [map_res bden].
  - intros [= <-]. cbn [bden]. unfold Qdiv. ring.
  - destruct (amt_div cp x a) as [y|] eqn:Hy; cbn [bind]; [|discriminate].
    destruct (map_res (fun x0 => amt_div cp x0 a) b) as [ys|] eqn:Hys; cbn [bind]; [|discriminate].
    intros [= <-]. cbn [bden]. rewrite (IH _ c eq_refl).
    assert (Hc : acomm y = acomm x).
    { unfold amt_div in Hy. destruct (is_realzero a); [discriminate|]. injection Hy as <-. cbn [acomm].
      rewrite Ha. destruct (acomm x); reflexivity. }
    apply amt_div_exact in Hy as [Hnz Hy]. rewrite Hc.
    dcase; rewrite ?Hy; unfold Qdiv; ring.
Qed.

Lemma bal_div_scalar_exact cp b a r c :
  acomm a = None -> bal_div cp b a = Ok r -> bden r c == bden b c / aq a.
Proof.
  intros Ha. unfold bal_div. destruct (bal_is_realzero b) eqn:Hz.
  - intros [= <-]. rewrite (bal_is_realzero_bden b c Hz). unfold Qdiv. ring.
  - destruct (is_realzero a); [discriminate|]. rewrite Ha. apply bden_map_div. exact Ha.
Qed.

Lemma bal_div_zero cp b a : bal_is_realzero b = false -> aq a == 0 -> bal_div cp b a = Err EDivZero.
Proof.
  intros Hb Ha. unfold bal_div. rewrite Hb. apply is_realzero_spec in Ha. rewrite Ha. reflexivity.
Qed.
