(* Proofs about Model/Escape.v: every reader specification inverts the corresponding writer. *)
From LedgerV Require Import Base.Prelude Gen.CsvFormat Gen.PayeeRule Model.Escape.
Local Open Scope Z_scope.

(* every statement below holds with and without --aux-date *)
Section WithAuxFlag.
Variable use_aux : bool.

(* ------------------------------------------------------------------------------------------ *)
(* replace_char                                                                                *)

Lemma replace_char_app c rep a b :
  replace_char c rep (a ++ b) = replace_char c rep a ++ replace_char c rep b.
Proof.
  induction a as [|x a IH]; cbn [replace_char app]; [reflexivity|].
  destruct (x =? c); rewrite IH; [rewrite app_assoc|]; reflexivity.
Qed.

Lemma replace_char_absent c rep s : ~ In c s -> replace_char c rep s = s.
Proof.
  induction s as [|x s IH]; cbn [replace_char]; intros H; [reflexivity|].
  destruct (Z.eqb_spec x c) as [->|_].
  - exfalso. apply H. left. reflexivity.
  - rewrite IH; [reflexivity|]. intros Hin. apply H. right. exact Hin.
Qed.

(* ------------------------------------------------------------------------------------------ *)
(* emacs strings                                                                               *)

(* the two passes of escape_string amount to one pass *)
Definition esc1 (c : Z) : str :=
  if c =? 92 then [92; 92] else if c =? 34 then [92; 34] else [c].

Lemma emacs_escape_flat s : emacs_escape s = flat_map esc1 s.
Proof.
  unfold emacs_escape.
  induction s as [|x s IH]; [reflexivity|].
  cbn [replace_char flat_map]. unfold esc1 at 1.
  destruct (Z.eqb_spec x 92) as [->|Hn].
  - cbn [app replace_char]. cbn. rewrite IH. reflexivity.
  - cbn [replace_char]. destruct (Z.eqb_spec x 34) as [->|Hq].
    + rewrite IH. reflexivity.
    + rewrite IH. reflexivity.
Qed.

Lemma lex_string_body s : forall acc r,
  lisp_lex (LsStr acc) (flat_map esc1 s ++ 34 :: r)
  = option_map (cons (LStr (acc ++ s))) (lisp_lex LsNorm r).
Proof.
  induction s as [|x s IH]; intros acc r.
  - cbn. rewrite app_nil_r. reflexivity.
  - cbn [flat_map]. unfold esc1 at 1.
    destruct (Z.eqb_spec x 92) as [->|Hn].
    + cbn [app lisp_lex]. cbn. rewrite IH. rewrite <- app_assoc. reflexivity.
    + destruct (Z.eqb_spec x 34) as [->|Hq].
      * cbn [app lisp_lex]. cbn. rewrite IH. rewrite <- app_assoc. reflexivity.
      * cbn [app lisp_lex].
        destruct (Z.eqb_spec x 34); [contradiction|].
        destruct (Z.eqb_spec x 92); [contradiction|].
        rewrite IH. rewrite <- app_assoc. reflexivity.
Qed.

Lemma lex_emacs_string s r :
  lisp_lex LsNorm (emacs_string s ++ r) = option_map (cons (LStr s)) (lisp_lex LsNorm r).
Proof.
  unfold emacs_string. rewrite emacs_escape_flat.
  cbn [app lisp_lex]. cbn. rewrite <- app_assoc. cbn [app].
  rewrite lex_string_body. reflexivity.
Qed.

Lemma emacs_roundtrip_lemma s : lisp_read_string (emacs_string s) = Some s.
Proof.
  unfold lisp_read_string.
  rewrite <- (app_nil_r (emacs_string s)). rewrite lex_emacs_string. reflexivity.
Qed.

(* ------------------------------------------------------------------------------------------ *)
(* atoms (numbers, nil, t, pending)                                                            *)

Definition atom_char (c : Z) : bool :=
  negb ((c =? 40) || (c =? 41) || (c =? 34) || is_lisp_ws c).

Lemma lex_atom_more a : forall acc r,
  forallb atom_char a = true ->
  lisp_lex (LsAtom acc) (a ++ r) = lisp_lex (LsAtom (acc ++ a)) r.
Proof.
  induction a as [|x a IH]; intros acc r H.
  - cbn. rewrite app_nil_r. reflexivity.
  - cbn [forallb] in H. apply andb_true_iff in H as [Hx Ha].
    unfold atom_char in Hx. apply negb_true_iff in Hx.
    apply orb_false_iff in Hx as [Hx Hws]. apply orb_false_iff in Hx as [Hx H34].
    apply orb_false_iff in Hx as [H40 H41].
    cbn [app lisp_lex]. rewrite H40, H41, H34, Hws.
    rewrite IH by exact Ha. rewrite <- app_assoc. reflexivity.
Qed.

Lemma lex_atom_start x a r :
  atom_char x = true -> forallb atom_char a = true ->
  lisp_lex LsNorm ((x :: a) ++ r) = lisp_lex (LsAtom (x :: a)) r.
Proof.
  intros Hx Ha. unfold atom_char in Hx. apply negb_true_iff in Hx.
  apply orb_false_iff in Hx as [Hx Hws]. apply orb_false_iff in Hx as [Hx H34].
  apply orb_false_iff in Hx as [H40 H41].
  cbn [app lisp_lex]. rewrite H40, H41, H34, Hws.
  apply (lex_atom_more a [x] r Ha).
Qed.

(* decimal numbers are atoms *)
Lemma dec_digits_atom fuel : forall n acc,
  0 <= n -> forallb atom_char acc = true -> forallb atom_char (dec_digits fuel n acc) = true.
Proof.
  induction fuel as [|f IH]; intros n acc Hn Hacc; cbn [dec_digits]; [exact Hacc|].
  destruct (Z.ltb_spec n 10) as [Hlt|Hge].
  - cbn [forallb]. rewrite Hacc, andb_true_r.
    assert (H : 48 <= 48 + n <= 57) by lia.
    unfold atom_char, is_lisp_ws.
    repeat match goal with |- context [?a =? ?b] => destruct (Z.eqb_spec a b); [lia|] end.
    reflexivity.
  - apply IH.
    + apply Z.div_pos; lia.
    + cbn [forallb]. rewrite Hacc, andb_true_r.
      assert (H : 48 <= 48 + n mod 10 <= 57) by (pose proof (Z.mod_pos_bound n 10); lia).
      unfold atom_char, is_lisp_ws.
      repeat match goal with |- context [?a =? ?b] => destruct (Z.eqb_spec a b); [lia|] end.
      reflexivity.
Qed.

Lemma dec_digits_nonempty fuel : forall n acc,
  (fuel <> 0)%nat \/ acc <> [] -> dec_digits fuel n acc <> [].
Proof.
  induction fuel as [|f IH]; intros n acc H; cbn [dec_digits].
  - destruct H as [H|H]; [contradiction|exact H].
  - destruct (n <? 10); [discriminate|]. apply IH. right. discriminate.
Qed.

Lemma dec_Z_atom n : forallb atom_char (dec_Z n) = true /\ dec_Z n <> [].
Proof.
  unfold dec_Z, dec_nat. destruct (Z.ltb_spec n 0).
  - split; [|discriminate]. cbn [forallb]. apply andb_true_iff. split; [reflexivity|].
    apply dec_digits_atom; [lia|reflexivity].
  - split.
    + apply dec_digits_atom; [lia|reflexivity].
    + apply dec_digits_nonempty. left. discriminate.
Qed.

(* a number followed by a space, or by a closing parenthesis *)
Lemma lex_number_space n r :
  lisp_lex LsNorm (dec_Z n ++ 32 :: r) = option_map (cons (LAtom (dec_Z n))) (lisp_lex LsNorm r).
Proof.
  destruct (dec_Z_atom n) as [Ha Hne].
  destruct (dec_Z n) as [|x a] eqn:E; [contradiction|].
  cbn [forallb] in Ha. apply andb_true_iff in Ha as [Hx Ha].
  rewrite lex_atom_start by assumption. reflexivity.
Qed.

Lemma lex_number_close n r :
  lisp_lex LsNorm (dec_Z n ++ 41 :: r)
  = option_map (fun l => LAtom (dec_Z n) :: LClose :: l) (lisp_lex LsNorm r).
Proof.
  destruct (dec_Z_atom n) as [Ha Hne].
  destruct (dec_Z n) as [|x a] eqn:E; [contradiction|].
  cbn [forallb] in Ha. apply andb_true_iff in Ha as [Hx Ha].
  rewrite lex_atom_start by assumption. reflexivity.
Qed.

(* ------------------------------------------------------------------------------------------ *)
(* the whole emacs output: expected tokens                                                     *)

Definition a_nil : str := [110; 105; 108].
Definition a_t : str := [116].
Definition a_pending : str := [112; 101; 110; 100; 105; 110; 103].

Definition state_tok (st : Z) : ltok :=
  LAtom (if st =? 1 then a_t else if st =? 2 then a_pending else a_nil).

Definition opt_tok (o : option str) : list ltok :=
  match o with Some s => [LStr s] | None => [] end.

Definition post_tokens (x : xact) (p : post) : list ltok :=
  [LOpen; LAtom (dec_Z (p_line p)); LStr (p_account p); LStr (a_text (p_amount p));
   state_tok (eff_state x p)] ++
  opt_tok (option_map a_text (p_cost p)) ++ opt_tok (p_note p) ++ [LClose].

Definition xact_secs (x : xact) : Z :=
  let d := xact_date use_aux x in days_from_civil (fst (fst d)) (snd (fst d)) (snd d) * 86400.

Definition xact_tokens (path : str) (x : xact) : list ltok :=
  [LStr path; LAtom (dec_Z (x_line x));
   LOpen; LAtom (dec_Z (Z.quot (xact_secs x) 65536)); LAtom (dec_Z (Z.rem (xact_secs x) 65536));
   LAtom [48]; LClose;
   match x_code x with Some c => LStr c | None => LAtom a_nil end;
   match x_payee x with [] => LAtom a_nil | _ => LStr (x_payee x) end] ++
  flat_map (post_tokens x) (x_posts x).

Definition emacs_tokens (path : str) (xs : list xact) : list ltok :=
  match xs with
  | [] => []
  | _ => LOpen :: flat_map (fun x => LOpen :: xact_tokens path x ++ [LClose]) xs ++ [LClose]
  end.

Notation LX := (lisp_lex LsNorm).

Lemma lexS_string s r t : LX r = Some t -> LX (emacs_string s ++ r) = Some (LStr s :: t).
Proof. intros H. rewrite lex_emacs_string, H. reflexivity. Qed.

Lemma lexS_number_space n r t :
  LX r = Some t -> LX (dec_Z n ++ 32 :: r) = Some (LAtom (dec_Z n) :: t).
Proof. intros H. rewrite lex_number_space, H. reflexivity. Qed.

Lemma lexS_number_close n r t :
  LX r = Some t -> LX (dec_Z n ++ 41 :: r) = Some (LAtom (dec_Z n) :: LClose :: t).
Proof. intros H. rewrite lex_number_close, H. reflexivity. Qed.

Lemma lexS_sp r t : LX r = Some t -> LX (32 :: r) = Some t.
Proof. intros H. cbn. exact H. Qed.
Lemma lexS_nl r t : LX r = Some t -> LX (10 :: r) = Some t.
Proof. intros H. cbn. exact H. Qed.
Lemma lexS_open r t : LX r = Some t -> LX (40 :: r) = Some (LOpen :: t).
Proof. intros H. cbn. rewrite H. reflexivity. Qed.
Lemma lexS_close r t : LX r = Some t -> LX (41 :: r) = Some (LClose :: t).
Proof. intros H. cbn. rewrite H. reflexivity. Qed.

(* the state atom is followed by a space (cost or note) or by the closing parenthesis *)
Lemma lexS_state_space st r t :
  LX r = Some t -> LX (emacs_state st ++ 32 :: r) = Some (state_tok st :: t).
Proof.
  intros H. unfold emacs_state, state_tok.
  destruct (st =? 1); [cbn; rewrite H; reflexivity|].
  destruct (st =? 2); cbn; rewrite H; reflexivity.
Qed.

Lemma lexS_state_close st r t :
  LX r = Some t -> LX (emacs_state st ++ 41 :: r) = Some (state_tok st :: LClose :: t).
Proof.
  intros H. unfold emacs_state, state_tok.
  destruct (st =? 1); [cbn; rewrite H; reflexivity|].
  destruct (st =? 2); cbn; rewrite H; reflexivity.
Qed.

Lemma lexS_post x p r t :
  LX r = Some t -> LX (emacs_post x p ++ r) = Some (post_tokens x p ++ t).
Proof.
  intros H. unfold emacs_post, post_tokens.
  rewrite <- !app_assoc. cbn [app].
  apply lexS_sp, lexS_sp, lexS_open.
  apply lexS_number_space, lexS_string, lexS_sp, lexS_string.
  destruct (p_cost p) as [c|]; destruct (p_note p) as [n|]; cbn [option_map opt_tok app];
    rewrite <- ?app_assoc; cbn [app].
  - apply lexS_state_space, lexS_string, lexS_sp, lexS_string, lexS_close, H.
  - apply lexS_state_space, lexS_string, lexS_close, H.
  - apply lexS_state_space, lexS_string, lexS_close, H.
  - apply lexS_state_close, H.
Qed.

Lemma lexS_posts x ps : forall r t,
  LX r = Some t -> LX (emacs_posts x ps ++ r) = Some (flat_map (post_tokens x) ps ++ t).
Proof.
  induction ps as [|p ps IH]; intros r t H; [exact H|].
  destruct ps as [|q ps].
  - cbn [emacs_posts flat_map]. rewrite app_nil_r. apply lexS_post, H.
  - change (emacs_posts x (p :: q :: ps)) with (emacs_post x p ++ [10] ++ emacs_posts x (q :: ps)).
    change (flat_map (post_tokens x) (p :: q :: ps))
      with (post_tokens x p ++ flat_map (post_tokens x) (q :: ps)).
    rewrite <- !app_assoc. cbn [app].
    apply lexS_post, lexS_nl. apply (IH r t H).
Qed.

Lemma lexS_zero_close r t : LX r = Some t -> LX (48 :: 41 :: r) = Some (LAtom [48] :: LClose :: t).
Proof. intros H. cbn. rewrite H. reflexivity. Qed.
Lemma lexS_nil_space r t : LX r = Some t -> LX (110 :: 105 :: 108 :: 32 :: r) = Some (LAtom a_nil :: t).
Proof. intros H. cbn. rewrite H. reflexivity. Qed.
Lemma lexS_nil_nl r t : LX (10 :: r) = Some t -> LX (110 :: 105 :: 108 :: 10 :: r) = Some (LAtom a_nil :: t).
Proof. intros H. cbn in H. cbn. rewrite H. reflexivity. Qed.

Lemma lexS_xact path x r t :
  LX r = Some t -> LX (emacs_xact use_aux path x ++ r) = Some (xact_tokens path x ++ t).
Proof.
  intros H. unfold emacs_xact, emacs_xact_head, xact_tokens.
  fold (xact_secs x).
  rewrite <- !app_assoc. cbn [app].
  apply lexS_string, lexS_sp, lexS_number_space, lexS_open, lexS_number_space, lexS_number_space.
  assert (Hposts : LX (10 :: emacs_posts x (x_posts x) ++ r)
                   = Some (flat_map (post_tokens x) (x_posts x) ++ t)).
  { apply lexS_nl, lexS_posts, H. }
  destruct (x_code x) as [c|]; destruct (x_payee x) as [|y payee] eqn:Ep;
    rewrite <- ?app_assoc; cbn [app]; apply lexS_zero_close, lexS_sp.
  - apply lexS_string, lexS_sp, lexS_nil_nl, Hposts.
  - apply lexS_string, lexS_sp, lexS_string, Hposts.
  - apply lexS_nil_space, lexS_nil_nl, Hposts.
  - apply lexS_nil_space, lexS_string, Hposts.
Qed.

Lemma lexS_xacts path xs : forall r t,
  xs <> [] -> LX r = Some t ->
  LX (40 :: emacs_xacts use_aux path xs ++ 41 :: r)
  = Some (flat_map (fun x => LOpen :: xact_tokens path x ++ [LClose]) xs ++ t).
Proof.
  induction xs as [|x xs IH]; intros r t Hne H; [contradiction|].
  destruct xs as [|y xs].
  - cbn [emacs_xacts flat_map]. rewrite app_nil_r. cbn [app]. rewrite <- app_assoc. cbn [app].
    apply lexS_open. apply lexS_xact, lexS_close, H.
  - change (emacs_xacts use_aux path (x :: y :: xs))
      with (emacs_xact use_aux path x ++ [41; 10; 32; 40] ++ emacs_xacts use_aux path (y :: xs)).
    change (flat_map (fun x0 => LOpen :: xact_tokens path x0 ++ [LClose]) (x :: y :: xs))
      with ((LOpen :: xact_tokens path x ++ [LClose]) ++
            flat_map (fun x0 => LOpen :: xact_tokens path x0 ++ [LClose]) (y :: xs)).
    rewrite <- !app_assoc. cbn [app]. rewrite <- !app_assoc. cbn [app].
    apply lexS_open. apply lexS_xact, lexS_close, lexS_nl, lexS_sp.
    apply (IH r t); [discriminate|exact H].
Qed.

Lemma emacs_lex_lemma path xs : LX (emacs_out use_aux path xs) = Some (emacs_tokens path xs).
Proof.
  destruct xs as [|x xs]; [reflexivity|].
  unfold emacs_out, emacs_tokens.
  change ([40; 40] ++ emacs_xacts use_aux path (x :: xs) ++ [41; 41; 10])
    with (40 :: 40 :: emacs_xacts use_aux path (x :: xs) ++ 41 :: [41; 10]).
  apply lexS_open. apply lexS_xacts; [discriminate|reflexivity].
Qed.

(* parenthesis balance of the expected tokens *)
Lemma depth_after_app a : forall d b,
  depth_after d (a ++ b)
  = match depth_after d a with Some d' => depth_after d' b | None => None end.
Proof.
  induction a as [|k a IH]; intros d b; [reflexivity|].
  destruct k; cbn [app depth_after]; try apply IH.
  destruct (d <=? 0); [reflexivity|apply IH].
Qed.

Lemma depth_post x p d : 0 <= d -> depth_after d (post_tokens x p) = Some d.
Proof.
  intros Hd. unfold post_tokens, state_tok.
  destruct (p_cost p); destruct (p_note p); cbn [option_map opt_tok app depth_after];
    (destruct (Z.leb_spec (d + 1) 0); [lia|]); f_equal; lia.
Qed.

Lemma depth_posts x ps d : 0 <= d -> depth_after d (flat_map (post_tokens x) ps) = Some d.
Proof.
  intros Hd. induction ps as [|p ps IH]; [reflexivity|].
  cbn [flat_map]. rewrite depth_after_app, depth_post by exact Hd. exact IH.
Qed.

Lemma depth_xact path x d :
  0 <= d -> depth_after d (LOpen :: xact_tokens path x ++ [LClose]) = Some d.
Proof.
  intros Hd. unfold xact_tokens. cbn [depth_after app].
  destruct (Z.leb_spec (d + 1 + 1) 0); [lia|].
  replace (d + 1 + 1 - 1) with (d + 1) by lia.
  assert (Hrest : depth_after (d + 1) (flat_map (post_tokens x) (x_posts x) ++ [LClose]) = Some d).
  { rewrite depth_after_app, depth_posts by lia. cbn [depth_after].
    destruct (Z.leb_spec (d + 1) 0); [lia|]. f_equal. lia. }
  destruct (x_code x); destruct (x_payee x); cbn [depth_after]; exact Hrest.
Qed.

Lemma depth_xacts path xs d :
  0 <= d ->
  depth_after d (flat_map (fun x => LOpen :: xact_tokens path x ++ [LClose]) xs) = Some d.
Proof.
  intros Hd. induction xs as [|x xs IH]; [reflexivity|].
  cbn [flat_map]. rewrite depth_after_app.
  change (LOpen :: xact_tokens path x ++ [LClose]) with (LOpen :: xact_tokens path x ++ [LClose]).
  rewrite (depth_xact path x d Hd). exact IH.
Qed.

Lemma emacs_balanced_lemma path xs : balanced (emacs_tokens path xs) = true.
Proof.
  unfold balanced, emacs_tokens. destruct xs as [|x xs]; [reflexivity|].
  cbn [depth_after]. rewrite depth_after_app.
  rewrite (depth_xacts path (x :: xs) (0 + 1)) by lia. reflexivity.
Qed.

(* ------------------------------------------------------------------------------------------ *)
(* csv                                                                                         *)

Definition plain_rows (rows : list (list (csv_quoter * str))) : list (list str) :=
  map (map snd) rows.

(* a cell the RFC 4180 reader recovers: written by quoted_rfc, or by quoted when it holds neither a
   double quote nor a backslash (the two functions then write the same text) *)
Definition rfc_ok (c : csv_quoter * str) : Prop :=
  match fst c with
  | QRfc => True
  | QDefault => ~ In 34 (snd c) /\ ~ In 92 (snd c)
  | _ => False
  end.

(* a cell the backslash reader recovers: anything written by quoted; written by quoted_rfc when
   it holds neither a double quote nor a backslash *)
Definition bs_ok (c : csv_quoter * str) : Prop :=
  match fst c with
  | QDefault => True
  | QRfc => ~ In 34 (snd c) /\ ~ In 92 (snd c)
  | _ => False
  end.

Lemma csv_esc_absent f : ~ In 34 f -> ~ In 92 f -> flat_map csv_esc f = f.
Proof.
  induction f as [|x f IH]; intros H34 H92; [reflexivity|].
  cbn [flat_map]. unfold csv_esc at 1.
  destruct (Z.eqb_spec x 34) as [->|_]; [exfalso; apply H34; left; reflexivity|].
  destruct (Z.eqb_spec x 92) as [->|_]; [exfalso; apply H92; left; reflexivity|].
  cbn [app]. f_equal. apply IH; intros Hin; [apply H34|apply H92]; right; exact Hin.
Qed.

Lemma quoted_eq_rfc_plain f : ~ In 34 f -> ~ In 92 f -> csv_quoted f = csv_quoted_rfc f.
Proof.
  intros H34 H92. unfold csv_quoted, csv_quoted_rfc.
  rewrite csv_esc_absent by assumption. rewrite replace_char_absent by exact H34. reflexivity.
Qed.

Lemma rfc_ok_cell c : rfc_ok c -> apply_quoter (fst c) (snd c) = csv_quoted_rfc (snd c).
Proof.
  destruct c as [q f]. unfold rfc_ok. cbn [fst snd].
  destruct q; cbn [apply_quoter]; intros H; try contradiction.
  - destruct H. apply quoted_eq_rfc_plain; assumption.
  - reflexivity.
Qed.

Lemma bs_ok_cell c : bs_ok c -> apply_quoter (fst c) (snd c) = csv_quoted (snd c).
Proof.
  destruct c as [q f]. unfold bs_ok. cbn [fst snd].
  destruct q; cbn [apply_quoter]; intros H; try contradiction.
  - reflexivity.
  - destruct H. symmetry. apply quoted_eq_rfc_plain; assumption.
Qed.

(* --- RFC reader --- *)
Lemma rfc_body f : forall acc row r,
  csv_rfc CsQ acc row (replace_char 34 [34; 34] f ++ 34 :: r) = csv_rfc CsQQ (acc ++ f) row r.
Proof.
  induction f as [|x f IH]; intros acc row r.
  - cbn. rewrite app_nil_r. reflexivity.
  - cbn [replace_char]. destruct (Z.eqb_spec x 34) as [->|Hn].
    + cbn [app csv_rfc]. cbn. rewrite IH. rewrite <- app_assoc. reflexivity.
    + cbn [app csv_rfc]. destruct (Z.eqb_spec x 34); [contradiction|].
      rewrite IH. rewrite <- app_assoc. reflexivity.
Qed.

Lemma rfc_cell_comma f fld row r :
  csv_rfc CsStart fld row (csv_quoted_rfc f ++ 44 :: r) = csv_rfc CsStart [] (row ++ [f]) r.
Proof.
  unfold csv_quoted_rfc. cbn [app csv_rfc]. cbn. rewrite <- app_assoc. cbn [app].
  rewrite rfc_body. reflexivity.
Qed.

Lemma rfc_cell_newline f fld row r :
  csv_rfc CsStart fld row (csv_quoted_rfc f ++ 10 :: r)
  = option_map (cons (row ++ [f])) (csv_rfc CsStart [] [] r).
Proof.
  unfold csv_quoted_rfc. cbn [app csv_rfc]. cbn. rewrite <- app_assoc. cbn [app].
  rewrite rfc_body. reflexivity.
Qed.

Lemma rfc_row cells : forall row0 r,
  cells <> [] -> Forall rfc_ok cells ->
  csv_rfc CsStart [] row0 (csv_row_text cells ++ r)
  = option_map (cons (row0 ++ map snd cells)) (csv_rfc CsStart [] [] r).
Proof.
  unfold csv_row_text, src_csv_separator, src_csv_terminator.
  induction cells as [|c cells IH]; intros row0 r Hne Hok; [contradiction|].
  inversion Hok as [|? ? Hc Hrest]; subst.
  destruct cells as [|d cells].
  - cbn [map intercalate]. rewrite (rfc_ok_cell c Hc). rewrite <- app_assoc. cbn [app].
    apply rfc_cell_newline.
  - change (intercalate [44] (map (fun c0 => apply_quoter (fst c0) (snd c0)) (c :: d :: cells)))
      with (apply_quoter (fst c) (snd c) ++ [44] ++
            intercalate [44] (map (fun c0 => apply_quoter (fst c0) (snd c0)) (d :: cells))).
    rewrite (rfc_ok_cell c Hc). rewrite <- !app_assoc. cbn [app].
    rewrite rfc_cell_comma.
    change (10 :: r) with ([10] ++ r). rewrite app_assoc.
    etransitivity; [apply (IH (row0 ++ [snd c]) r); [discriminate|exact Hrest]|].
    rewrite <- app_assoc. reflexivity.
Qed.

Lemma csv_rfc_read_lemma rows :
  Forall (fun row => row <> [] /\ Forall rfc_ok row) rows ->
  csv_read_rfc (csv_text rows) = Some (plain_rows rows).
Proof.
  unfold csv_read_rfc, csv_text, plain_rows.
  induction rows as [|row rows IH]; intros H; [reflexivity|].
  inversion H as [|? ? [Hne Hok] Hrest]; subst.
  cbn [flat_map map]. rewrite (rfc_row row [] _ Hne Hok). rewrite (IH Hrest). reflexivity.
Qed.

(* --- backslash reader --- *)
Lemma bs_body f : forall acc row r,
  csv_bs BsQ acc row (flat_map csv_esc f ++ 34 :: r) = csv_bs BsEnd (acc ++ f) row r.
Proof.
  induction f as [|x f IH]; intros acc row r.
  - cbn. rewrite app_nil_r. reflexivity.
  - cbn [flat_map]. unfold csv_esc at 1.
    destruct (Z.eqb_spec x 34) as [->|Hq].
    + cbn [app csv_bs]. cbn. rewrite IH. rewrite <- app_assoc. reflexivity.
    + destruct (Z.eqb_spec x 92) as [->|Hn].
      * cbn [app csv_bs]. cbn. rewrite IH. rewrite <- app_assoc. reflexivity.
      * cbn [app csv_bs].
        destruct (Z.eqb_spec x 34); [contradiction|].
        destruct (Z.eqb_spec x 92); [contradiction|].
        rewrite IH. rewrite <- app_assoc. reflexivity.
Qed.

Lemma bs_cell_comma f fld row r :
  csv_bs BsStart fld row (csv_quoted f ++ 44 :: r) = csv_bs BsStart [] (row ++ [f]) r.
Proof.
  unfold csv_quoted. cbn [app csv_bs]. cbn. rewrite <- app_assoc. cbn [app].
  rewrite bs_body. reflexivity.
Qed.

Lemma bs_cell_newline f fld row r :
  csv_bs BsStart fld row (csv_quoted f ++ 10 :: r)
  = option_map (cons (row ++ [f])) (csv_bs BsStart [] [] r).
Proof.
  unfold csv_quoted. cbn [app csv_bs]. cbn. rewrite <- app_assoc. cbn [app].
  rewrite bs_body. reflexivity.
Qed.

Lemma bs_row cells : forall row0 r,
  cells <> [] -> Forall bs_ok cells ->
  csv_bs BsStart [] row0 (csv_row_text cells ++ r)
  = option_map (cons (row0 ++ map snd cells)) (csv_bs BsStart [] [] r).
Proof.
  unfold csv_row_text, src_csv_separator, src_csv_terminator.
  induction cells as [|c cells IH]; intros row0 r Hne Hok; [contradiction|].
  inversion Hok as [|? ? Hc Hrest]; subst.
  pose proof (bs_ok_cell c Hc) as Hq.
  destruct cells as [|d cells].
  - cbn [map intercalate]. rewrite Hq. rewrite <- app_assoc. cbn [app].
    apply bs_cell_newline.
  - change (intercalate [44] (map (fun c0 => apply_quoter (fst c0) (snd c0)) (c :: d :: cells)))
      with (apply_quoter (fst c) (snd c) ++ [44] ++
            intercalate [44] (map (fun c0 => apply_quoter (fst c0) (snd c0)) (d :: cells))).
    rewrite Hq. rewrite <- !app_assoc. cbn [app].
    rewrite bs_cell_comma.
    change (10 :: r) with ([10] ++ r). rewrite app_assoc.
    etransitivity; [apply (IH (row0 ++ [snd c]) r); [discriminate|exact Hrest]|].
    rewrite <- app_assoc. reflexivity.
Qed.

Lemma csv_bs_read_lemma rows :
  Forall (fun row => row <> [] /\ Forall bs_ok row) rows ->
  csv_read_bs (csv_text rows) = Some (plain_rows rows).
Proof.
  unfold csv_read_bs, csv_text, plain_rows.
  induction rows as [|row rows IH]; intros H; [reflexivity|].
  inversion H as [|? ? [Hne Hok] Hrest]; subst.
  cbn [flat_map map]. rewrite (bs_row row [] _ Hne Hok). rewrite (IH Hrest). reflexivity.
Qed.

(* --- rows of a report --- *)
Lemma csv_rows_forall (P : csv_quoter * str -> Prop) fmt xs :
  fmt <> [] ->
  (forall x p qf, In x xs -> In p (x_posts x) -> In qf fmt ->
                  P (fst qf, field_value use_aux x p (snd qf))) ->
  Forall (fun row => row <> [] /\ Forall P row) (csv_rows use_aux fmt xs).
Proof.
  intros Hne H. apply Forall_forall. intros row Hin.
  unfold csv_rows in Hin. apply in_flat_map in Hin as [x [Hx Hin]].
  apply in_map_iff in Hin as [p [<- Hp]].
  split.
  - unfold csv_cells. destruct fmt; [contradiction|discriminate].
  - apply Forall_forall. intros c Hc. unfold csv_cells in Hc.
    apply in_map_iff in Hc as [qf [<- Hqf]]. apply (H x p qf Hx Hp Hqf).
Qed.

Definition all_quoter (q : csv_quoter) (fmt : list (csv_quoter * csv_field)) : Prop :=
  forall qf, In qf fmt -> fst qf = q.

Lemma csv_out_rfc_format fmt xs :
  fmt <> [] -> all_quoter QRfc fmt ->
  csv_read_rfc (csv_out use_aux fmt xs) = Some (plain_rows (csv_rows use_aux fmt xs)).
Proof.
  intros Hne Hq. apply csv_rfc_read_lemma. apply csv_rows_forall; [exact Hne|].
  intros x p qf _ _ Hin. unfold rfc_ok. cbn [fst]. rewrite (Hq qf Hin). exact I.
Qed.

Lemma csv_out_default_rfc fmt xs :
  fmt <> [] -> all_quoter QDefault fmt ->
  (forall x p f, In x xs -> In p (x_posts x) ->
                 ~ In 34 (field_value use_aux x p f) /\ ~ In 92 (field_value use_aux x p f)) ->
  csv_read_rfc (csv_out use_aux fmt xs) = Some (plain_rows (csv_rows use_aux fmt xs)).
Proof.
  intros Hne Hq Hf. apply csv_rfc_read_lemma. apply csv_rows_forall; [exact Hne|].
  intros x p qf Hx Hp Hin. unfold rfc_ok. cbn [fst snd]. rewrite (Hq qf Hin). apply Hf; assumption.
Qed.

(* the backslash reader recovers every report written with quoted(), whatever the fields hold *)
Lemma csv_out_default_bs fmt xs :
  fmt <> [] -> all_quoter QDefault fmt ->
  csv_read_bs (csv_out use_aux fmt xs) = Some (plain_rows (csv_rows use_aux fmt xs)).
Proof.
  intros Hne Hq. apply csv_bs_read_lemma. apply csv_rows_forall; [exact Hne|].
  intros x p qf Hx Hp Hin. unfold bs_ok. cbn [fst]. rewrite (Hq qf Hin). exact I.
Qed.

Lemma all_quoter_dec q fmt :
  forallb (fun qf => match fst qf, q with
                     | QDefault, QDefault | QRfc, QRfc | QBare, QBare
                     | QUnrecognised, QUnrecognised => true
                     | _, _ => false
                     end) fmt = true -> all_quoter q fmt.
Proof.
  intros H qf Hin. rewrite forallb_forall in H. specialize (H qf Hin).
  destruct (fst qf); destruct q; try discriminate; reflexivity.
Qed.

Lemma plain_rows_cells fmt x p : map snd (csv_cells use_aux fmt x p) = map (field_value use_aux x p) (map snd fmt).
Proof. unfold csv_cells. rewrite !map_map. reflexivity. Qed.

(* ------------------------------------------------------------------------------------------ *)
(* xml character data                                                                          *)

Lemma xml_entity_cases c :
  (c = 60 /\ xml_entity c = [38; 108; 116; 59]) \/
  (c = 62 /\ xml_entity c = [38; 103; 116; 59]) \/
  (c = 38 /\ xml_entity c = [38; 97; 109; 112; 59]) \/
  (c = 34 /\ xml_entity c = [38; 113; 117; 111; 116; 59]) \/
  (c = 39 /\ xml_entity c = [38; 97; 112; 111; 115; 59]) \/
  (c <> 60 /\ c <> 62 /\ c <> 38 /\ c <> 34 /\ c <> 39 /\ xml_entity c = [c]).
Proof.
  unfold xml_entity.
  destruct (Z.eqb_spec c 60); [left; split; [assumption|reflexivity]|right].
  destruct (Z.eqb_spec c 62); [left; split; [assumption|reflexivity]|right].
  destruct (Z.eqb_spec c 38); [left; split; [assumption|reflexivity]|right].
  destruct (Z.eqb_spec c 34); [left; split; [assumption|reflexivity]|right].
  destruct (Z.eqb_spec c 39); [left; split; [assumption|reflexivity]|right].
  repeat split; assumption.
Qed.

Lemma decode_entity c r :
  xml_decode_st None (xml_entity c ++ r) = option_map (cons c) (xml_decode_st None r).
Proof.
  destruct (xml_entity_cases c) as [[-> ->]|[[-> ->]|[[-> ->]|[[-> ->]|[[-> ->]|H]]]]];
    try reflexivity.
  destruct H as (H60 & _ & H38 & _ & _ & ->).
  cbn [app xml_decode_st].
  destruct (Z.eqb_spec c 60); [contradiction|].
  destruct (Z.eqb_spec c 38); [contradiction|]. reflexivity.
Qed.

Lemma decode_flat s : xml_decode_st None (flat_map xml_entity s) = Some s.
Proof.
  induction s as [|c s IH]; [reflexivity|].
  cbn [flat_map]. rewrite decode_entity, IH. reflexivity.
Qed.

Lemma all_spaces_repeat t : forallb (Z.eqb 32) t = true -> t = repeat 32 (length t).
Proof.
  induction t as [|c t IH]; intros H; [reflexivity|].
  cbn [forallb] in H. apply andb_true_iff in H as [Hc Ht]. apply Z.eqb_eq in Hc. subst c.
  cbn [length repeat]. f_equal. apply IH, Ht.
Qed.

Lemma decode_spaces n : xml_decode_st None (repeat 32 n) = Some (repeat 32 n).
Proof. induction n as [|n IH]; [reflexivity|]. cbn [repeat xml_decode_st]. cbn. rewrite IH. reflexivity. Qed.

Lemma xml_roundtrip_lemma s : xml_decode (xml_encode s) = Some s.
Proof.
  unfold xml_decode, xml_encode. destruct s as [|c t]; [reflexivity|].
  destruct (forallb (Z.eqb 32) (c :: t)) eqn:E.
  - pose proof (all_spaces_repeat _ E) as Hs. cbn [length repeat] in Hs.
    cbn [app xml_decode_st]. cbn. rewrite decode_spaces. cbn [option_map]. f_equal. symmetry. exact Hs.
  - apply decode_flat.
Qed.

(* no raw < ; every & starts a reference *)
Lemma entity_no_lt c : ~ In 60 (xml_entity c).
Proof.
  destruct (xml_entity_cases c) as [[-> ->]|[[-> ->]|[[-> ->]|[[-> ->]|[[-> ->]|H]]]]];
    try (cbn; intuition lia).
  destruct H as (H60 & _ & _ & _ & _ & ->). cbn. intuition.
Qed.

Lemma amp_entity c r : amp_entities (xml_entity c ++ r) = amp_entities r.
Proof.
  destruct (xml_entity_cases c) as [[-> ->]|[[-> ->]|[[-> ->]|[[-> ->]|[[-> ->]|H]]]]];
    try reflexivity.
  destruct H as (_ & _ & H38 & _ & _ & ->).
  cbn [app amp_entities]. destruct (Z.eqb_spec c 38); [contradiction|]. reflexivity.
Qed.

Lemma amp_spaces n : amp_entities (repeat 32 n) = true.
Proof. induction n as [|n IH]; [reflexivity|]. cbn [repeat amp_entities]. cbn. exact IH. Qed.

Lemma xml_no_markup_lemma s : ~ In 60 (xml_encode s) /\ amp_entities (xml_encode s) = true.
Proof.
  unfold xml_encode. destruct s as [|c t]; [split; [intros []|reflexivity]|].
  destruct (forallb (Z.eqb 32) (c :: t)).
  - split.
    + intros Hin. apply in_app_or in Hin as [Hin|Hin].
      * cbn in Hin. intuition lia.
      * apply repeat_spec in Hin. lia.
    + cbn [app amp_entities]. cbn. apply amp_spaces.
  - split.
    + intros Hin. apply in_flat_map in Hin as [x [_ Hx]]. exact (entity_no_lt x Hx).
    + generalize (c :: t). intros l. induction l as [|x l IH]; [reflexivity|].
      cbn [flat_map]. rewrite amp_entity. exact IH.
Qed.

Lemma entity_printable c : printable c -> Forall printable (xml_entity c).
Proof.
  intros Hc.
  destruct (xml_entity_cases c) as [[_ ->]|[[_ ->]|[[_ ->]|[[_ ->]|[[_ ->]|H]]]]];
    try (repeat constructor; unfold printable; lia).
  destruct H as (_ & _ & _ & _ & _ & ->). constructor; [exact Hc|constructor].
Qed.

Lemma xml_printable_lemma s : Forall printable s -> Forall printable (xml_encode s).
Proof.
  intros H. unfold xml_encode. destruct s as [|c t]; [constructor|].
  destruct (forallb (Z.eqb 32) (c :: t)).
  - apply Forall_app. split.
    + repeat constructor; unfold printable; lia.
    + apply Forall_forall. intros x Hx. apply repeat_spec in Hx. subst x. unfold printable. lia.
  - revert H. generalize (c :: t). intros l H. induction H as [|x l Hx Hl IH]; [constructor|].
    cbn [flat_map]. apply Forall_app. split; [apply entity_printable, Hx|exact IH].
Qed.

(* the text of an element that holds only data, and of an attribute, as write_el prints them *)
Lemma write_leaf key data ind :
  data <> [] ->
  write_el key (leaf data) ind
  = indent_str ind ++ [60] ++ key ++ [62] ++ xml_encode data ++ [60; 47] ++ key ++ [62; 10].
Proof.
  intros H. destruct data as [|c d]; [contradiction|]. reflexivity.
Qed.

Lemma write_empty_leaf key ind :
  write_el key (leaf []) ind = indent_str ind ++ [60] ++ key ++ [47; 62; 10].
Proof. reflexivity. Qed.

(* ------------------------------------------------------------------------------------------ *)
(* the emacs output as a tree                                                                  *)

Definition state_sexp (st : Z) : sexp :=
  SAtom (if st =? 1 then a_t else if st =? 2 then a_pending else a_nil).

Definition opt_sexp (o : option str) : list sexp :=
  match o with Some s => [SStr s] | None => [] end.

Definition post_sexp (x : xact) (p : post) : sexp :=
  SList ([SAtom (dec_Z (p_line p)); SStr (p_account p); SStr (a_text (p_amount p));
          state_sexp (eff_state x p)] ++
         opt_sexp (option_map a_text (p_cost p)) ++ opt_sexp (p_note p)).

Definition xact_sexp (path : str) (x : xact) : sexp :=
  SList ([SStr path; SAtom (dec_Z (x_line x));
          SList [SAtom (dec_Z (Z.quot (xact_secs x) 65536)); SAtom (dec_Z (Z.rem (xact_secs x) 65536));
                 SAtom [48]];
          match x_code x with Some c => SStr c | None => SAtom a_nil end;
          match x_payee x with [] => SAtom a_nil | _ => SStr (x_payee x) end] ++
         map (post_sexp x) (x_posts x)).

Definition emacs_sexp (path : str) (xs : list xact) : list sexp :=
  match xs with [] => [] | _ => [SList (map (xact_sexp path) xs)] end.

Lemma parse_post x p stk done rest :
  sexp_parse stk done (post_tokens x p ++ rest) = sexp_parse stk (post_sexp x p :: done) rest.
Proof.
  unfold post_tokens, post_sexp, state_tok, state_sexp.
  destruct (p_cost p); destruct (p_note p);
    cbn [option_map opt_tok opt_sexp app sexp_parse rev]; reflexivity.
Qed.

Lemma parse_posts x ps : forall stk done rest,
  sexp_parse stk done (flat_map (post_tokens x) ps ++ rest)
  = sexp_parse stk (rev (map (post_sexp x) ps) ++ done) rest.
Proof.
  induction ps as [|p ps IH]; intros stk done rest; [reflexivity|].
  cbn [flat_map map rev]. rewrite <- !app_assoc. rewrite parse_post, IH. reflexivity.
Qed.

Lemma parse_xact path x stk done rest :
  sexp_parse stk done ((LOpen :: xact_tokens path x ++ [LClose]) ++ rest)
  = sexp_parse stk (xact_sexp path x :: done) rest.
Proof.
  unfold xact_tokens, xact_sexp.
  destruct (x_code x); destruct (x_payee x);
    cbn [app sexp_parse rev]; rewrite <- !app_assoc; rewrite parse_posts;
    cbn [app sexp_parse]; rewrite rev_app_distr, rev_involutive; reflexivity.
Qed.

Lemma parse_xacts path xs : forall stk done rest,
  sexp_parse stk done (flat_map (fun x => LOpen :: xact_tokens path x ++ [LClose]) xs ++ rest)
  = sexp_parse stk (rev (map (xact_sexp path) xs) ++ done) rest.
Proof.
  induction xs as [|x xs IH]; intros stk done rest; [reflexivity|].
  cbn [flat_map map rev]. rewrite <- !app_assoc. rewrite parse_xact, IH. reflexivity.
Qed.

Lemma emacs_read_lemma path xs : lisp_read (emacs_out use_aux path xs) = Some (emacs_sexp path xs).
Proof.
  unfold lisp_read. rewrite emacs_lex_lemma.
  destruct xs as [|x xs]; [reflexivity|].
  unfold emacs_tokens, emacs_sexp. cbn [sexp_parse].
  rewrite parse_xacts. cbn [sexp_parse]. rewrite app_nil_r, rev_involutive. reflexivity.
Qed.

(* ------------------------------------------------------------------------------------------ *)
(* payee overrides: what each output lets a reader recover, against post_t::payee()            *)

(* xml: the posting's <payee> child when present, else the transaction's *)
Definition xml_payee (x : xact) (p : post) : str :=
  if is_nil (payee_from_tag x p) then x_payee x else payee_from_tag x p.

(* --- keys equal up to case --- *)
Lemma ci_eq_iff a : forall b, ci_compare a b = Eq <-> map lower a = map lower b.
Proof.
  induction a as [|x a IH]; intros [|y b]; cbn [ci_compare map]; split; intros H;
    try reflexivity; try discriminate.
  - destruct (Z.compare_spec (lower x) (lower y)) as [E|E|E]; try discriminate.
    rewrite E. f_equal. apply IH, H.
  - injection H as H1 H2. rewrite H1, Z.compare_refl. apply IH, H2.
Qed.

Lemma ci_eq_trans a b c : ci_compare a b = Eq -> ci_compare b c = Eq -> ci_compare a c = Eq.
Proof. rewrite !ci_eq_iff. congruence. Qed.

Lemma ci_eq_sym a b : ci_compare a b = Eq -> ci_compare b a = Eq.
Proof. rewrite !ci_eq_iff. congruence. Qed.

Lemma find_insert_same key k v m :
  ci_compare key k = Eq -> meta_find key (meta_insert true k v m) = Some v.
Proof.
  intros Hk. induction m as [|[k0 w] m IH]; cbn [meta_insert meta_find].
  - rewrite Hk. reflexivity.
  - destruct (ci_compare k k0) eqn:E; cbn [meta_find].
    + rewrite (ci_eq_trans _ _ _ Hk E). reflexivity.
    + rewrite Hk. reflexivity.
    + destruct (ci_compare key k0) eqn:E0; try exact IH.
      rewrite (ci_eq_trans _ _ _ (ci_eq_sym _ _ Hk) E0) in E. discriminate.
Qed.

Lemma find_insert_other key ow k v m :
  ci_compare key k <> Eq -> meta_find key (meta_insert ow k v m) = meta_find key m.
Proof.
  intros Hk. induction m as [|[k0 w] m IH]; cbn [meta_insert meta_find].
  - destruct (ci_compare key k); [contradiction|reflexivity|reflexivity].
  - destruct (ci_compare k k0) eqn:E.
    + assert (Hn : ci_compare key k0 <> Eq).
      { intros H0. apply Hk. apply (ci_eq_trans _ _ _ H0 (ci_eq_sym _ _ E)). }
      destruct ow; cbn [meta_find]; destruct (ci_compare key k0); try contradiction; reflexivity.
    + cbn [meta_find]. destruct (ci_compare key k); [contradiction|reflexivity|reflexivity].
    + cbn [meta_find]. destruct (ci_compare key k0); try reflexivity; exact IH.
Qed.

(* every Payee tag on the note lines after the posting carries a non-empty value and is set with
   overwrite_existing (as parse_xact does for trailing notes): no bare :Payee: tag, no `Payee:`
   without a value *)
Definition later_payee_valued (p : post) : Prop :=
  forall e, In e (p_meta_later p) -> ci_compare k_Payee (snd (fst e)) = Eq ->
            fst (fst e) = true /\ exists c v, snd e = Some (c :: v).

Definition meta_step (m : metamap) (e : mentry) : metamap :=
  meta_insert (fst (fst e)) (snd (fst e)) (norm_value (snd e)) m.

Lemma payee_steps_follow xm later : forall pm cur,
  (forall e, In e later -> ci_compare k_Payee (snd (fst e)) = Eq ->
             fst (fst e) = true /\ exists c v, snd e = Some (c :: v)) ->
  cur = payee_tag pm xm ->
  payee_steps xm pm cur later = payee_tag (fold_left meta_step later pm) xm.
Proof.
  induction later as [|e later IH]; intros pm cur Hv Hcur; [exact Hcur|].
  cbn [payee_steps fold_left]. fold (meta_step pm e).
  apply IH; [intros e' Hin; apply Hv; right; exact Hin|].
  pose proof (Hv e (or_introl eq_refl)) as He.
  destruct e as [[ow k] val]. unfold meta_step. cbn [fst snd] in *.
  destruct (ci_compare k_Payee k) eqn:E.
  - destruct (He eq_refl) as [How [c [v Hval]]]. subst ow val.
    assert (Hafter : payee_tag (meta_insert true k (norm_value (Some (c :: v))) pm) xm = c :: v).
    { unfold payee_tag. cbn [norm_value]. rewrite (find_insert_same _ _ _ _ E). reflexivity. }
    rewrite Hafter. cbn [is_nil negb andb].
    destruct (str_eqb (c :: v) (payee_tag pm xm)) eqn:Eq1; cbn [negb]; [|reflexivity].
    apply str_eqb_spec in Eq1. rewrite Hcur, <- Eq1. reflexivity.
  - assert (Hsame : payee_tag (meta_insert ow k (norm_value val) pm) xm = payee_tag pm xm).
    { unfold payee_tag. rewrite find_insert_other by (rewrite E; discriminate). reflexivity. }
    rewrite Hsame, str_eqb_refl. cbn [negb]. rewrite andb_false_r. exact Hcur.
  - assert (Hsame : payee_tag (meta_insert ow k (norm_value val) pm) xm = payee_tag pm xm).
    { unfold payee_tag. rewrite find_insert_other by (rewrite E; discriminate). reflexivity. }
    rewrite Hsame, str_eqb_refl. cbn [negb]. rewrite andb_false_r. exact Hcur.
Qed.

Lemma payee_stored_follows x p :
  later_payee_valued p -> payee_stored PayeeFollowsLaterTags x p = payee_from_tag x p.
Proof.
  intros H. unfold payee_stored, payee_from_tag, payee_at_parse.
  rewrite (payee_steps_follow _ _ _ _ H eq_refl).
  unfold build_meta at 3. rewrite fold_left_app. reflexivity.
Qed.

(* rule PayeeFollowsLaterTags: xml and register agree *)
Lemma xml_payee_follows x p :
  later_payee_valued p -> xml_payee x p = post_payee_rule PayeeFollowsLaterTags x p.
Proof.
  intros H. unfold xml_payee, post_payee_rule. rewrite (payee_stored_follows x p H).
  destruct (is_nil (payee_from_tag x p)); reflexivity.
Qed.

(* rule PayeeFixedAtPostingLine: they agree when the posting has no tags on later lines, or no
   payee was fixed when its line was read ... *)
Lemma xml_payee_fixed_partial x p :
  p_meta_later p = [] \/ payee_at_parse x p = [] ->
  xml_payee x p = post_payee_rule PayeeFixedAtPostingLine x p.
Proof.
  unfold xml_payee, post_payee_rule, payee_stored. intros [H|H].
  - unfold payee_from_tag, payee_at_parse. rewrite H, app_nil_r.
    destruct (is_nil (payee_tag (build_meta (p_meta_inline p)) (build_meta (x_meta x)))); reflexivity.
  - rewrite H. reflexivity.
Qed.

(* ... and not otherwise.  Witness: header payee H, transaction tag Payee: X, one posting whose
   NEXT line says Payee: Y *)
Definition pw_entry (v : str) : mentry := (true, k_Payee, Some v).
Definition pw_post : post :=
  mkPost 3 0 0 [65] (mkAmt [36; 49] [80] (Some [36]) [49]) None None None None [] [pw_entry [89]].
Definition pw_xact : xact := mkXact 1 2020 1 2 None 0 None [72] None [pw_entry [88]] [pw_post].

Lemma xml_payee_fixed_refuted :
  exists x p, In p (x_posts x) /\ xml_payee x p <> post_payee_rule PayeeFixedAtPostingLine x p.
Proof. exists pw_xact, pw_post. split; [left; reflexivity|]. vm_compute. discriminate. Qed.

(* the statement the current source supports *)
Definition xml_payee_statement (r : payee_rule) : Prop :=
  match r with
  | PayeeFollowsLaterTags =>
      forall x p, later_payee_valued p -> xml_payee x p = post_payee_rule PayeeFollowsLaterTags x p
  | PayeeFixedAtPostingLine =>
      (forall x p, p_meta_later p = [] \/ payee_at_parse x p = [] ->
                   xml_payee x p = post_payee_rule PayeeFixedAtPostingLine x p) /\
      (exists x p, In p (x_posts x) /\ xml_payee x p <> post_payee_rule PayeeFixedAtPostingLine x p)
  | PayeeRuleUnrecognised => False
  end.

Lemma xml_payee_statement_holds r : r <> PayeeRuleUnrecognised -> xml_payee_statement r.
Proof.
  destruct r; intros H; cbn [xml_payee_statement].
  - split; [exact xml_payee_fixed_partial|exact xml_payee_fixed_refuted].
  - exact xml_payee_follows.
  - contradiction.
Qed.

Lemma header_payee_without_tags r x p :
  x_meta x = [] -> p_meta_inline p = [] -> p_meta_later p = [] -> r <> PayeeRuleUnrecognised ->
  post_payee_rule r x p = x_payee x.
Proof.
  intros H1 H2 H3 Hr. unfold post_payee_rule, payee_stored, payee_from_tag, payee_at_parse.
  rewrite H1, H2, H3. destruct r; [reflexivity|reflexivity|contradiction].
Qed.

End WithAuxFlag.

(* ------------------------------------------------------------------------------------------ *)
(* dates: what each output lets a reader recover, against post_t::date()                       *)

(* xml: the posting's <date> if present, else the transaction's; likewise <aux-date>, falling
   back on the date when neither has one *)
Definition xml_date (x : xact) (p : post) : ymd :=
  match p_date p with Some d => d | None => x_primary x end.
Definition xml_aux_date (x : xact) (p : post) : ymd :=
  match p_aux p with
  | Some d => d
  | None => match x_aux x with Some d => d | None => xml_date x p end
  end.

Lemma xml_date_is_register x p : xml_date x p = post_date false x p.
Proof. reflexivity. Qed.

Lemma xml_aux_date_is_register x p : xml_aux_date x p = post_date true x p.
Proof.
  unfold xml_aux_date, xml_date, post_date, post_aux, post_primary, xact_date.
  destruct (p_aux p); [reflexivity|]. destruct (x_aux x); reflexivity.
Qed.

(* which element carries which date *)
Fixpoint assoc_child (key : str) (kids : list (str * ptree)) : option ptree :=
  match kids with
  | [] => None
  | kc :: r => if str_eqb key (fst kc) then Some (snd kc) else assoc_child key r
  end.
Definition ptree_child (key : str) (pt : ptree) : option ptree :=
  match pt with Node _ _ kids => assoc_child key kids end.
Definition date_leaf (d : ymd) : ptree := leaf (fmt_ymd d).

Lemma xact_date_element x : ptree_child k_date (put_xact x) = Some (date_leaf (x_primary x)).
Proof. reflexivity. Qed.

Lemma xact_aux_element x : ptree_child k_aux_date (put_xact x) = option_map date_leaf (x_aux x).
Proof.
  unfold put_xact, metadata_kids. cbn [ptree_child].
  destruct (x_aux x); destruct (x_code x); destruct (x_note x); destruct (build_meta (x_meta x));
    reflexivity.
Qed.

Lemma post_date_element x p : ptree_child k_date (put_post x p) = option_map date_leaf (p_date p).
Proof.
  unfold put_post, metadata_kids. cbn [ptree_child].
  destruct (p_date p); destruct (p_aux p); destruct (is_nil (payee_from_tag x p));
    destruct (p_cost p); destruct (p_note p);
    destruct (build_meta (p_meta_inline p ++ p_meta_later p)); reflexivity.
Qed.

Lemma post_aux_element x p : ptree_child k_aux_date (put_post x p) = option_map date_leaf (p_aux p).
Proof.
  unfold put_post, metadata_kids. cbn [ptree_child].
  destruct (p_date p); destruct (p_aux p); destruct (is_nil (payee_from_tag x p));
    destruct (p_cost p); destruct (p_note p);
    destruct (build_meta (p_meta_inline p ++ p_meta_later p)); reflexivity.
Qed.

(* emacs: one date per transaction *)
Lemma emacs_date_without_posting_dates aux x p :
  p_date p = None -> p_aux p = None -> post_date aux x p = xact_date aux x.
Proof.
  intros H1 H2. unfold post_date, post_aux, post_primary, xact_date. rewrite H1, H2.
  destruct aux; [|reflexivity]. destruct (x_aux x); reflexivity.
Qed.

Definition dw_post : post :=
  mkPost 2 0 0 [65] (mkAmt [36; 49] [80] (Some [36]) [49]) None None (Some (2021, 2, 11)) None [] [].
Definition dw_xact : xact := mkXact 1 2021 2 10 (Some (2021, 3, 1)) 0 None [72] None [] [dw_post].

Lemma emacs_date_differs :
  exists x p, In p (x_posts x) /\ post_date false x p <> xact_date false x.
Proof. exists dw_xact, dw_post. split; [left; reflexivity|]. vm_compute. discriminate. Qed.
