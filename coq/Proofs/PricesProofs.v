(* Proofs about Model/Prices.v. *)
From LedgerV Require Import Base.Prelude Gen.PriceMemo Gen.CostDate Gen.PercentExpr Gen.FindPriceDispatch Model.Prices.
From Coq Require Import Permutation.
Local Open Scope Z_scope.

(* ------------------------------------------------------------------ commodities *)
Lemma comm_eqb_spec a b : comm_eqb a b = true <-> a = b.
Proof. apply str_eqb_spec. Qed.

Lemma comm_eqb_refl a : comm_eqb a a = true.
Proof. apply str_eqb_refl. Qed.

Lemma comm_eqb_false a b : comm_eqb a b = false <-> a <> b.
Proof.
  split.
  - intros H E. apply comm_eqb_spec in E. congruence.
  - intros H. destruct (comm_eqb a b) eqn:E; [|reflexivity].
    apply comm_eqb_spec in E. contradiction.
Qed.

Ltac ceq a b :=
  let E := fresh "E" in
  destruct (comm_eqb a b) eqn:E;
  [apply comm_eqb_spec in E | apply comm_eqb_false in E].

Lemma mem_spec c l : mem c l = true <-> In c l.
Proof.
  induction l as [|x l IH]; cbn [mem In].
  - split; [discriminate | tauto].
  - rewrite orb_true_iff, IH, comm_eqb_spec. split; intros [H|H]; auto.
Qed.

Lemma mem_false c l : mem c l = false <-> ~ In c l.
Proof.
  rewrite <- mem_spec. destruct (mem c l); split; congruence.
Qed.

(* ------------------------------------------------------------------ price maps *)
Definition lb (w : Z) (m : pmap) : Prop := forall w' p', In (w', p') m -> w < w'.

Fixpoint sorted (m : pmap) : Prop :=
  match m with
  | [] => True
  | (w, _) :: m' => lb w m' /\ sorted m'
  end.

Lemma pm_insert_in w p m w' p' :
  In (w', p') (pm_insert w p m) -> (w', p') = (w, p) \/ In (w', p') m.
Proof.
  induction m as [|[w0 p0] m IH]; cbn [pm_insert].
  - intros [H|[]]. left. congruence.
  - destruct (w <? w0) eqn:E1.
    + intros [H|H]; [left; congruence | right; exact H].
    + destruct (w =? w0) eqn:E2.
      * intros [H|H]; [left; congruence | right; right; exact H].
      * intros [H|H]; [right; left; exact H |].
        destruct (IH H) as [H'|H']; [left; exact H' | right; right; exact H'].
Qed.

Lemma sorted_insert w p m : sorted m -> sorted (pm_insert w p m).
Proof.
  induction m as [|[w0 p0] m IH]; cbn [pm_insert sorted].
  - intros _. split; [intros ? ? []| exact I].
  - intros [Hlb Hs].
    destruct (w <? w0) eqn:E1.
    + apply Z.ltb_lt in E1. cbn [sorted]. split; [|split; assumption].
      intros w' p' [H|H]; [injection H as <- <-; exact E1 |].
      specialize (Hlb _ _ H). lia.
    + apply Z.ltb_ge in E1. destruct (w =? w0) eqn:E2.
      * apply Z.eqb_eq in E2. subst w0. cbn [sorted]. split; assumption.
      * apply Z.eqb_neq in E2. cbn [sorted]. split; [|apply IH; exact Hs].
        intros w' p' H. destruct (pm_insert_in _ _ _ _ _ H) as [H'|H'].
        -- injection H' as -> ->. lia.
        -- apply (Hlb _ _ H').
Qed.

Lemma pm_recent_in m D w p :
  pm_recent m D = Some (w, p) -> In (w, p) m /\ w <= D.
Proof.
  induction m as [|[w0 p0] m IH]; cbn [pm_recent]; [discriminate|].
  destruct (D <? w0) eqn:E; [discriminate|]. apply Z.ltb_ge in E.
  destruct (pm_recent m D) as [r|] eqn:R.
  - intros H. injection H as ->. destruct (IH eq_refl) as [H1 H2]. split; [right|]; assumption.
  - intros H. injection H as <- <-. split; [left; reflexivity | exact E].
Qed.

(* what the newest-not-after-D lookup does when one more observation arrives *)
Definition step_latest (D : Z) (best : option (Z * price)) (wp : Z * price) : option (Z * price) :=
  if fst wp <=? D then
    match best with
    | Some (w0, p0) => if w0 <=? fst wp then Some wp else best
    | None => Some wp
    end
  else best.

Lemma recent_insert w p m D :
  sorted m -> pm_recent (pm_insert w p m) D = step_latest D (pm_recent m D) (w, p).
Proof.
  unfold step_latest. cbn [fst].
  induction m as [|[w0 p0] m IH]; cbn [pm_insert sorted].
  - intros _. cbn [pm_recent].
    destruct (D <? w) eqn:E1, (w <=? D) eqn:E2; try reflexivity;
      (apply Z.ltb_lt in E1 || apply Z.ltb_ge in E1);
      (apply Z.leb_le in E2 || apply Z.leb_gt in E2); lia.
  - intros [Hlb Hs]. specialize (IH Hs).
    destruct (w <? w0) eqn:E1.
    + apply Z.ltb_lt in E1.
      change (pm_recent ((w, p) :: (w0, p0) :: m) D)
        with (if D <? w then None else
                match pm_recent ((w0, p0) :: m) D with Some r => Some r | None => Some (w, p) end).
      destruct (D <? w) eqn:E3.
      * apply Z.ltb_lt in E3. destruct (w <=? D) eqn:E4; [apply Z.leb_le in E4; lia|].
        cbn [pm_recent]. destruct (D <? w0) eqn:E5; [reflexivity | apply Z.ltb_ge in E5; lia].
      * apply Z.ltb_ge in E3. destruct (w <=? D) eqn:E4; [|apply Z.leb_gt in E4; lia].
        destruct (pm_recent ((w0, p0) :: m) D) as [[w1 p1]|] eqn:R; [|reflexivity].
        destruct (pm_recent_in _ _ _ _ R) as [Hin _].
        assert (w < w1).
        { destruct Hin as [H|H]; [injection H as <- <-; exact E1 | specialize (Hlb _ _ H); lia]. }
        destruct (w1 <=? w) eqn:E6; [apply Z.leb_le in E6; lia | reflexivity].
    + apply Z.ltb_ge in E1. destruct (w =? w0) eqn:E2.
      * apply Z.eqb_eq in E2. subst w0. cbn [pm_recent].
        destruct (D <? w) eqn:E3.
        -- apply Z.ltb_lt in E3. destruct (w <=? D) eqn:E4; [apply Z.leb_le in E4; lia | reflexivity].
        -- apply Z.ltb_ge in E3. destruct (w <=? D) eqn:E4; [|apply Z.leb_gt in E4; lia].
           destruct (pm_recent m D) as [[w1 p1]|] eqn:R.
           ++ destruct (pm_recent_in _ _ _ _ R) as [Hin _]. specialize (Hlb _ _ Hin).
              destruct (w1 <=? w) eqn:E6; [apply Z.leb_le in E6; lia | reflexivity].
           ++ rewrite Z.leb_refl. reflexivity.
      * apply Z.eqb_neq in E2.
        change (pm_recent ((w0, p0) :: pm_insert w p m) D)
          with (if D <? w0 then None else
                  match pm_recent (pm_insert w p m) D with Some r => Some r | None => Some (w0, p0) end).
        rewrite IH. cbn [pm_recent].
        destruct (D <? w0) eqn:E3.
        -- apply Z.ltb_lt in E3. destruct (w <=? D) eqn:E4; [apply Z.leb_le in E4; lia | reflexivity].
        -- apply Z.ltb_ge in E3. destruct (w <=? D) eqn:E4.
           ++ destruct (pm_recent m D) as [[w1 p1]|] eqn:R.
              ** destruct (w1 <=? w); reflexivity.
              ** destruct (w0 <=? w) eqn:E6; [reflexivity | apply Z.leb_gt in E6; lia].
           ++ reflexivity.
Qed.

Definition ins (m : pmap) (wp : Z * price) : pmap := pm_insert (fst wp) (snd wp) m.
Definition pm_of (l : list (Z * price)) : pmap := fold_left ins l [].
Definition latest (l : list (Z * price)) (D : Z) : option (Z * price) :=
  fold_left (step_latest D) l None.

Lemma fold_ins_sorted l m : sorted m -> sorted (fold_left ins l m).
Proof.
  revert m. induction l as [|x l IH]; intros m H; cbn [fold_left]; [exact H|].
  apply IH. apply sorted_insert. exact H.
Qed.

Lemma recent_fold_ins l m D :
  sorted m -> pm_recent (fold_left ins l m) D = fold_left (step_latest D) l (pm_recent m D).
Proof.
  revert m. induction l as [|[w p] l IH]; intros m H; cbn [fold_left]; [reflexivity|].
  rewrite IH by (apply sorted_insert; exact H).
  unfold ins. cbn [fst snd]. rewrite recent_insert by exact H. reflexivity.
Qed.

Lemma recent_pm_of l D : pm_recent (pm_of l) D = latest l D.
Proof. unfold pm_of, latest. rewrite recent_fold_ins by exact I. reflexivity. Qed.

Lemma latest_snoc l x D : latest (l ++ [x]) D = step_latest D (latest l D) x.
Proof. unfold latest. rewrite fold_left_app. reflexivity. Qed.

Lemma latest_in l D w p : latest l D = Some (w, p) -> In (w, p) l /\ w <= D.
Proof.
  revert w p. induction l as [|x l IH] using rev_ind; intros w p.
  - discriminate.
  - rewrite latest_snoc. unfold step_latest. destruct x as [wx px]. cbn [fst].
    destruct (wx <=? D) eqn:E.
    + apply Z.leb_le in E. destruct (latest l D) as [[w0 p0]|] eqn:R.
      * destruct (w0 <=? wx).
        -- intros H. injection H as <- <-. split; [apply in_or_app; right; left; reflexivity | exact E].
        -- intros H. injection H as <- <-. destruct (IH _ _ eq_refl) as [H1 H2].
           split; [apply in_or_app; left; exact H1 | exact H2].
      * intros H. injection H as <- <-. split; [apply in_or_app; right; left; reflexivity | exact E].
    + intros H. destruct (IH _ _ H) as [H1 H2]. split; [apply in_or_app; left; exact H1 | exact H2].
Qed.

(* the specification: the entry is in the list, not after D, nothing not after D is newer,
   and among the entries of the same moment it is the last one inserted *)
Definition is_latest (l : list (Z * price)) (D : Z) (w : Z) (p : price) : Prop :=
  exists l1 l2, l = l1 ++ (w, p) :: l2 /\ w <= D /\
    (forall w' p', In (w', p') l1 -> w' <= D -> w' <= w) /\
    (forall w' p', In (w', p') l2 -> w' <= D -> w' < w).

Lemma latest_none l D : latest l D = None <-> (forall w p, In (w, p) l -> D < w).
Proof.
  induction l as [|[wx px] l IH] using rev_ind.
  - split; [intros _ ? ? [] | reflexivity].
  - rewrite latest_snoc. unfold step_latest. cbn [fst]. split.
    + destruct (wx <=? D) eqn:E.
      * destruct (latest l D) as [[w0 p0]|]; [destruct (w0 <=? wx)|]; discriminate.
      * apply Z.leb_gt in E. intros H w p Hin. apply in_app_or in Hin as [Hin|[Hin|[]]].
        -- apply (proj1 IH H _ _ Hin).
        -- injection Hin as <- <-. exact E.
    + intros H. assert (E : wx <=? D = false).
      { apply Z.leb_gt. apply (H wx px). apply in_or_app. right. left. reflexivity. }
      rewrite E. apply IH. intros w p Hin. apply (H w p). apply in_or_app. left. exact Hin.
Qed.

Lemma latest_sound l D w p : latest l D = Some (w, p) -> is_latest l D w p.
Proof.
  revert w p. induction l as [|[wx px] l IH] using rev_ind; intros w p; [discriminate|].
  rewrite latest_snoc. unfold step_latest. cbn [fst].
  destruct (wx <=? D) eqn:E.
  - apply Z.leb_le in E. destruct (latest l D) as [[w0 p0]|] eqn:R.
    + destruct (w0 <=? wx) eqn:E2.
      * apply Z.leb_le in E2. intros H. injection H as <- <-.
        destruct (IH _ _ eq_refl) as (l1 & l2 & -> & H0 & H1 & H2).
        exists (l1 ++ (w0, p0) :: l2), []. repeat split; [exact E | | intros ? ? []].
        intros w' p' Hin Hle. apply in_app_or in Hin as [Hin|[Hin|Hin]].
        -- specialize (H1 _ _ Hin Hle). lia.
        -- injection Hin as <- <-. exact E2.
        -- specialize (H2 _ _ Hin Hle). lia.
      * apply Z.leb_gt in E2. intros H. injection H as <- <-.
        destruct (IH _ _ eq_refl) as (l1 & l2 & -> & H0 & H1 & H2).
        exists l1, (l2 ++ [(wx, px)]). rewrite <- app_assoc. repeat split; [exact H0 | exact H1 |].
        intros w' p' Hin Hle. apply in_app_or in Hin as [Hin|[Hin|[]]].
        -- apply (H2 _ _ Hin Hle).
        -- injection Hin as <- <-. exact E2.
    + intros H. injection H as <- <-. exists l, []. repeat split; [exact E | | intros ? ? []].
      intros w' p' Hin Hle. pose proof (proj1 (latest_none l D) R _ _ Hin). lia.
  - apply Z.leb_gt in E. intros H.
    destruct (IH _ _ H) as (l1 & l2 & -> & H0 & H1 & H2).
    exists l1, (l2 ++ [(wx, px)]). rewrite <- app_assoc. repeat split; [exact H0 | exact H1 |].
    intros w' p' Hin Hle. apply in_app_or in Hin as [Hin|[Hin|[]]].
    + apply (H2 _ _ Hin Hle).
    + injection Hin as <- <-. lia.
Qed.

Lemma latest_complete l D w p : is_latest l D w p -> latest l D = Some (w, p).
Proof.
  revert w p. induction l as [|[wx px] l IH] using rev_ind; intros w p (l1 & l2 & Hl & H0 & H1 & H2).
  - destruct l1; discriminate.
  - rewrite latest_snoc. unfold step_latest. cbn [fst].
    destruct l2 as [|y l2'] using rev_ind.
    + apply app_inj_tail in Hl as [-> Hx]. injection Hx as -> ->.
      assert (E : w <=? D = true) by (apply Z.leb_le; exact H0). rewrite E.
      destruct (latest l1 D) as [[w0 p0]|] eqn:R; [|reflexivity].
      destruct (latest_in _ _ _ _ R) as [Hin Hle]. specialize (H1 _ _ Hin Hle).
      assert (E2 : w0 <=? w = true) by (apply Z.leb_le; exact H1). rewrite E2. reflexivity.
    + clear IHl2'. rewrite app_comm_cons, app_assoc in Hl. apply app_inj_tail in Hl as [-> <-].
      assert (R : latest (l1 ++ (w, p) :: l2') D = Some (w, p)).
      { apply IH. exists l1, l2'. repeat split; [exact H0 | exact H1 |].
        intros w' p' Hin. apply (H2 w' p'). apply in_or_app. left. exact Hin. }
      rewrite R. destruct (wx <=? D) eqn:E; [|reflexivity]. apply Z.leb_le in E.
      assert (wx < w) by (apply (H2 wx px); [apply in_or_app; right; left; reflexivity | exact E]).
      destruct (w <=? wx) eqn:E2; [apply Z.leb_le in E2; lia | reflexivity].
Qed.

Lemma latest_spec l D w p : latest l D = Some (w, p) <-> is_latest l D w p.
Proof. split; [apply latest_sound | apply latest_complete]. Qed.

(* observations later than D are invisible *)
Definition not_after (D : Z) (wp : Z * price) : bool := fst wp <=? D.

Lemma latest_filter l D : latest (filter (not_after D) l) D = latest l D.
Proof.
  unfold latest. generalize (@None (Z * price)) as acc.
  induction l as [|x l IH]; intros acc; cbn [filter fold_left]; [reflexivity|].
  unfold not_after at 1. destruct (fst x <=? D) eqn:E.
  - cbn [fold_left]. apply IH.
  - rewrite IH. assert (step_latest D acc x = acc) as -> by (unfold step_latest; rewrite E; reflexivity).
    reflexivity.
Qed.

(* ------------------------------------------------------------------ the price graph *)
Lemma pair_eqb_spec s t a b :
  pair_eqb s t a b = true <-> (s = a /\ t = b) \/ (s = b /\ t = a).
Proof.
  unfold pair_eqb. rewrite orb_true_iff, !andb_true_iff, !comm_eqb_spec. tauto.
Qed.

Lemma pair_eqb_false s t a b :
  pair_eqb s t a b = false <-> ~ ((s = a /\ t = b) \/ (s = b /\ t = a)).
Proof.
  rewrite <- pair_eqb_spec. destruct (pair_eqb s t a b); split; congruence.
Qed.

Lemma pair_eqb_same s t a b x y :
  pair_eqb s t a b = true -> pair_eqb x y a b = pair_eqb x y s t.
Proof.
  intros H. apply pair_eqb_spec in H.
  destruct (pair_eqb x y a b) eqn:E1, (pair_eqb x y s t) eqn:E2; try reflexivity.
  - apply pair_eqb_spec in E1. apply pair_eqb_false in E2. exfalso. apply E2.
    destruct H as [[-> ->]|[-> ->]], E1 as [[-> ->]|[-> ->]]; auto.
  - apply pair_eqb_spec in E2. apply pair_eqb_false in E1. exfalso. apply E1.
    destruct H as [[-> ->]|[-> ->]], E2 as [[-> ->]|[-> ->]]; auto.
Qed.

Lemma pair_eqb_swap s t a b : pair_eqb s t a b = pair_eqb a b s t.
Proof.
  destruct (pair_eqb s t a b) eqn:E1, (pair_eqb a b s t) eqn:E2; try reflexivity.
  - apply pair_eqb_spec in E1. apply pair_eqb_false in E2. exfalso. apply E2.
    destruct E1 as [[-> ->]|[-> ->]]; auto.
  - apply pair_eqb_spec in E2. apply pair_eqb_false in E1. exfalso. apply E1.
    destruct E2 as [[-> ->]|[-> ->]]; auto.
Qed.

Lemma pair_eqb_flip s t a b : pair_eqb s t a b = pair_eqb s t b a.
Proof. unfold pair_eqb. apply orb_comm. Qed.

Lemma joins_same e s t a b : pair_eqb s t a b = true -> joins e a b = joins e s t.
Proof. unfold joins. apply pair_eqb_same. Qed.

Lemma find_edge_some g a b e : find_edge g a b = Some e -> In e g /\ joins e a b = true.
Proof.
  induction g as [|x g IH]; cbn [find_edge]; [discriminate|].
  destruct (joins x a b) eqn:E.
  - intros H. injection H as <-. split; [left; reflexivity | exact E].
  - intros H. destruct (IH H). split; [right|]; assumption.
Qed.

Lemma edge_map_add g s w p a b :
  edge_map (add_price g s w p) a b =
  if pair_eqb s (pc p) a b then pm_insert w p (edge_map g a b) else edge_map g a b.
Proof.
  unfold edge_map. induction g as [|e g IH]; cbn [add_price find_edge].
  - unfold joins at 1. cbn [ea eb em]. destruct (pair_eqb s (pc p) a b); reflexivity.
  - destruct (joins e s (pc p)) eqn:J.
    + cbn [find_edge]. unfold joins at 1. cbn [ea eb]. fold (joins e a b).
      destruct (pair_eqb s (pc p) a b) eqn:P.
      * rewrite (joins_same e _ _ _ _ P), J. reflexivity.
      * destruct (joins e a b) eqn:J2; [|reflexivity]. exfalso.
        unfold joins in J, J2.
        rewrite (pair_eqb_same _ _ _ _ s (pc p) J2), pair_eqb_swap, J in P. discriminate.
    + cbn [find_edge]. destruct (joins e a b) eqn:J2.
      * destruct (pair_eqb s (pc p) a b) eqn:P; [|reflexivity].
        rewrite (joins_same e _ _ _ _ P) in J2. congruence.
      * exact IH.
Qed.

(* the recorded prices that quote a in b or b in a, in insertion order *)
Definition on_pair (a b : comm) (e : entry) : bool :=
  negb (comm_eqb (e_src e) (pc (e_pr e))) && pair_eqb (e_src e) (pc (e_pr e)) a b.

Definition obs (e : entry) : Z * price := (e_when e, e_pr e).

Definition pair_entries (h : history) (a b : comm) : list (Z * price) :=
  map obs (filter (on_pair a b) h).

Lemma edge_map_add_entry g e a b :
  edge_map (add_entry g e) a b =
  if on_pair a b e then pm_insert (e_when e) (e_pr e) (edge_map g a b) else edge_map g a b.
Proof.
  unfold add_entry, on_pair. destruct (comm_eqb (e_src e) (pc (e_pr e))); cbn [negb andb].
  - reflexivity.
  - apply edge_map_add.
Qed.

Lemma edge_map_fold h g a b :
  edge_map (fold_left add_entry h g) a b = fold_left ins (pair_entries h a b) (edge_map g a b).
Proof.
  revert g. induction h as [|e h IH]; intros g; cbn [fold_left]; [reflexivity|].
  rewrite IH, edge_map_add_entry. unfold pair_entries. cbn [filter].
  destruct (on_pair a b e); cbn [map fold_left]; reflexivity.
Qed.

Lemma edge_map_build h a b : edge_map (build h) a b = pm_of (pair_entries h a b).
Proof. unfold build. rewrite edge_map_fold. reflexivity. Qed.

Lemma edge_point_build h a b D : edge_point (build h) a b D = latest (pair_entries h a b) D.
Proof. unfold edge_point. rewrite edge_map_build. apply recent_pm_of. Qed.

Lemma edge_point_sym g a b D : edge_point g a b D = edge_point g b a D.
Proof.
  unfold edge_point, edge_map. replace (find_edge g b a) with (find_edge g a b); [reflexivity|].
  induction g as [|e g IH]; cbn [find_edge]; [reflexivity|].
  unfold joins. rewrite (pair_eqb_flip _ _ b a), IH. reflexivity.
Qed.

(* entries later than D do not matter to any edge *)
Definition entry_not_after (D : Z) (e : entry) : bool := e_when e <=? D.

Lemma filter_comm {A} (f g : A -> bool) l : filter f (filter g l) = filter g (filter f l).
Proof.
  induction l as [|x l IH]; [reflexivity|]. cbn [filter].
  destruct (g x) eqn:G, (f x) eqn:Fx; cbn [filter]; rewrite ?G, ?Fx, IH; reflexivity.
Qed.

Lemma map_obs_filter D l :
  map obs (filter (entry_not_after D) l) = filter (not_after D) (map obs l).
Proof.
  induction l as [|e l IH]; [reflexivity|]. cbn [filter map].
  unfold entry_not_after at 1, not_after at 1, obs at 2. cbn [fst].
  destruct (e_when e <=? D); cbn [map]; rewrite IH; reflexivity.
Qed.

Lemma pair_entries_filter h a b D :
  pair_entries (filter (entry_not_after D) h) a b = filter (not_after D) (pair_entries h a b).
Proof.
  unfold pair_entries. rewrite filter_comm. apply map_obs_filter.
Qed.

Lemma edge_point_future h h' a b D :
  filter (entry_not_after D) h = filter (entry_not_after D) h' ->
  edge_point (build h) a b D = edge_point (build h') a b D.
Proof.
  intros H. rewrite !edge_point_build.
  rewrite <- (latest_filter (pair_entries h a b)), <- (latest_filter (pair_entries h' a b)).
  rewrite <- !pair_entries_filter, H. reflexivity.
Qed.

(* no two edges join the same pair *)
Fixpoint wf (g : graph) : Prop :=
  match g with
  | [] => True
  | e :: g' => (forall e', In e' g' -> joins e' (ea e) (eb e) = false) /\ wf g'
  end.

Lemma find_edge_wf g e a b : wf g -> In e g -> joins e a b = true -> find_edge g a b = Some e.
Proof.
  induction g as [|x g IH]; cbn [wf find_edge]; [intros _ []|].
  intros [Hx Hw] [->|Hin] J.
  - rewrite J. reflexivity.
  - destruct (joins x a b) eqn:Jx.
    + exfalso. specialize (Hx _ Hin). unfold joins in Jx.
      unfold joins in J, Hx. rewrite (pair_eqb_same _ _ _ _ (ea e) (eb e) Jx) in J. congruence.
    + apply IH; assumption.
Qed.

Lemma add_price_ends g s w p e' :
  In e' (add_price g s w p) ->
  (exists e0, In e0 g /\ ea e' = ea e0 /\ eb e' = eb e0) \/ (ea e' = s /\ eb e' = pc p).
Proof.
  induction g as [|e g IH]; cbn [add_price].
  - intros [<-|[]]. right. split; reflexivity.
  - destruct (joins e s (pc p)).
    + intros [<-|H].
      * left. exists e. cbn. auto.
      * left. exists e'. split; [right; exact H | auto].
    + intros [<-|H].
      * left. exists e. split; [left; reflexivity | auto].
      * destruct (IH H) as [(e0 & H0 & H1)|H0]; [left; exists e0; split; [right|]; assumption | right; exact H0].
Qed.

Lemma wf_add_price g s w p : wf g -> wf (add_price g s w p).
Proof.
  induction g as [|e g IH]; cbn [add_price wf].
  - intros _. split; [intros ? [] | exact I].
  - intros [He Hw]. destruct (joins e s (pc p)) eqn:J; cbn [wf ea eb].
    + split; assumption.
    + split; [|apply IH; exact Hw].
      intros e' Hin. destruct (add_price_ends _ _ _ _ _ Hin) as [(e0 & H0 & H1 & H2)|[H1 H2]].
      * unfold joins. rewrite H1, H2. apply (He _ H0).
      * unfold joins. rewrite H1, H2, pair_eqb_swap. exact J.
Qed.

Lemma wf_build h : wf (build h).
Proof.
  unfold build. assert (H : wf []) by exact I. revert H. generalize (@nil edge) as g.
  induction h as [|e h IH]; intros g H; cbn [fold_left]; [exact H|].
  apply IH. unfold add_entry. destruct (comm_eqb (e_src e) (pc (e_pr e))); [exact H|].
  apply wf_add_price. exact H.
Qed.

(* ------------------------------------------------------------------ paths *)
(* a simple path cur -> tgt through pairs that have a price point at D, avoiding `vis` *)
Inductive spath (g : graph) (D : Z) : list comm -> comm -> comm -> list step -> Prop :=
| sp_nil : forall vis c, spath g D vis c c []
| sp_cons : forall vis cur nxt tgt pt rest,
    cur <> tgt ->
    edge_point g cur nxt D = Some pt ->
    ~ In nxt (cur :: vis) ->
    spath g D (cur :: vis) nxt tgt rest ->
    spath g D vis cur tgt (mkStep cur nxt pt :: rest).

Lemma other_end_joins e c n : other_end e c = Some n -> joins e c n = true.
Proof.
  unfold other_end, joins. ceq (ea e) c.
  - intros H. injection H as <-. apply pair_eqb_spec. auto.
  - ceq (eb e) c; [|discriminate]. intros H. injection H as <-. apply pair_eqb_spec. auto.
Qed.

Lemma joins_other_end e c n : joins e c n = true -> other_end e c = Some n.
Proof.
  unfold other_end, joins. intros H. apply pair_eqb_spec in H.
  ceq (ea e) c.
  - destruct H as [[_ H]|[H1 H2]]; congruence.
  - ceq (eb e) c.
    + destruct H as [[H _]|[H _]]; congruence.
    + destruct H as [[H _]|[_ H]]; congruence.
Qed.

Lemma edge_point_edge g a b D pt :
  edge_point g a b D = Some pt ->
  exists e, In e g /\ other_end e a = Some b /\ pm_recent (em e) D = Some pt.
Proof.
  unfold edge_point, edge_map. destruct (find_edge g a b) as [e|] eqn:F; [|discriminate].
  intros H. apply find_edge_some in F as [Hin J]. exists e. repeat split; try assumption.
  apply joins_other_end. exact J.
Qed.

Lemma edge_edge_point g a b D e pt :
  wf g -> In e g -> other_end e a = Some b -> pm_recent (em e) D = Some pt ->
  edge_point g a b D = Some pt.
Proof.
  intros W Hin O R. unfold edge_point, edge_map.
  rewrite (find_edge_wf g e a b W Hin (other_end_joins _ _ _ O)). exact R.
Qed.

Lemma paths_sound g D : wf g -> forall fuel vis cur tgt p,
  In p (paths fuel g D vis cur tgt) -> spath g D vis cur tgt p.
Proof.
  intros W. induction fuel as [|f IH]; intros vis cur tgt p; cbn [paths].
  - ceq cur tgt; [|intros []]. intros [<-|[]]. subst. constructor.
  - ceq cur tgt; [intros [<-|[]]; subst; constructor|].
    rewrite in_flat_map. intros (e & Hin & Hp).
    destruct (other_end e cur) as [nxt|] eqn:O; [|destruct Hp].
    destruct (pm_recent (em e) D) as [pt|] eqn:R; [|destruct Hp].
    destruct (mem nxt (cur :: vis)) eqn:M; [destruct Hp|].
    apply in_map_iff in Hp as (rest & <- & Hrest).
    constructor.
    + exact E.
    + apply (edge_edge_point g cur nxt D e pt W Hin O R).
    + apply mem_false. exact M.
    + apply IH. exact Hrest.
Qed.

Lemma paths_complete g D vis cur tgt p :
  spath g D vis cur tgt p -> forall fuel, (length p <= fuel)%nat ->
  In p (paths fuel g D vis cur tgt).
Proof.
  induction 1 as [vis c|vis cur nxt tgt pt rest Hne Hpt Hvis Hrest IH]; intros fuel Hlen.
  - destruct fuel; cbn [paths]; rewrite comm_eqb_refl; left; reflexivity.
  - destruct fuel as [|f]; [cbn in Hlen; lia|]. cbn [paths].
    ceq cur tgt; [contradiction|].
    destruct (edge_point_edge _ _ _ _ _ Hpt) as (e & Hin & O & R).
    apply in_flat_map. exists e. split; [exact Hin|].
    rewrite O, R. apply mem_false in Hvis. rewrite Hvis.
    apply in_map. apply IH. cbn in Hlen. lia.
Qed.

Definition verts (g : graph) : list comm := flat_map (fun e => [ea e; eb e]) g.

Lemma verts_length g : length (verts g) = (2 * length g)%nat.
Proof. induction g as [|e g IH]; cbn; [reflexivity|]. unfold verts in IH. rewrite IH. lia. Qed.

Lemma spath_tos g D vis cur tgt p :
  spath g D vis cur tgt p ->
  NoDup (map s_to p) /\ (forall c, In c (map s_to p) -> ~ In c (cur :: vis)) /\
  incl (map s_to p) (verts g).
Proof.
  induction 1 as [vis c|vis cur nxt tgt pt rest Hne Hpt Hvis Hrest IH].
  - cbn. repeat split; [constructor | intros ? [] | intros ? []].
  - destruct IH as (ND & Hfresh & Hincl). cbn [map s_to]. repeat split.
    + constructor; [|exact ND]. intros Hin. apply (Hfresh _ Hin). left. reflexivity.
    + intros c [<-|Hin]; [exact Hvis|]. intros Hc. apply (Hfresh _ Hin). right. exact Hc.
    + intros c [<-|Hin]; [|apply Hincl; exact Hin].
      destruct (edge_point_edge _ _ _ _ _ Hpt) as (e & Hin & O & _).
      unfold verts. apply in_flat_map. exists e. split; [exact Hin|].
      unfold other_end in O. ceq (ea e) cur.
      * injection O as <-. right. left. reflexivity.
      * ceq (eb e) cur; [|discriminate]. injection O as <-. left. reflexivity.
Qed.

Lemma spath_length g D vis cur tgt p :
  spath g D vis cur tgt p -> (length p <= 2 * length g)%nat.
Proof.
  intros H. destruct (spath_tos _ _ _ _ _ _ H) as (ND & _ & Hincl).
  rewrite <- verts_length, <- (map_length s_to p). apply NoDup_incl_length; assumption.
Qed.

Lemma spath_ext g g' D :
  (forall a b, edge_point g a b D = edge_point g' a b D) ->
  forall vis cur tgt p, spath g D vis cur tgt p -> spath g' D vis cur tgt p.
Proof.
  intros Hext vis cur tgt p H. induction H; constructor; try assumption.
  rewrite <- Hext. assumption.
Qed.

(* the rate along a path: the product of the factors *)
Definition path_product (p : list step) : Q :=
  fold_right (fun s acc => (factor s * acc)%Q) 1%Q p.

Lemma path_q_cons s p : path_q (s :: p) = (path_q p * factor s)%Q.
Proof. unfold path_q. cbn [rev]. rewrite fold_left_app. reflexivity. Qed.

Lemma path_product_cons s p : path_product (s :: p) = (factor s * path_product p)%Q.
Proof. reflexivity. Qed.

Lemma path_q_product p : (path_q p == path_product p)%Q.
Proof.
  induction p as [|s p IH]; [reflexivity|].
  rewrite path_q_cons, path_product_cons, IH. apply Qmult_comm.
Qed.

Local Opaque Qred.

(* ------------------------------------------------------------------ find_price *)
Definition at_most_one_path (g : graph) (D : Z) (s t : comm) : Prop :=
  forall p q, spath g D [] s t p -> spath g D [] s t q -> p = q.

Lemma find_price_path g D s t p :
  wf g -> s <> t -> spath g D [] s t p -> at_most_one_path g D s t ->
  find_price g s t D = Some (mkPrice (Qred (path_q p)) t).
Proof.
  intros W Hne Hp U. unfold find_price. apply comm_eqb_false in Hne. rewrite Hne.
  pose proof (paths_complete _ _ _ _ _ _ Hp _ (spath_length _ _ _ _ _ _ Hp)) as Hin.
  destruct (paths (2 * length g) g D [] s t) as [|q l] eqn:L; [destruct Hin|].
  assert (Hq : spath g D [] s t q).
  { apply (paths_sound g D W (2 * length g)%nat). rewrite L. left. reflexivity. }
  rewrite (U _ _ Hq Hp). reflexivity.
Qed.

Lemma find_price_none g D s t :
  wf g -> (find_price g s t D = None <-> s = t \/ forall p, ~ spath g D [] s t p).
Proof.
  intros W. unfold find_price. ceq s t.
  - split; [intros _; left; exact E | reflexivity].
  - destruct (paths (2 * length g) g D [] s t) as [|q l] eqn:L.
    + split; [|reflexivity]. intros _. right. intros p Hp.
      pose proof (paths_complete _ _ _ _ _ _ Hp _ (spath_length _ _ _ _ _ _ Hp)) as Hin.
      rewrite L in Hin. destruct Hin.
    + split; [discriminate|]. intros [H|H]; [contradiction|]. exfalso. apply (H q).
      apply (paths_sound g D W (2 * length g)%nat). rewrite L. left. reflexivity.
Qed.

Lemma find_price_some g D s t pr :
  wf g -> find_price g s t D = Some pr ->
  s <> t /\ exists p, spath g D [] s t p /\ pr = mkPrice (Qred (path_q p)) t.
Proof.
  intros W. unfold find_price. ceq s t; [discriminate|].
  destruct (paths (2 * length g) g D [] s t) as [|q l] eqn:L; [discriminate|].
  intros H. injection H as <-. split; [exact E|]. exists q. split; [|reflexivity].
  apply (paths_sound g D W (2 * length g)%nat). rewrite L. left. reflexivity.
Qed.

Lemma find_price_ext g g' D s t :
  wf g -> wf g' ->
  (forall a b, edge_point g a b D = edge_point g' a b D) ->
  at_most_one_path g D s t ->
  find_price g s t D = find_price g' s t D.
Proof.
  intros W W' Hext U.
  assert (Hext' : forall a b, edge_point g' a b D = edge_point g a b D) by (intros; symmetry; apply Hext).
  destruct (find_price g s t D) as [pr|] eqn:F.
  - destruct (find_price_some _ _ _ _ _ W F) as (Hne & p & Hp & ->).
    symmetry. apply find_price_path; [exact W' | exact Hne | apply (spath_ext g g' D Hext); exact Hp |].
    intros a b Ha Hb. apply U; apply (spath_ext g' g D Hext'); assumption.
  - apply (find_price_none _ _ _ _ W) in F. symmetry. apply (find_price_none _ _ _ _ W').
    destruct F as [F|F]; [left; exact F | right].
    intros p Hp. apply (F p). apply (spath_ext g' g D Hext'). exact Hp.
Qed.

Lemma find_price_future h h' D s t :
  filter (entry_not_after D) h = filter (entry_not_after D) h' ->
  at_most_one_path (build h) D s t ->
  find_price (build h) s t D = find_price (build h') s t D.
Proof.
  intros H U. apply find_price_ext; [apply wf_build | apply wf_build | | exact U].
  intros a b. apply edge_point_future. exact H.
Qed.

(* single edges *)
Lemma spath_single g D s t pt :
  s <> t -> edge_point g s t D = Some pt -> spath g D [] s t [mkStep s t pt].
Proof.
  intros Hne H. constructor; [exact Hne | exact H | | constructor].
  intros [Hc|[]]. congruence.
Qed.

Lemma path_q_single s t w p : (path_q [mkStep s t (w, p)] == if comm_eqb (pc p) t then pq p else / pq p)%Q.
Proof.
  unfold path_q. cbn [rev app fold_left]. unfold factor. cbn [s_pt s_to snd].
  destruct (comm_eqb (pc p) t); apply Qmult_1_l.
Qed.

(* ------------------------------------------------------------------ value *)
Lemma value_X_spec g prim a t D :
  value g prim a (Some t) D =
  if comm_eqb (hc a) t then Some (Qred (hq a), t)
  else match find_price g (hc a) t D with
       | Some p => Some (Qred (pq p * hq a), pc p)
       | None => None
       end.
Proof.
  unfold value, lookup. cbn [negb]. ceq (hc a) t.
  - rewrite E. reflexivity.
  - destruct find_price_dispatch_on_target; reflexivity.
Qed.

Lemma value_exact g prim a t D q c :
  hc a <> t -> value g prim a (Some t) D = Some (q, c) ->
  exists p, find_price g (hc a) t D = Some p /\ c = pc p /\ (q == pq p * hq a)%Q.
Proof.
  intros Hne. rewrite value_X_spec. apply comm_eqb_false in Hne. rewrite Hne.
  destruct (find_price g (hc a) t D) as [p|]; [|discriminate].
  intros H. injection H as <- <-. exists p. repeat split. apply Qred_correct.
Qed.

Lemma find_price_comm g s t D p : find_price g s t D = Some p -> pc p = t.
Proof.
  unfold find_price. destruct (comm_eqb s t); [discriminate|].
  destruct (paths _ _ _ _ _ _); [discriminate|]. intros H. injection H as <-. reflexivity.
Qed.

Lemma convert_unpriced g prim a t D :
  hc a <> t -> find_price g (hc a) t D = None ->
  convert g prim a (Some t) D = (Qred (hq a), hc a).
Proof.
  intros Hne F. unfold convert. rewrite value_X_spec. apply comm_eqb_false in Hne.
  rewrite Hne, F. reflexivity.
Qed.

Lemma convert_priced g prim a t D p :
  hc a <> t -> find_price g (hc a) t D = Some p ->
  snd (convert g prim a (Some t) D) = t /\ (fst (convert g prim a (Some t) D) == pq p * hq a)%Q.
Proof.
  intros Hne F. unfold convert. rewrite value_X_spec. pose proof (find_price_comm _ _ _ _ _ F) as C.
  apply comm_eqb_false in Hne. rewrite Hne, F. cbn [fst snd]. split; [exact C | apply Qred_correct].
Qed.

Lemma convert_same g prim a D :
  convert g prim a (Some (hc a)) D = (Qred (hq a), hc a).
Proof. unfold convert. rewrite value_X_spec, comm_eqb_refl. reflexivity. Qed.

(* ------------------------------------------------------------------ -V: the nearest price *)
Lemma nearest_spec g src D best w p o :
  nearest g src D best = Some (w, p, o) ->
  best = Some (w, p, o) \/
  exists e, In e g /\ other_end e src = Some o /\ pm_recent (em e) D = Some (w, p).
Proof.
  revert best. induction g as [|e g IH]; intros best; cbn [nearest].
  - intros H. left. exact H.
  - destruct (other_end e src) as [o'|] eqn:O.
    + destruct (pm_recent (em e) D) as [[w' p']|] eqn:R.
      * intros H. apply IH in H as [H|(e0 & H0 & H1 & H2)].
        -- destruct best as [[[w0 p0] o0]|].
           ++ destruct (w0 <? w').
              ** injection H as <- <- <-. right. exists e. repeat split; [left; reflexivity | exact O | exact R].
              ** left. exact H.
           ++ injection H as <- <- <-. right. exists e. repeat split; [left; reflexivity | exact O | exact R].
        -- right. exists e0. repeat split; [right; exact H0 | exact H1 | exact H2].
      * intros H. apply IH in H as [H|(e0 & H0 & H1 & H2)]; [left; exact H|].
        right. exists e0. repeat split; [right; exact H0 | exact H1 | exact H2].
    + intros H. apply IH in H as [H|(e0 & H0 & H1 & H2)]; [left; exact H|].
      right. exists e0. repeat split; [right; exact H0 | exact H1 | exact H2].
Qed.

Lemma nearest_max g src D best w p o :
  nearest g src D best = Some (w, p, o) ->
  (forall w0 p0 o0, best = Some (w0, p0, o0) -> w0 <= w) /\
  (forall e o' w' p', In e g -> other_end e src = Some o' -> pm_recent (em e) D = Some (w', p') -> w' <= w).
Proof.
  revert best. induction g as [|e g IH]; intros best; cbn [nearest].
  - intros ->. split; [intros ? ? ? H; injection H as -> _ _; lia | intros ? ? ? ? []].
  - destruct (other_end e src) as [o1|] eqn:O.
    + destruct (pm_recent (em e) D) as [[w1 p1]|] eqn:R.
      * intros H. apply IH in H as [H1 H2]. split.
        -- intros w0 p0 o0 ->. destruct (w0 <? w1) eqn:E.
           ++ apply Z.ltb_lt in E. specialize (H1 _ _ _ eq_refl). lia.
           ++ apply (H1 _ _ _ eq_refl).
        -- intros e' o' w' p' [<-|Hin] O' R'.
           ++ rewrite O in O'. rewrite R in R'. injection R' as <- <-.
              destruct best as [[[w0 p0] o0]|].
              ** destruct (w0 <? w1) eqn:E.
                 --- apply (H1 _ _ _ eq_refl).
                 --- apply Z.ltb_ge in E. specialize (H1 _ _ _ eq_refl). lia.
              ** apply (H1 _ _ _ eq_refl).
           ++ apply (H2 _ _ _ _ Hin O' R').
      * intros H. apply IH in H as [H1 H2]. split; [exact H1|].
        intros e' o' w' p' [<-|Hin] O' R'; [congruence | apply (H2 _ _ _ _ Hin O' R')].
    + intros H. apply IH in H as [H1 H2]. split; [exact H1|].
      intros e' o' w' p' [<-|Hin] O' R'; [congruence | apply (H2 _ _ _ _ Hin O' R')].
Qed.

(* ------------------------------------------------------------------ the memo *)
Definition memo_ok (s : pstate) : Prop :=
  forall owner D t r, memo_find (st_memo s) owner (D, t) = Some r ->
                      r = find_price (st_graph s) owner t D.

Lemma st_find_ok s a b D :
  memo_ok s ->
  fst (st_find s a b D) = find_price (st_graph s) a b D /\
  st_graph (snd (st_find s a b D)) = st_graph s /\ memo_ok (snd (st_find s a b D)).
Proof.
  intros Hok. unfold st_find. ceq a b.
  - cbn [fst snd]. repeat split; [|exact Hok]. unfold find_price. subst.
    rewrite comm_eqb_refl. reflexivity.
  - destruct (memo_find (st_memo s) a (D, b)) as [r|] eqn:M; cbn [fst snd].
    + repeat split; [apply Hok; exact M | exact Hok].
    + repeat split. intros owner D' t r. cbn [st_memo st_graph memo_find fst snd].
      destruct (comm_eqb a owner && (D =? D') && comm_eqb b t) eqn:K.
      * apply andb_true_iff in K as [K K3]. apply andb_true_iff in K as [K1 K2].
        apply comm_eqb_spec in K1. apply comm_eqb_spec in K3. apply Z.eqb_eq in K2. subst.
        intros H. injection H as <-. reflexivity.
      * apply Hok.
Qed.

(* the source fact the transparency of the memo rests on (regenerated from commodity.cc) *)
Lemma every_memo_cleared :
  add_price_clears_every_memo = true /\ remove_price_clears_every_memo = true.
Proof. split; reflexivity. Qed.

Lemma st_add_ok s e : memo_ok (st_add s e).
Proof.
  intros owner D t r. unfold st_add. rewrite (proj1 every_memo_cleared). cbn. discriminate.
Qed.

(* memoised lookups answer what plain lookups answer, however lookups and recordings of
   prices are interleaved *)
Lemma run_ops_plain ops : forall s,
  memo_ok s -> fst (run_ops s ops) = plain_ops (st_graph s) ops.
Proof.
  induction ops as [|o ops IH]; intros s Hok; [reflexivity|].
  destruct o as [e|a b D]; cbn [run_ops plain_ops].
  - rewrite (IH (st_add s e) (st_add_ok s e)). reflexivity.
  - destruct (st_find_ok s a b D Hok) as (H1 & H2 & H3).
    destruct (st_find s a b D) as [x s'] eqn:F. cbn [fst snd] in *.
    specialize (IH s' H3). destruct (run_ops s' ops) as [xs s''] eqn:R. cbn [fst] in *.
    rewrite H1, IH, H2. reflexivity.
Qed.

Lemma run_ops_transparent g ops : fst (run_ops (mkState g []) ops) = plain_ops g ops.
Proof. apply (run_ops_plain ops (mkState g [])). intros owner D t r. cbn. discriminate. Qed.

(* the journal-level form: loading a journal with lookups in it leaves a consistent memo and
   the same graph as loading it without them *)
Lemma load_ok l : forall s, memo_ok s -> memo_ok (load s l).
Proof.
  induction l as [|j l IH]; intros s Hok; [exact Hok|]. destruct j as [i|a b D]; cbn [load].
  - apply IH. destruct (entry_of i); [apply st_add_ok | exact Hok].
  - apply IH. apply (st_find_ok s a b D Hok).
Qed.

Lemma load_graph l : forall s, memo_ok s ->
  st_graph (load s l) = fold_left add_entry (history_of (items_of l)) (st_graph s).
Proof.
  induction l as [|j l IH]; intros s Hok; [reflexivity|]. destruct j as [i|a b D]; cbn [load items_of history_of].
  - destruct (entry_of i) as [e|].
    + rewrite (IH _ (st_add_ok s e)). reflexivity.
    + apply IH. exact Hok.
  - destruct (st_find_ok s a b D Hok) as (_ & H2 & H3). rewrite (IH _ H3), H2. reflexivity.
Qed.

Lemma convert_memo_plain s a t D prim :
  memo_ok s ->
  fst (convert_memo s a t D) = convert (st_graph s) prim a (Some t) D /\
  st_graph (snd (convert_memo s a t D)) = st_graph s /\ memo_ok (snd (convert_memo s a t D)).
Proof.
  intros Hok. unfold convert_memo, convert. rewrite value_X_spec.
  destruct (comm_eqb (hc a) t); [cbn [fst snd]; repeat split; exact Hok|].
  destruct (st_find_ok s (hc a) t D Hok) as (H1 & H2 & H3).
  destruct (st_find s (hc a) t D) as [[p|] s'] eqn:F; cbn [fst snd] in *; rewrite <- H1;
    repeat split; assumption.
Qed.

Lemma convert_all_memo_plain l : forall s t D prim b,
  memo_ok s ->
  convert_all_memo s l t D b =
  nonzero (fold_left (fun b a => let r := convert (st_graph s) prim a (Some t) D in acc_add b (snd r) (fst r)) l b).
Proof.
  induction l as [|a l IH]; intros s t D prim b Hok; cbn [convert_all_memo fold_left]; [reflexivity|].
  destruct (convert_memo_plain s a t D prim Hok) as (H1 & H2 & H3).
  destruct (convert_memo s a t D) as [x s'] eqn:C. cbn [fst snd] in *.
  rewrite (IH s' t D prim _ H3), H2, H1. reflexivity.
Qed.

Lemma bal_row_memo_plain l held t D :
  bal_row_memo l held t D = bal_row (items_of l) held (Some t) D.
Proof.
  unfold bal_row_memo, bal_row, convert_all.
  assert (Hok : memo_ok (mkState [] [])) by (intros owner D' t' r; cbn; discriminate).
  rewrite (convert_all_memo_plain held _ t D (mkCtx (prims (history_of (items_of l))) (default_of (items_of l) None)) [] (load_ok l _ Hok)).
  rewrite (load_graph l _ Hok). reflexivity.
Qed.

(* ------------------------------------------------------------------ assembled statements *)
Lemma spath_steps g D vis cur tgt p :
  spath g D vis cur tgt p ->
  Forall (fun s => edge_point g (s_from s) (s_to s) D = Some (s_pt s)) p.
Proof.
  induction 1; constructor; [cbn; assumption | assumption].
Qed.

Lemma at_most_one_by_enumeration g D s t :
  wf g -> (length (paths (2 * length g) g D [] s t) <= 1)%nat -> at_most_one_path g D s t.
Proof.
  intros W L p q Hp Hq.
  pose proof (paths_complete _ _ _ _ _ _ Hp _ (spath_length _ _ _ _ _ _ Hp)) as Ip.
  pose proof (paths_complete _ _ _ _ _ _ Hq _ (spath_length _ _ _ _ _ _ Hq)) as Iq.
  destruct (paths (2 * length g) g D [] s t) as [|x [|y l]]; cbn in L; try lia.
  - destruct Ip.
  - destruct Ip as [<-|[]], Iq as [<-|[]]. reflexivity.
Qed.

Lemma chain_product h D s t p :
  s <> t -> spath (build h) D [] s t p -> at_most_one_path (build h) D s t ->
  exists r, find_price (build h) s t D = Some r /\ pc r = t /\ (pq r == path_product p)%Q.
Proof.
  intros Hne Hp U. exists (mkPrice (Qred (path_q p)) t). split; [|split].
  - apply find_price_path; [apply wf_build | assumption..].
  - reflexivity.
  - cbn [pq]. rewrite Qred_correct. apply path_q_product.
Qed.

Lemma direct_quote h D s t w p :
  s <> t -> edge_point (build h) s t D = Some (w, p) -> pc p = t ->
  at_most_one_path (build h) D s t ->
  exists r, find_price (build h) s t D = Some r /\ pc r = t /\ (pq r == pq p)%Q.
Proof.
  intros Hne He Hc U.
  destruct (chain_product h D s t _ Hne (spath_single _ _ _ _ _ Hne He) U) as (r & H1 & H2 & H3).
  exists r. repeat split; [exact H1 | exact H2 |]. rewrite H3.
  unfold path_product, factor. cbn [fold_right s_pt s_to snd]. subst t. rewrite comm_eqb_refl.
  apply Qmult_1_r.
Qed.

Lemma reverse_quote h D s t w p :
  s <> t -> edge_point (build h) s t D = Some (w, p) -> pc p = s ->
  at_most_one_path (build h) D s t ->
  exists r, find_price (build h) s t D = Some r /\ pc r = t /\ (pq r == / pq p)%Q.
Proof.
  intros Hne He Hc U.
  destruct (chain_product h D s t _ Hne (spath_single _ _ _ _ _ Hne He) U) as (r & H1 & H2 & H3).
  exists r. repeat split; [exact H1 | exact H2 |]. rewrite H3.
  unfold path_product, factor. cbn [fold_right s_pt s_to snd]. rewrite Hc.
  apply comm_eqb_false in Hne. rewrite Hne. apply Qmult_1_r.
Qed.

Lemma nearest_most_recent g src D w p o :
  nearest g src D None = Some (w, p, o) ->
  (exists e, In e g /\ other_end e src = Some o /\ pm_recent (em e) D = Some (w, p)) /\
  (forall e o' w' p', In e g -> other_end e src = Some o' ->
                      pm_recent (em e) D = Some (w', p') -> w' <= w).
Proof.
  intros H. split.
  - destruct (nearest_spec _ _ _ _ _ _ _ H) as [H'|H']; [discriminate | exact H'].
  - apply (nearest_max _ _ _ _ _ _ _ H).
Qed.

(* ------------------------------------------------------------------ the date of a cost price *)
(* the source fact (regenerated from xact.cc): finalize dates a cost by the transaction *)
Lemma cost_dated_by_xact : finalize_cost_date = CostXactDate.
Proof. reflexivity. Qed.

Lemma cost_entry_when d aq ac total cq cc virt e :
  entry_of (ICost d aq ac total cq cc virt) = Some e -> e_when e = midnight (x_prim d).
Proof.
  unfold entry_of, entry_of_with. rewrite cost_dated_by_xact. cbn [cost_day].
  destruct (virt || _); [discriminate|]. intros H. injection H as <-. reflexivity.
Qed.

Lemma implied_entry_when d xq xc yq yc e :
  entry_of (IImplied d xq xc yq yc) = Some e -> e_when e = midnight (x_prim d).
Proof.
  unfold entry_of, entry_of_with. rewrite cost_dated_by_xact. cbn [cost_day].
  destruct (Qnum _ =? 0); [discriminate|]. intros H. injection H as <-. reflexivity.
Qed.

(* whatever dates the posting itself carries, the recorded price is the same *)
Lemma cost_entry_ignores_posting_dates xp xa pp pa pp' pa' aq ac total cq cc virt :
  entry_of (ICost (mkDates xp xa pp pa) aq ac total cq cc virt) =
  entry_of (ICost (mkDates xp xa pp' pa') aq ac total cq cc virt).
Proof. unfold entry_of, entry_of_with. rewrite cost_dated_by_xact. reflexivity. Qed.

(* ------------------------------------------------------------------ --percent *)
(* the source fact (regenerated from report.cc): numerator and denominator of a share are both
   valued with the valuation date and the -X commodity *)
Lemma percent_calls_targeted :
  percent_numerator_targeted = true /\ percent_denominator_targeted = true /\
  immediate_amount_targeted = true.
Proof. repeat split; reflexivity. Qed.

(* a share is the quotient of two valuations made by the SAME rule (same target, same date) *)
Lemma percent_row_same_rule l held pheld tgt D :
  percent_row l held pheld tgt D = percent_of (bal_row l held tgt D) (bal_row l pheld tgt D).
Proof.
  unfold percent_row. destruct percent_calls_targeted as (-> & -> & _). reflexivity.
Qed.

Lemma percent_row_quotient l held pheld t D cn qn cd qd :
  bal_row l held (Some t) D = [(cn, qn)] -> bal_row l pheld (Some t) D = [(cd, qd)] ->
  exists q, percent_row l held pheld (Some t) D = PVal q /\ (q == 100 * qn / qd)%Q.
Proof.
  intros Hn Hd. rewrite percent_row_same_rule, Hn, Hd. cbn [percent_of].
  eexists. split; [reflexivity | apply Qred_correct].
Qed.

(* ------------------------------------------------------------------ -V and the default commodity *)
(* the source fact (regenerated from commodity.cc): find_price dispatches on the defaulted
   `target`, not on the commodity it was asked for *)
Lemma dispatch_on_target :
  find_price_dispatch_recognised = true /\ find_price_dispatch_on_target = true.
Proof. split; reflexivity. Qed.

Lemma lookup_spec g dflt src commodity D :
  lookup g dflt src commodity D =
  match (match commodity with Some c => Some c | None => dflt end) with
  | Some t => find_price g src t D
  | None => find_price_any g src D
  end.
Proof.
  unfold lookup. rewrite (proj2 dispatch_on_target).
  destruct (match commodity with Some c => Some c | None => dflt end) as [t|]; [|reflexivity].
  ceq src t; [|reflexivity]. subst. unfold find_price. rewrite comm_eqb_refl. reflexivity.
Qed.

(* -V with a default commodity T values an unannotated, non-primary amount exactly as -X T does
   (an amount of T itself is left alone either way) *)
Lemma value_V_default g prims t a D :
  mem (hc a) prims = false -> hlot a = None -> hc a <> t ->
  value g (mkCtx prims (Some t)) a None D = value g (mkCtx prims (Some t)) a (Some t) D.
Proof.
  intros Hp Hl Hne. rewrite value_X_spec. unfold value. cbn [v_prim v_dflt]. rewrite Hp, Hl. cbn [negb].
  rewrite lookup_spec. apply comm_eqb_false in Hne. rewrite Hne. reflexivity.
Qed.

Lemma value_V_default_self g prims t a D :
  hlot a = None -> hc a = t -> value g (mkCtx prims (Some t)) a None D = None.
Proof.
  intros Hl He. unfold value. cbn [v_prim v_dflt]. rewrite Hl.
  destruct (negb (mem (hc a) prims)); [|reflexivity].
  rewrite lookup_spec. subst t. unfold find_price. rewrite comm_eqb_refl. reflexivity.
Qed.

(* -V without a default commodity: the most recent neighbouring quote *)
Lemma value_V_plain g prims a D :
  mem (hc a) prims = false -> hlot a = None ->
  value g (mkCtx prims None) a None D =
  match find_price_any g (hc a) D with
  | Some p => Some (Qred (pq p * hq a), pc p)
  | None => None
  end.
Proof.
  intros Hp Hl. unfold value. cbn [v_prim v_dflt]. rewrite Hp, Hl. cbn [negb].
  rewrite lookup_spec. reflexivity.
Qed.
