(* The element structure of what write_el prints: the tag scanner of Model/Escape.v finds
   exactly the elements of the property tree, properly nested. *)
From LedgerV Require Import Base.Prelude Gen.CsvFormat Model.Escape Proofs.EscapeProofs.
Local Open Scope Z_scope.

(* characters allowed in the element names and attribute names the writers use *)
Definition name_char (c : Z) : bool :=
  negb ((c =? 60) || (c =? 62) || (c =? 47) || (c =? 32) || (c =? 34) || (c =? 61)).
Definition name_okb (k : str) : bool := negb (is_nil k) && forallb name_char k.
Definition attr_char (c : Z) : bool :=
  negb ((c =? 34) || (c =? 47) || (c =? 62) || (c =? 60)).

Fixpoint names_okb (key : str) (pt : ptree) {struct pt} : bool :=
  match pt with
  | Node _ attrs kids =>
      name_okb key && forallb (fun kv => forallb attr_char (fst kv)) attrs &&
      (fix all (l : list (str * ptree)) : bool :=
         match l with
         | [] => true
         | kc :: r => names_okb (fst kc) (snd kc) && all r
         end) kids
  end.

Fixpoint tag_events (key : str) (pt : ptree) {struct pt} : list xev :=
  match pt with
  | Node data _ kids =>
      if is_nil data && is_nil kids then [XEmpty key]
      else XOpen key ::
           (fix go (l : list (str * ptree)) : list xev :=
              match l with
              | [] => []
              | kc :: r => tag_events (fst kc) (snd kc) ++ go r
              end) kids ++ [XClose key]
  end.

Lemma ptree_ind2 (P : ptree -> Prop) :
  (forall d a kids, Forall (fun kc => P (snd kc)) kids -> P (Node d a kids)) -> forall t, P t.
Proof.
  intros H. fix IH 1. intros [d a kids]. apply H.
  induction kids as [|kc r IHr]; constructor; [apply IH|exact IHr].
Qed.

Notation XT := (xml_tags XsText).

(* character data without < is skipped *)
Lemma tags_text chunk r : ~ In 60 chunk -> XT (chunk ++ r) = XT r.
Proof.
  induction chunk as [|c chunk IH]; intros H; [reflexivity|].
  cbn [app xml_tags]. destruct (Z.eqb_spec c 60) as [->|_].
  - exfalso. apply H. left. reflexivity.
  - apply IH. intros Hin. apply H. right. exact Hin.
Qed.

Lemma indent_no_lt n : ~ In 60 (indent_str n).
Proof. unfold indent_str. intros H. apply repeat_spec in H. lia. Qed.

Lemma encode_no_quote s : ~ In 34 (xml_encode s).
Proof.
  unfold xml_encode. destruct s as [|c t]; [intros []|].
  destruct (forallb (Z.eqb 32) (c :: t)).
  - intros Hin. apply in_app_or in Hin as [Hin|Hin].
    + cbn in Hin. intuition lia.
    + apply repeat_spec in Hin. lia.
  - intros Hin. apply in_flat_map in Hin as [x [_ Hx]].
    destruct (xml_entity_cases x) as [[_ E]|[[_ E]|[[_ E]|[[_ E]|[[_ E]|H]]]]];
      try (rewrite E in Hx; cbn in Hx; intuition lia).
    destruct H as (_ & _ & _ & H34 & _ & E). rewrite E in Hx. cbn in Hx. intuition.
Qed.

Lemma encode_no_lt s : ~ In 60 (xml_encode s).
Proof. apply xml_no_markup_lemma. Qed.

(* reading a name *)
Lemma tags_name k : forall cl acc r,
  forallb name_char k = true ->
  xml_tags (XsName cl acc) (k ++ r) = xml_tags (XsName cl (acc ++ k)) r.
Proof.
  induction k as [|c k IH]; intros cl acc r H.
  - cbn. rewrite app_nil_r. reflexivity.
  - cbn [forallb] in H. apply andb_true_iff in H as [Hc Hk].
    unfold name_char in Hc. apply negb_true_iff in Hc.
    repeat (apply orb_false_iff in Hc as [Hc ?]).
    cbn [app xml_tags].
    repeat match goal with H : (c =? _) = false |- _ => rewrite H; clear H end.
    cbn [orb]. rewrite IH by exact Hk. rewrite <- app_assoc. reflexivity.
Qed.

(* inside a quoted attribute value *)
Lemma tags_quoted v k r :
  ~ In 34 v -> ~ In 60 v -> xml_tags (XsQuote k) (v ++ 34 :: r) = xml_tags (XsAttrs k) r.
Proof.
  induction v as [|c v IH]; intros H34 H60.
  - cbn. reflexivity.
  - cbn [app xml_tags].
    destruct (Z.eqb_spec c 34) as [->|_]; [exfalso; apply H34; left; reflexivity|].
    destruct (Z.eqb_spec c 60) as [->|_]; [exfalso; apply H60; left; reflexivity|].
    apply IH; intros Hin; [apply H34|apply H60]; right; exact Hin.
Qed.

Lemma tags_attr_name a k r :
  forallb attr_char a = true -> xml_tags (XsAttrs k) (a ++ r) = xml_tags (XsAttrs k) r.
Proof.
  induction a as [|c a IH]; intros H; [reflexivity|].
  cbn [forallb] in H. apply andb_true_iff in H as [Hc Ha].
  unfold attr_char in Hc. apply negb_true_iff in Hc.
  repeat (apply orb_false_iff in Hc as [Hc ?]).
  cbn [app xml_tags].
  repeat match goal with H : (c =? _) = false |- _ => rewrite H; clear H end.
  apply IH, Ha.
Qed.

Lemma tags_attrs attrs k r :
  forallb (fun kv => forallb attr_char (fst kv)) attrs = true ->
  xml_tags (XsAttrs k) (write_attrs attrs ++ r) = xml_tags (XsAttrs k) r.
Proof.
  induction attrs as [|kv attrs IH]; intros H; [reflexivity|].
  cbn [forallb] in H. apply andb_true_iff in H as [Hk Hrest].
  unfold write_attrs. cbn [flat_map]. fold (write_attrs attrs).
  rewrite <- !app_assoc. cbn [app xml_tags]. cbn.
  rewrite tags_attr_name by exact Hk. cbn [xml_tags]. cbn.
  rewrite tags_quoted by (apply encode_no_quote || apply encode_no_lt).
  apply IH, Hrest.
Qed.

(* after the element name: the attributes, then /> or > *)
Lemma tags_name_attrs kv attrs c k r :
  forallb (fun kv => forallb attr_char (fst kv)) (kv :: attrs) = true ->
  xml_tags (XsName false (c :: k)) (write_attrs (kv :: attrs) ++ r) = xml_tags (XsAttrs (c :: k)) r.
Proof.
  intros H. rewrite <- (tags_attrs (kv :: attrs) (c :: k) r H).
  unfold write_attrs. cbn [flat_map]. rewrite <- !app_assoc. cbn [app xml_tags]. cbn. reflexivity.
Qed.

Lemma tags_after_name_empty attrs c k r :
  forallb (fun kv => forallb attr_char (fst kv)) attrs = true ->
  xml_tags (XsName false (c :: k)) (write_attrs attrs ++ 47 :: 62 :: r)
  = option_map (cons (XEmpty (c :: k))) (XT r).
Proof.
  intros H. destruct attrs as [|kv attrs]; [reflexivity|].
  rewrite tags_name_attrs by exact H. reflexivity.
Qed.

Lemma tags_after_name_open attrs c k r :
  forallb (fun kv => forallb attr_char (fst kv)) attrs = true ->
  xml_tags (XsName false (c :: k)) (write_attrs attrs ++ 62 :: r)
  = option_map (cons (XOpen (c :: k))) (XT r).
Proof.
  intros H. destruct attrs as [|kv attrs]; [reflexivity|].
  rewrite tags_name_attrs by exact H. reflexivity.
Qed.

(* <key attrs/>  <key attrs>  </key> *)
Lemma tags_empty_element key attrs r t :
  name_okb key = true -> forallb (fun kv => forallb attr_char (fst kv)) attrs = true ->
  XT r = Some t ->
  XT ([60] ++ key ++ write_attrs attrs ++ [47; 62; 10] ++ r) = Some (XEmpty key :: t).
Proof.
  intros Hk Ha Hr. unfold name_okb in Hk. apply andb_true_iff in Hk as [Hne Hk].
  change ([60] ++ key ++ write_attrs attrs ++ [47; 62; 10] ++ r)
    with (60 :: key ++ write_attrs attrs ++ 47 :: 62 :: (10 :: r)).
  cbn [xml_tags Z.eqb Pos.eqb].
  rewrite (tags_name key false [] _ Hk). cbn [app].
  destruct key as [|c k]; [discriminate|].
  rewrite tags_after_name_empty by exact Ha. cbn [xml_tags Z.eqb Pos.eqb]. rewrite Hr. reflexivity.
Qed.

Lemma tags_start_tag key attrs r t :
  name_okb key = true -> forallb (fun kv => forallb attr_char (fst kv)) attrs = true ->
  XT r = Some t ->
  XT ([60] ++ key ++ write_attrs attrs ++ [62] ++ r) = Some (XOpen key :: t).
Proof.
  intros Hk Ha Hr. unfold name_okb in Hk. apply andb_true_iff in Hk as [Hne Hk].
  change ([60] ++ key ++ write_attrs attrs ++ [62] ++ r)
    with (60 :: key ++ write_attrs attrs ++ 62 :: r).
  cbn [xml_tags Z.eqb Pos.eqb].
  rewrite (tags_name key false [] _ Hk). cbn [app].
  destruct key as [|c k]; [discriminate|].
  rewrite tags_after_name_open by exact Ha. rewrite Hr. reflexivity.
Qed.

Lemma tags_end_tag key r t :
  name_okb key = true -> XT r = Some t ->
  XT ([60; 47] ++ key ++ [62; 10] ++ r) = Some (XClose key :: t).
Proof.
  intros Hk Hr. unfold name_okb in Hk. apply andb_true_iff in Hk as [Hne Hk].
  change ([60; 47] ++ key ++ [62; 10] ++ r) with (60 :: 47 :: key ++ 62 :: 10 :: r).
  cbn [xml_tags Z.eqb Pos.eqb].
  rewrite (tags_name key true [] _ Hk). cbn [app].
  destruct key as [|c k]; [discriminate|].
  cbn [xml_tags Z.eqb Pos.eqb]. rewrite Hr. reflexivity.
Qed.

(* the recursive calls of write_el / tag_events / names_okb over the children, as list functions *)
Definition write_kids (ind : nat) (kids : list (str * ptree)) : str :=
  flat_map (fun kc => write_el (fst kc) (snd kc) ind) kids.
Definition kids_events (kids : list (str * ptree)) : list xev :=
  flat_map (fun kc => tag_events (fst kc) (snd kc)) kids.
Definition kids_okb (kids : list (str * ptree)) : bool :=
  forallb (fun kc => names_okb (fst kc) (snd kc)) kids.

Lemma write_el_eq key data attrs kids ind :
  write_el key (Node data attrs kids) ind =
  if is_nil data && is_nil kids && is_nil attrs then
    indent_str ind ++ [60] ++ key ++ [47; 62; 10]
  else
    indent_str ind ++ [60] ++ key ++ write_attrs attrs ++
    (if is_nil data && is_nil kids then [47; 62; 10]
     else
       [62] ++ (if negb (is_nil kids) then [10] else []) ++
       (if is_nil data then []
        else if negb (is_nil kids) then indent_str (S ind) ++ xml_encode data ++ [10]
        else xml_encode data) ++
       write_kids (S ind) kids ++
       (if negb (is_nil kids) then indent_str ind else []) ++
       [60; 47] ++ key ++ [62; 10]).
Proof. reflexivity. Qed.

Lemma tag_events_eq key data attrs kids :
  tag_events key (Node data attrs kids) =
  if is_nil data && is_nil kids then [XEmpty key]
  else XOpen key :: kids_events kids ++ [XClose key].
Proof. reflexivity. Qed.

Lemma names_okb_eq key data attrs kids :
  names_okb key (Node data attrs kids) =
  name_okb key && forallb (fun kv => forallb attr_char (fst kv)) attrs && kids_okb kids.
Proof. reflexivity. Qed.

Lemma in_app_no (c : Z) (a b : str) : ~ In c a -> ~ In c b -> ~ In c (a ++ b).
Proof. intros Ha Hb Hin. apply in_app_or in Hin as [H|H]; [exact (Ha H)|exact (Hb H)]. Qed.

Lemma tags_element : forall pt key ind r t,
  names_okb key pt = true -> XT r = Some t ->
  XT (write_el key pt ind ++ r) = Some (tag_events key pt ++ t).
Proof.
  induction pt as [data attrs kids IHkids] using ptree_ind2.
  intros key ind r t Hok Hr.
  rewrite names_okb_eq in Hok. apply andb_true_iff in Hok as [Hok Hkids].
  apply andb_true_iff in Hok as [Hkey Hattrs].
  (* the children *)
  assert (Kids : forall ind r t, XT r = Some t ->
                 XT (write_kids ind kids ++ r) = Some (kids_events kids ++ t)).
  { clear - IHkids Hkids. unfold write_kids, kids_events, kids_okb in *.
    induction kids as [|kc kids IH]; intros ind r t Hr; [exact Hr|].
    inversion IHkids as [|? ? Hkc Hrest]; subst.
    cbn [forallb] in Hkids. apply andb_true_iff in Hkids as [Hk1 Hk2].
    cbn [flat_map]. rewrite <- !app_assoc.
    apply Hkc; [exact Hk1|]. apply IH; assumption. }
  rewrite write_el_eq, tag_events_eq.
  destruct data as [|d data]; destruct kids as [|kc kids]; cbn [is_nil andb negb].
  - (* no data, no children: <key attrs/> *)
    destruct attrs as [|kv attrs]; cbn [is_nil]; rewrite <- !app_assoc;
      rewrite tags_text by apply indent_no_lt.
    + apply (tags_empty_element key [] r t); assumption.
    + apply (tags_empty_element key (kv :: attrs) r t); assumption.
  - (* children only *)
    rewrite <- !app_assoc. rewrite tags_text by apply indent_no_lt.
    cbn [app]. rewrite <- !app_assoc.
    apply (tags_start_tag key attrs); [exact Hkey|exact Hattrs|].
    cbn [app xml_tags Z.eqb Pos.eqb].
    apply Kids. rewrite tags_text by apply indent_no_lt.
    apply tags_end_tag; assumption.
  - (* data only: <key attrs>text</key> *)
    rewrite <- !app_assoc. rewrite tags_text by apply indent_no_lt.
    cbn [app]. rewrite <- !app_assoc.
    apply (tags_start_tag key attrs); [exact Hkey|exact Hattrs|].
    cbn [app]. rewrite tags_text by apply encode_no_lt.
    cbn [write_kids flat_map app].
    apply tags_end_tag; assumption.
  - (* data and children *)
    rewrite <- !app_assoc. rewrite tags_text by apply indent_no_lt.
    cbn [app]. rewrite <- !app_assoc.
    apply (tags_start_tag key attrs); [exact Hkey|exact Hattrs|].
    cbn [app xml_tags Z.eqb Pos.eqb].
    rewrite tags_text by apply indent_no_lt.
    rewrite tags_text by apply encode_no_lt.
    cbn [app xml_tags Z.eqb Pos.eqb].
    apply Kids. rewrite tags_text by apply indent_no_lt.
    apply tags_end_tag; assumption.
Qed.

(* nesting *)
Lemma nested_element : forall pt key stack l,
  well_nested stack (tag_events key pt ++ l) = well_nested stack l.
Proof.
  induction pt as [data attrs kids IHkids] using ptree_ind2.
  intros key stack l. rewrite tag_events_eq.
  destruct (is_nil data && is_nil kids); [reflexivity|].
  cbn [app well_nested]. rewrite <- app_assoc.
  assert (Kids : forall stack l, well_nested stack (kids_events kids ++ l) = well_nested stack l).
  { clear - IHkids. unfold kids_events. induction kids as [|kc kids IH]; intros stack l; [reflexivity|].
    inversion IHkids as [|? ? Hkc Hrest]; subst.
    cbn [flat_map]. rewrite <- app_assoc. rewrite Hkc. apply IH, Hrest. }
  rewrite Kids. cbn [app well_nested]. rewrite str_eqb_refl. reflexivity.
Qed.

Lemma xml_structure_lemma key pt ind :
  names_okb key pt = true ->
  xml_tags XsText (write_el key pt ind) = Some (tag_events key pt) /\
  well_nested [] (tag_events key pt) = true.
Proof.
  intros H. split.
  - rewrite <- (app_nil_r (write_el key pt ind)). rewrite <- (app_nil_r (tag_events key pt)).
    apply tags_element; [exact H|reflexivity].
  - rewrite <- (app_nil_r (tag_events key pt)). rewrite nested_element. reflexivity.
Qed.

(* ------------------------------------------------------------------------------------------ *)
(* the trees ledger builds use proper element and attribute names                              *)

Lemma kids_okb_app a b : kids_okb (a ++ b) = kids_okb a && kids_okb b.
Proof. apply forallb_app. Qed.

Lemma kids_okb_map {A} (f : A -> ptree) k l :
  (forall a, names_okb k (f a) = true) -> kids_okb (map (fun a => (k, f a)) l) = true.
Proof.
  intros H. unfold kids_okb. induction l as [|a l IH]; [reflexivity|].
  cbn [map forallb fst snd]. rewrite H, IH. reflexivity.
Qed.

Lemma kids_okb_cons k t l : kids_okb ((k, t) :: l) = names_okb k t && kids_okb l.
Proof. reflexivity. Qed.

Ltac open_nodes := repeat (rewrite names_okb_eq || rewrite kids_okb_cons || rewrite kids_okb_app).

Lemma put_amount_kids_ok a : kids_okb (put_amount_kids a) = true.
Proof. unfold put_amount_kids. destruct (a_sym a); reflexivity. Qed.

Lemma put_metadata_ok m : names_okb k_metadata (put_metadata m) = true.
Proof.
  unfold put_metadata. rewrite names_okb_eq.
  assert (H : kids_okb (map (fun kv : str * option str =>
                               match snd kv with
                               | Some v => (k_value, Node [] [(k_key, fst kv)] [(k_string, leaf v)])
                               | None => (k_tag, leaf (fst kv))
                               end) m) = true).
  { unfold kids_okb. induction m as [|[k [v|]] m IH]; [reflexivity| |];
      cbn [map forallb fst snd]; rewrite IH; reflexivity. }
  rewrite H. reflexivity.
Qed.

Lemma metadata_kids_ok m : kids_okb (metadata_kids m) = true.
Proof.
  unfold metadata_kids. destruct m as [|e m]; [reflexivity|].
  rewrite kids_okb_cons, put_metadata_ok. reflexivity.
Qed.

Lemma put_post_ok x p : names_okb k_posting (put_post x p) = true.
Proof.
  unfold put_post, state_attr.
  destruct (eff_state x p =? 1); [|destruct (eff_state x p =? 2)];
    destruct (p_virtual p =? 0); destruct (p_cost p); destruct (p_note p);
    destruct (is_nil (payee_from_tag x p)); destruct (p_date p); destruct (p_aux p);
    cbn [app]; open_nodes; rewrite ?put_amount_kids_ok, ?metadata_kids_ok; reflexivity.
Qed.

Lemma put_xact_ok x : names_okb k_transaction (put_xact x) = true.
Proof.
  unfold put_xact, state_attr.
  destruct (x_state x =? 1); [|destruct (x_state x =? 2)];
    destruct (x_code x); destruct (x_note x); destruct (x_aux x);
    cbn [app]; open_nodes; rewrite ?metadata_kids_ok;
    rewrite (kids_okb_map (put_post x) k_posting (x_posts x) (put_post_ok x)); reflexivity.
Qed.

Lemma xml_transactions_structure xs :
  exists evs, xml_tags XsText (xml_transactions xs) = Some evs /\ well_nested [] evs = true.
Proof.
  eexists. apply xml_structure_lemma. rewrite names_okb_eq.
  rewrite (kids_okb_map put_xact k_transaction xs put_xact_ok). reflexivity.
Qed.

Lemma put_commodity_details_ok c : names_okb k_commodity (put_commodity_details c) = true.
Proof.
  destruct c as [[flags sym] an]. unfold put_commodity_details.
  destruct an as [[price date]|]; [|reflexivity].
  open_nodes. rewrite put_amount_kids_ok. reflexivity.
Qed.

Lemma xml_commodities_structure cs :
  exists evs, xml_tags XsText (xml_commodities cs) = Some evs /\ well_nested [] evs = true.
Proof.
  eexists. apply xml_structure_lemma. rewrite names_okb_eq.
  rewrite (kids_okb_map put_commodity_details k_commodity _ put_commodity_details_ok). reflexivity.
Qed.

Lemma atree_ind2 (P : atree -> Prop) :
  (forall n v ks, Forall P ks -> P (ANode n v ks)) -> forall t, P t.
Proof.
  intros H. fix IH 1. intros [n v ks]. apply H.
  induction ks as [|k r IHr]; constructor; [apply IH|exact IHr].
Qed.

Lemma put_account_ok : forall t prefix, names_okb k_account (put_account prefix t) = true.
Proof.
  induction t as [n v ks IHks] using atree_ind2. intros prefix.
  cbn [put_account]. destruct v; [|reflexivity].
  rewrite names_okb_eq, kids_okb_app.
  set (full := match prefix with [] => n | _ :: _ => prefix ++ [58] ++ n end).
  assert (Hk : kids_okb ((fix go (l : list atree) : list (str * ptree) :=
                            match l with
                            | [] => []
                            | c :: r => (k_account, put_account full c) :: go r
                            end) ks) = true).
  { clear - IHks. unfold kids_okb. induction ks as [|k ks IH]; [reflexivity|].
    inversion IHks as [|? ? Hk Hrest]; subst.
    cbn [forallb fst snd]. rewrite (Hk full). apply IH, Hrest. }
  rewrite Hk. reflexivity.
Qed.

Lemma xml_accounts_structure accts :
  exists evs, xml_tags XsText (xml_accounts accts) = Some evs /\ well_nested [] evs = true.
Proof.
  eexists. apply xml_structure_lemma. unfold xml_accounts.
  rewrite names_okb_eq. unfold kids_okb. cbn [forallb fst snd].
  destruct (existsb fst accts); [|reflexivity].
  rewrite names_okb_eq, kids_okb_app.
  rewrite (kids_okb_map (put_account []) k_account _ (fun t => put_account_ok t [])). reflexivity.
Qed.
