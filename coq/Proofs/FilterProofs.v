(* Proofs about Model/Filter.v: the set algebra of the posting filter. *)
From LedgerV Require Import Base.Prelude Model.Filter.
From Coq Require Import Permutation Sorted.
Local Open Scope Z_scope.

(* ---- truth of the results of ! & | (op.cc O_NOT / O_AND / O_OR) ---- *)
Lemma pred_not e p b : pred e p = Ok b -> pred (ENot e) p = Ok (negb b).
Proof.
  unfold pred. cbn [eval]. destruct (eval e p) as [v|]; cbn [bind]; [|discriminate].
  intros H. rewrite H. cbn [bind truth]. reflexivity.
Qed.

Lemma pred_not_inv e p b : pred (ENot e) p = Ok b -> pred e p = Ok (negb b).
Proof.
  unfold pred. cbn [eval]. destruct (eval e p) as [v|]; cbn [bind]; [|discriminate].
  destruct (truth v) as [c|]; cbn [bind truth]; [|discriminate].
  intros H. injection H as <-. rewrite negb_involutive. reflexivity.
Qed.

Lemma pred_and e f p a b :
  pred e p = Ok a -> pred f p = Ok b -> pred (EAnd e f) p = Ok (a && b).
Proof.
  unfold pred. cbn [eval]. destruct (eval e p) as [v|]; cbn [bind]; [|discriminate].
  intros H. rewrite H. cbn [bind]. destruct a; cbn [andb].
  - intros H2. exact H2.
  - intros _. reflexivity.
Qed.

(* the right operand is not evaluated when the left one is false: its errors do not matter *)
Lemma pred_and_false e f p : pred e p = Ok false -> pred (EAnd e f) p = Ok false.
Proof.
  unfold pred. cbn [eval]. destruct (eval e p) as [v|]; cbn [bind]; [|discriminate].
  intros H. rewrite H. reflexivity.
Qed.

Lemma pred_or e f p a b :
  pred e p = Ok a -> pred f p = Ok b -> pred (EOr e f) p = Ok (a || b).
Proof.
  unfold pred. cbn [eval]. destruct (eval e p) as [v|]; cbn [bind]; [|discriminate].
  intros H. rewrite H. cbn [bind]. destruct a; cbn [orb].
  - intros _. cbn [bind]. exact H.
  - intros H2. exact H2.
Qed.

Lemma pred_or_true e f p : pred e p = Ok true -> pred (EOr e f) p = Ok true.
Proof.
  unfold pred. cbn [eval]. destruct (eval e p) as [v|]; cbn [bind]; [|discriminate].
  intros H. rewrite H. cbn [bind]. exact H.
Qed.

(* the value an and/or yields is one of its operands' values or false (never a new value) *)
Lemma eval_and_value e f p v :
  eval (EAnd e f) p = Ok v -> v = VBool false \/ eval f p = Ok v.
Proof.
  cbn [eval]. destruct (eval e p) as [w|]; cbn [bind]; [|discriminate].
  destruct (truth w) as [[|]|]; cbn [bind]; try discriminate.
  - intros H. right. exact H.
  - intros H. injection H as <-. left. reflexivity.
Qed.

Lemma eval_or_value e f p v :
  eval (EOr e f) p = Ok v -> eval e p = Ok v \/ eval f p = Ok v.
Proof.
  cbn [eval]. destruct (eval e p) as [w|]; cbn [bind]; [|discriminate].
  destruct (truth w) as [[|]|]; cbn [bind]; try discriminate.
  - intros H. left. exact H.
  - intros H. right. exact H.
Qed.

(* ---- the filter is List.filter when no posting errors ---- *)
Definition total_on (e : expr) (l : list posting) : Prop :=
  forall p, In p l -> exists b, pred e p = Ok b.

Lemma predb_ok e p b : pred e p = Ok b -> predb e p = b.
Proof. unfold predb. intros ->. reflexivity. Qed.

Lemma filter_posts_spec e l :
  total_on e l -> filter_posts e l = Ok (filter (predb e) l).
Proof.
  induction l as [|p t IH]; intros Ht; cbn [filter_posts filter]; [reflexivity|].
  destruct (Ht p (or_introl eq_refl)) as [b Hb].
  rewrite Hb. cbn [bind]. rewrite IH.
  - cbn [bind]. rewrite (predb_ok _ _ _ Hb). reflexivity.
  - intros q Hq. apply Ht. right. exact Hq.
Qed.

Lemma filter_posts_ok_total e l r : filter_posts e l = Ok r -> total_on e l.
Proof.
  revert r. induction l as [|p t IH]; intros r H q Hq; [destruct Hq|].
  cbn [filter_posts] in H.
  destruct (pred e p) as [b|] eqn:Hb; cbn [bind] in H; [|discriminate].
  destruct (filter_posts e t) as [r'|] eqn:Hr; cbn [bind] in H; [|discriminate].
  destruct Hq as [<-|Hq]; [exists b; exact Hb|]. eapply IH; eauto.
Qed.

(* an error on any posting aborts the whole report *)
Lemma filter_posts_err e l p x :
  In p l -> pred e p = Err x -> exists y, filter_posts e l = Err y.
Proof.
  intros Hin He. destruct (filter_posts e l) as [r|y] eqn:H; [|eauto].
  destruct (filter_posts_ok_total _ _ _ H p Hin) as [b Hb]. congruence.
Qed.

(* ---- sub-sequences ---- *)
Inductive subseq {A} : list A -> list A -> Prop :=
| sub_nil : subseq [] []
| sub_skip x s l : subseq s l -> subseq s (x :: l)
| sub_keep x s l : subseq s l -> subseq (x :: s) (x :: l).

Lemma filter_subseq {A} (f : A -> bool) l : subseq (filter f l) l.
Proof.
  induction l as [|x l IH]; cbn [filter]; [constructor|].
  destruct (f x); constructor; exact IH.
Qed.

Lemma subseq_in {A} (s l : list A) x : subseq s l -> In x s -> In x l.
Proof.
  induction 1; intros Hin; [destruct Hin| right; auto |].
  destruct Hin as [<-|Hin]; [left; reflexivity | right; auto].
Qed.

(* merging two complementary filters restores the list: interleaving *)
Inductive merge {A} : list A -> list A -> list A -> Prop :=
| merge_nil : merge [] [] []
| merge_l x a b l : merge a b l -> merge (x :: a) b (x :: l)
| merge_r x a b l : merge a b l -> merge a (x :: b) (x :: l).

Lemma filter_merge {A} (f : A -> bool) l :
  merge (filter f l) (filter (fun x => negb (f x)) l) l.
Proof.
  induction l as [|x l IH]; cbn [filter]; [constructor|].
  destruct (f x); cbn [negb]; constructor; exact IH.
Qed.

Lemma merge_perm {A} (a b l : list A) : merge a b l -> Permutation (a ++ b) l.
Proof.
  induction 1; cbn [app].
  - constructor.
  - constructor. exact IHmerge.
  - eapply perm_trans; [apply Permutation_sym, Permutation_middle|]. constructor. exact IHmerge.
Qed.

Lemma merge_subseq_l {A} (a b l : list A) : merge a b l -> subseq a l.
Proof. induction 1; constructor; assumption. Qed.
Lemma merge_subseq_r {A} (a b l : list A) : merge a b l -> subseq b l.
Proof. induction 1; constructor; assumption. Qed.

Lemma filter_ext_in {A} (f g : A -> bool) l :
  (forall x, In x l -> f x = g x) -> filter f l = filter g l.
Proof.
  induction l as [|x l IH]; intros H; cbn [filter]; [reflexivity|].
  rewrite (H x (or_introl eq_refl)). rewrite IH; [reflexivity|].
  intros y Hy. apply H. right. exact Hy.
Qed.

Lemma total_not e l : total_on e l -> total_on (ENot e) l.
Proof. intros H p Hp. destruct (H p Hp) as [b Hb]. exists (negb b). apply pred_not. exact Hb. Qed.

Lemma predb_not e l p : total_on e l -> In p l -> predb (ENot e) p = negb (predb e p).
Proof.
  intros H Hp. destruct (H p Hp) as [b Hb].
  rewrite (predb_ok _ _ _ Hb), (predb_ok _ _ _ (pred_not _ _ _ Hb)). reflexivity.
Qed.

(* ---- limit_partition ---- *)
Lemma limit_partition_lemma e l :
  total_on e l ->
  exists yes no,
    filter_posts e l = Ok yes /\ filter_posts (ENot e) l = Ok no /\
    merge yes no l /\
    subseq yes l /\ subseq no l /\
    Permutation (yes ++ no) l /\
    (forall p, In p yes -> In p l /\ pred e p = Ok true) /\
    (forall p, In p no -> In p l /\ pred e p = Ok false) /\
    (forall p, In p yes -> In p no -> pred e p = Ok true /\ pred e p = Ok false).
Proof.
  intros Ht.
  exists (filter (predb e) l), (filter (predb (ENot e)) l).
  assert (Hno : filter (predb (ENot e)) l = filter (fun x => negb (predb e x)) l).
  { apply filter_ext_in. intros x Hx. apply (predb_not e l x Ht Hx). }
  split; [apply filter_posts_spec; exact Ht|].
  split; [apply filter_posts_spec; apply total_not; exact Ht|].
  rewrite Hno.
  pose proof (filter_merge (predb e) l) as Hm.
  split; [exact Hm|].
  split; [eapply merge_subseq_l; exact Hm|].
  split; [eapply merge_subseq_r; exact Hm|].
  split; [apply merge_perm; exact Hm|].
  assert (Hy : forall p, In p (filter (predb e) l) -> In p l /\ pred e p = Ok true).
  { intros p Hp. apply filter_In in Hp as [Hin Hb]. split; [exact Hin|].
    destruct (Ht p Hin) as [b Hpb]. rewrite (predb_ok _ _ _ Hpb) in Hb. subst b. exact Hpb. }
  assert (Hn : forall p, In p (filter (fun x => negb (predb e x)) l) -> In p l /\ pred e p = Ok false).
  { intros p Hp. apply filter_In in Hp as [Hin Hb]. split; [exact Hin|].
    destruct (Ht p Hin) as [b Hpb]. rewrite (predb_ok _ _ _ Hpb) in Hb.
    destruct b; [discriminate|]. exact Hpb. }
  split; [exact Hy|]. split; [exact Hn|].
  intros p H1 H2. split; [apply Hy; exact H1 | apply Hn; exact H2].
Qed.

(* no posting is in both halves when postings are distinguishable (distinct ids) *)
Lemma limit_disjoint e l p :
  total_on e l -> In p (filter (predb e) l) -> In p (filter (predb (ENot e)) l) -> False.
Proof.
  intros Ht H1 H2. apply filter_In in H1 as [Hin H1]. apply filter_In in H2 as [_ H2].
  rewrite (predb_not e l p Ht Hin) in H2. rewrite H1 in H2. discriminate.
Qed.

(* ---- limit_and / limit_or ---- *)
Lemma total_and e f l : total_on e l -> total_on f l -> total_on (EAnd e f) l.
Proof.
  intros H1 H2 p Hp. destruct (H1 p Hp) as [a Ha]. destruct (H2 p Hp) as [b Hb].
  exists (a && b). apply pred_and; assumption.
Qed.

Lemma total_or e f l : total_on e l -> total_on f l -> total_on (EOr e f) l.
Proof.
  intros H1 H2 p Hp. destruct (H1 p Hp) as [a Ha]. destruct (H2 p Hp) as [b Hb].
  exists (a || b). apply pred_or; assumption.
Qed.

Lemma filter_filter {A} (f g : A -> bool) l :
  filter f (filter g l) = filter (fun x => g x && f x) l.
Proof.
  induction l as [|x l IH]; cbn [filter]; [reflexivity|].
  destruct (g x); cbn [filter andb]; [destruct (f x)|]; rewrite IH; reflexivity.
Qed.

Lemma limit_and_lemma e f l :
  total_on e l -> total_on f l ->
  exists r rf, filter_posts (EAnd e f) l = Ok r /\ filter_posts f l = Ok rf /\
            filter_posts e rf = Ok r /\
            (forall p, In p r <-> In p l /\ pred e p = Ok true /\ pred f p = Ok true).
Proof.
  intros He Hf.
  exists (filter (predb (EAnd e f)) l), (filter (predb f) l).
  split; [apply filter_posts_spec, total_and; assumption|].
  split; [apply filter_posts_spec; assumption|].
  assert (Hx : forall x, In x l -> predb (EAnd e f) x = predb f x && predb e x).
  { intros x Hx. destruct (He x Hx) as [a Ha]. destruct (Hf x Hx) as [b Hb].
    rewrite (predb_ok _ _ _ (pred_and _ _ _ _ _ Ha Hb)), (predb_ok _ _ _ Ha), (predb_ok _ _ _ Hb).
    apply andb_comm. }
  split.
  - rewrite filter_posts_spec.
    + rewrite filter_filter. f_equal. symmetry. apply filter_ext_in. exact Hx.
    + intros p Hp. apply filter_In in Hp as [Hp _]. apply He. exact Hp.
  - intros p. rewrite filter_In. split.
    + intros [Hin Hb]. rewrite (Hx p Hin) in Hb. apply andb_true_iff in Hb as [Hb1 Hb2].
      destruct (He p Hin) as [a Ha]. destruct (Hf p Hin) as [b Hb'].
      rewrite (predb_ok _ _ _ Ha) in Hb2. rewrite (predb_ok _ _ _ Hb') in Hb1. subst. auto.
    + intros (Hin & Ha & Hb). split; [exact Hin|].
      rewrite (Hx p Hin), (predb_ok _ _ _ Ha), (predb_ok _ _ _ Hb). reflexivity.
Qed.

Lemma limit_or_lemma e f l :
  total_on e l -> total_on f l ->
  exists r, filter_posts (EOr e f) l = Ok r /\ subseq r l /\
            (forall p, In p r <-> In p l /\ (pred e p = Ok true \/ pred f p = Ok true)).
Proof.
  intros He Hf.
  exists (filter (predb (EOr e f)) l).
  split; [apply filter_posts_spec, total_or; assumption|].
  split; [apply filter_subseq|].
  intros p. rewrite filter_In. split.
  - intros [Hin Hb]. split; [exact Hin|].
    destruct (He p Hin) as [a Ha]. destruct (Hf p Hin) as [b Hb'].
    rewrite (predb_ok _ _ _ (pred_or _ _ _ _ _ Ha Hb')) in Hb.
    apply orb_true_iff in Hb as [->| ->]; auto.
  - intros (Hin & H). split; [exact Hin|].
    destruct (He p Hin) as [a Ha]. destruct (Hf p Hin) as [b Hb'].
    rewrite (predb_ok _ _ _ (pred_or _ _ _ _ _ Ha Hb')).
    destruct H as [H|H]; [rewrite H in Ha | rewrite H in Hb']; [injection Ha as <- | injection Hb' as <-];
      [reflexivity | apply orb_true_r].
Qed.

(* several --limit options (and a query) compose: (..(e1 & e2) & ..) & en selects what every ei selects *)
Lemma total_and_all acc es l :
  total_on acc l -> Forall (fun e => total_on e l) es -> total_on (and_all acc es) l.
Proof.
  revert acc. induction es as [|e es IH]; intros acc Ha Hes; cbn [and_all]; [exact Ha|].
  inversion Hes; subst. apply IH; [apply total_and; assumption | assumption].
Qed.

Lemma pred_and_all acc es l p :
  total_on acc l -> Forall (fun e => total_on e l) es -> In p l ->
  (pred (and_all acc es) p = Ok true <-> pred acc p = Ok true /\ Forall (fun e => pred e p = Ok true) es).
Proof.
  revert acc. induction es as [|e es IH]; intros acc Ha Hes Hp; cbn [and_all].
  - split; [intros H; split; [exact H | constructor] | intros [H _]; exact H].
  - inversion Hes; subst. rewrite IH; [| apply total_and; assumption | assumption | assumption].
    destruct (Ha p Hp) as [a Hpa]. destruct (H1 p Hp) as [b Hpb].
    rewrite (pred_and _ _ _ _ _ Hpa Hpb). split.
    + intros [Hab Hf]. injection Hab as Hab. apply andb_true_iff in Hab as [-> ->].
      split; [exact Hpa | constructor; assumption].
    + intros [H Hf]. inversion Hf; subst. rewrite H in Hpa. injection Hpa as <-.
      rewrite H4 in Hpb. injection Hpb as <-. split; [reflexivity | assumption].
Qed.

Lemma report_posts_lemma e es l :
  Forall (fun x => total_on x l) (e :: es) ->
  exists r, report_posts (e :: es) l = Ok r /\ subseq r l /\
            (forall p, In p r <-> In p l /\ Forall (fun x => pred x p = Ok true) (e :: es)).
Proof.
  intros H. inversion H; subst.
  unfold report_posts. cbn [combine_limits].
  pose proof (total_and_all e es l H2 H3) as Ht.
  exists (filter (predb (and_all e es)) l).
  split; [apply filter_posts_spec; exact Ht|].
  split; [apply filter_subseq|].
  intros p. rewrite filter_In. split.
  - intros [Hin Hb]. split; [exact Hin|].
    destruct (Ht p Hin) as [b Hpb]. rewrite (predb_ok _ _ _ Hpb) in Hb. subst b.
    apply (pred_and_all e es l p H2 H3 Hin) in Hpb as [Ha Hf]. constructor; assumption.
  - intros [Hin Hf]. split; [exact Hin|]. inversion Hf; subst.
    apply predb_ok. apply (pred_and_all e es l p H2 H3 Hin). split; assumption.
Qed.

Lemma report_posts_nolimit l : report_posts [] l = Ok l.
Proof. reflexivity. Qed.

(* ---- --begin / --end ---- *)
Lemma pred_begin txt d p : pred (begin_pred txt d) p = Ok (d <=? post_date p).
Proof.
  unfold pred, begin_pred. cbn [eval eval_ident bind value_cmp value_lt truth].
  rewrite Z.leb_antisym. reflexivity.
Qed.

Lemma pred_end txt d p : pred (end_pred txt d) p = Ok (post_date p <? d).
Proof. reflexivity. Qed.

Lemma total_begin txt d l : total_on (begin_pred txt d) l.
Proof. intros p _. eexists. apply pred_begin. Qed.
Lemma total_end txt d l : total_on (end_pred txt d) l.
Proof. intros p _. eexists. apply pred_end. Qed.

Lemma begin_end_split_lemma tb te d l :
  exists from before,
    filter_posts (begin_pred tb d) l = Ok from /\ filter_posts (end_pred te d) l = Ok before /\
    from = filter (fun p => d <=? post_date p) l /\
    before = filter (fun p => post_date p <? d) l /\
    merge from before l /\
    (forall p, In p from -> In p before -> False).
Proof.
  exists (filter (fun p => d <=? post_date p) l), (filter (fun p => post_date p <? d) l).
  assert (E1 : filter (predb (begin_pred tb d)) l = filter (fun p => d <=? post_date p) l).
  { apply filter_ext_in. intros x _. apply predb_ok, pred_begin. }
  assert (E2 : filter (predb (end_pred te d)) l = filter (fun p => post_date p <? d) l).
  { apply filter_ext_in. intros x _. apply predb_ok, pred_end. }
  split; [rewrite filter_posts_spec by apply total_begin; rewrite E1; reflexivity|].
  split; [rewrite filter_posts_spec by apply total_end; rewrite E2; reflexivity|].
  split; [reflexivity|]. split; [reflexivity|].
  split.
  - assert (E3 : filter (fun p => post_date p <? d) l = filter (fun p => negb (d <=? post_date p)) l).
    { apply filter_ext_in. intros x _. rewrite Z.leb_antisym, negb_involutive. reflexivity. }
    rewrite E3. apply filter_merge.
  - intros p H1 H2. apply filter_In in H1 as [_ H1]. apply filter_In in H2 as [_ H2].
    apply Z.leb_le in H1. apply Z.ltb_lt in H2. lia.
Qed.

Lemma begin_end_range_lemma tb te b e l :
  exists r, report_posts [begin_pred tb b; end_pred te e] l = Ok r /\
            r = filter (fun p => (b <=? post_date p) && (post_date p <? e)) l.
Proof.
  unfold report_posts. cbn [combine_limits and_all].
  eexists. split.
  - apply filter_posts_spec. apply total_and; [apply total_begin | apply total_end].
  - apply filter_ext_in. intros x _. apply predb_ok.
    apply pred_and; [apply pred_begin | apply pred_end].
Qed.

(* ================= sequences of limit contributions ================= *)

Lemma fold_limit_on a t : fold_left limit_on t (Some a) = Some (and_all a t).
Proof. revert a. induction t as [|e t IH]; intros a; cbn [fold_left and_all limit_on]; [reflexivity | apply IH]. Qed.

(* the handler's accumulation is the left-nested conjunction *)
Lemma limit_acc_combine l : limit_acc l = combine_limits l.
Proof. destruct l as [|e t]; [reflexivity|]. unfold limit_acc. cbn [fold_left limit_on combine_limits]. apply fold_limit_on. Qed.

Lemma report_with_posts now opts period query l :
  report_with now opts period query l = report_posts (all_limits now opts period query) l.
Proof. unfold report_with, report_posts. rewrite limit_acc_combine. reflexivity. Qed.

Definition sel_all (es : list expr) (p : posting) : bool := forallb (fun e => predb e p) es.

Lemma predb_and_all acc es l p :
  total_on acc l -> Forall (fun e => total_on e l) es -> In p l ->
  predb (and_all acc es) p = predb acc p && sel_all es p.
Proof.
  revert acc. induction es as [|e es IH]; intros acc Ha Hes Hp; cbn [and_all sel_all forallb].
  - rewrite andb_true_r. reflexivity.
  - inversion Hes; subst. rewrite IH; [| apply total_and; assumption | assumption | assumption].
    destruct (Ha p Hp) as [a Hpa]. destruct (H1 p Hp) as [b Hpb].
    rewrite (predb_ok _ _ _ (pred_and _ _ _ _ _ Hpa Hpb)), (predb_ok _ _ _ Hpa), (predb_ok _ _ _ Hpb).
    unfold sel_all. rewrite andb_assoc. reflexivity.
Qed.

Lemma filter_true {A} (l : list A) : filter (fun _ => true) l = l.
Proof. induction l as [|x l IH]; cbn [filter]; [reflexivity | rewrite IH; reflexivity]. Qed.

(* whatever the contributions, the report is the unfiltered list filtered by "every condition holds" *)
Lemma report_posts_sel es l :
  Forall (fun e => total_on e l) es -> report_posts es l = Ok (filter (sel_all es) l).
Proof.
  intros H. destruct es as [|e es].
  - unfold report_posts, sel_all. cbn [combine_limits forallb]. rewrite filter_true. reflexivity.
  - inversion H; subst. unfold report_posts. cbn [combine_limits].
    rewrite filter_posts_spec by (apply total_and_all; assumption).
    f_equal. apply filter_ext_in. intros p Hp.
    rewrite (predb_and_all e es l p H2 H3 Hp). reflexivity.
Qed.

Lemma sel_all_same_set es es' p :
  (forall e, In e es <-> In e es') -> sel_all es p = sel_all es' p.
Proof.
  intros H. unfold sel_all.
  destruct (forallb (fun e => predb e p) es) eqn:E1; destruct (forallb (fun e => predb e p) es') eqn:E2;
    try reflexivity.
  - rewrite forallb_forall in E1. assert (forallb (fun e => predb e p) es' = true).
    { apply forallb_forall. intros x Hx. apply E1, H, Hx. } congruence.
  - rewrite forallb_forall in E2. assert (forallb (fun e => predb e p) es = true).
    { apply forallb_forall. intros x Hx. apply E2, H, Hx. } congruence.
Qed.

(* only the SET of conditions matters: order and multiplicity of the contributions do not *)
Lemma limits_same_set es es' l :
  (forall e, In e es <-> In e es') ->
  Forall (fun e => total_on e l) es -> Forall (fun e => total_on e l) es' ->
  report_posts es l = report_posts es' l.
Proof.
  intros H T T'. rewrite !report_posts_sel by assumption. f_equal.
  apply filter_ext_in. intros p _. apply sel_all_same_set. exact H.
Qed.

Lemma limits_permutation es es' l :
  Permutation es es' -> Forall (fun e => total_on e l) es ->
  report_posts es l = report_posts es' l.
Proof.
  intros P T. apply limits_same_set; [| exact T |].
  - intros e. split; [apply Permutation_in; exact P | apply Permutation_in, Permutation_sym; exact P].
  - rewrite Forall_forall in *. intros e He. apply T. eapply Permutation_in; [apply Permutation_sym; exact P | exact He].
Qed.

(* giving a condition again, anywhere, changes nothing *)
Lemma limits_repeat es1 es2 e l :
  In e (es1 ++ es2) -> Forall (fun x => total_on x l) (es1 ++ es2) ->
  report_posts (es1 ++ e :: es2) l = report_posts (es1 ++ es2) l.
Proof.
  intros Hin T. apply limits_same_set; [| | exact T].
  - intros x. rewrite !in_app_iff. cbn [In]. rewrite in_app_iff in Hin. split; [|tauto].
    intros [H|[<-|H]]; tauto.
  - rewrite Forall_forall in *. intros x Hx. apply T.
    rewrite in_app_iff in *. cbn [In] in Hx. destruct Hx as [H|[<-|H]]; tauto.
Qed.

(* the selected postings are the intersection of what each contribution selects alone *)
Lemma limits_intersection es l :
  Forall (fun e => total_on e l) es ->
  exists r, report_posts es l = Ok r /\ subseq r l /\
    forall p, In p r <-> In p l /\
      forall e, In e es -> exists re, report_posts [e] l = Ok re /\ In p re.
Proof.
  intros T. exists (filter (sel_all es) l).
  split; [apply report_posts_sel; exact T|]. split; [apply filter_subseq|].
  intros p. rewrite filter_In. unfold sel_all. rewrite forallb_forall.
  rewrite Forall_forall in T.
  split.
  - intros [Hin Hall]. split; [exact Hin|]. intros e He.
    exists (filter (predb e) l). split.
    + unfold report_posts. cbn [combine_limits and_all]. apply filter_posts_spec. apply T. exact He.
    + apply filter_In. split; [exact Hin | apply Hall; exact He].
  - intros [Hin Hall]. split; [exact Hin|]. intros e He.
    destruct (Hall e He) as (re & Hre & Hp).
    unfold report_posts in Hre. cbn [combine_limits and_all] in Hre.
    rewrite filter_posts_spec in Hre by (apply T; exact He). injection Hre as <-.
    apply filter_In in Hp. apply Hp.
Qed.

(* the fixed conditions of -C -U --pending -R -L -c, -b, -e never fail *)
Lemma contrib_total today k l :
  match k with KLimit e => total_on e l | _ => True end -> total_on (contrib_expr today k) l.
Proof.
  destruct k; cbn [contrib_expr]; intros H; try exact H; try apply total_begin; try apply total_end;
    intros p _; unfold pred; cbn [eval eval_ident bind truth value_cmp value_lt];
    try (eexists; reflexivity).
  destruct (p_state p); cbn; eexists; reflexivity.
Qed.

Lemma existsb_same_set {A} (f : A -> bool) l l' :
  (forall x, In x l <-> In x l') -> existsb f l = existsb f l'.
Proof.
  intros H. destruct (existsb f l) eqn:E1; destruct (existsb f l') eqn:E2; try reflexivity.
  - apply existsb_exists in E1 as (x & Hx & Hf).
    assert (existsb f l' = true) by (apply existsb_exists; exists x; split; [apply H; exact Hx | exact Hf]). congruence.
  - apply existsb_exists in E2 as (x & Hx & Hf).
    assert (existsb f l = true) by (apply existsb_exists; exists x; split; [apply H; exact Hx | exact Hf]). congruence.
Qed.

(* today is --now's date unless an -e was given, and then it is the date of one of them *)
Lemma today_cases opts : forall t0,
  (fold_left (fun t k => match k with KEnd _ d => d | _ => t end) opts t0 = t0 /\
   forall tx d, ~ In (KEnd tx d) opts) \/
  (exists tx, In (KEnd tx (fold_left (fun t k => match k with KEnd _ d => d | _ => t end) opts t0)) opts).
Proof.
  induction opts as [|k opts IH]; intros t0; cbn [fold_left].
  - left. split; [reflexivity | intros tx d []].
  - destruct (IH (match k with KEnd _ d => d | _ => t0 end)) as [[E N]|[tx Hin]].
    + destruct k; try (left; split; [exact E | intros tx0 d0 [Hk|Hk]; [discriminate | exact (N tx0 d0 Hk)]]).
      right. exists txt. left. rewrite E. reflexivity.
    + right. exists tx. right. exact Hin.
Qed.

Lemma pred_current txt t p : pred (ECmp CLe (EIdent IDate) (EConst txt (VDate t))) p = Ok (post_date p <=? t).
Proof.
  unfold pred. cbn [eval eval_ident bind value_cmp value_lt truth].
  rewrite Z.leb_antisym. reflexivity.
Qed.

(* with the same options given, each condition of one sequence is implied by the other's *)
Lemma all_limits_implied now opts opts' period query p :
  (forall k, In k opts <-> In k opts') ->
  (forall e, In e (all_limits now opts period query) -> predb e p = true) ->
  forall e, In e (all_limits now opts' period query) -> predb e p = true.
Proof.
  intros H A e He. unfold all_limits, period_limits in *.
  rewrite (existsb_same_set is_begin opts opts' H), (existsb_same_set is_end opts opts' H) in A.
  rewrite in_app_iff in He. destruct He as [He|He].
  2:{ apply A. rewrite in_app_iff. right. exact He. }
  apply in_map_iff in He as (k & <- & Hk).
  assert (Hk' : In k opts) by (apply H; exact Hk).
  assert (Same : forall t, match k with KCurrent _ => False | _ => True end ->
                           contrib_expr t k = contrib_expr (today_of now opts) k).
  { intros t Hn. destruct k; try reflexivity. contradiction. }
  destruct k as [e0|tb d|te d| | | | | |txt];
    try (rewrite (Same _ I); apply A; rewrite in_app_iff; left; apply in_map; exact Hk').
  (* -c: date<=today, today being one sequence's terminus *)
  cbn [contrib_expr]. rewrite (predb_ok _ _ _ (pred_current txt _ p)).
  unfold today_of. destruct (today_cases opts' now) as [[E N]|[tx Hin]].
  - (* no -e at all: today is --now's date on both sides *)
    rewrite E.
    assert (E' : today_of now opts = now).
    { unfold today_of. destruct (today_cases opts now) as [[E' _]|[tx Hin]]; [exact E'|].
      exfalso. apply H in Hin. exact (N _ _ Hin). }
    assert (Hc : predb (contrib_expr (today_of now opts) (KCurrent txt)) p = true).
    { apply A. rewrite in_app_iff. left. apply in_map. exact Hk'. }
    cbn [contrib_expr] in Hc. rewrite (predb_ok _ _ _ (pred_current txt _ p)), E' in Hc. exact Hc.
  - (* today is the date of an -e that the other sequence has as well: date < it *)
    apply H in Hin.
    assert (Hc : predb (contrib_expr (today_of now opts) (KEnd tx (fold_left (fun t k => match k with KEnd _ d => d | _ => t end) opts' now))) p = true).
    { apply A. rewrite in_app_iff. left. apply in_map. exact Hin. }
    cbn [contrib_expr] in Hc. rewrite (predb_ok _ _ _ (pred_end tx _ p)) in Hc.
    apply Z.ltb_lt in Hc. apply Z.leb_le. lia.
Qed.

Lemma all_limits_total now opts opts' period query l :
  (forall k, In k opts <-> In k opts') ->
  Forall (fun e => total_on e l) (all_limits now opts period query) ->
  Forall (fun e => total_on e l) (all_limits now opts' period query).
Proof.
  intros H T. rewrite Forall_forall in *. intros e He.
  unfold all_limits, period_limits in *.
  rewrite (existsb_same_set is_begin opts opts' H), (existsb_same_set is_end opts opts' H) in T.
  rewrite in_app_iff in He. destruct He as [He|He].
  2:{ apply T. rewrite in_app_iff. right. exact He. }
  apply in_map_iff in He as (k & <- & Hk).
  apply contrib_total. destruct k; try exact I.
  apply (T (contrib_expr (today_of now opts) (KLimit e))). rewrite in_app_iff. left. apply in_map, H, Hk.
Qed.

(* option sequences: the report depends on WHICH options were given, not on their order or
   how often each was repeated *)
Lemma option_sequence_lemma now opts opts' period query l :
  (forall k, In k opts <-> In k opts') ->
  Forall (fun e => total_on e l) (all_limits now opts period query) ->
  report_with now opts period query l = report_with now opts' period query l.
Proof.
  intros H T. rewrite !report_with_posts.
  pose proof (all_limits_total now opts opts' period query l H T) as T'.
  rewrite !report_posts_sel by assumption. f_equal.
  apply filter_ext_in. intros p _. unfold sel_all.
  assert (H' : forall k, In k opts' <-> In k opts) by (intros k; symmetry; apply H).
  destruct (forallb (fun e => predb e p) (all_limits now opts period query)) eqn:E1;
    destruct (forallb (fun e => predb e p) (all_limits now opts' period query)) eqn:E2; try reflexivity.
  - rewrite forallb_forall in E1.
    assert (forallb (fun e => predb e p) (all_limits now opts' period query) = true).
    { apply forallb_forall. apply (all_limits_implied now opts opts' period query p H E1). } congruence.
  - rewrite forallb_forall in E2.
    assert (forallb (fun e => predb e p) (all_limits now opts period query) = true).
    { apply forallb_forall. apply (all_limits_implied now opts' opts period query p H' E2). } congruence.
Qed.

(* ---- has_tag with a value pattern (item.cc:58-73; `%word=value`, `tag word=value`).
   The documented meaning (doc/ledger3.texi "tag word=value: any metadata tag containing 'word'
   whose value contains 'value'") is tag_pair_matches; the scan decides exactly that (since the
   repair 27e3f7d of finding F207). ---- *)
Definition tag_pair_matches (tp vm : str) (tags : tagmap) : Prop :=
  exists k v, In (k, Some v) tags /\ contains_ci tp k = true /\ contains_ci vm v = true.

Lemma tag_scan_value_sound tp vm tags :
  tag_scan tp (Some vm) tags = true -> tag_pair_matches tp vm tags.
Proof.
  induction tags as [|[k v] t IH]; cbn [tag_scan]; [discriminate|].
  assert (R : tag_scan tp (Some vm) t = true -> tag_pair_matches tp vm ((k, v) :: t)).
  { intros H. destruct (IH H) as (k' & v' & I & A & B). exists k', v'. split; [right; exact I|auto]. }
  destruct (contains_ci tp k) eqn:E; [|exact R].
  destruct v as [vs|]; [|exact R].
  destruct (contains_ci vm vs) eqn:E2; [|exact R].
  intros _. exists k, vs. split; [left; reflexivity|auto].
Qed.

Lemma tag_scan_value_complete tp vm tags :
  tag_pair_matches tp vm tags -> tag_scan tp (Some vm) tags = true.
Proof.
  induction tags as [|[k v] t IH]; intros (k0 & v0 & I & A & B); [destruct I|].
  cbn [tag_scan]. destruct I as [X|I].
  - inversion X; subst. rewrite A, B. reflexivity.
  - assert (R : tag_scan tp (Some vm) t = true) by (apply IH; exists k0, v0; auto).
    destruct (contains_ci tp k); [|exact R].
    destruct v as [vs|]; [|exact R].
    destruct (contains_ci vm vs); [reflexivity|exact R].
Qed.

Lemma has_tag_value_sound_lemma tp vm p :
  has_tag tp (Some vm) p = true -> tag_pair_matches tp vm (p_tags p ++ p_xtags p).
Proof.
  unfold has_tag. intros H. apply orb_true_iff in H.
  destruct H as [H|H]; apply tag_scan_value_sound in H; destruct H as (k & v & I & A & B);
    exists k, v; (split; [apply in_or_app; auto|auto]).
Qed.

Lemma has_tag_value_complete_lemma tp vm p :
  tag_pair_matches tp vm (p_tags p ++ p_xtags p) -> has_tag tp (Some vm) p = true.
Proof.
  intros (k & v & I & A & B). unfold has_tag. apply orb_true_iff.
  apply in_app_or in I. destruct I as [I|I]; [left|right];
    (apply tag_scan_value_complete; exists k, v; auto).
Qed.
