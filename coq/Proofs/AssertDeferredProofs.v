(* Proofs about the parts of Model/Assert.v added for: deferred postings `<Account>` (run_journal_d), the bare `= 0`
   clause (no commodity: every commodity of the account is meant), and the cost of a posting (plays no part). *)
From LedgerV Require Import Base.Prelude Base.Round Model.Amount Model.Xact Model.Assert
  Proofs.AmountProofs Proofs.XactProofs Proofs.AssertProofs.
From Coq Require Import Qabs Permutation Lqa Setoid.
Local Open Scope Q_scope.
Local Opaque Qred.

(* ---- deferred postings ---- *)
Lemma split_deferred_none : forall ps fl,
  forallb negb fl = true -> split_deferred fl ps = (ps, []).
Proof.
  induction ps as [|p ps IH]; intros fl Hf; cbn [split_deferred]; [reflexivity|].
  destruct fl as [|f fl]; cbn [tl hd].
  - rewrite (IH [] eq_refl). reflexivity.
  - cbn [forallb] in Hf. apply andb_true_iff in Hf. destruct Hf as [Hf1 Hf2].
    rewrite (IH fl Hf2). destruct f; [discriminate|reflexivity].
Qed.

Lemma forallb_negb_nth fl i : forallb negb fl = true -> nth i fl false = false.
Proof.
  revert i. induction fl as [|f fl IH]; intros i Hf; destruct i; cbn [nth]; try reflexivity.
  - cbn [forallb] in Hf. apply andb_true_iff in Hf. destruct f; [destruct Hf; discriminate|reflexivity].
  - cbn [forallb] in Hf. apply andb_true_iff in Hf. apply IH. apply Hf.
Qed.

Lemma flags_after_none fl written n :
  forallb negb fl = true -> forallb negb (flags_after fl written n) = true.
Proof.
  intros Hf. unfold flags_after. rewrite forallb_app, Hf. cbn [andb].
  assert (E : (match null_index written 0 with Some i => nth i fl false | None => false end) = false).
  { destruct (null_index written 0); [apply forallb_negb_nth; exact Hf|reflexivity]. }
  rewrite E. induction (n - length fl)%nat as [|k IH]; cbn [repeat forallb]; [reflexivity|exact IH].
Qed.

Definition plain_item (x : list wpost) : jitem := JXact (map (fun w => mkD w false) x).

Lemma map_plain_w x : map d_w (map (fun w => mkD w false) x) = x.
Proof. rewrite map_map. cbn [d_w]. apply map_id. Qed.

Lemma map_plain_flags x : forallb negb (map d_deferred (map (fun w => mkD w false) x)) = true.
Proof. induction x as [|w x IH]; cbn [map forallb d_deferred negb andb]; [reflexivity|exact IH]. Qed.

(* a journal without `<Account>` postings, read as one file: the journal loop of before *)
Lemma run_journal_d_plain ext ord permissive : forall xs pl hist held,
  run_journal_d ext ord permissive pl hist held (map plain_item xs) = run_journal_x ext ord permissive pl hist xs.
Proof.
  induction xs as [|x xs IH]; intros pl hist held; cbn [map plain_item run_journal_d run_journal_x]; [reflexivity|].
  fold (plain_item). rewrite map_plain_w.
  destruct (resolve_posts ord permissive pl hist [] x) as [r pl'].
  destruct r as [ps|e]; [|f_equal; apply IH].
  destruct (finalize ord (cp_of pl') None ps) as [[ps'|]|e]; [|f_equal; apply IH|f_equal; apply IH].
  rewrite (split_deferred_none ps' _ (flags_after_none _ ps (length ps') (map_plain_flags x))).
  cbn zeta. rewrite posts_to_history_app. f_equal.
  change (posts_to_history []) with (@nil apost). rewrite app_nil_r, <- posts_to_history_app. apply IH.
Qed.

Fixpoint no_eof (xs : list jitem) : bool :=
  match xs with
  | [] => true
  | JEndOfFile :: _ => false
  | JXact _ :: xs' => no_eof xs'
  end.

(* what the accounts hold back plays no part before the end of the file: every outcome - every assertion verdict and
   every assigned amount - of the transactions up to there is what it would be without those postings *)
Lemma held_plays_no_part ext ord permissive : forall xs pl hist held,
  no_eof xs = true ->
  run_journal_d ext ord permissive pl hist held xs = run_journal_d ext ord permissive pl hist [] xs.
Proof.
  induction xs as [|it xs IH]; intros pl hist held Hn; [reflexivity|].
  destruct it as [x|]; [|discriminate]. cbn [no_eof] in Hn. cbn [run_journal_d].
  destruct (resolve_posts ord permissive pl hist [] (map d_w x)) as [r pl'].
  destruct r as [ps|e]; [|f_equal; apply IH; exact Hn].
  destruct (finalize ord (cp_of pl') None ps) as [[ps'|]|e]; [|f_equal; apply IH; exact Hn|f_equal; apply IH; exact Hn].
  destruct (split_deferred _ ps') as [now later]. f_equal.
  rewrite (IH _ _ (held ++ posts_to_history later) Hn), (IH _ _ ([] ++ posts_to_history later) Hn). reflexivity.
Qed.

(* at the end of the file they reach their accounts, behind everything that is there already *)
Lemma end_of_file_releases ext ord permissive xs pl hist held :
  run_journal_d ext ord permissive pl hist held (JEndOfFile :: xs) =
  run_journal_d ext ord permissive pl (hist ++ held) [] xs.
Proof. reflexivity. Qed.

(* nothing is lost or counted twice: the postings of an accepted transaction are split between the accounts and what
   they hold back, so once the file has ended every account has received exactly what it would have without `<..>` *)
Lemma split_deferred_running acct ro c : forall ps fl now later,
  split_deferred fl ps = (now, later) ->
  running (posts_to_history now) acct ro c + running (posts_to_history later) acct ro c ==
  running (posts_to_history ps) acct ro c.
Proof.
  induction ps as [|p ps IH]; intros fl now later; cbn [split_deferred].
  - intros [= <- <-]. cbn. ring.
  - destruct (split_deferred (tl fl) ps) as [a b] eqn:E. specialize (IH _ _ _ E).
    assert (Hc : forall qs, running (posts_to_history (p :: qs)) acct ro c ==
                            running (posts_to_history [p]) acct ro c + running (posts_to_history qs) acct ro c).
    { intros qs. change (p :: qs) with ([p] ++ qs). rewrite posts_to_history_app, running_app. reflexivity. }
    destruct (hd false fl); intros [= <- <-]; rewrite (Hc ps); [rewrite (Hc b)|rewrite (Hc a)]; rewrite <- IH; ring.
Qed.

(* ---- the cost of a posting plays no part in a `= AMOUNT` clause: the quantity counted is the amount ---- *)
Definition with_cost (f : post -> option amount * bool) (p : post) : post :=
  mkPost (p_acct p) (p_kind p) (p_amt p) (fst (f p)) (p_lotprice p) (p_calculated p) (p_generated p) (snd (f p)).

Lemma sub_earlier_costs ord f acct virt : forall earlier diff,
  sub_earlier ord (map (with_cost f) earlier) acct virt diff = sub_earlier ord earlier acct virt diff.
Proof.
  induction earlier as [|p rest IH]; intros diff; cbn [map sub_earlier]; [reflexivity|].
  change (p_acct (with_cost f p)) with (p_acct p). change (p_amt (with_cost f p)) with (p_amt p).
  change (is_virtual (with_cost f p)) with (is_virtual p).
  destruct (str_eqb (p_acct p) acct && (virt || negb (is_virtual p))); [|apply IH].
  destruct (p_amt p) as [a|]; [|reflexivity].
  destruct (bal_sub_amt ord diff (strip a)); cbn [bind]; [apply IH|reflexivity].
Qed.

Lemma resolve_assigned_costs ord cp permissive hist earlier w f g :
  resolve_assigned ord cp permissive hist (map (with_cost f) earlier) (mkW (with_cost g (w_post w)) (w_assigned w)) =
  match resolve_assigned ord cp permissive hist earlier w with
  | Ok p => Ok (mkPost (p_acct p) (p_kind p) (p_amt p) (fst (g (w_post w))) (p_lotprice p) (p_calculated p)
                       (p_generated p) (snd (g (w_post w))))
  | Err e => Err e
  end.
Proof.
  unfold resolve_assigned. cbn [w_post w_assigned].
  destruct (w_assigned w) as [amt|]; [|reflexivity].
  change (p_acct (with_cost g (w_post w))) with (p_acct (w_post w)).
  change (is_virtual (with_cost g (w_post w))) with (is_virtual (w_post w)).
  change (p_amt (with_cost g (w_post w))) with (p_amt (w_post w)).
  destruct (acct_total ord hist (p_acct (w_post w)) (negb (is_virtual (w_post w))) VVoid) as [total|]; cbn [bind]; [|reflexivity].
  match goal with |- (do d1 <- ?X; _) = _ => destruct X as [d1|] end; cbn [bind]; [|reflexivity].
  rewrite sub_earlier_costs.
  destruct (sub_earlier ord earlier (p_acct (w_post w)) (is_virtual (w_post w)) d1) as [d2|]; cbn [bind]; [|reflexivity].
  destruct (p_amt (w_post w)) as [a|] eqn:Ea.
  - match goal with |- (do d4 <- ?X; _) = _ => destruct X as [d4|] end; cbn [bind]; [|reflexivity].
    destruct (negb permissive && negb (bal_is_zero cp d4)); [reflexivity|].
    unfold with_cost. cbn [p_acct p_kind p_amt p_lotprice p_calculated p_generated]. reflexivity.
  - destruct (bal_is_zero cp (restrict d2 amt)); [reflexivity|].
    destruct (restrict d2 amt) as [|x [|y l]]; reflexivity.
Qed.

(* ---- the bare clause `= 0` (an asserted amount without a commodity): every commodity is meant ---- *)
Definition diff_at (hist : list apost) (earlier : list post) (p : post) (amt : amount) (c : option comm) : Q :=
  at_comm amt c - running hist (p_acct p) (negb (is_virtual p)) c - earlier_sum earlier (p_acct p) (is_virtual p) c.

Lemma diff_before_posting_every ord hist earlier p amt total d1 d2 :
  acct_total ord hist (p_acct p) (negb (is_virtual p)) VVoid = Ok total ->
  (match total with
   | VAmt t => bal_sub_amt ord (bal_of_amt amt) t
   | VBal t => bal_sub ord (bal_of_amt amt) t
   | _ => Ok (bal_of_amt amt)
   end) = Ok d1 ->
  sub_earlier ord earlier (p_acct p) (is_virtual p) d1 = Ok d2 ->
  nodup_keys d2 /\ forall c, bden d2 c == diff_at hist earlier p amt c.
Proof.
  intros Ht Hd1 Hd2.
  destruct (acct_total_sum_value ord _ _ _ VVoid _ I I Ht) as [Hsv Hnv].
  assert (Hrun : forall c, running hist (p_acct p) (negb (is_virtual p)) c == den total c).
  { intros c. rewrite (acct_total_exact ord (p_acct p) (negb (is_virtual p)) c _ _ _ Ht). cbn [den]. ring. }
  assert (Hn1 : nodup_keys d1 /\ forall c, bden d1 c == at_comm amt c - running hist (p_acct p) (negb (is_virtual p)) c).
  { destruct total as [| ? | ? | t | t]; cbn [is_sum_value] in Hsv; try contradiction.
    - injection Hd1 as <-. split; [apply bal_of_amt_nodup|]. intros c. rewrite Hrun, bden_of_amt. cbn [den]. ring.
    - split; [apply (bal_sub_amt_nodup _ _ _ _ (bal_of_amt_nodup amt) Hd1)|]. intros c.
      rewrite Hrun, (bal_sub_amt_exact _ _ _ _ c Hd1), bden_of_amt. cbn [den]. ring.
    - split; [apply (bal_sub_nodup _ _ _ _ (bal_of_amt_nodup amt) Hd1)|]. intros c.
      rewrite Hrun, (bal_sub_exact _ c _ _ _ Hd1), bden_of_amt. cbn [den]. ring. }
  destruct Hn1 as [Hn1 He1].
  split; [apply (sub_earlier_nodup ord _ _ _ _ _ Hn1 Hd2)|]. intros c.
  rewrite (sub_earlier_exact ord _ _ c _ _ _ Hd2), He1. unfold diff_at. ring.
Qed.

(* ASSIGNMENT `acct  = 0`: the posting receives the one amount that brings EVERY commodity of the account to the
   written number (its own commodity to it, and there is nothing to add in any other), or the bare zero when all of
   them display as zero already; an account holding two commodities that do not cannot be completed by one amount *)
Theorem bare_assignment_spec ord cp permissive hist earlier w amt p' :
  w_assigned w = Some amt -> p_amt (w_post w) = None -> acomm amt = None ->
  resolve_assigned ord cp permissive hist earlier w = Ok p' ->
  exists x, p_amt p' = Some x /\ p_acct p' = p_acct (w_post w) /\ p_kind p' = p_kind (w_post w) /\
    ((forall c, at_comm x c == diff_at hist earlier (w_post w) amt c) /\ is_zero cp x = false \/
     x = zero_of amt /\
     ((forall c0 : comm, (0 <= cp c0 <= 230)%Z) -> forall c, Qabs (diff_at hist earlier (w_post w) amt c) < 1)).
Proof.
  intros Hw Ha Hk Hr. unfold resolve_assigned in Hr. rewrite Hw in Hr.
  set (p := w_post w) in *.
  destruct (acct_total ord hist (p_acct p) (negb (is_virtual p)) VVoid) as [total|] eqn:Ht; cbn [bind] in Hr; [|discriminate].
  match type of Hr with (do d1 <- ?X; _) = _ => destruct X as [d1|] eqn:Hd1 end; cbn [bind] in Hr; [|discriminate].
  destruct (sub_earlier ord earlier (p_acct p) (is_virtual p) d1) as [d2|] eqn:Hd2; cbn [bind] in Hr; [|discriminate].
  rewrite Ha in Hr.
  destruct (diff_before_posting_every ord hist earlier p amt total d1 d2 Ht Hd1 Hd2) as [Hn2 He].
  assert (Er : restrict d2 amt = d2) by (unfold restrict; rewrite Hk; reflexivity).
  rewrite Er in Hr.
  destruct (bal_is_zero cp d2) eqn:Hz.
  - injection Hr as <-. cbn [p_amt p_acct p_kind]. eexists. split; [reflexivity|]. split; [reflexivity|]. split; [reflexivity|].
    right. split; [reflexivity|]. intros Hcp c. rewrite <- He. apply (bal_is_zero_lt_unit cp _ c Hcp Hn2 Hz).
  - destruct d2 as [|x [|y l]]; try discriminate.
    injection Hr as <-. cbn [p_amt p_acct p_kind]. exists x. split; [reflexivity|]. split; [reflexivity|]. split; [reflexivity|].
    left. cbn [bal_is_zero forallb] in Hz. rewrite andb_true_r in Hz. split; [|exact Hz].
    intros c. rewrite <- He. cbn [bden]. unfold at_comm. ring.
Qed.

(* ASSERTION `acct  a = 0`: decided on a balance that holds, for EVERY commodity, written - running - earlier - own *)
Theorem bare_assertion_spec ord cp permissive hist earlier w a amt r :
  w_assigned w = Some amt -> p_amt (w_post w) = Some a -> acomm amt = None ->
  resolve_assigned ord cp permissive hist earlier w = r ->
  (exists e, r = Err e /\ e <> EAssertOff) \/
  exists d4, nodup_keys d4 /\
    (forall c, bden d4 c == diff_at hist earlier (w_post w) amt c - at_comm (strip a) c) /\
    r = if negb permissive && negb (bal_is_zero cp d4) then Err EAssertOff else Ok (w_post w).
Proof.
  intros Hw Ha Hk Hr. unfold resolve_assigned in Hr. rewrite Hw in Hr.
  set (p := w_post w) in *.
  destruct (acct_total ord hist (p_acct p) (negb (is_virtual p)) VVoid) as [total|e] eqn:Ht; cbn [bind] in Hr;
    [|left; exists e; split; [symmetry; exact Hr|]].
  2:{ destruct (acct_total_total ord hist (p_acct p) (negb (is_virtual p)) VVoid I) as [v Hv].
      rewrite Hv in Ht. discriminate. }
  match type of Hr with (do d1 <- ?X; _) = _ => destruct X as [d1|e] eqn:Hd1 end; cbn [bind] in Hr;
    [|left; exists e; split; [symmetry; exact Hr|]].
  2:{ intros ->. destruct total as [| ? | ? | t | t]; try discriminate.
      - exact (bal_sub_amt_error _ _ _ _ Hd1).
      - exact (bal_sub_error _ _ _ _ Hd1). }
  destruct (sub_earlier ord earlier (p_acct p) (is_virtual p) d1) as [d2|e] eqn:Hd2; cbn [bind] in Hr;
    [|left; exists e; split; [symmetry; exact Hr|]].
  2:{ intros ->. apply sub_earlier_error in Hd2. discriminate Hd2. }
  rewrite Ha in Hr.
  destruct (diff_before_posting_every ord hist earlier p amt total d1 d2 Ht Hd1 Hd2) as [Hn2 He].
  assert (Er : restrict d2 amt = d2) by (unfold restrict; rewrite Hk; reflexivity).
  rewrite Er in Hr. unfold has_comm in Hr. rewrite Hk in Hr. cbn [negb orb] in Hr.
  destruct (bal_sub_amt ord d2 (strip a)) as [d4|e] eqn:Hd4; cbn [bind] in Hr.
  - right. exists d4. split; [apply (bal_sub_amt_nodup _ _ _ _ Hn2 Hd4)|]. split; [|symmetry; exact Hr].
    intros c. rewrite (bal_sub_amt_exact _ _ _ _ c Hd4), He. ring.
  - left. exists e. split; [symmetry; exact Hr|]. intros ->. exact (bal_sub_amt_error _ _ _ _ Hd4).
Qed.

(* ---- `apply account` ---- *)
Lemma qualify_app s1 s2 name : qualify (s1 ++ s2) name = qualify s1 (qualify s2 name).
Proof. unfold qualify. apply fold_right_app. Qed.

Lemma qualify_length stack name : (length name <= length (qualify stack name))%nat.
Proof.
  induction stack as [|n stack IH]; cbn [qualify fold_right]; [apply le_n|].
  fold (qualify stack name). rewrite app_length. cbn [length]. lia.
Qed.

(* the name as written and the account it belongs to inside a block are two accounts *)
Lemma qualify_other_account n stack name : str_eqb name (qualify (n :: stack) name) = false.
Proof.
  destruct (str_eqb name (qualify (n :: stack) name)) eqn:E; [|reflexivity].
  apply str_eqb_spec in E. apply (f_equal (@length Z)) in E.
  cbn [qualify fold_right] in E. fold (qualify stack name) in E. rewrite app_length in E. cbn [length] in E.
  pose proof (qualify_length stack name). lia.
Qed.

(* inside one block different written names are different accounts *)
Lemma qualify_injective stack a b : qualify stack a = qualify stack b -> a = b.
Proof.
  induction stack as [|n stack IH]; cbn [qualify fold_right]; [exact (fun H => H)|].
  fold (qualify stack a) (qualify stack b). intros H. apply app_inv_head in H. injection H as H. apply IH. exact H.
Qed.

(* so a posting written `name` outside the block does not count for a `= AMOUNT` on `name` inside it *)
Lemma apply_account_consults_the_qualified_account hist n stack name ro c h :
  a_acct h = name ->
  running (hist ++ [h]) (qualify (n :: stack) name) ro c == running hist (qualify (n :: stack) name) ro c.
Proof. intros <-. apply running_other_account. apply qualify_other_account. Qed.

(* ---- the postings of a transaction are judged in the order they are written: reading ws1 ++ ws2 is reading ws1, then
   ws2 with the resolved ws1 as the earlier postings - nothing of ws2 is known while ws1 is judged ---- *)
Lemma resolve_posts_app ord permissive hist : forall ws1 ws2 pl earlier,
  resolve_posts ord permissive pl hist earlier (ws1 ++ ws2) =
  match resolve_posts ord permissive pl hist earlier ws1 with
  | (Ok ps, pl') => resolve_posts ord permissive pl' hist (rev ps) ws2
  | (Err e, pl') => (Err e, pl')
  end.
Proof.
  induction ws1 as [|w ws1 IH]; intros ws2 pl earlier; cbn [app resolve_posts].
  - rewrite rev_involutive. reflexivity.
  - destruct (resolve_assigned ord _ permissive hist (rev earlier) w) as [p|e]; [apply IH|reflexivity].
Qed.
