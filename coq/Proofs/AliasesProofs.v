(* Termination of the alias expansion loop (Model/Aliases.v). *)
From LedgerV Require Import Base.Prelude Model.Aliases.
Local Open Scope Z_scope.

Definition keys (m : alias_table) : list aname := map fst m.

Lemma alias_lookup_in k m t : alias_lookup k m = Some t -> In k (keys m).
Proof.
  induction m as [|[k' t'] m IH]; cbn [alias_lookup keys map fst]; [discriminate|].
  destruct (str_eqb k k') eqn:E.
  - intros _. left. symmetry. apply str_eqb_spec. exact E.
  - intros H. right. apply IH. exact H.
Qed.

Lemma seen_mem_false k seen : seen_mem k seen = false -> ~ In k seen.
Proof.
  unfold seen_mem. intros H Hin.
  assert (existsb (str_eqb k) seen = true) as Ht.
  { apply existsb_exists. exists k. split; [exact Hin | apply str_eqb_refl]. }
  rewrite Ht in H. discriminate.
Qed.

(* a round that goes on records, with the source's choice, a key of the table not seen before *)
Lemma round_next_records_new_key m name seen name' seen' :
  alias_round true m name seen = RNext name' seen' ->
  exists k, seen' = k :: seen /\ In k (keys m) /\ ~ In k seen.
Proof.
  unfold alias_round.
  destruct (alias_lookup name m) as [t|] eqn:E1.
  - destruct (seen_mem name seen) eqn:E2; [discriminate|].
    intros H. injection H as <- <-. exists name.
    split; [reflexivity|]. split; [eapply alias_lookup_in; exact E1 | apply seen_mem_false; exact E2].
  - destruct name as [|f [|s rest]]; try discriminate.
    destruct (alias_lookup [f] m) as [t|] eqn:E3; [|discriminate].
    destruct (seen_mem [f] seen) eqn:E4; [discriminate|].
    intros H. injection H as <- <-. exists [f].
    split; [reflexivity|]. split; [eapply alias_lookup_in; exact E3 | apply seen_mem_false; exact E4].
Qed.

(* the variant: table keys not yet recorded.  already_seen stays a duplicate-free list of keys,
   so it is never longer than the table, and every round that goes on makes it longer *)
Lemma expand_terminates_gen recursive m :
  forall fuel name seen,
    NoDup seen -> incl seen (keys m) -> (length m - length seen < fuel)%nat ->
    expand_aliases true recursive fuel m name seen <> NoEnd.
Proof.
  induction fuel as [|f IH]; intros name seen Hnd Hincl Hf; [lia|].
  cbn [expand_aliases].
  destruct (alias_round true m name seen) as [| |name' seen'] eqn:E; try discriminate.
  destruct recursive; [|discriminate].
  destruct (round_next_records_new_key _ _ _ _ _ E) as [k [-> [Hk Hnew]]].
  assert (Hnd' : NoDup (k :: seen)) by (constructor; assumption).
  assert (Hincl' : incl (k :: seen) (keys m)).
  { intros x [<-|Hx]; [exact Hk | apply Hincl; exact Hx]. }
  pose proof (NoDup_incl_length Hnd' Hincl') as Hlen.
  unfold keys in Hlen. rewrite map_length in Hlen. cbn [length] in Hlen.
  apply IH; try assumption. cbn [length]. lia.
Qed.

Lemma expand_terminates_proof recursive m name : expand true recursive m name <> NoEnd.
Proof.
  unfold expand, alias_fuel. apply expand_terminates_gen.
  - constructor.
  - intros x [].
  - cbn [length]. lia.
Qed.

(* more fuel changes nothing: the answer is the loop's answer *)
Lemma expand_fuel_irrelevant recursive m :
  forall fuel name seen r,
    expand_aliases true recursive fuel m name seen = r -> r <> NoEnd ->
    forall fuel', (fuel <= fuel')%nat -> expand_aliases true recursive fuel' m name seen = r.
Proof.
  induction fuel as [|f IH]; intros name seen r H Hr fuel' Hle.
  - cbn in H. subst r. contradiction.
  - destruct fuel' as [|f']; [lia|]. cbn [expand_aliases] in *.
    destruct (alias_round true m name seen) as [| |name' seen']; try exact H.
    destruct recursive; [|exact H]. apply (IH _ _ _ H Hr). lia.
Qed.

(* recording something else than what is looked up loses the variant: two aliases leading into
   each other through their first segments (alias A = B:X, alias B = A:Y; posting to A:Z) are
   expanded for ever - whatever the fuel *)
Definition seg_A := 65. Definition seg_B := 66. Definition seg_X := 88.
Definition seg_Y := 89. Definition seg_Z := 90.
Definition cycle_table : alias_table := [([seg_A], [seg_B; seg_X]); ([seg_B], [seg_A; seg_Y])].

Lemma wrong_record_grows :
  forall fuel name seen,
    (exists rest, name = seg_A :: rest /\ rest <> []) \/ (exists rest, name = seg_B :: rest /\ rest <> []) ->
    Forall (fun k => (2 <= length k)%nat) seen ->
    expand_aliases false true fuel cycle_table name seen = NoEnd.
Proof.
  induction fuel as [|f IH]; intros name seen Hname Hseen; [reflexivity|].
  assert (Hmem : forall s, seen_mem [s] seen = false).
  { intros s. unfold seen_mem. apply not_true_is_false. intros H.
    apply existsb_exists in H as [k [Hin Heq]]. apply str_eqb_spec in Heq. subst k.
    rewrite Forall_forall in Hseen. specialize (Hseen _ Hin). cbn in Hseen. lia. }
  cbn [expand_aliases].
  destruct Hname as [[rest [-> Hr]]|[rest [-> Hr]]]; destruct rest as [|s rest]; try contradiction.
  - unfold alias_round.
    replace (alias_lookup (seg_A :: s :: rest) cycle_table) with (@None aname) by reflexivity.
    replace (alias_lookup [seg_A] cycle_table) with (Some [seg_B; seg_X]) by reflexivity.
    rewrite Hmem. cbn [tl app]. apply IH.
    + right. exists (seg_X :: s :: rest). split; [reflexivity | discriminate].
    + constructor; [cbn; lia | exact Hseen].
  - unfold alias_round.
    replace (alias_lookup (seg_B :: s :: rest) cycle_table) with (@None aname) by reflexivity.
    replace (alias_lookup [seg_B] cycle_table) with (Some [seg_A; seg_Y]) by reflexivity.
    rewrite Hmem. cbn [tl app]. apply IH.
    + left. exists (seg_Y :: s :: rest). split; [reflexivity | discriminate].
    + constructor; [cbn; lia | exact Hseen].
Qed.

Lemma wrong_record_never_ends_proof :
  forall fuel, expand_aliases false true fuel cycle_table [seg_A; seg_Z] [] = NoEnd.
Proof.
  intros fuel. apply wrong_record_grows.
  - left. exists [seg_Z]. split; [reflexivity | discriminate].
  - constructor.
Qed.

(* the same table with the source's choice: the cycle is reported *)
Lemma right_record_reports_cycle : expand true true cycle_table [seg_A; seg_Z] = Cycle.
Proof. reflexivity. Qed.
