(* Proofs about Model/Selection.v. *)
From LedgerV Require Import Base.Prelude Model.Selection.
Local Open Scope Z_scope.

Section PickTwo.
  Context {A : Type}.
  Variable p : A -> bool.

  Lemma pick_two_fst_kept : forall l (a : A) y, fst (pick_two p l (Some a) y) = Some a.
  Proof.
    induction l as [|e t IH]; intros a y; cbn [pick_two]; [reflexivity|].
    destruct (p e); apply IH.
  Qed.

  (* once x is set, y is set as soon as one more element passes the test *)
  Lemma pick_two_y_some : forall l (a : A) y,
    (1 <= count_if p l)%nat -> exists b, snd (pick_two p l (Some a) y) = Some b /\ p b = true.
  Proof.
    induction l as [|e t IH]; intros a y H; cbn [count_if] in H; [lia|].
    cbn [pick_two]. destruct (p e) eqn:E.
    - destruct (count_if p t) as [|n] eqn:Ec.
      + clear IH. exists e. split; [|exact E].
        assert (Hn : forall l' x' y', count_if p l' = O -> pick_two p l' x' y' = (x', y')).
        { induction l' as [|e' t' IH']; intros x' y' Hc; [reflexivity|].
          cbn [count_if] in Hc. cbn [pick_two]. destruct (p e'); [lia | apply IH'; lia]. }
        rewrite Hn by exact Ec. reflexivity.
      + apply IH. lia.
    - apply IH. cbn in H. lia.
  Qed.

  Lemma pick_two_both : forall l,
    (2 <= count_if p l)%nat ->
    exists a b, pick_two p l None None = (Some a, Some b) /\ p a = true /\ p b = true.
  Proof.
    induction l as [|e t IH]; intros H; cbn [count_if] in H; [lia|].
    cbn [pick_two]. destruct (p e) eqn:E.
    - destruct (pick_two_y_some t e None ltac:(cbn in H; lia)) as [b [Hb Hpb]].
      exists e, b. split; [|split; assumption].
      pose proof (pick_two_fst_kept t e None) as Hx.
      destruct (pick_two p t (Some e) None) as [x y]. cbn in Hx, Hb. subst. reflexivity.
    - apply IH. cbn in H. lia.
  Qed.
End PickTwo.

(* with the same test in both loops, entering the block means both operands exist *)
Lemma finalize_operands_exist {A : Type} (p : A -> bool) (l : list A) r :
  finalize_operands p p l = Some r -> exists a b, r = (Some a, Some b) /\ p a = true /\ p b = true.
Proof.
  unfold finalize_operands. destruct (Nat.eqb (count_if p l) 2) eqn:E; [|discriminate].
  apply Nat.eqb_eq in E. intros H. injection H as <-.
  apply pick_two_both. lia.
Qed.

(* with a stricter test in the picking loop (the components that do not DISPLAY as zero, say) the
   block can be entered with y unset: two components, one of them failing the stricter test *)
Lemma finalize_operands_mismatch :
  exists (l : list Z) x, finalize_operands (fun z => negb (z =? 0)) (fun z => 10 <=? Z.abs z) l = Some (x, None).
Proof. exists [50; 3]. eexists. reflexivity. Qed.

(* the duplicate-UUID comparison *)
Lemma uuid_compare_size_first {A : Type} (this other : list A) :
  uuid_compare true this other <> ReadPastEnd.
Proof.
  unfold uuid_compare, equal3_reads. cbn [andb].
  destruct (Nat.eqb (length this) (length other)) eqn:E; cbn [negb]; [|discriminate].
  apply Nat.eqb_eq in E. rewrite E.
  replace (Nat.ltb (length other) (length other)) with false; [discriminate|].
  symmetry. apply Nat.ltb_ge. lia.
Qed.

Lemma uuid_compare_unguarded_reads_past {A : Type} (this other : list A) :
  (length other < length this)%nat -> uuid_compare false this other = ReadPastEnd.
Proof.
  intros H. unfold uuid_compare, equal3_reads. cbn [andb].
  replace (Nat.ltb (length other) (length this)) with true; [reflexivity|].
  symmetry. apply Nat.ltb_lt. exact H.
Qed.
