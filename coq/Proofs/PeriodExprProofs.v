(* C13 - proofs about the period-expression model (Model/PeriodExpr.v). *)
From LedgerV Require Import Base.Prelude Model.PeriodCalendar Gen.PeriodSources Gen.PeriodWords Model.Period
  Model.PeriodExpr.
Local Open Scope Z_scope.

Lemma lex_word_lower w lit : map lower_byte w = lit -> lex_word w =
  match assoc_str lit src_period_lexer_words with Some t => KTok t | None => KUnknown end.
Proof. intros H. unfold lex_word. rewrite H. reflexivity. Qed.

Lemma named_forms_lemma : forall w q n fmt cy,
  In (map lower_byte w, (q, n)) text_named_forms ->
  parse_words fmt cy [WWord w] = Ok (init (mkDur q n) None None).
Proof.
  intros w q n fmt cy H. unfold parse_words. cbn [lex_all lex bind].
  cbn [In text_named_forms] in H.
  repeat (destruct H as [H|H];
          [injection H as Hw Hq Hn; subst q n; rewrite (lex_word_lower w _ (eq_sym Hw)); vm_compute; reflexivity|]).
  contradiction.
Qed.

Lemma every_unit_lemma : forall e w q fmt cy,
  map lower_byte e = w_every -> In (map lower_byte w, q) text_unit_singulars ->
  parse_words fmt cy [WWord e; WWord w] = Ok (init (mkDur q 1) None None).
Proof.
  intros e w q fmt cy He H. unfold parse_words. cbn [lex_all lex bind].
  rewrite (lex_word_lower e _ He).
  cbn [In text_unit_singulars] in H.
  repeat (destruct H as [H|H];
          [injection H as Hw Hq; subst q; rewrite (lex_word_lower w _ (eq_sym Hw)); vm_compute; reflexivity|]).
  contradiction.
Qed.

Lemma every_n_lemma : forall e w n q fmt cy,
  map lower_byte e = w_every -> 1 <= n <= 65535 -> In (map lower_byte w, q) text_unit_plurals ->
  parse_words fmt cy [WWord e; WInt n; WWord w] = Ok (init (mkDur q n) None None).
Proof.
  intros e w n q fmt cy He Hn H. unfold parse_words. cbn [lex_all lex bind].
  rewrite (lex_word_lower e _ He).
  assert (E1 : (0 <=? n) && (n <=? 65535) = true)
    by (apply andb_true_intro; split; apply Z.leb_le; lia).
  assert (E2 : (n =? 0) = false) by (apply Z.eqb_neq; lia).
  rewrite E1. cbn [bind].
  cbn [In text_unit_plurals] in H.
  repeat (destruct H as [H|H];
          [injection H as Hw Hq; subst q; rewrite (lex_word_lower w _ (eq_sym Hw));
           change (assoc_str w_every src_period_lexer_words) with (Some T_EVERY);
           cbv beta iota; cbn [bind parse_toks]; rewrite E2; vm_compute; reflexivity|]).
  contradiction.
Qed.

Lemma every_zero_lemma : forall e w fmt cy,
  map lower_byte e = w_every -> exists err, parse_words fmt cy [WWord e; WInt 0; w] = Err err.
Proof.
  intros e w fmt cy He. unfold parse_words. cbn [lex_all lex bind].
  rewrite (lex_word_lower e _ He).
  destruct (lex w) as [t|err]; [|exists err; reflexivity].
  exists EOther. vm_compute. reflexivity.
Qed.

(* ---- clauses ------------------------------------------------------------------------------------ *)
Lemma dur_step : forall fmt cy ts d r st,
  dur_toks ts = Some d -> parse_toks fmt cy (ts ++ r) st = parse_toks fmt cy r (with_dur st d).
Proof.
  intros fmt cy ts d r st H.
  destruct ts as [|a ts]; [discriminate|].
  destruct a as [z|n|t|]; try discriminate.
  destruct ts as [|b ts].
  - (* a named form *)
    cbn [dur_toks] in H. cbn [app].
    destruct t; try discriminate;
      cbn [parse_toks];
      match type of H with
      | match ?a with _ => _ end = _ => destruct a as [e|]; [|discriminate]
      end;
      (destruct (dur_of e) as [d'|]; [|discriminate]); injection H as ->; reflexivity.
  - destruct t; try (cbn in H; discriminate).
    destruct b as [z|n|u|]; try (cbn in H; discriminate).
    + (* every N units *)
      destruct ts as [|c ts]; [cbn in H; discriminate|].
      destruct c as [z|n2|u|]; try (cbn [dur_toks] in H; discriminate).
      destruct ts; [|cbn [dur_toks] in H; discriminate].
      cbn [dur_toks] in H. cbn [app parse_toks].
      destruct ((n =? 0) && src_period_every_zero_rejected); [discriminate|].
      destruct (assoc_tok u src_period_every_n) as [q|]; [|discriminate].
      destruct (dur_of (q, n)) as [d'|]; [|discriminate]. injection H as ->. reflexivity.
    + (* every unit *)
      destruct ts; [|cbn [dur_toks] in H; discriminate].
      cbn [dur_toks] in H. cbn [app parse_toks].
      destruct (assoc_tok u src_period_every_1) as [e|]; [|discriminate].
      destruct (dur_of e) as [d'|]; [|discriminate]. injection H as ->. reflexivity.
Qed.

Lemma parse_clauses_lemma : forall fmt cy cs st,
  parse_toks fmt cy (concat (map clause_toks cs)) st = apply_clauses fmt cy cs st
  \/ exists ts, In (CDur ts) cs /\ dur_toks ts = None.
Proof.
  intros fmt cy cs. induction cs as [|c cs IH]; intros st; [left; reflexivity|].
  destruct c as [ts|z|z]; cbn [map concat clause_toks apply_clauses].
  - destruct (dur_toks ts) as [d|] eqn:E.
    + rewrite (dur_step _ _ _ _ _ _ E).
      destruct (IH (with_dur st d)) as [H|[ts' [H1 H2]]]; [left; exact H|right; exists ts'; split; [right; exact H1|exact H2]].
    + right. exists ts. split; [left; reflexivity|exact E].
  - cbn [app parse_toks]. destruct (ps_since st).
    + left. reflexivity.
    + destruct (IH (with_since st (bound_of_text fmt cy z))) as [H|[ts' [H1 H2]]];
        [left; exact H|right; exists ts'; split; [right; exact H1|exact H2]].
  - cbn [app parse_toks]. destruct (ps_until st).
    + left. reflexivity.
    + destruct (IH (with_until st (bound_of_text fmt cy z))) as [H|[ts' [H1 H2]]];
        [left; exact H|right; exists ts'; split; [right; exact H1|exact H2]].
Qed.

Lemma parse_clauses_ok : forall fmt cy cs st,
  (forall ts, In (CDur ts) cs -> dur_toks ts <> None) ->
  parse_toks fmt cy (concat (map clause_toks cs)) st = apply_clauses fmt cy cs st.
Proof.
  intros fmt cy cs st H. destruct (parse_clauses_lemma fmt cy cs st) as [E|[ts [H1 H2]]]; [exact E|].
  exfalso. exact (H ts H1 H2).
Qed.

(* duration, from and to in any of the six orders *)
Lemma any_order_3 : forall fmt cy dts d f t cs,
  dur_toks dts = Some d -> In cs (perms3 (CDur dts) (CFrom f) (CTo t)) ->
  (do st <- parse_toks fmt cy (concat (map clause_toks cs)) ps_empty; period_of st)
  = Ok (init d (Some (bound_of_text fmt cy f)) (Some (bound_of_text fmt cy t))).
Proof.
  intros fmt cy dts d f t cs Hd H.
  rewrite parse_clauses_ok.
  - cbn [In perms3] in H.
    repeat (destruct H as [H|H]; [subst cs; cbn [apply_clauses ps_empty ps_since ps_until with_dur with_since with_until];
                                  rewrite Hd; cbn [apply_clauses ps_empty ps_since ps_until with_dur with_since with_until]; reflexivity|]).
    contradiction.
  - intros ts Hin. cbn [In perms3] in H.
    assert (ts = dts).
    { repeat (destruct H as [H|H]; [subst cs; cbn [In] in Hin;
        repeat (destruct Hin as [Hin|Hin]; [try discriminate; injection Hin as <-; reflexivity|]); contradiction|]).
      contradiction. }
    subst ts. rewrite Hd. discriminate.
Qed.

(* duration and one bound, either order *)
Lemma any_order_from : forall fmt cy dts d f cs,
  dur_toks dts = Some d -> In cs [[CDur dts; CFrom f]; [CFrom f; CDur dts]] ->
  (do st <- parse_toks fmt cy (concat (map clause_toks cs)) ps_empty; period_of st)
  = Ok (init d (Some (bound_of_text fmt cy f)) None).
Proof.
  intros fmt cy dts d f cs Hd H.
  rewrite parse_clauses_ok.
  - cbn [In] in H.
    repeat (destruct H as [H|H]; [subst cs; cbn [apply_clauses ps_empty ps_since ps_until with_dur with_since with_until];
                                  rewrite Hd; cbn [apply_clauses ps_empty ps_since ps_until with_dur with_since with_until]; reflexivity|]).
    contradiction.
  - intros ts Hin. cbn [In] in H.
    assert (ts = dts).
    { repeat (destruct H as [H|H]; [subst cs; cbn [In] in Hin;
        repeat (destruct Hin as [Hin|Hin]; [try discriminate; injection Hin as <-; reflexivity|]); contradiction|]).
      contradiction. }
    subst ts. rewrite Hd. discriminate.
Qed.

Lemma any_order_to : forall fmt cy dts d t cs,
  dur_toks dts = Some d -> In cs [[CDur dts; CTo t]; [CTo t; CDur dts]] ->
  (do st <- parse_toks fmt cy (concat (map clause_toks cs)) ps_empty; period_of st)
  = Ok (init d None (Some (bound_of_text fmt cy t))).
Proof.
  intros fmt cy dts d t cs Hd H.
  rewrite parse_clauses_ok.
  - cbn [In] in H.
    repeat (destruct H as [H|H]; [subst cs; cbn [apply_clauses ps_empty ps_since ps_until with_dur with_since with_until];
                                  rewrite Hd; cbn [apply_clauses ps_empty ps_since ps_until with_dur with_since with_until]; reflexivity|]).
    contradiction.
  - intros ts Hin. cbn [In] in H.
    assert (ts = dts).
    { repeat (destruct H as [H|H]; [subst cs; cbn [In] in Hin;
        repeat (destruct Hin as [Hin|Hin]; [try discriminate; injection Hin as <-; reflexivity|]); contradiction|]).
      contradiction. }
    subst ts. rewrite Hd. discriminate.
Qed.

(* a second from (or to) anywhere after the first is an error: apply_clauses says so by definition; the
   keywords lex as the property text says, in any letter case *)
Lemma keywords_lemma : forall w,
  (map lower_byte w = w_from \/ map lower_byte w = w_since -> lex_word w = KTok T_SINCE) /\
  (map lower_byte w = w_to \/ map lower_byte w = w_until -> lex_word w = KTok T_UNTIL) /\
  (map lower_byte w = w_in -> lex_word w = KTok T_IN) /\
  (map lower_byte w = w_every -> lex_word w = KTok T_EVERY).
Proof.
  intros w. repeat split; intros H; try destruct H as [H|H]; rewrite (lex_word_lower w _ H); reflexivity.
Qed.

(* `in D` / a bare D: the range is the day, month or year the date word names *)
Lemma in_date_lemma : forall fmt cy dts d z b e,
  dur_toks dts = Some d -> incl_of fmt cy z = Ok (b, e) ->
  forall ts, In ts [dts ++ [KTok T_IN; KDate z]; dts ++ [KDate z]; [KTok T_IN; KDate z] ++ dts; [KDate z] ++ dts] ->
  (do st <- parse_toks fmt cy ts ps_empty; period_of st)
  = Ok (mkIval (Some b) (Some e) None None false None d None false).
Proof.
  intros fmt cy dts d z b e Hd Hi ts H. cbn [In] in H.
  destruct H as [H|[H|[H|[H|[]]]]]; subst ts.
  - rewrite (dur_step _ _ _ _ _ _ Hd). cbn [parse_toks with_dur ps_incl ps_empty]. rewrite Hi. reflexivity.
  - rewrite (dur_step _ _ _ _ _ _ Hd). cbn [parse_toks with_dur ps_incl ps_empty]. rewrite Hi. reflexivity.
  - cbn [app parse_toks ps_incl ps_empty]. rewrite Hi. cbn [bind].
    rewrite <- (app_nil_r dts), (dur_step _ _ _ _ _ _ Hd). reflexivity.
  - cbn [app parse_toks ps_incl ps_empty]. rewrite Hi. cbn [bind].
    rewrite <- (app_nil_r dts), (dur_step _ _ _ _ _ _ Hd). reflexivity.
Qed.

(* ---- --start-of-week ------------------------------------------------------------------------------ *)
Lemma week_start_range : forall s d, week_start_of_text s = Ok d -> 0 <= d < 7.
Proof.
  intros s d. unfold week_start_of_text.
  assert (H : forall l, Forall (fun e => 0 <= snd e < 7) l -> forall k v, assoc_str k l = Some v -> 0 <= v < 7).
  { induction l as [|[k' v'] l IH]; intros F k v; cbn [assoc_str]; [discriminate|].
    inversion F; subst. destruct (str_eqb k k'); [intros E; injection E as <-; assumption|apply IH; assumption]. }
  destruct (assoc_str (map lower_byte s) week_day_names) as [v|] eqn:E; [|discriminate].
  intros E'. injection E' as <-. apply (H week_day_names) with (k := map lower_byte s); [|exact E].
  unfold week_day_names. repeat constructor; cbn; lia.
Qed.

Lemma week_start_case_insensitive : forall s s', map lower_byte s = map lower_byte s' ->
  week_start_of_text s = week_start_of_text s'.
Proof. intros s s' H. unfold week_start_of_text. rewrite H. reflexivity. Qed.
