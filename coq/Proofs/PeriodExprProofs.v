(* C13 - proofs about the period-expression model (Model/PeriodExpr.v). *)
From LedgerV Require Import Base.Prelude Model.PeriodCalendar Gen.PeriodSources Gen.PeriodWords Model.Period
  Model.PeriodExpr.
Local Open Scope Z_scope.

Lemma lex_word_lower w lit : map lower_byte w = lit -> lex_word w =
  match assoc_str lit src_period_lexer_words with Some t => KTok t | None => KUnknown end.
Proof. intros H. unfold lex_word. rewrite H. reflexivity. Qed.

Lemma named_forms_lemma : forall w q n fmt cy,
  In (map lower_byte w, (q, n)) text_named_forms ->
  parse_words fmt cy [WWord w] = Ok (init (mkDur q n) None None).
Proof.
  intros w q n fmt cy H. unfold parse_words. cbn [lex_all lex bind].
  cbn [In text_named_forms] in H.
  repeat (destruct H as [H|H];
          [injection H as Hw Hq Hn; subst q n; rewrite (lex_word_lower w _ (eq_sym Hw)); vm_compute; reflexivity|]).
  contradiction.
Qed.

Lemma every_unit_lemma : forall e w q fmt cy,
  map lower_byte e = w_every -> In (map lower_byte w, q) text_unit_singulars ->
  parse_words fmt cy [WWord e; WWord w] = Ok (init (mkDur q 1) None None).
Proof.
  intros e w q fmt cy He H. unfold parse_words. cbn [lex_all lex bind].
  rewrite (lex_word_lower e _ He).
  cbn [In text_unit_singulars] in H.
  repeat (destruct H as [H|H];
          [injection H as Hw Hq; subst q; rewrite (lex_word_lower w _ (eq_sym Hw)); vm_compute; reflexivity|]).
  contradiction.
Qed.

Lemma every_n_lemma : forall e w n q fmt cy,
  map lower_byte e = w_every -> 1 <= n <= 65535 -> In (map lower_byte w, q) text_unit_plurals ->
  parse_words fmt cy [WWord e; WInt n; WWord w] = Ok (init (mkDur q n) None None).
Proof.
  intros e w n q fmt cy He Hn H. unfold parse_words. cbn [lex_all lex bind].
  rewrite (lex_word_lower e _ He).
  assert (E1 : (0 <=? n) && (n <=? 65535) = true)
    by (apply andb_true_intro; split; apply Z.leb_le; lia).
  assert (E2 : (n =? 0) = false) by (apply Z.eqb_neq; lia).
  rewrite E1. cbn [bind].
  cbn [In text_unit_plurals] in H.
  repeat (destruct H as [H|H];
          [injection H as Hw Hq; subst q; rewrite (lex_word_lower w _ (eq_sym Hw));
           change (assoc_str w_every src_period_lexer_words) with (Some T_EVERY);
           cbv beta iota; cbn [bind parse_toks]; rewrite E2; vm_compute; reflexivity|]).
  contradiction.
Qed.

Lemma every_zero_lemma : forall e w fmt cy,
  map lower_byte e = w_every -> exists err, parse_words fmt cy [WWord e; WInt 0; w] = Err err.
Proof.
  intros e w fmt cy He. unfold parse_words. cbn [lex_all lex bind].
  rewrite (lex_word_lower e _ He).
  destruct (lex w) as [t|err]; [|exists err; reflexivity].
  exists EOther. vm_compute. reflexivity.
Qed.
