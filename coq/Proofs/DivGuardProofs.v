(* C11 (c): every division cell of the amount / balance / value model (Model/Amount.v) tests
   the operand it divides by first.  An exactly zero divisor never produces a quotient. *)
From LedgerV Require Import Base.Prelude Base.Round Model.Amount.
Local Open Scope Z_scope.

(* the values that are zero as divisors: INTEGER 0, an amount whose quantity is 0, a balance
   holding one such amount (the only balance shape accepted as a divisor) *)
Definition zero_divisor (w : value) : Prop :=
  match w with
  | VInt y => y = 0
  | VAmt a => is_realzero a = true
  | VBal [b] => is_realzero b = true
  | _ => False
  end.

(* the operand a cell divides BY.  It is the right operand in every cell but one:
   INTEGER / AMOUNT is written `val.as_amount() / as_long()` in value.cc (finding F1 of C03),
   so that cell divides by its LEFT operand. *)
Definition used_divisor (v w : value) : value :=
  match v, w with
  | VInt x, VAmt _ => VInt x
  | _, _ => w
  end.

Lemma amt_div_zero cp a b : is_realzero b = true -> amt_div cp a b = Err EDivZero.
Proof. intros H. unfold amt_div. rewrite H. reflexivity. Qed.

Lemma amt_div_ok_nonzero cp a b r : amt_div cp a b = Ok r -> is_realzero b = false.
Proof. unfold amt_div. destruct (is_realzero b); [discriminate | reflexivity]. Qed.

(* balance / amount: the one case that returns a value on a zero divisor performs no division
   at all (an all-zero balance is returned unchanged, balance.cc operator/=) *)
Lemma bal_div_zero cp b a :
  is_realzero a = true ->
  bal_div cp b a = Err EDivZero \/ (bal_is_realzero b = true /\ bal_div cp b a = Ok b).
Proof.
  intros H. unfold bal_div. destruct (bal_is_realzero b); [right; auto|]. rewrite H. left. reflexivity.
Qed.

Lemma is_realzero_amt_of_Z y : is_realzero (amt_of_Z y) = (y =? 0).
Proof. reflexivity. Qed.

Definition zero_div_result (cp : comm -> Z) (v w : value) : Prop :=
  v_div cp v w = Err EDivZero \/ v_div cp v w = Err EBadOp \/
  (exists b, v = VBal b /\ bal_is_realzero b = true /\ v_div cp v w = Ok (VBal b)).

(* the main statement: when the operand a cell divides by is zero, the result is an error
   (Err EDivZero, or Err EBadOp for an operand-type combination ledger does not support at
   all) and never a quotient; the only Ok result is the untouched all-zero balance *)
Lemma v_div_zero_divisor cp v w :
  zero_divisor (used_divisor v w) -> zero_div_result cp v w.
Proof.
  unfold zero_div_result. intros Hz.
  destruct v as [| |x|a|b]; destruct w as [| |y|c|d]; cbn [zero_divisor used_divisor] in Hz;
    try (destruct Hz; fail); cbn [v_div]; auto.
  - (* INTEGER / INTEGER *) subst y. cbn. auto.
  - (* INTEGER / AMOUNT (reversed): divides by x *)
    subst x. unfold int_div_amt. rewrite amt_div_zero by reflexivity. cbn. auto.
  - (* AMOUNT / INTEGER *)
    subst y. rewrite amt_div_zero by reflexivity. cbn. auto.
  - (* AMOUNT / AMOUNT *)
    rewrite amt_div_zero by exact Hz. cbn. auto.
  - (* AMOUNT / BALANCE [b] *)
    destruct d as [|d0 [|d1 d']]; try (destruct Hz; fail); auto.
    rewrite amt_div_zero by exact Hz. cbn. auto.
  - (* BALANCE / INTEGER *)
    subst y.
    assert (Hgoal : (do r <- bal_div cp b (amt_of_Z 0); Ok (VBal r)) = Err EDivZero \/
                    (bal_is_realzero b = true /\ (do r <- bal_div cp b (amt_of_Z 0); Ok (VBal r)) = Ok (VBal b))).
    { destruct (bal_div_zero cp b (amt_of_Z 0) eq_refl) as [H|[H1 H2]]; [rewrite H | rewrite H2]; cbn [bind]; auto. }
    destruct b as [|b0 [|b1 b']]; (destruct Hgoal as [H|[H1 H2]]; [left; exact H | right; right; eexists; eauto]).
  - (* BALANCE / AMOUNT *)
    destruct b as [|x [|x' b']].
    + destruct (has_comm c); auto.
      destruct (bal_div_zero cp [] c Hz) as [H|[H1 H2]]; [rewrite H | rewrite H2]; cbn [bind]; auto.
      right. right. exists []. auto.
    + rewrite amt_div_zero by exact Hz. cbn. auto.
    + destruct (has_comm c); auto.
      destruct (bal_div_zero cp (x :: x' :: b') c Hz) as [H|[H1 H2]]; [rewrite H | rewrite H2]; cbn [bind]; auto.
      right. right. eexists. auto.
  - (* BALANCE / BALANCE: unsupported *)
    destruct b as [|x [|x' b']]; auto.
Qed.

(* conversely: a quotient was produced only by a nonzero divisor *)
Lemma v_div_int_ok_nonzero cp x y r : v_div cp (VInt x) (VInt y) = Ok r -> y <> 0.
Proof. cbn [v_div]. destruct (y =? 0) eqn:E; [discriminate|]. intros _. apply Z.eqb_neq. exact E. Qed.

(* the guards are exactly zero tests: a nonzero INTEGER divisor always divides *)
Lemma v_div_int_nonzero_ok cp x y : y <> 0 -> v_div cp (VInt x) (VInt y) = Ok (VInt (Z.quot x y)).
Proof. intros H. cbn [v_div]. apply Z.eqb_neq in H. rewrite H. reflexivity. Qed.
