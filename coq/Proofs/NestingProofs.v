(* Proofs about the nesting model of the expression parser (Model/Nesting.v). *)
From LedgerV Require Import Base.Prelude Model.Nesting.
Local Open Scope Z_scope.

Definition not_op_head (ts : list tok) : Prop :=
  match ts with TOp :: _ => False | _ => True end.

Lemma nest_cons n rest :
  nest (S n) ++ rest = TLp :: (nest n ++ TRp :: rest).
Proof.
  unfold nest. cbn [repeat app]. f_equal.
  rewrite <- !app_assoc. f_equal. cbn [app]. f_equal.
  induction n as [|n IH]; [reflexivity|]. cbn [repeat app]. f_equal. exact IH.
Qed.

Lemma parse_tail_not_op limit fuel d m ts :
  not_op_head ts -> parse_tail limit (S fuel) d m ts = Ok (true, m, ts).
Proof.
  intros H. cbn [parse_tail]. destruct ts as [|[] ts']; try reflexivity. destruct H.
Qed.

(* n nested parentheses are accepted without a limit and reach level d + n *)
Lemma nest_parse :
  forall n fuel d rest, (3 * n + 3 <= fuel)%nat -> not_op_head rest ->
    parse_expr None fuel d (nest n ++ rest) = Ok (true, d + Z.of_nat n, rest).
Proof.
  induction n as [|n IH]; intros fuel d rest Hf Hr.
  - destruct fuel as [|[|[|f]]]; try lia. cbn [nest repeat app parse_expr parse_term].
    rewrite parse_tail_not_op by exact Hr. f_equal. f_equal. f_equal. lia.
  - rewrite nest_cons.
    destruct fuel as [|[|f]]; try lia.
    cbn [parse_expr parse_term].
    rewrite (IH f (d + 1) (TRp :: rest)) by (cbn; trivial; lia).
    destruct f as [|f']; [lia|].
    rewrite parse_tail_not_op by exact Hr. f_equal. f_equal. f_equal. lia.
Qed.

Lemma nest_length n : length (nest n) = (2 * n + 1)%nat.
Proof. unfold nest. rewrite app_length. cbn [length]. rewrite !repeat_length. lia. Qed.

Lemma nest_depth n : parse_depth None (nest n) = Ok (Z.of_nat n).
Proof.
  unfold parse_depth.
  pose proof (nest_parse n (3 * length (nest n) + 3) 0 [] ) as H.
  rewrite app_nil_r in H. rewrite H; [reflexivity| rewrite nest_length; lia | exact I].
Qed.

(* without a guard the depth is unbounded *)
Lemma parse_depth_unbounded_proof :
  forall n : Z, exists ts d, parse_depth None ts = Ok d /\ n <= d.
Proof.
  intros n. exists (nest (Z.to_nat n)), (Z.of_nat (Z.to_nat n)).
  split; [apply nest_depth | lia].
Qed.

(* and so is the number of C++ frames *)
Lemma stack_need_unbounded_proof :
  forall B : Z, exists ts d, parse_depth None ts = Ok d /\ B < stack_frames d.
Proof.
  intros B. destruct (parse_depth_unbounded_proof (Z.max 0 B)) as [ts [d [H Hd]]].
  exists ts, d. split; [exact H|]. unfold stack_frames, frames_per_level. lia.
Qed.

(* the level reported is between the current level and the limit *)
Lemma depth_invariant limit :
  forall fuel d,
    (forall ts nn m rest, parse_term limit fuel d ts = Ok (nn, m, rest) ->
        d <= m /\ (forall L, limit = Some L -> d <= L -> m <= L)) /\
    (forall ts nn m rest, parse_expr limit fuel d ts = Ok (nn, m, rest) ->
        d <= m /\ (forall L, limit = Some L -> d <= L -> m <= L)) /\
    (forall ts m0 nn m rest, parse_tail limit fuel d m0 ts = Ok (nn, m, rest) ->
        m0 <= m /\ (forall L, limit = Some L -> d <= L -> m0 <= L -> m <= L)).
Proof.
  induction fuel as [|f IH]; intros d.
  - repeat split; intros; cbn in *; discriminate.
  - destruct (IH d) as [IHt [IHe IHl]]. destruct (IH (d + 1)) as [_ [IHe1 _]].
    split; [|split].
    + intros ts nn m rest H. cbn [parse_term] in H.
      destruct ts as [|[] ts'].
      * injection H as <- <- <-. split; [lia | intros; assumption].
      * destruct (match limit with Some L => L <? d + 1 | None => false end) eqn:Elim; [discriminate|].
        destruct (parse_expr limit f (d + 1) ts') as [[[nn1 m1] r1]|e] eqn:E; [|discriminate].
        destruct r1 as [|[] r1']; try discriminate.
        injection H as <- <- <-.
        apply IHe1 in E as [Hge Hle]. split; [lia|].
        intros L HL HdL. subst limit. apply Z.ltb_ge in Elim. apply (Hle L eq_refl). lia.
      * injection H as <- <- <-. split; [lia | intros; assumption].
      * injection H as <- <- <-. split; [lia | intros; assumption].
      * injection H as <- <- <-. split; [lia | intros; assumption].
    + intros ts nn m rest H. cbn [parse_expr] in H.
      destruct (parse_term limit f d ts) as [[[nn1 m1] r1]|e] eqn:E; [|discriminate].
      apply IHt in E as [Hge Hle].
      destruct nn1.
      * apply IHl in H as [Hge2 Hle2]. split; [lia|].
        intros L HL HdL. apply (Hle2 L HL HdL). apply (Hle L HL HdL).
      * injection H as <- <- <-. split; [lia | exact Hle].
    + intros ts m0 nn m rest H. cbn [parse_tail] in H.
      destruct ts as [|[] ts'];
        try (injection H as <- <- <-; split; [lia | intros; assumption]).
      destruct (parse_term limit f d ts') as [[[nn1 m1] r1]|e] eqn:E; [|discriminate].
      destruct nn1; [|discriminate].
      apply IHt in E as [Hge Hle].
      apply IHl in H as [Hge2 Hle2]. split; [lia|].
      intros L HL HdL Hm0. apply (Hle2 L HL HdL). specialize (Hle L HL HdL). lia.
Qed.

Lemma parse_depth_le_limit_proof :
  forall L ts d, 0 <= L -> parse_depth (Some L) ts = Ok d -> d <= L.
Proof.
  intros L ts d HL H. unfold parse_depth in H.
  destruct (parse_expr (Some L) (3 * length ts + 3) 0 ts) as [[[nn m] r]|e] eqn:E; [|discriminate].
  injection H as <-.
  destruct (depth_invariant (Some L) (3 * length ts + 3) 0) as [_ [He _]].
  apply He in E as [_ Hle]. apply (Hle L eq_refl HL).
Qed.

(* an accepted nest n reaches level n whatever the limit, so a limit below n rejects it *)
Lemma nest_reaches limit :
  forall n fuel d rest nn m r,
    parse_expr limit fuel d (nest n ++ rest) = Ok (nn, m, r) -> d + Z.of_nat n <= m.
Proof.
  induction n as [|n IH]; intros fuel d rest nn m r H.
  - destruct (depth_invariant limit fuel d) as [_ [He _]]. apply He in H as [Hge _]. lia.
  - rewrite nest_cons in H. destruct fuel as [|[|f]]; try discriminate.
    cbn [parse_expr parse_term] in H.
    destruct (match limit with Some L => L <? d + 1 | None => false end); [discriminate|].
    destruct (parse_expr limit f (d + 1) (nest n ++ TRp :: rest)) as [[[nn1 m1] r1]|e] eqn:E; [|discriminate].
    destruct r1 as [|[] r1']; try discriminate.
    apply IH in E.
    destruct nn1.
    + destruct (depth_invariant limit (S f) d) as [_ [_ Hl]]. apply Hl in H as [Hge _]. lia.
    + injection H as <- <- <-. lia.
Qed.

Lemma nest_rejected_over_limit :
  forall L n, 0 <= L -> L < Z.of_nat n -> exists e, parse_depth (Some L) (nest n) = Err e.
Proof.
  intros L n HL Hn.
  destruct (parse_depth (Some L) (nest n)) as [d|e] eqn:E; [|eauto].
  exfalso.
  pose proof (parse_depth_le_limit_proof L (nest n) d HL E) as Hle.
  unfold parse_depth in E.
  destruct (parse_expr (Some L) (3 * length (nest n) + 3) 0 (nest n)) as [[[nn m] r]|] eqn:E2; [|discriminate].
  injection E as <-.
  rewrite <- (app_nil_r (nest n)) in E2 at 2. apply nest_reaches in E2. lia.
Qed.

(* ---- the length bound ---- *)
Lemma parse_guarded_fetched_le :
  forall dl T ts d, parse_guarded dl (Some T) ts = Ok d -> consumed dl ts + 1 <= T.
Proof.
  intros dl T ts d H. unfold parse_guarded in H. unfold consumed.
  destruct (parse_expr dl (3 * length ts + 3) 0 ts) as [[[nn m] rest]|e]; [|discriminate].
  destruct (T <? Z.of_nat (length ts) - Z.of_nat (length rest) + 1) eqn:E; [discriminate|].
  apply Z.ltb_ge in E. lia.
Qed.

Lemma parse_guarded_depth :
  forall dl tl ts d, parse_guarded dl tl ts = Ok d -> parse_depth dl ts = Ok d.
Proof.
  intros dl tl ts d H. unfold parse_guarded in H. unfold parse_depth.
  destruct (parse_expr dl (3 * length ts + 3) 0 ts) as [[[nn m] rest]|e]; [|discriminate].
  destruct (match tl with Some T => T <? _ | None => false end); [discriminate|]. exact H.
Qed.

Lemma parse_guarded_both_limits :
  forall L T ts d, 0 <= L -> parse_guarded (Some L) (Some T) ts = Ok d ->
    d <= L /\ consumed (Some L) ts + 1 <= T.
Proof.
  intros L T ts d HL H. split.
  - eapply parse_depth_le_limit_proof; [exact HL|]. eapply parse_guarded_depth. exact H.
  - eapply parse_guarded_fetched_le. exact H.
Qed.

(* a chain of k operators is accepted without a length bound and wholly consumed: the operator
   tree, and with it the recursion of compile / calc / the destructor, is as deep as one likes *)
Lemma parse_tail_op_val limit f d m rest :
  parse_tail limit (S (S f)) d m (TOp :: TVal :: rest) = parse_tail limit (S f) d (Z.max m d) rest.
Proof. reflexivity. Qed.

Lemma op_tail_parse :
  forall k fuel d rest, (2 * k + 1 <= fuel)%nat -> not_op_head rest ->
    parse_tail None fuel d d (op_tail k ++ rest) = Ok (true, d, rest).
Proof.
  induction k as [|k IH]; intros fuel d rest Hf Hr.
  - destruct fuel as [|f]; [lia|]. cbn [op_tail app]. apply parse_tail_not_op. exact Hr.
  - destruct fuel as [|[|f]]; try lia.
    cbn [op_tail app]. rewrite parse_tail_op_val, Z.max_id. apply IH; [lia | exact Hr].
Qed.

Lemma op_tail_length k : length (op_tail k) = (2 * k)%nat.
Proof. induction k as [|k IH]; cbn [op_tail length]; lia. Qed.

Lemma chain_parse k :
  parse_expr None (3 * length (chain k) + 3) 0 (chain k) = Ok (true, 0, []).
Proof.
  unfold chain. cbn [length]. rewrite op_tail_length.
  replace (3 * S (2 * k) + 3)%nat with (S (S (6 * k + 4))) by lia.
  cbn [parse_expr parse_term].
  rewrite <- (app_nil_r (op_tail k)). apply op_tail_parse; [lia | exact I].
Qed.

Lemma chain_accepted_unbounded k :
  parse_guarded None None (chain k) = Ok 0 /\ consumed None (chain k) = 2 * Z.of_nat k + 1.
Proof.
  unfold parse_guarded, consumed. rewrite chain_parse. split; [reflexivity|].
  unfold chain. cbn [length]. rewrite op_tail_length. lia.
Qed.

Lemma expression_length_unbounded_proof :
  forall n : Z, exists ts d, parse_guarded None None ts = Ok d /\ n <= consumed None ts.
Proof.
  intros n. exists (chain (Z.to_nat n)), 0.
  destruct (chain_accepted_unbounded (Z.to_nat n)) as [H1 H2]. split; [exact H1|]. rewrite H2. lia.
Qed.

(* with the bound T the same chain is rejected as soon as its 2 k + 1 tokens and the
   end-of-input token exceed T *)
Lemma chain_rejected_over_limit :
  forall T k, T < 2 * Z.of_nat k + 2 -> parse_guarded None (Some T) (chain k) = Err EOther.
Proof.
  intros T k H. unfold parse_guarded. rewrite chain_parse.
  unfold chain. cbn [length]. rewrite op_tail_length.
  replace (T <? Z.of_nat (S (2 * k)) - Z.of_nat 0 + 1) with true; [reflexivity|].
  symmetry. apply Z.ltb_lt. lia.
Qed.

Lemma chain_accepted_within_limit :
  forall T k, 2 * Z.of_nat k + 2 <= T -> parse_guarded None (Some T) (chain k) = Ok 0.
Proof.
  intros T k H. unfold parse_guarded. rewrite chain_parse.
  unfold chain. cbn [length]. rewrite op_tail_length.
  replace (T <? Z.of_nat (S (2 * k)) - Z.of_nat 0 + 1) with false; [reflexivity|].
  symmetry. apply Z.ltb_ge. lia.
Qed.

(* ---- the query parser's two limits on the shape "k terms inside d nested parentheses" ---- *)
Lemma query_accept_spec D T d k :
  query_accept (Some D) (Some T) d k = true <-> d <= D /\ 2 * d + k + 1 <= T.
Proof.
  unfold query_accept, within_limit, query_term_calls.
  rewrite andb_true_iff, !Z.leb_le. tauto.
Qed.
