(* Proofs about the nesting model of the expression parser (Model/Nesting.v). *)
From LedgerV Require Import Base.Prelude Model.Nesting.
Local Open Scope Z_scope.

Definition not_op_head (ts : list tok) : Prop :=
  match ts with TOp :: _ => False | _ => True end.

Lemma nest_cons n rest :
  nest (S n) ++ rest = TLp :: (nest n ++ TRp :: rest).
Proof.
  unfold nest. cbn [repeat app]. f_equal.
  rewrite <- !app_assoc. f_equal. cbn [app]. f_equal.
  induction n as [|n IH]; [reflexivity|]. cbn [repeat app]. f_equal. exact IH.
Qed.

Lemma parse_tail_not_op limit fuel d m ts :
  not_op_head ts -> parse_tail limit fuel d m ts = Ok (m, ts).
Proof.
  intros H. destruct fuel; [reflexivity|]. cbn [parse_tail].
  destruct ts as [|[] ts']; try reflexivity. destruct H.
Qed.

(* n nested parentheses are accepted without a limit and reach level d + n *)
Lemma nest_parse :
  forall n fuel d rest, (2 * n + 1 <= fuel)%nat -> not_op_head rest ->
    parse_term None fuel d (nest n ++ rest) = Ok (d + Z.of_nat n, rest).
Proof.
  induction n as [|n IH]; intros fuel d rest Hf Hr.
  - destruct fuel as [|f]; [lia|]. cbn [nest repeat app parse_term].
    rewrite parse_tail_not_op by exact Hr. f_equal. f_equal. lia.
  - rewrite nest_cons.
    destruct fuel as [|[|f]]; try lia.
    cbn [parse_term inner].
    rewrite (IH f (d + 1) (TRp :: rest)) by (cbn; trivial; lia).
    rewrite parse_tail_not_op by exact Hr. f_equal. f_equal. lia.
Qed.

Lemma nest_length n : length (nest n) = (2 * n + 1)%nat.
Proof. unfold nest. rewrite app_length. cbn [length]. rewrite !repeat_length. lia. Qed.

Lemma nest_depth n : parse_depth None (nest n) = Ok (Z.of_nat n).
Proof.
  unfold parse_depth.
  pose proof (nest_parse n (3 * length (nest n) + 3) 0 [] ) as H.
  rewrite app_nil_r in H. rewrite H; [reflexivity| rewrite nest_length; lia | exact I].
Qed.

(* without a guard the depth is unbounded *)
Lemma parse_depth_unbounded_proof :
  forall n : Z, exists ts d, parse_depth None ts = Ok d /\ n <= d.
Proof.
  intros n. exists (nest (Z.to_nat n)), (Z.of_nat (Z.to_nat n)).
  split; [apply nest_depth | lia].
Qed.

(* and so is the number of C++ frames *)
Lemma stack_need_unbounded_proof :
  forall B : Z, exists ts d, parse_depth None ts = Ok d /\ B < stack_frames d.
Proof.
  intros B. destruct (parse_depth_unbounded_proof (Z.max 0 B)) as [ts [d [H Hd]]].
  exists ts, d. split; [exact H|]. unfold stack_frames, frames_per_level. lia.
Qed.

(* with a guard L every accepted expression stays within L levels *)
Lemma limit_invariant L :
  forall fuel d,
    d <= L ->
    (forall ts m rest, parse_term (Some L) fuel d ts = Ok (m, rest) -> m <= L) /\
    (forall ts m rest, inner (Some L) fuel d ts = Ok (m, rest) -> d + 1 <= L -> m <= L) /\
    (forall ts m0 m rest, m0 <= L -> parse_tail (Some L) fuel d m0 ts = Ok (m, rest) -> m <= L).
Proof.
  induction fuel as [|f IH]; intros d Hd.
  - repeat split; intros; cbn in *; try discriminate.
    match goal with H : Ok _ = Ok _ |- _ => injection H as <- _ end. assumption.
  - repeat split.
    + intros ts m rest H. cbn [parse_term] in H.
      destruct ts as [|[] ts']; try discriminate.
      * destruct (L <? d + 1) eqn:E; [discriminate|]. apply Z.ltb_ge in E.
        destruct (IH d Hd) as [_ [Hi _]]. eapply Hi; [exact H | lia].
      * destruct (IH d Hd) as [_ [_ Ht]]. eapply Ht; [exact Hd | exact H].
    + intros ts m rest H Hd1. cbn [inner] in H.
      destruct (parse_term (Some L) f (d + 1) ts) as [[m1 r1]|e] eqn:E; [|discriminate].
      destruct r1 as [|[] r1']; try discriminate.
      destruct (IH (d + 1) Hd1) as [Hp _]. apply Hp in E.
      destruct (IH d Hd) as [_ [_ Ht]]. eapply Ht; [exact E | exact H].
    + intros ts m0 m rest Hm0 H. cbn [parse_tail] in H.
      destruct ts as [|[] ts'];
        try (injection H as <- _; assumption).
      destruct (parse_term (Some L) f d ts') as [[m1 r1]|e] eqn:E; [|discriminate].
      injection H as <- _.
      destruct (IH d Hd) as [Hp _]. apply Hp in E. lia.
Qed.

Lemma parse_depth_le_limit_proof :
  forall L ts d, 0 <= L -> parse_depth (Some L) ts = Ok d -> d <= L.
Proof.
  intros L ts d HL H. unfold parse_depth in H.
  destruct (parse_term (Some L) (3 * length ts + 3) 0 ts) as [[m r]|e] eqn:E; [|discriminate].
  destruct r; [|discriminate]. injection H as <-.
  destruct (limit_invariant L (3 * length ts + 3) 0 HL) as [Hp _]. eapply Hp. exact E.
Qed.

(* and an input nested more deeply than the guard is rejected, not parsed *)
Lemma nest_rejected_over_limit :
  forall L n, 0 <= L -> L < Z.of_nat n -> exists e, parse_depth (Some L) (nest n) = Err e.
Proof.
  intros L n HL Hn.
  destruct (parse_depth (Some L) (nest n)) as [d|e] eqn:E; [|eauto].
  exfalso.
  (* an accepted nest n would have depth n: the parser's result does not depend on the limit
     when it accepts; shown through the level reached *)
  assert (Hge : forall fuel d0 rest m r,
             parse_term (Some L) fuel d0 (nest n ++ rest) = Ok (m, r) -> d0 + Z.of_nat n <= m).
  { clear E d Hn. induction n as [|n IH]; intros fuel d0 rest m r H.
    - destruct fuel; [discriminate|]. cbn [nest repeat app parse_term] in H.
      assert (Hmono : forall f d1 m1 ts m2 r2, parse_tail (Some L) f d1 m1 ts = Ok (m2, r2) -> m1 <= m2).
      { intros f d1 m1 ts m2 r2 Ht. destruct f; cbn [parse_tail] in Ht.
        - injection Ht as <- _. lia.
        - destruct ts as [|[] ts']; try (injection Ht as <- _; lia).
          destruct (parse_term (Some L) f d1 ts') as [[m3 r3]|]; [|discriminate].
          injection Ht as <- _. lia. }
      apply Hmono in H. lia.
    - rewrite nest_cons in H. destruct fuel as [|[|f]]; try discriminate.
      + cbn [parse_term] in H. destruct (L <? d0 + 1); discriminate.
      + cbn [parse_term inner] in H.
        destruct (L <? d0 + 1); [discriminate|].
        destruct (parse_term (Some L) f (d0 + 1) (nest n ++ TRp :: rest)) as [[m1 r1]|] eqn:E1; [|discriminate].
        destruct r1 as [|[] r1']; try discriminate.
        apply IH in E1.
        assert (Hmono : forall f d1 m1 ts m2 r2, parse_tail (Some L) f d1 m1 ts = Ok (m2, r2) -> m1 <= m2).
        { intros f0 d1 m2 ts m3 r2 Ht. destruct f0; cbn [parse_tail] in Ht.
          - injection Ht as <- _. lia.
          - destruct ts as [|[] ts']; try (injection Ht as <- _; lia).
            destruct (parse_term (Some L) f0 d1 ts') as [[m4 r4]|]; [|discriminate].
            injection Ht as <- _. lia. }
        apply Hmono in H. lia. }
  pose proof (parse_depth_le_limit_proof L (nest n) d HL E) as Hle.
  unfold parse_depth in E.
  destruct (parse_term (Some L) (3 * length (nest n) + 3) 0 (nest n)) as [[m r]|] eqn:E2; [|discriminate].
  destruct r; [|discriminate]. injection E as <-.
  rewrite <- (app_nil_r (nest n)) in E2 at 2. apply Hge in E2. lia.
Qed.
