(* The payee look-up of journal_t::register_account (Model/UnknownPayee.v). *)
From LedgerV Require Import Base.Prelude Model.UnknownPayee.
Local Open Scope Z_scope.

(* with the test of post->xact the look-up never reads through a null pointer, whatever the
   account, the table and the registrant *)
Lemma guarded_never_null name maps who : register_unknown true name maps who <> NullDeref.
Proof.
  unfold register_unknown.
  destruct (last_is_unknown name); [|discriminate].
  destruct who as [| |payee]; try discriminate.
  destruct (first_match maps payee); discriminate.
Qed.

(* without it: an account whose last segment is Unknown, a table with at least one entry and a
   posting that has no transaction *)
Lemma unguarded_null name m maps :
  last_is_unknown name = true -> register_unknown false name (m :: maps) PostNoXact = NullDeref.
Proof. intros H. unfold register_unknown. rewrite H. reflexivity. Qed.

(* and those are the only inputs on which the test matters *)
Lemma unguarded_differs_only_there name maps who :
  register_unknown false name maps who <> register_unknown true name maps who ->
  last_is_unknown name = true /\ maps <> [] /\ who = PostNoXact.
Proof.
  unfold register_unknown.
  destruct (last_is_unknown name); [|intros H; exfalso; apply H; reflexivity].
  destruct who as [| |payee]; try (intros H; exfalso; apply H; reflexivity).
  destruct maps as [|m maps]; [intros H; exfalso; apply H; reflexivity|].
  intros _. repeat split. discriminate.
Qed.

(* a registrant without a payee (an account directive, a posting of an automated or periodic
   transaction) keeps the account it named *)
Lemma no_payee_keeps_name name maps who :
  who = NoPost \/ who = PostNoXact -> register_unknown true name maps who = Registered name.
Proof.
  intros [-> | ->]; unfold register_unknown; destruct (last_is_unknown name); reflexivity.
Qed.

(* an account whose last segment is not Unknown is never re-routed *)
Lemma other_names_untouched g name maps who :
  last_is_unknown name = false -> register_unknown g name maps who = Registered name.
Proof. intros H. unfold register_unknown. rewrite H. reflexivity. Qed.

(* first_match is the FIRST entry, in table order, whose mask matches *)
Lemma first_match_spec maps payee a :
  first_match maps payee = Some a <->
  exists before m after, maps = before ++ (m, a) :: after /\ mask_match m payee = true /\
                         forall m' a', In (m', a') before -> mask_match m' payee = false.
Proof.
  induction maps as [|[m0 a0] maps IH]; cbn [first_match].
  - split; [discriminate|]. intros (before & m & after & H & _). destruct before; discriminate.
  - destruct (mask_match m0 payee) eqn:E.
    + split.
      * intros H. injection H as <-. exists [], m0, maps. repeat split; [exact E|]. intros ? ? [].
      * intros (before & m & after & H & Hm & Hb). destruct before as [|[m1 a1] before].
        -- cbn in H. injection H as <- <- _. reflexivity.
        -- cbn in H. injection H as -> -> _. rewrite (Hb m1 a1 (or_introl eq_refl)) in E. discriminate.
    + rewrite IH. split.
      * intros (before & m & after & -> & Hm & Hb). exists ((m0, a0) :: before), m, after.
        repeat split; [exact Hm|]. intros m' a' [H|H]; [injection H as <- <-; exact E | exact (Hb m' a' H)].
      * intros (before & m & after & H & Hm & Hb). destruct before as [|[m1 a1] before].
        -- cbn in H. injection H as -> _ _. rewrite Hm in E. discriminate.
        -- cbn in H. injection H as _ _ ->. exists before, m, after. repeat split; [exact Hm|].
           intros m' a' Hin. apply (Hb m' a'). right. exact Hin.
Qed.

Lemma first_match_none maps payee :
  first_match maps payee = None <-> forall m a, In (m, a) maps -> mask_match m payee = false.
Proof.
  induction maps as [|[m0 a0] maps IH]; cbn [first_match].
  - split; [intros _ ? ? []|reflexivity].
  - destruct (mask_match m0 payee) eqn:E.
    + split; [discriminate|]. intros H. rewrite (H m0 a0 (or_introl eq_refl)) in E. discriminate.
    + rewrite IH. split.
      * intros H m a [Hin|Hin]; [injection Hin as <- <-; exact E | exact (H m a Hin)].
      * intros H m a Hin. apply (H m a). right. exact Hin.
Qed.

(* a posting of a dated transaction to ...:Unknown goes to the account of the first matching
   entry, and stays where it is when no entry matches *)
Lemma dated_posting_routed name maps payee :
  last_is_unknown name = true ->
  register_unknown true name maps (PostIn payee) =
  Registered (match first_match maps payee with Some a => a | None => name end).
Proof.
  intros H. unfold register_unknown. rewrite H. destruct (first_match maps payee); reflexivity.
Qed.
