(* Proofs about Model/Xact.v (finalize).  Used by Properties_C01.v and Properties_C02.v. *)
From LedgerV Require Import Base.Prelude Base.Round Model.Amount Model.Xact
  Proofs.AmountProofs Proofs.RoundProofs.
From Coq Require Import Qabs Permutation Lqa Setoid.
Local Open Scope Q_scope.
Local Opaque Qred.

(* ------------------------------------------------------------ the balance is the exact sum *)

(* exact contribution of the postings that must balance, in commodity c: cost if any, else amount *)
Fixpoint bsum (ps : list post) (c : option comm) : Q :=
  match ps with
  | [] => 0
  | p :: ps' =>
      (if must_balance p then match balancing_amount p with Some a => at_comm a c | None => 0 end else 0)
      + bsum ps' c
  end.

Definition is_sum_value (v : value) : Prop :=
  match v with VVoid | VAmt _ | VBal _ => True | _ => False end.

Lemma at_comm_unkeep a c : at_comm (unkeep a) c = at_comm a c.
Proof. reflexivity. Qed.

Lemma add_or_set_exact ord bal a bal' c :
  add_or_set ord bal a = Ok bal' -> den bal' c == den bal c + at_comm a c.
Proof.
  unfold add_or_set. destruct bal as [| b | z | x | b]; try apply v_add_exact.
  intros [= <-]. cbn [den]. ring.
Qed.

(* adding an amount to a sum value never fails and gives a sum value *)
Lemma amt_add_same_comm x a : comm_eqb (acomm x) (acomm a) = true -> exists s, amt_add x a = Ok s.
Proof.
  intros H. unfold amt_add, diff_comm. rewrite H. rewrite andb_false_r. eexists; reflexivity.
Qed.

Lemma bal_add_amt_ok ord b a : exists b', bal_add_amt ord b a = Ok b'.
Proof.
  unfold bal_add_amt. destruct (is_realzero a); [eexists; reflexivity|].
  destruct (bal_find (acomm a) b) as [x|] eqn:Hf; [|eexists; reflexivity].
  destruct (amt_add_same_comm x a (bal_find_some _ _ _ Hf)) as [s Hs]. rewrite Hs. cbn [bind].
  eexists; reflexivity.
Qed.

Lemma add_or_set_ok ord bal a :
  is_sum_value bal -> exists bal', add_or_set ord bal a = Ok bal' /\ is_sum_value bal' /\ bal' <> VVoid.
Proof.
  destruct bal as [| b | z | x | b]; cbn [is_sum_value]; try contradiction; intros _; unfold add_or_set.
  - eexists; split; [reflexivity|]. split; [exact I | discriminate].
  - cbn [v_add]. destruct (comm_eqb (acomm x) (acomm a)) eqn:Hc.
    + destruct (amt_add_same_comm x a Hc) as [s Hs]. rewrite Hs. cbn [bind].
      eexists; split; [reflexivity|]. split; [exact I | discriminate].
    + destruct (bal_add_amt_ok ord (bal_of_amt x) a) as [b' Hb]. rewrite Hb. cbn [bind].
      eexists; split; [reflexivity|]. split; [exact I | discriminate].
  - cbn [v_add]. destruct (bal_add_amt_ok ord b a) as [b' Hb]. rewrite Hb. cbn [bind].
    eexists; split; [reflexivity|]. split; [exact I | discriminate].
Qed.

Lemma scan_posts_exact ord c : forall ps i bal nul bal' nul',
  scan_posts ord ps i bal nul = Ok (bal', nul') -> den bal' c == den bal c + bsum ps c.
Proof.
  induction ps as [|p ps IH]; intros i bal nul bal' nul'; cbn [scan_posts bsum].
  - intros [= <- <-]. ring.
  - destruct (must_balance p); cbn [negb].
    + destruct (balancing_amount p) as [a|].
      * destruct (add_or_set ord bal (unkeep a)) as [b1|] eqn:E; cbn [bind]; [|discriminate].
        intros H. rewrite (IH _ _ _ _ _ H), (add_or_set_exact _ _ _ _ c E), at_comm_unkeep. ring.
      * destruct nul; [discriminate|]. intros H. rewrite (IH _ _ _ _ _ H). ring.
    + intros H. rewrite (IH _ _ _ _ _ H). ring.
Qed.

(* number of postings that must balance and have no amount *)
Fixpoint count_nulls (ps : list post) : nat :=
  match ps with
  | [] => O
  | p :: ps' => ((if must_balance p then match balancing_amount p with None => 1 | Some _ => 0 end else 0)
                 + count_nulls ps')%nat
  end.

Lemma scan_posts_nulls ord : forall ps i bal nul,
  is_sum_value bal ->
  (match nul with Some _ => (1 <= count_nulls ps)%nat | None => (2 <= count_nulls ps)%nat end) ->
  scan_posts ord ps i bal nul = Err ETwoNulls.
Proof.
  induction ps as [|p ps IH]; intros i bal nul Hb Hn; cbn [scan_posts count_nulls] in *.
  - destruct nul; lia.
  - destruct (must_balance p); cbn [negb].
    + destruct (balancing_amount p) as [a|].
      * destruct (add_or_set_ok ord bal (unkeep a) Hb) as [b1 [E [Hb1 _]]]. rewrite E. cbn [bind].
        apply IH; [exact Hb1 | exact Hn].
      * destruct nul as [k|]; [reflexivity|]. apply IH; [exact Hb | cbn; lia].
    + apply IH; [exact Hb | exact Hn].
Qed.

Lemma scan_posts_total ord : forall ps i bal nul,
  is_sum_value bal ->
  (match nul with Some _ => count_nulls ps = 0%nat | None => (count_nulls ps <= 1)%nat end) ->
  exists bal' nul', scan_posts ord ps i bal nul = Ok (bal', nul') /\ is_sum_value bal'.
Proof.
  induction ps as [|p ps IH]; intros i bal nul Hb Hn; cbn [scan_posts count_nulls] in *.
  - eexists _, _. split; [reflexivity | exact Hb].
  - destruct (must_balance p); cbn [negb].
    + destruct (balancing_amount p) as [a|].
      * destruct (add_or_set_ok ord bal (unkeep a) Hb) as [b1 [E [Hb1 _]]]. rewrite E. cbn [bind].
        apply IH; [exact Hb1 | exact Hn].
      * destruct nul as [k|]; [lia|]. apply IH; [exact Hb | cbn; lia].
    + apply IH; [exact Hb | exact Hn].
Qed.

(* ------------------------------------------------------------ display zero is less than a unit *)

Lemma Qabs_lt_1_of_half n d p :
  (0 < d)%Z -> (0 <= p)%Z -> (2 * Z.abs n * 10 ^ p <= d)%Z -> Qabs (n # Z.to_pos d) < 1.
Proof.
  intros Hd Hp H. unfold Qabs, Qlt. cbn. rewrite Z2Pos.id by exact Hd.
  assert (0 < 10 ^ p)%Z by (apply Z.pow_pos_nonneg; lia). nia.
Qed.

Lemma is_zero_lt_unit cp a :
  (forall c, 0 <= cp c <= 230)%Z -> is_zero cp a = true -> Qabs (aq a) < 1.
Proof.
  intros Hcp. unfold is_zero.
  assert (Hrz : is_realzero a = true -> Qabs (aq a) < 1).
  { intros H. apply is_realzero_spec in H. rewrite H. reflexivity. }
  destruct (acomm a) as [c|]; [|exact Hrz].
  destruct (akeep a || (aprec a <=? cp c))%Z; [exact Hrz|].
  destruct (is_realzero a) eqn:Hz; [intros _; apply Hrz; reflexivity|].
  destruct (aq a) as [n d] eqn:Eq. cbn [Qnum Qden].
  destruct (Z.ltb_spec (Z.pos d) n); [discriminate|].
  intros Hp. apply Z.eqb_eq in Hp.
  pose proof (print_half_ulp_230 n (Z.pos d) (cp c) ltac:(lia) (Hcp c)) as Hh.
  rewrite Hp, Z.mul_0_l, Z.sub_0_l, Z.abs_opp, Z.abs_mul in Hh.
  assert (H10 : (0 < 10 ^ cp c)%Z) by (apply Z.pow_pos_nonneg; [lia | apply Hcp]).
  rewrite (Z.abs_eq (10 ^ cp c)) in Hh by lia.
  replace (n # d) with (n # Z.to_pos (Z.pos d)) by reflexivity.
  apply (Qabs_lt_1_of_half n (Z.pos d) (cp c)); [lia | apply Hcp |]. nia.
Qed.

(* ------------------------------------------------------------ balances have distinct keys *)

Definition nodup_keys (b : balance) : Prop := NoDup (keys b).

Lemma bal_find_none_notin k b : bal_find k b = None <-> ~ In k (keys b).
Proof.
  induction b as [|x b IH]; cbn [bal_find keys map In]; [tauto|].
  destruct (comm_eqb (acomm x) k) eqn:E.
  - apply comm_eqb_eq in E. split; [discriminate | intros H; exfalso; apply H; left; exact E].
  - rewrite IH. split.
    + intros H [He|Hi]; [subst; rewrite comm_eqb_refl in E; discriminate | contradiction].
    + intros H Hi. apply H. right. exact Hi.
Qed.

Lemma keys_replace k y b :
  comm_eqb (acomm y) k = true -> keys (bal_replace k y b) = keys b.
Proof.
  intros Hy. induction b as [|x b IH]; cbn [bal_replace keys map]; [reflexivity|].
  destruct (comm_eqb (acomm x) k) eqn:E.
  - cbn [map]. apply comm_eqb_eq in E, Hy. congruence.
  - cbn [map]. unfold keys in IH. rewrite IH. reflexivity.
Qed.

Lemma nodup_insert ord a b :
  nodup_keys b -> ~ In (acomm a) (keys b) -> nodup_keys (bal_insert ord a b).
Proof.
  unfold nodup_keys, bal_insert, keys. intros Hn Hi. destruct ord.
  - cbn [map]. constructor; assumption.
  - rewrite map_app. cbn [map].
    assert (Permutation (acomm a :: map acomm b) (map acomm b ++ [acomm a])) as Hp
      by apply Permutation_cons_append.
    apply (Permutation_NoDup Hp). constructor; assumption.
Qed.

Lemma bal_add_amt_nodup ord b a b' :
  nodup_keys b -> bal_add_amt ord b a = Ok b' -> nodup_keys b'.
Proof.
  unfold bal_add_amt. intros Hn. destruct (is_realzero a); [intros [= <-]; exact Hn|].
  destruct (bal_find (acomm a) b) as [x|] eqn:Hf.
  - destruct (amt_add x a) as [s|] eqn:Hs; cbn [bind]; [|discriminate]. intros [= <-].
    unfold nodup_keys. rewrite keys_replace; [exact Hn|].
    rewrite (amt_add_comm_l _ _ _ Hs). apply (bal_find_some _ _ _ Hf).
  - intros [= <-]. apply nodup_insert; [exact Hn|]. apply bal_find_none_notin. exact Hf.
Qed.

(* with distinct keys, bden at an entry's key is that entry's quantity *)
Lemma bden_notin b c : ~ In c (keys b) -> bden b c == 0.
Proof.
  induction b as [|x b IH]; cbn [bden keys map In]; [reflexivity|].
  intros H. destruct (comm_eqb (acomm x) c) eqn:E.
  - apply comm_eqb_eq in E. exfalso. apply H. left. exact E.
  - rewrite IH; [ring|]. intros Hi. apply H. right. exact Hi.
Qed.

Lemma bden_entry b x : nodup_keys b -> In x b -> bden b (acomm x) == aq x.
Proof.
  unfold nodup_keys. induction b as [|y b IH]; cbn [keys map In bden]; [contradiction|].
  intros Hn [->|Hi].
  - rewrite comm_eqb_refl. inversion Hn as [|? ? Hnotin Hn']; subst.
    rewrite (bden_notin b (acomm x) Hnotin). ring.
  - inversion Hn as [|? ? Hnotin Hn']; subst.
    destruct (comm_eqb (acomm y) (acomm x)) eqn:E.
    + apply comm_eqb_eq in E. exfalso. apply Hnotin. rewrite E. apply in_map. exact Hi.
    + rewrite (IH Hn' Hi). ring.
Qed.

Lemma bal_find_some_in k b x : bal_find k b = Some x -> In x b.
Proof.
  induction b as [|y b IH]; cbn [bal_find]; [discriminate|].
  destruct (comm_eqb (acomm y) k); [intros [= <-]; left; reflexivity | intros H; right; apply IH; exact H].
Qed.

Definition sum_value_nodup (v : value) : Prop :=
  match v with VBal b => nodup_keys b | _ => True end.

Lemma bal_of_amt_nodup a : nodup_keys (bal_of_amt a).
Proof.
  unfold bal_of_amt, nodup_keys. destruct (is_realzero a); cbn; [constructor|].
  constructor; [intros []|constructor].
Qed.

Lemma add_or_set_nodup ord bal a bal' :
  sum_value_nodup bal -> is_sum_value bal -> add_or_set ord bal a = Ok bal' -> sum_value_nodup bal'.
Proof.
  destruct bal as [| b | z | x | b]; cbn [is_sum_value]; try contradiction; intros Hn _; unfold add_or_set.
  - intros [= <-]. exact I.
  - cbn [v_add]. destruct (comm_eqb (acomm x) (acomm a)).
    + destruct (amt_add x a); cbn [bind]; [|discriminate]. intros [= <-]. exact I.
    + destruct (bal_add_amt ord (bal_of_amt x) a) as [b'|] eqn:E; cbn [bind]; [|discriminate].
      intros [= <-]. cbn. apply (bal_add_amt_nodup _ _ _ _ (bal_of_amt_nodup x) E).
  - cbn [v_add]. destruct (bal_add_amt ord b a) as [b'|] eqn:E; cbn [bind]; [|discriminate].
    intros [= <-]. cbn. apply (bal_add_amt_nodup _ _ _ _ Hn E).
Qed.

Lemma scan_posts_nodup ord : forall ps i bal nul bal' nul',
  is_sum_value bal -> sum_value_nodup bal ->
  scan_posts ord ps i bal nul = Ok (bal', nul') -> sum_value_nodup bal' /\ is_sum_value bal'.
Proof.
  induction ps as [|p ps IH]; intros i bal nul bal' nul' Hs Hn; cbn [scan_posts].
  - intros [= <- <-]. split; assumption.
  - destruct (must_balance p); cbn [negb]; [|apply IH; assumption].
    destruct (balancing_amount p) as [a|].
    + destruct (add_or_set_ok ord bal (unkeep a) Hs) as [b1 [E [Hb1 _]]]. rewrite E. cbn [bind].
      apply IH; [exact Hb1 | apply (add_or_set_nodup _ _ _ _ Hn Hs E)].
    + destruct nul; [discriminate|]. apply IH; assumption.
Qed.

(* a display-zero sum value holds less than one unit of every commodity *)
Lemma v_is_zero_lt_unit cp v c :
  (forall k, 0 <= cp k <= 230)%Z -> is_sum_value v -> sum_value_nodup v ->
  v_is_zero cp v = true -> Qabs (den v c) < 1.
Proof.
  intros Hcp Hs Hn Hz. destruct v as [| b | z | a | b]; cbn [is_sum_value] in Hs; try contradiction.
  - reflexivity.
  - cbn [den v_is_zero] in *. unfold at_comm. destruct (comm_eqb (acomm a) c); [|reflexivity].
    apply (is_zero_lt_unit cp a Hcp Hz).
  - cbn [den v_is_zero sum_value_nodup] in *. unfold bal_is_zero in Hz.
    destruct (bal_find c b) as [x|] eqn:Hf.
    + pose proof (bal_find_some_in _ _ _ Hf) as Hi. pose proof (bal_find_some _ _ _ Hf) as Hk.
      apply comm_eqb_eq in Hk. subst c.
      rewrite (bden_entry b x Hn Hi). apply (is_zero_lt_unit cp x Hcp).
      rewrite forallb_forall in Hz. apply Hz. exact Hi.
    + rewrite (bden_notin b c); [reflexivity|]. apply bal_find_none_notin. exact Hf.
Qed.

(* an exactly zero sum value is display-zero *)
Lemma is_realzero_is_zero cp a : is_realzero a = true -> is_zero cp a = true.
Proof.
  intros H. unfold is_zero. destruct (acomm a); [|exact H].
  destruct (akeep a || (aprec a <=? cp c))%Z; [exact H|]. rewrite H. reflexivity.
Qed.

Lemma v_zero_den_is_zero cp v :
  is_sum_value v -> sum_value_nodup v -> (forall c, den v c == 0) -> v_is_zero cp v = true.
Proof.
  intros Hs Hn Hd. destruct v as [| b | z | a | b]; cbn [is_sum_value] in Hs; try contradiction.
  - reflexivity.
  - cbn [v_is_zero]. apply is_realzero_is_zero. apply is_realzero_spec.
    specialize (Hd (acomm a)). cbn [den] in Hd. unfold at_comm in Hd. rewrite comm_eqb_refl in Hd. exact Hd.
  - cbn [v_is_zero sum_value_nodup] in *. unfold bal_is_zero. apply forallb_forall. intros x Hx.
    apply is_realzero_is_zero, is_realzero_spec.
    rewrite <- (bden_entry b x Hn Hx). apply (Hd (acomm x)).
Qed.

(* ------------------------------------------------------------ the cost-free, lot-free fragment *)

Definition no_cost_no_lot (ps : list post) : Prop :=
  forall p, In p ps -> p_cost p = None /\ p_lotprice p = None.

(* costs allowed, as long as exchange() does nothing to the balance: no lot price, and the
   cost commodity differs from the amount's *)
Definition wf_costs (ps : list post) : Prop :=
  forall p, In p ps -> p_lotprice p = None /\
    match p_amt p, p_cost p with
    | Some a, Some c => comm_eqb (acomm a) (acomm c) = false
    | _, _ => True
    end.

Lemma exchange_posts_id ord cp : forall ps bal, wf_costs ps -> exchange_posts ord cp ps bal = Ok (ps, bal).
Proof.
  induction ps as [|p ps IH]; intros bal Hw; cbn [exchange_posts]; [reflexivity|].
  assert (Hw' : wf_costs ps) by (intros q Hq; apply Hw; right; exact Hq).
  destruct (Hw p (or_introl eq_refl)) as [Hl Hc].
  destruct (p_amt p) as [a|]; [|rewrite (IH bal Hw'); reflexivity].
  destruct (p_cost p) as [c|]; [|rewrite (IH bal Hw'); reflexivity].
  rewrite Hc, Hl, (IH bal Hw'). reflexivity.
Qed.

(* exactly two components that are not exactly zero (components left behind by a commodity that cancelled do not count) *)
Definition two_entries (v : value) : bool :=
  match v with
  | VBal b => match filter (fun a => negb (is_realzero a)) b with [_; _] => true | _ => false end
  | _ => false
  end.

Lemma infer_rate_id ord cp ps bal nul :
  (nul <> None \/ two_entries bal = false) -> infer_rate ord cp ps bal nul = Ok (ps, bal).
Proof.
  intros H. unfold infer_rate. destruct nul; [reflexivity|].
  destruct H as [H|H]; [contradiction|].
  destruct bal as [| ? | ? | ? | b]; try reflexivity.
  cbn [two_entries] in H.
  destruct (filter (fun a => negb (is_realzero a)) b) as [|x [|y [|z b']]]; try reflexivity. discriminate.
Qed.

Definition all_have_amounts (ps : list post) : Prop :=
  forall p, In p ps -> p_amt p <> None.

Lemma all_amounts_flags ps : ps <> [] -> all_have_amounts ps ->
  forallb (fun p => match p_amt p with None => true | Some _ => false end) ps = false /\
  existsb (fun p => match p_amt p with None => true | Some _ => false end) ps = false.
Proof.
  intros Hne Ha. split.
  - destruct ps as [|p ps]; [contradiction|]. cbn. specialize (Ha p (or_introl eq_refl)).
    destruct (p_amt p); [reflexivity | contradiction].
  - clear Hne. induction ps as [|p ps IH]; [reflexivity|]. cbn.
    pose proof (Ha p (or_introl eq_refl)). destruct (p_amt p); [|contradiction]. cbn.
    apply IH. intros q Hq. apply Ha. right. exact Hq.
Qed.

(* the outcome of finalize on a transaction without elided amounts and without the
   two-commodity rate inference: accepted exactly when the balance displays as zero *)
Lemma finalize_no_null ord cp ps bal :
  wf_costs ps -> ps <> [] -> all_have_amounts ps ->
  scan_posts ord ps 0 VVoid None = Ok (bal, None) -> two_entries bal = false ->
  finalize ord cp None ps = if v_is_zero cp bal then Ok (Accepted ps) else Err EUnbalanced.
Proof.
  intros Hw Hne Ha Hs Ht. unfold finalize, finalize_rest. rewrite Hs. cbn [bind].
  rewrite (infer_rate_id ord cp ps bal None (or_intror Ht)). cbn [bind fst snd].
  rewrite (exchange_posts_id ord cp ps bal Hw). cbn [bind].
  destruct (v_is_zero cp bal); cbn [negb]; [|reflexivity].
  destruct (all_amounts_flags ps Hne Ha) as [-> ->]. reflexivity.
Qed.

Theorem exact_balance_accepted ord cp ps bal :
  wf_costs ps -> ps <> [] -> all_have_amounts ps ->
  scan_posts ord ps 0 VVoid None = Ok (bal, None) -> two_entries bal = false ->
  (forall c, bsum ps c == 0) ->
  finalize ord cp None ps = Ok (Accepted ps).
Proof.
  intros Hw Hne Ha Hs Ht Hz. rewrite (finalize_no_null _ _ _ _ Hw Hne Ha Hs Ht).
  destruct (scan_posts_nodup ord ps 0 VVoid None bal None I I Hs) as [Hn Hsv].
  rewrite (v_zero_den_is_zero cp bal Hsv Hn); [reflexivity|].
  intros c. rewrite (scan_posts_exact ord c _ _ _ _ _ _ Hs). cbn [den]. rewrite (Hz c). ring.
Qed.

Theorem whole_unit_rejected ord cp ps bal c :
  (forall k, 0 <= cp k <= 230)%Z ->
  wf_costs ps -> ps <> [] -> all_have_amounts ps ->
  scan_posts ord ps 0 VVoid None = Ok (bal, None) -> two_entries bal = false ->
  1 <= Qabs (bsum ps c) ->
  finalize ord cp None ps = Err EUnbalanced.
Proof.
  intros Hcp Hw Hne Ha Hs Ht Hbig. rewrite (finalize_no_null _ _ _ _ Hw Hne Ha Hs Ht).
  destruct (v_is_zero cp bal) eqn:Hz; [|reflexivity]. exfalso.
  destruct (scan_posts_nodup ord ps 0 VVoid None bal None I I Hs) as [Hn Hsv].
  pose proof (v_is_zero_lt_unit cp bal c Hcp Hsv Hn Hz) as Hlt.
  assert (He : den bal c == bsum ps c).
  { rewrite (scan_posts_exact ord c _ _ _ _ _ _ Hs). cbn [den]. ring. }
  rewrite He in Hlt. apply (Qlt_not_le _ _ Hlt). exact Hbig.
Qed.

Theorem accepted_displays_zero ord cp ps bal c :
  (forall k, 0 <= cp k <= 230)%Z ->
  wf_costs ps -> ps <> [] -> all_have_amounts ps ->
  scan_posts ord ps 0 VVoid None = Ok (bal, None) -> two_entries bal = false ->
  finalize ord cp None ps = Ok (Accepted ps) ->
  v_is_zero cp bal = true /\ Qabs (bsum ps c) < 1.
Proof.
  intros Hcp Hw Hne Ha Hs Ht Hf. rewrite (finalize_no_null _ _ _ _ Hw Hne Ha Hs Ht) in Hf.
  destruct (v_is_zero cp bal) eqn:Hz; [|discriminate]. split; [reflexivity|].
  destruct (scan_posts_nodup ord ps 0 VVoid None bal None I I Hs) as [Hn Hsv].
  pose proof (v_is_zero_lt_unit cp bal c Hcp Hsv Hn Hz) as Hlt.
  assert (He : den bal c == bsum ps c).
  { rewrite (scan_posts_exact ord c _ _ _ _ _ _ Hs). cbn [den]. ring. }
  rewrite <- He. exact Hlt.
Qed.

(* when every amount is displayed at or below the commodity's precision and nothing is a
   cost, display-zero is exact zero: accepted transactions balance exactly *)
Definition within_display_precision (cp : comm -> Z) (v : value) : Prop :=
  match v with
  | VAmt a => match acomm a with Some c => (akeep a = true \/ aprec a <= cp c)%Z | None => True end
  | VBal b => forall x, In x b -> match acomm x with Some c => (akeep x = true \/ aprec x <= cp c)%Z | None => True end
  | _ => True
  end.

Lemma is_zero_exact cp a :
  match acomm a with Some c => (akeep a = true \/ aprec a <= cp c)%Z | None => True end ->
  is_zero cp a = true -> aq a == 0.
Proof.
  unfold is_zero. destruct (acomm a) as [c|]; intros H Hz; [|apply is_realzero_spec; exact Hz].
  assert (Hb : (akeep a || (aprec a <=? cp c))%Z = true).
  { destruct H as [->|H]; [reflexivity|]. apply orb_true_iff. right. apply Z.leb_le. exact H. }
  rewrite Hb in Hz. apply is_realzero_spec. exact Hz.
Qed.

(* ------------------------------------------------------------ journal grand total *)

(* the sum over a list of transactions of the balancing contributions *)
Fixpoint jsum (xs : list (list post)) (c : option comm) : Q :=
  match xs with
  | [] => 0
  | x :: xs' => bsum x c + jsum xs' c
  end.

Theorem journal_grand_total_zero xs c :
  (forall x, In x xs -> bsum x c == 0) -> jsum xs c == 0.
Proof.
  induction xs as [|x xs IH]; intros H; cbn [jsum]; [reflexivity|].
  rewrite (H x (or_introl eq_refl)), IH; [ring|]. intros y Hy. apply H. right. exact Hy.
Qed.

(* ------------------------------------------------------------ C02: the elided amount *)

Lemma fill_amounts_exact bal amts c :
  is_sum_value bal -> fill_amounts bal = Ok amts ->
  fold_right (fun a acc => at_comm a c + acc) 0 amts == den bal c.
Proof.
  intros Hs. destruct bal as [| b | z | a | b]; cbn [is_sum_value] in Hs; try contradiction; cbn [fill_amounts].
  - intros [= <-]. reflexivity.
  - intros [= <-]. cbn [fold_right den]. ring.
  - assert (Hsorted : forall l, fold_right (fun a acc => at_comm a c + acc) 0 (sorted_amounts l) == bden l c).
    { assert (Hins : forall a l, fold_right (fun a acc => at_comm a c + acc) 0 (insert_sorted a l)
                                  == at_comm a c + fold_right (fun a acc => at_comm a c + acc) 0 l).
      { intros a l. induction l as [|x l IH]; cbn [insert_sorted fold_right]; [reflexivity|].
        destruct (comm_le a x); cbn [fold_right]; [reflexivity | rewrite IH; ring]. }
      induction l as [|x l IH]; cbn [sorted_amounts fold_right bden]; [reflexivity|].
      fold (sorted_amounts l). rewrite Hins, IH. unfold at_comm. ring. }
    destruct b as [|x [|y b]].
    + intros [= <-]. cbn [fold_right den bden]. unfold at_comm, amt_of_Z. cbn [aq acomm].
      destruct (comm_eqb _ _); reflexivity.
    + intros [= <-]. cbn [fold_right den bden]. unfold at_comm. ring.
    + intros [= <-]. cbn [den]. exact (Hsorted (x :: y :: b)).
Qed.

Lemma set_null_other ps : forall i a j d, j <> i -> nth j (set_null ps i a) d = nth j ps d.
Proof.
  induction ps as [|p ps IH]; intros i a j d Hne; cbn [set_null]; [reflexivity|].
  destruct i as [|i]; destruct j as [|j]; cbn [nth]; try reflexivity; [contradiction|].
  apply IH. lia.
Qed.

Lemma set_null_length ps : forall i a, length (set_null ps i a) = length ps.
Proof.
  induction ps as [|p ps IH]; intros i a; cbn [set_null]; [reflexivity|].
  destruct i; cbn [length]; [reflexivity | rewrite IH; reflexivity].
Qed.

Lemma set_null_at ps : forall i a d, (i < length ps)%nat ->
  p_amt (nth i (set_null ps i a) d) = Some a /\ p_calculated (nth i (set_null ps i a) d) = true /\
  p_acct (nth i (set_null ps i a) d) = p_acct (nth i ps d) /\ p_kind (nth i (set_null ps i a) d) = p_kind (nth i ps d).
Proof.
  induction ps as [|p ps IH]; intros i a d Hi; cbn [length] in Hi; [lia|].
  destruct i as [|i]; cbn [set_null nth].
  - repeat split.
  - apply IH. lia.
Qed.

(* the written postings other than the elided one are untouched by the fill *)
Theorem fill_null_others_unchanged ps i amts j d :
  j <> i -> (j < length ps)%nat -> nth j (fill_null ps i amts) d = nth j ps d.
Proof.
  intros Hne Hj. unfold fill_null. destruct amts as [|a rest]; [reflexivity|].
  rewrite app_nth1 by (rewrite set_null_length; exact Hj). apply set_null_other. exact Hne.
Qed.

Theorem fill_null_first ps i a rest d :
  (i < length ps)%nat ->
  p_amt (nth i (fill_null ps i (a :: rest)) d) = Some (amt_neg a) /\
  p_calculated (nth i (fill_null ps i (a :: rest)) d) = true.
Proof.
  intros Hi. unfold fill_null. rewrite app_nth1 by (rewrite set_null_length; exact Hi).
  destruct (set_null_at ps i (amt_neg a) d Hi) as [H1 [H2 _]]. split; assumption.
Qed.

Theorem fill_null_generated ps i a rest k d :
  (k < length rest)%nat ->
  let q := nth (length ps + k) (fill_null ps i (a :: rest)) d in
  p_amt q = Some (amt_neg (nth k rest a)) /\ p_generated q = true /\ p_calculated q = true /\
  p_acct q = p_acct (nth i ps (mkPost [] PReal None None None false false false)).
Proof.
  intros Hk. cbn zeta. unfold fill_null.
  rewrite app_nth2 by (rewrite set_null_length; lia).
  rewrite set_null_length. replace (length ps + k - length ps)%nat with k by lia.
  set (np := nth i ps _).
  rewrite (nth_indep _ d (mkPost (p_acct np) (p_kind np) (Some (amt_neg a)) None None true true false))
    by (rewrite map_length; exact Hk).
  change (mkPost (p_acct np) (p_kind np) (Some (amt_neg a)) None None true true false)
    with ((fun x => mkPost (p_acct np) (p_kind np) (Some (amt_neg x)) None None true true false) a).
  rewrite map_nth. cbn. repeat split.
Qed.

Theorem two_nulls_rejected ord cp bucket ps :
  (2 <= count_nulls ps)%nat -> finalize ord cp bucket ps = Err ETwoNulls.
Proof.
  intros H. unfold finalize. rewrite (scan_posts_nulls ord ps 0 VVoid None I H). reflexivity.
Qed.

(* one elided amount: the transaction is completed with the negated balance entries *)
Definition completed (ps : list post) (i : nat) (amts : list amount) : res outcome :=
  let ps' := fill_null ps i amts in
  if forallb (fun p => match p_amt p with None => true | Some _ => false end) ps' then Ok Ignored
  else if existsb (fun p => match p_amt p with None => true | Some _ => false end) ps' then Err ENullLeft
  else Ok (Accepted ps').

Lemma null_fill_rest ord cp ps bal i amts :
  wf_costs ps -> fill_amounts bal = Ok amts ->
  finalize_rest ord cp ps bal (Some i) = completed ps i amts.
Proof.
  intros Hw Hf. unfold finalize_rest, completed.
  rewrite (infer_rate_id ord cp ps bal (Some i)) by (left; discriminate). cbn [bind fst snd].
  rewrite (exchange_posts_id ord cp ps bal Hw). cbn [bind]. rewrite Hf. cbn [bind v_is_zero negb].
  reflexivity.
Qed.

Theorem null_fill ord cp ps bal i amts :
  wf_costs ps ->
  scan_posts ord ps 0 VVoid None = Ok (bal, Some i) ->
  fill_amounts bal = Ok amts ->
  finalize ord cp None ps = completed ps i amts.
Proof.
  intros Hw Hs Hf. unfold finalize. rewrite Hs. cbn [bind].
  apply null_fill_rest; assumption.
Qed.

(* and those entries are exactly the per-commodity sums of the other balancing postings *)
Theorem null_fill_amounts_are_the_sums ord ps bal i amts c :
  scan_posts ord ps 0 VVoid None = Ok (bal, Some i) ->
  fill_amounts bal = Ok amts ->
  fold_right (fun a acc => at_comm (amt_neg a) c + acc) 0 amts == - bsum ps c.
Proof.
  intros Hs Hf.
  destruct (scan_posts_nodup ord ps 0 VVoid None bal (Some i) I I Hs) as [_ Hsv].
  assert (H : fold_right (fun a acc => at_comm (amt_neg a) c + acc) 0 amts ==
              - fold_right (fun a acc => at_comm a c + acc) 0 amts).
  { clear. induction amts as [|a l IH]; cbn [fold_right]; [ring|]. rewrite IH.
    unfold at_comm. cbn [amt_neg acomm]. dcase; rewrite ?amt_neg_exact; ring. }
  rewrite H, (fill_amounts_exact bal amts c Hsv Hf), (scan_posts_exact ord c _ _ _ _ _ _ Hs).
  cbn [den]. ring.
Qed.

(* a lone posting with a bucket in force is completed on the bucket account with the negated amount *)
Theorem bucket_single_posting ord cp b p bal amts :
  wf_costs [p] ->
  scan_posts ord [p] 0 VVoid None = Ok (bal, None) -> bal <> VVoid ->
  fill_amounts bal = Ok amts ->
  finalize ord cp (Some b) [p] =
  completed ([p] ++ [mkPost b PReal None None None false false false]) 1 amts.
Proof.
  intros Hw Hs Hne Hf. unfold finalize. rewrite Hs. cbn [bind].
  assert (Hw' : wf_costs ([p] ++ [mkPost b PReal None None None false false false])).
  { intros q [<-|[<-|[]]]; [apply Hw; left; reflexivity | split; [reflexivity | exact I]]. }
  destruct bal; try contradiction; apply null_fill_rest; assumption.
Qed.

(* ------------------------------------------------------------ the two-commodity implied rate *)

(* postings the rate is applied to: those that must balance and whose amount is in commodity c *)
Definition rated (c : option comm) (p : post) : bool :=
  match p_amt p with Some a => must_balance p && comm_eqb (acomm a) c | None => false end.

Fixpoint rated_sum (c : option comm) (ps : list post) (k : option comm) : Q :=
  match ps with
  | [] => 0
  | p :: ps' => (if rated c p then match p_amt p with Some a => at_comm a k | None => 0 end else 0)
                + rated_sum c ps' k
  end.

Fixpoint rated_cost_sum (cp : comm -> Z) (rate : amount) (c : option comm) (ps : list post) (k : option comm) : Q :=
  match ps with
  | [] => 0
  | p :: ps' => (if rated c p then match p_amt p with Some a => at_comm (amt_mul cp rate a) k | None => 0 end else 0)
                + rated_cost_sum cp rate c ps' k
  end.

(* apply_rate leaves accounts, kinds and amounts alone and moves the balance by exactly
   (costs assigned) - (amounts rated) *)
Lemma apply_rate_exact ord cp rate c k : forall ps bal ps' bal',
  apply_rate ord cp rate c ps bal = Ok (ps', bal') ->
  map p_amt ps' = map p_amt ps /\ map p_acct ps' = map p_acct ps /\ map p_kind ps' = map p_kind ps /\
  den bal' k == den bal k - rated_sum c ps k + rated_cost_sum cp rate c ps k.
Proof.
  induction ps as [|p ps IH]; intros bal ps' bal'; cbn [apply_rate rated_sum rated_cost_sum].
  - intros [= <- <-]. repeat split. ring.
  - unfold rated. destruct (p_amt p) as [amt|] eqn:Ea.
    + destruct (must_balance p && comm_eqb (acomm amt) c) eqn:Er.
      * destruct (v_sub ord bal (VAmt amt)) as [b1|] eqn:E1; cbn [bind]; [|discriminate].
        destruct (v_add ord b1 (VAmt (amt_mul cp rate amt))) as [b2|] eqn:E2; cbn [bind]; [|discriminate].
        destruct (apply_rate ord cp rate c ps b2) as [[qs b3]|] eqn:E3; cbn [bind]; [|discriminate].
        intros [= <- <-]. destruct (IH _ _ _ E3) as [H1 [H2 [H3 H4]]]. cbn [map fst snd p_amt p_acct p_kind].
        rewrite H1, H2, H3, Ea. repeat split.
        rewrite H4, (v_add_exact _ _ _ _ k E2), (v_sub_exact _ _ _ _ k E1). cbn [den]. ring.
      * destruct (apply_rate ord cp rate c ps bal) as [[qs b3]|] eqn:E3; cbn [bind]; [|discriminate].
        intros [= <- <-]. destruct (IH _ _ _ E3) as [H1 [H2 [H3 H4]]]. cbn [map fst snd].
        rewrite H1, H2, H3. repeat split. rewrite H4. ring.
    + destruct (apply_rate ord cp rate c ps bal) as [[qs b3]|] eqn:E3; cbn [bind]; [|discriminate].
      intros [= <- <-]. destruct (IH _ _ _ E3) as [H1 [H2 [H3 H4]]]. cbn [map fst snd].
      rewrite H1, H2, H3. repeat split. rewrite H4. ring.
Qed.

(* every cost assigned by the rate is exactly rate * amount, in the rate's commodity *)
Lemma rated_cost_sum_exact cp rate c cy : forall ps,
  acomm rate = Some cy ->
  rated_cost_sum cp rate c ps (Some cy) == aq rate * rated_sum c ps c /\
  (forall k, comm_eqb (Some cy) k = false -> rated_cost_sum cp rate c ps k == 0).
Proof.
  intros ps Hr. induction ps as [|p ps [IH1 IH2]]; cbn [rated_cost_sum rated_sum].
  - split; [ring | intros; reflexivity].
  - assert (Hc : forall a, acomm (amt_mul cp rate a) = Some cy).
    { intros a. unfold amt_mul. cbn [acomm]. rewrite Hr. reflexivity. }
    unfold rated. destruct (p_amt p) as [a|]; [|split; [rewrite IH1; ring | intros k Hk; rewrite (IH2 k Hk); ring]].
    destruct (must_balance p && comm_eqb (acomm a) c) eqn:Er.
    + apply andb_true_iff in Er as [_ Ec]. split.
      * rewrite IH1. unfold at_comm. rewrite Hc, comm_eqb_refl, Ec, amt_mul_exact. ring.
      * intros k Hk. rewrite (IH2 k Hk). unfold at_comm. rewrite Hc, Hk. ring.
    + split; [rewrite IH1; ring | intros k Hk; rewrite (IH2 k Hk); ring].
Qed.

(* THE TWO-COMMODITY RULE.  When the transaction has no elided amount and its balance holds
   exactly two commodities x (the top posting's) and y, every balancing posting in x gets the
   cost |y/x| * amount, and the balance becomes: nothing left in x, and  y + |y/x| * x  in y -
   which is zero exactly when the two commodity totals have opposite signs. *)
Theorem two_commodity_rate ord cp ps bal x y q cx cy ps' bal' :
  acomm x = Some cx -> acomm y = Some cy -> comm_eqb (Some cx) (Some cy) = false ->
  amt_div cp y x = Ok q ->
  let rate := let r := amt_abs q in mkAmt (aq r) (aprec r) true (acomm r) in
  apply_rate ord cp rate (Some cx) ps bal = Ok (ps', bal') ->
  den bal (Some cx) == aq x -> den bal (Some cy) == aq y ->
  rated_sum (Some cx) ps (Some cx) == aq x ->
  map p_amt ps' = map p_amt ps /\
  den bal' (Some cx) == 0 /\
  den bal' (Some cy) == aq y + Qabs (aq y / aq x) * aq x.
Proof.
  intros Hx Hy Hne Hq rate Ha Hbx Hby Hsum.
  assert (Hrate_c : acomm rate = Some cy).
  { unfold rate. cbn [acomm]. unfold amt_abs. destruct (Qnum (aq q) <? 0)%Z; cbn [amt_neg acomm];
      unfold amt_div in Hq; destruct (is_realzero x); try discriminate; injection Hq as <-; cbn [acomm];
      rewrite Hy; reflexivity. }
  assert (Hrate_q : aq rate == Qabs (aq y / aq x)).
  { unfold rate. cbn [aq]. rewrite amt_abs_exact. apply amt_div_exact in Hq as [_ Hq]. rewrite Hq. reflexivity. }
  destruct (apply_rate_exact ord cp rate (Some cx) (Some cx) _ _ _ _ Ha) as [Hamt [_ [_ Hdx]]].
  destruct (apply_rate_exact ord cp rate (Some cx) (Some cy) _ _ _ _ Ha) as [_ [_ [_ Hdy]]].
  destruct (rated_cost_sum_exact cp rate (Some cx) cy ps Hrate_c) as [Hc1 Hc2].
  split; [exact Hamt|]. split.
  - rewrite Hdx, Hbx, Hsum, (Hc2 (Some cx)); [ring|]. rewrite comm_eqb_sym. exact Hne.
  - rewrite Hdy, Hby, Hc1, Hsum, Hrate_q.
    assert (Hz : rated_sum (Some cx) ps (Some cy) == 0).
    { clear -Hne. induction ps as [|p ps IH]; cbn [rated_sum]; [reflexivity|]. rewrite IH.
      unfold rated. destruct (p_amt p) as [a|]; [|ring].
      destruct (must_balance p && comm_eqb (acomm a) (Some cx)) eqn:E; [|ring].
      apply andb_true_iff in E as [_ E]. unfold at_comm.
      rewrite (comm_eqb_trans_l (Some cx) (acomm a) (Some cy) E), Hne. ring. }
    rewrite Hz. ring.
Qed.

(* ... and that remainder vanishes exactly for opposite signs *)
Lemma rate_remainder_zero_iff (x y : Q) :
  ~ x == 0 -> (y + Qabs (y / x) * x == 0 <-> (y == 0 \/ (0 < x /\ y < 0) \/ (x < 0 /\ 0 < y))).
Proof.
  intros Hx.
  assert (Hdiv : forall a, a / x * x == a) by (intros a; field; exact Hx).
  destruct (Qlt_le_dec (y / x) 0) as [Hneg|Hpos].
  - rewrite (Qabs_neg (y / x)) by (apply Qlt_le_weak; exact Hneg).
    assert (E : y + - (y / x) * x == 0) by (rewrite <- (Hdiv y) at 1; ring).
    split; [intros _|intros _; exact E].
    (* y/x < 0 : opposite signs *)
    destruct (Qlt_le_dec 0 x) as [Hxp|Hxn].
    + right. left. split; [exact Hxp|]. rewrite <- (Hdiv y).
      setoid_replace 0 with (0 * x) by ring. apply Qmult_lt_compat_r; assumption.
    + assert (Hx' : x < 0) by (destruct (Qle_lt_or_eq _ _ Hxn) as [H|H]; [exact H | contradiction]).
      right. right. split; [exact Hx'|]. rewrite <- (Hdiv y).
      (* (y/x) < 0 and x < 0 gives (y/x) * x > 0 *)
      assert (H0 : 0 < (- (y / x)) * (- x)).
      { apply Qmult_lt_0_compat; [lra | lra]. }
      lra.
  - rewrite (Qabs_pos (y / x)) by exact Hpos. rewrite Hdiv. split.
    + intros H. left. lra.
    + intros [H|[[Hxp Hyn]|[Hxn Hyp]]]; [lra | exfalso | exfalso].
      * assert (y / x * x < 0) by (rewrite Hdiv; exact Hyn).
        assert (0 <= y / x * x) by (apply Qmult_le_0_compat; lra). lra.
      * assert (0 < y / x * x) by (rewrite Hdiv; exact Hyp).
        assert (y / x * x <= 0).
        { setoid_replace (y / x * x) with (- ((y / x) * (- x))) by ring.
          assert (0 <= y / x * - x) by (apply Qmult_le_0_compat; lra). lra. }
        lra.
Qed.
