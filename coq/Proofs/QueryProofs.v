(* Proofs about Model/Query.v: the query parser maps a rendered query tree to the intended
   expression.  Part 1 works over an abstract token stream (a relation `stream st ts`: the lexer
   state `st` will deliver the tokens `ts`, then END_REACHED for ever); part 2 shows that the
   lexer state over one-token arguments is such a stream; part 3 puts them together. *)
From LedgerV Require Import Base.Prelude Model.Filter Model.Query.
Local Open Scope Z_scope.

Section Abstract.
Variable ext : str -> res expr.
Variable stream : lexst -> list tok -> Prop.
Hypothesis Hnext : forall ctx st ts,
  is_expr_ctx ctx = false -> stream st ts ->
  exists st', next_token ctx st = Ok (hd TEnd ts, st') /\ stream st' (tl ts) /\
              stream (push_token (hd TEnd ts) st') ts.

Notation PU f := (p_unary ext f).
Notation PA f := (p_and ext f).
Notation PO f := (p_or ext f).

Definition S4 (ts : list tok) (e : expr) (N : nat) : Prop :=
  forall f st rest, (N <= f)%nat -> stream st (ts ++ rest) ->
  exists st', p_term ext f TAccount st = Ok (Some e, st') /\ stream st' rest.

Definition S3 (ts : list tok) (e : expr) (N : nat) : Prop :=
  forall f st rest, (N <= f)%nat -> stream st (ts ++ rest) ->
  exists st', PU f TAccount st = Ok (Some e, st') /\ stream st' rest.

Definition S2 (ts : list tok) (e : expr) (N : nat) : Prop :=
  forall f st rest, (N <= f)%nat -> stream st (ts ++ rest) ->
  exists st1 c, (c <= N)%nat /\ stream st1 rest /\
    forall k, p_and_of (PU f) (c + k) TAccount st =
              (dos (x, st2) <- and_loop (PU f) k TAccount e st1; Ok (Some x, st2)).

Definition S1 (ts : list tok) (e : expr) (N : nat) : Prop :=
  forall f st rest, (N <= f)%nat -> hd TEnd rest <> TAnd -> stream st (ts ++ rest) ->
  exists st1 c, (c <= N)%nat /\ stream st1 rest /\
    forall k, p_or_of (PA f) (c + k) TAccount st =
              (dos (x, st2) <- or_loop (PA f) k TAccount e st1; Ok (Some x, st2)).

Definition S0 (ts : list tok) (e : expr) (N : nat) : Prop :=
  forall f st rest, (N <= f)%nat -> hd TEnd rest <> TAnd -> hd TEnd rest <> TOr ->
  stream st (ts ++ rest) ->
  exists st1 c, (c <= N)%nat /\ stream st1 rest /\
    forall k, seq_loop (PO f) (c + k) TAccount None st =
              seq_loop (PO f) k TAccount (Some e) st1.

Definition Stmt (lvl : nat) : list tok -> expr -> nat -> Prop :=
  match lvl with
  | O => S0 | 1%nat => S1 | 2%nat => S2 | 3%nat => S3 | _ => S4
  end.

(* ---- loop ends ---- *)
Lemma and_loop_end un k e st rest :
  stream st rest -> hd TEnd rest <> TAnd ->
  exists st', and_loop un (S k) TAccount e st = Ok (e, st') /\ stream st' rest.
Proof.
  intros Hs Hh. destruct (Hnext TAccount st rest eq_refl Hs) as (st' & Hn & _ & Hp).
  exists (push_token (hd TEnd rest) st'). split; [|exact Hp].
  cbn [and_loop]. rewrite Hn. destruct (hd TEnd rest); try reflexivity. congruence.
Qed.

Lemma or_loop_end pa k e st rest :
  stream st rest -> hd TEnd rest <> TOr ->
  exists st', or_loop pa (S k) TAccount e st = Ok (e, st') /\ stream st' rest.
Proof.
  intros Hs Hh. destruct (Hnext TAccount st rest eq_refl Hs) as (st' & Hn & _ & Hp).
  exists (push_token (hd TEnd rest) st'). split; [|exact Hp].
  cbn [or_loop]. rewrite Hn. destruct (hd TEnd rest); try reflexivity. congruence.
Qed.

(* ---- S2 / S1 give complete and- / or-expressions when the follower does not continue them ---- *)
Lemma S2_A ts e N : S2 ts e N ->
  forall f st rest, (S N <= f)%nat -> hd TEnd rest <> TAnd -> stream st (ts ++ rest) ->
  exists st', PA f TAccount st = Ok (Some e, st') /\ stream st' rest.
Proof.
  intros H f st rest Hf Hh Hs.
  destruct (H f st rest ltac:(lia) Hs) as (st1 & c & Hc & Hs1 & Heq).
  specialize (Heq (S (f - c - 1))). replace (c + S (f - c - 1))%nat with f in Heq by lia.
  unfold p_and. rewrite Heq.
  destruct (and_loop_end (PU f) (f - c - 1) e st1 rest Hs1 Hh) as (st' & Hl & Hs').
  rewrite Hl. exists st'. split; [reflexivity | exact Hs'].
Qed.

Lemma S1_O ts e N : S1 ts e N ->
  forall f st rest, (S N <= f)%nat -> hd TEnd rest <> TAnd -> hd TEnd rest <> TOr ->
  stream st (ts ++ rest) ->
  exists st', PO f TAccount st = Ok (Some e, st') /\ stream st' rest.
Proof.
  intros H f st rest Hf Ha Ho Hs.
  destruct (H f st rest ltac:(lia) Ha Hs) as (st1 & c & Hc & Hs1 & Heq).
  specialize (Heq (S (f - c - 1))). replace (c + S (f - c - 1))%nat with f in Heq by lia.
  unfold p_or. rewrite Heq.
  destruct (or_loop_end (PA f) (f - c - 1) e st1 rest Hs1 Ho) as (st' & Hl & Hs').
  rewrite Hl. exists st'. split; [reflexivity | exact Hs'].
Qed.

(* ---- an or-expression cannot start at END_REACHED or at a closing parenthesis ---- *)
Lemma or_none f st rest :
  (1 <= f)%nat -> stream st rest -> (hd TEnd rest = TEnd \/ hd TEnd rest = TRParen) ->
  exists st', PO f TAccount st = Ok (None, st') /\ stream st' rest.
Proof.
  intros Hf Hs Hh. destruct f as [|f']; [lia|].
  destruct (Hnext TAccount st rest eq_refl Hs) as (st1 & Hn & _ & Hp).
  destruct (Hnext TAccount _ rest eq_refl Hp) as (st2 & Hn2 & _ & Hp2).
  exists (push_token (hd TEnd rest) st2). split; [|exact Hp2].
  unfold p_or, p_or_of, p_and, p_and_of, p_unary, p_unary_of.
  rewrite Hn.
  destruct Hh as [Hh|Hh]; rewrite Hh in *; cbn [p_term]; rewrite Hn2; reflexivity.
Qed.

(* ---- lifts: a term is a unary, a unary an and-expression, ... ---- *)
Lemma L43 ts e N : S4 ts e N -> ts <> [] -> hd TEnd ts <> TNot -> S3 ts e N.
Proof.
  intros H Hne Hh f st rest Hf Hs.
  destruct (Hnext TAccount st _ eq_refl Hs) as (st1 & Hn & _ & Hp).
  destruct (H f _ rest Hf Hp) as (st' & Ht & Hs').
  exists st'. split; [|exact Hs'].
  unfold p_unary, p_unary_of. rewrite Hn.
  assert (Hd : hd TEnd (ts ++ rest) = hd TEnd ts) by (destruct ts; [congruence | reflexivity]).
  rewrite Hd in *. destruct (hd TEnd ts); try exact Ht. congruence.
Qed.

Lemma L32 ts e N : S3 ts e N -> S2 ts e N.
Proof.
  intros H f st rest Hf Hs. destruct (H f st rest Hf Hs) as (st' & Hu & Hs').
  exists st', 0%nat. split; [lia|]. split; [exact Hs'|].
  intros k. cbn [Nat.add]. unfold p_and_of. rewrite Hu. reflexivity.
Qed.

Lemma L21 ts e N : S2 ts e N -> S1 ts e (S N).
Proof.
  intros H f st rest Hf Ha Hs.
  destruct (S2_A ts e N H f st rest Hf Ha Hs) as (st' & Hu & Hs').
  exists st', 0%nat. split; [lia|]. split; [exact Hs'|].
  intros k. cbn [Nat.add]. unfold p_or_of. rewrite Hu. reflexivity.
Qed.

Lemma L10 ts e N : S1 ts e N -> S0 ts e (S N).
Proof.
  intros H f st rest Hf Ha Ho Hs.
  destruct (S1_O ts e N H f st rest Hf Ha Ho Hs) as (st' & Hu & Hs').
  exists st', 1%nat. split; [lia|]. split; [exact Hs'|].
  intros k. cbn [Nat.add seq_loop]. rewrite Hu. reflexivity.
Qed.

Lemma S4_mono ts e N N' : (N <= N')%nat -> S4 ts e N -> S4 ts e N'.
Proof. intros Hl H f st rest Hf. apply H. lia. Qed.
Lemma S3_mono ts e N N' : (N <= N')%nat -> S3 ts e N -> S3 ts e N'.
Proof. intros Hl H f st rest Hf. apply H. lia. Qed.
Lemma S2_mono ts e N N' : (N <= N')%nat -> S2 ts e N -> S2 ts e N'.
Proof.
  intros Hl H f st rest Hf Hs. destruct (H f st rest ltac:(lia) Hs) as (st1 & c & Hc & R).
  exists st1, c. split; [lia | exact R].
Qed.
Lemma S1_mono ts e N N' : (N <= N')%nat -> S1 ts e N -> S1 ts e N'.
Proof.
  intros Hl H f st rest Hf Ha Hs. destruct (H f st rest ltac:(lia) Ha Hs) as (st1 & c & Hc & R).
  exists st1, c. split; [lia | exact R].
Qed.
Lemma S0_mono ts e N N' : (N <= N')%nat -> S0 ts e N -> S0 ts e N'.
Proof.
  intros Hl H f st rest Hf Ha Ho Hs.
  destruct (H f st rest ltac:(lia) Ha Ho Hs) as (st1 & c & Hc & R).
  exists st1, c. split; [lia | exact R].
Qed.

Lemma Stmt_mono lvl ts e N N' : (N <= N')%nat -> Stmt lvl ts e N -> Stmt lvl ts e N'.
Proof.
  destruct lvl as [|[|[|[|l]]]]; cbn [Stmt];
    [apply S0_mono | apply S1_mono | apply S2_mono | apply S3_mono | apply S4_mono].
Qed.

(* lowering the level costs at most four units of fuel *)
Lemma lift from to ts e N :
  (to <= from)%nat -> ts <> [] -> ((4 <= from)%nat -> hd TEnd ts <> TNot) ->
  Stmt from ts e N -> Stmt to ts e (N + 4).
Proof.
  intros Hle Hne Hh H.
  assert (H4 : (4 <= from)%nat -> S4 ts e N).
  { intros G. destruct from as [|[|[|[|l]]]]; try lia. exact H. }
  assert (H3 : (3 <= to)%nat -> (3 <= from)%nat -> S3 ts e N).
  { intros G' G. destruct from as [|[|[|[|l]]]]; try lia; [exact H | apply L43; auto; apply Hh; lia]. }
  assert (H3' : (3 <= from)%nat -> S3 ts e N).
  { intros G. destruct from as [|[|[|[|l]]]]; try lia; [exact H | apply L43; auto; apply Hh; lia]. }
  assert (H2 : (2 <= from)%nat -> S2 ts e N).
  { intros G. destruct from as [|[|[|f']]]; try lia; [exact H | apply L32, H3'; lia]. }
  assert (H1 : (1 <= from)%nat -> S1 ts e (N + 1)).
  { intros G. destruct from as [|[|f']]; try lia.
    - eapply S1_mono; [|exact H]. lia.
    - replace (N + 1)%nat with (S N) by lia. apply L21, H2. lia. }
  assert (H0 : S0 ts e (N + 2)).
  { destruct from as [|f'].
    - eapply S0_mono; [|exact H]. lia.
    - replace (N + 2)%nat with (S (N + 1)) by lia. apply L10, H1. lia. }
  destruct to as [|[|[|[|l]]]]; cbn [Stmt].
  - eapply S0_mono; [|exact H0]. lia.
  - eapply S1_mono; [|apply H1; lia]. lia.
  - eapply S2_mono; [|apply H2; lia]. lia.
  - eapply S3_mono; [|apply H3'; lia]. lia.
  - eapply S4_mono; [|apply H4; lia]. lia.
Qed.

(* ---- constructions ---- *)
Lemma term_account p : S4 [TTerm p] (EMatch (EIdent IAccount) p) 1.
Proof.
  intros f st rest Hf Hs. destruct f as [|f']; [lia|].
  destruct (Hnext TAccount st _ eq_refl Hs) as (st1 & Hn & Hs1 & _).
  exists st1. split; [|exact Hs1]. cbn [p_term]. rewrite Hn. reflexivity.
Qed.

Lemma term_field fld p : fld <> QAccount ->
  S4 [sel fld; TTerm p] (EMatch (EIdent (fid fld)) p) 2.
Proof.
  intros Hfld f st rest Hf Hs. destruct f as [|[|f']]; try lia.
  destruct (Hnext TAccount st _ eq_refl Hs) as (st1 & Hn & Hs1 & _).
  cbn [app hd tl] in *.
  assert (Hc : is_expr_ctx (sel fld) = false) by (destruct fld; reflexivity).
  destruct (Hnext (sel fld) st1 _ Hc Hs1) as (st2 & Hn2 & Hs2 & _).
  cbn [hd tl] in *.
  exists st2. split; [|exact Hs2].
  cbn [p_term]. rewrite Hn.
  destruct fld; try congruence; cbn [sel]; cbn [sel] in Hn2; rewrite Hn2; reflexivity.
Qed.

Lemma not_S3 ts e N : S4 ts e N -> S3 (TNot :: ts) (ENot e) N.
Proof.
  intros H f st rest Hf Hs.
  destruct (Hnext TAccount st _ eq_refl Hs) as (st1 & Hn & Hs1 & _).
  cbn [app hd tl] in *.
  destruct (H f st1 rest Hf Hs1) as (st' & Ht & Hs').
  exists st'. split; [|exact Hs'].
  unfold p_unary, p_unary_of. rewrite Hn. rewrite Ht. reflexivity.
Qed.

Lemma and_S2 ts1 e1 N1 ts2 e2 N2 :
  S2 ts1 e1 N1 -> S3 ts2 e2 N2 ->
  S2 (ts1 ++ TAnd :: ts2) (EAnd e1 e2) (S (Nat.max N1 N2)).
Proof.
  intros H1 H2 f st rest Hf Hs.
  rewrite <- app_assoc in Hs. cbn [app] in Hs.
  destruct (H1 f st _ ltac:(lia) Hs) as (st1 & c & Hc & Hs1 & Heq).
  destruct (Hnext TAccount st1 _ eq_refl Hs1) as (st2 & Hn & Hs2 & _).
  cbn [hd tl] in *.
  destruct (H2 f st2 rest ltac:(lia) Hs2) as (st3 & Hu & Hs3).
  exists st3, (S c). split; [lia|]. split; [exact Hs3|].
  intros k. replace (S c + k)%nat with (c + S k)%nat by lia. rewrite Heq.
  cbn [and_loop]. rewrite Hn. rewrite Hu. reflexivity.
Qed.

Lemma or_S1 ts1 e1 N1 ts2 e2 N2 :
  S1 ts1 e1 N1 -> S2 ts2 e2 N2 ->
  S1 (ts1 ++ TOr :: ts2) (EOr e1 e2) (S (Nat.max N1 (S N2))).
Proof.
  intros H1 H2 f st rest Hf Ha Hs.
  rewrite <- app_assoc in Hs. cbn [app] in Hs.
  destruct (H1 f st (TOr :: ts2 ++ rest) ltac:(lia) ltac:(cbn; congruence) Hs) as (st1 & c & Hc & Hs1 & Heq).
  destruct (Hnext TAccount st1 _ eq_refl Hs1) as (st2 & Hn & Hs2 & _).
  cbn [hd tl] in *.
  destruct (S2_A ts2 e2 N2 H2 f st2 rest ltac:(lia) Ha Hs2) as (st3 & Hu & Hs3).
  exists st3, (S c). split; [lia|]. split; [exact Hs3|].
  intros k. replace (S c + k)%nat with (c + S k)%nat by lia. rewrite Heq.
  cbn [or_loop]. rewrite Hn. rewrite Hu. reflexivity.
Qed.

Definition starts_operand (ts : list tok) : Prop :=
  ts <> [] /\ hd TEnd ts <> TAnd /\ hd TEnd ts <> TOr /\ hd TEnd ts <> TNot \/
  ts <> [] /\ hd TEnd ts = TNot.

Definition first_ok (ts : list tok) : Prop :=
  ts <> [] /\ hd TEnd ts <> TAnd /\ hd TEnd ts <> TOr /\ hd TEnd ts <> TRParen /\ hd TEnd ts <> TEnd.

Lemma jux_S0 ts1 e1 N1 ts2 e2 N2 :
  S0 ts1 e1 N1 -> S1 ts2 e2 N2 -> first_ok ts2 ->
  S0 (ts1 ++ ts2) (EOr e1 e2) (S (Nat.max N1 (S N2))).
Proof.
  intros H1 H2 (Hne & Hfa & Hfo & _) f st rest Hf Ha Ho Hs.
  rewrite <- app_assoc in Hs.
  assert (Hd : hd TEnd (ts2 ++ rest) = hd TEnd ts2) by (destruct ts2; [congruence | reflexivity]).
  destruct (H1 f st (ts2 ++ rest) ltac:(lia) ltac:(rewrite Hd; exact Hfa) ltac:(rewrite Hd; exact Hfo) Hs)
    as (st1 & c & Hc & Hs1 & Heq).
  destruct (S1_O ts2 e2 N2 H2 f st1 rest ltac:(lia) Ha Ho Hs1) as (st2 & Hu & Hs2).
  exists st2, (S c). split; [lia|]. split; [exact Hs2|].
  intros k. replace (S c + k)%nat with (c + S k)%nat by lia. rewrite Heq.
  cbn [seq_loop]. rewrite Hu. reflexivity.
Qed.

Lemma paren_S4 ts e N : S0 ts e N -> S4 (TLParen :: ts ++ [TRParen]) e (N + 2).
Proof.
  intros H f st rest Hf Hs. destruct f as [|f']; [lia|].
  destruct (Hnext TAccount st _ eq_refl Hs) as (st1 & Hn & Hs1 & _).
  cbn [app hd tl] in *. rewrite <- app_assoc in Hs1. cbn [app] in Hs1.
  destruct (H f' st1 (TRParen :: rest) ltac:(lia) ltac:(cbn; congruence) ltac:(cbn; congruence) Hs1)
    as (st2 & c & Hc & Hs2 & Heq).
  destruct (or_none f' st2 _ ltac:(lia) Hs2 (or_intror eq_refl)) as (st3 & Hon & Hs3).
  destruct (Hnext TAccount st3 _ eq_refl Hs3) as (st4 & Hn4 & Hs4 & _).
  cbn [hd tl] in *.
  exists st4. split; [|exact Hs4].
  cbn [p_term]. rewrite Hn.
  change (seq_loop (p_or_of (p_and_of (p_unary_of (p_term ext f')) f') f') f' TAccount None st1)
    with (seq_loop (PO f') f' TAccount None st1).
  specialize (Heq (S (f' - c - 1))). replace (c + S (f' - c - 1))%nat with f' in Heq by lia.
  rewrite Heq. cbn [seq_loop]. rewrite Hon. rewrite Hn4. reflexivity.
Qed.

(* ---- the main induction: every level of a rendered tree parses to its expression ---- *)
Fixpoint qsize (q : query) : nat :=
  match q with
  | QTerm _ _ _ => 6
  | QNot _ a => qsize a + 12
  | QAnd _ a b | QOr _ a b | QJux a b => Nat.max (qsize a) (qsize b) + 12
  end.

Definition toks (l : list stok) : list tok := map fst l.

Lemma toks_app a b : toks (a ++ b) = toks a ++ toks b.
Proof. apply map_app. Qed.

Lemma toks_wrap b l :
  toks (wrap b l) = if b then TLParen :: toks l ++ [TRParen] else toks l.
Proof. destruct b; cbn [wrap toks map fst]; [|reflexivity]. rewrite map_app. reflexivity. Qed.

Lemma tr_first lvl q : first_ok (toks (tr lvl q)).
Proof.
  revert lvl. induction q as [f sp p|sp a IHa|sp a IHa b IHb|sp a IHa b IHb|a IHa b IHb]; intros lvl.
  - destruct f; unfold first_ok; cbn; repeat split; congruence.
  - cbn [tr]. rewrite toks_wrap. destruct (3 <? lvl)%nat; unfold first_ok; cbn; repeat split; congruence.
  - cbn [tr]. rewrite toks_wrap. destruct (2 <? lvl)%nat; [unfold first_ok; cbn; repeat split; congruence|].
    rewrite toks_app. destruct (IHa 2%nat) as (Hne & R). unfold first_ok.
    destruct (toks (tr 2 a)); [congruence|]. cbn in *. split; [congruence | exact R].
  - cbn [tr]. rewrite toks_wrap. destruct (1 <? lvl)%nat; [unfold first_ok; cbn; repeat split; congruence|].
    rewrite toks_app. destruct (IHa 1%nat) as (Hne & R). unfold first_ok.
    destruct (toks (tr 1 a)); [congruence|]. cbn in *. split; [congruence | exact R].
  - cbn [tr]. rewrite toks_wrap. destruct (0 <? lvl)%nat; [unfold first_ok; cbn; repeat split; congruence|].
    rewrite toks_app. destruct (IHa 0%nat) as (Hne & R). unfold first_ok.
    destruct (toks (tr 0 a)); [congruence|]. cbn in *. split; [congruence | exact R].
Qed.

Lemma paren_any lvl ts e N : S0 ts e N -> Stmt lvl (TLParen :: ts ++ [TRParen]) e (N + 6).
Proof.
  intros H. pose proof (paren_S4 _ _ _ H) as H4.
  destruct (Nat.le_gt_cases 4 lvl) as [G|G].
  - destruct lvl as [|[|[|[|l]]]]; try lia. cbn [Stmt]. eapply S4_mono; [|exact H4]. lia.
  - replace (N + 6)%nat with (N + 2 + 4)%nat by lia.
    apply (lift 4 lvl); [lia | congruence | cbn; congruence | exact H4].
Qed.

Lemma finish own lvl inner e N :
  (own <= 3)%nat -> inner <> [] -> Stmt own inner e N ->
  Stmt lvl (if (own <? lvl)%nat then TLParen :: inner ++ [TRParen] else inner) e (N + 10).
Proof.
  intros Ho Hne H. destruct (own <? lvl)%nat eqn:E.
  - replace (N + 10)%nat with (N + 4 + 6)%nat by lia. apply paren_any.
    apply (lift own 0); [lia | exact Hne | lia | exact H].
  - apply Nat.ltb_ge in E. eapply Stmt_mono; [|apply (lift own lvl); [exact E | exact Hne | lia | exact H]]. lia.
Qed.

Lemma main lvl q : Stmt lvl (toks (tr lvl q)) (to_expr q) (qsize q).
Proof.
  revert lvl. induction q as [f sp p|sp a IHa|sp a IHa b IHb|sp a IHa b IHb|a IHa b IHb]; intros lvl.
  - (* term *)
    assert (H4 : S4 (toks (tr lvl (QTerm f sp p))) (to_expr (QTerm f sp p)) 2).
    { destruct f; cbn [tr toks map fst to_expr fid].
      - eapply S4_mono; [|apply term_account]. lia.
      - apply (term_field QPayee); congruence.
      - apply (term_field QCode); congruence.
      - apply (term_field QNote); congruence. }
    destruct (Nat.le_gt_cases 4 lvl) as [G|G].
    + destruct lvl as [|[|[|[|l]]]]; try lia. cbn [Stmt]. eapply S4_mono; [|exact H4]. cbn; lia.
    + pose proof (lift 4 lvl (toks (tr lvl (QTerm f sp p))) (to_expr (QTerm f sp p)) 2%nat ltac:(lia)
                    ltac:(destruct f; cbn; congruence) ltac:(intros _; destruct f; cbn; congruence) H4) as L.
      eapply Stmt_mono; [|exact L]. cbn [qsize]. lia.
  - (* not *)
    pose proof (not_S3 _ _ _ (IHa 4%nat)) as H3.
    cbn [tr to_expr]. rewrite toks_wrap.
    pose proof (finish 3 lvl (toks ((TNot, sp) :: tr 4 a)) (ENot (to_expr a)) (qsize a)
                  ltac:(lia) ltac:(cbn; congruence) H3) as F.
    eapply Stmt_mono; [|exact F]. cbn [qsize]. lia.
  - (* and *)
    pose proof (and_S2 _ _ _ _ _ _ (IHa 2%nat) (IHb 3%nat)) as H2.
    cbn [tr to_expr]. rewrite toks_wrap, toks_app. cbn [toks map fst]. fold (toks (tr 3 b)).
    assert (Hne : toks (tr 2 a) ++ TAnd :: toks (tr 3 b) <> []) by (destruct (toks (tr 2 a)); cbn; congruence).
    pose proof (finish 2 lvl _ _ _ ltac:(lia) Hne H2) as F.
    eapply Stmt_mono; [|exact F]. cbn [qsize]. lia.
  - (* or *)
    pose proof (or_S1 _ _ _ _ _ _ (IHa 1%nat) (IHb 2%nat)) as H1.
    cbn [tr to_expr]. rewrite toks_wrap, toks_app. cbn [toks map fst]. fold (toks (tr 2 b)).
    assert (Hne : toks (tr 1 a) ++ TOr :: toks (tr 2 b) <> []) by (destruct (toks (tr 1 a)); cbn; congruence).
    pose proof (finish 1 lvl _ _ _ ltac:(lia) Hne H1) as F.
    eapply Stmt_mono; [|exact F]. cbn [qsize]. lia.
  - (* juxtaposition *)
    pose proof (jux_S0 _ _ _ _ _ _ (IHa 0%nat) (IHb 1%nat) (tr_first 1 b)) as H0.
    cbn [tr to_expr]. rewrite toks_wrap, toks_app.
    assert (Hne : toks (tr 0 a) ++ toks (tr 1 b) <> []).
    { destruct (tr_first 0 a) as [Hn _]. destruct (toks (tr 0 a)); cbn; congruence. }
    pose proof (finish 0 lvl _ _ _ ltac:(lia) Hne H0) as F.
    eapply Stmt_mono; [|exact F]. cbn [qsize]. lia.
Qed.

(* the whole query: parse_query_expr at the top level, then the END_REACHED check *)
Lemma parse_stream q st n :
  (qsize q + 2 <= n)%nat -> stream st (toks (tr 0 q)) ->
  exists st', p_expr ext n TAccount st = Ok (Some (to_expr q), st') /\ stream st' [].
Proof.
  intros Hn Hs.
  pose proof (main 0 q) as H0. cbn [Stmt] in H0.
  rewrite <- (app_nil_r (toks (tr 0 q))) in Hs.
  destruct (H0 n st [] ltac:(lia) ltac:(cbn; congruence) ltac:(cbn; congruence) Hs)
    as (st1 & c & Hc & Hs1 & Heq).
  destruct (or_none n st1 [] ltac:(lia) Hs1 (or_introl eq_refl)) as (st2 & Hon & Hs2).
  exists st2. split; [|exact Hs2].
  specialize (Heq (S (n - c - 1))). replace (c + S (n - c - 1))%nat with n in Heq by lia.
  unfold p_expr. rewrite Heq. cbn [seq_loop]. rewrite Hon. reflexivity.
Qed.

End Abstract.

(* ================= part 2: the lexer over one-token arguments is such a stream ================= *)

Definition tok_ok (t : tok) : Prop :=
  match t with
  | TLParen | TRParen | TNot | TAnd | TOr | TPayee | TCode | TNote => True
  | TTerm w => word_ok w = true
  | _ => False
  end.

Lemma plainb_facts c : plainb c = true ->
  is_quote c = false /\ is_ws c = false /\ is_delim c = false /\
  (c =? 0) = false /\ (c =? 41) = false /\ (c =? 92) = false.
Proof.
  unfold plainb. rewrite !andb_true_iff, !negb_true_iff. tauto.
Qed.

Lemma is_delim_false c : is_delim c = false ->
  (c =? 40) = false /\ (c =? 38) = false /\ (c =? 124) = false /\ (c =? 33) = false /\
  (c =? 64) = false /\ (c =? 35) = false /\ (c =? 37) = false /\ (c =? 61) = false.
Proof. unfold is_delim. rewrite !orb_false_iff. tauto. Qed.

Lemma ident_loop_plain ws cn acc w :
  forallb plainb w = true -> ident_loop ws false cn acc w = (acc ++ w, [], true).
Proof.
  revert acc. induction w as [|c w IH]; intros acc H; cbn [ident_loop forallb] in *.
  - rewrite app_nil_r. reflexivity.
  - apply andb_true_iff in H as [Hc Hw].
    destruct (plainb_facts c Hc) as (_ & Hws & Hd & _ & H41 & _).
    rewrite Hws, H41, Hd. rewrite IH by exact Hw. rewrite <- app_assoc. reflexivity.
Qed.

Lemma classify_word st w : is_kw w = false -> classify st w = (TTerm w, st).
Proof.
  unfold is_kw. rewrite !orb_false_iff.
  intros ((((((((((((((((H1 & H2) & H3) & H4) & H5) & H6) & H7) & H8) & H9) & H10) & H11) & H12) & H13) & H14) & H15) & H16) & H17).
  unfold classify.
  rewrite H1, H2, H3, H4, H5, H6, H7, H8, H9, H10, H11, H12, H13, H14, H15, H16, H17. reflexivity.
Qed.

Definition done_st (st : lexst) : lexst :=
  mkL (l_args st) [] false false false (l_multi st) (l_cache st).

Lemma lex_spell ctx st t sp :
  is_expr_ctx ctx = false -> l_cws st = false -> l_cna st = false -> tok_ok t ->
  lex_cur ctx st (spell (t, sp)) true = Some (Ok (t, done_st st)).
Proof.
  intros Hctx Hcws Hcna Hok.
  destruct st as [args cur pos0 cws cna multi cache]. cbn [l_cws l_cna] in *. subst cws cna.
  unfold done_st. cbn [l_args l_multi l_cache].
  destruct t; cbn [tok_ok] in Hok; try contradiction.
  - (* ( *) cbn. rewrite Hctx, andb_false_r. reflexivity.
  - (* ) *) cbn. rewrite Hctx, andb_false_r. reflexivity.
  - destruct sp; cbn; rewrite andb_false_r; reflexivity.
  - destruct sp; cbn; rewrite andb_false_r; reflexivity.
  - destruct sp; cbn; rewrite andb_false_r; reflexivity.
  - destruct sp; cbn; rewrite andb_false_r; reflexivity.
  - destruct sp; cbn; rewrite andb_false_r; reflexivity.
  - destruct sp; cbn; rewrite andb_false_r; reflexivity.
  - (* a bare pattern *)
    cbn [spell]. unfold word_ok in Hok. destruct s as [|c w]; [discriminate|].
    apply andb_true_iff in Hok as [Hpl Hkw]. apply negb_true_iff in Hkw.
    pose proof Hpl as Hpl'. cbn [forallb] in Hpl'. apply andb_true_iff in Hpl' as [Hc Hw].
    destruct (plainb_facts c Hc) as (Hq & Hws & Hd & H0 & H41 & H92).
    destruct (is_delim_false c Hd) as (D1 & D2 & D3 & D4 & D5 & D6 & D7 & D8).
    cbn [lex_cur l_multi l_cna l_cws].
    rewrite Hq, andb_false_r, H0, Hws, D1, H41, D2, D3, D4, D5, D6, D7, D8, H92.
    rewrite Hctx. rewrite (ident_loop_plain _ false [] (c :: w) Hpl). cbn [app].
    rewrite classify_word by exact Hkw. reflexivity.
Qed.

(* the arguments still to be read *)
Inductive ready : lexst -> list str -> Prop :=
| ready_first a r multi cache :
    ready (mkL (a :: r) a true false false multi cache) (a :: r)
| ready_next x r pos multi cache :
    ready (mkL (x :: r) [] pos false false multi cache) r
| ready_end pos multi cache :
    ready (mkL [] [] pos false false multi cache) [].

Definition spells (a : str) (t : tok) : Prop := tok_ok t /\ exists sp, a = spell (t, sp).

Lemma spell_nonempty t sp : tok_ok t -> spell (t, sp) <> [].
Proof.
  intros H. destruct t as [| | | | | | | | | | | | | | | | | | |w|]; cbn [tok_ok] in H; try contradiction;
    cbn [spell]; try (destruct sp; cbv; congruence); try (cbv; congruence).
  unfold word_ok in H. destruct w; congruence.
Qed.

Local Opaque spell.

Lemma next_token_cur ctx st :
  l_cache st = TUnknown -> l_cur st <> [] ->
  next_token ctx st = match lex_cur ctx st (l_cur st) (l_pos0 st) with
                      | Some r => r
                      | None => next_adv ctx st (l_args st)
                      end.
Proof. unfold next_token. intros -> H. destruct (l_cur st); [congruence | reflexivity]. Qed.

Lemma next_token_adv ctx st x a r :
  l_cache st = TUnknown -> l_cur st = [] -> l_args st = x :: a :: r -> a <> [] ->
  next_token ctx st = match lex_cur ctx (set_arg st (a :: r) a) a true with
                      | Some r' => r'
                      | None => next_adv ctx st (a :: r)
                      end.
Proof.
  unfold next_token. intros -> -> -> H. cbn [next_adv]. destruct a; [congruence | reflexivity].
Qed.

Lemma next_ready ctx st a r t :
  is_expr_ctx ctx = false -> l_cache st = TUnknown -> ready st (a :: r) -> spells a t ->
  exists st', next_token ctx st = Ok (t, st') /\ l_cache st' = TUnknown /\ ready st' r.
Proof.
  intros Hctx Hcache Hr (Hok & sp & ->).
  pose proof (spell_nonempty t sp Hok) as Hne.
  inversion Hr; subst; cbn [l_cache] in Hcache; subst.
  - (* still at the first argument *)
    rewrite next_token_cur by (cbn; auto). cbn [l_cur l_pos0].
    rewrite lex_spell by (auto; reflexivity).
    eexists. split; [reflexivity|]. unfold done_st. cbn. split; [reflexivity|]. constructor.
  - rewrite (next_token_adv ctx _ x (spell (t, sp)) r) by (cbn; auto).
    rewrite lex_spell by (auto; reflexivity).
    eexists. split; [reflexivity|]. unfold done_st. cbn. split; [reflexivity|]. constructor.
Qed.

Lemma next_ready_end ctx st :
  l_cache st = TUnknown -> ready st [] ->
  exists st', next_token ctx st = Ok (TEnd, st') /\ l_cache st' = TUnknown /\ ready st' [].
Proof.
  intros Hcache Hr. inversion Hr; subst; cbn [l_cache] in Hcache; subst.
  - unfold next_token. cbn. eexists. split; [reflexivity|]. split; [reflexivity|]. constructor.
  - unfold next_token. cbn. eexists. split; [reflexivity|]. split; [reflexivity|]. constructor.
Qed.

Inductive stream : lexst -> list tok -> Prop :=
| st_plain st args ts :
    l_cache st = TUnknown -> ready st args -> Forall2 spells args ts -> stream st ts
| st_end st :
    l_cache st = TEnd -> ready (set_cache st TUnknown) [] -> stream st []
| st_push st t args ts :
    l_cache st = t -> tok_ok t -> ready (set_cache st TUnknown) args -> Forall2 spells args ts ->
    stream st (t :: ts).

Lemma set_cache_id st : set_cache st (l_cache st) = st.
Proof. destruct st; reflexivity. Qed.

Lemma set_cache_set st a b : set_cache (set_cache st a) b = set_cache st b.
Proof. destruct st; reflexivity. Qed.

Lemma stream_next : forall ctx st ts,
  is_expr_ctx ctx = false -> stream st ts ->
  exists st', next_token ctx st = Ok (hd TEnd ts, st') /\ stream st' (tl ts) /\
              stream (push_token (hd TEnd ts) st') ts.
Proof.
  intros ctx st ts Hctx Hs. inversion Hs; subst.
  - (* nothing cached *)
    destruct H1 as [|a t args' ts' Hsp HF].
    + destruct (next_ready_end ctx st H H0) as (st' & Hn & Hc & Hr).
      exists st'. cbn [hd tl]. split; [exact Hn|]. split.
      * eapply st_plain; eauto.
      * apply st_end; [destruct st'; reflexivity|].
        unfold push_token. rewrite set_cache_set. rewrite <- Hc, set_cache_id. exact Hr.
    + destruct (next_ready ctx st a args' t Hctx H H0 Hsp) as (st' & Hn & Hc & Hr).
      exists st'. cbn [hd tl]. split; [exact Hn|]. split.
      * eapply st_plain; eauto.
      * eapply st_push; [destruct st'; reflexivity | exact (proj1 Hsp) | | exact HF].
        unfold push_token. rewrite set_cache_set. rewrite <- Hc, set_cache_id. exact Hr.
  - (* END_REACHED cached *)
    exists (set_cache st TUnknown). cbn [hd tl]. split.
    + unfold next_token. rewrite H. reflexivity.
    + split.
      * eapply st_plain; [destruct st; reflexivity | exact H0 | constructor].
      * unfold push_token. rewrite set_cache_set. rewrite <- H, set_cache_id. exact Hs.
  - (* a pushed-back token *)
    exists (set_cache st TUnknown). cbn [hd tl]. split.
    + unfold next_token. destruct (l_cache st); cbn [tok_ok] in H0; try contradiction; reflexivity.
    + split.
      * eapply st_plain; [destruct st; reflexivity | exact H1 | exact H2].
      * unfold push_token. rewrite set_cache_set, set_cache_id. exact Hs.
Qed.

Lemma stream_peek_end ctx st :
  is_expr_ctx ctx = false -> stream st [] -> exists st', peek_token ctx st = Ok (TEnd, st').
Proof.
  intros Hctx Hs. unfold peek_token.
  destruct (stream_next ctx st [] Hctx Hs) as (st' & Hn & _ & _). cbn [hd] in Hn.
  inversion Hs; subst.
  - rewrite H, Hn. eexists. reflexivity.
  - rewrite H. eexists. reflexivity.
Qed.

(* ================= part 3: the parse theorem ================= *)

Lemma toks_ok lvl q : query_ok q = true -> Forall (fun t => tok_ok (fst t)) (tr lvl q).
Proof.
  revert lvl. induction q as [f sp p|sp a IHa|sp a IHa b IHb|sp a IHa b IHb|a IHa b IHb];
    intros lvl H; cbn [query_ok] in H.
  - destruct f; cbn [tr sel]; repeat constructor; cbn; exact H.
  - cbn [tr]. unfold wrap. destruct (3 <? lvl)%nat.
    + constructor; [exact I|]. apply Forall_app. split; [|repeat constructor].
      constructor; [exact I | apply IHa; exact H].
    + constructor; [exact I | apply IHa; exact H].
  - apply andb_true_iff in H as [Ha Hb]. cbn [tr]. unfold wrap.
    assert (G : Forall (fun t => tok_ok (fst t)) (tr 2 a ++ (TAnd, sp) :: tr 3 b)).
    { apply Forall_app. split; [apply IHa; exact Ha|]. constructor; [exact I | apply IHb; exact Hb]. }
    destruct (2 <? lvl)%nat; [|exact G].
    constructor; [exact I|]. apply Forall_app. split; [exact G | repeat constructor].
  - apply andb_true_iff in H as [Ha Hb]. cbn [tr]. unfold wrap.
    assert (G : Forall (fun t => tok_ok (fst t)) (tr 1 a ++ (TOr, sp) :: tr 2 b)).
    { apply Forall_app. split; [apply IHa; exact Ha|]. constructor; [exact I | apply IHb; exact Hb]. }
    destruct (1 <? lvl)%nat; [|exact G].
    constructor; [exact I|]. apply Forall_app. split; [exact G | repeat constructor].
  - apply andb_true_iff in H as [Ha Hb]. cbn [tr]. unfold wrap.
    assert (G : Forall (fun t => tok_ok (fst t)) (tr 0 a ++ tr 1 b)).
    { apply Forall_app. split; [apply IHa; exact Ha | apply IHb; exact Hb]. }
    destruct (0 <? lvl)%nat; [|exact G].
    constructor; [exact I|]. apply Forall_app. split; [exact G | repeat constructor].
Qed.

Lemma spells_map l :
  Forall (fun t => tok_ok (fst t)) l -> Forall2 spells (map spell l) (toks l).
Proof.
  induction 1 as [|[t sp] l Ht _ IH]; cbn [map toks fst]; constructor; [|exact IH].
  split; [exact Ht | exists sp; reflexivity].
Qed.

Lemma tr_nonempty lvl q : tr lvl q <> [].
Proof.
  pose proof (tr_first lvl q) as (Hne & _). intros E. apply Hne. rewrite E. reflexivity.
Qed.

Lemma qsize_le_len lvl q : (qsize q <= 12 * length (tr lvl q))%nat.
Proof.
  revert lvl. induction q as [f sp p|sp a IHa|sp a IHa b IHb|sp a IHa b IHb|a IHa b IHb]; intros lvl.
  - destruct f; cbn; lia.
  - cbn [tr qsize]. specialize (IHa 4%nat). unfold wrap.
    destruct (3 <? lvl)%nat; cbn [length]; try rewrite app_length; cbn [length]; lia.
  - cbn [tr qsize]. specialize (IHa 2%nat). specialize (IHb 3%nat). unfold wrap.
    destruct (2 <? lvl)%nat; cbn [length]; repeat rewrite app_length; cbn [length]; lia.
  - cbn [tr qsize]. specialize (IHa 1%nat). specialize (IHb 2%nat). unfold wrap.
    destruct (1 <? lvl)%nat; cbn [length]; repeat rewrite app_length; cbn [length]; lia.
  - cbn [tr qsize]. specialize (IHa 0%nat). specialize (IHb 1%nat). unfold wrap.
    pose proof (tr_nonempty 0 a) as Ha. pose proof (tr_nonempty 1 b) as Hb.
    destruct (tr 0 a) as [|xa la]; [congruence|]. destruct (tr 1 b) as [|xb lb]; [congruence|].
    destruct (0 <? lvl)%nat; cbn [length] in *; repeat rewrite app_length; cbn [length]; lia.
Qed.

Lemma total_len_ge (l : list stok) : (12 * length l + 14 <= total_len (map spell l))%nat.
Proof.
  unfold total_len. induction l as [|x l IH]; cbn [map fold_right length]; lia.
Qed.

(* parse (render q) = the intended expression, in either lexing mode *)
Lemma query_parse_lemma ext multi q :
  query_ok q = true -> parse ext multi (render q) = Ok (Some (to_expr q)).
Proof.
  intros Hok. unfold render, parse.
  pose proof (tr_nonempty 0 q) as Hne.
  destruct (map spell (tr 0 q)) as [|a0 r0] eqn:E.
  { destruct (tr 0 q); [congruence | discriminate]. }
  rewrite <- E.
  assert (Hs : stream (init_lex multi (map spell (tr 0 q))) (toks (tr 0 q))).
  { eapply st_plain; [reflexivity | | apply spells_map, toks_ok; exact Hok].
    rewrite E. unfold init_lex. constructor. }
  pose proof (qsize_le_len 0 q) as Hq. pose proof (total_len_ge (tr 0 q)) as Ht.
  destruct (parse_stream ext stream stream_next q _ (total_len (map spell (tr 0 q)))
              ltac:(lia) Hs) as (st' & Hp & Hs').
  rewrite Hp.
  destruct (stream_peek_end TAccount st' eq_refl Hs') as (st'' & Hk). rewrite Hk. reflexivity.
Qed.
