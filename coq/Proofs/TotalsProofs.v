(* Proofs about Model/Totals.v: totals of the account tree, running totals and lot stripping
   refine per-commodity sums over the selected postings. *)
From LedgerV Require Import Base.Prelude Base.Round Model.Amount Proofs.AmountProofs Model.Totals.
From Coq Require Import Permutation Lqa Setoid Morphisms Arith.
Local Open Scope Q_scope.
Local Opaque Qred.

(* ------------------------------------------------------------ sums of rationals *)

Fixpoint sumq {A} (f : A -> Q) (l : list A) : Q :=
  match l with
  | [] => 0
  | x :: l' => f x + sumq f l'
  end.

Lemma sumq_app {A} (f : A -> Q) l1 l2 : sumq f (l1 ++ l2) == sumq f l1 + sumq f l2.
Proof. induction l1 as [|x l1 IH]; cbn [sumq app]; [ring|]. rewrite IH. ring. Qed.

Lemma sumq_ext_in {A} (f g : A -> Q) l :
  (forall x, In x l -> f x == g x) -> sumq f l == sumq g l.
Proof.
  induction l as [|x l IH]; intros H; cbn [sumq]; [reflexivity|].
  rewrite (H x (or_introl eq_refl)), IH; [reflexivity|].
  intros y Hy. apply H. right. exact Hy.
Qed.

Lemma sumq_plus {A} (f g : A -> Q) l :
  sumq (fun x => f x + g x) l == sumq f l + sumq g l.
Proof. induction l as [|x l IH]; cbn [sumq]; [ring|]. rewrite IH. ring. Qed.

Lemma sumq_zero {A} (l : list A) : sumq (fun _ => 0) l == 0.
Proof. induction l as [|x l IH]; cbn [sumq]; [reflexivity|]. rewrite IH. ring. Qed.

Lemma sumq_filter {A} (P : A -> bool) (f : A -> Q) l :
  sumq f (filter P l) == sumq (fun x => if P x then f x else 0) l.
Proof.
  induction l as [|x l IH]; cbn [sumq filter]; [reflexivity|].
  destruct (P x); cbn [sumq]; rewrite IH; ring.
Qed.

Lemma sumq_map {A B} (k : A -> B) (h : B -> Q) l : sumq h (map k l) = sumq (fun x => h (k x)) l.
Proof. induction l as [|x l IH]; cbn [sumq map]; [reflexivity|]. rewrite IH. reflexivity. Qed.

Lemma sumq_swap {A B} (h : A -> B -> Q) (ks : list A) (l : list B) :
  sumq (fun k => sumq (fun p => h k p) l) ks == sumq (fun p => sumq (fun k => h k p) ks) l.
Proof.
  induction ks as [|k ks IH]; cbn [sumq].
  - rewrite sumq_zero. reflexivity.
  - rewrite IH, <- sumq_plus. reflexivity.
Qed.

Lemma filter_ext_in' {A} (P Q' : A -> bool) l :
  (forall x, In x l -> P x = Q' x) -> filter P l = filter Q' l.
Proof.
  induction l as [|x l IH]; intros H; cbn [filter]; [reflexivity|].
  rewrite (H x (or_introl eq_refl)), IH; [reflexivity|].
  intros y Hy. apply H. right. exact Hy.
Qed.

(* ------------------------------------------------- v_add never fails on totals *)

Definition numeric (v : value) : Prop :=
  match v with VVoid | VAmt _ | VBal _ => True | _ => False end.

Lemma bal_add_amt_total ord b a : exists b', bal_add_amt ord b a = Ok b'.
Proof.
  unfold bal_add_amt. destruct (is_realzero a); [eexists; reflexivity|].
  destruct (bal_find (acomm a) b) as [x|] eqn:Hf; [|eexists; reflexivity].
  pose proof (bal_find_some _ _ _ Hf) as Hx.
  unfold amt_add, diff_comm. rewrite Hx. rewrite andb_false_r. cbn [bind]. eexists; reflexivity.
Qed.

Lemma bal_fold_add_total ord : forall l b, exists b', bal_fold (bal_add_amt ord) b l = Ok b'.
Proof.
  induction l as [|x l IH]; intros b; cbn [bal_fold]; [eexists; reflexivity|].
  destruct (bal_add_amt_total ord b x) as [b1 ->]. cbn [bind]. apply IH.
Qed.

Lemma v_add_total ord v w :
  numeric v -> numeric w -> is_void w = false ->
  exists r, v_add ord v w = Ok r /\ numeric r /\ is_void r = false.
Proof.
  intros Hv Hw Hn.
  destruct v as [| bv | x | a | b]; try contradiction;
    destruct w as [| bw | y | a' | b']; try contradiction; try discriminate; cbn [v_add].
  - eexists; repeat split.
  - eexists; repeat split.
  - destruct (comm_eqb (acomm a) (acomm a')) eqn:Hc.
    + unfold amt_add, diff_comm. rewrite Hc. rewrite andb_false_r. cbn [bind]. eexists; repeat split.
    + destruct (bal_add_amt_total ord (bal_of_amt a) a') as [r ->]. cbn [bind]. eexists; repeat split.
  - unfold bal_add. destruct (bal_fold_add_total ord b' (bal_of_amt a)) as [r ->]. cbn [bind].
    eexists; repeat split.
  - destruct (bal_add_amt_total ord b a') as [r ->]. cbn [bind]. eexists; repeat split.
  - unfold bal_add. destruct (bal_fold_add_total ord b' b) as [r ->]. cbn [bind]. eexists; repeat split.
Qed.

Lemma add_nonnull_total ord acc t :
  numeric acc -> numeric t -> exists r, add_nonnull ord acc t = Ok r /\ numeric r.
Proof.
  intros Ha Ht. unfold add_nonnull. destruct (is_void t) eqn:Hv; [eexists; split; [reflexivity|exact Ha]|].
  destruct (v_add_total ord acc t Ha Ht Hv) as (r & -> & Hr & _). eexists; split; [reflexivity|exact Hr].
Qed.

Lemma add_nonnull_den ord acc t r c :
  add_nonnull ord acc t = Ok r -> den r c == den acc c + den t c.
Proof.
  unfold add_nonnull. destruct t; cbn [is_void]; try apply v_add_exact.
  intros [= <-]. cbn [den]. ring.
Qed.

(* ------------------------------------------------------------------ vsum, running *)

Definition amtq (c : option comm) (a : amount) : Q := at_comm a c.

Lemma vsum_den ord c : forall l acc r,
  vsum ord acc l = Ok r -> den r c == den acc c + sumq (amtq c) l.
Proof.
  induction l as [|a l IH]; intros acc r; cbn [vsum sumq].
  - intros [= <-]. ring.
  - destruct (v_add ord acc (VAmt a)) as [t|] eqn:E; cbn [bind]; [|discriminate].
    intros H. rewrite (IH _ _ H), (v_add_exact _ _ _ _ c E). cbn [den]. unfold amtq. ring.
Qed.

Lemma vsum_total ord : forall l acc, numeric acc -> exists r, vsum ord acc l = Ok r /\ numeric r.
Proof.
  induction l as [|a l IH]; intros acc Ha; cbn [vsum]; [eexists; split; [reflexivity|exact Ha]|].
  destruct (v_add_total ord acc (VAmt a) Ha I eq_refl) as (t & -> & Ht & _). cbn [bind]. apply IH, Ht.
Qed.

Lemma running_length ord : forall l acc ts, running ord acc l = Ok ts -> length ts = length l.
Proof.
  induction l as [|a l IH]; intros acc ts; cbn [running].
  - intros [= <-]. reflexivity.
  - destruct (v_add ord acc (VAmt a)) as [t|]; cbn [bind]; [|discriminate].
    destruct (running ord t l) as [r|] eqn:E; cbn [bind]; [|discriminate].
    intros [= <-]. cbn [length]. rewrite (IH _ _ E). reflexivity.
Qed.

Lemma running_den ord c : forall l acc ts,
  running ord acc l = Ok ts ->
  forall n t, nth_error ts n = Some t ->
  den t c == den acc c + sumq (amtq c) (firstn (S n) l).
Proof.
  induction l as [|a l IH]; intros acc ts; cbn [running].
  - intros [= <-] n t H. destruct n; discriminate.
  - destruct (v_add ord acc (VAmt a)) as [t0|] eqn:E0; cbn [bind]; [|discriminate].
    destruct (running ord t0 l) as [r|] eqn:E; cbn [bind]; [|discriminate].
    intros [= <-] n t H. pose proof (v_add_exact _ _ _ _ c E0) as H0. cbn [den] in H0.
    destruct n as [|n].
    + injection H as <-. cbn [firstn sumq]. rewrite H0. unfold amtq. ring.
    + cbn [nth_error] in H. rewrite (IH _ _ E n t H). rewrite H0.
      change (firstn (S (S n)) (a :: l)) with (a :: firstn (S n) l). cbn [sumq]. unfold amtq. ring.
Qed.

Lemma running_total_ok ord : forall l acc, numeric acc -> exists ts, running ord acc l = Ok ts.
Proof.
  induction l as [|a l IH]; intros acc Ha; cbn [running]; [eexists; reflexivity|].
  destruct (v_add_total ord acc (VAmt a) Ha I eq_refl) as (t & -> & Ht & _). cbn [bind].
  destruct (IH t Ht) as [r ->]. cbn [bind]. eexists; reflexivity.
Qed.

(* ------------------------------------------------------------------ register rows *)

Lemma combine_fst {A B} : forall (l : list A) (m : list B),
  length m = length l -> map fst (combine l m) = l.
Proof.
  induction l as [|x l IH]; intros [|y m] H; cbn in *; try discriminate; [reflexivity|].
  rewrite IH; [reflexivity|]. lia.
Qed.

Lemma combine_snd {A B} : forall (l : list A) (m : list B),
  length m = length l -> map snd (combine l m) = m.
Proof.
  induction l as [|x l IH]; intros [|y m] H; cbn in *; try discriminate; [reflexivity|].
  rewrite IH; [reflexivity|]. lia.
Qed.

Definition row_q (c : option comm) (r : row) : Q := den (r_amt r) c.

Lemma rows_of_proj ord f sp rows :
  rows_of ord f sp = Ok rows ->
  map (fun r => (r_acct r, r_amt r)) rows = map (fun p => (p_acct p, VAmt (f p))) sp /\
  exists ts, running ord VVoid (map f sp) = Ok ts /\ map r_total rows = ts.
Proof.
  unfold rows_of. destruct (running ord VVoid (map f sp)) as [ts|] eqn:E; cbn [bind]; [|discriminate].
  intros [= <-]. pose proof (running_length _ _ _ _ E) as Hl. rewrite map_length in Hl.
  split.
  - rewrite map_map. cbn [r_acct r_amt].
    rewrite <- (combine_fst sp ts Hl) at 2. rewrite map_map. reflexivity.
  - exists ts. split; [reflexivity|]. rewrite map_map. cbn [r_total]. apply combine_snd, Hl.
Qed.

Lemma sumq_rows_filter c (P : path -> bool) ord f sp rows :
  rows_of ord f sp = Ok rows ->
  sumq (row_q c) (filter (fun r => P (r_acct r)) rows) ==
  sumq (fun p => amtq c (f p)) (filter (fun p => P (p_acct p)) sp).
Proof.
  intros H. apply rows_of_proj in H as [Hp _].
  rewrite !sumq_filter.
  transitivity (sumq (fun ar : path * value => if P (fst ar) then den (snd ar) c else 0)
                     (map (fun r => (r_acct r, r_amt r)) rows)).
  - rewrite sumq_map. reflexivity.
  - rewrite Hp, sumq_map. reflexivity.
Qed.

Lemma firstn_map {A B} (g : A -> B) : forall n l, firstn n (map g l) = map g (firstn n l).
Proof. induction n; intros [|x l]; cbn; try reflexivity. rewrite IHn. reflexivity. Qed.

Lemma running_total_prefix_gen ord c f sp rows :
  rows_of ord f sp = Ok rows ->
  forall n r, nth_error rows n = Some r ->
  den (r_total r) c == sumq (row_q c) (firstn (S n) rows).
Proof.
  intros H n r Hn. pose proof (rows_of_proj _ _ _ _ H) as (Hp & ts & Hr & Ht).
  assert (Hn' : nth_error ts n = Some (r_total r)).
  { rewrite <- Ht. rewrite nth_error_map, Hn. reflexivity. }
  rewrite (running_den ord c _ _ _ Hr n _ Hn'). cbn [den].
  assert (E : sumq (row_q c) (firstn (S n) rows) ==
              sumq (fun ar : path * value => den (snd ar) c)
                   (firstn (S n) (map (fun r => (r_acct r, r_amt r)) rows))).
  { rewrite firstn_map, sumq_map. reflexivity. }
  rewrite E, Hp, firstn_map, sumq_map, firstn_map, sumq_map. cbn [snd den]. unfold amtq. ring.
Qed.

Lemma rows_of_total ord f sp : exists rows, rows_of ord f sp = Ok rows.
Proof.
  unfold rows_of. destruct (running_total_ok ord (map f sp) VVoid I) as [ts ->]. cbn [bind].
  eexists; reflexivity.
Qed.

Lemma rows_of_length ord f sp rows : rows_of ord f sp = Ok rows -> length rows = length sp.
Proof.
  intros H. apply rows_of_proj in H as [Hp _].
  apply (f_equal (@length _)) in Hp. rewrite !map_length in Hp. exact Hp.
Qed.

(* ------------------------------------------------------------------ paths *)

Lemma path_eqb_eq a b : path_eqb a b = true <-> a = b.
Proof.
  revert b; induction a as [|x a IH]; intros [|y b]; cbn [path_eqb]; split;
    try discriminate; try reflexivity.
  - intros H. apply andb_true_iff in H as [H1 H2]. apply str_eqb_spec in H1. apply IH in H2.
    congruence.
  - intros [= -> ->]. rewrite str_eqb_refl. cbn. apply IH. reflexivity.
Qed.

Lemma is_prefix_spec a b : is_prefix a b = true <-> firstn (length a) b = a.
Proof.
  revert b; induction a as [|x a IH]; intros b; cbn [is_prefix length firstn].
  - split; reflexivity.
  - destruct b as [|y b]; [split; discriminate|].
    split.
    + intros H. apply andb_true_iff in H as [H1 H2]. apply str_eqb_spec in H1. apply IH in H2.
      congruence.
    + intros [= -> H]. rewrite str_eqb_refl. cbn. apply IH. exact H.
Qed.

Lemma is_prefix_length a b : is_prefix a b = true -> (length a <= length b)%nat.
Proof.
  intros H. apply is_prefix_spec in H. rewrite <- H at 1. rewrite firstn_length. lia.
Qed.

Lemma firstn_length_eq {A} (n : nat) (l : list A) : (length l <= n)%nat -> firstn n l = l.
Proof. apply firstn_all2. Qed.

(* a path of length n is a prefix of b iff it is the first n segments of b *)
Lemma is_prefix_firstn k b : is_prefix k b = true <-> firstn (length k) b = k.
Proof. apply is_prefix_spec. Qed.

(* ------------------------------------------------------------------ sorting *)

Lemma ins_path_perm k l : Permutation (ins_path k l) (k :: l).
Proof.
  induction l as [|x l IH]; cbn [ins_path]; [reflexivity|].
  destruct (path_compare k x); try reflexivity.
  rewrite IH. apply perm_swap.
Qed.

Lemma isort_perm l : Permutation (isort l) l.
Proof.
  induction l as [|x l IH]; cbn [isort]; [reflexivity|].
  rewrite ins_path_perm, IH. reflexivity.
Qed.

Lemma filter_map_in {A B} (g : A -> option B) l y :
  In y (filter_map g l) <-> exists x, In x l /\ g x = Some y.
Proof.
  induction l as [|x l IH]; cbn [filter_map In].
  - split; [contradiction|intros (x & [] & _)].
  - destruct (g x) as [z|] eqn:E; cbn [In]; rewrite IH; split.
    + intros [<-|(x' & H1 & H2)]; [exists x; auto|exists x'; auto].
    + intros (x' & [<-|H1] & H2); [left; congruence|right; exists x'; auto].
    + intros (x' & H1 & H2). exists x'; auto.
    + intros (x' & [<-|H1] & H2); [congruence|exists x'; auto].
Qed.

Lemma children_in all a k :
  In k (children all a) <->
  exists b, In b all /\ firstn (length a) b = a /\ (length a < length b)%nat /\
            k = firstn (S (length a)) b.
Proof.
  unfold children.
  assert (Hi : In k (isort (nodup path_dec (filter_map (child_toward a) all))) <->
               In k (filter_map (child_toward a) all)).
  { split; intros H.
    - apply (Permutation_in _ (isort_perm _)) in H. apply nodup_In in H. exact H.
    - apply (Permutation_in _ (Permutation_sym (isort_perm _))). apply nodup_In. exact H. }
  rewrite Hi, filter_map_in. split; intros (b & Hb & H); exists b; split; try exact Hb.
  - unfold child_toward in H. destruct (is_prefix a b) eqn:Hp; cbn [andb] in H; [|discriminate].
    destruct (Nat.ltb (length a) (length b)) eqn:Hl; [|discriminate].
    injection H as <-. apply is_prefix_spec in Hp. apply Nat.ltb_lt in Hl. auto.
  - destruct H as (Hp & Hl & ->). unfold child_toward.
    apply is_prefix_spec in Hp. apply Nat.ltb_lt in Hl. rewrite Hp, Hl. reflexivity.
Qed.

Lemma children_nodup all a : NoDup (children all a).
Proof.
  unfold children. eapply Permutation_NoDup; [symmetry; apply isort_perm|]. apply NoDup_nodup.
Qed.

Lemma children_length all a k : In k (children all a) -> length k = S (length a).
Proof.
  intros H. apply children_in in H as (b & _ & _ & Hl & ->). rewrite firstn_length. lia.
Qed.

Lemma children_prefix all a k : In k (children all a) -> firstn (length a) k = a.
Proof.
  intros H. apply children_in in H as (b & _ & Hp & Hl & ->).
  rewrite firstn_firstn. replace (Nat.min (length a) (S (length a))) with (length a) by lia. exact Hp.
Qed.

(* ------------------------------------------------------------------ the account tree *)

Lemma is_prefix_refl a : is_prefix a a = true.
Proof. apply is_prefix_spec. apply firstn_all. Qed.

Lemma sum_prefix_indicator (b : path) (g : Q) (n : nat) : forall ks,
  NoDup ks -> (forall k, In k ks -> length k = n) ->
  sumq (fun k => if is_prefix k b then g else 0) ks ==
  if in_dec path_dec (firstn n b) ks then g else 0.
Proof.
  induction ks as [|k ks IH]; intros Hnd Hlen; cbn [sumq].
  - destruct (in_dec path_dec (firstn n b) []) as [[]|_]. reflexivity.
  - inversion Hnd as [|? ? Hk Hnd']; subst.
    assert (Hlk : length k = n) by (apply Hlen; left; reflexivity).
    rewrite IH; [|exact Hnd'|intros k' Hk'; apply Hlen; right; exact Hk'].
    destruct (is_prefix k b) eqn:Hp.
    + apply is_prefix_spec in Hp. rewrite Hlk in Hp.
      destruct (in_dec path_dec (firstn n b) ks) as [Hi|Hn]; [rewrite Hp in Hi; contradiction|].
      destruct (in_dec path_dec (firstn n b) (k :: ks)) as [_|Hn2]; [ring|].
      exfalso. apply Hn2. left. symmetry. exact Hp.
    + assert (Hne : firstn n b <> k).
      { intros E. rewrite <- Hlk in E. apply is_prefix_spec in E. congruence. }
      destruct (in_dec path_dec (firstn n b) ks) as [Hi|Hn];
        destruct (in_dec path_dec (firstn n b) (k :: ks)) as [Hi2|Hn2]; try ring.
      * exfalso. apply Hn2. right. exact Hi.
      * exfalso. destruct Hi2 as [E|Hi2]; [apply Hne; symmetry; exact E|contradiction].
Qed.

Section Tree.
  Variable ord : bool.
  Variable f : posting -> amount.
  Variable all : list path.
  Variable sp : list posting.
  Variable c : option comm.
  Hypothesis Hall : forall p, In p sp -> In (p_acct p) all.

  Definition pq (p : posting) : Q := amtq c (f p).
  Definition subtree (a : path) : list posting := filter (fun p => is_prefix a (p_acct p)) sp.

  Lemma partition_point a p :
    In p sp ->
    (if is_prefix a (p_acct p) then pq p else 0) ==
    (if path_eqb (p_acct p) a then pq p else 0) +
    sumq (fun k => if is_prefix k (p_acct p) then pq p else 0) (children all a).
  Proof.
    intros Hp. set (b := p_acct p).
    rewrite (sum_prefix_indicator b (pq p) (S (length a)) (children all a)
               (children_nodup all a) (children_length all a)).
    destruct (is_prefix a b) eqn:Hpre.
    - pose proof (is_prefix_length _ _ Hpre) as Hle. apply is_prefix_spec in Hpre.
      destruct (Nat.eq_dec (length b) (length a)) as [Hel|Hnl].
      + assert (Hba : b = a). { rewrite <- Hpre. symmetry. apply firstn_all2. lia. }
        assert (E : path_eqb b a = true) by (apply path_eqb_eq; exact Hba). rewrite E.
        destruct (in_dec path_dec (firstn (S (length a)) b) (children all a)) as [Hi|_]; [|ring].
        exfalso. apply children_length in Hi. rewrite firstn_length in Hi. lia.
      + assert (E : path_eqb b a = false).
        { destruct (path_eqb b a) eqn:E; [|reflexivity]. apply path_eqb_eq in E. congruence. }
        rewrite E.
        destruct (in_dec path_dec (firstn (S (length a)) b) (children all a)) as [_|Hn]; [ring|].
        exfalso. apply Hn. apply children_in. exists b. repeat split; try assumption.
        * apply Hall. exact Hp.
        * lia.
    - assert (E : path_eqb b a = false).
      { destruct (path_eqb b a) eqn:E; [|reflexivity]. apply path_eqb_eq in E.
        rewrite E, is_prefix_refl in Hpre. discriminate. }
      rewrite E.
      destruct (in_dec path_dec (firstn (S (length a)) b) (children all a)) as [Hi|_]; [|ring].
      exfalso. apply children_in in Hi as (b' & _ & Hp' & Hl' & Heq).
      assert (Hx : firstn (length a) b = a).
      { rewrite <- Hp' at 2.
        replace (firstn (length a) b) with (firstn (length a) (firstn (S (length a)) b)).
        - rewrite Heq. rewrite firstn_firstn. f_equal. lia.
        - rewrite firstn_firstn. f_equal. lia. }
      apply is_prefix_spec in Hx. congruence.
  Qed.

  (* the postings under a = the postings of a itself + the postings under each child *)
  Lemma partition_subtree a :
    sumq pq (subtree a) ==
    sumq pq (own_posts sp a) + sumq (fun k => sumq pq (subtree k)) (children all a).
  Proof.
    unfold subtree, own_posts. rewrite !sumq_filter.
    assert (E : sumq (fun k => sumq pq (filter (fun p => is_prefix k (p_acct p)) sp)) (children all a) ==
                sumq (fun p => sumq (fun k => if is_prefix k (p_acct p) then pq p else 0) (children all a)) sp).
    { rewrite <- sumq_swap. apply sumq_ext_in. intros k _. apply sumq_filter. }
    rewrite E, <- sumq_plus. apply sumq_ext_in. intros p Hp. apply partition_point. exact Hp.
  Qed.

  Lemma kids_total_den (F : path -> res value) (G : path -> Q) : forall ks acc v,
    kids_total ord F ks acc = Ok v ->
    (forall k t, In k ks -> F k = Ok t -> den t c == G k) ->
    den v c == den acc c + sumq G ks.
  Proof.
    induction ks as [|k ks IH]; intros acc v; cbn [kids_total sumq].
    - intros [= <-] _. ring.
    - destruct (F k) as [t|] eqn:Et; cbn [bind]; [|discriminate].
      destruct (add_nonnull ord acc t) as [acc'|] eqn:Ea; cbn [bind]; [|discriminate].
      intros H HG. rewrite (IH _ _ H); [|intros k' t' Hk'; apply HG; right; exact Hk'].
      rewrite (add_nonnull_den _ _ _ _ c Ea). rewrite (HG k t (or_introl eq_refl) Et). ring.
  Qed.

  Lemma kids_total_inv (F : path -> res value) : forall ks acc v,
    kids_total ord F ks acc = Ok v ->
    exists ts, map_res F ks = Ok ts /\ den v c == den acc c + sumq (fun t => den t c) ts.
  Proof.
    induction ks as [|k ks IH]; intros acc v; cbn [kids_total map_res].
    - intros [= <-]. exists []. split; [reflexivity|]. cbn [sumq]. ring.
    - destruct (F k) as [t|] eqn:Et; cbn [bind]; [|discriminate].
      destruct (add_nonnull ord acc t) as [acc'|] eqn:Ea; cbn [bind]; [|discriminate].
      intros H. destruct (IH _ _ H) as (ts & -> & Hd). cbn [bind]. exists (t :: ts).
      split; [reflexivity|]. cbn [sumq]. rewrite Hd, (add_nonnull_den _ _ _ _ c Ea). ring.
  Qed.

  Lemma own_den a v : own ord f sp a = Ok v -> den v c == sumq pq (own_posts sp a).
  Proof.
    unfold own. intros H. rewrite (vsum_den ord c _ _ _ H). cbn [den]. rewrite sumq_map.
    unfold pq. ring.
  Qed.

  Lemma prefix_trans_firstn (a k b : path) :
    firstn (length a) k = a -> (length a <= length k)%nat -> is_prefix k b = true ->
    is_prefix a b = true.
  Proof.
    intros Ha Hl Hk. apply is_prefix_spec in Hk. apply is_prefix_spec.
    transitivity (firstn (length a) (firstn (length k) b)).
    - rewrite firstn_firstn. f_equal. lia.
    - rewrite Hk. exact Ha.
  Qed.

  (* total_is_sum_of_subtree, for any sufficient fuel *)
  Lemma total_den : forall fuel a v,
    (forall p, In p sp -> is_prefix a (p_acct p) = true ->
               (length (p_acct p) <= length a + fuel)%nat) ->
    total fuel ord f all sp a = Ok v ->
    den v c == sumq pq (subtree a).
  Proof.
    induction fuel as [|n IH]; intros a v Hb; cbn [total].
    - intros H. rewrite (own_den _ _ H). unfold subtree, own_posts.
      rewrite (filter_ext_in' (fun p => is_prefix a (p_acct p)) (fun p => path_eqb (p_acct p) a));
        [reflexivity|].
      intros p Hp. destruct (is_prefix a (p_acct p)) eqn:Hpre.
      + symmetry. apply path_eqb_eq. pose proof (Hb p Hp Hpre) as Hl.
        apply is_prefix_spec in Hpre. transitivity (firstn (length a) (p_acct p)); [|exact Hpre].
        symmetry. apply firstn_all2. lia.
      + destruct (path_eqb (p_acct p) a) eqn:E; [|reflexivity]. apply path_eqb_eq in E.
        rewrite E, is_prefix_refl in Hpre. discriminate.
    - destruct (kids_total ord (total n ord f all sp) (children all a) VVoid) as [kids|] eqn:Ek;
        cbn [bind]; [|discriminate].
      destruct (own ord f sp a) as [self|] eqn:Eo; cbn [bind]; [|discriminate].
      intros H. rewrite (add_nonnull_den _ _ _ _ c H), (own_den _ _ Eo).
      rewrite (kids_total_den _ (fun k => sumq pq (subtree k)) _ _ _ Ek).
      + cbn [den]. rewrite partition_subtree. ring.
      + intros k t Hk Ht. apply (IH k t); [|exact Ht].
        intros p Hp Hpre. pose proof (children_length _ _ _ Hk) as Hlk.
        pose proof (children_prefix _ _ _ Hk) as Hpk.
        assert (Ha : is_prefix a (p_acct p) = true).
        { apply (prefix_trans_firstn a k); [exact Hpk|lia|exact Hpre]. }
        pose proof (Hb p Hp Ha). lia.
  Qed.

  Lemma own_total_ok a : exists v, own ord f sp a = Ok v /\ numeric v.
  Proof. unfold own. apply vsum_total. exact I. Qed.

  Lemma kids_total_ok (F : path -> res value) : forall ks acc,
    numeric acc -> (forall k, exists t, F k = Ok t /\ numeric t) ->
    exists v, kids_total ord F ks acc = Ok v /\ numeric v.
  Proof.
    induction ks as [|k ks IH]; intros acc Ha HF; cbn [kids_total].
    - eexists; split; [reflexivity|exact Ha].
    - destruct (HF k) as (t & -> & Ht). cbn [bind].
      destruct (add_nonnull_total ord acc t Ha Ht) as (acc' & -> & Ha'). cbn [bind].
      apply IH; assumption.
  Qed.

  (* account_t::total never throws on these values *)
  Lemma total_ok : forall fuel a, exists v, total fuel ord f all sp a = Ok v /\ numeric v.
  Proof.
    induction fuel as [|n IH]; intros a; cbn [total]; [apply own_total_ok|].
    destruct (kids_total_ok (total n ord f all sp) (children all a) VVoid I IH) as (kids & -> & Hk).
    cbn [bind]. destruct (own_total_ok a) as (self & -> & Hs). cbn [bind].
    apply add_nonnull_total; assumption.
  Qed.
End Tree.

(* ------------------------------------------------------ the reports, per option set *)

Lemma selected_in o ps p : In p (selected o ps) -> In p ps.
Proof. unfold selected. intros H. apply filter_In in H. tauto. Qed.

Lemma max_depth_bound ps p : In p ps -> (length (p_acct p) <= max_depth ps)%nat.
Proof.
  induction ps as [|x ps IH]; cbn [In max_depth fold_right]; [contradiction|].
  intros [->|H]; [lia|]. specialize (IH H). unfold max_depth in IH. lia.
Qed.

Lemma selected_all o ps p : In p (selected o ps) -> In (p_acct p) (map p_acct ps).
Proof. intros H. apply in_map, (selected_in o). exact H. Qed.

Lemma filter_true {A} (l : list A) : filter (fun _ => true) l = l.
Proof. induction l as [|x l IH]; cbn [filter]; [reflexivity|]. rewrite IH. reflexivity. Qed.

(* the spec: per-commodity sum of the amount expression over the selected postings
   satisfying P *)
Definition sel_sum (o : opts) (ps : list posting) (c : option comm) (P : posting -> bool) : Q :=
  sumq (fun p => at_comm (amt o p) c) (filter P (filter (sel o) ps)).

Lemma total_of_den ord o ps a v c :
  total_of ord o ps a = Ok v ->
  den v c == sel_sum o ps c (fun p => is_prefix a (p_acct p)).
Proof.
  unfold total_of. intros H.
  rewrite (total_den ord (amt o) (map p_acct ps) (selected o ps) c (selected_all o ps)
             (max_depth ps) a v); [reflexivity| |exact H].
  intros p Hp _. pose proof (max_depth_bound ps p (selected_in _ _ _ Hp)). lia.
Qed.

Lemma total_of_ok ord o ps a : exists v, total_of ord o ps a = Ok v.
Proof.
  destruct (total_ok ord (amt o) (map p_acct ps) (selected o ps) (max_depth ps) a) as (v & H & _).
  exists v. exact H.
Qed.

Lemma own_of_den ord o ps a v c :
  own_of ord o ps a = Ok v ->
  den v c == sel_sum o ps c (fun p => path_eqb (p_acct p) a).
Proof. unfold own_of. intros H. rewrite (own_den ord (amt o) (selected o ps) c a v H). reflexivity. Qed.

Lemma map_res_sum c (F : path -> res value) (G : path -> Q) : forall ks ts,
  map_res F ks = Ok ts ->
  (forall k t, In k ks -> F k = Ok t -> den t c == G k) ->
  sumq (fun t => den t c) ts == sumq G ks.
Proof.
  induction ks as [|k ks IH]; intros ts; cbn [map_res].
  - intros [= <-] _. reflexivity.
  - destruct (F k) as [t|] eqn:Et; cbn [bind]; [|discriminate].
    destruct (map_res F ks) as [ts'|] eqn:Em; cbn [bind]; [|discriminate].
    intros [= <-] HG. cbn [sumq]. rewrite (IH ts' eq_refl); [|intros k' t' Hk'; apply HG; right; exact Hk'].
    rewrite (HG k t (or_introl eq_refl) Et). reflexivity.
Qed.

Lemma parent_total_of ord o ps a v s ts c :
  total_of ord o ps a = Ok v ->
  own_of ord o ps a = Ok s ->
  map_res (total_of ord o ps) (children (map p_acct ps) a) = Ok ts ->
  den v c == den s c + sumq (fun t => den t c) ts.
Proof.
  intros Hv Hs Hts.
  rewrite (total_of_den _ _ _ _ _ c Hv). unfold sel_sum.
  pose proof (partition_subtree (amt o) (map p_acct ps) (selected o ps) c (selected_all o ps) a) as Hp.
  unfold subtree, pq, amtq in Hp. unfold selected in Hp. rewrite Hp.
  rewrite (own_of_den _ _ _ _ _ c Hs). unfold sel_sum, own_posts.
  rewrite (map_res_sum c _ (fun k => sumq (fun p => at_comm (amt o p) c)
                                       (filter (fun p => is_prefix k (p_acct p)) (filter (sel o) ps))) _ _ Hts).
  - reflexivity.
  - intros k t _ Ht. apply (total_of_den _ _ _ _ _ c Ht).
Qed.

(* the step account_t::total() performs: children's totals, then the own amount *)
Lemma total_step ord f all sp n a v c :
  total (S n) ord f all sp a = Ok v ->
  exists s ts, own ord f sp a = Ok s /\
               map_res (total n ord f all sp) (children all a) = Ok ts /\
               den v c == den s c + sumq (fun t => den t c) ts.
Proof.
  cbn [total].
  destruct (kids_total ord (total n ord f all sp) (children all a) VVoid) as [kids|] eqn:Ek;
    cbn [bind]; [|discriminate].
  destruct (own ord f sp a) as [self|] eqn:Eo; cbn [bind]; [|discriminate].
  intros H. destruct (kids_total_inv ord c _ _ _ _ Ek) as (ts & Hm & Hd).
  exists self, ts. repeat split; try assumption.
  rewrite (add_nonnull_den _ _ _ _ c H), Hd. cbn [den]. ring.
Qed.

Lemma reg_rows_ok ord o ps : exists rows, reg_rows ord o ps = Ok rows.
Proof. apply rows_of_total. Qed.

Lemma reg_running_prefix ord o ps rows c :
  reg_rows ord o ps = Ok rows ->
  forall n r, nth_error rows n = Some r ->
  den (r_total r) c == sumq (fun r' => den (r_amt r') c) (firstn (S n) rows).
Proof. intros H. apply (running_total_prefix_gen ord c _ _ _ H). Qed.

Lemma bal_eq_reg_gen ord ord' o ps a v rows c :
  total_of ord o ps a = Ok v ->
  reg_rows ord' o ps = Ok rows ->
  den v c == sumq (fun r => den (r_amt r) c) (filter (fun r => is_prefix a (r_acct r)) rows).
Proof.
  intros Hv Hr. rewrite (total_of_den _ _ _ _ _ c Hv).
  pose proof (sumq_rows_filter c (is_prefix a) _ _ _ _ Hr) as E. unfold row_q in E. rewrite E.
  unfold sel_sum, selected, amtq. reflexivity.
Qed.

Lemma own_eq_reg_gen ord ord' o ps a v rows c :
  own_of ord o ps a = Ok v ->
  reg_rows ord' o ps = Ok rows ->
  den v c == sumq (fun r => den (r_amt r) c) (filter (fun r => path_eqb (r_acct r) a) rows).
Proof.
  intros Hv Hr. rewrite (own_of_den _ _ _ _ _ c Hv).
  pose proof (sumq_rows_filter c (fun b => path_eqb b a) _ _ _ _ Hr) as E. unfold row_q in E. rewrite E.
  unfold sel_sum, selected, amtq. reflexivity.
Qed.

Lemma grand_is_reg_sum ord ord' o ps g rows c :
  total_of ord o ps [] = Ok g ->
  reg_rows ord' o ps = Ok rows ->
  den g c == sumq (fun r => den (r_amt r) c) rows.
Proof.
  intros Hg Hr. rewrite (bal_eq_reg_gen _ _ _ _ _ _ _ c Hg Hr). cbn [is_prefix].
  rewrite filter_true. reflexivity.
Qed.

Lemma last_running_is_grand ord ord' o ps g rows r c :
  total_of ord o ps [] = Ok g ->
  reg_rows ord' o ps = Ok rows ->
  nth_error rows (length rows - 1) = Some r ->
  den (r_total r) c == den g c.
Proof.
  intros Hg Hr Hn. rewrite (reg_running_prefix _ _ _ _ c Hr _ _ Hn).
  rewrite (grand_is_reg_sum _ _ _ _ _ _ c Hg Hr).
  assert (Hl : (length rows <> 0)%nat).
  { intros E. destruct rows; [destruct (length [] - 1)%nat; discriminate|discriminate]. }
  rewrite firstn_all2 by lia. reflexivity.
Qed.

(* ------------------------------------------------ --flat / --depth / --empty only pick rows *)

Definition same_filters (o o' : opts) : Prop :=
  o_real o = o_real o' /\ o_state o = o_state o' /\ o_query o = o_query o' /\
  o_basis o = o_basis o' /\ o_kp o = o_kp o' /\ o_kd o = o_kd o' /\ o_kt o = o_kt o' /\
  o_begin o = o_begin o' /\ o_end o = o_end o'.

Lemma brow_of_same_filters ord o o' ps a :
  same_filters o o' -> brow_of ord o ps a = brow_of ord o' ps a.
Proof.
  destruct o, o'. unfold same_filters. cbn. intros (-> & -> & -> & -> & -> & -> & -> & -> & ->). reflexivity.
Qed.

Lemma map_res'_forall {A B} (F : A -> res B) : forall l rs,
  map_res' F l = Ok rs -> Forall (fun r => exists x, In x l /\ F x = Ok r) rs.
Proof.
  induction l as [|x l IH]; intros rs; cbn [map_res'].
  - intros [= <-]. constructor.
  - destruct (F x) as [y|] eqn:E; cbn [bind]; [|discriminate].
    destruct (map_res' F l) as [ys|] eqn:E2; cbn [bind]; [|discriminate].
    intros [= <-]. constructor.
    + exists x. split; [left; reflexivity|exact E].
    + eapply Forall_impl; [|apply IH; reflexivity].
      intros r (x' & Hx & Hr). exists x'. split; [right; exact Hx|exact Hr].
Qed.

Lemma brow_of_acct ord o ps a b : brow_of ord o ps a = Ok b -> b_acct b = a.
Proof.
  unfold brow_of. destruct (total_of ord o ps a); cbn [bind]; [|discriminate].
  destruct (display_value ord o _); cbn [bind]; [|discriminate]. intros [= <-]. reflexivity.
Qed.

Lemma bal_rows_spec ord cp o ps rows :
  bal_rows ord cp o ps = Ok rows ->
  Forall (fun b => brow_of ord o ps (b_acct b) = Ok b /\ disp_pred o (b_acct b) = true) rows.
Proof.
  unfold bal_rows. destruct (mark _ _ _ _ _ _) as [m|]; cbn [bind]; [|discriminate].
  intros H. apply map_res'_forall in H. eapply Forall_impl; [|exact H].
  intros b (a & Ha & Hb). cbn beta in *. rewrite (brow_of_acct _ _ _ _ _ Hb). split; [exact Hb|].
  apply in_map_iff in Ha as ((a' & fl) & <- & Hin). apply filter_In in Hin as [_ Hf].
  cbn [fst snd] in *. apply andb_true_iff in Hf. tauto.
Qed.

Lemma brow_total_den ord o ps a b c :
  brow_of ord o ps a = Ok b ->
  den (b_total b) c == sel_sum o ps c (fun p => is_prefix a (p_acct p)).
Proof.
  unfold brow_of. destruct (total_of ord o ps a) as [t|] eqn:Et; cbn [bind]; [|discriminate].
  destruct (display_value ord o _); cbn [bind]; [|discriminate]. intros [= <-]. cbn [b_total].
  rewrite <- (total_of_den _ _ _ _ _ c Et). unfold simplified_or_zero.
  destruct t; try apply den_simplify. cbn [den]. destruct (comm_eqb None c); reflexivity.
Qed.

(* --------------------------------------------------------------- lots: stripping *)

(* the sum of the entries of a balance whose commodity satisfies P *)
Definition pden (P : option comm -> bool) (b : balance) : Q :=
  sumq (fun x => if P (acomm x) then aq x else 0) b.

Definition pden_v (P : option comm -> bool) (v : value) : Q :=
  match v with
  | VAmt a => if P (acomm a) then aq a else 0
  | VBal b => pden P b
  | VInt z => if P None then inject_Z z else 0
  | _ => 0
  end.

Lemma pden_replace P k y : forall b x,
  bal_find k b = Some x -> acomm y = acomm x ->
  pden P (bal_replace k y b) == pden P b - (if P (acomm x) then aq x else 0)
                                + (if P (acomm y) then aq y else 0).
Proof.
  unfold pden. induction b as [|z b IH]; intros x; cbn [bal_find bal_replace sumq]; [discriminate|].
  destruct (comm_eqb (acomm z) k) eqn:E.
  - intros [= ->] Hy. cbn [sumq]. ring.
  - intros Hf Hy. cbn [sumq]. rewrite (IH x Hf Hy). ring.
Qed.

Lemma bal_add_amt_pden P ord b a b' :
  bal_add_amt ord b a = Ok b' ->
  pden P b' == pden P b + (if P (acomm a) then aq a else 0).
Proof.
  unfold bal_add_amt. destruct (is_realzero a) eqn:Hz.
  - intros [= <-]. apply is_realzero_spec in Hz. destruct (P (acomm a)); [rewrite Hz|]; ring.
  - destruct (bal_find (acomm a) b) as [x|] eqn:Hf.
    + destruct (amt_add x a) as [s|] eqn:Hs; cbn [bind]; [|discriminate].
      intros [= <-]. pose proof (bal_find_some _ _ _ Hf) as Hx. apply comm_eqb_eq in Hx.
      pose proof (amt_add_comm_l _ _ _ Hs) as Hc.
      rewrite (pden_replace P (acomm a) s b x Hf Hc). rewrite Hc, <- Hx.
      apply amt_add_exact in Hs. destruct (P (acomm x)); rewrite ?Hs; ring.
    + intros [= <-]. unfold bal_insert, pden. destruct ord; cbn [sumq]; [ring|].
      rewrite sumq_app. cbn [sumq]. ring.
Qed.

Lemma bal_fold_add_pden P ord : forall l b b',
  bal_fold (bal_add_amt ord) b l = Ok b' -> pden P b' == pden P b + pden P l.
Proof.
  induction l as [|x l IH]; intros b b'; cbn [bal_fold].
  - intros [= <-]. unfold pden at 3. cbn [sumq]. ring.
  - destruct (bal_add_amt ord b x) as [b1|] eqn:E; cbn [bind]; [|discriminate].
    intros H. rewrite (IH _ _ H), (bal_add_amt_pden P _ _ _ _ E). unfold pden at 4. cbn [sumq].
    fold (pden P l). ring.
Qed.

Lemma v_unreduce_pden P ord v r : v_unreduce ord v = Ok r -> pden_v P r == pden_v P v.
Proof.
  destruct v as [| | | a | b]; cbn [v_unreduce]; try (intros [= <-]; reflexivity).
  destruct (bal_fold (bal_add_amt ord) [] b) as [r'|] eqn:E; cbn [bind]; [|discriminate].
  intros [= <-]. cbn [pden_v]. rewrite (bal_fold_add_pden P _ _ _ _ E).
  assert (E0 : pden P [] == 0) by reflexivity. rewrite E0. ring.
Qed.

(* the base symbol of a key survives stripping *)
Lemma split126_fst s : fst (split126 s) = base_sym s.
Proof.
  induction s as [|x s IH]; cbn [split126 base_sym]; [reflexivity|].
  destruct (split126 s) as [h t]. cbn [fst] in IH. destruct (x =? 126)%Z; cbn [fst]; congruence.
Qed.

Lemma base_sym_app_sep h r : base_sym (base_sym h ++ 126%Z :: r) = base_sym h.
Proof.
  induction h as [|x h IH]; cbn [base_sym app].
  - reflexivity.
  - destruct (x =? 126)%Z eqn:E; cbn [app base_sym].
    + reflexivity.
    + rewrite E, IH. reflexivity.
Qed.

Lemma base_sym_idem h : base_sym (base_sym h) = base_sym h.
Proof.
  induction h as [|x h IH]; cbn [base_sym]; [reflexivity|].
  destruct (x =? 126)%Z eqn:E; cbn [base_sym]; [reflexivity|]. rewrite E, IH. reflexivity.
Qed.

Lemma strip_key_base kp kd kt k : base_sym (strip_key kp kd kt k) = base_sym k.
Proof.
  unfold strip_key. pose proof (split126_fst k) as Hf. destruct (split126 k) as [b fs]. cbn [fst] in Hf.
  destruct fs as [|p [|d [|t [|? ?]]]]; try reflexivity.
  subst b. destruct (is_nil _ && is_nil _ && is_nil _).
  - apply base_sym_idem.
  - apply base_sym_app_sep.
Qed.

Definition base_of (k : option comm) : str :=
  match k with Some k => base_sym k | None => [] end.

(* "the entries of base commodity s" *)
Definition of_base (s : str) (k : option comm) : bool := str_eqb (base_of k) s.

Lemma amt_strip_base s kp kd kt a :
  of_base s (acomm (amt_strip kp kd kt a)) = of_base s (acomm a) /\
  aq (amt_strip kp kd kt a) = aq a.
Proof.
  unfold amt_strip, of_base. destruct (acomm a) as [k|] eqn:E; cbn [acomm aq base_of].
  - rewrite strip_key_base. split; reflexivity.
  - rewrite E. split; reflexivity.
Qed.

Lemma v_strip_base s ord kp kd kt v r :
  v_strip ord kp kd kt v = Ok r -> pden_v (of_base s) r == pden_v (of_base s) v.
Proof.
  unfold v_strip. destruct (kp && kd && kt); [intros [= <-]; reflexivity|].
  destruct v as [| | | a | b]; try (intros [= <-]; reflexivity).
  - intros [= <-]. cbn [pden_v]. destruct (amt_strip_base s kp kd kt a) as [-> ->]. reflexivity.
  - unfold bal_strip. destruct (bal_fold _ _ _) as [r'|] eqn:E; cbn [bind]; [|discriminate].
    intros [= <-]. cbn [pden_v]. rewrite (bal_fold_add_pden _ _ _ _ _ E).
    assert (E0 : pden (of_base s) [] == 0) by reflexivity. rewrite E0.
    unfold pden. rewrite sumq_map.
    rewrite (sumq_ext_in _ (fun x => if of_base s (acomm x) then aq x else 0)); [ring|].
    intros x _. destruct (amt_strip_base s kp kd kt x) as [-> ->]. reflexivity.
Qed.

(* lots_refine: whatever lot details are kept, the displayed value has, for every base
   commodity, the sum of all its annotated variants in the exact value *)
Lemma display_value_base s ord o v d :
  display_value ord o v = Ok d -> pden_v (of_base s) d == pden_v (of_base s) v.
Proof.
  unfold display_value. destruct (v_strip ord _ _ _ v) as [t|] eqn:E; cbn [bind]; [|discriminate].
  intros H. rewrite (v_unreduce_pden _ _ _ _ H). apply (v_strip_base s _ _ _ _ _ _ E).
Qed.

Lemma display_value_ok ord o v : exists d, display_value ord o v = Ok d.
Proof.
  unfold display_value, v_strip, bal_strip.
  destruct (o_kp o && o_kd o && o_kt o); cbn [bind].
  - destruct v; cbn [v_unreduce]; try (eexists; reflexivity).
    destruct (bal_fold_add_total ord b []) as [r ->]. cbn [bind]. eexists; reflexivity.
  - destruct v; cbn [bind v_unreduce]; try (eexists; reflexivity).
    destruct (bal_fold_add_total ord (map (amt_strip (o_kp o) (o_kd o) (o_kt o)) b) []) as [r ->].
    cbn [bind v_unreduce]. destruct (bal_fold_add_total ord r []) as [r' ->]. cbn [bind].
    eexists; reflexivity.
Qed.

(* with every detail dropped, the displayed entry of s is the whole base-commodity sum *)
Lemma pden_bden P b : pden P b == sumq (fun x => if P (acomm x) then aq x else 0) b.
Proof. reflexivity. Qed.

(* ------------------------------------------------------- the balance report never fails *)

Lemma brow_of_ok ord o ps a : exists b, brow_of ord o ps a = Ok b.
Proof.
  unfold brow_of. destruct (total_of_ok ord o ps a) as [t ->]. cbn [bind].
  destruct (display_value_ok ord o (simplified_or_zero t)) as [d ->]. cbn [bind]. eexists; reflexivity.
Qed.

Lemma map_res'_ok {A B} (F : A -> res B) : forall l,
  (forall x, exists y, F x = Ok y) -> exists ys, map_res' F l = Ok ys.
Proof.
  induction l as [|x l IH]; intros HF; cbn [map_res']; [eexists; reflexivity|].
  destruct (HF x) as [y ->]. cbn [bind]. destruct (IH HF) as [ys ->]. cbn [bind]. eexists; reflexivity.
Qed.

Lemma kids_marks_ok (F : path -> res marks) : forall ks acc,
  (forall k, exists m, F k = Ok m) -> exists m, kids_marks F ks acc = Ok m.
Proof.
  induction ks as [|k ks IH]; intros acc HF; cbn [kids_marks]; [eexists; reflexivity|].
  destruct (HF k) as [m ->]. cbn [bind]. apply IH, HF.
Qed.

Lemma mark_node_ok ord cp o ps a km : exists m, mark_node ord cp o ps a km = Ok m.
Proof.
  unfold mark_node. destruct a as [|x a]; [eexists; reflexivity|].
  destruct (visited o ps (x :: a) || _); [|eexists; reflexivity].
  destruct (total_of_ok ord o ps (x :: a)) as [t ->]. cbn [bind].
  destruct (display_value_ok ord o (simplified_or_zero t)) as [d ->]. cbn [bind]. eexists; reflexivity.
Qed.

Lemma mark_node_pre ord cp o ps a km m :
  mark_node ord cp o ps a km = Ok m -> exists f, m_pre m = (a, f) :: m_pre km.
Proof.
  unfold mark_node. destruct a as [|x a]; [intros [= <-]; eexists; reflexivity|].
  destruct (visited o ps (x :: a) || _); [|intros [= <-]; eexists; reflexivity].
  destruct (total_of ord o ps (x :: a)); cbn [bind]; [|discriminate].
  destruct (display_value ord o _); cbn [bind]; [|discriminate]. intros [= <-]. eexists; reflexivity.
Qed.

Lemma mark_ok ord cp o ps : forall fuel a, exists m, mark fuel ord cp o ps a = Ok m.
Proof.
  induction fuel as [|n IH]; intros a; cbn [mark].
  - cbn [bind]. apply mark_node_ok.
  - destruct (kids_marks_ok (mark n ord cp o ps) (children (map p_acct ps) a) (mkMarks 0 0 []) IH) as [km ->].
    cbn [bind]. apply mark_node_ok.
Qed.

Lemma bal_rows_ok ord cp o ps : exists rows, bal_rows ord cp o ps = Ok rows.
Proof.
  unfold bal_rows. destruct (mark_ok ord cp o ps (max_depth ps) []) as [m ->]. cbn [bind].
  apply map_res'_ok. intros a. apply brow_of_ok.
Qed.

(* ------------------------------------------------ collapse_posts (reg --depth n) *)

Definition mapq (c : option comm) (P : path -> bool) (m : list (path * value)) : Q :=
  sumq (fun kv => if P (fst kv) then den (snd kv) c else 0) m.

Lemma tot_add_den ord c (P : path -> bool) k a : forall m m',
  tot_add ord k a m = Ok m' ->
  mapq c P m' == mapq c P m + (if P k then at_comm a c else 0).
Proof.
  unfold mapq. induction m as [|[k' v] m IH]; intros m'; cbn [tot_add sumq].
  - intros [= <-]. cbn [sumq fst snd den]. ring.
  - destruct (path_eqb k k') eqn:E.
    + destruct (v_add ord v (VAmt a)) as [v'|] eqn:Ev; cbn [bind]; [|discriminate].
      intros [= <-]. cbn [sumq fst snd]. apply path_eqb_eq in E. subst k'.
      pose proof (v_add_exact _ _ _ _ c Ev) as Hd. cbn [den] in Hd.
      destruct (P k); [rewrite Hd|]; ring.
    + destruct (tot_add ord k a m) as [r|] eqn:Er; cbn [bind]; [|discriminate].
      intros [= <-]. cbn [sumq fst snd]. rewrite (IH r eq_refl). ring.
Qed.

Lemma collapse_xact_den ord c (P : path -> bool) n o : forall sp m m',
  collapse_xact ord n o sp m = Ok m' ->
  mapq c P m' == mapq c P m +
                 sumq (fun p => if P (truncate_path n (p_acct p)) then at_comm (amt o p) c else 0) sp.
Proof.
  induction sp as [|p sp IH]; intros m m'; cbn [collapse_xact sumq].
  - intros [= <-]. ring.
  - destruct (tot_add ord _ _ m) as [m1|] eqn:E; cbn [bind]; [|discriminate].
    intros H. rewrite (IH _ _ H), (tot_add_den _ c P _ _ _ _ E). ring.
Qed.

(* an account at depth <= n sees the same postings below it before and after truncation *)
Lemma is_prefix_truncate n a b :
  (Z.of_nat (length a) <= n)%Z -> is_prefix a (truncate_path n b) = is_prefix a b.
Proof.
  intros Hl. unfold truncate_path.
  assert (Hn : (length a <= Z.to_nat n)%nat) by lia.
  destruct (is_prefix a b) eqn:E.
  - apply is_prefix_spec in E. apply is_prefix_spec. rewrite firstn_firstn.
    replace (Nat.min (length a) (Z.to_nat n)) with (length a) by lia. exact E.
  - destruct (is_prefix a (firstn (Z.to_nat n) b)) eqn:E2; [|reflexivity].
    apply is_prefix_spec in E2. rewrite firstn_firstn in E2.
    replace (Nat.min (length a) (Z.to_nat n)) with (length a) in E2 by lia.
    apply is_prefix_spec in E2. congruence.
Qed.

Lemma group_xacts_concat : forall sp cur curx,
  concat (group_xacts sp cur curx) = rev cur ++ sp.
Proof.
  induction sp as [|p sp IH]; intros cur curx; cbn [group_xacts].
  - destruct cur; cbn [concat rev app]; [reflexivity|]. rewrite !app_nil_r. reflexivity.
  - destruct (p_xact p =? curx)%Z.
    + rewrite IH. cbn [rev]. rewrite <- app_assoc. reflexivity.
    + destruct cur as [|q cur].
      * rewrite IH. reflexivity.
      * cbn [concat]. rewrite IH. cbn [rev app]. rewrite <- app_assoc. reflexivity.
Qed.

Lemma sumq_concat {A} (g : A -> Q) : forall ls, sumq g (concat ls) == sumq (fun l => sumq g l) ls.
Proof.
  induction ls as [|l ls IH]; cbn [concat sumq]; [reflexivity|]. rewrite sumq_app, IH. reflexivity.
Qed.

Lemma map_res'_sum {A B} (F : A -> res B) (G : A -> Q) (H : B -> Q) : forall l rs,
  map_res' F l = Ok rs ->
  (forall x r, In x l -> F x = Ok r -> H r == G x) ->
  sumq H rs == sumq G l.
Proof.
  induction l as [|x l IH]; intros rs; cbn [map_res'].
  - intros [= <-] _. reflexivity.
  - destruct (F x) as [y|] eqn:E; cbn [bind]; [|discriminate].
    destruct (map_res' F l) as [ys|] eqn:E2; cbn [bind]; [|discriminate].
    intros [= <-] HG. cbn [sumq]. rewrite (IH ys eq_refl); [|intros x' r' Hx'; apply HG; right; exact Hx'].
    rewrite (HG x y (or_introl eq_refl) E). reflexivity.
Qed.

(* with --depth n, the balance of an account at depth <= n is the sum of the collapsed
   register rows (per-transaction sub-totals) of it and its sub-accounts *)
Lemma bal_eq_reg_depth_gen ord ord' o ps n a v gs c :
  (Z.of_nat (length a) <= n)%Z ->
  total_of ord o ps a = Ok v ->
  collapsed ord' n o ps = Ok gs ->
  den v c == sumq (fun g => mapq c (is_prefix a) g) gs.
Proof.
  intros Hl Hv Hg. rewrite (total_of_den _ _ _ _ _ c Hv). unfold collapsed in Hg.
  rewrite (map_res'_sum _ (fun g => sumq (fun p => if is_prefix a (p_acct p) then at_comm (amt o p) c else 0) g)
             (fun g => mapq c (is_prefix a) g) _ _ Hg).
  - rewrite <- sumq_concat, group_xacts_concat. cbn [rev app].
    unfold sel_sum, selected. rewrite sumq_filter. reflexivity.
  - intros g m _ Hm. rewrite (collapse_xact_den _ c (is_prefix a) _ _ _ _ _ Hm).
    unfold mapq at 1. cbn [sumq].
    rewrite (sumq_ext_in _ (fun p => if is_prefix a (p_acct p) then at_comm (amt o p) c else 0)); [ring|].
    intros p _. rewrite (is_prefix_truncate n a _ Hl). reflexivity.
Qed.

(* every collapsed row is at depth <= n *)
Lemma tot_add_keys ord k a : forall m m',
  tot_add ord k a m = Ok m' -> forall k', In k' (map fst m') -> k' = k \/ In k' (map fst m).
Proof.
  induction m as [|[k0 v] m IH]; intros m'; cbn [tot_add].
  - intros [= <-] k' [<-|[]]. left. reflexivity.
  - destruct (path_eqb k k0) eqn:E.
    + destruct (v_add ord v (VAmt a)); cbn [bind]; [|discriminate]. intros [= <-] k' H. right. exact H.
    + destruct (tot_add ord k a m) as [r|] eqn:Er; cbn [bind]; [|discriminate].
      intros [= <-] k' [<-|H]; [right; left; reflexivity|].
      destruct (IH r eq_refl k' H) as [->|H']; [left; reflexivity|right; right; exact H'].
Qed.

Lemma collapse_xact_depth ord n o : (0 <= n)%Z -> forall sp m m',
  collapse_xact ord n o sp m = Ok m' ->
  (forall k, In k (map fst m) -> (Z.of_nat (length k) <= n)%Z) ->
  forall k, In k (map fst m') -> (Z.of_nat (length k) <= n)%Z.
Proof.
  intros Hn. induction sp as [|p sp IH]; intros m m'; cbn [collapse_xact].
  - intros [= <-] H. exact H.
  - destruct (tot_add ord _ _ m) as [m1|] eqn:E; cbn [bind]; [|discriminate].
    intros H Hm. apply (IH _ _ H). intros k Hk.
    destruct (tot_add_keys _ _ _ _ _ E k Hk) as [->|Hk']; [|apply Hm; exact Hk'].
    unfold truncate_path. rewrite firstn_length. lia.
Qed.

(* ------------------------------------------------ the lazy walk of account_t::amount() *)

Definition lp_q (c : option comm) (x : lpost) : Q := if lp_fresh x then at_comm (lp_amt x) c else 0.

Lemma lp_consider_not_fresh x : lp_fresh (lp_consider x) = false.
Proof.
  unfold lp_consider. destruct (lp_fresh x) eqn:E; [reflexivity|exact E].
Qed.

(* one walk = the plain sum of the fresh postings, and it leaves no fresh posting behind *)
Lemma walk_spec ord : forall l acc,
  walk ord acc l =
  (do t <- vsum ord acc (map lp_amt (filter lp_fresh l)); Ok (t, map lp_consider l)).
Proof.
  induction l as [|x l IH]; intros acc; cbn [walk filter map vsum bind]; [reflexivity|].
  destruct (lp_fresh x) eqn:E; cbn [map vsum].
  - destruct (v_add ord acc (VAmt (lp_amt x))) as [t|]; cbn [bind]; [|reflexivity].
    rewrite IH. destruct (vsum ord t _); cbn [bind fst snd]; reflexivity.
  - rewrite IH. destruct (vsum ord acc _); cbn [bind fst snd]; [|reflexivity].
    assert (Hx : lp_consider x = x) by (unfold lp_consider; rewrite E; reflexivity).
    rewrite Hx. reflexivity.
Qed.

Lemma filter_fresh_none l : (forall x, In x l -> lp_fresh x = false) -> filter lp_fresh l = [].
Proof.
  induction l as [|x l IH]; intros H; cbn [filter]; [reflexivity|].
  rewrite (H x (or_introl eq_refl)). apply IH. intros y Hy. apply H. right. exact Hy.
Qed.

Lemma map_consider_id l : (forall x, In x l -> lp_fresh x = false) -> map lp_consider l = l.
Proof.
  induction l as [|x l IH]; intros H; cbn [map]; [reflexivity|].
  unfold lp_consider at 1. rewrite (H x (or_introl eq_refl)). f_equal. apply IH.
  intros y Hy. apply H. right. exact Hy.
Qed.

(* any call: provided no fresh posting lies before last_post (true when postings are appended
   and visited in file order), the call returns the old total plus every fresh posting, and
   afterwards nothing is fresh - so a repeated call adds nothing *)
Lemma amount_call_den ord sd posts sd' posts' c :
  (forall x, In x (firstn (match sd_last sd with Some i => i | None => O end) posts) ->
             lp_fresh x = false) ->
  amount_call ord sd posts = Ok (sd', posts') ->
  den (sd_total sd') c == den (sd_total sd) c + sumq (lp_q c) posts /\
  (forall x, In x posts' -> lp_fresh x = false) /\
  length posts' = length posts.
Proof.
  unfold amount_call. set (start := match sd_last sd with Some i => i | None => O end).
  intros Hpre. rewrite walk_spec.
  destruct (vsum ord (sd_total sd) (map lp_amt (filter lp_fresh (skipn start posts)))) as [t|] eqn:E;
    cbn [bind]; [|discriminate].
  intros [= <- <-]. cbn [sd_total fst snd]. repeat split.
  - rewrite (vsum_den ord c _ _ _ E). rewrite <- (firstn_skipn start posts) at 2.
    rewrite sumq_app. rewrite sumq_map.
    assert (E1 : sumq (lp_q c) (firstn start posts) == 0).
    { rewrite (sumq_ext_in _ (fun _ => 0)); [apply sumq_zero|].
      intros x Hx. unfold lp_q. rewrite (Hpre x Hx). reflexivity. }
    rewrite E1, sumq_filter. unfold lp_q, amtq. ring.
  - intros x Hx. apply in_app_or in Hx as [Hx|Hx]; [apply Hpre; exact Hx|].
    apply in_map_iff in Hx as (y & <- & _). apply lp_consider_not_fresh.
  - rewrite app_length, map_length, <- app_length, firstn_skipn. reflexivity.
Qed.

(* the first call on fresh flags is `own` *)
Lemma fresh_of_new (f : posting -> amount) (s : posting -> bool) : forall l,
  map lp_amt (filter lp_fresh (map (fun p => mkLpost (f p) (s p) false) l)) = map f (filter s l).
Proof.
  induction l as [|x l IH]; cbn [map filter]; [reflexivity|].
  unfold lp_fresh at 1. cbn [lp_visited lp_considered negb]. rewrite andb_true_r.
  destruct (s x); cbn [map]; rewrite IH; reflexivity.
Qed.

Lemma filter_comm {A} (P Q' : A -> bool) : forall l, filter P (filter Q' l) = filter Q' (filter P l).
Proof.
  induction l as [|x l IH]; cbn [filter]; [reflexivity|].
  destruct (P x) eqn:EP; destruct (Q' x) eqn:EQ; cbn [filter]; rewrite ?EP, ?EQ, IH; reflexivity.
Qed.

(* clear_xdata wipes every posting of the journal: with the regenerated test (ITEM_TEMP only)
   nothing but a temporary survives *)
Lemma survives_clear_journal p : p_temp p = false -> survives_clear p = false.
Proof. unfold survives_clear. intros ->. reflexivity. Qed.

Lemma acct_lposts_fresh o ps a :
  (forall p, In p ps -> p_temp p = false) ->
  map lp_amt (filter lp_fresh (acct_lposts o ps a)) = map (amt o) (own_posts (selected o ps) a).
Proof.
  intros Ht. unfold acct_lposts, own_posts, selected. rewrite fresh_of_new, filter_comm. f_equal.
  rewrite (filter_ext_in' (visited_at_report o) (sel o)); [reflexivity|].
  intros p Hp. unfold visited_at_report.
  rewrite (survives_clear_journal p (Ht p Hp)). apply orb_false_r.
Qed.

Lemma own_lazy_eq ord o ps a :
  (forall p, In p ps -> p_temp p = false) ->
  own_lazy_twice ord o ps a = own_of ord o ps a.
Proof.
  intros Htemp. unfold own_lazy_twice, own_of, own. unfold amount_call at 1. cbn [sd_last sd_total skipn firstn app].
  rewrite walk_spec, (acct_lposts_fresh _ _ _ Htemp).
  destruct (vsum ord VVoid (map (amt o) (own_posts (selected o ps) a))) as [t|] eqn:E; cbn [bind fst snd];
    [|reflexivity].
  unfold amount_call. cbn [sd_last sd_total]. rewrite walk_spec.
  set (l1 := map lp_consider (acct_lposts o ps a)).
  assert (Hnf : forall x, In x l1 -> lp_fresh x = false).
  { intros x Hx. apply in_map_iff in Hx as (y & <- & _). apply lp_consider_not_fresh. }
  set (st := match (match acct_lposts o ps a with [] => None | _ => Some (length (acct_lposts o ps a) - 1)%nat end)
             with Some i => i | None => O end).
  rewrite (filter_fresh_none (skipn st l1)).
  - cbn [map vsum bind fst snd sd_total]. reflexivity.
  - intros x Hx. apply Hnf. rewrite <- (firstn_skipn st l1). apply in_or_app. right. exact Hx.
Qed.

(* ------------------------------------------- the layout of a balance line reads back *)

Fixpoint read_tree_st (S : list path) (rows : list (nat * path)) : list path * list path :=
  match rows with
  | [] => ([], S)
  | (lvl, pn) :: rows' =>
      let (full, S') := read_line S lvl pn in
      let (r, S'') := read_tree_st S' rows' in (full :: r, S'')
  end.

Lemma read_tree_st_fst : forall rows S, fst (read_tree_st S rows) = read_tree S rows.
Proof.
  induction rows as [|[lvl pn] rows IH]; intros S; cbn [read_tree_st read_tree]; [reflexivity|].
  destruct (read_line S lvl pn) as [full S'] eqn:E. specialize (IH S').
  destruct (read_tree_st S' rows) as [r S'']. cbn [fst] in *. rewrite IH. reflexivity.
Qed.

Lemma read_tree_st_app : forall r1 r2 S,
  read_tree_st S (r1 ++ r2) =
  (let (a, S1) := read_tree_st S r1 in let (b, S2) := read_tree_st S1 r2 in (a ++ b, S2)).
Proof.
  induction r1 as [|[lvl pn] r1 IH]; intros r2 S; cbn [app read_tree_st].
  - destruct (read_tree_st S r2). reflexivity.
  - destruct (read_line S lvl pn) as [full S']. rewrite IH.
    destruct (read_tree_st S' r1) as [a S1]. destruct (read_tree_st S1 r2) as [b S2]. reflexivity.
Qed.

Definition prefix_ok (A S : list path) : Prop := firstn (length A) S = A.

Lemma prefix_ok_app A B S : prefix_ok (A ++ B) S -> prefix_ok A S.
Proof.
  unfold prefix_ok. intros H.
  assert (E : firstn (length A) S = firstn (length A) (firstn (length (A ++ B)) S)).
  { rewrite firstn_firstn. f_equal. rewrite app_length. lia. }
  rewrite E, H. rewrite firstn_app, Nat.sub_diag, firstn_all. cbn [firstn]. apply app_nil_r.
Qed.

Lemma prefix_ok_length A S : prefix_ok A S -> (length A <= length S)%nat.
Proof. unfold prefix_ok. intros H. rewrite <- H at 1. rewrite firstn_length. lia. Qed.

Lemma nth_of_firstn {A} (d : A) : forall l (S : list A), nth l S d = nth l (firstn (Datatypes.S l) S) d.
Proof.
  induction l as [|l IH]; intros [|x S]; try reflexivity.
  change (firstn (Datatypes.S (Datatypes.S l)) (x :: S)) with (x :: firstn (Datatypes.S l) S).
  cbn [nth]. apply IH.
Qed.

Lemma nth_is_last {A} (d : A) : forall (L : list A) l, length L = Datatypes.S l -> nth l L d = last L d.
Proof.
  induction L as [|x L IH]; intros l HL; [discriminate|].
  destruct L as [|y L].
  - destruct l; [reflexivity|discriminate].
  - destruct l as [|l]; [discriminate|].
    transitivity (nth l (y :: L) d); [reflexivity|].
    rewrite (IH l) by (cbn in *; lia). reflexivity.
Qed.

Section Layout.
  Variable cnt : path -> bool.
  Variable shown : path -> bool.
  Variable all : list path.

  (* the displayed-level ancestors of a among its prefixes of length 1..n, outermost first *)
  Fixpoint ancs (n : nat) (a : path) : list path :=
    match n with
    | O => []
    | S k => ancs k a ++ (if cnt (firstn n a) then [firstn n a] else [])
    end.

  Definition ancsx (a : path) : list path := ancs (length a - 1) a.

  Lemma up_spacer_ancs n a : up_spacer cnt n a = length (ancs n a).
  Proof.
    induction n as [|k IH]; [reflexivity|]. cbn [up_spacer ancs]. rewrite app_length, IH.
    destruct (cnt (firstn (S k) a)); cbn [length]; lia.
  Qed.

  Lemma up_cut_last n a : firstn (up_cut cnt n a) a = last (ancs n a) [].
  Proof.
    induction n as [|k IH]; [reflexivity|]. cbn [up_cut ancs].
    destruct (cnt (firstn (S k) a)).
    - rewrite last_last. reflexivity.
    - rewrite app_nil_r. exact IH.
  Qed.

  Lemma up_cut_zero n a : up_spacer cnt n a = O -> up_cut cnt n a = O.
  Proof.
    induction n as [|k IH]; [reflexivity|]. cbn [up_spacer up_cut].
    destruct (cnt (firstn (S k) a)); [discriminate|]. cbn. exact IH.
  Qed.

  Definition info (a : path) : nat * path := (spacer_of cnt a, partial_of cnt a).

  (* one line: from a stack that holds the displayed-level ancestors, the reader recovers the
     full name and leaves the ancestors in place *)
  Lemma read_line_ok a S :
    prefix_ok (ancsx a) S ->
    read_line S (spacer_of cnt a) (partial_of cnt a) = (a, firstn (length (ancsx a)) S ++ [a]).
  Proof.
    unfold prefix_ok, read_line, set_level, spacer_of, partial_of, ancsx. intros H.
    set (n := (length a - 1)%nat) in *. rewrite up_spacer_ancs.
    destruct (length (ancs n a)) as [|l] eqn:El.
    - rewrite up_cut_zero by (rewrite up_spacer_ancs; exact El). reflexivity.
    - assert (Hn : nth l S [] = last (ancs n a) []).
      { rewrite nth_of_firstn, H. apply nth_is_last. exact El. }
      rewrite Hn, <- up_cut_last, firstn_skipn. reflexivity.
  Qed.
End Layout.

Section LayoutTree.
  Variable cnt : path -> bool.
  Variable shown : path -> bool.
  Variable all : list path.
  Hypothesis shown_root : shown [] = false.

  (* the accounts of the tree below a (and a), in the order of the accounts walk *)
  Fixpoint pre (fuel : nat) (a : path) : list path :=
    a :: match fuel with
         | O => []
         | S f => flat_map (pre f) (children all a)
         end.

  Lemma ancs_same_prefix n a b :
    (n <= length a)%nat -> firstn (length a) b = a -> ancs cnt n b = ancs cnt n a.
  Proof.
    intros Hn Hp. induction n as [|k IH]; [reflexivity|]. cbn [ancs].
    rewrite IH by lia.
    assert (E : firstn (S k) b = firstn (S k) a).
    { transitivity (firstn (S k) (firstn (length a) b)); [|rewrite Hp; reflexivity].
      rewrite firstn_firstn. f_equal. lia. }
    rewrite E. reflexivity.
  Qed.

  Lemma ancsx_child x k :
    In k (children all x) ->
    ancsx cnt k = ancsx cnt x ++ (match x with [] => [] | _ => if cnt x then [x] else [] end).
  Proof.
    intros Hk. pose proof (children_length _ _ _ Hk) as Hl. pose proof (children_prefix _ _ _ Hk) as Hp.
    unfold ancsx. rewrite Hl. replace (S (length x) - 1)%nat with (length x) by lia.
    rewrite (ancs_same_prefix (length x) x k (le_n _) Hp).
    destruct x as [|s x]; [cbn; reflexivity|].
    cbn [length]. replace (S (length x) - 1)%nat with (length x) by lia.
    cbn [ancs]. change (S (length x)) with (length (s :: x)). rewrite firstn_all. reflexivity.
  Qed.

  Definition rows_of_list (l : list path) : list (nat * path) := map (info cnt) (filter shown l).

  Lemma read_subtree : forall fuel x S,
    prefix_ok (ancsx cnt x) S ->
    (forall y, In y (pre fuel x) -> y <> [] -> cnt y = true -> shown y = true) ->
    exists S', read_tree_st S (rows_of_list (pre fuel x)) = (filter shown (pre fuel x), S') /\
               prefix_ok (ancsx cnt x) S'.
  Proof.
    induction fuel as [|f IH]; intros x S HS Hc.
    - cbn [pre]. unfold rows_of_list. cbn [filter]. destruct (shown x) eqn:Es; cbn [map read_tree_st].
      + unfold info. rewrite (read_line_ok cnt x S HS). eexists. split; [reflexivity|].
        unfold prefix_ok in *. rewrite firstn_app, firstn_firstn, Nat.min_id.
        rewrite firstn_length_le by (apply prefix_ok_length; exact HS).
        rewrite Nat.sub_diag. cbn [firstn]. rewrite app_nil_r. exact HS.
      + eexists. split; [reflexivity|exact HS].
    - cbn [pre]. unfold rows_of_list. cbn [filter].
      (* the stack after the line of x itself, and what the children need *)
      set (A' := ancsx cnt x ++ match x with [] => [] | _ => if cnt x then [x] else [] end).
      assert (Hkids : forall ks S1, prefix_ok A' S1 ->
                (forall k, In k ks -> In k (children all x)) ->
                exists S', read_tree_st S1 (rows_of_list (flat_map (pre f) ks)) =
                           (filter shown (flat_map (pre f) ks), S') /\ prefix_ok A' S').
      { induction ks as [|k ks IHk]; intros S1 H1 Hin.
        - exists S1. split; [reflexivity|exact H1].
        - cbn [flat_map]. unfold rows_of_list. rewrite filter_app, map_app, read_tree_st_app.
          assert (Hk : In k (children all x)) by (apply Hin; left; reflexivity).
          destruct (IH k S1) as (S2 & E2 & H2).
          + rewrite (ancsx_child x k Hk). exact H1.
          + intros y Hy. apply Hc. right. apply in_flat_map. exists k. split; assumption.
          + fold (rows_of_list (pre f k)). rewrite E2.
            rewrite (ancsx_child x k Hk) in H2. fold A' in H2.
            destruct (IHk S2 H2) as (S3 & E3 & H3); [intros k' Hk'; apply Hin; right; exact Hk'|].
            fold (rows_of_list (flat_map (pre f) ks)). rewrite E3. exists S3. split; [reflexivity|exact H3]. }
      destruct (shown x) eqn:Es.
      + cbn [map read_tree_st]. unfold info at 1. rewrite (read_line_ok cnt x S HS).
        set (S1 := firstn (length (ancsx cnt x)) S ++ [x]).
        assert (H1 : prefix_ok A' S1).
        { unfold A', S1, prefix_ok. unfold prefix_ok in HS. rewrite HS.
          destruct x as [|s x]; [rewrite shown_root in Es; discriminate|].
          destruct (cnt (s :: x)).
          - rewrite firstn_all. reflexivity.
          - rewrite app_nil_r, firstn_app, Nat.sub_diag, firstn_all. cbn [firstn]. apply app_nil_r. }
        destruct (Hkids (children all x) S1 H1 (fun k H => H)) as (S' & E & H').
        fold (rows_of_list (flat_map (pre f) (children all x))). rewrite E.
        exists S'. split; [reflexivity|]. apply (prefix_ok_app _ _ _ H').
      + assert (H1 : prefix_ok A' S).
        { unfold A'. destruct x as [|s x]; [rewrite app_nil_r; exact HS|].
          destruct (cnt (s :: x)) eqn:Ec; [|rewrite app_nil_r; exact HS].
          rewrite (Hc (s :: x) (or_introl eq_refl)) in Es; [discriminate|discriminate|exact Ec]. }
        destruct (Hkids (children all x) S H1 (fun k H => H)) as (S' & E & H').
        fold (rows_of_list (flat_map (pre f) (children all x))). rewrite E.
        exists S'. split; [reflexivity|]. apply (prefix_ok_app _ _ _ H').
  Qed.

  (* reading the whole report back gives the full name of every displayed line, in order *)
  Lemma read_tree_pre fuel :
    (forall y, In y (pre fuel []) -> y <> [] -> cnt y = true -> shown y = true) ->
    read_tree [] (rows_of_list (pre fuel [])) = filter shown (pre fuel []).
  Proof.
    intros Hc. destruct (read_subtree fuel [] []) as (S' & E & _); [reflexivity|exact Hc|].
    rewrite <- read_tree_st_fst, E. reflexivity.
  Qed.
End LayoutTree.

(* ------------------------------------------- bal_layout reads back to the account names *)

Lemma kids_marks_pre (F : path -> res marks) (G : path -> list path) : forall ks acc m,
  kids_marks F ks acc = Ok m ->
  (forall k m', In k ks -> F k = Ok m' -> map fst (m_pre m') = G k) ->
  map fst (m_pre m) = map fst (m_pre acc) ++ flat_map G ks.
Proof.
  induction ks as [|k ks IH]; intros acc m; cbn [kids_marks flat_map].
  - intros [= <-] _. rewrite app_nil_r. reflexivity.
  - destruct (F k) as [mk|] eqn:E; cbn [bind]; [|discriminate].
    intros H HG. rewrite (IH _ _ H) by (intros k' m' Hk'; apply HG; right; exact Hk').
    cbn [m_pre]. rewrite map_app, (HG k mk (or_introl eq_refl) E), app_assoc. reflexivity.
Qed.

Lemma mark_pre ord cp o ps : forall fuel a m,
  mark fuel ord cp o ps a = Ok m -> map fst (m_pre m) = pre (map p_acct ps) fuel a.
Proof.
  induction fuel as [|f IH]; intros a m; cbn [mark pre].
  - cbn [bind]. intros H. destruct (mark_node_pre _ _ _ _ _ _ _ H) as [fl ->]. reflexivity.
  - destruct (kids_marks (mark f ord cp o ps) (children (map p_acct ps) a) (mkMarks 0 0 [])) as [km|] eqn:Ek;
      cbn [bind]; [|discriminate].
    pose proof (kids_marks_pre _ (pre (map p_acct ps) f) _ _ _ Ek
                  (fun k m' _ H => IH k m' H)) as Hk. cbn [m_pre map app] in Hk.
    intros H. destruct (mark_node_pre _ _ _ _ _ _ _ H) as [fl ->]. cbn [map fst]. rewrite Hk. reflexivity.
Qed.

Lemma pre_prefix all : forall fuel a y, In y (pre all fuel a) -> firstn (length a) y = a.
Proof.
  induction fuel as [|f IH]; intros a y; cbn [pre].
  - intros [<-|[]]. apply firstn_all.
  - intros [<-|H]; [apply firstn_all|]. apply in_flat_map in H as (k & Hk & Hy).
    pose proof (IH k y Hy) as Hp. pose proof (children_length _ _ _ Hk) as Hl.
    pose proof (children_prefix _ _ _ Hk) as Hpk.
    transitivity (firstn (length a) (firstn (length k) y)); [rewrite firstn_firstn; f_equal; lia|].
    rewrite Hp. exact Hpk.
Qed.

Lemma nodup_app_disjoint {A} (l1 l2 : list A) :
  NoDup l1 -> NoDup l2 -> (forall x, In x l1 -> In x l2 -> False) -> NoDup (l1 ++ l2).
Proof.
  induction l1 as [|x l1 IH]; intros H1 H2 Hd; cbn [app]; [exact H2|].
  inversion H1 as [|? ? Hx H1']; subst. constructor.
  - intros H. apply in_app_or in H as [H|H]; [contradiction|]. apply (Hd x); [left; reflexivity|exact H].
  - apply IH; [exact H1'|exact H2|]. intros y Hy1 Hy2. apply (Hd y); [right; exact Hy1|exact Hy2].
Qed.

Lemma pre_nodup all : forall fuel a, NoDup (pre all fuel a).
Proof.
  induction fuel as [|f IH]; intros a; cbn [pre]; [constructor; [intros []|constructor]|].
  constructor.
  - intros H. apply in_flat_map in H as (k & Hk & Hy).
    pose proof (pre_prefix all f k a Hy) as Hp. pose proof (children_length _ _ _ Hk) as Hl.
    apply (f_equal (@length _)) in Hp. rewrite firstn_length in Hp. lia.
  - pose proof (children_nodup all a) as Hnd.
    assert (Hin : forall k, In k (children all a) -> In k (children all a)) by auto.
    revert Hnd Hin. generalize (children all a) at 1 2 4. intros ks.
    induction ks as [|k ks IHk]; intros Hnd Hin; cbn [flat_map]; [constructor|].
    inversion Hnd as [|? ? Hk Hnd']; subst.
    apply nodup_app_disjoint.
    + apply IH.
    + apply IHk; [exact Hnd'|intros k' Hk'; apply Hin; right; exact Hk'].
    + intros y Hy1 Hy2. apply in_flat_map in Hy2 as (k2 & Hk2 & Hy2).
      pose proof (pre_prefix all f k y Hy1) as P1. pose proof (pre_prefix all f k2 y Hy2) as P2.
      pose proof (children_length _ _ _ (Hin k (or_introl eq_refl))) as L1.
      pose proof (children_length _ _ _ (Hin k2 (or_intror Hk2))) as L2.
      rewrite L1 in P1. rewrite L2 in P2. apply Hk. congruence.
Qed.

Lemma flag_of_unique : forall (m : list (path * bool)) a f,
  NoDup (map fst m) -> In (a, f) m -> flag_of m a = f.
Proof.
  unfold flag_of. induction m as [|[b g] m IH]; intros a f Hnd Hin; [destruct Hin|].
  cbn [map fst] in Hnd. inversion Hnd as [|? ? Hb Hnd']; subst. cbn [existsb fst snd].
  destruct Hin as [E|Hin].
  - injection E as -> ->. rewrite (proj2 (path_eqb_eq a a) eq_refl), andb_true_r.
    destruct f; [reflexivity|]. cbn [orb].
    destruct (existsb (fun ab => snd ab && path_eqb (fst ab) a) m) eqn:Ex; [|reflexivity].
    apply existsb_exists in Ex as ([c h] & Hc & Hh). cbn [fst snd] in Hh.
    apply andb_true_iff in Hh as [_ Hh]. apply path_eqb_eq in Hh. subst c.
    exfalso. apply Hb. apply in_map_iff. exists (a, h). split; [reflexivity|exact Hc].
  - assert (Hne : path_eqb b a = false).
    { destruct (path_eqb b a) eqn:E; [|reflexivity]. apply path_eqb_eq in E. subst b.
      exfalso. apply Hb. apply in_map_iff. exists (a, f). split; [reflexivity|exact Hin]. }
    rewrite Hne, andb_false_r. cbn [orb]. apply IH; assumption.
Qed.

Lemma map_filter_fst (Q : path * bool -> bool) (Q' : path -> bool) : forall m : list (path * bool),
  (forall ab, In ab m -> Q ab = Q' (fst ab)) -> map fst (filter Q m) = filter Q' (map fst m).
Proof.
  induction m as [|ab m IH]; intros H; cbn [filter map]; [reflexivity|].
  rewrite <- (H ab (or_introl eq_refl)). destruct (Q ab); cbn [map]; rewrite IH; try reflexivity;
    intros x Hx; apply H; right; exact Hx.
Qed.

Lemma mark_root_pre ord cp o ps fuel m :
  mark fuel ord cp o ps [] = Ok m -> exists km, m_pre m = ([], false) :: km.
Proof.
  destruct fuel as [|f]; cbn [mark].
  - cbn [bind mark_node]. intros [= <-]. eexists; reflexivity.
  - destruct (kids_marks _ _ _) as [km|]; cbn [bind mark_node]; [|discriminate]. intros [= <-]. eexists; reflexivity.
Qed.

(* a tree-form balance report whose displayed levels are all printed (layout_ok) reads back,
   line by line, to the full account names *)
Lemma layout_reads_back_gen ord cp o ps rows :
  o_flat o = false ->
  layout_ok ord cp o ps = Ok true ->
  bal_layout ord cp o ps = Ok rows ->
  read_tree [] (map (fun l => (l_spacer l, l_partial l)) rows) = map l_acct rows.
Proof.
  unfold layout_ok, bal_layout. intros Hflat.
  destruct (mark (max_depth ps) ord cp o ps []) as [m|] eqn:Em; cbn [bind]; [|discriminate].
  intros [= Hok] [= <-]. rewrite Hflat.
  set (all := map p_acct ps) in *. set (cnt := counted (m_pre m) all) in *.
  set (shown := fun a => flag_of (m_pre m) a && disp_pred o a).
  pose proof (mark_pre _ _ _ _ _ _ _ Em) as Hpre. fold all in Hpre.
  assert (Hnd : NoDup (map fst (m_pre m))) by (rewrite Hpre; apply pre_nodup).
  assert (HR : map fst (filter (fun ab => snd ab && disp_pred o (fst ab)) (m_pre m)) =
               filter shown (pre all (max_depth ps) [])).
  { rewrite <- Hpre. apply map_filter_fst. intros [a f] Hin. unfold shown. cbn [fst snd].
    rewrite (flag_of_unique _ _ _ Hnd Hin). reflexivity. }
  cbv iota. rewrite !map_map. cbn [l_spacer l_partial l_acct].
  transitivity (read_tree [] (map (info cnt) (map fst (filter (fun ab => snd ab && disp_pred o (fst ab)) (m_pre m)))));
    [rewrite map_map; reflexivity|].
  change (map (fun x : path * bool => fst x)) with (map (@fst path bool)).
  rewrite HR. apply (read_tree_pre cnt shown all).
  - unfold shown. destruct (mark_root_pre _ _ _ _ _ _ Em) as [km Hm].
    rewrite (flag_of_unique (m_pre m) [] false Hnd); [reflexivity|]. rewrite Hm. left. reflexivity.
  - intros y Hy Hne Hc. rewrite <- Hpre in Hy. apply in_map_iff in Hy as ([a f] & <- & Hin).
    rewrite forallb_forall in Hok. specialize (Hok _ Hin). cbn [fst] in *.
    destruct a as [|s a]; [contradiction Hne; reflexivity|].
    fold cnt in Hok. rewrite Hc in Hok. exact Hok.
Qed.

Lemma read_tree_flat : forall (l : list path) S, read_tree S (map (fun a => (O, a)) l) = l.
Proof.
  induction l as [|a l IH]; intros S; cbn [map read_tree read_line]; [reflexivity|].
  rewrite IH. reflexivity.
Qed.

Lemma layout_flat_reads_back_gen ord cp o ps rows :
  o_flat o = true ->
  bal_layout ord cp o ps = Ok rows ->
  read_tree [] (map (fun l => (l_spacer l, l_partial l)) rows) = map l_acct rows.
Proof.
  unfold bal_layout. intros Hflat.
  destruct (mark (max_depth ps) ord cp o ps []) as [m|]; cbn [bind]; [|discriminate].
  intros [= <-]. rewrite Hflat. cbv iota. rewrite !map_map. cbn [l_spacer l_partial l_acct].
  set (F := filter _ (m_pre m)).
  transitivity (read_tree [] (map (fun a => (O, a)) (map fst F))); [rewrite map_map; reflexivity|].
  rewrite read_tree_flat. reflexivity.
Qed.

(* the lines of bal_layout are the rows of bal_rows *)
Lemma bal_layout_accounts ord cp o ps rows lrows :
  bal_rows ord cp o ps = Ok rows -> bal_layout ord cp o ps = Ok lrows ->
  map l_acct lrows = map b_acct rows.
Proof.
  unfold bal_rows, bal_layout.
  destruct (mark (max_depth ps) ord cp o ps []) as [m|]; cbn [bind]; [|discriminate].
  intros H [= <-]. rewrite map_map.
  set (L := map fst (filter (fun ab => snd ab && disp_pred o (fst ab)) (m_pre m))) in *.
  clearbody L. revert rows H. induction L as [|a L IH]; intros rows; cbn [map_res' map].
  - intros [= <-]. reflexivity.
  - destruct (brow_of ord o ps a) as [b|] eqn:Eb; cbn [bind]; [|discriminate].
    destruct (map_res' (brow_of ord o ps) L) as [bs|] eqn:El; cbn [bind]; [|discriminate].
    intros [= <-]. cbn [map]. rewrite (brow_of_acct _ _ _ _ _ Eb), (IH bs eq_refl).
    destruct (o_flat o); reflexivity.
Qed.

(* ---------------- mark_accounts (tree form): every displayed level is a printed line *)

Lemma is_prefix_trans a b c : is_prefix a b = true -> is_prefix b c = true -> is_prefix a c = true.
Proof.
  intros H1 H2. pose proof (is_prefix_length _ _ H1) as Hl.
  apply is_prefix_spec in H1. apply (prefix_trans_firstn a b c H1 Hl H2).
Qed.

Lemma same_length_prefix k k' z :
  length k = length k' -> is_prefix k z = true -> is_prefix k' z = true -> k = k'.
Proof.
  intros Hl H1 H2. apply is_prefix_spec in H1. apply is_prefix_spec in H2. rewrite Hl in H1. congruence.
Qed.

Definition underf (k : path) (ab : path * bool) : bool := is_prefix k (fst ab).

Lemma existsb_restrict (Q : path * bool -> bool) k : forall L,
  (forall ab, Q ab = true -> underf k ab = true) ->
  existsb Q L = existsb Q (filter (underf k) L).
Proof.
  intros L HQ. induction L as [|ab L IH]; cbn [existsb filter]; [reflexivity|].
  destruct (underf k ab) eqn:E; cbn [existsb]; rewrite IH; [reflexivity|].
  destruct (Q ab) eqn:EQ; [|reflexivity]. rewrite (HQ ab EQ) in E. discriminate.
Qed.

Lemma flag_of_restrict L k y :
  is_prefix k y = true -> flag_of L y = flag_of (filter (underf k) L) y.
Proof.
  intros Hy. unfold flag_of. apply existsb_restrict. intros ab H.
  apply andb_true_iff in H as [_ H]. apply path_eqb_eq in H. unfold underf. rewrite H. exact Hy.
Qed.

Lemma cwf_restrict L all k y :
  is_prefix k y = true -> cwf L all y = cwf (filter (underf k) L) all y.
Proof.
  intros Hy. unfold cwf. f_equal. apply filter_ext_in'. intros c Hc.
  apply existsb_restrict. intros ab H. apply andb_true_iff in H as [_ H]. unfold underf.
  apply (is_prefix_trans k y); [exact Hy|]. apply (is_prefix_trans y c); [|exact H].
  apply is_prefix_spec. apply (children_prefix _ _ _ Hc).
Qed.

Lemma counted_restrict L all k y :
  is_prefix k y = true -> counted L all y = counted (filter (underf k) L) all y.
Proof.
  intros Hy. unfold counted. rewrite (cwf_restrict L all k y Hy), (flag_of_restrict L k y Hy). reflexivity.
Qed.

Lemma filter_all_true {A} (P : A -> bool) l : (forall x, In x l -> P x = true) -> filter P l = l.
Proof.
  induction l as [|x l IH]; intros H; cbn [filter]; [reflexivity|].
  rewrite (H x (or_introl eq_refl)), IH; [reflexivity|]. intros y Hy. apply H. right. exact Hy.
Qed.

Lemma filter_all_false {A} (P : A -> bool) l : (forall x, In x l -> P x = false) -> filter P l = [].
Proof.
  induction l as [|x l IH]; intros H; cbn [filter]; [reflexivity|].
  rewrite (H x (or_introl eq_refl)), IH; [reflexivity|]. intros y Hy. apply H. right. exact Hy.
Qed.

(* what the fold over the children returns, child by child *)
Lemma kids_marks_inv (F : path -> res marks) : forall ks acc km,
  kids_marks F ks acc = Ok km ->
  exists ms, Forall2 (fun k mk => F k = Ok mk) ks ms /\
             m_visited km = (m_visited acc + fold_right (fun mk s => m_visited mk + s) 0 ms)%Z /\
             m_todisp km = (m_todisp acc + fold_right (fun mk s => m_todisp mk + s) 0 ms)%Z /\
             m_pre km = m_pre acc ++ concat (map m_pre ms).
Proof.
  induction ks as [|k ks IH]; intros acc km; cbn [kids_marks].
  - intros [= <-]. exists []. cbn. rewrite app_nil_r. repeat split; try lia. constructor.
  - destruct (F k) as [mk|] eqn:E; cbn [bind]; [|discriminate]. intros H.
    destruct (IH _ _ H) as (ms & HF & Hv & Hd & Hp). exists (mk :: ms).
    cbn [m_visited m_todisp m_pre fold_right map concat] in *. repeat split.
    + constructor; assumption.
    + lia.
    + lia.
    + rewrite Hp, app_assoc. reflexivity.
Qed.

Definition anyf (L : list (path * bool)) : bool := existsb snd L.

Record minv (o : opts) (all : list path) (a : path) (m : marks) : Prop := mkMinv {
  mi_under : forall ab, In ab (m_pre m) -> is_prefix a (fst ab) = true;
  mi_todisp : m_todisp m = (if anyf (m_pre m) then 1 else 0)%Z;
  mi_vis : anyf (m_pre m) = true -> m_visited m = 1%Z;
  mi_vnn : (0 <= m_visited m)%Z;
  mi_pred : forall y, In (y, true) (m_pre m) -> disp_pred o y = true;
  mi_cnt : forall y f, In (y, f) (m_pre m) -> counted (m_pre m) all y = true -> f = true
}.

Lemma disp_pred_mono o a z : is_prefix a z = true -> disp_pred o z = true -> disp_pred o a = true.
Proof.
  unfold disp_pred. intros Hp. apply is_prefix_length in Hp. destruct (o_depth o); [|auto].
  intros H. apply Z.leb_le in H. apply Z.leb_le. lia.
Qed.

Section Kids.
  Variable o : opts.
  Variable all : list path.
  Variable a : path.
  Variable n : nat.

  Definition kid_ok (k : path) (mk : marks) : Prop := length k = n /\ minv o all k mk.

  Lemma filter_under_other : forall ks ms k0,
    Forall2 kid_ok ks ms -> length k0 = n -> ~ In k0 ks ->
    filter (underf k0) (concat (map m_pre ms)) = [].
  Proof.
    induction 1 as [|k mk ks ms [Hl Hk] HF IH]; intros Hl0 Hni; cbn [map concat]; [reflexivity|].
    rewrite filter_app, IH; [|exact Hl0|intros H; apply Hni; right; exact H].
    rewrite app_nil_r. apply filter_all_false. intros ab Hab.
    destruct (underf k0 ab) eqn:E; [|reflexivity]. exfalso. apply Hni. left.
    apply (same_length_prefix k k0 (fst ab)); [congruence|apply (mi_under _ _ _ _ Hk); exact Hab|exact E].
  Qed.

  Lemma filter_under_kid : forall ks ms,
    Forall2 kid_ok ks ms -> NoDup ks ->
    forall k0 mk0, In (k0, mk0) (combine ks ms) ->
    filter (underf k0) (concat (map m_pre ms)) = m_pre mk0.
  Proof.
    induction 1 as [|k mk ks ms [Hl Hk] HF IH]; intros Hnd k0 mk0 Hin; [destruct Hin|].
    inversion Hnd as [|? ? Hni Hnd']; subst. cbn [map concat]. rewrite filter_app.
    destruct Hin as [E|Hin].
    - injection E as <- <-. rewrite (filter_under_other ks ms k HF Hl Hni), app_nil_r.
      apply filter_all_true. intros ab Hab. apply (mi_under _ _ _ _ Hk). exact Hab.
    - rewrite (IH Hnd' k0 mk0 Hin).
      assert (Hk0 : In k0 ks) by (apply in_combine_l in Hin; exact Hin).
      assert (Hl0 : length k0 = n).
      { clear -HF Hk0. induction HF as [|? ? ? ? [H1 _] _ IH']; [destruct Hk0|].
        destruct Hk0 as [<-|H]; [exact H1|apply IH'; exact H]. }
      rewrite (filter_all_false (underf k0) (m_pre mk)); [reflexivity|].
      intros ab Hab. destruct (underf k0 ab) eqn:E; [|reflexivity]. exfalso. apply Hni.
      rewrite (same_length_prefix k k0 (fst ab)); [exact Hk0|congruence|apply (mi_under _ _ _ _ Hk); exact Hab|exact E].
  Qed.
End Kids.

Lemma filter_length_pairs {A B} (G : A -> bool) (H : B -> bool) : forall (ks : list A) (ms : list B),
  length ks = length ms ->
  (forall k mk, In (k, mk) (combine ks ms) -> G k = H mk) ->
  length (filter G ks) = length (filter H ms).
Proof.
  induction ks as [|k ks IH]; intros [|mk ms] Hl Hp; try discriminate; [reflexivity|].
  cbn [filter]. rewrite (Hp k mk (or_introl eq_refl)).
  assert (E : length (filter G ks) = length (filter H ms)).
  { apply IH; [cbn in Hl; lia|]. intros k' mk' Hin. apply Hp. right. exact Hin. }
  destruct (H mk); cbn [length]; rewrite E; reflexivity.
Qed.

Lemma anyf_app L1 L2 : anyf (L1 ++ L2) = anyf L1 || anyf L2.
Proof. apply existsb_app. Qed.

Lemma kids_sums o all n : forall ks ms,
  Forall2 (kid_ok o all n) ks ms ->
  let d := fold_right (fun mk s => (m_todisp mk + s)%Z) 0%Z ms in
  let v := fold_right (fun mk s => (m_visited mk + s)%Z) 0%Z ms in
  d = Z.of_nat (length (filter (fun mk => anyf (m_pre mk)) ms)) /\
  (0 <= v)%Z /\ ((0 < d)%Z -> (0 < v)%Z) /\
  anyf (concat (map m_pre ms)) = (0 <? d)%Z.
Proof.
  induction 1 as [|k mk ks ms [Hl Hk] HF IH]; cbn [fold_right filter map concat].
  - cbn. repeat split; lia.
  - destruct IH as (Hd & Hv & Hdv & Ha). rewrite anyf_app, Ha.
    pose proof (mi_todisp _ _ _ _ Hk) as Ht. pose proof (mi_vis _ _ _ _ Hk) as Hvis.
    pose proof (mi_vnn _ _ _ _ Hk) as Hnn.
    destruct (anyf (m_pre mk)) eqn:Ea; cbn [length orb]; rewrite Ht.
    + specialize (Hvis eq_refl). split; [lia|split; [lia|split; [lia|]]].
      symmetry. apply Z.ltb_lt. lia.
    + split; [lia|split; [lia|split; [lia|]]]. reflexivity.
Qed.

Lemma Forall2_length' {A B} (R : A -> B -> Prop) l m : Forall2 R l m -> length l = length m.
Proof. induction 1; cbn; congruence. Qed.

(* children_with_flags of a = the number of children whose sub-list has a mark *)
Lemma cwf_kids o all a f0 ms :
  Forall2 (kid_ok o all (S (length a))) (children all a) ms ->
  cwf ((a, f0) :: concat (map m_pre ms)) all a = length (filter (fun mk => anyf (m_pre mk)) ms).
Proof.
  intros HF. unfold cwf. apply filter_length_pairs; [apply (Forall2_length' _ _ _ HF)|].
  intros k mk Hin.
  rewrite (existsb_restrict _ k).
  - cbn [filter]. unfold underf at 1. cbn [fst].
    assert (Hk : In k (children all a)) by (apply in_combine_l in Hin; exact Hin).
    assert (E : is_prefix k a = false).
    { destruct (is_prefix k a) eqn:E; [|reflexivity]. apply is_prefix_length in E.
      rewrite (children_length _ _ _ Hk) in E. lia. }
    rewrite E. rewrite (filter_under_kid o all (S (length a)) _ _ HF (children_nodup all a) k mk Hin).
    unfold anyf. clear -HF Hin.
    assert (Hu : forall ab, In ab (m_pre mk) -> is_prefix k (fst ab) = true).
    { revert Hin. induction HF as [|k1 m1 ks ms [_ H1] _ IH]; intros Hin; [destruct Hin|].
      destruct Hin as [E|Hin]; [injection E as <- <-; apply (mi_under _ _ _ _ H1)|apply IH; exact Hin]. }
    induction (m_pre mk) as [|ab L IH]; cbn [existsb]; [reflexivity|].
    rewrite (Hu ab (or_introl eq_refl)), andb_true_r, IH; [reflexivity|].
    intros x Hx. apply Hu. right. exact Hx.
  - intros ab H. apply andb_true_iff in H as [_ H]. exact H.
Qed.

Lemma in_concat_pairs {R : path -> marks -> Prop} : forall ks ms ab,
  Forall2 R ks ms -> In ab (concat (map m_pre ms)) ->
  exists k mk, In (k, mk) (combine ks ms) /\ R k mk /\ In ab (m_pre mk).
Proof.
  induction 1 as [|k mk ks ms HR HF IH]; cbn [map concat]; [intros []|].
  intros Hin. apply in_app_or in Hin as [Hin|Hin].
  - exists k, mk. split; [left; reflexivity|split; assumption].
  - destruct (IH Hin) as (k' & mk' & H1 & H2 & H3). exists k', mk'. split; [right; exact H1|split; assumption].
Qed.

Lemma Forall2_impl_in {A B} (R R' : A -> B -> Prop) : forall l m,
  Forall2 R l m -> (forall x y, In x l -> R x y -> R' x y) -> Forall2 R' l m.
Proof.
  induction 1 as [|x y l m HR HF IH]; intros Himp; constructor.
  - apply Himp; [left; reflexivity|exact HR].
  - apply IH. intros x' y' Hx'. apply Himp. right. exact Hx'.
Qed.

Section Node.
  Variable ord : bool.
  Variable cp : comm -> Z.
  Variable o : opts.
  Variable ps : list posting.
  Let all := map p_acct ps.
  Hypothesis Hflat : o_flat o = false.

  Variable a : path.
  Variable ms : list marks.
  Hypothesis HF : Forall2 (kid_ok o all (S (length a))) (children all a) ms.
  Let Lk := concat (map m_pre ms).

  Lemma kid_entry ab :
    In ab Lk -> exists k mk, In (k, mk) (combine (children all a) ms) /\ minv o all k mk /\
                            In ab (m_pre mk) /\ In k (children all a).
  Proof.
    intros Hin. destruct (in_concat_pairs _ _ _ HF Hin) as (k & mk & H1 & [_ H2] & H3).
    pose proof (in_combine_l _ _ _ _ H1) as H4.
    exists k, mk. split; [exact H1|split; [exact H2|split; [exact H3|exact H4]]].
  Qed.

  Lemma kid_under ab : In ab Lk -> is_prefix a (fst ab) = true /\ (length a < length (fst ab))%nat.
  Proof.
    intros Hin. destruct (kid_entry ab Hin) as (k & mk & _ & Hk & Hab & Hkc).
    pose proof (mi_under _ _ _ _ Hk ab Hab) as Hu. split.
    - apply (is_prefix_trans a k); [|exact Hu]. apply is_prefix_spec. apply (children_prefix _ _ _ Hkc).
    - apply is_prefix_length in Hu. rewrite (children_length _ _ _ Hkc) in Hu. lia.
  Qed.

  Lemma kid_pred y : In (y, true) Lk -> disp_pred o y = true.
  Proof.
    intros Hin. destruct (kid_entry _ Hin) as (k & mk & _ & Hk & Hab & _). apply (mi_pred _ _ _ _ Hk y Hab).
  Qed.

  Lemma kid_cnt fa y f : In (y, f) Lk -> counted ((a, fa) :: Lk) all y = true -> f = true.
  Proof.
    intros Hin Hc. destruct (kid_entry _ Hin) as (k & mk & Hpair & Hk & Hab & Hkc).
    pose proof (mi_under _ _ _ _ Hk _ Hab) as Hu. cbn [fst] in Hu.
    rewrite (counted_restrict _ all k y Hu) in Hc. cbn [filter] in Hc.
    assert (E : underf k (a, fa) = false).
    { unfold underf. cbn [fst]. destruct (is_prefix k a) eqn:E; [|reflexivity].
      apply is_prefix_length in E. rewrite (children_length _ _ _ Hkc) in E. lia. }
    rewrite E in Hc.
    fold Lk in Hc. unfold Lk in Hc.
    rewrite (filter_under_kid o all (S (length a)) _ _ HF (children_nodup all a) k mk Hpair) in Hc.
    apply (mi_cnt _ _ _ _ Hk y f Hab Hc).
  Qed.

  Lemma head_flag fa : flag_of ((a, fa) :: Lk) a = fa.
  Proof.
    unfold flag_of. cbn [existsb fst snd]. rewrite (proj2 (path_eqb_eq a a) eq_refl), andb_true_r.
    assert (E : existsb (fun ab => snd ab && path_eqb (fst ab) a) Lk = false).
    { destruct (existsb _ Lk) eqn:E; [|reflexivity]. apply existsb_exists in E as (ab & Hin & H).
      apply andb_true_iff in H as [_ H]. apply path_eqb_eq in H.
      destruct (kid_under ab Hin) as [_ Hl]. rewrite H in Hl. lia. }
    rewrite E. apply orb_false_r.
  Qed.

  Lemma node_inv km m :
    a <> [] ->
    m_visited km = fold_right (fun mk s => (m_visited mk + s)%Z) 0%Z ms ->
    m_todisp km = fold_right (fun mk s => (m_todisp mk + s)%Z) 0%Z ms ->
    m_pre km = Lk ->
    mark_node ord cp o ps a km = Ok m -> minv o all a m.
  Proof.
    intros Hne Hv Hd Hp.
    destruct (kids_sums o all _ _ _ HF) as (Sd & Sv & Sdv & Sa). rewrite <- Hd in Sd, Sdv, Sa. rewrite <- Hv in Sv, Sdv.
    fold Lk in Sa.
    pose proof (cwf_kids o all a) as Hcwf.
    unfold mark_node. destruct a as [|s a'] eqn:Ea; [contradiction Hne; reflexivity|]. rewrite <- Ea in *.
    rewrite Hflat. cbn [negb andb orb].
    destruct (visited o ps a || (0 <? m_visited km)%Z) eqn:Ec.
    - destruct (total_of ord o ps a) as [t|]; cbn [bind]; [|discriminate].
      destruct (display_value ord o (simplified_or_zero t)) as [dt|]; cbn [bind]; [|discriminate].
      set (shown := _ || _ || _). intros [= <-]. rewrite Hp.
      assert (Hshown_pred : shown = true -> disp_pred o a = true).
      { unfold shown. intros H. apply orb_true_iff in H as [H|H].
        - assert (Hpos : (0 < m_todisp km)%Z).
          { apply orb_true_iff in H as [H|H]; [apply Z.ltb_lt in H; lia|].
            apply andb_true_iff in H as [H _]. apply Z.eqb_eq in H. lia. }
          assert (Hany : anyf Lk = true) by (rewrite Sa; apply Z.ltb_lt; exact Hpos).
          apply existsb_exists in Hany as ([z fz] & Hin & Hz). cbn [snd] in Hz. subst fz.
          apply (disp_pred_mono o a z); [apply (kid_under _ Hin)|apply (kid_pred z Hin)].
        - apply andb_true_iff in H as [_ H]. exact H. }
      constructor; cbn [m_pre m_todisp m_visited].
      + intros ab [<-|Hin]; [apply is_prefix_refl|apply (kid_under ab Hin)].
      + unfold anyf. cbn [existsb snd]. fold (anyf Lk). rewrite Sa.
        destruct shown eqn:Es; [reflexivity|]. cbn [orb].
        assert (H1 : (1 <? m_todisp km)%Z = false).
        { unfold shown in Es. apply orb_false_iff in Es as [Es _]. apply orb_false_iff in Es as [Es _]. exact Es. }
        apply Z.ltb_ge in H1. destruct (0 <? m_todisp km)%Z eqn:E0.
        * apply Z.ltb_lt in E0. lia.
        * apply Z.ltb_ge in E0. lia.
      + reflexivity.
      + lia.
      + intros y [E|Hin]; [injection E as <- Es; apply Hshown_pred; exact Es|apply (kid_pred y Hin)].
      + intros y f [E|Hin] Hc; [|apply (kid_cnt shown y f Hin Hc)].
        injection E as <- <-. unfold counted in Hc. rewrite head_flag in Hc.
        destruct shown eqn:Es; [reflexivity|]. rewrite orb_false_r in Hc.
        unfold Lk in Hc. rewrite (Hcwf _ ms HF) in Hc. apply Nat.ltb_lt in Hc.
        unfold shown in Es. apply orb_false_iff in Es as [Es _]. apply orb_false_iff in Es as [Es _].
        apply Z.ltb_ge in Es. lia.
    - intros [= <-]. rewrite Hp. apply orb_false_iff in Ec as [Evis Ev0]. apply Z.ltb_ge in Ev0.
      assert (Hd0 : m_todisp km = 0%Z) by lia.
      assert (Hany : anyf Lk = false) by (rewrite Sa, Hd0; reflexivity).
      constructor; cbn [m_pre m_todisp m_visited].
      + intros ab [<-|Hin]; [apply is_prefix_refl|apply (kid_under ab Hin)].
      + unfold anyf. cbn [existsb snd orb]. fold (anyf Lk). rewrite Hany. exact Hd0.
      + unfold anyf. cbn [existsb snd orb]. fold (anyf Lk). rewrite Hany. discriminate.
      + exact Sv.
      + intros y [E|Hin]; [discriminate|apply (kid_pred y Hin)].
      + intros y f [E|Hin] Hc; [|apply (kid_cnt false y f Hin Hc)].
        injection E as <- <-. unfold counted in Hc. rewrite head_flag, orb_false_r in Hc.
        unfold Lk in Hc. rewrite (Hcwf _ ms HF) in Hc. apply Nat.ltb_lt in Hc. lia.
  Qed.
End Node.

Lemma children_nil_when_deep all a :
  (forall b, In b all -> is_prefix a b = true -> (length b <= length a)%nat) -> children all a = [].
Proof.
  intros H. destruct (children all a) as [|k ks] eqn:E; [reflexivity|].
  assert (Hk : In k (children all a)) by (rewrite E; left; reflexivity).
  apply children_in in Hk as (b & Hb & Hp & Hl & _). apply is_prefix_spec in Hp.
  specialize (H b Hb Hp). lia.
Qed.

Lemma mark_inv ord cp o ps : o_flat o = false ->
  forall fuel a m, a <> [] ->
  (forall b, In b (map p_acct ps) -> is_prefix a b = true -> (length b <= length a + fuel)%nat) ->
  mark fuel ord cp o ps a = Ok m -> minv o (map p_acct ps) a m.
Proof.
  intros Hflat. induction fuel as [|f IH]; intros a m Hne Hb; cbn [mark].
  - cbn [bind]. intros H.
    assert (Hch : children (map p_acct ps) a = []).
    { apply children_nil_when_deep. intros b Hin Hp. specialize (Hb b Hin Hp). lia. }
    apply (node_inv ord cp o ps Hflat a [] (eq_ind_r (fun l => Forall2 _ l []) (Forall2_nil _) Hch)
             (mkMarks 0 0 []) m Hne eq_refl eq_refl eq_refl H).
  - destruct (kids_marks (mark f ord cp o ps) (children (map p_acct ps) a) (mkMarks 0 0 [])) as [km|] eqn:Ek;
      cbn [bind]; [|discriminate].
    destruct (kids_marks_inv _ _ _ _ Ek) as (ms & HF & Hv & Hd & Hp). cbn [m_visited m_todisp m_pre app] in *.
    intros H.
    assert (HF' : Forall2 (kid_ok o (map p_acct ps) (S (length a))) (children (map p_acct ps) a) ms).
    { apply (Forall2_impl_in _ _ _ _ HF). intros k mk Hk Hmk.
      pose proof (children_length _ _ _ Hk) as Hl. split; [exact Hl|].
      apply (IH k mk); [intros ->; discriminate Hl| |exact Hmk].
      intros b Hin Hpk.
      assert (Hpa : is_prefix a b = true).
      { apply (is_prefix_trans a k); [|exact Hpk]. apply is_prefix_spec. apply (children_prefix _ _ _ Hk). }
      specialize (Hb b Hin Hpa). lia. }
    apply (node_inv ord cp o ps Hflat a ms HF' km m Hne); try assumption; lia.
Qed.

(* in tree form every displayed level is a printed line: the hypothesis of layout_reads_back
   always holds *)
Lemma layout_ok_holds ord cp o ps :
  o_flat o = false -> layout_ok ord cp o ps = Ok true.
Proof.
  intros Hflat. unfold layout_ok.
  destruct (mark_ok ord cp o ps (max_depth ps) []) as [m Em]. rewrite Em. cbn [bind]. f_equal.
  apply forallb_forall. intros [y f] Hin. cbn [fst]. destruct y as [|s y']; [reflexivity|].
  set (y := s :: y') in *. set (all := map p_acct ps).
  pose proof (mark_pre _ _ _ _ _ _ _ Em) as Hpre. fold all in Hpre.
  assert (Hnd : NoDup (map fst (m_pre m))) by (rewrite Hpre; apply pre_nodup).
  rewrite (flag_of_unique _ _ _ Hnd Hin).
  destruct (counted (m_pre m) all y) eqn:Hc; [|reflexivity]. cbn [implb].
  (* the root's children *)
  revert Em. destruct (max_depth ps) as [|fu] eqn:Efu; cbn [mark]; fold all.
  - cbn [bind mark_node]. intros [= <-]. cbn [m_pre] in Hin. destruct Hin as [E|[]]. discriminate.
  - destruct (kids_marks (mark fu ord cp o ps) (children all []) (mkMarks 0 0 [])) as [km|] eqn:Ek;
      cbn [bind mark_node]; [|intros H0; discriminate H0].
    intros [= <-]. cbn [m_pre] in *.
    destruct (kids_marks_inv _ _ _ _ Ek) as (ms & HF & _ & _ & Hp). cbn [m_pre app] in Hp.
    assert (HF' : Forall2 (kid_ok o all 1) (children all []) ms).
    { apply (Forall2_impl_in _ _ _ _ HF). intros k mk Hk Hmk.
      pose proof (children_length _ _ _ Hk) as Hl. split; [exact Hl|].
      apply (mark_inv ord cp o ps Hflat fu k mk); [intros ->; discriminate Hl| |exact Hmk].
      intros b Hb _. apply in_map_iff in Hb as (p & <- & Hp'). pose proof (max_depth_bound ps p Hp'). lia. }
    destruct Hin as [E|Hin]; [discriminate|]. rewrite Hp in Hin, Hc.
    destruct (in_concat_pairs _ _ _ HF' Hin) as (k & mk & Hpair & [_ Hk] & Hab).
    pose proof (mi_under _ _ _ _ Hk _ Hab) as Hu. cbn [fst] in Hu.
    rewrite (counted_restrict _ all k y Hu) in Hc. cbn [filter] in Hc.
    assert (E : underf k ([], false) = false).
    { unfold underf. cbn [fst]. pose proof (in_combine_l _ _ _ _ Hpair) as Hkc.
      pose proof (children_length _ _ _ Hkc). destruct k; [discriminate|reflexivity]. }
    rewrite E in Hc.
    rewrite (filter_under_kid o all 1 _ _ HF' (children_nodup all []) k mk Hpair) in Hc.
    pose proof (mi_cnt _ _ _ _ Hk y f Hab Hc) as ->. cbn [andb].
    apply (mi_pred _ _ _ _ Hk y Hab).
Qed.

Lemma layout_reads_back_uncond ord cp o ps rows :
  o_flat o = false ->
  bal_layout ord cp o ps = Ok rows ->
  read_tree [] (map (fun l => (l_spacer l, l_partial l)) rows) = map l_acct rows.
Proof.
  intros Hflat. apply layout_reads_back_gen; [exact Hflat|apply layout_ok_holds; exact Hflat].
Qed.

(* ------------------- an inferred (bucket) posting is an ordinary posting of the journal *)

Definition as_written (p : posting) : posting :=
  mkPost (p_xact p) (p_payee p) (p_xstate p) (p_pstate p) (p_acct p) (p_virtual p) (p_amt p)
         (p_cost p) (p_date p) false (p_temp p).

Lemma sel_as_written o p : sel o (as_written p) = sel o p.
Proof. reflexivity. Qed.

Lemma amt_as_written o p : amt o (as_written p) = amt o p.
Proof. reflexivity. Qed.

Lemma filter_map_comm {A} (g : A -> A) (P : A -> bool) : forall l,
  (forall x, P (g x) = P x) -> filter P (map g l) = map g (filter P l).
Proof.
  intros l H. induction l as [|x l IH]; cbn [map filter]; [reflexivity|].
  rewrite H. destruct (P x); cbn [map]; rewrite IH; reflexivity.
Qed.

Lemma own_map ord (f : posting -> amount) (g : posting -> posting) sp a :
  (forall p, f (g p) = f p) -> (forall p, p_acct (g p) = p_acct p) ->
  own ord f (map g sp) a = own ord f sp a.
Proof.
  intros Hf Ha. unfold own, own_posts.
  rewrite (filter_map_comm g (fun p => path_eqb (p_acct p) a)) by (intros x; rewrite Ha; reflexivity).
  rewrite map_map. f_equal. apply map_ext. exact Hf.
Qed.

Lemma kids_total_ext ord (F G : path -> res value) : forall ks acc,
  (forall k, F k = G k) -> kids_total ord F ks acc = kids_total ord G ks acc.
Proof.
  induction ks as [|k ks IH]; intros acc H; cbn [kids_total]; [reflexivity|].
  rewrite H. destruct (G k) as [t|]; cbn [bind]; [|reflexivity].
  destruct (add_nonnull ord acc t); cbn [bind]; [|reflexivity]. apply IH, H.
Qed.

Lemma total_map ord (f : posting -> amount) (g : posting -> posting) all sp :
  (forall p, f (g p) = f p) -> (forall p, p_acct (g p) = p_acct p) ->
  forall fuel a, total fuel ord f all (map g sp) a = total fuel ord f all sp a.
Proof.
  intros Hf Ha. induction fuel as [|n IH]; intros a; cbn [total].
  - apply own_map; assumption.
  - rewrite (kids_total_ext ord _ _ _ _ IH), (own_map ord f g sp a Hf Ha). reflexivity.
Qed.

Lemma max_depth_map (g : posting -> posting) ps :
  (forall p, p_acct (g p) = p_acct p) -> max_depth (map g ps) = max_depth ps.
Proof.
  intros Ha. induction ps as [|p ps IH]; [reflexivity|]. cbn [map max_depth fold_right].
  rewrite Ha. unfold max_depth in IH. rewrite IH. reflexivity.
Qed.

(* no total depends on the ITEM_INFERRED flag: the report treats the posting finalize() added
   for the default account exactly like a written one *)
Lemma total_of_as_written ord o ps a :
  total_of ord o (map as_written ps) a = total_of ord o ps a.
Proof.
  unfold total_of, selected.
  rewrite (max_depth_map as_written ps (fun _ => eq_refl)), map_map.
  rewrite (filter_map_comm as_written (sel o) ps (sel_as_written o)).
  rewrite (map_ext (fun x => p_acct (as_written x)) p_acct (fun _ => eq_refl)).
  apply total_map; reflexivity.
Qed.

Lemma reg_rows_as_written ord o ps :
  reg_rows ord o (map as_written ps) = reg_rows ord o ps.
Proof.
  unfold reg_rows, selected, rows_of.
  rewrite (filter_map_comm as_written (sel o) ps (sel_as_written o)), map_map.
  rewrite (map_ext (fun x => amt o (as_written x)) (amt o) (amt_as_written o)).
  destruct (running ord VVoid (map (amt o) (filter (sel o) ps))) as [ts|]; cbn [bind]; [|reflexivity].
  f_equal. generalize (filter (sel o) ps). intros l. revert ts.
  induction l as [|p l IH]; intros [|t ts]; cbn [map combine]; try reflexivity.
  rewrite IH. reflexivity.
Qed.

Lemma visited_at_report_journal o p : p_temp p = false -> visited_at_report o p = sel o p.
Proof. intros H. unfold visited_at_report. rewrite (survives_clear_journal p H). apply orb_false_r. Qed.

(* ------------------------------ the name-ordered rows of a collapsed transaction *)

Lemma ins_row_perm kv l : Permutation (ins_row kv l) (kv :: l).
Proof.
  induction l as [|x l IH]; cbn [ins_row]; [reflexivity|].
  destruct (str_compare _ _); try reflexivity. rewrite IH. apply perm_swap.
Qed.

Lemma sort_rows_perm l : Permutation (sort_rows l) l.
Proof.
  induction l as [|x l IH]; cbn [sort_rows]; [reflexivity|]. rewrite ins_row_perm, IH. reflexivity.
Qed.

Lemma sumq_perm {A} (g : A -> Q) l l' : Permutation l l' -> sumq g l == sumq g l'.
Proof.
  induction 1; cbn [sumq]; try reflexivity.
  - rewrite IHPermutation. reflexivity.
  - ring.
  - rewrite IHPermutation1. exact IHPermutation2.
Qed.

Lemma mapq_sort c P g : mapq c P (sort_rows g) == mapq c P g.
Proof. unfold mapq. apply sumq_perm, sort_rows_perm. Qed.

Lemma bal_eq_reg_depth_rows ord ord' o ps n a v gs c :
  (Z.of_nat (length a) <= n)%Z ->
  total_of ord o ps a = Ok v ->
  collapsed_rows ord' n o ps = Ok gs ->
  den v c == sumq (fun g => mapq c (is_prefix a) g) gs.
Proof.
  intros Hl Hv. unfold collapsed_rows.
  destruct (collapsed ord' n o ps) as [gs0|] eqn:E; cbn [bind]; [|discriminate].
  intros [= <-]. rewrite (bal_eq_reg_depth_gen _ _ _ _ _ _ _ _ c Hl Hv E), sumq_map.
  apply sumq_ext_in. intros g _. symmetry. apply mapq_sort.
Qed.

Lemma sort_rows_keys g k : In k (map fst (sort_rows g)) -> In k (map fst g).
Proof. apply Permutation_in, Permutation_map, sort_rows_perm. Qed.
