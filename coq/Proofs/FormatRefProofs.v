(* Proofs about the `%$N` lookup model (Model/FormatRef.v). *)
From LedgerV Require Import Base.Prelude Model.FormatRef.
Local Open Scope Z_scope.

(* with the loop's null test no pointer is ever dereferenced after the end of the list *)
Lemma advance_guarded_some : forall n l, advance true n l <> None.
Proof.
  induction n as [|n IH]; intros l; cbn [advance]; [discriminate|].
  destruct l as [|e t]; [discriminate | apply IH].
Qed.

Lemma field_ref_guarded_no_crash : forall els index, field_ref true els index <> Crash.
Proof.
  intros els index. unfold field_ref.
  destruct ((index <? 1) || (15 <? index)); [discriminate|].
  destruct (advance true (Z.to_nat (index - 1)) els) as [[|e r]|] eqn:E; try discriminate.
  exfalso. exact (advance_guarded_some _ _ E).
Qed.

(* what is found is an element of the template *)
Lemma skip_strings_incl l : incl (skip_strings l) l.
Proof.
  induction l as [|e t IH]; cbn [skip_strings]; [apply incl_refl|].
  destruct (is_expr (fst e)); [apply incl_refl | apply incl_tl; exact IH].
Qed.

Lemma advance_incl guard : forall n l r, advance guard n l = Some r -> incl r l.
Proof.
  induction n as [|n IH]; intros l r H; cbn [advance] in H.
  - injection H as <-. apply incl_refl.
  - destruct l as [|e t].
    + destruct guard; [injection H as <-; apply incl_refl | discriminate].
    + apply IH in H. apply incl_tl. eapply incl_tran; [exact H | apply skip_strings_incl].
Qed.

Lemma field_ref_found_in guard els index e : field_ref guard els index = Found e -> In e els.
Proof.
  unfold field_ref. destruct ((index <? 1) || (15 <? index)); [discriminate|].
  destruct (advance guard (Z.to_nat (index - 1)) els) as [[|e' r]|] eqn:E; try discriminate.
  intros H. injection H as <-. apply (advance_incl _ _ _ _ E). left. reflexivity.
Qed.

(* the bounds: lists that are empty or start with an EXPR element *)
Definition expr_headed (l : list elt) : Prop :=
  match l with [] => True | e :: _ => is_expr (fst e) = true end.

Lemma skip_strings_headed l : expr_headed (skip_strings l).
Proof.
  induction l as [|e t IH]; cbn [skip_strings]; [exact I|].
  destruct (is_expr (fst e)) eqn:E; [exact E | exact IH].
Qed.

Lemma skip_strings_count l : count_exprs (skip_strings l) = count_exprs l.
Proof.
  induction l as [|e t IH]; cbn [skip_strings count_exprs]; [reflexivity|].
  destruct (is_expr (fst e)) eqn:E; [cbn [count_exprs]; rewrite E; reflexivity | exact IH].
Qed.

(* from an EXPR-headed list, n steps end on an element iff fewer than count_exprs steps were taken *)
Lemma advance_headed guard :
  forall n l, expr_headed l ->
    ((n < count_exprs l)%nat -> exists e r, advance guard n l = Some (e :: r)) /\
    (n = count_exprs l -> advance guard n l = Some []) /\
    ((count_exprs l < n)%nat -> advance guard n l = if guard then Some [] else None).
Proof.
  induction n as [|n IH]; intros l Hh.
  - destruct l as [|e t]; cbn [advance count_exprs].
    + repeat split; intros; try lia; reflexivity.
    + cbn [expr_headed] in Hh. rewrite Hh. repeat split; intros; try lia. eauto.
  - destruct l as [|e t]; cbn [advance count_exprs].
    + repeat split; intros; try lia; try reflexivity.
    + cbn [expr_headed] in Hh. rewrite Hh.
      destruct (IH (skip_strings t) (skip_strings_headed t)) as [H1 [H2 H3]].
      rewrite skip_strings_count in H1, H2, H3.
      repeat split; intros H.
      * apply H1. lia.
      * apply H2. lia.
      * apply H3. lia.
Qed.

(* the reference `%$N` (1 <= N <= 15) against a template: with F = number of EXPR elements after
   the first element, N <= F + 1 is found (on a non-empty template), N = F + 2 ends exactly at
   the end of the list, and N >= F + 3 needs a step from the null pointer *)
Lemma field_ref_spec guard els index :
  1 <= index <= 15 ->
  match els with
  | [] => (index = 1 -> field_ref guard els index = NoSuchField) /\
          (2 <= index -> field_ref guard els index = if guard then NoSuchField else Crash)
  | _ :: t =>
      let F := Z.of_nat (count_exprs t) in
      (index <= F + 1 -> exists e, field_ref guard els index = Found e) /\
      (index = F + 2 -> field_ref guard els index = NoSuchField) /\
      (F + 3 <= index -> field_ref guard els index = if guard then NoSuchField else Crash)
  end.
Proof.
  intros Hi. unfold field_ref.
  replace ((index <? 1) || (15 <? index)) with false
    by (symmetry; apply orb_false_iff; split; [apply Z.ltb_ge | apply Z.ltb_ge]; lia).
  destruct els as [|e0 t].
  - split; intros H.
    + subst index. reflexivity.
    + destruct (Z.to_nat (index - 1)) as [|n] eqn:En; [lia|]. cbn [advance]. destruct guard; reflexivity.
  - cbn zeta.
    destruct (Z.to_nat (index - 1)) as [|n] eqn:En.
    + assert (index = 1) by lia. subst index. cbn [advance].
      repeat split; intros H; try lia. eauto.
    + cbn [advance].
      destruct (advance_headed guard n (skip_strings t) (skip_strings_headed t)) as [H1 [H2 H3]].
      rewrite skip_strings_count in H1, H2, H3.
      repeat split; intros H.
      * destruct H1 as [e [r Hr]]; [lia|]. rewrite Hr. eauto.
      * rewrite H2 by lia. reflexivity.
      * rewrite H3 by lia. destruct guard; reflexivity.
Qed.

(* ---- the escape branch ---- *)
Lemma scan_format_guarded_gen : forall k s, (length s <= k)%nat -> scan_format true s <> ScanOverrun.
Proof.
  induction k as [|k IH]; intros s Hk.
  - destruct s; [cbn; discriminate | cbn in Hk; lia].
  - destruct s as [|c rest]; [cbn; discriminate|]. cbn [scan_format]. cbn in Hk.
    destruct (c =? 92).
    + destruct rest as [|d rest']; [discriminate|]. apply IH. cbn in Hk. lia.
    + apply IH. lia.
Qed.

Lemma scan_format_guarded s : scan_format true s <> ScanOverrun.
Proof. apply (scan_format_guarded_gen (length s)). lia. Qed.

(* without the test, a lone backslash at the end of a format with no other backslash overruns *)
Lemma scan_format_unguarded_overrun s :
  Forall (fun c => c <> 92) s -> scan_format false (s ++ [92]) = ScanOverrun.
Proof.
  induction s as [|c rest IH]; intros H; [reflexivity|].
  inversion H as [|? ? Hc Hrest]; subst. cbn [app scan_format].
  replace (c =? 92) with false by (symmetry; apply Z.eqb_neq; exact Hc).
  apply IH. exact Hrest.
Qed.
