(* Lemmas about Model/Expr.v: evaluation (short-circuit, one-branch conditional, operator
   cells), constant folding, static resolution of identifiers, compile preserves values on
   the definition-free fragment, and the witnesses of the refuted statements. *)
From LedgerV Require Import Base.Prelude Base.Round Model.Amount Model.Expr.
Local Open Scope Z_scope.

(* ------------------------------------------------------------------ calc, one step *)

Section CalcSteps.
Variable ord : bool.
Variable cp : comm -> Z.
Notation calc := (calc ord cp).

Lemma calc_value n tbl sc v : calc (S n) tbl sc (OValue v) = Ok (XV v).
Proof. reflexivity. Qed.

Lemma calc_and n tbl sc l r :
  calc (S n) tbl sc (OBin KAnd l (Some r)) =
  do x <- calc n tbl sc l; if x_truth cp x then calc n tbl sc r else Ok (XV (VBool false)).
Proof. reflexivity. Qed.

Lemma calc_or n tbl sc l r :
  calc (S n) tbl sc (OBin KOr l (Some r)) =
  do x <- calc n tbl sc l; if x_truth cp x then Ok x else calc n tbl sc r.
Proof. reflexivity. Qed.

Lemma calc_query n tbl sc c a b :
  calc (S n) tbl sc (OBin KQuery c (Some (OBin KColon a (Some b)))) =
  do x <- calc n tbl sc c; if x_truth cp x then calc n tbl sc a else calc n tbl sc b.
Proof. reflexivity. Qed.

Lemma calc_arith n tbl sc k l r :
  is_arith k = true ->
  calc (S n) tbl sc (OBin k l (Some r)) =
  do x <- calc n tbl sc l; do y <- calc n tbl sc r;
  do v <- the_value x; do w <- the_value y;
  do z <- arith ord cp k v w; Ok (XV z).
Proof. destruct k; cbn [is_arith]; intros H; try discriminate H; reflexivity. Qed.

Lemma calc_neg n tbl sc l :
  calc (S n) tbl sc (OUn KNeg l) =
  do x <- calc n tbl sc l; do v <- the_value x; do r <- v_neg v; Ok (XV r).
Proof. reflexivity. Qed.

Lemma calc_not n tbl sc l :
  calc (S n) tbl sc (OUn KNot l) =
  do x <- calc n tbl sc l; Ok (XV (VBool (negb (x_truth cp x)))).
Proof. reflexivity. Qed.

Lemma calc_scope n tbl sc b : calc (S n) tbl sc (OScope b) = calc n tbl sc b.
Proof. reflexivity. Qed.

Lemma calc_define n tbl sc l r : calc (S n) tbl sc (OBin KDefine l r) = Ok (XV VVoid).
Proof. reflexivity. Qed.

Lemma calc_seq n tbl sc l r :
  calc (S n) tbl sc (OBin KSeq l (Some r)) = do x <- calc n tbl sc l; calc n tbl sc r.
Proof. reflexivity. Qed.

(* the right operand of a false & / a true | is not evaluated: whatever it is - an
   expression that fails, loops or is ill-typed - the result is the same *)
Lemma and_short_circuit n tbl sc l r x :
  calc n tbl sc l = Ok x -> x_truth cp x = false ->
  calc (S n) tbl sc (OBin KAnd l (Some r)) = Ok (XV (VBool false)).
Proof. intros H T. rewrite calc_and, H. cbn [bind]. rewrite T. reflexivity. Qed.

Lemma or_short_circuit n tbl sc l r x :
  calc n tbl sc l = Ok x -> x_truth cp x = true ->
  calc (S n) tbl sc (OBin KOr l (Some r)) = Ok x.
Proof. intros H T. rewrite calc_or, H. cbn [bind]. rewrite T. reflexivity. Qed.

Lemma and_evaluates_right n tbl sc l r x :
  calc n tbl sc l = Ok x -> x_truth cp x = true ->
  calc (S n) tbl sc (OBin KAnd l (Some r)) = calc n tbl sc r.
Proof. intros H T. rewrite calc_and, H. cbn [bind]. rewrite T. reflexivity. Qed.

Lemma or_evaluates_right n tbl sc l r x :
  calc n tbl sc l = Ok x -> x_truth cp x = false ->
  calc (S n) tbl sc (OBin KOr l (Some r)) = calc n tbl sc r.
Proof. intros H T. rewrite calc_or, H. cbn [bind]. rewrite T. reflexivity. Qed.

Lemma query_one_branch n tbl sc c a b x :
  calc n tbl sc c = Ok x ->
  calc (S n) tbl sc (OBin KQuery c (Some (OBin KColon a (Some b)))) =
  if x_truth cp x then calc n tbl sc a else calc n tbl sc b.
Proof. intros H. rewrite calc_query, H. reflexivity. Qed.

(* the operator cells are those of value_t (C03) *)
Lemma calc_arith_values n tbl sc k l r v w :
  is_arith k = true ->
  calc n tbl sc l = Ok (XV v) -> calc n tbl sc r = Ok (XV w) ->
  calc (S n) tbl sc (OBin k l (Some r)) = do z <- arith ord cp k v w; Ok (XV z).
Proof. intros K H1 H2. rewrite (calc_arith _ _ _ _ _ _ K), H1, H2. reflexivity. Qed.

(* ---- a compiled identifier means its definition, whatever the symbol table says later *)
Lemma calc_resolved_ident n tbl sc s d :
  d <> OPlug -> calc (S n) tbl sc (OIdent s (Some d)) = calc n tbl sc d.
Proof. intros H. cbn [Expr.calc]. destruct d; try reflexivity. contradiction H; reflexivity. Qed.

Lemma calc_unresolved_ident n tbl sc s d :
  lookup s sc = None -> lookup s tbl = Some d ->
  calc (S n) tbl sc (OIdent s None) = calc n tbl sc d.
Proof. intros H1 H2. cbn [Expr.calc]. rewrite H1, H2. reflexivity. Qed.

(* ---- constant nodes evaluate the same in every scope (what compile's folding relies on) *)
Lemma const_bin_scope_free n tbl sc tbl' sc' k a b :
  calc n tbl sc (OBin k (OValue a) (Some (OValue b))) =
  calc n tbl' sc' (OBin k (OValue a) (Some (OValue b))).
Proof.
  destruct n as [|n]; [reflexivity|].
  destruct n as [|n]; [destruct k; reflexivity|].
  destruct k; try reflexivity.
Qed.

Lemma const_un_scope_free n tbl sc tbl' sc' k a :
  calc n tbl sc (OUn k (OValue a)) = calc n tbl' sc' (OUn k (OValue a)).
Proof.
  destruct n as [|n]; [reflexivity|].
  destruct n as [|n]; [destruct k; reflexivity|].
  destruct k; reflexivity.
Qed.

Lemma const_scope_scope_free n tbl sc tbl' sc' a :
  calc n tbl sc (OScope (OValue a)) = calc n tbl' sc' (OScope (OValue a)).
Proof.
  destruct n as [|n]; [reflexivity|].
  destruct n as [|n]; reflexivity.
Qed.

End CalcSteps.

(* ------------------------------------------------------------------ compile *)

Section CompileFacts.
Variable ord : bool.
Variable cp : comm -> Z.
Notation calc := (calc ord cp).
Notation compile := (compile ord cp).

(* identifier resolution is static: the definition in force at compile time is attached *)
Lemma compile_ident_found n tbl ps s d :
  in_names s ps = false -> builtin_of s = None -> lookup s tbl = Some d ->
  compile (S n) tbl ps (OIdent s None) = Ok (mkC (OIdent s (Some d)) true tbl).
Proof. intros H1 H2 H3. cbn [Expr.compile]. rewrite H1, H2, H3. reflexivity. Qed.

Lemma compile_ident_param n tbl ps s :
  in_names s ps = true ->
  compile (S n) tbl ps (OIdent s None) = Ok (mkC (OIdent s (Some OPlug)) true tbl).
Proof. intros H1. cbn [Expr.compile]. rewrite H1. reflexivity. Qed.

Lemma compile_ident_unknown n tbl ps s :
  in_names s ps = false -> builtin_of s = None -> lookup s tbl = None ->
  compile (S n) tbl ps (OIdent s None) = Ok (mkC (OIdent s None) false tbl).
Proof. intros H1 H2 H3. cbn [Expr.compile]. rewrite H1, H2, H3. reflexivity. Qed.

(* `x = e`: the compiled body is entered in the table, newest first *)
Lemma compile_define_var n tbl ps s d0 body c :
  compile n tbl ps body = Ok c ->
  compile (S n) tbl ps (OBin KDefine (OIdent s d0) (Some body)) =
  Ok (mkC (OValue VVoid) true ((s, c_op c) :: c_tbl c)).
Proof. intros H. cbn [Expr.compile]. rewrite H. reflexivity. Qed.

(* The scoping theorem.  An identifier compiled while x was bound to d evaluates d for
   ever after: under ANY later symbol table (e.g. one where x has been redefined) and in any
   argument frame. *)
Lemma closure_keeps_definition n m tbl ps s d tbl2 sc :
  in_names s ps = false -> builtin_of s = None -> lookup s tbl = Some d -> d <> OPlug ->
  exists t, compile (S n) tbl ps (OIdent s None) = Ok (mkC t true tbl) /\
            calc (S m) tbl2 sc t = calc m tbl2 sc d.
Proof.
  intros H1 H2 H3 H4. eexists. split.
  - apply compile_ident_found; eassumption.
  - apply calc_resolved_ident. exact H4.
Qed.

(* the branch pair of a conditional is never folded (hence never evaluated) by compile: it
   compiles whenever its two branches do, to a node that is not a constant *)
Lemma compile_colon_never_folds n tbl ps a b c1 c2 :
  compile n tbl ps a = Ok c1 -> compile n (c_tbl c1) ps b = Ok c2 ->
  exists c, compile (S n) tbl ps (OBin KColon a (Some b)) = Ok c /\
            c_tbl c = c_tbl c2 /\ is_value (c_op c) = false /\
            (c_changed c = true -> c_op c = OBin KColon (c_op c1) (Some (c_op c2))) /\
            (c_changed c = false -> c_op c = OBin KColon a (Some b)).
Proof.
  intros H1 H2. cbn [Expr.compile]. rewrite H1. cbn [bind]. rewrite H2. cbn [bind is_colon negb andb].
  destruct (c_changed c1 || c_changed c2); eexists; (split; [reflexivity|]); cbn;
    repeat split; auto; discriminate.
Qed.

(* ---- the definition-free fragment: values, identifiers, unary and binary operators,
   conditionals.  There compile only resolves identifiers. *)
Fixpoint pure (o : op) : bool :=
  match o with
  | OValue _ => true
  | OIdent s None => match builtin_of s with None => true | Some _ => false end
  | OUn _ l => pure l
  | OBin k l (Some r) =>
      match k with
      | KDefine | KLambda | KCall | KCons | KSeq => false
      | _ => pure l && pure r
      end
  | _ => false
  end.

(* what compile does on that fragment *)
Fixpoint resolve (tbl : symtab) (o : op) : op :=
  match o with
  | OIdent s None => match lookup s tbl with Some d => OIdent s (Some d) | None => o end
  | OUn k l => OUn k (resolve tbl l)
  | OBin k l (Some r) => OBin k (resolve tbl l) (Some (resolve tbl r))
  | _ => o
  end.

Lemma compile_pure : forall n o tbl c,
  pure o = true -> compile n tbl [] o = Ok c ->
  c_tbl c = tbl /\ c_op c = resolve tbl o /\
  (c_changed c = true -> is_value (c_op c) = false) /\
  (c_changed c = false -> c_op c = o).
Proof.
  induction n as [|n IH]; intros o tbl c Hp Hc; [discriminate Hc|].
  destruct o as [v|s d|  |f|b|k l|k l r]; cbn [pure] in Hp; try discriminate Hp.
  - cbn [Expr.compile] in Hc. injection Hc as <-. cbn. auto.
  - destruct d as [d|]; [discriminate Hp|].
    destruct (builtin_of s) eqn:B; [discriminate Hp|].
    cbn [Expr.compile in_names existsb] in Hc. rewrite B in Hc. cbn [resolve].
    destruct (lookup s tbl) as [d|]; injection Hc as <-; cbn; repeat split; auto; discriminate.
  - cbn [Expr.compile] in Hc.
    destruct (compile n tbl [] l) as [c1|e] eqn:E1; [|discriminate Hc]. cbn [bind] in Hc.
    destruct (IH _ _ _ Hp E1) as (T1 & O1 & V1 & U1).
    destruct (c_changed c1) eqn:Ch.
    + rewrite (V1 eq_refl) in Hc. injection Hc as <-. cbn [c_tbl c_op c_changed resolve is_value].
      rewrite O1. repeat split; auto; discriminate.
    + injection Hc as <-. cbn [c_tbl c_op c_changed resolve].
      rewrite <- O1, (U1 eq_refl). repeat split; auto; discriminate.
  - destruct r as [r|]; [|discriminate Hp].
    assert (Hk : pure l && pure r = true) by (destruct k; try discriminate Hp; exact Hp).
    apply andb_true_iff in Hk as [Hl Hr].
    assert (Hgen : compile (S n) tbl [] (OBin k l (Some r)) =
      do c1 <- compile n tbl [] l;
      do c2 <- compile n (c_tbl c1) [] r;
      if c_changed c1 || c_changed c2 then
        (if negb (is_colon k) && is_value (c_op c1) && is_value (c_op c2)
         then do x <- calc n (c_tbl c2) [] (OBin k (c_op c1) (Some (c_op c2)));
              do w <- wrap_xval x; Ok (mkC w true (c_tbl c2))
         else Ok (mkC (OBin k (c_op c1) (Some (c_op c2))) true (c_tbl c2)))
      else Ok (mkC (OBin k l (Some r)) false (c_tbl c2))).
    { destruct k; try discriminate Hp; reflexivity. }
    rewrite Hgen in Hc. clear Hgen.
    destruct (compile n tbl [] l) as [c1|e] eqn:E1; [|discriminate Hc]. cbn [bind] in Hc.
    destruct (IH _ _ _ Hl E1) as (T1 & O1 & V1 & U1). rewrite T1 in Hc.
    destruct (compile n tbl [] r) as [c2|e] eqn:E2; [|discriminate Hc]. cbn [bind] in Hc.
    destruct (IH _ _ _ Hr E2) as (T2 & O2 & V2 & U2).
    cbn [resolve].
    destruct (c_changed c1) eqn:Ch1; cbn [orb] in Hc.
    + rewrite (V1 eq_refl), andb_false_r in Hc. cbn [andb] in Hc. injection Hc as <-.
      cbn [c_tbl c_op c_changed is_value]. rewrite O1, O2. repeat split; auto; discriminate.
    + destruct (c_changed c2) eqn:Ch2.
      * rewrite (V2 eq_refl), andb_false_r in Hc. injection Hc as <-.
        cbn [c_tbl c_op c_changed is_value]. rewrite O1, O2. repeat split; auto; discriminate.
      * injection Hc as <-. cbn [c_tbl c_op c_changed].
        rewrite <- O1, <- O2, (U1 eq_refl), (U2 eq_refl). repeat split; auto; discriminate.
Qed.

(* evaluating the resolved tree = evaluating the tree with run-time lookups in the same table *)
Lemma calc_resolve tbl :
  (forall s d, lookup s tbl = Some d -> d <> OPlug) ->
  forall n o, pure o = true -> calc n tbl [] (resolve tbl o) = calc n tbl [] o.
Proof.
  intros Hplug. induction n as [|n IH]; intros o Hp; [reflexivity|].
  destruct o as [v|s d|  |f|b|k l|k l r]; cbn [pure] in Hp; try discriminate Hp; cbn [resolve].
  - reflexivity.
  - destruct d as [d|]; [discriminate Hp|].
    destruct (lookup s tbl) as [d|] eqn:L; [|reflexivity].
    rewrite calc_resolved_ident by (eapply Hplug; exact L).
    rewrite (calc_unresolved_ident ord cp n tbl [] s d eq_refl L). reflexivity.
  - destruct k; [rewrite !calc_not | rewrite !calc_neg]; rewrite IH by exact Hp; reflexivity.
  - destruct r as [r|]; [|discriminate Hp].
    assert (Hk : pure l && pure r = true) by (destruct k; try discriminate Hp; exact Hp).
    apply andb_true_iff in Hk as [Hl Hr].
    destruct k; try discriminate Hp;
      try (rewrite !calc_arith by reflexivity; rewrite (IH _ Hl), (IH _ Hr); reflexivity).
    + rewrite !calc_and, (IH _ Hl), (IH _ Hr). reflexivity.
    + rewrite !calc_or, (IH _ Hl), (IH _ Hr). reflexivity.
    + (* KQuery *)
      destruct r as [v|s d|  |f|b|k2 l2|k2 l2 r2]; cbn [pure] in Hr; try discriminate Hr.
      * reflexivity.
      * destruct d; [discriminate Hr|]. cbn [resolve]. destruct (lookup s tbl); reflexivity.
      * cbn [resolve]. destruct k2; reflexivity.
      * destruct r2 as [r2|]; [|discriminate Hr]. cbn [resolve].
        assert (Hk2 : pure l2 && pure r2 = true) by (destruct k2; try discriminate Hr; exact Hr).
        apply andb_true_iff in Hk2 as [Ha Hb].
        destruct k2; try discriminate Hr; try reflexivity.
        rewrite !calc_query, (IH _ Hl), (IH _ Ha), (IH _ Hb). reflexivity.
    + (* KColon on its own is never evaluated *)
      reflexivity.
Qed.

Lemma calc_compile_pure tbl :
  (forall s d, lookup s tbl = Some d -> d <> OPlug) ->
  forall n m o c, pure o = true -> compile m tbl [] o = Ok c ->
  calc n (c_tbl c) [] (c_op c) = calc n tbl [] o.
Proof.
  intros Hplug n m o c Hp Hc.
  destruct (compile_pure _ _ _ _ Hp Hc) as (T & O & _ & _).
  rewrite T, O. apply calc_resolve; assumption.
Qed.

End CompileFacts.

(* ------------------------------------------------------------------ witnesses *)

Definition w_num (z : Z) : value := VAmt (mkAmt (inject_Z z) 0 false None).
Definition w_usd (n : Z) (d : positive) (p : Z) : value := VAmt (mkAmt (Qmake n d) p false (Some [36])).
Definition w_cp : comm -> Z := fun _ => 2.

(* `1 < 2 ? 3 : 4` *)
Definition w_ternary : list tok :=
  [TVal (w_num 1); TLess; TVal (w_num 2); TQuery; TVal (w_num 3); TColon; TVal (w_num 4)].

(* prints as ((1 < 2) ? 3 : 4), which parses back to the same tree *)
Lemma ternary_print_parses_back :
  exists t, parse w_cp (parse_fuel w_ternary) w_ternary = Ok (Some t) /\
            print t = [TLParen; TLParen; TVal (w_num 1); TLess; TVal (w_num 2); TRParen; TQuery;
                       TVal (w_num 3); TColon; TVal (w_num 4); TRParen] /\
            parse w_cp (parse_fuel (print t)) (print t) = Ok (Some t) /\
            run false w_cp [] w_ternary = Ok (Some (XV (w_num 3))).
Proof. eexists. split; [vm_compute; reflexivity|]. split; [reflexivity|]. split; vm_compute; reflexivity. Qed.

(* `true ? (x = 1; 2) : 3`: both branches become constants during compilation; the value is 2
   directly and after compilation (before /repo 329da20 compile evaluated the O_COLON node and
   failed: F34) *)
Definition w_fold : list tok :=
  [TVal (VBool true); TQuery; TLParen; TIdent [120]; TAssign; TVal (w_num 1); TSemi; TVal (w_num 2); TRParen;
   TColon; TVal (w_num 3)].

Lemma fold_keeps_ternary :
  exists t, parse w_cp (parse_fuel w_fold) w_fold = Ok (Some t) /\
            calc false w_cp 50 [] [] t = Ok (XV (w_num 2)) /\
            (exists tbl, eval false w_cp 50 [] t = Ok (XV (w_num 2), tbl)).
Proof. eexists. split; [vm_compute; reflexivity|]. split; [vm_compute; reflexivity|]. eexists. vm_compute. reflexivity. Qed.

(* `$0.01 * $0.01 * $0.01 & 5` under a pool where $ shows 2 decimals *)
Definition w_dz : list tok :=
  [TVal (w_usd 1 100 2); TStar; TVal (w_usd 1 100 2); TStar; TVal (w_usd 1 100 2); TAnd; TVal (w_num 5)].

Lemma reprinted_text_changes_value :
  exists t, parse w_cp (parse_fuel w_dz) w_dz = Ok (Some t) /\
            run false w_cp [] w_dz = Ok (Some (XV (VBool false))) /\
            run false w_cp [] (map (relit_tok w_cp) (print t)) =
              Ok (Some (XV (VAmt (mkAmt 5 0 true None)))).
Proof. eexists. split; [vm_compute; reflexivity|]. split; vm_compute; reflexivity. Qed.

(* `f(a) = (b -> a + b); (f(1))(2)`: the closure loses a *)
Definition w_f : str := [102]. Definition w_a : str := [97]. Definition w_b : str := [98].
Definition w_g : str := [103]. Definition w_y : str := [121].
Definition w_escape : list tok :=
  [TIdent w_f; TLParen; TIdent w_a; TRParen; TAssign; TLParen; TIdent w_b; TArrow; TIdent w_a; TPlus; TIdent w_b; TRParen;
   TSemi; TLParen; TIdent w_f; TLParen; TVal (w_num 1); TRParen; TRParen; TLParen; TVal (w_num 2); TRParen].

Lemma escaping_closure_fails : run false w_cp [] w_escape = Err EOther.
Proof. vm_compute. reflexivity. Qed.

(* `f(a) = (y = a * 2; g(a) = y; g(5)); f(1)`: y is evaluated with g's a *)
Definition w_dyn : list tok :=
  [TIdent w_f; TLParen; TIdent w_a; TRParen; TAssign; TLParen;
     TIdent w_y; TAssign; TIdent w_a; TStar; TVal (w_num 2); TSemi;
     TIdent w_g; TLParen; TIdent w_a; TRParen; TAssign; TIdent w_y; TSemi;
     TIdent w_g; TLParen; TVal (w_num 5); TRParen; TRParen; TSemi;
   TIdent w_f; TLParen; TVal (w_num 1); TRParen].

Lemma by_name_variable_sees_callee_parameter :
  run false w_cp [] w_dyn = Ok (Some (XV (VAmt (mkAmt 10 0 false None)))).
Proof. vm_compute. reflexivity. Qed.

(* ------------------------------------------------------------------ parameters shadow *)

Section Shadowing.
Variable ord : bool.
Variable cp : comm -> Z.

Lemma in_names_app s a b : in_names s (a ++ b) = in_names s a || in_names s b.
Proof. unfold in_names. apply existsb_app. Qed.

(* compiling a lambda: its body sees its own parameters AND those of the enclosing lambdas *)
Lemma compile_lambda_eq n tbl ps l body :
  compile ord cp (S n) tbl ps (OBin KLambda l (Some body)) =
  do names <- param_names n (Some l);
  do c <- compile ord cp n tbl (names ++ ps) body;
  if c_changed c then Ok (mkC (OBin KLambda l (Some (c_op c))) true (c_tbl c))
  else Ok (mkC (OBin KLambda l (Some body)) false (c_tbl c)).
Proof. reflexivity. Qed.

(* a name that is a parameter of this or of an enclosing lambda compiles to a parameter
   reference, whatever variable, function or built-in of that name the table holds *)
Lemma param_reference_compiles n tbl names ps s :
  in_names s names || in_names s ps = true ->
  compile ord cp (S n) tbl (names ++ ps) (OIdent s None) = Ok (mkC (OIdent s (Some OPlug)) true tbl).
Proof. intros H. apply compile_ident_param. rewrite in_names_app. exact H. Qed.

Lemma lookup_app {A} s (f1 f2 : list (str * A)) :
  lookup s (f1 ++ f2) = match lookup s f1 with Some x => Some x | None => lookup s f2 end.
Proof.
  induction f1 as [|[k x] f1 IH]; [reflexivity|]. cbn [lookup app].
  destruct (str_eqb k s); [reflexivity|exact IH].
Qed.

(* at run time a parameter reference is the innermost binding of the name among the argument
   frames, whatever the outer frames and the symbol table hold *)
Lemma param_reference_innermost n tbl inner outer s x :
  lookup s inner = Some x ->
  calc ord cp (S n) tbl (inner ++ outer) (OIdent s (Some OPlug)) = Ok x.
Proof. intros H. cbn [Expr.calc]. rewrite lookup_app, H. reflexivity. Qed.

Lemma param_reference_outer n tbl inner outer s x :
  lookup s inner = None -> lookup s outer = Some x ->
  calc ord cp (S n) tbl (inner ++ outer) (OIdent s (Some OPlug)) = Ok x.
Proof. intros H H2. cbn [Expr.calc]. rewrite lookup_app, H, H2. reflexivity. Qed.

End Shadowing.

Definition w_vx : str := [118; 120]. Definition w_vy : str := [118; 121]. Definition w_fn : str := [102; 110].
Definition w_shadow : list tok :=
  [TIdent w_vx; TAssign; TVal (w_num 10); TSemi;
   TIdent w_fn; TAssign; TLParen; TIdent w_vx; TArrow; TLParen; TIdent w_vy; TArrow; TIdent w_vx; TPlus; TIdent w_vy; TRParen;
     TLParen; TVal (w_num 1); TRParen; TRParen; TSemi;
   TIdent w_fn; TLParen; TVal (w_num 5); TRParen].

(* ------------------------------------------------------------------ references to user-defined functions
   `f(params) = body` enters a LAMBDA in the table; an identifier compiled while f names that lambda carries it, and a
   call through the identifier is a call of THAT lambda - under any later table (f defined again) and in any argument
   frame (a caller, or a caller's caller, with a parameter named f, whatever was passed for it). *)
Section FunctionReferences.
Variable ord : bool.
Variable cp : comm -> Z.

Lemma compile_define_fun n tbl ps f d0 params body c :
  compile ord cp n tbl ps (OBin KLambda (match params with Some p => p | None => OPlug end) (Some body)) = Ok c ->
  compile ord cp (S n) tbl ps (OBin KDefine (OBin KCall (OIdent f d0) params) (Some body)) =
  Ok (mkC (OValue VVoid) true ((f, c_op c) :: c_tbl c)).
Proof. intros H. cbn [Expr.compile]. rewrite H. reflexivity. Qed.

Lemma compiled_lambda_is_lambda n tbl ps l body c :
  compile ord cp n tbl ps (OBin KLambda l (Some body)) = Ok c ->
  exists body', c_op c = OBin KLambda l (Some body').
Proof.
  destruct n as [|n]; [discriminate|]. rewrite compile_lambda_eq.
  destruct (param_names n (Some l)) as [names|e]; [|discriminate]. cbn [bind].
  destruct (compile ord cp n tbl (names ++ ps) body) as [c0|e]; [|discriminate]. cbn [bind].
  destruct (c_changed c0); intros H; injection H as <-; eexists; reflexivity.
Qed.

Lemma find_def_lambda n tbl sc l b : find_def ord cp (S n) tbl sc (OBin KLambda l b) = Ok (OBin KLambda l b).
Proof. reflexivity. Qed.

Lemma find_def_bound_ident n tbl sc s l b :
  find_def ord cp (S (S n)) tbl sc (OIdent s (Some (OBin KLambda l b))) = Ok (OBin KLambda l b).
Proof. reflexivity. Qed.

Lemma call_through_bound_ident n tbl sc s l b a :
  calc ord cp (S (S (S n))) tbl sc (OBin KCall (OIdent s (Some (OBin KLambda l b))) a) =
  calc ord cp (S (S (S n))) tbl sc (OBin KCall (OBin KLambda l b) a).
Proof. reflexivity. Qed.

Lemma function_reference_bound n m tbl ps s l b tbl2 sc :
  in_names s ps = false -> builtin_of s = None -> lookup s tbl = Some (OBin KLambda l b) ->
  exists t, compile ord cp (S n) tbl ps (OIdent s None) = Ok (mkC t true tbl) /\
            find_def ord cp (S (S m)) tbl2 sc t = Ok (OBin KLambda l b) /\
            forall a, calc ord cp (S (S (S m))) tbl2 sc (OBin KCall t a) =
                      calc ord cp (S (S (S m))) tbl2 sc (OBin KCall (OBin KLambda l b) a).
Proof.
  intros H1 H2 H3. exists (OIdent s (Some (OBin KLambda l b))). split.
  - apply compile_ident_found; assumption.
  - split; [apply find_def_bound_ident|intros a; apply call_through_bound_ident].
Qed.

End FunctionReferences.
