From LedgerV Require Import Base.Prelude Base.Round Model.Amount Model.Expr.
Local Open Scope Z_scope.
