(* Proofs about Model/Recursion.v. *)
From LedgerV Require Import Base.Prelude Model.Recursion.
Local Open Scope Z_scope.

(* when every edge hands the depth on, no chain puts more than L - d + 1 frames on the stack *)
Lemma descend_propagating_bounded L :
  forall es d n, Forall (fun e => e = Propagate) es -> 0 <= d ->
    match descend L es d n with
    | Cut k | Deeper k => (Z.of_nat k <= Z.of_nat n + Z.max 0 (L - d + 1))
    end.
Proof.
  induction es as [|e t IH]; intros d n Hall Hd; cbn [descend].
  - destruct (L <? d); lia.
  - destruct (L <? d) eqn:E; [lia|]. apply Z.ltb_ge in E.
    inversion Hall as [|? ? He Ht]; subst.
    specialize (IH (d + 1) (S n) Ht ltac:(lia)).
    destruct (descend L t (d + 1) (S n)); lia.
Qed.

(* and a chain longer than that is cut *)
Lemma descend_propagating_cut L :
  forall es d n, Forall (fun e => e = Propagate) es -> 0 <= d -> 0 <= L ->
    L - d + 1 < Z.of_nat (length es) -> exists k, descend L es d n = Cut k.
Proof.
  induction es as [|e t IH]; intros d n Hall Hd HL Hlen; cbn [descend].
  - cbn in Hlen. destruct (L <? d) eqn:E; [eauto|]. apply Z.ltb_ge in E. lia.
  - destruct (L <? d) eqn:E; [eauto|]. apply Z.ltb_ge in E.
    inversion Hall as [|? ? He Ht]; subst.
    apply IH; try assumption; try lia. cbn [length] in Hlen. lia.
Qed.

(* one edge that starts again at 0 is enough for chains of every length to be followed to the
   end: a cycle that passes through it never reaches the guard *)
Lemma descend_reset_cycle_unbounded L :
  0 <= L -> forall k n, descend L (repeat Reset k) 0 n = Deeper (n + k).
Proof.
  intros HL. induction k as [|k IH]; intros n; cbn [repeat descend].
  - replace (L <? 0) with false by (symmetry; apply Z.ltb_ge; lia). f_equal. lia.
  - replace (L <? 0) with false by (symmetry; apply Z.ltb_ge; lia). rewrite IH. f_equal. lia.
Qed.

(* the same with cycles of any period p <= L + 1: p - 1 propagating edges and one reset *)
Fixpoint cycles (p : nat) (k : nat) : list edge :=
  match k with O => [] | S k' => repeat Propagate p ++ Reset :: cycles p k' end.

Lemma descend_run_propagate L :
  forall p d n rest, 0 <= d -> d + Z.of_nat p <= L ->
    descend L (repeat Propagate p ++ rest) d n = descend L rest (d + Z.of_nat p) (n + p).
Proof.
  induction p as [|p IH]; intros d n rest Hd Hle; cbn [repeat app].
  - f_equal; lia.
  - cbn [descend]. replace (L <? d) with false by (symmetry; apply Z.ltb_ge; lia).
    rewrite IH by lia. f_equal; lia.
Qed.

Lemma descend_cycles_unbounded L p :
  0 <= L -> Z.of_nat p <= L ->
  forall k n, descend L (cycles p k) 0 n = Deeper (n + k * S p).
Proof.
  intros HL Hp. induction k as [|k IH]; intros n; cbn [cycles].
  - cbn [descend]. replace (L <? 0) with false by (symmetry; apply Z.ltb_ge; lia). f_equal. lia.
  - rewrite descend_run_propagate by lia. cbn [descend].
    replace (L <? 0 + Z.of_nat p) with false by (symmetry; apply Z.ltb_ge; lia).
    rewrite IH. f_equal. lia.
Qed.
