(* C19, static tie: the iteration sites over hashed / address-ordered containers regenerated from /repo/src
   (Gen/OrderSites.v, harness/translators/c19_order_sites.py) against the generic order-independence lemma of each class. *)
From LedgerV Require Import Base.Prelude Model.Amount Model.Xact Gen.OrderSites Proofs.OrderProofs Proofs.CompareProofs.
From Coq Require Import String Permutation.
Local Open Scope string_scope.

(* what "the order is neutralised" means for each class of loop body the translator recognises *)
Definition neutralised (t : order_tag) : Prop :=
  match t with
  | OTElementwise => forall (A B : Type) (f : A -> B) l l', Permutation l l' -> Permutation (map f l) (map f l')
  | OTCommutative => forall (A B : Type) (f : A -> B -> B), (forall x y a, f x (f y a) = f y (f x a)) ->
                     forall l l' a, Permutation l l' -> fold_right f a l = fold_right f a l'
  | OTExistence => forall (A : Type) (p : A -> bool) l l', Permutation l l' ->
                   forallb p l = forallb p l' /\ existsb p l = existsb p l'
  | OTUniqueMatch => forall (A : Type) (p : A -> bool) l l', Permutation l l' ->
                     (forall x y, In x l -> In y l -> p x = true -> p y = true -> x = y) -> find p l = find p l'
  | OTSorted => forall b b', distinct_keys b -> Permutation b b' -> sorted_amounts b = sorted_amounts b'
  | OTSingleton => forall (A : Type) (x : A) l, Permutation [x] l -> l = [x]
  | OTAllPlainOnly | OTFirstEntry | OTArgmaxTies | OTDebugDump | OTUnknown => False
  end.

Definition accepted (t : order_tag) : bool :=
  match t with
  | OTElementwise | OTCommutative | OTExistence | OTUniqueMatch | OTSorted | OTSingleton => true
  | _ => false
  end.

Lemma fold_right_comm_perm (A B : Type) (f : A -> B -> B) :
  (forall x y a, f x (f y a) = f y (f x a)) -> forall l l' a, Permutation l l' -> fold_right f a l = fold_right f a l'.
Proof.
  intros Hc l l' a Hp. induction Hp as [| x l l' _ IH | x y l | l l' l'' _ IH1 _ IH2]; cbn [fold_right].
  - reflexivity.
  - rewrite IH. reflexivity.
  - apply Hc.
  - rewrite IH1. exact IH2.
Qed.

Lemma existsb_perm (A : Type) (p : A -> bool) l l' : Permutation l l' -> existsb p l = existsb p l'.
Proof.
  induction 1 as [| x l l' _ IH | x y l | l l' l'' _ IH1 _ IH2]; cbn [existsb].
  - reflexivity.
  - rewrite IH. reflexivity.
  - destruct (p x), (p y); reflexivity.
  - rewrite IH1. exact IH2.
Qed.

Lemma find_unique_perm (A : Type) (p : A -> bool) l l' : Permutation l l' ->
  (forall x y, In x l -> In y l -> p x = true -> p y = true -> x = y) -> find p l = find p l'.
Proof.
  intros Hp Hu. destruct (find p l) as [x|] eqn:E.
  - destruct (find_some _ _ E) as [Hin Hpx].
    destruct (find p l') as [y|] eqn:E'.
    + destruct (find_some _ _ E') as [Hin' Hpy]. f_equal. apply Hu; try assumption.
      apply (Permutation_in _ (Permutation_sym Hp)). exact Hin'.
    + pose proof (find_none _ _ E' x (Permutation_in _ Hp Hin)) as Hn. congruence.
  - destruct (find p l') as [y|] eqn:E'; [|reflexivity].
    destruct (find_some _ _ E') as [Hin' Hpy].
    pose proof (find_none _ _ E y (Permutation_in _ (Permutation_sym Hp) Hin')) as Hn. congruence.
Qed.

Lemma accepted_neutralised t : accepted t = true -> neutralised t.
Proof.
  destruct t; cbn; try discriminate; intros _.
  - intros A B f l l' H. apply Permutation_map. exact H.
  - exact fold_right_comm_perm.
  - intros A p l l' H. split; [apply forallb_perm | apply existsb_perm]; exact H.
  - exact find_unique_perm.
  - exact sorted_amounts_order_free.
  - intros A x l H. apply Permutation_length_1_inv. exact H.
Qed.

(* the sites where the code DOES depend on the table order, each with what bounds the damage:
   - lookup_probable_account (lookup.cc): std::max_element over a map ordered by account address, ties by address
     (`convert`/`xact` only; candidate);
   - balance_t::dump and the DEBUG listing of lookup.cc: debug output, printed next to object addresses.
   No longer among them (repaired in /repo, findings F190 and F191): value_t::is_less_than / is_greater_than for a BALANCE
   against an amount (55e6d28) and top_amount (195dbe5) walk `sorted_amounts` now - sites of container "amounts_array",
   class OTSorted (CompareProofs.v: v_ltb_balance_perm, bal_gt_scalar_perm, top_amount_perm). *)
Definition order_dependent_sites : list order_site := [
  mkSite "balance.h" "dump" "amounts_map" OTDebugDump;
  mkSite "lookup.cc" "lookup_probable_account" "account_use_map" OTArgmaxTies;
  mkSite "lookup.cc" "lookup_probable_account" "account_use_map" OTDebugDump
].

Definition tag_eqb (a b : order_tag) : bool :=
  match a, b with
  | OTElementwise, OTElementwise | OTCommutative, OTCommutative | OTExistence, OTExistence
  | OTUniqueMatch, OTUniqueMatch | OTSorted, OTSorted | OTSingleton, OTSingleton | OTAllPlainOnly, OTAllPlainOnly
  | OTFirstEntry, OTFirstEntry | OTArgmaxTies, OTArgmaxTies | OTDebugDump, OTDebugDump | OTUnknown, OTUnknown => true
  | _, _ => false
  end.

Definition site_eqb (a b : order_site) : bool :=
  String.eqb (os_file a) (os_file b) && String.eqb (os_fn a) (os_fn b) && String.eqb (os_cont a) (os_cont b) &&
  tag_eqb (os_tag a) (os_tag b).

Lemma site_eqb_eq a b : site_eqb a b = true -> a = b.
Proof.
  destruct a as [f1 n1 c1 t1], b as [f2 n2 c2 t2]. unfold site_eqb. cbn [os_file os_fn os_cont os_tag].
  rewrite !Bool.andb_true_iff. intros [[[H1 H2] H3] H4].
  apply String.eqb_eq in H1, H2, H3. subst. destruct t1, t2; try discriminate; reflexivity.
Qed.

Definition site_ok (s : order_site) : bool := accepted (os_tag s) || existsb (site_eqb s) order_dependent_sites.

(* the sites the lemmas above were written against: the regenerated list must be exactly this one *)
Definition covered_sites : list order_site :=
[
  mkSite "balance.cc" "average_lot_prices" "amounts_map" OTCommutative;
  mkSite "balance.cc" "balance_t::commodity_amount" "amounts_map" OTSingleton;
  mkSite "balance.cc" "balance_t::find_by_name" "amounts_map" OTUniqueMatch;
  mkSite "balance.cc" "balance_t::find_by_name" "amounts_map" OTUniqueMatch;
  mkSite "balance.cc" "balance_t::map_sorted_amounts" "amounts_array" OTSorted;
  mkSite "balance.cc" "balance_t::map_sorted_amounts" "amounts_map" OTSingleton;
  mkSite "balance.cc" "balance_t::operator*=" "amounts_map" OTElementwise;
  mkSite "balance.cc" "balance_t::operator*=" "amounts_map" OTSingleton;
  mkSite "balance.cc" "balance_t::operator*=" "amounts_map" OTSingleton;
  mkSite "balance.cc" "balance_t::operator+=" "amounts_map" OTCommutative;
  mkSite "balance.cc" "balance_t::operator-=" "amounts_map" OTCommutative;
  mkSite "balance.cc" "balance_t::operator/=" "amounts_map" OTElementwise;
  mkSite "balance.cc" "balance_t::operator/=" "amounts_map" OTSingleton;
  mkSite "balance.cc" "balance_t::operator/=" "amounts_map" OTSingleton;
  mkSite "balance.cc" "balance_t::sorted_amounts" "amounts_map" OTSorted;
  mkSite "balance.cc" "balance_t::strip_annotations" "amounts_map" OTCommutative;
  mkSite "balance.cc" "balance_t::value" "amounts_map" OTCommutative;
  mkSite "balance.h" "abs" "amounts_map" OTCommutative;
  mkSite "balance.h" "dump" "amounts_map" OTDebugDump;
  mkSite "balance.h" "in_place_ceiling" "amounts_map" OTElementwise;
  mkSite "balance.h" "in_place_floor" "amounts_map" OTElementwise;
  mkSite "balance.h" "in_place_negate" "amounts_map" OTElementwise;
  mkSite "balance.h" "in_place_reduce" "amounts_map" OTCommutative;
  mkSite "balance.h" "in_place_round" "amounts_map" OTElementwise;
  mkSite "balance.h" "in_place_roundto" "amounts_map" OTElementwise;
  mkSite "balance.h" "in_place_truncate" "amounts_map" OTElementwise;
  mkSite "balance.h" "in_place_unreduce" "amounts_map" OTCommutative;
  mkSite "balance.h" "in_place_unround" "amounts_map" OTElementwise;
  mkSite "balance.h" "is_nonzero" "amounts_map" OTExistence;
  mkSite "balance.h" "is_realzero" "amounts_map" OTExistence;
  mkSite "balance.h" "is_zero" "amounts_map" OTExistence;
  mkSite "balance.h" "number" "amounts_map" OTCommutative;
  mkSite "balance.h" "operator==" "amounts_map" OTSingleton;
  mkSite "balance.h" "to_amount" "amounts_map" OTSingleton;
  mkSite "balance.h" "valid" "amounts_map" OTExistence;
  mkSite "filters.cc" "changed_value_posts::output_intermediate_prices" "amounts_map" OTCommutative;
  mkSite "lookup.cc" "lookup_probable_account" "account_use_map" OTArgmaxTies;
  mkSite "lookup.cc" "lookup_probable_account" "account_use_map" OTDebugDump;
  mkSite "report.cc" "report_t::fn_nail_down" "amounts_map" OTCommutative;
  mkSite "report.cc" "report_t::fn_verif_rational" "amounts_map" OTSorted;
  mkSite "report.cc" "top_amount" "amounts_array" OTSorted;
  mkSite "textual.cc" "instance_t::parse_post" "amounts_map" OTCommutative;
  mkSite "value.cc" "value_t::exchange_commodities" "amounts_map" OTCommutative;
  mkSite "value.cc" "value_t::in_place_cast" "amounts_map" OTSingleton;
  mkSite "value.cc" "value_t::is_greater_than" "amounts_array" OTSorted;
  mkSite "value.cc" "value_t::is_less_than" "amounts_array" OTSorted;
  mkSite "xact.cc" "xact_base_t::finalize" "amounts_map" OTCommutative;
  mkSite "xact.cc" "xact_base_t::finalize" "amounts_map" OTSorted
].

Lemma order_sites_covered : order_sites = covered_sites.
Proof. reflexivity. Qed.

Lemma order_sites_all_ok : forallb site_ok order_sites = true.
Proof. vm_compute. reflexivity. Qed.

Lemma order_sites_neutralised_or_listed :
  forall s, In s order_sites -> neutralised (os_tag s) \/ In s order_dependent_sites.
Proof.
  intros s Hin. pose proof order_sites_all_ok as H. rewrite forallb_forall in H. specialize (H s Hin).
  unfold site_ok in H. apply Bool.orb_true_iff in H. destruct H as [H|H].
  - left. apply accepted_neutralised. exact H.
  - right. apply existsb_exists in H. destruct H as [d [Hd He]]. apply site_eqb_eq in He. subst. exact Hd.
Qed.

Lemma no_unknown_order_site : forall s, In s order_sites -> os_tag s <> OTUnknown.
Proof.
  intros s Hin Hu. destruct (order_sites_neutralised_or_listed s Hin) as [H|H].
  - rewrite Hu in H. exact H.
  - cbn in H. repeat (destruct H as [H|H]; [subst s; discriminate Hu|]). exact H.
Qed.

(* no container ordered by an unrecognised comparator *)
Definition containers_recognised : bool :=
  forallb (fun c => negb (String.eqb (snd c) "by_comparator_unrecognised")) order_containers.
Lemma order_containers_recognised : containers_recognised = true.
Proof. vm_compute. reflexivity. Qed.

(* the walks over the sorted entries (container "amounts_array"): whatever is computed from the sorted list is a function of
   the table's contents - the generic statement behind v_ltb_balance_perm, bal_gt_scalar_perm and top_amount_perm *)
Lemma sorted_walk_order_free (A : Type) (g : list amount -> A) b b' :
  distinct_keys b -> Permutation b b' -> g (sorted_amounts b) = g (sorted_amounts b').
Proof. intros Hn HP. rewrite (sorted_amounts_order_free b b' Hn HP). reflexivity. Qed.

(* every site of a sorted walk named in the source is of class OTSorted in the regenerated list *)
Definition sorted_walk_sites : list order_site := [
  mkSite "balance.cc" "balance_t::map_sorted_amounts" "amounts_array" OTSorted;
  mkSite "report.cc" "top_amount" "amounts_array" OTSorted;
  mkSite "value.cc" "value_t::is_greater_than" "amounts_array" OTSorted;
  mkSite "value.cc" "value_t::is_less_than" "amounts_array" OTSorted
].

Lemma sorted_walk_sites_listed : forallb (fun w => existsb (site_eqb w) order_sites) sorted_walk_sites = true.
Proof. vm_compute. reflexivity. Qed.

Definition is_sorted_walk (s : order_site) : bool := String.eqb (os_cont s) "amounts_array".

Lemma sorted_walks_are_exactly_these : filter is_sorted_walk order_sites = sorted_walk_sites.
Proof. vm_compute. reflexivity. Qed.

(* the repaired functions no longer iterate over the hash table itself *)
Definition walks_table_in_a_repaired_function (s : order_site) : bool :=
  String.eqb (os_cont s) "amounts_map" &&
  (String.eqb (os_fn s) "value_t::is_less_than" || String.eqb (os_fn s) "value_t::is_greater_than" ||
   String.eqb (os_fn s) "top_amount").

Lemma repaired_functions_do_not_walk_the_table :
  forallb (fun s => negb (walks_table_in_a_repaired_function s)) order_sites = true.
Proof. vm_compute. reflexivity. Qed.
