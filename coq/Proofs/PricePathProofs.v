(* Proofs about the targeted find_price over a price graph with SEVERAL paths
   (Model/Prices.v: path_weight, candidates, lightest, find_price_via; history.cc:435-546). *)
From LedgerV Require Import Base.Prelude Gen.PathWeight Model.Prices Proofs.PricesProofs.
Local Open Scope Z_scope.
Local Opaque Qred.

(* ---- the facts re-read from history.cc that the statements below rest on ---- *)
Lemma path_weight_facts :
  dijkstra_combine = CombineMax /\ edge_weight_is_age = true /\ smaller_weight_wins = true.
Proof. repeat split; reflexivity. Qed.

Lemma path_combine_max x y : path_combine x y = Z.max x y.
Proof. unfold path_combine. destruct path_weight_facts as (-> & _). reflexivity. Qed.

(* ---- the weight of a path is the age of its stalest price ---- *)
Lemma fold_weight_ge D p : forall a,
  a <= fold_left (fun acc s => path_combine acc (step_age D s)) p a.
Proof.
  induction p as [|s p IH]; intros a; cbn [fold_left]; [lia|].
  specialize (IH (path_combine a (step_age D s))). rewrite path_combine_max in *. lia.
Qed.

Lemma fold_weight_bound D p : forall a s,
  In s p -> step_age D s <= fold_left (fun acc s => path_combine acc (step_age D s)) p a.
Proof.
  induction p as [|x p IH]; intros a s []; cbn [fold_left].
  - subst x. pose proof (fold_weight_ge D p (path_combine a (step_age D s))) as H.
    rewrite path_combine_max in *. lia.
  - apply IH. assumption.
Qed.

Lemma fold_weight_attained D p : forall a,
  fold_left (fun acc s => path_combine acc (step_age D s)) p a = a \/
  exists s, In s p /\ fold_left (fun acc s => path_combine acc (step_age D s)) p a = step_age D s.
Proof.
  induction p as [|x p IH]; intros a; cbn [fold_left]; [left; reflexivity|].
  destruct (IH (path_combine a (step_age D x))) as [H|(s & Hin & H)].
  - rewrite H, path_combine_max.
    destruct (Z.max_spec a (step_age D x)) as [[_ ->]|[_ ->]].
    + right. exists x. split; [left; reflexivity | reflexivity].
    + left. reflexivity.
  - right. exists s. split; [right; exact Hin | exact H].
Qed.

Lemma path_weight_bound D p s : In s p -> step_age D s <= path_weight D p.
Proof. apply fold_weight_bound. Qed.

Lemma path_weight_nonneg D p : 0 <= path_weight D p.
Proof. apply fold_weight_ge. Qed.

Lemma path_weight_attained D p :
  path_weight D p = 0 \/ exists s, In s p /\ path_weight D p = step_age D s.
Proof. apply fold_weight_attained. Qed.

(* every step of a path of the filtered graph has a price not after D: its age is not negative *)
Lemma spath_ages g D vis cur tgt p :
  spath g D vis cur tgt p -> forall s, In s p -> 0 <= step_age D s.
Proof.
  intros H s Hin. pose proof (spath_steps _ _ _ _ _ _ H) as F.
  rewrite Forall_forall in F. specialize (F s Hin).
  apply edge_point_edge in F as (e & _ & _ & R).
  destruct (s_pt s) as [w pr] eqn:Ept. apply pm_recent_in in R as [_ R].
  unfold step_age, step_when. rewrite Ept. cbn. lia.
Qed.

(* on a non-empty path of the filtered graph the weight IS the greatest age *)
Lemma spath_weight_is_max_age g D vis cur tgt p :
  spath g D vis cur tgt p -> p <> [] ->
  (exists s, In s p /\ path_weight D p = step_age D s) /\
  (forall s, In s p -> step_age D s <= path_weight D p).
Proof.
  intros H Hne. split; [|intros s; apply path_weight_bound].
  destruct (path_weight_attained D p) as [Z|E]; [|exact E].
  destruct p as [|s p]; [contradiction|]. exists s. split; [left; reflexivity|].
  pose proof (path_weight_bound D (s :: p) s (or_introl eq_refl)) as B.
  pose proof (spath_ages _ _ _ _ _ _ H s (or_introl eq_refl)) as A. lia.
Qed.

(* ---- lightest: a member of least weight; the unique minimiser whatever the order ---- *)
Lemma lightest_in D l : forall b, In (lightest D b l) (b :: l).
Proof.
  induction l as [|p r IH]; intros b; cbn [lightest]; [left; reflexivity|].
  destruct (IH (if path_weight D p <? path_weight D b then p else b)) as [H|H].
  - destruct (path_weight D p <? path_weight D b); rewrite <- H; [right; left|left]; reflexivity.
  - right. right. exact H.
Qed.

Lemma lightest_le_best D l : forall b, path_weight D (lightest D b l) <= path_weight D b.
Proof.
  induction l as [|p r IH]; intros b; cbn [lightest]; [lia|].
  specialize (IH (if path_weight D p <? path_weight D b then p else b)).
  destruct (path_weight D p <? path_weight D b) eqn:E;
    [apply Z.ltb_lt in E | apply Z.ltb_ge in E]; lia.
Qed.

Lemma lightest_min D l : forall b q,
  In q (b :: l) -> path_weight D (lightest D b l) <= path_weight D q.
Proof.
  induction l as [|p r IH]; intros b q Hin; cbn [lightest].
  - destruct Hin as [<-|[]]. lia.
  - pose proof (lightest_le_best D r (if path_weight D p <? path_weight D b then p else b)) as L.
    destruct Hin as [<-|[<-|Hin]].
    + destruct (path_weight D p <? path_weight D b) eqn:E;
        [apply Z.ltb_lt in E | apply Z.ltb_ge in E]; lia.
    + destruct (path_weight D p <? path_weight D b) eqn:E;
        [apply Z.ltb_lt in E | apply Z.ltb_ge in E]; lia.
    + apply IH. right. exact Hin.
Qed.

(* ---- candidates = the simple paths of the filtered graph ---- *)
Definition via_path (g : graph) (D : Z) (oldest : option Z) (s t : comm) (p : list step) : Prop :=
  spath g D [] s t p /\ Forall (fun x => step_ok oldest x = true) p.

Lemma candidates_spec g D o s t p :
  wf g -> (In p (candidates g D o s t) <-> via_path g D o s t p).
Proof.
  intros W. unfold candidates, via_path. rewrite filter_In, forallb_forall, Forall_forall. split.
  - intros [H F]. split; [|exact F]. apply (paths_sound g D W _ _ _ _ _ H).
  - intros [H F]. split; [|exact F].
    apply (paths_complete _ _ _ _ _ _ H). apply (spath_length _ _ _ _ _ _ H).
Qed.

Lemma via_path_no_oldest g D s t p : via_path g D None s t p <-> spath g D [] s t p.
Proof.
  unfold via_path. split; [intros [H _]; exact H|]. intros H. split; [exact H|].
  apply Forall_forall. reflexivity.
Qed.

(* ---- find_price_via ---- *)
Lemma find_price_via_some g D o s t w pr :
  wf g -> find_price_via g s t D o = Some (w, pr) ->
  s <> t /\ exists p, via_path g D o s t p /\
    pr = mkPrice (Qred (path_q p)) t /\ w = path_when p /\
    forall q, via_path g D o s t q -> path_weight D p <= path_weight D q.
Proof.
  intros W. unfold find_price_via. ceq s t; [discriminate|].
  destruct (candidates g D o s t) as [|b l] eqn:C; [discriminate|].
  intros H. injection H as <- <-. split; [exact E|].
  exists (lightest D b l). repeat split; try reflexivity.
  - apply (candidates_spec g D o s t _ W). rewrite C. apply lightest_in.
  - apply (candidates_spec g D o s t _ W). rewrite C. apply lightest_in.
  - intros q Hq. apply lightest_min. rewrite <- C. apply (candidates_spec g D o s t q W). exact Hq.
Qed.

Lemma find_price_via_none g D o s t :
  wf g -> (find_price_via g s t D o = None <-> s = t \/ forall p, ~ via_path g D o s t p).
Proof.
  intros W. unfold find_price_via. ceq s t.
  - split; [intros _; left; exact E | reflexivity].
  - destruct (candidates g D o s t) as [|b l] eqn:C.
    + split; [|reflexivity]. intros _. right. intros p Hp.
      apply (candidates_spec g D o s t p W) in Hp. rewrite C in Hp. destruct Hp.
    + split; [discriminate|]. intros [H|H]; [contradiction|]. exfalso. apply (H b).
      apply (candidates_spec g D o s t b W). rewrite C. left. reflexivity.
Qed.

(* the tie-free case: a path strictly lighter than every other one is the one taken, in whatever
   order the graph's edges were created (what the comparison with ledger rests on) *)
Lemma find_price_via_unique_lightest g D o s t p :
  wf g -> s <> t -> via_path g D o s t p ->
  (forall q, via_path g D o s t q -> path_weight D q <= path_weight D p -> q = p) ->
  find_price_via g s t D o = Some (path_when p, mkPrice (Qred (path_q p)) t).
Proof.
  intros W Hne Hp U. unfold find_price_via. apply comm_eqb_false in Hne. rewrite Hne.
  pose proof (proj2 (candidates_spec g D o s t p W) Hp) as Hin.
  destruct (candidates g D o s t) as [|b l] eqn:C; [destruct Hin|].
  assert (L : lightest D b l = p).
  { apply U.
    - apply (candidates_spec g D o s t _ W). rewrite C. apply lightest_in.
    - apply lightest_min. exact Hin. }
  rewrite L. reflexivity.
Qed.

(* no tie reported: the path taken is strictly lighter than every other candidate *)
Lemma filter_one {A} (f : A -> bool) (l : list A) x y :
  (length (filter f l) <= 1)%nat -> In x l -> In y l -> f x = true -> f y = true -> x = y.
Proof.
  induction l as [|a l IH]; intros L Hx Hy Fx Fy; [destruct Hx|]. cbn [filter] in L.
  destruct (f a) eqn:Fa.
  - cbn in L. assert (Z : filter f l = []) by (destruct (filter f l); [reflexivity | cbn in L; lia]).
    assert (N : forall z, In z l -> f z = true -> False).
    { intros z Hz Fz. assert (Hin : In z (filter f l)) by (apply filter_In; split; assumption).
      rewrite Z in Hin. destruct Hin. }
    destruct Hx as [<-|Hx], Hy as [<-|Hy]; try reflexivity; exfalso; eauto.
  - destruct Hx as [<-|Hx]; [congruence|]. destruct Hy as [<-|Hy]; [congruence|]. apply IH; assumption.
Qed.

Lemma via_no_tie_strict g D o s t w pr :
  wf g -> via_tie g s t D o = false -> find_price_via g s t D o = Some (w, pr) ->
  exists p, via_path g D o s t p /\ pr = mkPrice (Qred (path_q p)) t /\
    forall q, via_path g D o s t q -> q <> p -> path_weight D p < path_weight D q.
Proof.
  intros W T. unfold find_price_via, via_tie in *. ceq s t; [discriminate|].
  destruct (candidates g D o s t) as [|b l] eqn:C; [discriminate|].
  intros H. injection H as <- <-. set (p := lightest D b l) in *.
  assert (Hp : In p (b :: l)) by apply lightest_in.
  exists p. split; [apply (candidates_spec g D o s t _ W); rewrite C; exact Hp|]. split; [reflexivity|].
  intros q Hq Hne. apply (candidates_spec g D o s t q W) in Hq. rewrite C in Hq.
  pose proof (lightest_min D l b q Hq) as M. fold p in M.
  destruct (Z.eq_dec (path_weight D q) (path_weight D p)) as [Eq|]; [|lia]. exfalso. apply Hne.
  apply Z.ltb_ge in T.
  apply (filter_one (fun q => path_weight D q =? path_weight D p) (b :: l)); try assumption.
  - apply Nat2Z.inj_le. exact T.
  - apply Z.eqb_eq. exact Eq.
  - apply Z.eqb_refl.
Qed.

(* with a single path this is the unique-path lookup of the property *)
Lemma find_price_via_unique_path g D s t :
  wf g -> at_most_one_path g D s t ->
  option_map snd (find_price_via g s t D None) = find_price g s t D.
Proof.
  intros W U. destruct (find_price_via g s t D None) as [[w pr]|] eqn:F; cbn [option_map snd].
  - apply (find_price_via_some g D None s t w pr W) in F as (Hne & p & Hp & -> & _ & _).
    symmetry. apply find_price_path; try assumption. apply (proj1 (via_path_no_oldest g D s t p)). exact Hp.
  - apply (find_price_via_none g D None s t W) in F. symmetry. apply (find_price_none g D s t W).
    destruct F as [F|F]; [left; exact F | right]. intros p Hp. apply (F p).
    apply (proj2 (via_path_no_oldest g D s t p)). exact Hp.
Qed.

Lemma convert_via_unique_path g prim a t D :
  wf g -> at_most_one_path g D (hc a) t ->
  convert_via g a t D = convert g prim a (Some t) D.
Proof.
  intros W U. unfold convert_via, convert, value, lookup. cbn [negb].
  ceq (hc a) t; [reflexivity|]. destruct dispatch_on_target as [_ ->].
  rewrite <- (find_price_via_unique_path g D (hc a) t W U).
  destruct (find_price_via g (hc a) t D None) as [[w p]|]; reflexivity.
Qed.

(* ---- least_recent: the oldest `when` along the path ---- *)
Lemma fold_when_le r : forall a,
  fold_left (fun l x => if step_when x <? l then step_when x else l) r a <= a /\
  (forall x, In x r -> fold_left (fun l x => if step_when x <? l then step_when x else l) r a <= step_when x) /\
  (fold_left (fun l x => if step_when x <? l then step_when x else l) r a = a \/
   exists x, In x r /\ fold_left (fun l x => if step_when x <? l then step_when x else l) r a = step_when x).
Proof.
  induction r as [|y r IH]; intros a; cbn [fold_left].
  - split; [lia|]. split; [intros x []|left; reflexivity].
  - destruct (IH (if step_when y <? a then step_when y else a)) as (L & B & A).
    destruct (step_when y <? a) eqn:E; [apply Z.ltb_lt in E | apply Z.ltb_ge in E].
    + split; [lia|]. split.
      * intros x [<-|Hx]; [exact L | apply B; exact Hx].
      * right. destruct A as [A|(x & Hx & A)]; [exists y; split; [left; reflexivity | exact A]|].
        exists x. split; [right; exact Hx | exact A].
    + split; [exact L|]. split.
      * intros x [<-|Hx]; [lia | apply B; exact Hx].
      * destruct A as [A|(x & Hx & A)]; [left; exact A|]. right. exists x. split; [right; exact Hx | exact A].
Qed.

Lemma path_when_least p :
  p <> [] ->
  (forall s, In s p -> path_when p <= step_when s) /\ (exists s, In s p /\ path_when p = step_when s).
Proof.
  intros Hne. unfold path_when. destruct (rev p) as [|s r] eqn:R.
  - exfalso. apply Hne. rewrite <- (rev_involutive p), R. reflexivity.
  - destruct (fold_when_le r (step_when s)) as (L & B & A).
    assert (I : forall x, In x p <-> x = s \/ In x r).
    { intros x. rewrite (in_rev p x), R. cbn. split; intros [H|H]; auto. }
    split.
    + intros x Hx. apply I in Hx as [->|Hx]; [exact L | apply B; exact Hx].
    + destruct A as [A|(x & Hx & A)].
      * exists s. split; [apply I; left; reflexivity | exact A].
      * exists x. split; [apply I; right; exact Hx | exact A].
Qed.

(* ---- the statements of Properties_C10.v ---- *)
Lemma via_rate_product h D oldest s t w pr :
  find_price_via (build h) s t D oldest = Some (w, pr) ->
  s <> t /\ exists p, via_path (build h) D oldest s t p /\
    pc pr = t /\ (pq pr == path_product p)%Q /\
    Forall (fun st => edge_point (build h) (s_from st) (s_to st) D = Some (s_pt st)) p /\
    (forall q, via_path (build h) D oldest s t q -> path_weight D p <= path_weight D q) /\
    (forall st, In st p -> w <= step_when st) /\ (exists st, In st p /\ w = step_when st).
Proof.
  intros F. apply (find_price_via_some _ _ _ _ _ _ _ (wf_build h)) in F
    as (Hne & p & Hp & -> & -> & Hmin).
  split; [exact Hne|]. exists p. split; [exact Hp|]. split; [reflexivity|]. split.
  { cbn [pq]. rewrite Qred_correct. apply path_q_product. }
  split; [apply (spath_steps _ _ _ _ _ _ (proj1 Hp))|]. split; [exact Hmin|].
  apply path_when_least. intros ->. destruct Hp as [Hp _]. inversion Hp. contradiction.
Qed.

Lemma via_strictly_lightest h D oldest s t p :
  s <> t -> via_path (build h) D oldest s t p ->
  (forall q, via_path (build h) D oldest s t q -> path_weight D q <= path_weight D p -> q = p) ->
  exists w pr, find_price_via (build h) s t D oldest = Some (w, pr) /\ pc pr = t /\
    (pq pr == path_product p)%Q.
Proof.
  intros Hne Hp U. exists (path_when p), (mkPrice (Qred (path_q p)) t). split.
  - apply find_price_via_unique_lightest; try assumption. apply wf_build.
  - split; [reflexivity|]. cbn [pq]. rewrite Qred_correct. apply path_q_product.
Qed.
