(* Proofs about Model/Journal.v: aggregate results do not depend on input order or file layout. *)
From LedgerV Require Import Base.Prelude Base.Round Model.Amount Model.Xact Model.Journal
  Proofs.AmountProofs Proofs.XactProofs.
From Coq Require Import Qabs Permutation Lqa Setoid Morphisms.
Local Open Scope Q_scope.
Local Opaque Qred.

(* ------------------------------------------------------------ account sums *)

(* exact sum, in commodity c, of the postings of ps to exactly account acct (lots stripped) *)
Fixpoint acct_sum (ps : list post) (acct : str) (c : option comm) : Q :=
  match ps with
  | [] => 0
  | p :: ps' =>
      (if str_eqb (p_acct p) acct then match p_amt p with Some a => at_comm (strip_lot a) c | None => 0 end else 0)
      + acct_sum ps' acct c
  end.

Lemma account_balance_exact ord acct c : forall ps acc b,
  account_balance ord acct ps acc = Ok b -> den b c == den acc c + acct_sum ps acct c.
Proof.
  induction ps as [|p ps IH]; intros acc b; cbn [account_balance acct_sum].
  - intros [= <-]. ring.
  - destruct (str_eqb (p_acct p) acct).
    + destruct (p_amt p) as [a|].
      * destruct (add_or_set ord acc (strip_lot a)) as [acc'|] eqn:E; cbn [bind]; [|discriminate].
        intros H. rewrite (IH _ _ H), (add_or_set_exact _ _ _ _ c E). ring.
      * intros H. rewrite (IH _ _ H). ring.
    + intros H. rewrite (IH _ _ H). ring.
Qed.

Lemma account_balance_total ord acct : forall ps acc,
  is_sum_value acc -> exists b, account_balance ord acct ps acc = Ok b.
Proof.
  induction ps as [|p ps IH]; intros acc Hs; cbn [account_balance]; [eexists; reflexivity|].
  destruct (str_eqb (p_acct p) acct); [|apply IH; exact Hs].
  destruct (p_amt p) as [a|]; [|apply IH; exact Hs].
  destruct (add_or_set_ok ord acc (strip_lot a) Hs) as [acc' [E [Hs' _]]]. rewrite E. cbn [bind]. apply IH. exact Hs'.
Qed.

Lemma acct_sum_app ps qs acct c : acct_sum (ps ++ qs) acct c == acct_sum ps acct c + acct_sum qs acct c.
Proof. induction ps as [|p ps IH]; cbn [app acct_sum]; [ring | rewrite IH; ring]. Qed.

Lemma acct_sum_perm ps qs acct c : Permutation ps qs -> acct_sum ps acct c == acct_sum qs acct c.
Proof.
  induction 1 as [| x l l' _ IH | x y l | l l' l'' _ IH1 _ IH2]; cbn [acct_sum].
  - reflexivity.
  - rewrite IH. reflexivity.
  - ring.
  - rewrite IH1. exact IH2.
Qed.

(* the balance `bal` shows for an account is the same whatever the hash order *)
Lemma account_balance_order_free acct c ps b b' :
  account_balance false acct ps VVoid = Ok b -> account_balance true acct ps VVoid = Ok b' ->
  den b c == den b' c.
Proof.
  intros H H'. rewrite (account_balance_exact _ _ c _ _ _ H), (account_balance_exact _ _ c _ _ _ H'). reflexivity.
Qed.

(* ------------------------------------------------------------ contributions of transactions *)

(* what a transaction contributes to account a in commodity c, given how finalize judged it *)
Definition contribution (r : res outcome) (a : str) (c : option comm) : Q :=
  match r with
  | Ok (Accepted ps) => acct_sum ps a c
  | _ => 0
  end.

(* a transaction is STABLE when neither the pool (what was read before it) nor the hash order
   changes what it contributes; f is that contribution *)
Definition stable (bucket : option str) (x : list post) (f : str -> option comm -> Q) : Prop :=
  forall ord cp a c, contribution (finalize ord cp bucket x) a c == f a c.

Fixpoint total_contrib (fs : list (str -> option comm -> Q)) (a : str) (c : option comm) : Q :=
  match fs with
  | [] => 0
  | f :: fs' => f a c + total_contrib fs' a c
  end.

Lemma accepted_posts_contrib a c : forall rs,
  acct_sum (accepted_posts rs) a c == fold_right (fun r acc => contribution r a c + acc) 0 rs.
Proof.
  induction rs as [|r rs IH]; cbn [accepted_posts fold_right]; [reflexivity|].
  destruct r as [[ps|]|e]; cbn [contribution].
  - rewrite acct_sum_app, IH. reflexivity.
  - rewrite IH. ring.
  - rewrite IH. ring.
Qed.

Lemma run_journal_contrib ord bucket a c : forall xs fs pl,
  Forall2 (stable bucket) xs fs ->
  acct_sum (accepted_posts (run_journal ord bucket pl xs)) a c == total_contrib fs a c.
Proof.
  induction xs as [|x xs IH]; intros fs pl H; inversion H as [|? f ? fs' Hx Hxs]; subst; cbn [run_journal total_contrib].
  - reflexivity.
  - rewrite accepted_posts_contrib. cbn [fold_right]. rewrite <- accepted_posts_contrib.
    rewrite (IH fs' _ Hxs), (Hx ord _ a c). reflexivity.
Qed.

Lemma total_contrib_perm (l l' : list ((list post) * (str -> option comm -> Q))) a c :
  Permutation l l' -> total_contrib (map snd l) a c == total_contrib (map snd l') a c.
Proof.
  induction 1 as [| x l l' _ IH | x y l | l l' l'' _ IH1 _ IH2]; cbn [map total_contrib].
  - reflexivity.
  - rewrite IH. reflexivity.
  - ring.
  - rewrite IH1. exact IH2.
Qed.

(* reordering stable transactions changes no account's balance in any commodity *)
Theorem balances_perm_xacts ord ord' bucket
        (l l' : list ((list post) * (str -> option comm -> Q))) a c :
  (forall xf, In xf l -> stable bucket (fst xf) (snd xf)) ->
  Permutation l l' ->
  acct_sum (accepted_posts (run_journal ord bucket [] (map fst l))) a c ==
  acct_sum (accepted_posts (run_journal ord' bucket [] (map fst l'))) a c.
Proof.
  intros Hs Hp.
  assert (H1 : Forall2 (stable bucket) (map fst l) (map snd l)).
  { clear Hp. induction l as [|xf l IH]; cbn [map]; constructor.
    - apply Hs. left. reflexivity.
    - apply IH. intros y Hy. apply Hs. right. exact Hy. }
  assert (H2 : Forall2 (stable bucket) (map fst l') (map snd l')).
  { assert (Hs' : forall xf, In xf l' -> stable bucket (fst xf) (snd xf)).
    { intros xf Hi. apply Hs. apply (Permutation_in _ (Permutation_sym Hp) Hi). }
    clear Hp Hs H1. induction l' as [|xf l' IH]; cbn [map]; constructor.
    - apply Hs'. left. reflexivity.
    - apply IH. intros y Hy. apply Hs'. right. exact Hy. }
  rewrite (run_journal_contrib ord bucket a c _ _ [] H1), (run_journal_contrib ord' bucket a c _ _ [] H2).
  apply total_contrib_perm. exact Hp.
Qed.

(* an exactly balanced transaction without elided amounts is stable: it is accepted as written
   under every pool and hash order *)
Lemma exactly_balanced_stable ps :
  wf_costs ps -> ps <> [] -> all_have_amounts ps ->
  (forall ord, exists bal, scan_posts ord ps 0 VVoid None = Ok (bal, None) /\ two_entries bal = false) ->
  (forall c, bsum ps c == 0) ->
  stable None ps (acct_sum ps).
Proof.
  intros Hw Hne Ha Hscan Hz ord cp a c.
  destruct (Hscan ord) as [bal [Hs Ht]].
  rewrite (exact_balance_accepted ord cp ps bal Hw Hne Ha Hs Ht Hz). reflexivity.
Qed.

(* ------------------------------------------------------------ postings inside a transaction *)

Lemma bsum_perm ps qs c : Permutation ps qs -> bsum ps c == bsum qs c.
Proof.
  induction 1 as [| x l l' _ IH | x y l | l l' l'' _ IH1 _ IH2]; cbn [bsum].
  - reflexivity.
  - rewrite IH. reflexivity.
  - ring.
  - rewrite IH1. exact IH2.
Qed.

(* reordering the postings of an exactly balanced transaction: it stays exactly balanced and
   contributes the same amounts to every account *)
Theorem balances_perm_posts ps qs :
  Permutation ps qs ->
  (forall c, bsum ps c == 0) ->
  (forall c, bsum qs c == 0) /\ (forall a c, acct_sum ps a c == acct_sum qs a c).
Proof.
  intros Hp Hz. split.
  - intros c. rewrite <- (bsum_perm ps qs c Hp). apply Hz.
  - intros a c. apply acct_sum_perm. exact Hp.
Qed.

(* ------------------------------------------------------------ the pool *)

(* the (symbol, decimals) pairs the pool is taught by a transaction *)
Definition learned_of (p : post) : list (str * Z) :=
  match p_amt p with
  | Some a => match acomm a with
              | Some c => if akeep a then [] else [(base_sym c, aprec a)]
              | None => []
              end
  | None => []
  end.

Definition learned (xs : list (list post)) : list (str * Z) := flat_map (flat_map learned_of) xs.

Definition teach (pl : pool) (sp : str * Z) : pool := pool_learn pl (fst sp) (snd sp).

Lemma learn_posts_teach : forall ps pl, learn_posts pl ps = fold_left teach (flat_map learned_of ps) pl.
Proof.
  unfold learn_posts. induction ps as [|p ps IH]; intros pl; cbn [fold_left flat_map]; [reflexivity|].
  rewrite fold_left_app, IH. f_equal. unfold learned_of.
  destruct (p_amt p) as [a|]; [|reflexivity]. destruct (acomm a) as [c|]; [|reflexivity].
  destruct (akeep a); reflexivity.
Qed.

Lemma final_pool_teach xs : final_pool xs = fold_left teach (learned xs) [].
Proof.
  unfold final_pool, learned. generalize (@nil (str * Z)) as pl.
  induction xs as [|x xs IH]; intros pl; cbn [fold_left flat_map]; [reflexivity|].
  rewrite fold_left_app, IH, learn_posts_teach. reflexivity.
Qed.

Lemma str_eqb_sym a b : str_eqb a b = str_eqb b a.
Proof.
  destruct (str_eqb a b) eqn:E.
  - apply str_eqb_spec in E. subst. symmetry. apply str_eqb_refl.
  - destruct (str_eqb b a) eqn:E'; [|reflexivity]. apply str_eqb_spec in E'. subst.
    rewrite str_eqb_refl in E. discriminate.
Qed.

Lemma pool_get_learn pl s p s' :
  (0 <= p)%Z ->
  pool_get (pool_learn pl s p) s' = if str_eqb s s' then Z.max (pool_get pl s') p else pool_get pl s'.
Proof.
  intros Hp. induction pl as [|[k v] pl IH]; cbn [pool_learn pool_get].
  - destruct (str_eqb s s'); lia.
  - destruct (str_eqb k s) eqn:Eks.
    + apply str_eqb_spec in Eks. subst k. cbn [pool_get].
      destruct (str_eqb s s'); [destruct (Z.ltb_spec v p); lia | reflexivity].
    + cbn [pool_get]. destruct (str_eqb k s') eqn:Eks'.
      * apply str_eqb_spec in Eks'. subst s'. rewrite str_eqb_sym, Eks. reflexivity.
      * exact IH.
Qed.

Definition taught_for (s : str) (l : list (str * Z)) : list Z :=
  map snd (filter (fun sp => str_eqb (fst sp) s) l).

Lemma pool_get_teach s : forall l pl,
  Forall (fun sp => (0 <= snd sp)%Z) l ->
  pool_get (fold_left teach l pl) s = fold_left Z.max (taught_for s l) (pool_get pl s).
Proof.
  unfold taught_for. induction l as [|[k p] l IH]; intros pl Hnn; cbn [fold_left filter map fst snd]; [reflexivity|].
  inversion Hnn as [|? ? Hp Hl]; subst. cbn [snd] in Hp.
  rewrite (IH _ Hl). replace (teach pl (k, p)) with (pool_learn pl k p) by reflexivity.
  rewrite (pool_get_learn pl k p s Hp).
  destruct (str_eqb k s); cbn [map fold_left snd]; reflexivity.
Qed.

Lemma taught_for_perm s l l' : Permutation l l' -> Permutation (taught_for s l) (taught_for s l').
Proof.
  intros H. unfold taught_for. apply Permutation_map.
  induction H as [| x l l' _ IH | x y l | l l' l'' _ IH1 _ IH2]; cbn [filter].
  - constructor.
  - destruct (str_eqb (fst x) s); [constructor|]; exact IH.
  - destruct (str_eqb (fst x) s), (str_eqb (fst y) s); try apply Permutation_refl; constructor.
  - eapply Permutation_trans; eassumption.
Qed.

Lemma fold_max_perm' l l' : Permutation l l' -> forall a, fold_left Z.max l a = fold_left Z.max l' a.
Proof.
  induction 1 as [| x l l' _ IH | x y l | l l' l'' _ IH1 _ IH2]; intros a; cbn.
  - reflexivity.
  - apply IH.
  - f_equal. lia.
  - rewrite IH1. apply IH2.
Qed.

(* the display precision a commodity ends up with does not depend on the order in which the
   amounts were seen: neither on the order of the transactions ... *)
Theorem pool_order_free_xacts xs ys s :
  Forall (fun sp => (0 <= snd sp)%Z) (learned xs) ->
  Permutation xs ys ->
  pool_get (final_pool xs) s = pool_get (final_pool ys) s.
Proof.
  intros Hnn Hp. rewrite !final_pool_teach.
  assert (Hl : Permutation (learned xs) (learned ys)).
  { unfold learned. apply Permutation_flat_map. exact Hp. }
  rewrite (pool_get_teach s _ [] Hnn).
  rewrite (pool_get_teach s _ []).
  - apply fold_max_perm'. apply taught_for_perm. exact Hl.
  - apply Forall_forall. intros sp Hi. rewrite Forall_forall in Hnn. apply Hnn.
    apply (Permutation_in _ (Permutation_sym Hl) Hi).
Qed.

(* ... nor on the order of the postings inside a transaction *)
Theorem pool_order_free_posts pre x x' post s :
  Forall (fun sp => (0 <= snd sp)%Z) (learned (pre ++ x :: post)) ->
  Permutation x x' ->
  pool_get (final_pool (pre ++ x :: post)) s = pool_get (final_pool (pre ++ x' :: post)) s.
Proof.
  intros Hnn Hp. rewrite !final_pool_teach.
  assert (Hl : Permutation (learned (pre ++ x :: post)) (learned (pre ++ x' :: post))).
  { unfold learned. rewrite !flat_map_app. cbn [flat_map].
    apply Permutation_app_head. apply Permutation_app_tail. apply Permutation_flat_map. exact Hp. }
  rewrite (pool_get_teach s _ [] Hnn).
  rewrite (pool_get_teach s _ []).
  - apply fold_max_perm'. apply taught_for_perm. exact Hl.
  - apply Forall_forall. intros sp Hi. rewrite Forall_forall in Hnn. apply Hnn.
    apply (Permutation_in _ (Permutation_sym Hl) Hi).
Qed.

(* ------------------------------------------------------------ file layout *)

(* cutting a file into included files: the transactions are read in the same order *)
Theorem include_flatten_xacts xs : flat_map flatten [FInclude (map FXact xs)] = xs.
Proof.
  cbn [flat_map flatten]. rewrite app_nil_r.
  induction xs as [|x xs IH]; cbn [map flat_map flatten]; [reflexivity | rewrite IH; reflexivity].
Qed.

Theorem include_split ord bucket a b :
  process_files ord bucket [FInclude (map FXact a); FInclude (map FXact b)] =
  run_journal ord bucket [] (a ++ b).
Proof.
  unfold process_files. f_equal. cbn [flat_map].
  pose proof (include_flatten_xacts a) as Ha. pose proof (include_flatten_xacts b) as Hb.
  cbn [flat_map] in Ha, Hb. rewrite app_nil_r in Ha, Hb. rewrite Ha, Hb, app_nil_r. reflexivity.
Qed.

Theorem include_nested ord bucket a b c :
  process_files ord bucket [FInclude (map FXact a ++ [FInclude (map FXact b)] ++ map FXact c)] =
  run_journal ord bucket [] (a ++ b ++ c).
Proof.
  unfold process_files. f_equal. cbn [flat_map flatten]. rewrite app_nil_r, !flat_map_app.
  cbn [flat_map flatten]. rewrite app_nil_r.
  assert (H : forall l, flat_map flatten (map FXact l) = l).
  { induction l as [|x l IH]; cbn [map flat_map flatten]; [reflexivity | rewrite IH; reflexivity]. }
  rewrite !H. reflexivity.
Qed.
