(* Proofs about Model/Assert.v (balance assertions and assignments). *)
From LedgerV Require Import Base.Prelude Base.Round Model.Amount Model.Xact Model.Assert
  Proofs.AmountProofs Proofs.XactProofs.
From Coq Require Import Qabs Permutation Lqa Setoid.
Local Open Scope Q_scope.
Local Opaque Qred.

(* ---- the running balance of an account: exactly its own postings, in file order ---- *)
Fixpoint running (hist : list apost) (acct : str) (real_only : bool) (c : option comm) : Q :=
  match hist with
  | [] => 0
  | h :: hist' =>
      (if str_eqb (a_acct h) acct && (negb real_only || negb (a_virtual h)) then at_comm (a_amt h) c else 0)
      + running hist' acct real_only c
  end.

Lemma acct_total_exact ord acct ro c : forall hist acc v,
  acct_total ord hist acct ro acc = Ok v -> den v c == den acc c + running hist acct ro c.
Proof.
  induction hist as [|h hist IH]; intros acc v; cbn [acct_total running].
  - intros [= <-]. ring.
  - destruct (str_eqb (a_acct h) acct && (negb ro || negb (a_virtual h))).
    + destruct (add_or_set ord acc (a_amt h)) as [acc'|] eqn:E; cbn [bind]; [|discriminate].
      intros H. rewrite (IH _ _ H), (add_or_set_exact _ _ _ _ c E). ring.
    + intros H. rewrite (IH _ _ H). ring.
Qed.

Lemma acct_total_sum_value ord acct ro : forall hist acc v,
  is_sum_value acc -> sum_value_nodup acc ->
  acct_total ord hist acct ro acc = Ok v -> is_sum_value v /\ sum_value_nodup v.
Proof.
  induction hist as [|h hist IH]; intros acc v Hs Hn; cbn [acct_total].
  - intros [= <-]. split; assumption.
  - destruct (str_eqb (a_acct h) acct && (negb ro || negb (a_virtual h))); [|apply IH; assumption].
    destruct (add_or_set_ok ord acc (a_amt h) Hs) as [acc' [E [Hs' _]]]. rewrite E. cbn [bind].
    apply IH; [exact Hs' | apply (add_or_set_nodup _ _ _ _ Hn Hs E)].
Qed.

(* the running balance depends only on postings to exactly this account: a posting to any
   other account (a sub-account in particular) contributes nothing *)
Lemma running_other_account hist acct ro c h :
  str_eqb (a_acct h) acct = false -> running (hist ++ [h]) acct ro c == running hist acct ro c.
Proof.
  intros Hne. induction hist as [|x hist IH]; cbn [app running].
  - rewrite Hne. cbn. ring.
  - rewrite IH. ring.
Qed.

(* ---- balances under subtraction keep distinct keys ---- *)
Lemma keys_erase_subset k b x : In x (keys (bal_erase k b)) -> In x (keys b).
Proof.
  induction b as [|y b IH]; cbn [bal_erase keys map]; [contradiction|].
  destruct (comm_eqb (acomm y) k); cbn [map In]; [intros H; right; exact H|].
  intros [H|H]; [left; exact H | right; apply IH; exact H].
Qed.

Lemma nodup_erase k b : nodup_keys b -> nodup_keys (bal_erase k b).
Proof.
  unfold nodup_keys. induction b as [|y b IH]; cbn [bal_erase keys map]; intros Hn; [constructor|].
  inversion Hn as [|? ? Hnotin Hn']; subst.
  destruct (comm_eqb (acomm y) k); [exact Hn'|]. cbn [map]. constructor.
  - intros Hi. apply Hnotin. apply (keys_erase_subset k b _ Hi).
  - apply IH. exact Hn'.
Qed.

Lemma bal_sub_amt_nodup ord b a b' :
  nodup_keys b -> bal_sub_amt ord b a = Ok b' -> nodup_keys b'.
Proof.
  unfold bal_sub_amt. intros Hn. destruct (is_realzero a); [intros [= <-]; exact Hn|].
  destruct (bal_find (acomm a) b) as [x|] eqn:Hf.
  - destruct (amt_sub x a) as [s|] eqn:Hs; cbn [bind]; [|discriminate].
    destruct (is_realzero s); intros [= <-].
    + apply nodup_erase. exact Hn.
    + unfold nodup_keys. rewrite keys_replace; [exact Hn|].
      rewrite (amt_sub_comm_l _ _ _ Hs). apply (bal_find_some _ _ _ Hf).
  - intros [= <-]. apply nodup_insert; [exact Hn|].
    cbn [amt_neg acomm]. apply bal_find_none_notin. exact Hf.
Qed.

Lemma bal_sub_nodup ord : forall c b b', nodup_keys b -> bal_sub ord b c = Ok b' -> nodup_keys b'.
Proof.
  unfold bal_sub. induction c as [|x c IH]; intros b b' Hn; cbn [bal_fold].
  - intros [= <-]. exact Hn.
  - destruct (bal_sub_amt ord b x) as [b1|] eqn:E; cbn [bind]; [|discriminate].
    apply IH. apply (bal_sub_amt_nodup _ _ _ _ Hn E).
Qed.

(* ---- which errors the pieces can raise ---- *)
Lemma bal_sub_amt_ok ord b a : exists b', bal_sub_amt ord b a = Ok b'.
Proof.
  unfold bal_sub_amt. destruct (is_realzero a); [eexists; reflexivity|].
  destruct (bal_find (acomm a) b) as [x|] eqn:Hf; [|eexists; reflexivity].
  assert (Hs : exists s, amt_sub x a = Ok s).
  { unfold amt_sub, diff_comm. rewrite (bal_find_some _ _ _ Hf), andb_false_r. eexists; reflexivity. }
  destruct Hs as [s Hs]. rewrite Hs. cbn [bind]. destruct (is_realzero s); eexists; reflexivity.
Qed.

Lemma bal_sub_amt_error ord b a e : bal_sub_amt ord b a = Err e -> False.
Proof. intros H. destruct (bal_sub_amt_ok ord b a) as [b' Hb]. rewrite Hb in H. discriminate. Qed.

Lemma bal_sub_error ord : forall c b e, bal_sub ord b c = Err e -> False.
Proof.
  unfold bal_sub. induction c as [|x c IH]; intros b e; cbn [bal_fold]; [discriminate|].
  destruct (bal_sub_amt_ok ord b x) as [b1 Hb]. rewrite Hb. cbn [bind]. apply IH.
Qed.

Lemma sub_earlier_error ord acct virt : forall earlier diff e,
  sub_earlier ord earlier acct virt diff = Err e -> e = ENullAmt.
Proof.
  induction earlier as [|p rest IH]; intros diff e; cbn [sub_earlier]; [discriminate|].
  destruct (str_eqb (p_acct p) acct && (virt || negb (is_virtual p))); [|apply IH].
  destruct (p_amt p) as [a|]; [|intros [= <-]; reflexivity].
  destruct (bal_sub_amt_ok ord diff (strip a)) as [d1 Hd]. rewrite Hd. cbn [bind]. apply IH.
Qed.

Lemma acct_total_total ord : forall hist acct ro acc,
  is_sum_value acc -> exists v, acct_total ord hist acct ro acc = Ok v.
Proof.
  induction hist as [|h hist IH]; intros acct ro acc Hs; cbn [acct_total]; [eexists; reflexivity|].
  destruct (str_eqb (a_acct h) acct && (negb ro || negb (a_virtual h))); [|apply IH; exact Hs].
  destruct (add_or_set_ok ord acc (a_amt h) Hs) as [acc' [E [Hs' _]]]. rewrite E. cbn [bind]. apply IH. exact Hs'.
Qed.

(* ---- earlier postings of the same transaction ---- *)
Fixpoint earlier_sum (earlier : list post) (acct : str) (virt : bool) (c : option comm) : Q :=
  match earlier with
  | [] => 0
  | p :: rest =>
      (if str_eqb (p_acct p) acct && (virt || negb (is_virtual p))
       then match p_amt p with Some a => at_comm (strip a) c | None => 0 end else 0)
      + earlier_sum rest acct virt c
  end.

Lemma sub_earlier_exact ord acct virt c : forall earlier diff d,
  sub_earlier ord earlier acct virt diff = Ok d ->
  bden d c == bden diff c - earlier_sum earlier acct virt c.
Proof.
  induction earlier as [|p rest IH]; intros diff d; cbn [sub_earlier earlier_sum].
  - intros [= <-]. ring.
  - destruct (str_eqb (p_acct p) acct && (virt || negb (is_virtual p))).
    + destruct (p_amt p) as [a|]; [|discriminate].
      destruct (bal_sub_amt ord diff (strip a)) as [d1|] eqn:E; cbn [bind]; [|discriminate].
      intros H. rewrite (IH _ _ H), (bal_sub_amt_exact _ _ _ _ c E). ring.
    + intros H. rewrite (IH _ _ H). ring.
Qed.

Lemma sub_earlier_nodup ord acct virt : forall earlier diff d,
  nodup_keys diff -> sub_earlier ord earlier acct virt diff = Ok d -> nodup_keys d.
Proof.
  induction earlier as [|p rest IH]; intros diff d Hn; cbn [sub_earlier].
  - intros [= <-]. exact Hn.
  - destruct (str_eqb (p_acct p) acct && (virt || negb (is_virtual p))); [|apply IH; exact Hn].
    destruct (p_amt p) as [a|]; [|discriminate].
    destruct (bal_sub_amt ord diff (strip a)) as [d1|] eqn:E; cbn [bind]; [|discriminate].
    apply IH. apply (bal_sub_amt_nodup _ _ _ _ Hn E).
Qed.

(* ---- restricting the difference to the asserted commodity ---- *)
Lemma restrict_exact d amt k :
  nodup_keys d -> acomm amt = Some k -> bden (restrict d amt) (Some k) == bden d (Some k).
Proof.
  intros Hn Hk. unfold restrict. rewrite Hk.
  destruct (bal_find (Some k) d) as [x|] eqn:Hf.
  - pose proof (bal_find_some _ _ _ Hf) as Hx. pose proof (bal_find_some_in _ _ _ Hf) as Hi.
    cbn [bden]. rewrite Hx. apply comm_eqb_eq in Hx. rewrite <- Hx.
    rewrite (bden_entry d x Hn Hi). ring.
  - cbn [bden]. symmetry. apply bden_notin. apply bal_find_none_notin. exact Hf.
Qed.

Lemma restrict_nodup d amt : nodup_keys d -> nodup_keys (restrict d amt).
Proof.
  intros Hn. unfold restrict. destruct (acomm amt); [|exact Hn].
  destruct (bal_find (Some c) d); unfold nodup_keys; cbn; [constructor; [intros []|constructor] | constructor].
Qed.

Lemma restrict_other d amt k c :
  acomm amt = Some k -> comm_eqb (Some k) c = false -> bden (restrict d amt) c == 0.
Proof.
  intros Hk Hc. unfold restrict. rewrite Hk.
  destruct (bal_find (Some k) d) as [x|] eqn:Hf; [|reflexivity].
  cbn [bden]. rewrite (comm_eqb_trans_l (Some k) (acomm x) c (bal_find_some _ _ _ Hf)), Hc. ring.
Qed.

(* a display-zero balance with distinct keys holds less than one unit of every commodity;
   an exactly zero one is display-zero *)
Lemma bal_is_zero_lt_unit cp b c :
  (forall k, 0 <= cp k <= 230)%Z -> nodup_keys b -> bal_is_zero cp b = true -> Qabs (bden b c) < 1.
Proof.
  intros Hcp Hn Hz. apply (v_is_zero_lt_unit cp (VBal b) c Hcp I Hn Hz).
Qed.

Lemma bal_zero_is_zero cp b :
  nodup_keys b -> (forall c, bden b c == 0) -> bal_is_zero cp b = true.
Proof. intros Hn Hd. apply (v_zero_den_is_zero cp (VBal b) I Hn Hd). Qed.

(* ---- the difference an assertion / assignment is decided on ---- *)
(* asserted amount minus the account's running balance minus the earlier postings of this
   transaction, in the asserted commodity k *)
Definition expected_diff (hist : list apost) (earlier : list post) (p : post) (amt : amount) (k : comm) : Q :=
  aq amt - running hist (p_acct p) (negb (is_virtual p)) (Some k)
         - earlier_sum earlier (p_acct p) (is_virtual p) (Some k).

Lemma diff_before_posting ord hist earlier p amt k total d1 d2 :
  acomm amt = Some k ->
  acct_total ord hist (p_acct p) (negb (is_virtual p)) VVoid = Ok total ->
  (match total with
   | VAmt t => bal_sub_amt ord (bal_of_amt amt) t
   | VBal t => bal_sub ord (bal_of_amt amt) t
   | _ => Ok (bal_of_amt amt)
   end) = Ok d1 ->
  sub_earlier ord earlier (p_acct p) (is_virtual p) d1 = Ok d2 ->
  nodup_keys d2 /\ bden (restrict d2 amt) (Some k) == expected_diff hist earlier p amt k.
Proof.
  intros Hk Ht Hd1 Hd2.
  destruct (acct_total_sum_value ord _ _ _ VVoid _ I I Ht) as [Hsv Hnv].
  assert (Hrun : running hist (p_acct p) (negb (is_virtual p)) (Some k) == den total (Some k)).
  { rewrite (acct_total_exact ord (p_acct p) (negb (is_virtual p)) (Some k) _ _ _ Ht). cbn [den]. ring. }
  assert (Hn1 : nodup_keys d1 /\ bden d1 (Some k) == aq amt - running hist (p_acct p) (negb (is_virtual p)) (Some k)).
  { rewrite Hrun. destruct total as [| ? | ? | t | t]; cbn [is_sum_value] in Hsv; try contradiction; cbn [den].
    - injection Hd1 as <-. split; [apply bal_of_amt_nodup|].
      rewrite bden_of_amt. unfold at_comm. rewrite Hk, comm_eqb_refl. ring.
    - split; [apply (bal_sub_amt_nodup _ _ _ _ (bal_of_amt_nodup amt) Hd1)|].
      rewrite (bal_sub_amt_exact _ _ _ _ (Some k) Hd1), bden_of_amt.
      unfold at_comm at 1. rewrite Hk, comm_eqb_refl. ring.
    - split; [apply (bal_sub_nodup _ _ _ _ (bal_of_amt_nodup amt) Hd1)|].
      rewrite (bal_sub_exact _ (Some k) _ _ _ Hd1), bden_of_amt.
      unfold at_comm. rewrite Hk, comm_eqb_refl. ring. }
  destruct Hn1 as [Hn1 He1].
  pose proof (sub_earlier_nodup ord _ _ _ _ _ Hn1 Hd2) as Hn2. split; [exact Hn2|].
  rewrite (restrict_exact d2 amt k Hn2 Hk), (sub_earlier_exact ord _ _ (Some k) _ _ _ Hd2), He1.
  unfold expected_diff. ring.
Qed.

(* own contribution of the asserting posting, in the asserted commodity *)
Definition own_part (a amt : amount) (k : comm) : Q :=
  if negb (has_comm amt) || comm_eqb (acomm (strip a)) (acomm amt) then aq a else 0.

(* ASSERTION: a posting `acct  a = amt` (amt in commodity k) is accepted without change when
   running + earlier + own - asserted is display-zero, and otherwise (unless --permissive) it
   is the error "Balance assertion off by"; in both cases the decision is taken on a balance
   whose k-entry is exactly  asserted - running - earlier - own. *)
Theorem assertion_spec ord cp permissive hist earlier w a amt k r :
  w_assigned w = Some amt -> p_amt (w_post w) = Some a -> acomm amt = Some k ->
  resolve_assigned ord cp permissive hist earlier w = r ->
  (exists e, r = Err e /\ e <> EAssertOff) \/
  exists d4, nodup_keys d4 /\
    bden d4 (Some k) == expected_diff hist earlier (w_post w) amt k - own_part a amt k /\
    (forall c, comm_eqb (Some k) c = false -> bden d4 c == 0) /\
    r = if negb permissive && negb (bal_is_zero cp d4) then Err EAssertOff else Ok (w_post w).
Proof.
  intros Hw Ha Hk Hr. unfold resolve_assigned in Hr. rewrite Hw in Hr.
  set (p := w_post w) in *.
  destruct (acct_total ord hist (p_acct p) (negb (is_virtual p)) VVoid) as [total|e] eqn:Ht; cbn [bind] in Hr;
    [|left; exists e; split; [symmetry; exact Hr|]].
  2:{ (* acct_total never fails *)
      destruct (acct_total_total ord hist (p_acct p) (negb (is_virtual p)) VVoid I) as [v Hv].
      rewrite Hv in Ht. discriminate. }
  match type of Hr with (do d1 <- ?X; _) = _ => destruct X as [d1|e] eqn:Hd1 end; cbn [bind] in Hr;
    [|left; exists e; split; [symmetry; exact Hr|]].
  2:{ intros ->. (* subtracting never raises EAssertOff *)
      destruct total as [| ? | ? | t | t]; try discriminate.
      - exact (bal_sub_amt_error _ _ _ _ Hd1).
      - exact (bal_sub_error _ _ _ _ Hd1). }
  destruct (sub_earlier ord earlier (p_acct p) (is_virtual p) d1) as [d2|e] eqn:Hd2; cbn [bind] in Hr;
    [|left; exists e; split; [symmetry; exact Hr|]].
  2:{ intros ->. apply sub_earlier_error in Hd2. discriminate Hd2. }
  rewrite Ha in Hr.
  destruct (diff_before_posting ord hist earlier p amt k total d1 d2 Hk Ht Hd1 Hd2) as [Hn2 He].
  pose proof (restrict_nodup d2 amt Hn2) as Hn3.
  unfold own_part.
  destruct (negb (has_comm amt) || comm_eqb (acomm (strip a)) (acomm amt)) eqn:Hown; cbn [bind] in Hr.
  - destruct (bal_sub_amt ord (restrict d2 amt) (strip a)) as [d4|e] eqn:Hd4; cbn [bind] in Hr.
    + right. exists d4. split; [apply (bal_sub_amt_nodup _ _ _ _ Hn3 Hd4)|]. split; [|split; [|symmetry; exact Hr]].
      * rewrite (bal_sub_amt_exact _ _ _ _ (Some k) Hd4), He.
        unfold has_comm in Hown. rewrite Hk in Hown. cbn [negb orb] in Hown.
        unfold at_comm. rewrite (comm_eqb_trans_l (Some k) (acomm (strip a)) (Some k) Hown), comm_eqb_refl.
        cbn [strip aq]. ring.
      * intros c Hc. rewrite (bal_sub_amt_exact _ _ _ _ c Hd4), (restrict_other d2 amt k c Hk Hc).
        unfold has_comm in Hown. rewrite Hk in Hown. cbn [negb orb] in Hown.
        unfold at_comm. rewrite (comm_eqb_trans_l (Some k) (acomm (strip a)) c Hown), Hc. ring.
    + left. exists e. split; [symmetry; exact Hr|]. intros ->. exact (bal_sub_amt_error _ _ _ _ Hd4).
  - right. exists (restrict d2 amt). split; [exact Hn3|]. split; [|split; [|symmetry; exact Hr]].
    + rewrite He. ring.
    + intros c Hc. apply (restrict_other d2 amt k c Hk Hc).
Qed.

(* ASSIGNMENT: a posting with only `= amt` receives exactly  asserted - running - earlier
   (in amt's commodity), or the zero of that commodity when that difference displays as zero;
   --permissive plays no role *)
Theorem assignment_spec ord cp permissive hist earlier w amt k p' :
  w_assigned w = Some amt -> p_amt (w_post w) = None -> acomm amt = Some k ->
  resolve_assigned ord cp permissive hist earlier w = Ok p' ->
  exists x, p_amt p' = Some x /\ p_acct p' = p_acct (w_post w) /\ p_kind p' = p_kind (w_post w) /\
    ((aq x == expected_diff hist earlier (w_post w) amt k /\ is_zero cp x = false) \/
     (aq x == 0 /\ acomm x = Some k /\
      ((forall c0 : comm, (0 <= cp c0 <= 230)%Z) -> Qabs (expected_diff hist earlier (w_post w) amt k) < 1))).
Proof.
  intros Hw Ha Hk Hr. unfold resolve_assigned in Hr. rewrite Hw in Hr.
  set (p := w_post w) in *.
  destruct (acct_total ord hist (p_acct p) (negb (is_virtual p)) VVoid) as [total|] eqn:Ht; cbn [bind] in Hr; [|discriminate].
  match type of Hr with (do d1 <- ?X; _) = _ => destruct X as [d1|] eqn:Hd1 end; cbn [bind] in Hr; [|discriminate].
  destruct (sub_earlier ord earlier (p_acct p) (is_virtual p) d1) as [d2|] eqn:Hd2; cbn [bind] in Hr; [|discriminate].
  rewrite Ha in Hr.
  destruct (diff_before_posting ord hist earlier p amt k total d1 d2 Hk Ht Hd1 Hd2) as [Hn2 He].
  pose proof (restrict_nodup d2 amt Hn2) as Hn3.
  destruct (bal_is_zero cp (restrict d2 amt)) eqn:Hz.
  - injection Hr as <-. cbn [p_amt p_acct p_kind]. eexists. split; [reflexivity|]. split; [reflexivity|]. split; [reflexivity|].
    right. split; [reflexivity|]. split; [exact Hk|]. intros Hcp.
    rewrite <- He. apply (bal_is_zero_lt_unit cp _ (Some k) Hcp Hn3 Hz).
  - destruct (restrict d2 amt) as [|x [|y l]] eqn:Er; try discriminate.
    injection Hr as <-. cbn [p_amt p_acct p_kind]. exists x. split; [reflexivity|]. split; [reflexivity|]. split; [reflexivity|].
    left. cbn [bal_is_zero forallb] in Hz. rewrite andb_true_r in Hz. split; [|exact Hz].
    rewrite <- He. cbn [bden].
    (* the single entry is keyed k *)
    unfold restrict in Er. rewrite Hk in Er.
    destruct (bal_find (Some k) d2) as [x'|] eqn:Hf; [|discriminate]. injection Er as <-.
    rewrite (bal_find_some _ _ _ Hf). ring.
Qed.

(* --permissive: assertions never fail, everything else is unchanged *)
Theorem permissive_skips ord cp hist earlier w :
  resolve_assigned ord cp true hist earlier w <> Err EAssertOff /\
  (forall p, resolve_assigned ord cp false hist earlier w = Ok p ->
             resolve_assigned ord cp true hist earlier w = Ok p) /\
  (p_amt (w_post w) = None ->
   resolve_assigned ord cp true hist earlier w = resolve_assigned ord cp false hist earlier w).
Proof.
  unfold resolve_assigned. destruct (w_assigned w) as [amt|];
    [|split; [discriminate | split; [auto | reflexivity]]].
  set (p := w_post w).
  destruct (acct_total ord hist (p_acct p) (negb (is_virtual p)) VVoid) as [total|e] eqn:Ht; cbn [bind].
  2:{ destruct (acct_total_total ord hist (p_acct p) (negb (is_virtual p)) VVoid I) as [v Hv]. rewrite Hv in Ht. discriminate. }
  match goal with |- context [do d1 <- ?X; _] => destruct X as [d1|e] eqn:Hd1 end; cbn [bind].
  2:{ exfalso. destruct total as [| ? | ? | t | t]; try discriminate.
      - exact (bal_sub_amt_error _ _ _ _ Hd1).
      - exact (bal_sub_error _ _ _ _ Hd1). }
  destruct (sub_earlier ord earlier (p_acct p) (is_virtual p) d1) as [d2|e] eqn:Hd2; cbn [bind].
  2:{ apply sub_earlier_error in Hd2. subst e.
      split; [discriminate | split; [intros q Hq; discriminate Hq | reflexivity]]. }
  destruct (p_amt p) as [a|].
  - destruct (if negb (has_comm amt) || comm_eqb (acomm (strip a)) (acomm amt)
              then bal_sub_amt ord (restrict d2 amt) (strip a) else Ok (restrict d2 amt)) as [d4|e] eqn:Hd4; cbn [bind].
    + cbn [negb andb]. split; [discriminate | split; [|intros H; discriminate H]].
      intros q. destruct (bal_is_zero cp d4); cbn [negb andb]; [auto | intros Hq; discriminate Hq].
    + exfalso. destruct (negb (has_comm amt) || comm_eqb (acomm (strip a)) (acomm amt)); [|discriminate].
      exact (bal_sub_amt_error _ _ _ _ Hd4).
  - split; [|split; [auto | reflexivity]].
    destruct (bal_is_zero cp (restrict d2 amt)); [discriminate|].
    destruct (restrict d2 amt) as [|x [|y l]]; discriminate.
Qed.

(* ---- which postings an assertion counts: on a real posting only the real ones, on a virtual one all ---- *)
Lemma acct_total_real_only_ignores_virtual ord acct : forall hist acc,
  acct_total ord hist acct true acc =
  acct_total ord (filter (fun h => negb (a_virtual h)) hist) acct true acc.
Proof.
  induction hist as [|h hist IH]; intros acc; cbn [acct_total filter]; [reflexivity|].
  destruct (a_virtual h) eqn:Hv; cbn [negb].
  - rewrite andb_false_r. apply IH.
  - cbn [acct_total]. rewrite Hv. cbn [negb]. rewrite !orb_true_r, !andb_true_r.
    destruct (str_eqb (a_acct h) acct); [|apply IH].
    destruct (add_or_set ord acc (a_amt h)) as [acc'|e]; cbn [bind]; [apply IH | reflexivity].
Qed.

(* ---- the layout of the file plays no part: a journal read in two stretches (an included file, a second -f file)
   is the journal of the concatenation, the pool and the account histories carried over ---- *)
Fixpoint state_after (ord permissive : bool) (pl : pool) (hist : list apost) (xs : list (list wpost)) : pool * list apost :=
  match xs with
  | [] => (pl, hist)
  | x :: xs' =>
      let (r, pl') := resolve_posts ord permissive pl hist [] x in
      match r with
      | Err _ => state_after ord permissive pl' hist xs'
      | Ok ps =>
          match finalize ord (cp_of pl') None ps with
          | Ok (Accepted ps') => state_after ord permissive pl' (hist ++ posts_to_history ps') xs'
          | _ => state_after ord permissive pl' hist xs'
          end
      end
  end.

Lemma run_journal_a_app ord permissive : forall xs ys pl hist,
  run_journal_a ord permissive pl hist (xs ++ ys) =
  run_journal_a ord permissive pl hist xs ++
  (let (pl', hist') := state_after ord permissive pl hist xs in run_journal_a ord permissive pl' hist' ys).
Proof.
  induction xs as [|x xs IH]; intros ys pl hist; cbn [app run_journal_a state_after].
  - reflexivity.
  - destruct (resolve_posts ord permissive pl hist [] x) as [r pl'].
    destruct r as [ps|e].
    + destruct (finalize ord (cp_of pl') None ps) as [[ps'|]|e]; cbn [app]; f_equal; apply IH.
    + cbn [app]. f_equal. apply IH.
Qed.

(* ---- automated transactions ---- *)
Lemma run_journal_x_no_rules ord permissive : forall xs pl hist,
  run_journal_x (fun _ _ => []) ord permissive pl hist xs = run_journal_a ord permissive pl hist xs.
Proof.
  induction xs as [|x xs IH]; intros pl hist; cbn [run_journal_x run_journal_a]; [reflexivity|].
  destruct (resolve_posts ord permissive pl hist [] x) as [r pl'].
  destruct r as [ps|e]; [|f_equal; apply IH].
  destruct (finalize ord (cp_of pl') None ps) as [[ps'|]|e]; cbn zeta; rewrite ?app_nil_r; f_equal; apply IH.
Qed.

Lemma auto_ext_no_rules cp ps : auto_ext [] cp ps = [].
Proof. reflexivity. Qed.

Lemma running_app h1 h2 acct ro c : running (h1 ++ h2) acct ro c == running h1 acct ro c + running h2 acct ro c.
Proof.
  induction h1 as [|h h1 IH]; cbn [app running]; [ring|]. rewrite IH. ring.
Qed.

Lemma posts_to_history_app ps qs : posts_to_history (ps ++ qs) = posts_to_history ps ++ posts_to_history qs.
Proof.
  unfold posts_to_history. induction ps as [|p ps IH]; cbn [app fold_right]; [reflexivity|].
  rewrite IH. destruct (p_amt p); reflexivity.
Qed.

(* the balance a later assertion is judged on holds what the rules added, posting by posting *)
Theorem generated_postings_reach_their_accounts hist ps gen acct ro c :
  running (hist ++ posts_to_history (ps ++ gen)) acct ro c ==
  running (hist ++ posts_to_history ps) acct ro c + running (posts_to_history gen) acct ro c.
Proof. rewrite posts_to_history_app, app_assoc, running_app. reflexivity. Qed.

(* and a generated posting to the account contributes its amount (a virtual one only where virtual postings count) *)
Lemma running_one_generated acct k a c ro :
  running (posts_to_history [mkPost acct k (Some a) None None false true false]) acct ro c ==
  if negb ro || negb (is_virtual (mkPost acct k (Some a) None None false true false)) then at_comm (strip a) c else 0.
Proof.
  cbn [posts_to_history fold_right p_amt running a_acct a_virtual a_amt p_acct]. rewrite str_eqb_refl. cbn [andb].
  destruct (negb ro || _); ring.
Qed.
