(* Proofs about the tokenizer model Model/ExprLex.v *)
From LedgerV Require Import Base.Prelude Base.Round Model.Amount Model.AmountText Model.Expr Model.ExprLex Gen.TokenWords.
Local Open Scope Z_scope.

(* ---- white space in front of a token is skipped (peek_next_nonws) ---- *)
Lemma take_while_space_app : forall ws s, forallb is_space ws = true ->
  snd (take_while is_space (ws ++ s)) = snd (take_while is_space s).
Proof.
  induction ws as [|c ws IH]; intros s H; [reflexivity|].
  cbn [forallb] in H. apply andb_true_iff in H. destruct H as [Hc Hw].
  cbn [app take_while]. rewrite Hc.
  specialize (IH s Hw). destruct (take_while is_space (ws ++ s)). exact IH.
Qed.

Lemma next_tok_blanks : forall c ws s, forallb is_space ws = true ->
  next_tok c (ws ++ s) = next_tok c s.
Proof.
  intros c ws s H. unfold next_tok, skip_ws. rewrite (take_while_space_app ws s H). reflexivity.
Qed.

Lemma lex_fuel_blanks : forall n c ws s, forallb is_space ws = true ->
  lex_fuel n c (ws ++ s) = lex_fuel n c s.
Proof.
  intros n c ws s H. destruct n; [reflexivity|]. cbn [lex_fuel]. rewrite (next_tok_blanks c ws s H). reflexivity.
Qed.

(* ---- more fuel never changes a result that did not run out of fuel ---- *)
Lemma lex_fuel_mono : forall n c s ts e, lex_fuel n c s = (ts, e) -> e <> Some EOutOfFuel ->
  forall m, (n <= m)%nat -> lex_fuel m c s = (ts, e).
Proof.
  induction n as [|n IH]; intros c s ts e H Hne m Hm.
  - cbn in H. inversion H; subst. congruence.
  - destruct m as [|m]; [lia|]. cbn [lex_fuel] in *.
    destruct (next_tok c s) as [[[t r]|]|e0]; try exact H.
    destruct (lex_fuel n (ctx_after t) r) as [ts1 e1] eqn:E.
    inversion H; subst.
    rewrite (IH _ _ _ _ E Hne m) by lia. reflexivity.
Qed.

Lemma lex_leading_blanks : forall ws s ts, forallb is_space ws = true ->
  lex s = Ok ts -> lex (ws ++ s) = Ok ts.
Proof.
  intros ws s ts H. unfold lex, lex_prefix.
  destruct (lex_fuel (S (length s)) false s) as [ts0 e0] eqn:E.
  destruct e0; [discriminate|]. intro H1. inversion H1; subst.
  rewrite lex_fuel_blanks by exact H.
  rewrite (lex_fuel_mono _ _ _ _ _ E) ; [reflexivity|discriminate|].
  rewrite app_length. lia.
Qed.

(* ---- the tokens with a fixed spelling: every operator spelling, the word operators, true/false ---- *)
Inductive ftok :=
| FAmp | FAmpAmp | FAnd | FBar | FBarBar | FOr | FLP | FRP | FBang | FNot | FNe | FMinus | FArrow | FPlus | FStar
| FQuery | FColon | FSlash | FDiv | FAssign | FEq | FLt | FLe | FGt | FGe | FComma | FSemi | FIf | FElse | FTrue | FFalse.

Definition ftext (f : ftok) : str :=
  match f with
  | FAmp => [38] | FAmpAmp => [38; 38] | FAnd => [97; 110; 100]
  | FBar => [124] | FBarBar => [124; 124] | FOr => [111; 114]
  | FLP => [40] | FRP => [41] | FBang => [33] | FNot => [110; 111; 116] | FNe => [33; 61]
  | FMinus => [45] | FArrow => [45; 62] | FPlus => [43] | FStar => [42] | FQuery => [63] | FColon => [58]
  | FSlash => [47] | FDiv => [100; 105; 118] | FAssign => [61] | FEq => [61; 61]
  | FLt => [60] | FLe => [60; 61] | FGt => [62] | FGe => [62; 61] | FComma => [44] | FSemi => [59]
  | FIf => [105; 102] | FElse => [101; 108; 115; 101] | FTrue => [116; 114; 117; 101] | FFalse => [102; 97; 108; 115; 101]
  end.

Definition fden (f : ftok) : tok :=
  match f with
  | FAmp | FAmpAmp | FAnd => TAnd | FBar | FBarBar | FOr => TOr
  | FLP => TLParen | FRP => TRParen | FBang | FNot => TExclam | FNe => TNequal
  | FMinus => TMinus | FArrow => TArrow | FPlus => TPlus | FStar => TStar | FQuery => TQuery | FColon => TColon
  | FSlash => TSlash | FDiv => TKwDiv | FAssign => TAssign | FEq => TEqual
  | FLt => TLess | FLe => TLessEq | FGt => TGreater | FGe => TGreaterEq | FComma => TComma | FSemi => TSemi
  | FIf => TKwIf | FElse => TKwElse | FTrue => TVal (VBool true) | FFalse => TVal (VBool false)
  end.

(* the spelling: each token followed by k+1 blanks *)
Fixpoint fspell (l : list (ftok * nat)) : str :=
  match l with
  | [] => []
  | (f, k) :: l' => ftext f ++ repeat 32 (S k) ++ fspell l'
  end.

(* `/` is the operator only where the parser reads in operator context: behind a complete term *)
Fixpoint slash_ok (c : bool) (l : list (ftok * nat)) : bool :=
  match l with
  | [] => true
  | (f, _) :: l' => (match f with FSlash => c | _ => true end) && slash_ok (ctx_after (fden f)) l'
  end.

Lemma next_tok_fixed : forall f c k r, (match f with FSlash => c | _ => true end) = true ->
  next_tok c (ftext f ++ repeat 32 (S k) ++ r) = Ok (Some (fden f, repeat 32 (S k) ++ r)).
Proof.
  intros f c k r H. destruct f; try (cbn in H; subst c); reflexivity.
Qed.

Lemma lex_fuel_fixed : forall l c n, slash_ok c l = true -> (length l < n)%nat ->
  lex_fuel n c (fspell l) = (map (fun p => fden (fst p)) l, None).
Proof.
  induction l as [|[f k] l IH]; intros c n H Hn.
  - destruct n; [cbn in Hn; lia|]. reflexivity.
  - destruct n; [cbn in Hn; lia|].
    cbn [slash_ok] in H. apply andb_true_iff in H. destruct H as [H1 H2].
    cbn [fspell lex_fuel]. rewrite (next_tok_fixed f c k (fspell l) H1).
    replace (repeat 32 (S k) ++ fspell l) with (repeat 32 (S k) ++ fspell l) by reflexivity.
    rewrite lex_fuel_blanks.
    + rewrite (IH (ctx_after (fden f)) n H2) by (cbn in Hn; lia). reflexivity.
    + clear. induction k; [reflexivity|]. cbn [repeat forallb]. cbn [repeat forallb] in IHk. rewrite IHk. reflexivity.
Qed.

Lemma fspell_length : forall l, (length l <= length (fspell l))%nat.
Proof.
  induction l as [|[f k] l IH]; [cbn; lia|].
  cbn [fspell length]. rewrite !app_length, repeat_length. lia.
Qed.

Lemma lex_round_trip_fixed_lemma : forall l, slash_ok false l = true ->
  lex (fspell l) = Ok (map (fun p => fden (fst p)) l).
Proof.
  intros l H. unfold lex, lex_prefix.
  rewrite (lex_fuel_fixed l false _ H); [reflexivity|].
  pose proof (fspell_length l). lia.
Qed.

(* the word table read from token.cc is the one the round trip relies on: every word operator and both booleans *)
Lemma token_words_as_documented_lemma :
  src_token_word_max = 5 /\
  map (fun p => word_kind (fst p) src_token_words) src_token_words =
    [Some TAnd; Some TKwDiv; Some TKwElse; Some (TVal (VBool false)); Some TKwIf; Some TOr; Some TExclam; Some (TVal (VBool true))] /\
  forallb (fun p => existsb (Z.eqb (hd 0 (fst p))) src_token_word_first) src_token_words = true.
Proof. repeat split; reflexivity. Qed.
