(* Lemmas about Model/ErrorsReader.v (C12): comment blocks, the byte-order mark, over-long lines. *)
From LedgerV Require Import Base.Prelude Gen.StatusOfCount Gen.CheckingStyle Gen.NameChecks Gen.LineReader
     Model.Errors Model.ErrorsReader Proofs.ErrorsProofs.
Local Open Scope Z_scope.

(* ---- a comment block moves linenum by the number of its physical lines, and nothing else ---- *)
Fixpoint bumps (n : nat) (s : st) : st :=
  match n with O => s | S k => bumps k (bump s) end.

(* the one place where the regenerated shape of comment_directive / read_line is needed: with
   BRUnrecognised or CountUnrecognised this is false and nothing below compiles *)
Lemma every_line_counted c : line_counted c = true.
Proof. reflexivity. Qed.

Lemma comment_body_bumps body : forall s, comment_body s body = bumps (length body) s.
Proof.
  induction body as [|c r IH]; intros s; [reflexivity|].
  cbn [comment_body length bumps]. unfold read_line_c. rewrite every_line_counted. apply IH.
Qed.

Lemma bumps_snoc n : forall s, bumps (n + 1) s = bump (bumps n s).
Proof. induction n as [|k IH]; intros s; [reflexivity|]. cbn [Nat.add bumps]. apply IH. Qed.

Lemma comment_block_bumps s body closed :
  comment_block s body closed = bumps (consumed body closed) s.
Proof.
  unfold comment_block, consumed. rewrite comment_body_bumps.
  destruct closed.
  - unfold read_line_c. rewrite every_line_counted. symmetry. apply bumps_snoc.
  - rewrite Nat.add_0_r. reflexivity.
Qed.

Lemma bumps_fields n : forall s,
  s_line (bumps n s) = s_line s + Z.of_nat n /\ s_errs (bumps n s) = s_errs s /\
  s_msgs (bumps n s) = s_msgs s /\ s_flag (bumps n s) = s_flag s /\ s_mode (bumps n s) = s_mode s.
Proof.
  induction n as [|k IH]; intros s.
  - cbn [bumps Z.of_nat]. repeat split; lia.
  - cbn [bumps]. destruct (IH (bump s)) as (H1 & H2 & H3 & H4 & H5).
    rewrite H1, H2, H3, H4, H5. cbn [bump s_line s_errs s_msgs s_flag s_mode].
    repeat split; lia.
Qed.

Lemma bumps_eq n : forall s,
  bumps n s = mk_st (s_flag s) (s_mode s) (s_line s + Z.of_nat n) (s_errs s) (s_msgs s).
Proof.
  induction n as [|k IH]; intros s.
  - destruct s. cbn. f_equal. lia.
  - cbn [bumps]. rewrite IH. cbn [bump s_line s_errs s_msgs s_flag s_mode]. f_equal. lia.
Qed.

Lemma comment_block_effect s body closed :
  let s' := comment_block s body closed in
  s_line s' = s_line s + Z.of_nat (consumed body closed) /\ s_errs s' = s_errs s /\
  s_msgs s' = s_msgs s /\ s_flag s' = s_flag s /\ s_mode s' = s_mode s.
Proof. cbn zeta. rewrite comment_block_bumps. apply bumps_fields. Qed.

(* empty lines at the top level do the same *)
Lemma run_empties file chain n : forall s rest, s_mode s = MTop ->
  run file chain (repeat LEmpty n ++ rest) s = run file chain rest (bumps n s).
Proof.
  induction n as [|k IH]; intros s rest Hm; [reflexivity|].
  cbn [repeat app run step bumps]. unfold close. rewrite Hm. apply IH. exact Hm.
Qed.

(* ---- the nested loops of the include case are xrun / expand ------------------------------- *)
Lemma xstep_include r file chain s name b body more bom :
  xstep r file chain s (XInclude name b body) more bom =
  (join (bump (close file chain s))
        (xparse_file r name (chain ++ [(file, s_line (bump (close file chain s)))]) b body), true).
Proof.
  cbn [xstep]. f_equal. f_equal. unfold xparse_file.
  set (chain' := chain ++ [(file, s_line (bump (close file chain s)))]).
  assert (H : forall first cs,
    (fix go (first : bool) (cs : st) (ls : list xline) {struct ls} : st :=
       match ls with
       | [] => cs
       | y :: t =>
           let (cs', cont) := xstep r name chain' cs y (xpeek t) (first && b) in
           if cont then go false cs' t else cs'
       end) first cs body = xrun r name chain' (first && b) body cs).
  { induction body as [|y t IH]; intros first cs; [reflexivity|].
    cbn [xrun].
    destruct (xstep r name chain' cs y (xpeek t) (first && b)) as [cs' cont].
    destruct cont; [|reflexivity]. rewrite (IH false cs'). reflexivity. }
  rewrite (H true init_st). reflexivity.
Qed.

Lemma expand_include r bom name b body :
  expand_line r bom (XInclude name b body) = [LInclude name (expand r b body)].
Proof.
  cbn [expand_line]. f_equal. f_equal.
  transitivity ((fix go (first : bool) (ls : list xline) {struct ls} : list line :=
                   match ls with
                   | [] => []
                   | y :: t => expand_line r (first && b) y ++ go false t
                   end) true body); [reflexivity|].
  assert (H : forall first,
    (fix go (first : bool) (ls : list xline) {struct ls} : list line :=
       match ls with
       | [] => []
       | y :: t => expand_line r (first && b) y ++ go false t
       end) first body = expand r (first && b) body).
  { induction body as [|y t IH]; intros first; [reflexivity|].
    cbn [expand]. rewrite (IH false). cbn [andb]. reflexivity. }
  rewrite H. reflexivity.
Qed.

Lemma long_fine_include r name b body :
  long_fine r (XInclude name b body) = all_long_fine r body.
Proof.
  cbn [long_fine]. induction body as [|y t IH]; [reflexivity|].
  cbn [all_long_fine]. rewrite <- IH. reflexivity.
Qed.

(* ---- induction over xlines with the included files' lines as sub-terms -------------------- *)
Section XLineInd.
  Variable P : xline -> Prop.
  Hypothesis HP : forall l, P (XPlain l).
  Hypothesis HC : forall body closed, P (XComment body closed).
  Hypothesis HL : P XLong.
  Hypothesis HInc : forall name b body, Forall P body -> P (XInclude name b body).

  Fixpoint xline_ind2 (x : xline) : P x :=
    match x with
    | XPlain l => HP l
    | XComment body closed => HC body closed
    | XLong => HL
    | XInclude name b body =>
        HInc name b body
             ((fix go (ls : list xline) : Forall P ls :=
                 match ls with
                 | [] => Forall_nil P
                 | y :: t => Forall_cons y (xline_ind2 y) (go t)
                 end) body)
    end.
End XLineInd.

Lemma xpeek_expand r rest : xpeek rest = peek (expand r false rest).
Proof.
  destruct rest as [|y t]; [reflexivity|].
  destruct y; cbn [expand expand_line app xpeek peek]; try reflexivity.
Qed.

(* one element: what xstep does is what `run` does on the element's lines *)
Definition xstep_ok (r : rd) (x : xline) : Prop :=
  forall file chain s bom rest, long_fine r x = true ->
    snd (xstep r file chain s x (peek rest) bom) = true /\
    run file chain (expand_line r bom x ++ rest) s =
    run file chain rest (fst (xstep r file chain s x (peek rest) bom)).

Lemma xrun_expand_of r xs : Forall (xstep_ok r) xs ->
  forall file chain first s, all_long_fine r xs = true ->
    xrun r file chain first xs s = run file chain (expand r first xs) s.
Proof.
  induction 1 as [|y t Hy _ IH]; intros file chain first s Hl; [reflexivity|].
  cbn [all_long_fine] in Hl. apply andb_true_iff in Hl. destruct Hl as [Hl1 Hl2].
  cbn [xrun expand]. rewrite (xpeek_expand r t).
  destruct (Hy file chain s first (expand r false t) Hl1) as [Hc Hr].
  rewrite Hr.
  destruct (xstep r file chain s y (peek (expand r false t)) first) as [s' cont].
  cbn [fst snd] in *. subst cont. apply IH. exact Hl2.
Qed.

Lemma xstep_ok_all r : forall x, xstep_ok r x.
Proof.
  apply xline_ind2; unfold xstep_ok.
  - intros l file chain s bom rest _. cbn [xstep fst snd expand_line app run]. split; reflexivity.
  - intros body closed file chain s bom rest _. cbn [xstep fst snd expand_line]. split; [reflexivity|].
    cbn [app run step]. rewrite comment_block_bumps.
    cbn [step_item]. apply run_empties. reflexivity.
  - intros file chain s bom rest Hl. cbn [long_fine] in Hl. apply andb_true_iff in Hl.
    destruct Hl as [Hc Hr]. cbn [xstep fst snd expand_line]. split; [exact Hr|].
    cbn [app run step]. unfold step_long. rewrite Hc. cbn [step_item]. f_equal.
  - intros name b body Hb file chain s bom rest Hl.
    rewrite xstep_include. cbn [fst snd]. split; [reflexivity|].
    rewrite expand_include. cbn [app run]. rewrite step_include. f_equal. f_equal.
    unfold xparse_file, parse_file. symmetry. apply xrun_expand_of; [exact Hb|].
    rewrite <- (long_fine_include r name b body). exact Hl.
Qed.

(* the reader with comment blocks, byte-order marks and (counted, skipped) over-long lines is
   the reader of Model/Errors.v on the expanded lines *)
Theorem xparse_file_expand r file chain bom xs : all_long_fine r xs = true ->
  xparse_file r file chain bom xs = parse_file file chain (expand r bom xs).
Proof.
  intros Hl. unfold xparse_file, parse_file. apply xrun_expand_of; [|exact Hl].
  apply Forall_forall. intros x _. apply xstep_ok_all.
Qed.

Definition files_long_fine (r : rd) (files : list xfile) : bool :=
  forallb (fun f => match f with (_, _, xs) => all_long_fine r xs end) files.

Lemma xall_expand r files : files_long_fine r files = true ->
  xall_msgs r files = all_msgs (expand_files r files) /\
  xall_errs r files = all_errs (expand_files r files).
Proof.
  induction files as [|[[name bom] xs] rest IH]; intros H; [split; reflexivity|].
  cbn [files_long_fine forallb] in H. apply andb_true_iff in H. destruct H as [H1 H2].
  destruct (IH H2) as [Hm He].
  cbn [xall_msgs xall_errs expand_files map all_msgs all_errs].
  fold (expand_files r rest). rewrite (xparse_file_expand r name [] bom xs H1), Hm, He.
  split; reflexivity.
Qed.

Theorem xsession_expand r files : files_long_fine r files = true ->
  xsession r files = session (expand_files r files).
Proof.
  intros H. destruct (xall_expand r files H) as [Hm He].
  unfold xsession, session. rewrite Hm, He. reflexivity.
Qed.

(* ---- the located line after a comment block ------------------------------------------------
   an item that follows a comment block of n physical lines (head and end marker included) is
   numbered n lines later than it would be without the block - blank lines of the block included *)
Theorem comment_block_counts_every_line r file chain body closed rest s :
  s_mode s = MTop ->
  xrun r file chain false (XComment body closed :: rest) s =
  xrun r file chain false rest
       (mk_st false MTop (s_line s + 1 + Z.of_nat (consumed body closed)) (s_errs s) (s_msgs s)).
Proof.
  intros Hm. cbn [xrun xstep]. f_equal.
  rewrite comment_block_bumps. unfold close. rewrite Hm. cbn [step_item].
  rewrite bumps_eq. cbn [s_line s_errs s_msgs s_flag s_mode bump]. try (f_equal; lia).
Qed.

(* ---- byte-order mark ------------------------------------------------------------------------ *)
Lemma bom_stripped_transparent r file chain xs :
  rd_bom r = 1 -> xparse_file r file chain true xs = xparse_file r file chain false xs.
Proof.
  intros H. unfold xparse_file. destruct xs as [|y t]; [reflexivity|].
  cbn [xrun]. destruct y; cbn [xstep]; try reflexivity.
  unfold bom_line. rewrite H. reflexivity.
Qed.

(* a transaction on the first line of a file with a mark that is not stripped: the head is
   dropped and its first posting reported as stray *)
Definition bom_witness : list xline :=
  [XPlain (LItem None true None); XPlain (LSub None); XPlain (LSub None)].

Lemma bom_not_stripped_refuted r :
  rd_bom r <> 1 ->
  file_clean (expand (mk_rd 1 false false) true bom_witness) = true /\
  s_msgs (xparse_file r 1 [] false bom_witness) = [] /\
  s_msgs (xparse_file r 1 [] true bom_witness) = [mk_msg [] 1 2 k_stray None].
Proof.
  intros H. split; [reflexivity|]. split; [reflexivity|].
  unfold xparse_file, bom_witness. cbn [xrun xstep xpeek ws_initial]. unfold bom_line.
  destruct (rd_bom r =? 1) eqn:E; [apply Z.eqb_eq in E; contradiction|]. reflexivity.
Qed.

(* ---- over-long line -------------------------------------------------------------------------- *)
(* line 1 empty, line 2 too long, line 3-5 a transaction that does not balance *)
Definition long_witness : list xline :=
  [XPlain LEmpty; XLong; XPlain (LItem None true (Some 1)); XPlain (LSub None); XPlain (LSub None)].

Lemma long_line_refuted r :
  rd_long_counted r = false -> rd_long_recovers r = false ->
  s_msgs (xparse_file r 1 [] false long_witness) = [mk_msg [] 1 1 k_long None].
Proof. intros H1 H2. unfold xparse_file, long_witness. cbn [xrun xstep]. rewrite H2. unfold step_long. rewrite H1. reflexivity. Qed.

Lemma long_line_fixed r :
  rd_long_counted r = true -> rd_long_recovers r = true ->
  s_msgs (xparse_file r 1 [] false long_witness) =
  [mk_msg [] 1 2 k_long None; mk_msg [] 1 5 1 (Some (3, 5))].
Proof.
  intros H1 H2. unfold xparse_file, long_witness. cbn [xrun xstep xpeek ws_initial]. rewrite H2.
  unfold step_long. rewrite H1. reflexivity.
Qed.
