(* Lemmas about the name directives (%a %A %b %B %h) of Model/Dates.v strptime, and the soundness of
   whatever a user-supplied --input-date-format accepts. *)
From LedgerV Require Import Base.Prelude Base.Calendar Gen.DateFormats Model.Dates
  Proofs.CalendarProofs Proofs.DatesProofs.
Local Open Scope Z_scope.

(* ------------------------------------------------------------------ G: the re-format-and-compare step only ever
   forgives an omitted '0' *)
Definition nz (c : Z) : bool := negb (c =? 48).

Lemma cmp_skip0_filter : forall q p, cmp_skip0 p q = true -> filter nz p = filter nz q.
Proof.
  induction q as [|d q IH]; intros p H.
  - destruct p; [reflexivity | discriminate].
  - destruct p as [|c p]; [discriminate|]. cbn [cmp_skip0] in H; unfold src_compare_skip_byte in H.
    destruct (Z.eqb_spec c d) as [->|N]; cbn [negb andb] in H.
    + cbn [filter]. rewrite (IH p H). reflexivity.
    + destruct (Z.eqb_spec c 48) as [->|N2]; [|discriminate].
      destruct p as [|c' p]; [discriminate|]. destruct (Z.eqb_spec c' d) as [->|]; [|discriminate].
      cbn [filter]. replace (nz 48) with false by reflexivity. cbn [filter]. rewrite (IH p H). reflexivity.
Qed.

Lemma cmp_skip0_length : forall q p, cmp_skip0 p q = true -> (length q <= length p)%nat.
Proof.
  induction q as [|d q IH]; intros p H; [cbn; lia|].
  destruct p as [|c p]; [discriminate|]. cbn [cmp_skip0] in H; unfold src_compare_skip_byte in H.
  destruct (negb (c =? d) && (c =? 48)).
  - destruct p as [|c' p]; [discriminate|]. destruct (c' =? d); [|discriminate].
    apply IH in H. cbn [length]. lia.
  - destruct (c =? d); [|discriminate]. apply IH in H. cbn [length]. lia.
Qed.

(* what the reader of a user-supplied format with a year answers is a real day of 1400..9999, and the
   input is, up to omitted zeros, exactly the text that format prints for that day: every letter of a
   month or weekday name in the input is the calendar's own for the day that was read *)
Lemma custom_reader_sound raw cur s dn :
  has_year raw = true ->
  parse_routine false cur (mk_reader raw) s = RDate dn ->
  exists y m d w, valid_ymd y m d /\ 1400 <= y <= 9999 /\ dn = boost_day_number y m d /\
    format_date raw dn = Some w /\ cmp_skip0 w s = true /\ filter nz w = filter nz s.
Proof.
  intros HY H. apply routine_inv in H. destruct H as (t & rest & dn0 & w & S & M & F & C & E).
  cbn [mk_reader r_raw r_items] in *. rewrite HY in E. subst dn0.
  apply mk_date_inv in M. destruct M as (V & R & ->).
  exists (tm_year t + 1900), (tm_mon t + 1), (tm_mday t), w.
  repeat split; try assumption; try lia; try apply V.
  apply cmp_skip0_filter. exact C.
Qed.

Lemma parse_custom_sound raw cur s dn :
  has_year raw = true ->
  parse_date [raw] cur s = DOk dn ->
  (exists y m d w, valid_ymd y m d /\ 1400 <= y <= 9999 /\ dn = boost_day_number y m d /\
     format_date raw dn = Some w /\ cmp_skip0 w s = true /\ filter nz w = filter nz s) \/
  (parse_routine false cur (mk_reader raw) s = RNone /\ parse_mask false cur default_readers s = DOk dn).
Proof.
  intros HY. unfold parse_date, readers_for, conv_for, src_input_format_pushes_front, src_input_format_disables_conversion.
  cbn [rev map app parse_mask].
  destruct (parse_routine false cur (mk_reader raw) s) as [|dn'|e] eqn:R.
  - intros H. right. split; [reflexivity | exact H].
  - intros H. injection H as <-. left. apply (custom_reader_sound raw cur s dn' HY R).
  - discriminate.
Qed.

(* ------------------------------------------------------------------ H: names *)
Definition is_alpha (c : Z) : bool := ((65 <=? c) && (c <=? 90)) || ((97 <=? c) && (c <=? 122)).
Definition no_alpha_head (s : str) : Prop := match s with [] => True | x :: _ => is_alpha x = false end.

Lemma lc_nonalpha x a : is_alpha x = false -> is_alpha a = true -> (lc x =? lc a) = false.
Proof.
  unfold is_alpha, lc. intros H1 H2. apply Z.eqb_neq.
  destruct (Z.leb_spec 65 x), (Z.leb_spec x 90), (Z.leb_spec 97 x), (Z.leb_spec x 122); cbn in H1; try discriminate;
  destruct (Z.leb_spec 65 a), (Z.leb_spec a 90), (Z.leb_spec 97 a), (Z.leb_spec a 122); cbn in H2; try discriminate; cbn; lia.
Qed.

Lemma match_nocase_self nm rest : match_nocase nm (nm ++ rest) = Some rest.
Proof. induction nm as [|a nm IH]; [reflexivity|]. cbn [app match_nocase]. rewrite Z.eqb_refl. exact IH. Qed.

(* a name of more than three letters is not found in its own abbreviation followed by a non-letter *)
Lemma match_nocase_abbrev_stops a b c e nm rest :
  is_alpha e = true -> no_alpha_head rest ->
  match_nocase (a :: b :: c :: e :: nm) ([a; b; c] ++ rest) = None.
Proof.
  intros He Hr. cbn [app match_nocase]. rewrite !Z.eqb_refl.
  destruct rest as [|x rest]; [reflexivity|]. cbn [no_alpha_head] in Hr. rewrite (lc_nonalpha x e Hr He). reflexivity.
Qed.

(* names whose first three letters differ (ignoring case) from the text's *)
Definition differs3 (nm pre : str) : bool :=
  match match_nocase (firstn 3 nm) pre with Some _ => false | None => true end.

Lemma differs3_none nm a b c rest :
  (3 <= length nm)%nat -> differs3 nm [a; b; c] = true ->
  match_nocase nm ([a; b; c] ++ rest) = None /\ match_nocase (firstn 3 nm) ([a; b; c] ++ rest) = None.
Proof.
  intros L D. destruct nm as [|n1 [|n2 [|n3 nm]]]; cbn in L; try lia.
  unfold differs3 in D. cbn [firstn match_nocase app] in *.
  destruct (lc a =? lc n1); [|split; reflexivity].
  destruct (lc b =? lc n2); [|split; reflexivity].
  destruct (lc c =? lc n3); [discriminate | split; reflexivity].
Qed.

(* the search through a name table: the names before index k differ in their first three letters
   from the k-th, so the k-th name answers - in full, or abbreviated before a non-letter *)
Lemma match_names_skip names : forall i pre rest,
  length pre = 3%nat ->
  Forall (fun nm => (3 <= length nm)%nat /\ differs3 nm pre = true) names ->
  match_names names i (pre ++ rest) = None.
Proof.
  induction names as [|nm names IH]; intros i pre rest L F; [reflexivity|].
  apply Forall_cons_iff in F as [[Ln D] F].
  destruct pre as [|a [|b [|c [|]]]]; cbn in L; try lia.
  destruct (differs3_none nm a b c rest Ln D) as [E1 E2].
  cbn [match_names]. rewrite E1, E2. apply IH; [reflexivity | exact F].
Qed.

Lemma match_names_split before : forall nm after i s,
  match_names before i s = None ->
  match_names (before ++ nm :: after) i s = match_names (nm :: after) (i + Z.of_nat (length before)) s.
Proof.
  induction before as [|b before IH]; intros nm after i s H.
  - cbn [app length]. replace (i + Z.of_nat 0) with i by (cbn; lia). reflexivity.
  - replace (i + Z.of_nat (length (b :: before))) with (i + 1 + Z.of_nat (length before)) by (cbn [length]; lia).
    cbn [match_names app] in *. destruct (match_nocase b s); [discriminate|].
    destruct (match_nocase (firstn 3 b) s); [discriminate|].
    exact (IH nm after (i + 1) s H).
Qed.

Lemma nth_firstn_lt (l : list str) d : forall k j, (j < k)%nat -> nth j (firstn k l) d = nth j l d.
Proof.
  induction l as [|a l IH]; intros k j H.
  - rewrite firstn_nil. reflexivity.
  - destruct k; [lia|]. destruct j; [reflexivity|]. cbn [firstn nth]. apply IH. lia.
Qed.

Lemma list_split_at (l : list str) : forall k, (k < length l)%nat -> l = firstn k l ++ nth k l [] :: skipn (S k) l.
Proof.
  induction l as [|a l IH]; intros k H; [cbn in H; lia|]. destruct k; [reflexivity|].
  cbn [firstn nth skipn app]. f_equal. apply IH. cbn in H. lia.
Qed.

Section Table.
  Variable names : list str.
  Hypothesis all_long : Forall (fun nm => (3 <= length nm)%nat) names.
  Hypothesis distinct : forall i j, (i < length names)%nat -> (j < i)%nat ->
    differs3 (nth j names []) (firstn 3 (nth i names [])) = true.

  Lemma before_differ k : (k < length names)%nat ->
    Forall (fun nm => (3 <= length nm)%nat /\ differs3 nm (firstn 3 (nth k names [])) = true) (firstn k names).
  Proof.
    intros Hk. apply Forall_forall. intros nm Hin.
    destruct (In_nth _ _ [] Hin) as (j & Hj & E).
    rewrite firstn_length in Hj. assert (Hjk : (j < k)%nat) by lia.
    rewrite nth_firstn_lt in E by exact Hjk. subst nm. split.
    - rewrite Forall_forall in all_long. apply all_long. apply nth_In. lia.
    - apply distinct; assumption.
  Qed.

  Lemma names_split k : (k < length names)%nat ->
    names = firstn k names ++ nth k names [] :: skipn (S k) names.
  Proof. apply list_split_at. Qed.

  Lemma nth_long k : (k < length names)%nat -> (3 <= length (nth k names []))%nat.
  Proof. intros Hk. rewrite Forall_forall in all_long. apply all_long. apply nth_In. exact Hk. Qed.

  Lemma abbr_split k : (k < length names)%nat ->
    exists a b c tl, nth k names [] = a :: b :: c :: tl.
  Proof.
    intros Hk. pose proof (nth_long k Hk) as L. destruct (nth k names []) as [|a [|b [|c tl]]]; cbn in L; try lia.
    exists a, b, c, tl. reflexivity.
  Qed.

  (* the full name is read whole, whatever follows *)
  Lemma match_names_full k rest : (k < length names)%nat ->
    match_names names 0 (nth k names [] ++ rest) = Some (Z.of_nat k, rest).
  Proof.
    intros Hk. destruct (abbr_split k Hk) as (a & b & c & tl & E).
    pose proof (before_differ k Hk) as B. rewrite E in B. cbn [firstn] in B.
    rewrite (names_split k Hk) at 1. rewrite match_names_split.
    - cbn [match_names]. rewrite match_nocase_self. f_equal. f_equal. rewrite firstn_length. lia.
    - rewrite E. change ((a :: b :: c :: tl) ++ rest) with ([a; b; c] ++ (tl ++ rest)).
      apply match_names_skip; [reflexivity | exact B].
  Qed.

  (* the abbreviation is read as such when no letter follows it (or the name has three letters) *)
  Lemma match_names_abbrev k rest : (k < length names)%nat ->
    Forall (fun c => is_alpha c = true) (nth k names []) -> no_alpha_head rest ->
    match_names names 0 (firstn 3 (nth k names []) ++ rest) = Some (Z.of_nat k, rest).
  Proof.
    intros Hk Al Hr. destruct (abbr_split k Hk) as (a & b & c & tl & E).
    pose proof (before_differ k Hk) as B. rewrite E in B. cbn [firstn] in B.
    rewrite (names_split k Hk) at 1. rewrite match_names_split.
    - rewrite E. cbn [firstn]. cbn [match_names].
      assert (L : Z.of_nat (length (firstn k names)) = Z.of_nat k) by (rewrite firstn_length; lia).
      destruct tl as [|e tl].
      + rewrite (match_nocase_self [a; b; c] rest). rewrite L. reflexivity.
      + rewrite E in Al. assert (He : is_alpha e = true).
        { apply Forall_cons_iff in Al as [_ Al]. apply Forall_cons_iff in Al as [_ Al].
          apply Forall_cons_iff in Al as [_ Al]. apply Forall_cons_iff in Al as [He _]. exact He. }
        rewrite (match_nocase_abbrev_stops a b c e tl rest He Hr).
        cbn [firstn]. rewrite (match_nocase_self [a; b; c] rest). rewrite L. reflexivity.
    - rewrite E. cbn [firstn]. apply match_names_skip; [reflexivity | exact B].
  Qed.
End Table.

Definition pairs_differ (names : list str) : bool :=
  forallb (fun i => forallb (fun j => differs3 (nth j names []) (firstn 3 (nth i names []))) (seq 0 i))
          (seq 0 (length names)).

Lemma pairs_differ_spec names : pairs_differ names = true ->
  forall i j, (i < length names)%nat -> (j < i)%nat -> differs3 (nth j names []) (firstn 3 (nth i names [])) = true.
Proof.
  intros H i j Hi Hj. unfold pairs_differ in H. rewrite forallb_forall in H.
  specialize (H i ltac:(apply in_seq; lia)). rewrite forallb_forall in H. apply H. apply in_seq. lia.
Qed.

Definition all_long_b (names : list str) : bool := forallb (fun nm => (3 <=? length nm)%nat) names.
Lemma all_long_spec names : all_long_b names = true -> Forall (fun nm => (3 <= length nm)%nat) names.
Proof.
  intros H. apply Forall_forall. intros nm Hin. unfold all_long_b in H. rewrite forallb_forall in H.
  apply Nat.leb_le. apply H. exact Hin.
Qed.

Definition all_alpha_b (names : list str) : bool := forallb (forallb is_alpha) names.
Lemma all_alpha_spec names k : all_alpha_b names = true -> (k < length names)%nat ->
  Forall (fun c => is_alpha c = true) (nth k names []).
Proof.
  intros H Hk. unfold all_alpha_b in H. rewrite forallb_forall in H.
  apply Forall_forall. intros c Hc. specialize (H _ (nth_In names [] Hk)). rewrite forallb_forall in H. apply H. exact Hc.
Qed.

(* the two tables of the C locale *)
Lemma month_table : all_long_b month_names = true /\ pairs_differ month_names = true /\ all_alpha_b month_names = true /\
  length month_names = 12%nat.
Proof. vm_compute. repeat split. Qed.
Lemma wday_table : all_long_b wday_names = true /\ pairs_differ wday_names = true /\ all_alpha_b wday_names = true /\
  length wday_names = 7%nat.
Proof. vm_compute. repeat split. Qed.

Lemma name_at_nth l i : 0 <= i < Z.of_nat (length l) -> name_at l i = nth (Z.to_nat i) l [].
Proof. intros H. unfold name_at. apply nth_indep. lia. Qed.

Lemma read_month_full m rest : 1 <= m <= 12 ->
  match_names month_names 0 (name_at month_names (m - 1) ++ rest) = Some (m - 1, rest).
Proof.
  intros Hm. destruct month_table as (A & B & _ & L).
  rewrite name_at_nth by (rewrite L; lia).
  rewrite (match_names_full month_names (all_long_spec _ A) (pairs_differ_spec _ B) (Z.to_nat (m - 1)) rest) by (rewrite L; lia).
  rewrite Z2Nat.id by lia. reflexivity.
Qed.

Lemma read_month_abbrev m rest : 1 <= m <= 12 -> no_alpha_head rest ->
  match_names month_names 0 (firstn 3 (name_at month_names (m - 1)) ++ rest) = Some (m - 1, rest).
Proof.
  intros Hm Hr. destruct month_table as (A & B & C & L).
  rewrite name_at_nth by (rewrite L; lia).
  rewrite (match_names_abbrev month_names (all_long_spec _ A) (pairs_differ_spec _ B) (Z.to_nat (m - 1)) rest)
    by (try apply all_alpha_spec; try assumption; rewrite L; lia).
  rewrite Z2Nat.id by lia. reflexivity.
Qed.

Lemma read_wday_full w rest : 0 <= w < 7 ->
  match_names wday_names 0 (name_at wday_names w ++ rest) = Some (w, rest).
Proof.
  intros Hw. destruct wday_table as (A & B & _ & L).
  rewrite name_at_nth by (rewrite L; lia).
  rewrite (match_names_full wday_names (all_long_spec _ A) (pairs_differ_spec _ B) (Z.to_nat w) rest) by (rewrite L; lia).
  rewrite Z2Nat.id by lia. reflexivity.
Qed.

Lemma read_wday_abbrev w rest : 0 <= w < 7 -> no_alpha_head rest ->
  match_names wday_names 0 (firstn 3 (name_at wday_names w) ++ rest) = Some (w, rest).
Proof.
  intros Hw Hr. destruct wday_table as (A & B & C & L).
  rewrite name_at_nth by (rewrite L; lia).
  rewrite (match_names_abbrev wday_names (all_long_spec _ A) (pairs_differ_spec _ B) (Z.to_nat w) rest)
    by (try apply all_alpha_spec; try assumption; rewrite L; lia).
  rewrite Z2Nat.id by lia. reflexivity.
Qed.

(* ------------------------------------------------------------------ I: a format with names reads back what it prints.
   names_fmt_ok: %Y %m %d %% %B %A and non-blank literals anywhere; an ABBREVIATED name (%b %h %a) only where
   no letter can follow it - at the end, before a non-letter literal, or before a number.  (Without
   that restriction the statement is false: strptime reads the full name first, see
   abbreviation_before_letters_refuted in Properties_C14.v.) *)
Definition starts_clean (f : list item) : Prop :=
  match f with
  | [] => True
  | ILit c :: _ => is_alpha c = false
  | IDir c :: _ => c = 89 \/ c = 109 \/ c = 100
  | IBad :: _ => False
  end.

Fixpoint names_fmt_ok (f : list item) : Prop :=
  match f with
  | [] => True
  | ILit c :: f' => is_space c = false /\ names_fmt_ok f'
  | IDir c :: f' =>
      (c = 89 \/ c = 109 \/ c = 100 \/ c = 37 \/ c = 66 \/ c = 65 \/
       ((c = 98 \/ c = 104 \/ c = 97) /\ starts_clean f')) /\ names_fmt_ok f'
  | IBad :: _ => False
  end.

Definition has_mon (f : list item) : bool := has_dir 109 f || has_dir 98 f || has_dir 66 f || has_dir 104 f.

Definition set_fields_n (f : list item) (t : tm) (y m d : Z) : tm :=
  mkTm (if has_dir 89 f then y - 1900 else tm_year t)
       (if has_mon f then m - 1 else tm_mon t)
       (if has_dir 100 f then d else tm_mday t).

Lemma digit_nonalpha v : is_alpha (digit v) = false.
Proof.
  pose proof (digit_range v) as R. unfold is_alpha.
  destruct (Z.leb_spec 65 (digit v)), (Z.leb_spec (digit v) 90), (Z.leb_spec 97 (digit v)), (Z.leb_spec (digit v) 122);
    cbn; try reflexivity; lia.
Qed.

Lemma strftime_head_clean f y m d w :
  starts_clean f -> strftime f y m d = Some w -> no_alpha_head w.
Proof.
  destruct f as [|[c|c|] f]; cbn [starts_clean strftime]; intros C S.
  - injection S as <-. exact I.
  - destruct (strftime f y m d); [|discriminate]. injection S as <-. exact C.
  - destruct (fmt_dir c y m d) as [a|] eqn:A; [|discriminate].
    destruct (strftime f y m d); [|discriminate]. injection S as <-.
    destruct C as [->|[->| ->]]; cbn [fmt_dir Z.eqb Pos.eqb] in A; injection A as <-; cbn [digits4 digits2 app no_alpha_head];
      apply digit_nonalpha.
  - contradiction.
Qed.

Ltac fields_eq f :=
  unfold set_fields_n, has_mon, has_dir; cbn [existsb is_dir Z.eqb Pos.eqb tm_year tm_mon tm_mday];
  destruct (existsb (is_dir 89) f), (existsb (is_dir 109) f), (existsb (is_dir 98) f), (existsb (is_dir 66) f),
    (existsb (is_dir 104) f), (existsb (is_dir 100) f); reflexivity.

Local Opaque firstn.

Lemma strptime_strftime_names f : forall y m d w t,
  names_fmt_ok f -> 0 <= y <= 9999 -> 1 <= m <= 12 -> 1 <= d <= 31 -> 0 <= boost_day_of_week y m d < 7 ->
  strftime f y m d = Some w -> strptime f w t = POk (set_fields_n f t y m d) [].
Proof.
  induction f as [|i f IH]; intros y m d w t Hok Hy Hm Hd Hw S.
  - cbn in S. injection S as <-. destruct t. reflexivity.
  - destruct i as [c|c|]; cbn [names_fmt_ok] in Hok; [| |contradiction]; destruct Hok as [Hi Hok].
    + cbn [strftime] in S. destruct (strftime f y m d) as [w'|] eqn:S'; [|discriminate]. injection S as <-.
      cbn [strptime]. rewrite Hi. cbn [match_char]. rewrite Z.eqb_refl.
      rewrite (IH y m d w' t Hok Hy Hm Hd Hw S'). f_equal; fields_eq f.
    + cbn [strftime] in S. destruct (fmt_dir c y m d) as [a|] eqn:A; [|discriminate].
      destruct (strftime f y m d) as [w'|] eqn:S'; [|discriminate]. injection S as <-.
      destruct Hi as [ -> | [ -> | [ -> | [ -> | [ -> | [ -> | [[ -> | [ -> | -> ]] Cl]]]]]]];
        cbn [fmt_dir Z.eqb Pos.eqb orb] in A; injection A as <-; cbn [strptime Z.eqb Pos.eqb orb].
      * rewrite get_number_digits4 by lia. rewrite (IH y m d w' _ Hok Hy Hm Hd Hw S'). f_equal; fields_eq f.
      * rewrite get_number_digits2 by lia. rewrite (IH y m d w' _ Hok Hy Hm Hd Hw S'). f_equal; fields_eq f.
      * rewrite get_number_digits2 by lia. rewrite (IH y m d w' _ Hok Hy Hm Hd Hw S'). f_equal; fields_eq f.
      * cbn [app match_char Z.eqb Pos.eqb]. rewrite (IH y m d w' t Hok Hy Hm Hd Hw S'). f_equal; fields_eq f.
      * rewrite read_month_full by exact Hm. rewrite (IH y m d w' _ Hok Hy Hm Hd Hw S'). f_equal; fields_eq f.
      * rewrite read_wday_full by exact Hw. rewrite (IH y m d w' t Hok Hy Hm Hd Hw S'). f_equal; fields_eq f.
      * rewrite read_month_abbrev by (try exact Hm; eapply strftime_head_clean; eassumption).
        rewrite (IH y m d w' _ Hok Hy Hm Hd Hw S'). f_equal; fields_eq f.
      * rewrite read_month_abbrev by (try exact Hm; eapply strftime_head_clean; eassumption).
        rewrite (IH y m d w' _ Hok Hy Hm Hd Hw S'). f_equal; fields_eq f.
      * rewrite read_wday_abbrev by (try exact Hw; eapply strftime_head_clean; eassumption).
        rewrite (IH y m d w' t Hok Hy Hm Hd Hw S'). f_equal; fields_eq f.
Qed.

Lemma parse_names_roundtrip raw cur y m d w :
  names_fmt_ok (lex_fmt raw) ->
  has_dir 89 (lex_fmt raw) = true -> has_mon (lex_fmt raw) = true -> has_dir 100 (lex_fmt raw) = true ->
  valid_ymd y m d -> 1400 <= y <= 9999 ->
  format_date raw (boost_day_number y m d) = Some w ->
  parse_date [raw] cur w = DOk (boost_day_number y m d).
Proof.
  intros Hok HY Hm Hd V Hy F. pose proof (days_in_month_range y m) as Hr.
  unfold parse_date, readers_for, conv_for, src_input_format_pushes_front, src_input_format_disables_conversion.
  cbn [rev map app parse_mask]. unfold parse_routine, src_tm_year_base, src_tm_mday_preset.
  unfold format_date, format_dn in F. rewrite boost_roundtrip in F by exact V.
  destruct (strftime (lex_fmt raw) y m d) as [w0|] eqn:S; [|discriminate].
  destruct (Z.ltb_spec 126 (Z.of_nat (length w0))) as [L|L]; [discriminate|]. injection F as <-.
  assert (L2 : (src_max_date_len <? Z.of_nat (length w0)) = false)
    by (apply Z.ltb_ge; unfold src_max_date_len; lia).
  rewrite L2. cbn [mk_reader r_items r_raw].
  destruct V as [Vm Vd].
  assert (Hw : 0 <= boost_day_of_week y m d < 7)
    by (rewrite boost_day_of_week_correct by exact Vm; apply weekday_range).
  rewrite (strptime_strftime_names _ y m d w0 _ Hok ltac:(lia) ltac:(lia) ltac:(lia) Hw S).
  unfold set_fields_n. rewrite HY, Hm, Hd. cbn [tm_year tm_mon tm_mday].
  replace (y - 1900 + 1900) with y by ring. replace (m - 1 + 1) with m by ring.
  rewrite mk_date_ok by (try split; lia).
  unfold format_dn. rewrite boost_roundtrip by (split; lia). rewrite S.
  destruct (Z.ltb_spec 126 (Z.of_nat (length w0))); [lia|].
  rewrite cmp_refl. cbn [negb]. rewrite (lex_has_year raw HY). reflexivity.
Qed.
