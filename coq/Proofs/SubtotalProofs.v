(* The date range of a subtotal row is the earliest and the latest date of its postings, in whatever order they arrive. *)
From LedgerV Require Import Base.Prelude Model.Subtotal.
From Coq Require Import Permutation.
Local Open Scope Z_scope.

Definition bounds (s f : Z) (l : list Z) : Prop :=
  (forall x, In x l -> s <= x <= f) /\ In s l /\ In f l.

Lemma fold_range_spec : forall ds seen s f,
  bounds s f seen ->
  exists s' f', fold_left range_step ds (Some (s, f)) = Some (s', f') /\ bounds s' f' (seen ++ ds).
Proof.
  induction ds as [|d ds IH]; intros seen s f [Hb [Hs Hf]].
  - exists s, f. cbn [fold_left]. rewrite app_nil_r. repeat split; try assumption; apply Hb; assumption.
  - cbn [fold_left range_step].
    assert (Hsf : s <= f) by (apply (Hb s Hs)).
    set (s1 := if d <? s then d else s). set (f1 := if f <? d then d else f).
    assert (H1 : bounds s1 f1 (seen ++ [d])).
    { unfold bounds, s1, f1. split; [|split].
      - intros x Hx. apply in_app_or in Hx as [Hx|[<-|[]]].
        + specialize (Hb x Hx). destruct (Z.ltb_spec d s), (Z.ltb_spec f d); lia.
        + destruct (Z.ltb_spec d s), (Z.ltb_spec f d); lia.
      - destruct (Z.ltb_spec d s); apply in_or_app; [right; left; reflexivity | left; exact Hs].
      - destruct (Z.ltb_spec f d); apply in_or_app; [right; left; reflexivity | left; exact Hf]. }
    destruct (IH (seen ++ [d]) s1 f1 H1) as [s' [f' [E B]]].
    exists s', f'. split; [exact E|]. rewrite <- app_assoc in B. exact B.
Qed.

(* the range is (earliest, latest): bounds of every date of the group, and both are dates of the group *)
Theorem date_range_is_min_max d ds :
  exists s f, date_range (d :: ds) = Some (s, f) /\ bounds s f (d :: ds).
Proof.
  unfold date_range. cbn [fold_left range_step].
  assert (H : bounds d d [d]).
  { split; [|split]; try (left; reflexivity). intros x [<-|[]]. lia. }
  destruct (fold_range_spec ds [d] d d H) as [s [f [E B]]]. exists s, f. split; assumption.
Qed.

Lemma bounds_unique s f s' f' l l' :
  (forall x, In x l <-> In x l') -> bounds s f l -> bounds s' f' l' -> s = s' /\ f = f'.
Proof.
  intros Hm [Hb [Hs Hf]] [Hb' [Hs' Hf']].
  pose proof (Hb' s (proj1 (Hm s) Hs)). pose proof (Hb s' (proj2 (Hm s') Hs')).
  pose proof (Hb' f (proj1 (Hm f) Hf)). pose proof (Hb f' (proj2 (Hm f') Hf')). lia.
Qed.

(* the order in which the postings of a group arrive plays no part *)
Theorem date_range_order_free ds ds' : Permutation ds ds' -> date_range ds = date_range ds'.
Proof.
  intros P. destruct ds as [|d ds].
  - apply Permutation_nil in P. subst. reflexivity.
  - destruct ds' as [|d' ds']; [apply Permutation_sym, Permutation_nil in P; discriminate|].
    destruct (date_range_is_min_max d ds) as [s [f [E B]]].
    destruct (date_range_is_min_max d' ds') as [s' [f' [E' B']]].
    rewrite E, E'.
    destruct (bounds_unique s f s' f' (d :: ds) (d' :: ds')) as [-> ->]; try assumption; [|reflexivity].
    intros x. split; intros Hx; [apply (Permutation_in _ P Hx) | apply (Permutation_in _ (Permutation_sym P) Hx)].
Qed.

Lemma dates_of_perm label ps ps' : Permutation ps ps' -> Permutation (dates_of label ps) (dates_of label ps').
Proof.
  induction 1 as [|[l d] ps ps' _ IH|[l1 d1] [l2 d2] ps|ps ps' ps'' _ IH1 _ IH2]; cbn [dates_of].
  - constructor.
  - destruct (str_eqb l label); [constructor|]; exact IH.
  - destruct (str_eqb l1 label), (str_eqb l2 label); try apply Permutation_refl. apply perm_swap.
  - eapply Permutation_trans; eassumption.
Qed.

Theorem group_range_order_free label ps ps' :
  Permutation ps ps' -> group_range label ps = group_range label ps'.
Proof. intros P. unfold group_range. apply date_range_order_free, dates_of_perm, P. Qed.

Example range_examples :
  date_range [20210105; 20210310; 20210215] = Some (20210105, 20210310) /\
  date_range [20210310; 20210105; 20210215] = Some (20210105, 20210310) /\
  date_range [] = None.
Proof. vm_compute. repeat split. Qed.
