(* Proofs about the bounded-copy model (Model/Buffers.v) and about the site list regenerated
   from the source (Gen/BufferSites.v). *)
From Coq Require Import String.
From LedgerV Require Import Base.Prelude Model.Buffers Gen.BufferSites.
Import List.
Local Open Scope Z_scope.

(* ---- the decidable test is sound: it implies the bound for every input length ---- *)
Lemma write_ok_sound cap w :
  write_ok cap w = true -> forall n, 0 <= n -> extent w n <= cap.
Proof.
  destruct w; cbn [write_ok extent]; intros H n Hn; try discriminate;
    repeat (apply andb_true_iff in H; destruct H as [H ?]);
    repeat match goal with
           | H : (_ <=? _) = true |- _ => apply Z.leb_le in H
           end;
    try (match goal with |- context [n <=? ?g] => destruct (n <=? g) eqn:E; [apply Z.leb_le in E|] end);
    lia.
Qed.

Lemma site_ok_sound s :
  site_ok s = true -> forall n, 0 <= n -> extent (swrite s) n <= capacity s.
Proof. unfold site_ok. apply write_ok_sound. Qed.

(* ---- the READ_INTO loop never stores more than `size` characters (plus the NUL) ---- *)
Lemma read_into_loop_le cond size :
  forall k inp stored, (length inp <= k)%nat -> stored <= size ->
    Z.of_nat (length (read_into_loop cond size stored inp)) <= size - stored.
Proof.
  induction k as [|k IH]; intros inp stored Hk Hs.
  - destruct inp; [cbn; lia | cbn in Hk; lia].
  - destruct inp as [|c rest]; [cbn; lia|].
    cbn [read_into_loop].
    destruct ((c =? 10) || negb (cond c) || negb (stored <? size)) eqn:Estop; [cbn; lia|].
    apply orb_false_iff in Estop as [_ Elt]. apply negb_false_iff in Elt. apply Z.ltb_lt in Elt.
    cbn in Hk.
    destruct (c =? 92).
    + destruct rest as [|d rest']; [cbn; lia|].
      cbn [length]. cbn in Hk.
      specialize (IH rest' (stored + 1) ltac:(lia) ltac:(lia)). lia.
    + cbn [length].
      specialize (IH rest (stored + 1) ltac:(lia) ltac:(lia)). lia.
Qed.

Lemma read_into_loop_le_input cond size :
  forall k inp stored, (length inp <= k)%nat ->
    (length (read_into_loop cond size stored inp) <= length inp)%nat.
Proof.
  induction k as [|k IH]; intros inp stored Hk.
  - destruct inp; [cbn; lia | cbn in Hk; lia].
  - destruct inp as [|c rest]; [cbn; lia|].
    cbn [read_into_loop].
    destruct ((c =? 10) || negb (cond c) || negb (stored <? size)); [cbn; lia|].
    cbn in Hk.
    destruct (c =? 92).
    + destruct rest as [|d rest']; [cbn; lia|].
      cbn [length]. cbn in Hk.
      specialize (IH rest' (stored + 1) ltac:(lia)). lia.
    + cbn [length]. specialize (IH rest (stored + 1) ltac:(lia)). lia.
Qed.

Lemma read_into_writes_le cond size inp :
  0 <= size -> Z.of_nat (length (read_into cond size inp)) <= size + 1.
Proof.
  intros Hs. unfold read_into. rewrite app_length. cbn [length].
  pose proof (read_into_loop_le cond size (length inp) inp 0 (le_n _) Hs). lia.
Qed.

(* the transcribed loop justifies `extent (ReadInto M)`: for every stream content and every
   character class, the bytes stored are at most extent (ReadInto M) (input length) *)
Lemma read_into_extent cond M inp :
  0 <= M ->
  Z.of_nat (length (read_into cond M inp)) <= extent (ReadInto M) (Z.of_nat (length inp)).
Proof.
  intros HM. cbn [extent]. unfold read_into. rewrite app_length. cbn [length].
  pose proof (read_into_loop_le cond M (length inp) inp 0 (le_n _) HM).
  pose proof (read_into_loop_le_input cond M (length inp) inp 0 (le_n _)). lia.
Qed.

(* the loop stores the whole token when it fits: with no backslash, newline or class
   violation inside, the first min(n, size) characters *)
Lemma read_into_loop_plain cond size :
  forall inp stored,
    Forall (fun c => c <> 10 /\ c <> 92 /\ cond c = true) inp ->
    stored + Z.of_nat (length inp) <= size ->
    read_into_loop cond size stored inp = inp.
Proof.
  induction inp as [|c rest IH]; intros stored Hall Hfit; [reflexivity|].
  inversion Hall as [|? ? [Hn [Hb Hc]] Hrest]; subst.
  cbn [read_into_loop]. cbn [length] in Hfit.
  replace (c =? 10) with false by (symmetry; apply Z.eqb_neq; exact Hn).
  rewrite Hc. cbn [negb orb].
  replace (stored <? size) with true by (symmetry; apply Z.ltb_lt; lia).
  cbn [negb].
  replace (c =? 92) with false by (symmetry; apply Z.eqb_neq; exact Hb).
  f_equal. apply IH; [exact Hrest | lia].
Qed.

(* getline(buf, M) stores at most M bytes *)
Lemma getline_store_le M inp :
  1 <= M -> Z.of_nat (length (fst (getline_store M inp))) <= M.
Proof.
  intros HM. unfold getline_store. cbn [fst]. rewrite app_length, firstn_length. cbn [length]. lia.
Qed.

Lemma getline_store_extent M inp :
  1 <= M ->
  Z.of_nat (length (fst (getline_store M inp))) = extent (Getline M) (Z.of_nat (length inp)).
Proof.
  intros HM. unfold getline_store. cbn [fst extent]. rewrite app_length, firstn_length. cbn [length]. lia.
Qed.

(* ---- the sites of the current source ---- *)
Lemma all_sites_ok : forallb site_ok sites = true.
Proof. vm_compute. reflexivity. Qed.

Lemma all_sites_in_bounds_proof :
  Forall (fun s => forall n, 0 <= n -> extent (swrite s) n <= capacity s) sites.
Proof.
  apply Forall_forall. intros s Hs.
  apply site_ok_sound.
  pose proof all_sites_ok as H. rewrite forallb_forall in H. apply H. exact Hs.
Qed.

(* the nameless table the extracted driver uses is the same list *)
Lemma site_table_matches_proof : site_table = map (fun s => (capacity s, swrite s)) sites.
Proof. vm_compute. reflexivity. Qed.

(* no site is unclassified, the findings included *)
Definition recognised (s : site) : bool :=
  match swrite s with Unrecognised => false | _ => true end.

Lemma all_sites_recognised_proof : forallb recognised sites = true.
Proof. vm_compute. reflexivity. Qed.

(* every fixed buffer of the tokenizers, the amount/commodity/annotation readers, the note
   parser and the line reader is in the list: the scanner did not lose a declaration *)
Definition has_site (name : String.string) : bool := existsb (fun s => String.eqb (sname s) name) sites.

Lemma anchored_sites_present_proof :
  forallb has_site
    [ "amount.cc:parse_quantity:buf"; "commodity.cc:parse_symbol:buf"; "annotate.cc:parse:buf";
      "item.cc:parse_tags:buf"; "token.cc:parse_ident:buf"; "token.cc:next:buf";
      "token.cc:parse_reserved_word:buf"; "times.cc:parse_date_mask_routine:buf";
      "times.cc:parse_datetime:buf"; "textual.cc:parse_post:buf";
      "textual.cc:general_directive:buf"; "option.cc:find_option:buf";
      "global.cc:prompt_string:prompt" ]%string = true.
Proof. vm_compute. reflexivity. Qed.

(* the two sites that overran before their repair (find_option let 127 characters into buf[128]
   and appended 2 bytes: extent 129; prompt_string had no bound on the index) now have guarded
   write kinds, and are covered by all_sites_in_bounds like every other site *)
Lemma repaired_sites_proof :
  map (fun s => (capacity s, swrite s))
      (filter (fun s => String.eqb (sname s) "option.cc:find_option:buf" ||
                        String.eqb (sname s) "global.cc:prompt_string:prompt") sites)
  = [ (32, IndexLoopBounded 30 2); (128, CopyGuarded 126 2) ].
Proof. vm_compute. reflexivity. Qed.
