(* balance_t::sorted_amounts (Model/Amount.v): the result is strictly sorted by (base symbol, whole key) and therefore a
   function of the CONTENTS of the table, not of its iteration order (C19; used by C03 for the ordering of a balance
   against an amount, which walks the sorted entries since /repo 55e6d28). *)
From LedgerV Require Import Base.Prelude Model.Amount.
From Coq Require Import Permutation Sorting.Sorted.
Local Open Scope Q_scope.

(* ---- str_compare is a total order ---- *)
Lemma str_compare_refl a : str_compare a a = Eq.
Proof. induction a as [|x a IH]; cbn; [reflexivity | rewrite Z.compare_refl; exact IH]. Qed.

Lemma str_compare_eq a : forall b, str_compare a b = Eq -> a = b.
Proof.
  induction a as [|x a IH]; intros [|y b]; cbn; try discriminate; [reflexivity|].
  destruct (Z.compare_spec x y) as [Hxy|Hxy|Hxy]; try discriminate. intros Hc. subst. f_equal. apply IH. exact Hc.
Qed.

Lemma str_compare_antisym a : forall b, str_compare b a = CompOpp (str_compare a b).
Proof.
  induction a as [|x a IH]; intros [|y b]; cbn; try reflexivity.
  rewrite (Z.compare_antisym x y). destruct (x ?= y)%Z; cbn; [apply IH | reflexivity | reflexivity].
Qed.

Lemma str_compare_trans a : forall b c, str_compare a b = Lt -> str_compare b c = Lt -> str_compare a c = Lt.
Proof.
  induction a as [|x a IH]; intros [|y b] [|z c]; cbn; try discriminate; try reflexivity.
  destruct (Z.compare_spec x y), (Z.compare_spec y z); try discriminate; intros H1 H2; subst.
  - rewrite Z.compare_refl. eapply IH; eassumption.
  - destruct (Z.compare_spec y z); try lia. reflexivity.
  - destruct (Z.compare_spec x z); try lia. reflexivity.
  - destruct (Z.compare_spec x z); try lia. reflexivity.
Qed.

(* ---- the order used by sorted_amounts: (base symbol, whole key), lexicographically ---- *)
Definition ckey (a : amount) : str * str := (base_sym (comm_key a), comm_key a).

Definition key_lt (a b : amount) : Prop :=
  str_compare (base_sym (comm_key a)) (base_sym (comm_key b)) = Lt \/
  (str_compare (base_sym (comm_key a)) (base_sym (comm_key b)) = Eq /\ str_compare (comm_key a) (comm_key b) = Lt).

Lemma comm_le_false_lt a b : comm_le a b = false -> key_lt b a.
Proof.
  unfold comm_le, key_lt. rewrite (str_compare_antisym (base_sym (comm_key a)) (base_sym (comm_key b))).
  rewrite (str_compare_antisym (comm_key a) (comm_key b)).
  destruct (str_compare (base_sym (comm_key a)) (base_sym (comm_key b))); cbn; try discriminate.
  - destruct (str_compare (comm_key a) (comm_key b)); cbn; try discriminate. intros _. right. split; reflexivity.
  - intros _. left. reflexivity.
Qed.

Lemma comm_le_true a b : comm_le a b = true -> key_lt a b \/ comm_key a = comm_key b.
Proof.
  unfold comm_le, key_lt. destruct (str_compare (base_sym (comm_key a)) (base_sym (comm_key b))) eqn:E1; try discriminate.
  - destruct (str_compare (comm_key a) (comm_key b)) eqn:E2; try discriminate; intros _.
    + right. apply str_compare_eq. exact E2.
    + left. right. split; reflexivity.
  - intros _. left. left. reflexivity.
Qed.

Lemma key_lt_trans a b c : key_lt a b -> key_lt b c -> key_lt a c.
Proof.
  unfold key_lt. intros [H1|[H1 H1']] [H2|[H2 H2']].
  - left. eapply str_compare_trans; eassumption.
  - left. apply str_compare_eq in H2. rewrite <- H2. exact H1.
  - left. apply str_compare_eq in H1. rewrite H1. exact H2.
  - right. split.
    + apply str_compare_eq in H1, H2. rewrite H1, H2. apply str_compare_refl.
    + eapply str_compare_trans; eassumption.
Qed.

Lemma key_lt_irrefl a : ~ key_lt a a.
Proof. unfold key_lt. rewrite !str_compare_refl. intros [H|[_ H]]; discriminate. Qed.

(* ---- insertion into a strictly sorted list with a fresh key ---- *)
Definition fresh (a : amount) (l : list amount) : Prop := forall x, In x l -> comm_key x <> comm_key a.

Lemma insert_sorted_perm a l : Permutation (a :: l) (insert_sorted a l).
Proof.
  induction l as [|x l IH]; cbn [insert_sorted]; [apply Permutation_refl|].
  destruct (comm_le a x); [apply Permutation_refl|].
  eapply Permutation_trans; [apply perm_swap|]. constructor. exact IH.
Qed.

Lemma sorted_amounts_perm b : Permutation b (sorted_amounts b).
Proof.
  induction b as [|x b IH]; cbn [sorted_amounts fold_right]; [constructor|].
  fold (sorted_amounts b). eapply Permutation_trans; [|apply insert_sorted_perm]. constructor. exact IH.
Qed.

Lemma insert_sorted_sorted a l :
  StronglySorted key_lt l -> fresh a l -> StronglySorted key_lt (insert_sorted a l).
Proof.
  induction l as [|x l IH]; intros Hs Hf; cbn [insert_sorted].
  - constructor; [constructor | constructor].
  - inversion Hs as [|? ? Hs' Hall]; subst.
    destruct (comm_le a x) eqn:E.
    + assert (Hax : key_lt a x).
      { destruct (comm_le_true a x E) as [H|H]; [exact H|]. exfalso. apply (Hf x (or_introl eq_refl)). symmetry. exact H. }
      constructor; [exact Hs|]. constructor; [exact Hax|].
      rewrite Forall_forall in Hall |- *. intros y Hy. eapply key_lt_trans; [exact Hax | apply Hall; exact Hy].
    + constructor.
      * apply IH; [exact Hs'|]. intros y Hy. apply Hf. right. exact Hy.
      * rewrite Forall_forall in Hall |- *. intros y Hy.
        apply (Permutation_in _ (Permutation_sym (insert_sorted_perm a l))) in Hy.
        destruct Hy as [<-|Hy]; [apply comm_le_false_lt; exact E | apply Hall; exact Hy].
Qed.

Definition distinct_keys (b : list amount) : Prop := NoDup (map comm_key b).

Lemma sorted_amounts_sorted b : distinct_keys b -> StronglySorted key_lt (sorted_amounts b).
Proof.
  unfold distinct_keys. induction b as [|x b IH]; cbn [sorted_amounts fold_right map]; intros Hn; [constructor|].
  fold (sorted_amounts b). inversion Hn as [|? ? Hnotin Hn']; subst.
  apply insert_sorted_sorted; [apply IH; exact Hn'|].
  intros y Hy Heq. apply Hnotin. rewrite <- Heq. apply in_map.
  apply (Permutation_in _ (Permutation_sym (sorted_amounts_perm b)) Hy).
Qed.

(* two strictly sorted permutations of each other are equal *)
Lemma sorted_perm_unique l : forall l',
  StronglySorted key_lt l -> StronglySorted key_lt l' -> Permutation l l' -> l = l'.
Proof.
  induction l as [|x l IH]; intros l' Hs Hs' Hp.
  - apply Permutation_nil in Hp. subst. reflexivity.
  - destruct l' as [|y l']; [apply Permutation_sym, Permutation_nil in Hp; discriminate|].
    inversion Hs as [|? ? Hsl Hall]; subst. inversion Hs' as [|? ? Hsl' Hall']; subst.
    rewrite Forall_forall in Hall, Hall'.
    assert (Hxy : x = y).
    { assert (Hx : In x (y :: l')) by (apply (Permutation_in _ Hp); left; reflexivity).
      assert (Hy : In y (x :: l)) by (apply (Permutation_in _ (Permutation_sym Hp)); left; reflexivity).
      destruct Hx as [Hx|Hx]; [symmetry; exact Hx|]. destruct Hy as [Hy|Hy]; [exact Hy|].
      exfalso. apply (key_lt_irrefl x). eapply key_lt_trans; [apply Hall; exact Hy | apply Hall'; exact Hx]. }
    subst y. f_equal. apply IH; [exact Hsl | exact Hsl'|]. apply (Permutation_cons_inv Hp).
Qed.

(* sorted_amounts does not depend on the order of the balance's representation *)
Theorem sorted_amounts_order_free b b' :
  distinct_keys b -> Permutation b b' -> sorted_amounts b = sorted_amounts b'.
Proof.
  intros Hn Hp. apply sorted_perm_unique.
  - apply sorted_amounts_sorted. exact Hn.
  - apply sorted_amounts_sorted. unfold distinct_keys in *.
    apply (Permutation_NoDup (Permutation_map comm_key Hp) Hn).
  - eapply Permutation_trans; [apply Permutation_sym, sorted_amounts_perm|].
    eapply Permutation_trans; [exact Hp | apply sorted_amounts_perm].
Qed.
