(* unistring::width (Model/Width.v): bounded by the length when negative answers are clamped. *)
From LedgerV Require Import Base.Prelude Model.Width.
Local Open Scope Z_scope.

Lemma wcw_range c : -1 <= wcw c <= 1.
Proof.
  unfold wcw. destruct (c =? 0); [lia|].
  destruct ((c <? 32) || ((127 <=? c) && (c <? 160))); lia.
Qed.

Lemma modulus_pos : 0 < size_modulus.
Proof. unfold size_modulus. lia. Qed.

Lemma cols_from_clamped acc s :
  0 <= acc -> acc + Z.of_nat (length s) < size_modulus ->
  acc <= cols_from true acc s <= acc + Z.of_nat (length s).
Proof.
  revert acc. induction s as [|c s IH]; intros acc H0 H1; cbn [length] in H1; cbn [cols_from length].
  - cbn. lia.
  - unfold char_cols. pose proof (wcw_range c) as Hw.
    assert (Z.of_nat (S (length s)) = Z.of_nat (length s) + 1) as E by lia.
    rewrite E in *. clear E.
    assert (0 <= Z.of_nat (length s)) as Hl by lia.
    set (m := Z.max 0 (wcw c)). assert (0 <= m <= 1) as Hm by (unfold m; lia).
    rewrite Z.mod_small by lia.
    specialize (IH (acc + m)). lia.
Qed.

(* with the clamp the width of a name is between 0 and its length (for every name shorter than
   2^64 characters - and a line holds at most MAX_LINE of them) *)
Lemma clamped_width_le_length s :
  Z.of_nat (length s) < size_modulus -> 0 <= ustr_width true s <= Z.of_nat (length s).
Proof. intros H. unfold ustr_width. pose proof (cols_from_clamped 0 s). lia. Qed.

(* so a name is cut only when it is longer than the column *)
Lemma clamped_cut_only_when_longer s columns :
  Z.of_nat (length s) < size_modulus -> is_cut true s columns = true -> columns < Z.of_nat (length s).
Proof.
  intros H. unfold is_cut. intros Hc. apply andb_true_iff in Hc as [_ Hc].
  apply Z.ltb_lt in Hc. pose proof (clamped_width_le_length s H). lia.
Qed.

(* without it: one control character is 2^64 - 1 columns wide *)
Lemma raw_width_wraps : ustr_width false [1] = size_modulus - 1.
Proof. reflexivity. Qed.

Lemma raw_width_exceeds_length : exists s, Z.of_nat (length s) < ustr_width false s.
Proof. exists [1; 1; 1; 58; 66]. vm_compute. reflexivity. Qed.

(* the statement about the width as the SOURCE computes it, whichever way the source does *)
Lemma width_as_in_source (clamp : bool) :
  if clamp then forall s, Z.of_nat (length s) < size_modulus -> 0 <= ustr_width clamp s <= Z.of_nat (length s)
  else exists s, Z.of_nat (length s) < ustr_width clamp s.
Proof. destruct clamp; [exact clamped_width_le_length | exact raw_width_exceeds_length]. Qed.
