(* Lemmas about Base/Calendar.v: round trips, order, weekday, month arithmetic, and the
   agreement of boost::gregorian's algorithms with the era-based ones.
   Technique: arithmetic (lia over the div/mod equations) where the statement is linear,
   and vm_compute sweeps over one 400-year cycle (146097 days, via Calendar.range_check:
   binary N.iter, no unary fuel) lifted to all of Z by periodicity lemmas. *)
From Coq Require Import ZArith List Bool Lia.
From LedgerV Require Import Base.Calendar.
Local Open Scope Z_scope.

(* ------------------------------------------------------------------ range_check *)
Lemma range_check_inv f lo n :
  fst (N.iter n (fun p : Z * bool => (fst p + 1, snd p && f (fst p))) (lo, true)) = lo + Z.of_N n /\
  (snd (N.iter n (fun p : Z * bool => (fst p + 1, snd p && f (fst p))) (lo, true)) = true ->
   forall z, lo <= z < lo + Z.of_N n -> f z = true).
Proof.
  induction n as [|n IH] using N.peano_ind.
  - cbn. split; [lia | intros _ z Hz; lia].
  - rewrite N.iter_succ. destruct IH as [IH1 IH2].
    set (st := N.iter n _ _) in *. cbn [fst snd]. split.
    + rewrite IH1. lia.
    + intros H z Hz. apply andb_true_iff in H as [Ha Hb].
      destruct (Z.eq_dec z (lo + Z.of_N n)) as [->|Hne].
      * rewrite <- IH1. exact Hb.
      * apply IH2; [exact Ha | lia].
Qed.

Lemma range_check_spec f lo n :
  range_check f lo n = true -> forall z, lo <= z < lo + Z.of_N n -> f z = true.
Proof. intros H. apply (proj2 (range_check_inv f lo n)). exact H. Qed.

(* ------------------------------------------------------------------ leap years *)
Lemma mod_period a b k : b <> 0 -> (a + b * k) mod b = a mod b.
Proof. intros Hb. rewrite Z.mul_comm. apply Z.mod_add. exact Hb. Qed.

Lemma is_leap_period y k : is_leap (y + 400 * k) = is_leap y.
Proof.
  unfold is_leap.
  replace ((y + 400 * k) mod 4) with (y mod 4) by (Z.div_mod_to_equations; lia).
  replace ((y + 400 * k) mod 100) with (y mod 100) by (Z.div_mod_to_equations; lia).
  replace ((y + 400 * k) mod 400) with (y mod 400) by (Z.div_mod_to_equations; lia).
  reflexivity.
Qed.

Lemma days_in_month_period y m k : days_in_month (y + 400 * k) m = days_in_month y m.
Proof. unfold days_in_month. rewrite is_leap_period. reflexivity. Qed.

Lemma valid_ymd_period y m d k : valid_ymd (y + 400 * k) m d <-> valid_ymd y m d.
Proof. unfold valid_ymd. rewrite days_in_month_period. tauto. Qed.

Lemma valid_ymdb_spec y m d : valid_ymdb y m d = true <-> valid_ymd y m d.
Proof.
  unfold valid_ymdb, valid_ymd. rewrite !andb_true_iff, !Z.leb_le. tauto.
Qed.

Lemma days_in_month_range y m : 28 <= days_in_month y m <= 31.
Proof.
  unfold days_in_month. destruct (m =? 2); [destruct (is_leap y); lia|].
  destruct ((m =? 4) || (m =? 6) || (m =? 9) || (m =? 11)); lia.
Qed.

Lemma is_leap_cases y :
  (is_leap y = true /\ y mod 4 = 0 /\ (y mod 100 <> 0 \/ y mod 400 = 0)) \/
  (is_leap y = false /\ (y mod 4 <> 0 \/ (y mod 100 = 0 /\ y mod 400 <> 0))).
Proof.
  unfold is_leap.
  destruct (Z.eqb_spec (y mod 4) 0), (Z.eqb_spec (y mod 100) 0), (Z.eqb_spec (y mod 400) 0);
    cbn; intuition lia.
Qed.

(* ------------------------------------------------------------------ periodicity *)
Lemma days_from_civil_period y m d k :
  days_from_civil (y + 400 * k) m d = days_from_civil y m d + 146097 * k.
Proof.
  unfold days_from_civil. destruct (m <=? 2); Z.div_mod_to_equations; lia.
Qed.

Lemma civil_from_days_period z k :
  civil_from_days (z + 146097 * k) =
  let '(y, m, d) := civil_from_days z in (y + 400 * k, m, d).
Proof.
  unfold civil_from_days. cbv zeta.
  replace ((z + 146097 * k + 719468) / 146097) with ((z + 719468) / 146097 + k)
    by (Z.div_mod_to_equations; lia).
  replace (z + 146097 * k + 719468 - ((z + 719468) / 146097 + k) * 146097)
    with (z + 719468 - (z + 719468) / 146097 * 146097) by ring.
  set (doe := z + 719468 - (z + 719468) / 146097 * 146097).
  set (yoe := (doe - doe / 1460 + doe / 36524 - doe / 146096) / 365).
  set (doy := doe - (365 * yoe + yoe / 4 - yoe / 100)).
  set (mp := (5 * doy + 2) / 153).
  destruct ((if mp <? 10 then mp + 3 else mp - 9) <=? 2); f_equal; f_equal; ring.
Qed.

(* ------------------------------------------------------------------ order *)
(* 1 January of year y, and the days of the year before month m *)
Definition jan1 (y : Z) : Z := 365 * (y - 1) + (y - 1) / 4 - (y - 1) / 100 + (y - 1) / 400 - 719162.

Definition cum_days (leap : bool) (m : Z) : Z :=
  let l := if leap then 1 else 0 in
  if m =? 1 then 0 else if m =? 2 then 31 else if m =? 3 then 59 + l else if m =? 4 then 90 + l
  else if m =? 5 then 120 + l else if m =? 6 then 151 + l else if m =? 7 then 181 + l
  else if m =? 8 then 212 + l else if m =? 9 then 243 + l else if m =? 10 then 273 + l
  else if m =? 11 then 304 + l else 334 + l.

Lemma month_cases m : 1 <= m <= 12 ->
  m = 1 \/ m = 2 \/ m = 3 \/ m = 4 \/ m = 5 \/ m = 6 \/ m = 7 \/ m = 8 \/ m = 9 \/ m = 10 \/ m = 11 \/ m = 12.
Proof. lia. Qed.

Ltac month_split H :=
  apply month_cases in H;
  destruct H as [H|[H|[H|[H|[H|[H|[H|[H|[H|[H|[H|H]]]]]]]]]]]; subst.

Lemma dfc_decomp y m d : 1 <= m <= 12 ->
  days_from_civil y m d = jan1 y + cum_days (is_leap y) m + d - 1.
Proof.
  intros Hm. destruct (is_leap_cases y) as [[L A]|[L A]]; rewrite L;
  month_split Hm; unfold days_from_civil, jan1, cum_days;
    cbn [Z.leb Z.eqb Z.compare Pos.compare Pos.compare_cont Pos.eqb];
    Z.div_mod_to_equations; lia.
Qed.

Lemma jan1_succ y : jan1 (y + 1) = jan1 y + days_in_year y.
Proof.
  unfold jan1, days_in_year. replace (y + 1 - 1) with y by ring.
  destruct (is_leap_cases y) as [[L A]|[L A]]; rewrite L; Z.div_mod_to_equations; lia.
Qed.

Lemma jan1_mono y1 y2 : y1 <= y2 -> jan1 y1 <= jan1 y2.
Proof.
  intros H. pattern y2. apply Z.le_ind with (n := y1); [intros a b ->; tauto | lia | | exact H].
  intros m _ IH. replace (Z.succ m) with (m + 1) by lia. rewrite jan1_succ.
  unfold days_in_year. destruct (is_leap m); lia.
Qed.

Lemma cum_days_next leap y m : 1 <= m <= 11 -> leap = is_leap y ->
  cum_days leap (m + 1) = cum_days leap m + days_in_month y m.
Proof.
  intros Hm ->. assert (Hm' : 1 <= m <= 12) by lia.
  month_split Hm'; try lia; unfold cum_days, days_in_month; cbn; destruct (is_leap y); reflexivity.
Qed.

Lemma cum_days_mono leap m1 m2 : 1 <= m1 -> m1 <= m2 -> m2 <= 12 -> cum_days leap m1 <= cum_days leap m2.
Proof.
  intros H1 H H2. assert (A : 1 <= m1 <= 12) by lia. assert (B : 1 <= m2 <= 12) by lia.
  month_split A; month_split B; try lia; unfold cum_days; cbn; destruct leap; lia.
Qed.

Lemma cum_days_end y m : 1 <= m <= 12 ->
  cum_days (is_leap y) m + days_in_month y m <= days_in_year y.
Proof.
  intros A. month_split A; unfold cum_days, days_in_month, days_in_year; cbn; destruct (is_leap y); lia.
Qed.

Lemma days_lt_of_ymd_lt y1 m1 d1 y2 m2 d2 :
  valid_ymd y1 m1 d1 -> valid_ymd y2 m2 d2 -> ymd_lt (y1, m1, d1) (y2, m2, d2) ->
  days_from_civil y1 m1 d1 < days_from_civil y2 m2 d2.
Proof.
  intros [M1 D1] [M2 D2] L. rewrite !dfc_decomp by assumption.
  cbn in L. destruct L as [Ly | [-> [Lm | [-> Ld]]]].
  - pose proof (jan1_mono (y1 + 1) y2 ltac:(lia)) as J. rewrite jan1_succ in J.
    pose proof (cum_days_end y1 m1 M1). pose proof (cum_days_mono (is_leap y2) 1 m2 ltac:(lia) ltac:(lia) ltac:(lia)) as C.
    unfold cum_days at 1 in C. cbn in C. lia.
  - pose proof (cum_days_next (is_leap y2) y2 m1 ltac:(lia) eq_refl).
    pose proof (cum_days_mono (is_leap y2) (m1 + 1) m2 ltac:(lia) ltac:(lia) ltac:(lia)). lia.
  - lia.
Qed.

Lemma ymd_trichotomy (a b : ymd) : ymd_lt a b \/ a = b \/ ymd_lt b a.
Proof.
  destruct a as [[y1 m1] d1], b as [[y2 m2] d2]. cbn.
  destruct (Z.lt_total y1 y2) as [|[->|]]; [tauto| |tauto].
  destruct (Z.lt_total m1 m2) as [|[->|]]; [tauto| |tauto].
  destruct (Z.lt_total d1 d2) as [|[->|]]; tauto.
Qed.

Lemma order_correct y1 m1 d1 y2 m2 d2 :
  valid_ymd y1 m1 d1 -> valid_ymd y2 m2 d2 ->
  (ymd_lt (y1, m1, d1) (y2, m2, d2) <-> days_from_civil y1 m1 d1 < days_from_civil y2 m2 d2).
Proof.
  intros V1 V2. split; [apply days_lt_of_ymd_lt; assumption|].
  intros H. destruct (ymd_trichotomy (y1, m1, d1) (y2, m2, d2)) as [L|[E|L]]; [exact L| |].
  - injection E as -> -> ->. lia.
  - apply days_lt_of_ymd_lt in L; [lia | assumption | assumption].
Qed.

Lemma days_from_civil_inj y1 m1 d1 y2 m2 d2 :
  valid_ymd y1 m1 d1 -> valid_ymd y2 m2 d2 ->
  days_from_civil y1 m1 d1 = days_from_civil y2 m2 d2 -> (y1, m1, d1) = (y2, m2, d2).
Proof.
  intros V1 V2 E. destruct (ymd_trichotomy (y1, m1, d1) (y2, m2, d2)) as [L|[E'|L]]; [|exact E'|].
  - apply days_lt_of_ymd_lt in L; [lia | assumption | assumption].
  - apply days_lt_of_ymd_lt in L; [lia | assumption | assumption].
Qed.
Lemma ymd_ltb_spec a b : ymd_ltb a b = true <-> ymd_lt a b.
Proof.
  destruct a as [[y1 m1] d1], b as [[y2 m2] d2]. cbn.
  rewrite !orb_true_iff, !andb_true_iff, !orb_true_iff, !andb_true_iff, !Z.ltb_lt, !Z.eqb_eq. tauto.
Qed.

(* ------------------------------------------------------------------ round trips (days -> civil -> days) *)
Definition ymd_eqb (a b : ymd) : bool :=
  let '(y1, m1, d1) := a in let '(y2, m2, d2) := b in (y1 =? y2) && (m1 =? m2) && (d1 =? d2).

Lemma ymd_eqb_eq a b : ymd_eqb a b = true -> a = b.
Proof.
  destruct a as [[y1 m1] d1], b as [[y2 m2] d2]. cbn.
  rewrite !andb_true_iff, !Z.eqb_eq. intros [[-> ->] ->]. reflexivity.
Qed.

(* one sweep over the 146097 days of a 400-year cycle: civil_from_days yields a valid
   triple whose day number is the argument, and boost's from_day_number agrees with it *)
Definition day_check (z : Z) : bool :=
  let '(y, m, d) := civil_from_days z in
  valid_ymdb y m d && (days_from_civil y m d =? z) &&
  ymd_eqb (boost_from_day_number (z + boost_epoch_offset)) (y, m, d).

Lemma day_sweep : range_check day_check 0 146097 = true (*SWEEP*).
Proof. vm_cast_no_check (eq_refl true). Qed.

Lemma day_check_cycle z : 0 <= z < 146097 -> day_check z = true.
Proof. intros H. apply (range_check_spec day_check 0 146097 day_sweep). cbn. lia. Qed.

Lemma days_roundtrip z :
  let '(y, m, d) := civil_from_days z in valid_ymd y m d /\ days_from_civil y m d = z.
Proof.
  assert (Hz : z = z mod 146097 + 146097 * (z / 146097)) by (Z.div_mod_to_equations; lia).
  assert (H0 : 0 <= z mod 146097 < 146097) by (apply Z.mod_pos_bound; lia).
  rewrite Hz, civil_from_days_period.
  pose proof (day_check_cycle _ H0) as Hc.
  unfold day_check in Hc. destruct (civil_from_days (z mod 146097)) as [[y m] d].
  apply andb_true_iff in Hc as [Hc _].
  apply andb_true_iff in Hc as [Hv He]. apply valid_ymdb_spec in Hv. apply Z.eqb_eq in He.
  split; [apply valid_ymd_period; exact Hv | rewrite days_from_civil_period; lia].
Qed.

Lemma civil_from_days_valid z y m d : civil_from_days z = (y, m, d) -> valid_ymd y m d.
Proof. intros H. pose proof (days_roundtrip z) as R. rewrite H in R. tauto. Qed.

Lemma days_from_civil_of_civil z y m d : civil_from_days z = (y, m, d) -> days_from_civil y m d = z.
Proof. intros H. pose proof (days_roundtrip z) as R. rewrite H in R. tauto. Qed.


(* civil_roundtrip: from days_roundtrip and the injectivity of days_from_civil *)
Lemma civil_roundtrip y m d :
  valid_ymd y m d -> civil_from_days (days_from_civil y m d) = (y, m, d).
Proof.
  intros V. destruct (civil_from_days (days_from_civil y m d)) as [[y' m'] d'] eqn:E.
  apply days_from_civil_inj; [eapply civil_from_days_valid; exact E | exact V |].
  eapply days_from_civil_of_civil; exact E.
Qed.

(* ------------------------------------------------------------------ weekday *)
Lemma weekday_range z : 0 <= weekday z < 7.
Proof. unfold weekday. apply Z.mod_pos_bound. lia. Qed.

Lemma weekday_period z : weekday (z + 7) = weekday z.
Proof. unfold weekday. Z.div_mod_to_equations. lia. Qed.

Lemma weekday_period_k z k : weekday (z + 7 * k) = weekday z.
Proof. unfold weekday. Z.div_mod_to_equations. lia. Qed.

Lemma weekday_succ z : weekday (z + 1) = (weekday z + 1) mod 7.
Proof. unfold weekday. Z.div_mod_to_equations. lia. Qed.

(* anchors: 1970-01-01 Thursday, 2000-01-01 Saturday, 1900-01-01 Monday, 2021-06-15 Tuesday *)
Lemma weekday_anchor_1970 : weekday (days_from_civil 1970 1 1) = 4.
Proof. reflexivity. Qed.
Lemma weekday_anchor_2000 : weekday (days_from_civil 2000 1 1) = 6.
Proof. reflexivity. Qed.
Lemma weekday_anchor_1900 : weekday (days_from_civil 1900 1 1) = 1.
Proof. reflexivity. Qed.
Lemma weekday_anchor_2021 : weekday (days_from_civil 2021 6 15) = 2.
Proof. reflexivity. Qed.

(* the weekday of any date is the anchor's weekday advanced by the number of days between *)
Lemma weekday_from_anchor z a : weekday z = (weekday a + (z - a)) mod 7.
Proof. unfold weekday. Z.div_mod_to_equations. lia. Qed.

(* the Gregorian calendar repeats, weekdays included, every 400 years *)
Lemma weekday_400_years y m d k :
  weekday (days_from_civil (y + 400 * k) m d) = weekday (days_from_civil y m d).
Proof.
  rewrite days_from_civil_period. replace (146097 * k) with (7 * (20871 * k)) by ring.
  apply weekday_period_k.
Qed.

(* boost's closed formula (greg_calendar.ipp day_of_week) is the weekday of the day number *)
Lemma boost_day_of_week_correct y m d :
  1 <= m <= 12 -> boost_day_of_week y m d = weekday (days_from_civil y m d).
Proof.
  intros Hm. rewrite dfc_decomp by assumption. unfold weekday, boost_day_of_week, jan1.
  destruct (is_leap_cases y) as [[L A]|[L A]]; rewrite L;
  month_split Hm; unfold cum_days;
    cbn [Z.eqb Pos.eqb];
    Z.div_mod_to_equations; lia.
Qed.

(* ------------------------------------------------------------------ boost day numbers *)
Lemma boost_day_number_eq y m d :
  1 <= m <= 12 -> boost_day_number y m d = days_from_civil y m d + boost_epoch_offset.
Proof.
  intros Hm. rewrite dfc_decomp by assumption. unfold boost_day_number, boost_epoch_offset, jan1.
  destruct (is_leap_cases y) as [[L A]|[L A]]; rewrite L;
  month_split Hm; unfold cum_days;
    cbn [Z.eqb Pos.eqb];
    Z.div_mod_to_equations; lia.
Qed.

Lemma boost_from_day_number_period dn k :
  boost_from_day_number (dn + 146097 * k) =
  let '(y, m, d) := boost_from_day_number dn in (y + 400 * k, m, d).
Proof.
  unfold boost_from_day_number. cbv zeta.
  replace ((4 * (dn + 146097 * k + 32044) + 3) / 146097) with ((4 * (dn + 32044) + 3) / 146097 + 4 * k)
    by (Z.div_mod_to_equations; lia).
  set (b := (4 * (dn + 32044) + 3) / 146097).
  replace (dn + 146097 * k + 32044 - 146097 * (b + 4 * k) / 4) with (dn + 32044 - 146097 * b / 4)
    by (Z.div_mod_to_equations; lia).
  set (c := dn + 32044 - 146097 * b / 4).
  f_equal. f_equal. ring.
Qed.

Lemma boost_from_day_number_eq dn :
  boost_from_day_number dn = civil_from_days (dn - boost_epoch_offset).
Proof.
  set (z := dn - boost_epoch_offset).
  assert (Hz : z = z mod 146097 + 146097 * (z / 146097)) by (Z.div_mod_to_equations; lia).
  assert (H0 : 0 <= z mod 146097 < 146097) by (apply Z.mod_pos_bound; lia).
  replace dn with (z mod 146097 + boost_epoch_offset + 146097 * (z / 146097)) by (unfold z in *; lia).
  rewrite Hz at 3. rewrite boost_from_day_number_period, civil_from_days_period.
  pose proof (day_check_cycle _ H0) as Hc. unfold day_check in Hc.
  destruct (civil_from_days (z mod 146097)) as [[y m] d].
  apply andb_true_iff in Hc as [_ Hc]. apply ymd_eqb_eq in Hc. rewrite Hc. reflexivity.
Qed.

Lemma boost_roundtrip y m d :
  valid_ymd y m d -> boost_from_day_number (boost_day_number y m d) = (y, m, d).
Proof.
  intros V. rewrite boost_from_day_number_eq, boost_day_number_eq by apply V.
  replace (days_from_civil y m d + boost_epoch_offset - boost_epoch_offset) with (days_from_civil y m d) by ring.
  apply civil_roundtrip. exact V.
Qed.

Lemma boost_from_day_number_valid dn y m d :
  boost_from_day_number dn = (y, m, d) -> valid_ymd y m d /\ boost_day_number y m d = dn.
Proof.
  rewrite boost_from_day_number_eq. intros H. split.
  - eapply civil_from_days_valid; exact H.
  - rewrite boost_day_number_eq by (apply (civil_from_days_valid _ _ _ _ H)).
    rewrite (days_from_civil_of_civil _ _ _ _ H). ring.
Qed.

Lemma boost_order y1 m1 d1 y2 m2 d2 :
  valid_ymd y1 m1 d1 -> valid_ymd y2 m2 d2 ->
  (ymd_lt (y1, m1, d1) (y2, m2, d2) <-> boost_day_number y1 m1 d1 < boost_day_number y2 m2 d2).
Proof.
  intros V1 V2. rewrite !boost_day_number_eq by (apply V1 || apply V2).
  rewrite (order_correct _ _ _ _ _ _ V1 V2). lia.
Qed.

(* ------------------------------------------------------------------ date arithmetic *)
Lemma add_days_0 y m d : valid_ymd y m d -> add_days (y, m, d) 0 = (y, m, d).
Proof. intros V. unfold add_days. rewrite Z.add_0_r. apply civil_roundtrip. exact V. Qed.

Lemma add_days_valid t n y m d : add_days t n = (y, m, d) -> valid_ymd y m d.
Proof. destruct t as [[y0 m0] d0]. unfold add_days. apply civil_from_days_valid. Qed.

Lemma add_days_add y m d a b :
  add_days (add_days (y, m, d) a) b = add_days (y, m, d) (a + b).
Proof.
  unfold add_days at 2. destruct (civil_from_days (days_from_civil y m d + a)) as [[y1 m1] d1] eqn:E.
  unfold add_days. rewrite (days_from_civil_of_civil _ _ _ _ E). f_equal. ring.
Qed.

Lemma add_days_weekday y m d n y' m' d' :
  add_days (y, m, d) n = (y', m', d') ->
  weekday (days_from_civil y' m' d') = (weekday (days_from_civil y m d) + n) mod 7.
Proof.
  unfold add_days. intros E. rewrite (days_from_civil_of_civil _ _ _ _ E).
  unfold weekday. Z.div_mod_to_equations. lia.
Qed.

Lemma add_months_valid y m d n y' m' d' :
  valid_ymd y m d -> add_months (y, m, d) n = (y', m', d') -> valid_ymd y' m' d'.
Proof.
  intros [Vm Vd] E. unfold add_months in E. injection E as <- <- <-.
  set (k := m - 1 + n). assert (0 <= k mod 12 < 12) by (apply Z.mod_pos_bound; lia).
  pose proof (days_in_month_range (y + k / 12) (k mod 12 + 1)).
  split; [lia|]. destruct (d =? days_in_month y m); lia.
Qed.

Lemma add_months_month y m d n :
  1 <= m <= 12 ->
  let '(y', m', _) := add_months (y, m, d) n in 12 * y' + (m' - 1) = 12 * y + (m - 1) + n.
Proof. intros Hm. unfold add_months. Z.div_mod_to_equations. lia. Qed.

Lemma add_months_0 y m d : valid_ymd y m d -> add_months (y, m, d) 0 = (y, m, d).
Proof.
  intros [Vm Vd]. unfold add_months. rewrite Z.add_0_r.
  replace ((m - 1) / 12) with 0 by (Z.div_mod_to_equations; lia).
  replace ((m - 1) mod 12 + 1) with m by (Z.div_mod_to_equations; lia).
  rewrite Z.add_0_r. destruct (Z.eqb_spec d (days_in_month y m)); f_equal; lia.
Qed.

(* the end-of-month rule: a last-day-of-month date lands on the last day of the target
   month; any other date keeps its day of the month unless the target month is shorter *)
Lemma add_months_day y m d n :
  let '(y', m', d') := add_months (y, m, d) n in
  if d =? days_in_month y m then d' = days_in_month y' m' else d' = Z.min d (days_in_month y' m').
Proof. unfold add_months. destruct (d =? days_in_month y m); reflexivity. Qed.

Lemma add_years_same_month y m d n :
  1 <= m <= 12 -> let '(y', m', _) := add_years (y, m, d) n in y' = y + n /\ m' = m.
Proof. intros Hm. unfold add_years, add_months. Z.div_mod_to_equations. lia. Qed.

(* observed on ledger: Jan 31 -> Feb 29 -> Mar 31 -> Apr 30 -> May 31 in 2020, and
   28 Feb 2021 minus one year = 29 Feb 2020 (end of month maps to end of month) *)
Example add_months_chain_2020 :
  add_months (2020, 1, 31) 1 = (2020, 2, 29) /\ add_months (2020, 2, 29) 1 = (2020, 3, 31) /\
  add_months (2020, 3, 31) 1 = (2020, 4, 30) /\ add_months (2020, 4, 30) 1 = (2020, 5, 31) /\
  add_years (2021, 2, 28) (-1) = (2020, 2, 29) /\ add_years (2020, 2, 29) 1 = (2021, 2, 28) /\
  add_months (2021, 1, 30) 1 = (2021, 2, 28) /\ add_months (2021, 3, 15) (-3) = (2020, 12, 15).
Proof. repeat split. Qed.
