(* Proofs about the period-stepping model (Model/Stepping.v): the variant of stabilize's
   catch-up loop, its termination, and why a zero quantity must be rejected. *)
From LedgerV Require Import Base.Prelude Model.Stepping.
Local Open Scope Z_scope.

(* the variant: one step of at least one unit moves the date strictly forward *)
Lemma add_dur_increasing_proof ms q n d :
  month_step_ok ms -> 1 <= n -> d < add_dur ms q n d.
Proof.
  intros Hms Hn. destruct q; cbn [add_dur months_of]; try lia.
  - pose proof (Hms d n ltac:(lia)). lia.
  - pose proof (Hms d (3 * n) ltac:(lia)). lia.
  - pose proof (Hms d (12 * n) ltac:(lia)). lia.
Qed.

(* the loop terminates: date - start iterations always suffice, and the result is the last
   interval start not after the date (the next one lies beyond it) *)
Lemma catch_up_terminates_gen ms q n :
  month_step_ok ms -> 1 <= n ->
  forall fuel start date, (Z.to_nat (date - start) <= fuel)%nat ->
    exists s, catch_up ms q n fuel start date = Ok s /\ start <= s /\
              (start < date -> s <= date /\ date < add_dur ms q n s).
Proof.
  intros Hms Hn. induction fuel as [|f IH]; intros start date Hf.
  - exists start. cbn [catch_up].
    destruct (start <? date) eqn:E; [apply Z.ltb_lt in E; lia|].
    apply Z.ltb_ge in E. repeat split; lia.
  - cbn [catch_up].
    destruct (start <? date) eqn:E.
    + apply Z.ltb_lt in E.
      pose proof (add_dur_increasing_proof ms q n start Hms Hn) as Hinc.
      destruct (add_dur ms q n start <=? date) eqn:E2.
      * apply Z.leb_le in E2.
        destruct (IH (add_dur ms q n start) date ltac:(lia)) as [s [Hs [Hle Hpost]]].
        exists s. split; [exact Hs|]. split; [lia|]. intros _.
        destruct (Z.eq_dec (add_dur ms q n start) date) as [Heq|Hne].
        -- (* landed exactly on the date: the loop stops there *)
           rewrite Heq in Hs. destruct f; cbn [catch_up] in Hs; rewrite Z.ltb_irrefl in Hs;
             injection Hs as <-;
             (split; [lia | apply add_dur_increasing_proof; assumption]).
        -- apply Hpost. lia.
      * apply Z.leb_gt in E2. exists start. repeat split; lia.
    + apply Z.ltb_ge in E. exists start. repeat split; lia.
Qed.

Lemma catch_up_terminates_proof ms q n start date :
  month_step_ok ms -> 1 <= n ->
  exists s, catch_up ms q n (catch_up_fuel start date) start date = Ok s /\ start <= s /\
            (start < date -> s <= date /\ date < add_dur ms q n s).
Proof.
  intros Hms Hn. apply catch_up_terminates_gen; try assumption. unfold catch_up_fuel. lia.
Qed.

(* never out of fuel, whatever larger fuel is given: the result is fuel-independent *)
Lemma catch_up_never_out_of_fuel ms q n start date fuel :
  month_step_ok ms -> 1 <= n -> (catch_up_fuel start date <= fuel)%nat ->
  catch_up ms q n fuel start date <> Err EOutOfFuel.
Proof.
  intros Hms Hn Hf H.
  destruct (catch_up_terminates_gen ms q n Hms Hn fuel start date) as [s [Hs _]].
  - unfold catch_up_fuel in Hf. exact Hf.
  - rewrite Hs in H. discriminate.
Qed.

(* a zero quantity makes no progress: no amount of fuel ends the loop (DAYS and WEEKS) *)
Lemma zero_quantity_never_terminates_proof ms q fuel start date :
  (q = Days \/ q = Weeks) -> start < date ->
  catch_up ms q 0 fuel start date = Err EOutOfFuel.
Proof.
  intros Hq Hlt. induction fuel as [|f IH]; cbn [catch_up].
  - replace (start <? date) with true by (symmetry; apply Z.ltb_lt; exact Hlt). reflexivity.
  - replace (start <? date) with true by (symmetry; apply Z.ltb_lt; exact Hlt).
    assert (Hadd : add_dur ms q 0 start = start) by (destruct Hq; subst q; cbn; lia).
    rewrite Hadd.
    replace (start <=? date) with true by (symmetry; apply Z.leb_le; lia).
    exact IH.
Qed.

(* what the period parser lets through *)
Lemma accept_quantity_guarded n n' :
  accept_quantity true n = Ok n' -> n' = n /\ 1 <= n <= 65535.
Proof.
  unfold accept_quantity. intros H.
  destruct ((n <? 0) || (65535 <? n)) eqn:E; [discriminate|].
  apply orb_false_iff in E as [E1 E2]. apply Z.ltb_ge in E1. apply Z.ltb_ge in E2.
  cbn [andb] in H. destruct (n =? 0) eqn:E3; [discriminate|]. apply Z.eqb_neq in E3.
  injection H as <-. lia.
Qed.

Lemma accept_quantity_unguarded_zero : accept_quantity false 0 = Ok 0.
Proof. reflexivity. Qed.

(* every accepted `every n <unit>` period makes the catch-up loop terminate *)
Lemma accepted_period_terminates_proof ms q n n' start date :
  month_step_ok ms -> accept_quantity true n = Ok n' ->
  exists s, catch_up ms q n' (catch_up_fuel start date) start date = Ok s.
Proof.
  intros Hms H. apply accept_quantity_guarded in H as [-> Hn].
  destruct (catch_up_terminates_proof ms q n start date Hms ltac:(lia)) as [s [Hs _]]. eauto.
Qed.

Lemma no_months_ok : month_step_ok no_months.
Proof. unfold month_step_ok, no_months. intros; lia. Qed.

(* closed form for day periods, which is what the correspondence check observes:
   the interval containing `date` starts at start + n * floor((date - start) / n) *)
Lemma catch_up_days_closed_form_gen n :
  1 <= n -> forall fuel start date ms, (Z.to_nat (date - start) <= fuel)%nat -> start <= date ->
  catch_up ms Days n fuel start date = Ok (start + n * ((date - start) / n)).
Proof.
  intros Hn. induction fuel as [|f IH]; intros start date ms Hf Hle.
  - assert (date = start) by lia. subst date. cbn [catch_up]. rewrite Z.ltb_irrefl.
    rewrite Z.sub_diag, Z.div_0_l by lia. f_equal. lia.
  - cbn [catch_up]. destruct (start <? date) eqn:E.
    + apply Z.ltb_lt in E. cbn [add_dur].
      destruct (start + n <=? date) eqn:E2.
      * apply Z.leb_le in E2. rewrite IH by lia. f_equal.
        replace (date - start) with ((date - (start + n)) + 1 * n) by lia.
        rewrite Z.div_add by lia. lia.
      * apply Z.leb_gt in E2. rewrite Z.div_small by lia. f_equal. lia.
    + apply Z.ltb_ge in E. assert (date = start) by lia. subst date.
      rewrite Z.sub_diag, Z.div_0_l by lia. f_equal. lia.
Qed.

Lemma catch_up_days_closed_form_proof n start date :
  1 <= n -> start <= date ->
  catch_up no_months Days n (catch_up_fuel start date) start date
  = Ok (start + n * ((date - start) / n)).
Proof. intros. apply catch_up_days_closed_form_gen; try assumption. unfold catch_up_fuel. lia. Qed.
